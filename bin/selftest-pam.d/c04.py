Q="qframe.go"; G="grouper.go"; K="config/groupby/config.go"
CASES=[
 ("no-columns: NewAscending(len)", [(Q,"g.indices = []index.Int{qf.index}","g.indices = []index.Int{index.NewAscending(uint32(qf.Len()))}")], "break"),
 ("Null flag not passed on", [(Q,"comparables := qf.comparables(config.Columns, orders, config.GroupByNull)\n\tindices, stats","comparables := qf.comparables(config.Columns, orders, false)\n\tindices, stats")], "break"),
 ("comparables: equalNull hard false", [(Q,"Comparable(false, groupByNull, false))","Comparable(false, false, false))")], "break"),
 ("comparables: reverse flag gets null", [(Q,"Comparable(false, groupByNull, false))","Comparable(groupByNull, false, false))")], "break"),
 ("orders built reversed", [(Q,"orders[i] = Order{Column: col}","orders[len(columns)-1-i] = Order{Column: col}")], "break"),
 ("empty-frame test dropped", [(Q,"\tif qf.Len() == 0 {\n\t\treturn g\n\t}\n\n\tif len(config.Columns) == 0 {","\tif len(config.Columns) == 0 {")], "break"),
 ("checkColumns dropped", [(Q,"\tif err := qf.checkColumns(\"Columns\", config.Columns); err != nil {\n\t\treturn Grouper{Err: err}\n\t}\n\n\tg := Grouper","\tg := Grouper")], "break"),
 ("grouper gets ascending index", [(Q,"indices, stats := grouper.GroupBy(qf.index, comparables)","indices, stats := grouper.GroupBy(index.NewAscending(uint32(qf.Len())), comparables)")], "break"),
 ("QFrames: withIndex ignores ix", [(Q,"return QFrame{Err: qf.Err, columns: qf.columns, columnsByName: qf.columnsByName, index: ix}","return QFrame{Err: qf.Err, columns: qf.columns, columnsByName: qf.columnsByName, index: qf.index}")], "break"),
 ("Aggregate: dup check dropped", [(G,"\t\t_, ok = newColumnsByName[newColumnName]\n\t\tif ok {\n\t\t\treturn QFrame{Err: qerrors.New(\n\t\t\t\t\"Aggregate\",\n\t\t\t\t\"cannot aggregate on column that is part of group by or is already an aggregate: %s\", newColumnName)}\n\t\t}\n","")], "break"),
 ("Aggregate: second row as key", [(G,"firstElementIx[i] = ix[0]","firstElementIx[i] = ix[len(ix)-1]")], "break"),
 ("Aggregate: As ignored", [(G,"\t\tif agg.As != \"\" {\n\t\t\tnewColumnName = agg.As\n\t\t}\n","")], "break"),
 ("Aggregate: count renamed 'cnt'", [(G,"if agg.Fn == \"count\" {","if agg.Fn == \"cnt\" {")], "break"),
 ("groupby.Null inverted", [(K,"c.GroupByNull = b","c.GroupByNull = !b")], "break"),
 ("Distinct: all columns not used", [(Q,"columns := qf.columnsOrAll(config.Columns)\n\torders := qf.orders(columns)\n\tcomparables := qf.comparables(columns, orders, config.GroupByNull)","columns := config.Columns\n\torders := qf.orders(columns)\n\tcomparables := qf.comparables(columns, orders, config.GroupByNull)")], "break"),
 ("rename locals in GroupBy", [(Q,"""	orders := qf.orders(config.Columns)
	comparables := qf.comparables(config.Columns, orders, config.GroupByNull)
	indices, stats := grouper.GroupBy(qf.index, comparables)
	g.indices = indices
	g.Stats = GroupStats(stats)
	return g""","""	os := qf.orders(config.Columns)
	cmps := qf.comparables(config.Columns, os, config.GroupByNull)
	groups, st := grouper.GroupBy(qf.index, cmps)
	g.indices = groups
	g.Stats = GroupStats(st)
	return g""")], "same"),
 ("rename helper checkColumns + param names", [(Q,"func (qf QFrame) checkColumns(operation string, columns []string) error {\n\tfor _, col := range columns {","func (qf QFrame) checkColumns(op string, cs []string) error {\n\tfor _, col := range cs {"),(Q,"return qerrors.New(operation, unknownCol(col))","return qerrors.New(op, unknownCol(col))")], "same"),
 ("rename locals in Aggregate", [(G,"firstElementIx","firstRows"),(G,"newColumnName","outName")], "same"),
]
