#!/usr/bin/env python3
"""self-test helper: st.py <GenFile.lean> <Props module> <cases.py>
cases.py defines CASES = [(name, file, old, new, expect)] with expect in {"same","break"}"""
import os, shutil, subprocess, sys, importlib.util
V=os.path.dirname(os.path.dirname(os.path.dirname(os.path.abspath(__file__))))
gen, mod, casefile = sys.argv[1], sys.argv[2], sys.argv[3]
spec=importlib.util.spec_from_file_location("cases", casefile); m=importlib.util.module_from_spec(spec); spec.loader.exec_module(m)
clone=os.path.join(V,".work/selftest/clone"); out=os.path.join(V,".work/selftest/out")
env=dict(os.environ, GOFLAGS="-mod=mod", GOPROXY="off", GOSUMDB="off", GOTOOLCHAIN="local")
real=os.path.join(V,"lean/QF/Gen",gen)
base=open(real).read()
ok=True
for name, edits, expect in m.CASES:
    shutil.rmtree(clone, ignore_errors=True); shutil.rmtree(out, ignore_errors=True)
    shutil.copytree("/repo", clone, ignore=shutil.ignore_patterns(".git"))
    for f, old, new in edits:
        p=os.path.join(clone,f); s=open(p).read()
        if old not in s: print("EDIT DID NOT APPLY", name, f, old); ok=False
        open(p,"w").write(s.replace(old,new))
    r=subprocess.run(["go","build","./..."],cwd=clone,env=env,capture_output=True,text=True)
    compiles = r.returncode==0
    subprocess.run([os.path.join(V,".build/extract"),"-repo",clone,"-out",out],check=True,env=env)
    g=open(os.path.join(out,gen)).read()
    if expect=="same":
        res = "ok" if g==base else "FAIL(changed)"
    else:
        if g==base: res="FAIL(unchanged)"
        else:
            open(real,"w").write(g)
            r=subprocess.run(["lake","build",mod],cwd=os.path.join(V,"lean"),capture_output=True,text=True)
            open(real,"w").write(base)
            errs=[l for l in r.stdout.splitlines() if l.startswith("error:")]
            res = ("ok (theorems fail: %s)" % (errs[0][:150] if errs else "?")) if r.returncode!=0 else "FAIL(theorems still pass)"
    if res.startswith("FAIL"): ok=False
    print("%-40s expect=%-5s go-compiles=%s -> %s" % (name, expect, compiles, res))
open(real,"w").write(base)
subprocess.run(["lake","build",mod],cwd=os.path.join(V,"lean"),capture_output=True)
shutil.rmtree(clone, ignore_errors=True); shutil.rmtree(out, ignore_errors=True)
print("SELFTEST", "PASS" if ok else "FAIL")
