B="internal/ecolumn/bitset.go"; C="internal/ecolumn/column.go"
CASES=[
 ("set >>5", [(B,"s[val>>6] |=","s[val>>5] |=")], "break"),
 ("isSet mask 0x1F", [(B,"s[val>>6]&(1<<(val&0x3F))","s[val>>6]&(1<<(val&0x1F))")], "break"),
 ("bitset [2]uint64", [(B,"type bitset [4]uint64","type bitset [2]uint64")], "break"),
 ("compVal < for ==", [(C,"if v == nullValue {\n\t\treturn -1","if v < nullValue {\n\t\treturn -1")], "break"),
 ("nullValue 254", [(C,"const nullValue = maxCardinality","const nullValue = maxCardinality - 1")], "break"),
 ("nullValue literal 254", [(C,"const nullValue = maxCardinality","const nullValue = 254")], "break"),
 ("subset by position", [(C,"for _, ix := range index {\n\t\tdata = append(data, c.data[ix])","for ix := range index {\n\t\tdata = append(data, c.data[ix])")], "break"),
 ("subset aliases data", [(C,"return Column{data: data, values: c.values, strict: c.strict}","return Column{data: c.data, values: c.values, strict: c.strict}")], "break"),
 ("subset drops strict", [(C,"return Column{data: data, values: c.values, strict: c.strict}","return Column{data: data, values: c.values}")], "break"),
 ("Subset returns receiver", [(C,"return c.subset(index)","return c")], "break"),
 ("rename val/s in bitset", [(B,"func (s *bitset) set(val enumVal) {\n\ts[val>>6] |= 1 << (val & 0x3F)","func (b *bitset) set(x enumVal) {\n\tb[x>>6] |= 1 << (x & 0x3F)")], "same"),
 ("|= written out, 63 decimal", [(B,"s[val>>6] |= 1 << (val & 0x3F)","s[val>>6] = s[val>>6] | (1 << (val & 63))")], "same"),
 ("rename locals in subset", [(C,"data := make([]enumVal, 0, len(index))\n\tfor _, ix := range index {\n\t\tdata = append(data, c.data[ix])\n\t}\n\n\treturn Column{data: data,","cells := make([]enumVal, 0, len(index))\n\tfor _, row := range index {\n\t\tcells = append(cells, c.data[row])\n\t}\n\n\treturn Column{data: cells,")], "same"),
 ("compVal flipped operands + else", [(C,"if v == nullValue {\n\t\treturn -1\n\t}\n\n\treturn int(v)","if nullValue == v {\n\t\treturn -1\n\t} else {\n\t\treturn int(v)\n\t}")], "same"),
]
