S="internal/scolumn/column.go"; I="internal/icolumn/column_gen.go"; F="internal/fcolumn/column_gen.go"
NEWLOOP="""			sLen := len(*s)
			pointers[i] = qfstrings.NewPointer(offset, sLen, false)
			offset += sLen
			data = append(data, *s...)"""
CASES=[
 ("offset before pointer", [(S,NEWLOOP,"""			sLen := len(*s)
			offset += sLen
			pointers[i] = qfstrings.NewPointer(offset, sLen, false)
			data = append(data, *s...)""")], "break"),
 ("null flag false", [(S,"pointers[i] = qfstrings.NewPointer(offset, 0, true)","pointers[i] = qfstrings.NewPointer(offset, 0, false)")], "break"),
 ("null length 1", [(S,"pointers[i] = qfstrings.NewPointer(offset, 0, true)","pointers[i] = qfstrings.NewPointer(offset, 1, true)")], "break"),
 ("no append", [(S,NEWLOOP,"""			sLen := len(*s)
			pointers[i] = qfstrings.NewPointer(offset, sLen, false)
			offset += sLen""")], "break"),
 ("NewBytes drops data", [(S,"return Column{pointers: pointers, data: bytes}","return Column{pointers: pointers}")], "break"),
 ("NewConst str offset 1", [(S,"pointers[i] = qfstrings.NewPointer(0, sLen, false)","pointers[i] = qfstrings.NewPointer(1, sLen, false)")], "break"),
 ("icolumn NewConst no fill", [(I,"	for i := range data {\n		data[i] = val\n	}\n","")], "break"),
 ("fcolumn NewConst fills other", [(F,"		data[i] = val\n","		data[i] = -val\n")], "break"),
 ("rename locals New", [(S,"""func New(strings []*string) Column {
	data := make([]byte, 0, len(strings))
	pointers := make([]qfstrings.Pointer, len(strings))
	offset := 0
	for i, s := range strings {
		if s == nil {
			pointers[i] = qfstrings.NewPointer(offset, 0, true)
		} else {
			sLen := len(*s)
			pointers[i] = qfstrings.NewPointer(offset, sLen, false)
			offset += sLen
			data = append(data, *s...)
		}
	}

	return NewBytes(pointers, data)""","""func New(strs []*string) Column {
	buf := make([]byte, 0)
	ptrs := make([]qfstrings.Pointer, len(strs))
	pos := 0
	for k, p := range strs {
		if p != nil {
			ptrs[k] = qfstrings.NewPointer(pos, len(*p), false)
			pos = pos + len(*p)
			buf = append(buf, *p...)
		} else {
			ptrs[k] = qfstrings.NewPointer(pos, 0, true)
		}
	}

	return NewBytes(ptrs, buf)""")], "same"),
 ("rename icolumn NewConst", [(I,"""	data := make([]int, count)
	for i := range data {
		data[i] = val
	}

	return Column{data: data}""","""	cells := make([]int, count)
	for k := range cells {
		cells[k] = val
	}
	return Column{data: cells}""")], "same"),
]
