"""Per-property configuration of bin/check: theorem modules, correspondence sections, ownership of operations."""

# which property owns a mismatch on which operation of the frame-history section (DESIGN.md §4 "Ownership")
OP_OWNER = {
    "reobserve": ["C01"],
    "filter": ["C02"],
    "sort": ["C03"],
    "groupagg": ["C04"], "groupframes": ["C04"],
    "distinct": ["C05"],
    "apply": ["C06"], "fapply": ["C06"], "rownums": ["C06"],
    "eval": ["C07"],
    "new": ["C08"], "select": ["C08"], "drop": ["C08"], "slice": ["C08"], "copy": ["C08"],
    "equals": ["C09"], "rebuild": ["C09"], "congruence": ["C09"],
    "tocsv": ["C09", "C13"], "csvroundtrip": ["C13"],
    "tojson": ["C09", "C14"], "tojsonfloat": ["C16"], "jsonroundtrip": ["C14"], "string": ["C09"],
    "wfault": ["C15"], "rfault": ["C15"],
    "wf": ["C10"], "callbacks": ["C10"],
    "sortadv": ["C03"], "conc": ["C11"], "grpadv": ["C04", "C05"],
    "ryu": ["C16"], "ryudec": ["C16"],
    "like": ["C18"], "likefilter": ["C18"], "quote": ["C14"],
    "tosql": ["C19"], "sqlread": ["C19"], "sqlfault": ["C15"], "sqlreadfault": ["C15"],
    "csvraw": ["C12"], "csvread": ["C12"],
    "csvfault": ["C15"], "csvreadfault": ["C15"],
}

BASE = "filter+sort+slice+select+drop+copy+apply+fapply+rownums+eval+distinct+groupagg+groupframes+equals+rebuild+tocsv+tojson+tosql+string+permute+permute"


def mix(*ops, w=3):
    """operation mix for the hist generator: the property's own operations w times, every other once"""
    return "ops=" + "+".join(list(ops) * w + BASE.split("+"))


def hist(tag, ops, quick=150, thorough=1500, cover=None):
    return {"section": "hist", "tag": tag, "opt": mix(*ops), "quick": quick, "thorough": thorough,
            "cover_ops": set(cover or ops)}


PROPS = {
    "C01": {"lean": ["QF.Props.C01", "QF.Props.C01Ops", "QF.Props.C08ProjectGen"], "extra_ns": ["QF.Props.C08ProjectGen"],
            "sections": [dict(hist("hist", ["apply", "copy", "rownums", "eval", "sort", "filter", "fapply"], quick=400, thorough=3000), cover_ops=None)],
            "rule": "every step of every generated history re-observes all earlier family members (digest of the full observation); "
                    "evaluations = observations compared; non-trivial = successful operation on a result with >= 2 rows; distinct by (operation, result)"},
    "C02": {"lean": ["QF.Props.C02", "QF.Props.C02Spec", "QF.Props.C02Mirror", "QF.Props.C02Kernels", "QF.Props.C02Dispatch", "QF.Props.C02ClausesCanon", "QF.Props.C02ClausesFns", "QF.Props.C02ClausesGen", "QF.Props.C02ClausesLink"], "extra_ns": ["QF.Props.C02Spec", "QF.Props.C02Mirror", "QF.Props.C02Kernels", "QF.Props.C02Dispatch", "QF.Props.C02ClausesGen"],
            "sections": [hist("hist", ["filter"]),
                         {"section": "hist", "tag": "hist-filter", "opt": "ops=filter+filter+filter+filter+sort+slice+distinct", "quick": 400, "thorough": 4000, "cover_ops": {"filter"}}]},
    "C03": {"lean": ["QF.Props.C03", "QF.Props.C03Spec", "QF.Props.C03Compare", "QF.Props.C10Guards", "QF.Props.C03SorterCanon", "QF.Props.C03SorterExec", "QF.Props.C03SorterFns", "QF.Props.C03SorterPivot", "QF.Props.C03SorterGen", "QF.Props.C03SorterLink"], "extra_ns": ["QF.Props.C03Compare", "QF.Props.C10Guards", "QF.Props.C03SorterGen"],
            "sections": [hist("hist", ["sort"]),
                         {"section": "sortadv", "quick": 300, "thorough": 3000, "cover_ops": {"SA"}}]},
    "C04": {"lean": ["QF.Props.C04", "QF.Props.C04Spec", "QF.Props.C03Compare", "QF.Props.C04Hash", "QF.Props.C04Aggregations", "QF.Props.C10Guards", "QF.Props.C04LoopsGen", "QF.Props.C04GrouperCanon", "QF.Props.C04GrouperFns", "QF.Props.C04GrouperGrow", "QF.Props.C04GrouperInsert", "QF.Props.C04GrouperTotal", "QF.Props.C04GrouperGen", "QF.Props.C04GrouperWitness"], "extra_ns": ["QF.Props.C04Spec", "QF.Props.C03Compare", "QF.Props.C04Hash", "QF.Props.C04Aggregations", "QF.Props.C10Guards", "QF.Props.C04LoopsGen", "QF.Props.C04GrouperGen"],
            "sections": [hist("hist", ["groupagg", "groupframes", "permute", "grouptest"], quick=300, cover=["groupagg", "groupframes"]),
                         {"section": "grpadv", "quick": 600, "thorough": 6000, "cover_ops": {"GA"}},
                         {"section": "grpadv", "tag": "grpbig", "opt": "big=1", "quick": 1, "thorough": 4, "cover_ops": {"GB"}}]},
    "C05": {"lean": ["QF.Props.C05", "QF.Props.C05Distinct", "QF.Props.C04", "QF.Props.C04Spec", "QF.Props.C03Compare", "QF.Props.C04Hash", "QF.Props.C10Guards", "QF.Props.C04GrouperCanon", "QF.Props.C04GrouperFns", "QF.Props.C04GrouperGrow", "QF.Props.C04GrouperInsert", "QF.Props.C04GrouperTotal", "QF.Props.C04GrouperGen", "QF.Props.C04GrouperWitness", "QF.Props.C05DistinctGen"], "extra_ns": ["QF.Props.C04", "QF.Props.C04Spec", "QF.Props.C03Compare", "QF.Props.C04Hash", "QF.Props.C10Guards", "QF.Props.C04GrouperGen"], "sections": [hist("hist", ["distinct"])]},
    "C06": {"lean": ["QF.Props.C06", "QF.Props.C06Apply", "QF.Props.C06LoopsGen"], "extra_ns": ["QF.Props.C06LoopsGen"],
            "sections": [{"section": "hist", "tag": "hist-wit", "opt": "wit=1", "quick": 1, "thorough": 1, "cover_ops": {"fapply"}},
                         hist("hist", ["apply", "fapply", "rownums"], quick=350, thorough=3000)]},
    "C07": {"lean": ["QF.Props.C07", "QF.Props.C07Eval", "QF.Props.C07Functions", "QF.Props.C06", "QF.Props.C07Decode", "QF.Props.C06LoopsGen", "QF.Props.C07EvalGen"], "extra_ns": ["QF.Props.C07Eval", "QF.Props.C07Functions", "QF.Props.C07Decode", "QF.Props.C06LoopsGen", "QF.Props.C07EvalGen"], "sections": [hist("hist", ["eval", "eval", "permute"], quick=300, cover=["eval"])]},
    "C08": {"lean": ["QF.Props.C08", "QF.Props.C08Project", "QF.Props.C08Guards", "QF.Props.C08Construct", "QF.Props.C08ProjectGen"], "extra_ns": ["QF.Props.C08Guards", "QF.Props.C08Construct", "QF.Props.C08ProjectGen"],
            "sections": [hist("hist", ["select", "drop", "slice", "copy"], cover=["new", "select", "drop", "slice", "copy"]),
                         {"section": "hist", "tag": "hist-new", "opt": "newonly=1", "quick": 150, "thorough": 1500, "cover_ops": {"new"}}]},
    "C09": {"lean": ["QF.Props.C09", "QF.Props.C09Equals", "QF.Props.C06", "QF.Props.C09Observe", "QF.Props.C09StringGen"], "extra_ns": ["QF.Props.C06", "QF.Props.C09Observe", "QF.Props.C09StringGen"],
            "sections": [dict(hist("hist", ["equals", "rebuild", "rebuild", "sort", "permute", "filter", "slice", "string", "tocsv", "tojson", "apply", "rownums", "copy"], quick=250), cover_ops=None),
                         {"section": "jsonsweep", "quick": 1, "thorough": 6, "cover_ops": {"JS"}}]},
    "C11": {"lean": ["QF.Props.C11", "QF.Props.C01Ops", "QF.Props.C08ProjectGen"], "extra_ns": ["H", "QF.Props.C01", "QF.Props.C08ProjectGen"],
            "sections": [{"section": "conc", "race": True, "quick": 150, "thorough": 2000, "cover_ops": {"CC"}}],
            "rule": "cases = batches of 6..12 operations (Filter incl. like/ilike, Sort, Distinct, GroupBy/Aggregate, Apply, FilteredApply, Eval with one shared context, Select/Slice/Copy, ToCSV/ToJSON/String, Equals) "
                    "started together on one frame family, each batch three times, in a binary built with the race detector; every result is compared with the result of the same operation run alone",
            "open_goals": ["the Go memory model is not modelled: absence of races in the real code is observed by the race detector on the explored schedules, not proved"]},
    "C12": {"lean": ["QF.Props.C12", "QF.Props.C12Read", "QF.Props.C12Infer", "QF.Props.C12InferGen", "QF.Props.C12CsvCanon", "QF.Props.C12CsvFns", "QF.Props.C12CsvQuoted", "QF.Props.C12CsvGen"], "extra_ns": ["QF.Props.C12Read", "QF.Props.C12Infer", "QF.Props.C12InferGen", "QF.Props.C12CsvGen"],
            "sections": [{"section": "csvraw", "tag": "csvraw-wit", "opt": "wit=1", "quick": 1, "thorough": 1, "cover_ops": {"C"}},
                         {"section": "csvraw", "quick": 300, "thorough": 3000, "cover_ops": {"C"}},
                         {"section": "csvread", "quick": 300, "thorough": 3000, "cover_ops": {"CV"}}],
            "rule": "cases = (document, read schedule) pairs read by the real fastcsv reader / ReadCSV and replayed through the L0 mirror (exact rows, errors, stale bytes) "
                    "and the RFC 4180 scanner (what the document denotes); distinct by transcript line; every generated document has quotes, delimiters or line breaks in cells with probability > 1/2"},
    "C16": {"lean": ["QF.Props.C16", "QF.Props.C16Tables", "QF.Props.C16Layouts", "QF.Props.C16Round", "QF.Props.C16Core", "QF.Props.C16CoreLoops",
                     "QF.Props.C16CoreStep4", "QF.Props.C16CoreMain", "QF.Props.C16CoreFlags", "QF.Props.C16CoreTable", "QF.Props.C16CoreCheck", "QF.Props.C16Farey", "QF.Props.C16PrecisionCheck", "QF.Props.C16Precision",
                     "QF.Props.C16LinkInterval", "QF.Props.C16LinkScale", "QF.Props.C16LinkText", "QF.Props.C16Link", "QF.Props.C16LinkFinal"],
            "extra_ns": ["QF.Props.C16Round", "QF.Props.C16Core", "QF.Props.C16Link"],
            "sections": [{"section": "ryu", "quick": 300, "thorough": 5500, "cover_ops": {"F"}},
                         dict({"section": "hist", "tag": "hist-jsonfloat", "opt": "floatheavy=1," + mix("tojson", "tojson", "sort", "filter"), "quick": 120, "thorough": 1500},
                              cover_ops={"tojson"}, owns=lambda m: m["op"] == "tojsonfloat")],
            "open_goals": ["nothing is left open about the mirror pipeline: QF.Props.C16Link.ryu_text_is_shortest proves, for every finite non-zero float64 (either sign) and every buffer state, that the text appended by QF.Props.C16Link.appendF for the decimal of QF.Ryu64.decimal "
                           "passes Num.isShortestRoundTrip and Num.parsesTo and that any correct IEEE parser returns exactly the float (parsesTo_unique) - no hypotheses. Ryu's precision lemma is proved (QF.Props.C16Core.ryu_shortest, C16Precision / C16PrecisionCheck / C16Farey); the per-float form of the hypothesis of "
                           "ryu_shortest_partial (floorsHold) is false for exactly two floats (hypothesis_fails), which ryu_shortest treats directly, so ryu_text_is_shortest_partial / ryu_text_is_shortest_of_check are kept only as the conditional forms. "
                           "The link to the property's own words is QF.Props.C16Link: interval_iff_roundtrip (in the rounding interval of step 2 <=> Num.ofDecimal returns the float), shortest_of_spec / spec_implies_isShortest (C16Core.Spec => isShortestRoundTrip of the laid-out text, clause by clause), shortest_of_exactInt (fast path), decimal_shortest",
                           "what remains hand-read: QF.Props.C16Link.appendF (sign, decimalLen64, dispatch over AF.layoutInt / C16.layoutFrac / C16.layoutMixed) is assembled from the proved layout mirrors and mirrors dec64.appendF / AppendFloat64f by reading; unlike Ryu64.decimal (compared exactly with the implementation on every generated float) "
                           "the assembled pipeline is not regenerated from the source or replayed as a whole (the replay driver judges the implementation's bytes with isShortestRoundTrip directly)"],
            "rule": "cases = (float64 bit pattern, buffer state) through the formatter and ToJSON of float-heavy frames (every float token of the output); each output is checked against the Lean definition of shortest round-trip text (exact big-number arithmetic, QF.Num.isShortestRoundTrip) and against strconv; "
                    "the decimal (m, e, exact-integer flag) of the Ryu core must equal the one computed by the mirror QF.Ryu64 (MIRROR-MISMATCH kind=mirror) and the hypothesis of ryu_shortest_partial (exact mulShift64 floors) must hold for it (kind=hypothesis); "
                    "generator: special values, all exponents x boundary mantissas, exact integers, powers of ten +-1ulp, short decimals, subnormals, random bits; distinct by (bits, prefix, spare)"},
    "C13": {"lean": ["QF.Props.C13", "QF.Props.C13Render", "QF.Props.C13Write", "QF.Props.C12", "QF.Props.C12Read", "QF.Props.C09Observe", "QF.Props.C13WriterGen"], "extra_ns": ["QF.Props.C13Write", "QF.Props.C12", "QF.Props.C12Read", "QF.Props.C09Observe", "QF.Props.C13WriterGen"],
            "sections": [dict(hist("hist", ["tocsv", "tocsv", "sort", "filter", "apply"], quick=250), cover_ops={"tocsv"})],
            "rule": "cases = ToCSV of a derived frame with random Header/Columns options; the bytes are parsed with the spec's RFC 4180 scanner and must denote the frame cell by cell "
                    "(floats: the text must parse back to the identical bits by exact arithmetic), then ReadCSV of those bytes with the types declared must give the expected frame (both EmptyNull settings)"},
    "C14": {"lean": ["QF.Props.C14", "QF.Props.C14Quote", "QF.Props.C14ToJson", "QF.Props.C16", "QF.Props.C09Observe", "QF.Props.C14WriterGen"], "extra_ns": ["QF.Props.C14ToJson", "QF.Props.C16", "QF.Props.C09Observe", "QF.Props.C14WriterGen"],
            "sections": [dict(hist("hist", ["tojson", "tojson", "sort", "filter", "apply"], quick=250), cover_ops={"tojson"}),
                         dict({"section": "hist", "tag": "hist-jsonfloat", "opt": "floatheavy=1," + mix("tojson", "tojson", "sort", "filter"), "quick": 150, "thorough": 1500}, cover_ops={"tojson"}),
                         {"section": "jsonsweep", "quick": 1, "thorough": 6, "cover_ops": {"JS"}},
                         {"section": "quote", "quick": 300, "thorough": 5000, "cover_ops": {"QS"}}],
            "rule": "cases = ToJSON of a derived frame; the bytes are parsed with the spec's RFC 8259 parser (validity) and every record must denote its row (ints exactly, floats parsing back to identical bits, "
                    "NaN/null as null, strings and names decoded with invalid bytes as U+FFFD); ReadJSON of the bytes must reproduce the frame where the property promises it"},
    "C17": {"lean": ["QF.Props.C17", "QF.Props.C17Enum", "QF.Props.C02Dispatch", "QF.Props.C17Factory"], "extra_ns": ["QF.Props.C17Enum", "QF.Props.C02Dispatch", "QF.Props.C17Factory"],
            "sections": [{"section": "hist", "tag": "hist-wit17", "opt": "wit=enumdup", "quick": 1, "thorough": 1, "cover_ops": {"filter"}, "owns": (lambda m: True)},
                         dict({"section": "hist", "tag": "hist-enum", "opt": "enumheavy=1," + mix("filter", "sort", "distinct", "groupagg"), "quick": 200, "thorough": 2000}, cover_ops=None,
                              owns=lambda m: True),
                         dict({"section": "csvread", "tag": "csvread-enum", "quick": 200, "thorough": 2000, "cover_ops": {"CV"}}, owns=lambda m: m["op"] == "csvread")],
            "rule": "cases = operations on frames with declared and derived enum columns (cardinalities 1,2,63..65,127..129,191..193,254..257,300; declared orders different from the alphabet) "
                    "through New, ReadCSV and ReadJSON; every mismatch in such a history counts for this property"},
    "C19": {"lean": ["QF.Props.C19", "QF.Props.C19Sql", "QF.Props.C19ScanGen"], "extra_ns": ["QF.Props.C19Sql", "QF.Props.C19ScanGen"],
            "sections": [dict(hist("hist", ["tosql", "tosql", "sort", "filter", "apply"], quick=200), tag="hist-tosql", cover_ops=None, owns=lambda m: m["op"] == "tosql"),
                         {"section": "sqlread", "quick": 1500, "thorough": 15000, "cover_ops": {"SR"}}],
            "rule": "cases = ToSQL of derived frames against a recording database/sql driver (every statement text and argument list compared with the spec for all dialect options) and "
                    "ReadSQL of scripted result sets (types, NULL placement, coercions, precision); distinct by transcript line"},
    "C18": {"lean": ["QF.Props.C18", "QF.Props.C18Like", "QF.Props.C18Matcher"], "extra_ns": ["QF.Props.C18Like", "QF.Props.C18Matcher"],
            "sections": [{"section": "like", "quick": 1500, "thorough": 20000, "cover_ops": {"M", "ME"}}],
            "rule": "cases = (pattern, case flag, cells) run through the real NewMatcher/Matches/ToUpper and through Filter on a string column and an enum column with the same cells; "
                    "compared with the documented rule and the ToUpper mirror; unicode.ToUpper and regexp matching are oracle annotations from the Go standard library"},
    "C15": {"lean": ["QF.Props.C15", "QF.Props.C15Faults", "QF.Props.C12", "QF.Props.C14WriterGen", "QF.Props.C13WriterGen", "QF.Props.C12CsvCanon", "QF.Props.C12CsvFns", "QF.Props.C12CsvQuoted", "QF.Props.C12CsvGen"], "extra_ns": ["QF.Props.C15Faults", "QF.Props.C12", "QF.Props.C14WriterGen", "QF.Props.C13WriterGen", "QF.Props.C12CsvGen"],
            "sections": [dict(hist("hist", ["wfault"], quick=60, thorough=400), tag="hist-wfault", cover_ops=None, owns=lambda m: m["op"] in ("wfault", "rfault")),
                         dict(hist("hist", ["tosql", "tosql", "sort"], quick=60, thorough=400), tag="hist-sqlfault", opt="sqlfaults=1," + mix("tosql", "tosql", "sort"), cover_ops=None, owns=lambda m: m["op"] == "sqlfault"),
                         {"section": "sqlread", "tag": "sqlreadfaults", "opt": "faults=1", "quick": 300, "thorough": 3000, "cover_ops": {"SR"}},
                         {"section": "csvraw", "tag": "csvrawfaults", "opt": "faults=1", "quick": 60, "thorough": 600, "cover_ops": {"C"}},
                         {"section": "csvread", "tag": "csvreadfaults", "opt": "faults=1", "quick": 400, "thorough": 4000, "cover_ops": {"CV"}}],
            "rule": "cases = (document, schedule, failing call number); csvraw enumerates every call number of the chosen schedule per document (schedules of more than 160 calls: the first 64, the last 32 and 64 drawn ones); distinct by transcript line"},
    "C10": {"lean": ["QF.Props.C10", "QF.Props.C10Sticky", "QF.Props.C06", "QF.Props.C06Apply", "QF.Props.C08Project", "QF.Props.C08Guards", "QF.Props.C10Guards", "QF.Props.C08Construct", "QF.Props.C18Matcher"], "extra_ns": ["QF.Props.C10Sticky", "QF.Props.C06", "QF.Props.C08", "QF.Props.C08Guards", "QF.Props.C10Guards", "QF.Props.C08Construct", "QF.Props.C18Matcher"],
            "sections": [dict(hist("hist", []), cover_ops=None),
                         # malformed like/ilike patterns, each used again and again in one process: an error every time, never a panic
                         dict({"section": "like", "tag": "like-errs", "quick": 400, "thorough": 4000, "cover_ops": {"M", "ME"}}, owns=lambda m: m["op"] in ("like", "likefilter") and m.get("kind") in ("panic", "errdiff"))]},
}

NOT_APPLICABLE = {}

_T2 = ("Tie: T1 (facts regenerated from /repo's source into QF/Gen on every run) and T2 (the Go harness drives the real code, built from "
       "/repo with -tags verif, and the compiled Lean driver replays the transcript through the spec and the mirror model). T2 is "
       "differential testing: a difference between code and hand-written model that no generated input exposes is not detected. ")
_TB = "Trusted: Lean kernel; axioms propext, Classical.choice, Quot.sound only; the extractor, harness and driver; the reading of the property in QF/Spec. "


def _lt(text, technique, note=""):
    return {"text": text, "technique": technique, "note": _TB + _T2 + note}


LEVEL_TEXT = {
    "C01": _lt("gen_project_persistent: read off the code regenerated from today's source, every write of Slice/Select/Drop/Copy/setColumn/Sort/Distinct and the internal/index functions goes to a freshly allocated array and every earlier frame observes what it observed (heap model with slice headers and capacities). frame_condition / history_persistent / op_own_writes / any_history_persistent: in the allocation-ownership model of the nine operation models (sort, filter, slice, setColumn, copy, apply, distinct, groupBy, aggregate) no history of operations changes an array that existed before. The real code is tied to the model by re-observing every earlier frame (digest of all observations) after every step of generated histories.",
               "Lean 4 proof (invariant over histories in a heap model) + differential correspondence",
               "The Go memory model and slice aliasing are represented only by the ownership discipline; that each Go operation obeys it is validated by T2 (re-observation), not proved from the Go source."),
    "C02": _lt("gen_clause_filter_semantics: the clause evaluation (QFrame.filter, And/Or/Not/Null, orFrames, index.Filter - 25 functions regenerated statement by statement) equals the mirror for every clause tree and frame, so together with the regenerated kernels and dispatch the whole of Filter is regenerated from source and proved against the row-wise spec. The evaluation of a Filter leaf is regenerated from today's source and proved equal to the spec for ALL cells: gen_kernel_semantics (every kernel of the five column packages adds exactly the spec's predicate to the mask), gen_leaf_semantics_partial (dispatch on comparator string and argument kind, table look-ups, errors, enum strictness = leafPred; excluded: float constants on int columns, which the code documents as truncated). filter_refines: the mirror of QFrame.filter/And/Or/Not with the shared mask and the inverse shortcut returns exactly index.filter sem for every clause tree and physical index; mirrorFilter_eq_spec_today: the executable mirror built from today's tables = the spec's keptRows. Every generated Filter call is compared with spec and mirror.",
               "Lean 4 proof (translator-regenerated kernels, dispatch and tables proved against a row-wise spec; refinement of the clause-tree mirror) + differential correspondence"),
    "C03": _lt("sort_perm / sort_sorted_full: the line-by-line mirror of internal/sort (pdqsort with heapsort fallback) returns a sorted permutation for every size, strict weak order and regime; gen_sorter_semantics: the sorter of today's source (Sort, Len, Swap, Less, quickSort, maxDepth, heapSort, siftDown, doPivot, medianOfThree, insertionSort), regenerated statement by statement on every run and interpreted with Go semantics, returns exactly the mirror's permutation for every index and every comparison function, never indexes outside the array and terminates (gen_sorter_canon, gen_sorter_functions, gen_sorter_sorted_perm, gen_less_semantics); gen_compare_semantics / sorter_less_eq_rowLess: the comparators regenerated from today's source are the spec's keyCmp for all cells and flag settings, and Sorter.Less over them is the spec's rowLess; gen_reject_semantics (Sort rejects exactly unknown columns). The exact permutation of the real sorter is compared with the mirror on adversarial inputs; Sort results are checked to be sorted permutations.",
               "Lean 4 proof (unbounded induction over the sorter mirror; regenerated comparators) + exact differential correspondence"),
    "C04": _lt("gen_aggregate_loops_semantics / gen_key_columns_semantics: the regenerated Aggregate loops hand each group's cells in order to the function and keep each group's first key. gen_grouper_semantics: the hash table of today's source (newTable, grow, hash, insertEntry, equals, groupIndex, GroupBy, Distinct), regenerated statement by statement on every run and interpreted with Go's uint32/uint64 arithmetic, yields exactly the mirror's table, groups and statistics for every list of comparables and every index of at most 2^30 rows (gen_grouper_canon, groupIndex_total, gen_groupBy_partition). groupBy_partition: the mirror of the open-addressing table partitions the rows by key equality for every hash function, collision pattern and growth step; gen_hash_respects_equality (keys the regenerated comparator calls Equal get equal values from the regenerated Hash terms, for all cells and any byte hash), gen_agg_semantics (the built-in aggregations of today's source = the spec's on every non-empty group), gen_compare_keyEq. The real grouper is replayed exactly with injected hashes (incl. one run beyond 2^16 slots); Aggregate/QFrames are compared with the spec's groups.",
               "Lean 4 proof (table invariant for any hash function; regenerated hash, comparator and aggregation terms) + differential correspondence",
               "runtime.memhash is a parameter (any function of bytes and seed)."),
    "C05": _lt("gen_distinct_spec / distinct_eq_distinctOf: Distinct of the grouper regenerated from today's source returns exactly one row (the first) of every key class, for every hash and equality (via gen_grouper_semantics); distinct_spec on the spec; Distinct uses the same table as GroupBy (partition theorem of C04, regenerated Hash/Compare terms); gen_distinct_semantics (rejects exactly unknown columns, also on empty frames). Results of the real code are checked to hold exactly one whole row per key class.",
               "Lean 4 proof (shared with C04) + differential correspondence"),
    "C06": _lt("gen_apply_loops_semantics: the Apply1/Apply2/apply0 loops regenerated from today's source write fn(cell of the same physical row) at every row of the index into a zero-initialised array of the full column length, for every column type and accepted signature - exactly applyInstr. setColumn_wf / setColumn_abs / applyFn1_rowwise and the C06Apply lemmas (replace in position or append last, other columns untouched); gen_apply_dispatch / gen_apply_loop (Apply's per-instruction dispatch and loop regenerated from source = applyS, stopping at the first failing instruction). Apply/FilteredApply/WithRowNums of the real code are compared exactly with the spec on derived frames, with a function catalogue defined identically in Go and Lean.",
               "Lean 4 proof (frame invariant, refinement lemmas, regenerated dispatch) + differential correspondence"),
    "C07": _lt("gen_eval_semantics / gen_eval_bookkeeping: Eval, tempColName, getFunc and the execute methods of all expression structs, regenerated from today's source, give exactly the hand mirror's result for every expression tree, context and frame; temporary columns are all dropped and the other columns untouched (for today's code). gen_function_semantics: every function of the default evaluation context, regenerated from today's source, equals the spec's evalUnary/evalBinary on all cells (64-bit wrap-around, nil-neutral concatenation); eval'_bookkeeping: the temp columns of Eval never collide with user columns and are all dropped, for every expression tree. Eval of the real code is compared exactly with the denotational spec under default, user and overriding contexts.",
               "Lean 4 proof (regenerated function terms; temp-column choreography of the mirror) + differential correspondence"),
    "C08": _lt("gen_project_semantics / gen_project_total: the work of Slice/Select/Drop/Copy after validation, regenerated from today's source, yields the spec's logical frame and a well-formed physical frame for all requests; gen_new_semantics_partial / gen_factory_semantics: createColumn, New's checks and the enum factory = newS / mkEnum. gen_guards_semantics: the validation prefixes of Slice/Select/Drop/Copy regenerated from today's source reject exactly the requests the spec rejects, for all requests; gen_checkname_semantics (CheckName = legalName on all byte strings); gen_new_guards_partial; C08Project lemmas (projections commute with observation); pointer_roundtrip. New/Select/Drop/Slice/Copy of the real code are compared exactly with newS/selectS/dropS/sliceS/copyS including every rejection rule.",
               "Lean 4 proof (regenerated guard chains; projection lemmas) + differential correspondence"),
    "C09": _lt("gen_equals_eq_spec: QFrame.Equals' shape checks and the five Column.Equals bodies regenerated from today's source equal equalsS on all pairs of well-formed frames; gen_stringAt_semantics / gen_append_semantics (the per-cell rendering used by ToCSV/String and ToJSON); gen_string_semantics (String()'s layout program regenerated from source - widths max(len(header),5), fixLengthString = fixLen, 50-row limit, truncation notice, Dims line - prints the spec's stringPieces on all well-typed frames); equalsS is cell-wise equality (C09Equals). Equals of the real code is compared with the spec in both directions, typed views are cross-checked on every observation, rebuilt frames must be congruent, String() is compared with the frame.",
               "Lean 4 proof (regenerated observation functions) + differential correspondence"),
    "C10": _lt("gen_newmatcher_canon (a malformed like pattern is reported by NewMatcher's own error return in today's source); gen_sticky_all: for every public operation the guard prefix regenerated from today's source returns a failed receiver unchanged (or carries / reports its error) before anything else, for all requests; gen_reject_semantics, gen_guards_semantics, applyS_stops_at_first_failing and the _err_iff characterisations of the spec. Every generated call, valid or malformed, must end in a frame or Err exactly as the spec decides (no panic, Len()=-1 on failure, no user callback after the first error); physical well-formedness is checked on every reachable frame through the hook.",
               "Lean 4 proof (regenerated guard chains of all operations; error discipline of the spec) + differential correspondence over a malformed-argument stream"),
    "C11": _lt("interleaving_deterministic / ops_interleaving_deterministic: any multiset of the nine operation models, under every schedule, never writes a shared array and each ends where it ends alone. The real code is run under the race detector with batches of concurrent operations on shared and derived frames; results are compared with the sequential ones.",
               "Lean 4 proof (all schedules, ownership discipline) + race-detector runs as execution-based validation",
               "PARTIAL: the theorem is about the ownership model; that the Go code obeys the discipline (no write to shared storage) is observed by the race detector and by C01's re-observation, not proved from the source. Go memory model, unsafe string views and math/rand's lock are outside the model."),
    "C12": _lt("gen_csv_semantics_partial: the functions of internal/fastcsv/csv.go regenerated statement by statement from today's source (more, reset, eofReaderWrapper.Read, nextUnquotedField, nextQuotedField, fields.next, Reader.Next/Read/Err, NewReader) and interpreted with Go semantics return, for every document, read schedule, delimiter, buffer capacity and fault position, exactly what the array-level mirror returns (rows, final error, final buffer and reader state, or a panic of the same class) wherever the mirror does not give up for lack of fuel; gen_columnToData_spec: today's columnToData regenerated from source evaluates to the spec's csvColumn for all cell lists, oracles and configurations. read_schedule_independent / any_two_schedules_agree: the mirror of the whole fastcsv reader returns the same rows, fields and error for every read schedule; read_render' / read_eq_spec' / read_render_no_final_newline / read_render_trailing_delim: reading a rendered document returns its fields and equals the RFC 4180 scanner (quoted fields may contain CR LF); columnToData_eq_spec / infer_spec: the mirror of the type inference equals the spec. The real reader and ReadCSV are compared exactly with the array-level mirror, with the proof model (documents up to 2500 bytes) and with the spec on generated documents x read schedules x configurations.",
               "Lean 4 proof (simulation: any schedule = loaded buffer; read-back of rendered documents; type inference) + exact differential correspondence",
               "strconv parsing is a parameter (oracle computed by the harness from the standard library)."),
    "C13": _lt("parse_write / read_write: the byte-exact mirror of encoding/csv.Writer as ToCSV uses it is inverted by the RFC 4180 scanner and by the model of qframe's own reader for every read schedule (tocsv_read for the rows ToCSV produces); gen_stringAt_semantics (the cell strings regenerated from source); gen_tocsv_semantics / gen_tocsv_error (ToCSV's record program regenerated from source hands exactly tocsvRows of the selected columns to the csv writer, rejects iff csvColumns does, flushes and returns the writer's error). ToCSV output of the real code is parsed by the spec's scanner and must denote the frame; reading it back with ReadCSV must give the frame the property describes.",
               "Lean 4 proof (writer mirror o reader model = identity; shared with C12) + semantic round-trip correspondence"),
    "C14": _lt("tojson_parses / tojson_denotes: the mirror of ToJSON produces a text the RFC 8259 parser accepts and whose value is the array of row objects denoting the cells; quoted_parses (AppendQuotedString mirror, compared byte for byte with the real function); gen_append_semantics (per-cell bytes regenerated from source); gen_tojson_semantics / gen_tojson_writes (ToJSON's assembly loop regenerated from source writes exactly the mirror's toJSON, one Write per record, cut at the first failing Write); number tokens: ryu_text_is_shortest (C16). ToJSON output of the real code is parsed by the spec's parser and must denote the frame record by record, for every prefix length of a sweep frame; ReadJSON must invert it.",
               "Lean 4 proof (ToJSON mirror against an RFC 8259 parser; exact float semantics) + differential correspondence",
               "encoding/json is trusted for ReadJSON's decoding."),
    "C15": _lt("gen_fail_iff_reached_partial (the CSV reader regenerated from today's source, via gen_csv_semantics_partial) / fail_iff_reached: on the array-level mirror of the CSV reader, for every document, schedule, buffer size and failing call number the reader ends with the failure iff the failing call was made; gen_sticky_all for the writers. Exhaustive fault positions against the real code: every call number of the reader, every byte offset of the writers (ToCSV, ToJSON), ReadJSON reader faults at every offset, failing Prepare/Exec statement and failing row of the SQL driver.",
               "Lean 4 proof (fault propagation in the reader mirror) + exhaustive fault-position correspondence"),
    "C16": _lt("ryu_text_is_shortest (QF.Props.C16Link): for EVERY finite non-zero float64 (either sign) and every buffer state, the text that the statement-by-statement mirror of the Ryu core (QF.Ryu64, over the multiplier tables regenerated from the source) followed by the appendF layout appends is the shortest positional decimal that round-trips (Num.isShortestRoundTrip: canonical form, parses back to the identical bits under IEEE nearest-even - Num.ofDecimal itself proved correctly rounded -, no decimal with fewer digits does, closest of that length), and any correct IEEE parser returns exactly the float for it. ryu_shortest: Ryu's precision lemma is proved for the 121/122-bit tables of this port by kernel-checked Stern-Brocot certificates over all 2048 exponent fields; the two floats where one multiplier product is off by one are treated exactly. The mirror is compared with the implementation (decimal, exponent, fast-path flag) on every generated float, and every output text of the real formatter is judged by the same executable definition and against strconv.FormatFloat.",
               "Lean 4 proof (Ryu core end to end: mulShift64, logarithm approximations, divisibility tests, rounding interval, digit-removal loops, final rounding, trailing-zero flags, table precision, digit layout, link to the round-trip definition) + exact differential replay of the mirror",
               "The theorem is about the mirror; that the mirror is the Go code is established by exact replay on every generated float (T2) and by the regenerated tables (T1), not by proof."),
    "C17": _lt("gen_enum_undeclared / gen_enum_declared / gen_enum_sets_no_error (the enum filter rules read off the dispatcher regenerated from today's source), mkEnum_declared / mkEnum_derived / mkEnum_rank_lt_255 / enum_order_declared / enum_null_distinct on the spec, bitset_spec. Histories over declared and derived enum columns at and around the cardinality limit and the word boundaries of the bit set are compared with the spec through New, ReadCSV and ReadJSON.",
               "Lean 4 proof (regenerated dispatcher; enum construction spec; bit set) + differential correspondence over enum-heavy histories"),
    "C18": _lt("toUpper_spec: the custom ToUpper equals encode(map up s) for every string, case mapping and buffer size; like_correct / ilike_correct: the matcher chosen by NewMatcher's order of tests answers the declarative wildcard semantics for every pattern and string; gen_kernel_semantics for like/ilike. Matcher choice and matching of the real code are compared with the rule; string and enum columns must select the same rows.",
               "Lean 4 proof (ToUpper refinement; matcher decision logic) + differential correspondence",
               "Regular-expression matching (Go regexp) and unicode.ToUpper are parameters supplied as oracle annotations."),
    "C19": _lt("gen_scan_semantics / gen_scan_refines_spec: Column.Scan, its helpers and coercions regenerated from today's source, folded over any list of driver values (text as string or []uint8), equal the mirror and hence the spec in scope. scan_refines_spec: the complete mirror of Column.Scan (five value kinds, coercions, NULL back-fill) equals the spec for homogeneous result sets; readback_frame: reading back what ToSQL wrote reproduces the frame (enums as strings); insertText_shape / placeholders_spec. ToSQL against a recording driver: statement text and arguments per row compared with the spec for every dialect option; ReadSQL of scripted result sets (reused row buffers, failing rows) compared with readSqlS.",
               "Lean 4 proof (scan state machine, read-back, statement shape) + differential correspondence with a recording database/sql driver",
               "database/sql argument conversion and the driver contract are assumed."),
}
