"""Per-property configuration of bin/check: theorem modules, correspondence sections, ownership of operations."""

# which property owns a mismatch on which operation of the frame-history section (DESIGN.md §4 "Ownership")
OP_OWNER = {
    "reobserve": ["C01"],
    "filter": ["C02"],
    "sort": ["C03"],
    "groupagg": ["C04"], "groupframes": ["C04"],
    "distinct": ["C05"],
    "apply": ["C06"], "fapply": ["C06"], "rownums": ["C06"],
    "eval": ["C07"],
    "new": ["C08"], "select": ["C08"], "drop": ["C08"], "slice": ["C08"], "copy": ["C08"],
    "equals": ["C09"], "rebuild": ["C09"], "congruence": ["C09"],
    "tocsv": ["C09", "C13"], "csvroundtrip": ["C13"],
    "tojson": ["C09", "C14"], "tojsonfloat": ["C16"], "jsonroundtrip": ["C14"], "string": ["C09"],
    "wfault": ["C15"], "rfault": ["C15"],
    "wf": ["C10"], "callbacks": ["C10"],
    "sortadv": ["C03"], "conc": ["C11"], "grpadv": ["C04", "C05"],
    "ryu": ["C16"], "ryudec": ["C16"],
    "like": ["C18"], "likefilter": ["C18"], "quote": ["C14"],
    "tosql": ["C19"], "sqlread": ["C19"], "sqlfault": ["C15"], "sqlreadfault": ["C15"],
    "csvraw": ["C12"], "csvread": ["C12"],
    "csvfault": ["C15"], "csvreadfault": ["C15"],
}

BASE = "filter+sort+slice+select+drop+copy+apply+fapply+rownums+eval+distinct+groupagg+groupframes+equals+rebuild+tocsv+tojson+tosql+string+permute+permute"


def mix(*ops, w=3):
    """operation mix for the hist generator: the property's own operations w times, every other once"""
    return "ops=" + "+".join(list(ops) * w + BASE.split("+"))


def hist(tag, ops, quick=150, thorough=1500, cover=None):
    return {"section": "hist", "tag": tag, "opt": mix(*ops), "quick": quick, "thorough": thorough,
            "cover_ops": set(cover or ops)}


PROPS = {
    "C01": {"lean": ["QF.Props.C01", "QF.Props.C01Ops"],
            "sections": [dict(hist("hist", ["apply", "copy", "rownums", "eval", "sort"], quick=250), cover_ops=None)],
            "rule": "every step of every generated history re-observes all earlier family members (digest of the full observation); "
                    "evaluations = observations compared; non-trivial = successful operation on a result with >= 2 rows; distinct by (operation, result)"},
    "C02": {"lean": ["QF.Props.C02", "QF.Props.C02Spec", "QF.Props.C02Mirror", "QF.Props.C02Kernels", "QF.Props.C02Dispatch"], "extra_ns": ["QF.Props.C02Spec", "QF.Props.C02Mirror", "QF.Props.C02Kernels", "QF.Props.C02Dispatch"],
            "sections": [hist("hist", ["filter"]),
                         {"section": "hist", "tag": "hist-filter", "opt": "ops=filter+filter+filter+filter+sort+slice+distinct", "quick": 400, "thorough": 4000, "cover_ops": {"filter"}}]},
    "C03": {"lean": ["QF.Props.C03", "QF.Props.C03Spec", "QF.Props.C03Compare", "QF.Props.C10Guards"], "extra_ns": ["QF.Props.C03Compare", "QF.Props.C10Guards"],
            "sections": [hist("hist", ["sort"]),
                         {"section": "sortadv", "quick": 300, "thorough": 3000, "cover_ops": {"SA"}}]},
    "C04": {"lean": ["QF.Props.C04", "QF.Props.C04Spec", "QF.Props.C03Compare", "QF.Props.C04Hash", "QF.Props.C04Aggregations", "QF.Props.C10Guards"], "extra_ns": ["QF.Props.C04Spec", "QF.Props.C03Compare", "QF.Props.C04Hash", "QF.Props.C04Aggregations", "QF.Props.C10Guards"],
            "sections": [hist("hist", ["groupagg", "groupframes", "permute", "grouptest"], quick=300, cover=["groupagg", "groupframes"]),
                         {"section": "grpadv", "quick": 600, "thorough": 6000, "cover_ops": {"GA"}},
                         {"section": "grpadv", "tag": "grpbig", "opt": "big=1", "quick": 1, "thorough": 4, "cover_ops": {"GB"}}]},
    "C05": {"lean": ["QF.Props.C05", "QF.Props.C05Distinct", "QF.Props.C04", "QF.Props.C04Spec", "QF.Props.C03Compare", "QF.Props.C04Hash", "QF.Props.C10Guards"], "extra_ns": ["QF.Props.C04", "QF.Props.C04Spec", "QF.Props.C03Compare", "QF.Props.C04Hash", "QF.Props.C10Guards"], "sections": [hist("hist", ["distinct"])]},
    "C06": {"lean": ["QF.Props.C06", "QF.Props.C06Apply"],
            "sections": [{"section": "hist", "tag": "hist-wit", "opt": "wit=1", "quick": 1, "thorough": 1, "cover_ops": {"fapply"}},
                         hist("hist", ["apply", "fapply", "rownums"])]},
    "C07": {"lean": ["QF.Props.C07", "QF.Props.C07Eval", "QF.Props.C07Functions", "QF.Props.C06"], "extra_ns": ["QF.Props.C07Eval", "QF.Props.C07Functions"], "sections": [hist("hist", ["eval", "eval", "permute"], quick=300, cover=["eval"])]},
    "C08": {"lean": ["QF.Props.C08", "QF.Props.C08Project", "QF.Props.C08Guards"], "extra_ns": ["QF.Props.C08Guards"],
            "sections": [hist("hist", ["select", "drop", "slice", "copy"], cover=["new", "select", "drop", "slice", "copy"]),
                         {"section": "hist", "tag": "hist-new", "opt": "newonly=1", "quick": 150, "thorough": 1500, "cover_ops": {"new"}}]},
    "C09": {"lean": ["QF.Props.C09", "QF.Props.C09Equals", "QF.Props.C06", "QF.Props.C09Observe"], "extra_ns": ["QF.Props.C06", "QF.Props.C09Observe"],
            "sections": [dict(hist("hist", ["equals", "rebuild", "rebuild", "sort", "permute", "filter", "slice", "string", "tocsv", "tojson", "apply", "rownums", "copy"], quick=250), cover_ops=None),
                         {"section": "jsonsweep", "quick": 1, "thorough": 6, "cover_ops": {"JS"}}]},
    "C11": {"lean": ["QF.Props.C11", "QF.Props.C01Ops"], "extra_ns": ["H", "QF.Props.C01"],
            "sections": [{"section": "conc", "race": True, "quick": 150, "thorough": 2000, "cover_ops": {"CC"}}],
            "rule": "cases = batches of 6..12 operations (Filter incl. like/ilike, Sort, Distinct, GroupBy/Aggregate, Apply, FilteredApply, Eval with one shared context, Select/Slice/Copy, ToCSV/ToJSON/String, Equals) "
                    "started together on one frame family, each batch three times, in a binary built with the race detector; every result is compared with the result of the same operation run alone",
            "open_goals": ["the Go memory model is not modelled: absence of races in the real code is observed by the race detector on the explored schedules, not proved"]},
    "C12": {"lean": ["QF.Props.C12", "QF.Props.C12Read", "QF.Props.C12Infer"], "extra_ns": ["QF.Props.C12Read", "QF.Props.C12Infer"],
            "sections": [{"section": "csvraw", "tag": "csvraw-wit", "opt": "wit=1", "quick": 1, "thorough": 1, "cover_ops": {"C"}},
                         {"section": "csvraw", "quick": 300, "thorough": 3000, "cover_ops": {"C"}},
                         {"section": "csvread", "quick": 300, "thorough": 3000, "cover_ops": {"CV"}}],
            "rule": "cases = (document, read schedule) pairs read by the real fastcsv reader / ReadCSV and replayed through the L0 mirror (exact rows, errors, stale bytes) "
                    "and the RFC 4180 scanner (what the document denotes); distinct by transcript line; every generated document has quotes, delimiters or line breaks in cells with probability > 1/2"},
    "C16": {"lean": ["QF.Props.C16", "QF.Props.C16Tables", "QF.Props.C16Layouts", "QF.Props.C16Round", "QF.Props.C16Core", "QF.Props.C16CoreLoops",
                     "QF.Props.C16CoreStep4", "QF.Props.C16CoreMain", "QF.Props.C16CoreFlags", "QF.Props.C16CoreTable", "QF.Props.C16CoreCheck", "QF.Props.C16Farey", "QF.Props.C16PrecisionCheck", "QF.Props.C16Precision",
                     "QF.Props.C16LinkInterval", "QF.Props.C16LinkScale", "QF.Props.C16LinkText", "QF.Props.C16Link", "QF.Props.C16LinkFinal"],
            "extra_ns": ["QF.Props.C16Round", "QF.Props.C16Core", "QF.Props.C16Link"],
            "sections": [{"section": "ryu", "quick": 300, "thorough": 5500, "cover_ops": {"F"}},
                         dict({"section": "hist", "tag": "hist-jsonfloat", "opt": "floatheavy=1," + mix("tojson", "tojson", "sort", "filter"), "quick": 120, "thorough": 1500},
                              cover_ops={"tojson"}, owns=lambda m: m["op"] == "tojsonfloat")],
            "open_goals": ["nothing is left open about the mirror pipeline: QF.Props.C16Link.ryu_text_is_shortest proves, for every finite non-zero float64 (either sign) and every buffer state, that the text appended by QF.Props.C16Link.appendF for the decimal of QF.Ryu64.decimal "
                           "passes Num.isShortestRoundTrip and Num.parsesTo and that any correct IEEE parser returns exactly the float (parsesTo_unique) - no hypotheses. Ryu's precision lemma is proved (QF.Props.C16Core.ryu_shortest, C16Precision / C16PrecisionCheck / C16Farey); the per-float form of the hypothesis of "
                           "ryu_shortest_partial (floorsHold) is false for exactly two floats (hypothesis_fails), which ryu_shortest treats directly, so ryu_text_is_shortest_partial / ryu_text_is_shortest_of_check are kept only as the conditional forms. "
                           "The link to the property's own words is QF.Props.C16Link: interval_iff_roundtrip (in the rounding interval of step 2 <=> Num.ofDecimal returns the float), shortest_of_spec / spec_implies_isShortest (C16Core.Spec => isShortestRoundTrip of the laid-out text, clause by clause), shortest_of_exactInt (fast path), decimal_shortest",
                           "what remains hand-read: QF.Props.C16Link.appendF (sign, decimalLen64, dispatch over AF.layoutInt / C16.layoutFrac / C16.layoutMixed) is assembled from the proved layout mirrors and mirrors dec64.appendF / AppendFloat64f by reading; unlike Ryu64.decimal (compared exactly with the implementation on every generated float) "
                           "the assembled pipeline is not regenerated from the source or replayed as a whole (the replay driver judges the implementation's bytes with isShortestRoundTrip directly)"],
            "rule": "cases = (float64 bit pattern, buffer state) through the formatter and ToJSON of float-heavy frames (every float token of the output); each output is checked against the Lean definition of shortest round-trip text (exact big-number arithmetic, QF.Num.isShortestRoundTrip) and against strconv; "
                    "the decimal (m, e, exact-integer flag) of the Ryu core must equal the one computed by the mirror QF.Ryu64 (MIRROR-MISMATCH kind=mirror) and the hypothesis of ryu_shortest_partial (exact mulShift64 floors) must hold for it (kind=hypothesis); "
                    "generator: special values, all exponents x boundary mantissas, exact integers, powers of ten +-1ulp, short decimals, subnormals, random bits; distinct by (bits, prefix, spare)"},
    "C13": {"lean": ["QF.Props.C13", "QF.Props.C13Render", "QF.Props.C13Write", "QF.Props.C12", "QF.Props.C12Read", "QF.Props.C09Observe"], "extra_ns": ["QF.Props.C13Write", "QF.Props.C12", "QF.Props.C12Read", "QF.Props.C09Observe"],
            "sections": [dict(hist("hist", ["tocsv", "tocsv", "sort", "filter", "apply"], quick=250), cover_ops={"tocsv"})],
            "rule": "cases = ToCSV of a derived frame with random Header/Columns options; the bytes are parsed with the spec's RFC 4180 scanner and must denote the frame cell by cell "
                    "(floats: the text must parse back to the identical bits by exact arithmetic), then ReadCSV of those bytes with the types declared must give the expected frame (both EmptyNull settings)"},
    "C14": {"lean": ["QF.Props.C14", "QF.Props.C14Quote", "QF.Props.C14ToJson", "QF.Props.C16", "QF.Props.C09Observe"], "extra_ns": ["QF.Props.C14ToJson", "QF.Props.C16", "QF.Props.C09Observe"],
            "sections": [dict(hist("hist", ["tojson", "tojson", "sort", "filter", "apply"], quick=250), cover_ops={"tojson"}),
                         dict({"section": "hist", "tag": "hist-jsonfloat", "opt": "floatheavy=1," + mix("tojson", "tojson", "sort", "filter"), "quick": 150, "thorough": 1500}, cover_ops={"tojson"}),
                         {"section": "jsonsweep", "quick": 1, "thorough": 6, "cover_ops": {"JS"}},
                         {"section": "quote", "quick": 300, "thorough": 5000, "cover_ops": {"QS"}}],
            "rule": "cases = ToJSON of a derived frame; the bytes are parsed with the spec's RFC 8259 parser (validity) and every record must denote its row (ints exactly, floats parsing back to identical bits, "
                    "NaN/null as null, strings and names decoded with invalid bytes as U+FFFD); ReadJSON of the bytes must reproduce the frame where the property promises it"},
    "C17": {"lean": ["QF.Props.C17", "QF.Props.C17Enum", "QF.Props.C02Dispatch"], "extra_ns": ["QF.Props.C17Enum", "QF.Props.C02Dispatch"],
            "sections": [{"section": "hist", "tag": "hist-wit17", "opt": "wit=enumdup", "quick": 1, "thorough": 1, "cover_ops": {"filter"}, "owns": (lambda m: True)},
                         dict({"section": "hist", "tag": "hist-enum", "opt": "enumheavy=1," + mix("filter", "sort", "distinct", "groupagg"), "quick": 200, "thorough": 2000}, cover_ops=None,
                              owns=lambda m: True),
                         dict({"section": "csvread", "tag": "csvread-enum", "quick": 200, "thorough": 2000, "cover_ops": {"CV"}}, owns=lambda m: m["op"] == "csvread")],
            "rule": "cases = operations on frames with declared and derived enum columns (cardinalities 1,2,63..65,127..129,191..193,254..257,300; declared orders different from the alphabet) "
                    "through New, ReadCSV and ReadJSON; every mismatch in such a history counts for this property"},
    "C19": {"lean": ["QF.Props.C19", "QF.Props.C19Sql"], "extra_ns": ["QF.Props.C19Sql"],
            "sections": [dict(hist("hist", ["tosql", "tosql", "sort", "filter", "apply"], quick=200), tag="hist-tosql", cover_ops=None, owns=lambda m: m["op"] == "tosql"),
                         {"section": "sqlread", "quick": 1500, "thorough": 15000, "cover_ops": {"SR"}}],
            "rule": "cases = ToSQL of derived frames against a recording database/sql driver (every statement text and argument list compared with the spec for all dialect options) and "
                    "ReadSQL of scripted result sets (types, NULL placement, coercions, precision); distinct by transcript line"},
    "C18": {"lean": ["QF.Props.C18", "QF.Props.C18Like"], "extra_ns": ["QF.Props.C18Like"],
            "sections": [{"section": "like", "quick": 1500, "thorough": 20000, "cover_ops": {"M", "ME"}}],
            "rule": "cases = (pattern, case flag, cells) run through the real NewMatcher/Matches/ToUpper and through Filter on a string column and an enum column with the same cells; "
                    "compared with the documented rule and the ToUpper mirror; unicode.ToUpper and regexp matching are oracle annotations from the Go standard library"},
    "C15": {"lean": ["QF.Props.C15", "QF.Props.C15Faults", "QF.Props.C12"], "extra_ns": ["QF.Props.C15Faults", "QF.Props.C12"],
            "sections": [dict(hist("hist", ["wfault"], quick=60, thorough=400), tag="hist-wfault", cover_ops=None, owns=lambda m: m["op"] in ("wfault", "rfault")),
                         dict(hist("hist", ["tosql", "tosql", "sort"], quick=60, thorough=400), tag="hist-sqlfault", opt="sqlfaults=1," + mix("tosql", "tosql", "sort"), cover_ops=None, owns=lambda m: m["op"] == "sqlfault"),
                         {"section": "sqlread", "tag": "sqlreadfaults", "opt": "faults=1", "quick": 300, "thorough": 3000, "cover_ops": {"SR"}},
                         {"section": "csvraw", "tag": "csvrawfaults", "opt": "faults=1", "quick": 60, "thorough": 600, "cover_ops": {"C"}},
                         {"section": "csvread", "tag": "csvreadfaults", "opt": "faults=1", "quick": 400, "thorough": 4000, "cover_ops": {"CV"}}],
            "rule": "cases = (document, schedule, failing call number); csvraw enumerates every call number of the chosen schedule per document (schedules of more than 160 calls: the first 64, the last 32 and 64 drawn ones); distinct by transcript line"},
    "C10": {"lean": ["QF.Props.C10", "QF.Props.C10Sticky", "QF.Props.C06", "QF.Props.C06Apply", "QF.Props.C08Project", "QF.Props.C08Guards", "QF.Props.C10Guards"], "extra_ns": ["QF.Props.C10Sticky", "QF.Props.C06", "QF.Props.C08", "QF.Props.C08Guards", "QF.Props.C10Guards"], "sections": [dict(hist("hist", []), cover_ops=None)]},
}

NOT_APPLICABLE = {}

_T2 = ("Tie: T1 (facts regenerated from /repo's source into QF/Gen on every run) and T2 (the Go harness drives the real code, built from "
       "/repo with -tags verif, and the compiled Lean driver replays the transcript through the spec and the mirror model). T2 is "
       "differential testing: a difference between code and hand-written model that no generated input exposes is not detected. ")
_TB = "Trusted: Lean kernel; axioms propext, Classical.choice, Quot.sound only; the extractor, harness and driver; the reading of the property in QF/Spec. "


def _lt(text, technique, note=""):
    return {"text": text, "technique": technique, "note": _TB + _T2 + note}


LEVEL_TEXT = {
    "C11": _lt("interleaving_deterministic: for any number of operations that write only to arrays they allocate themselves and for every schedule, the shared region is never written and each operation ends where it ends alone. The real code is run under the race detector with batches of concurrent operations on shared and derived frames; results are compared with the sequential ones.",
               "Lean 4 proof (all schedules, ownership discipline) + race-detector runs as execution-based validation",
               "PARTIAL: the theorem is about the ownership model; that the Go code obeys the discipline (no write to shared storage) is observed by the race detector and by C01's re-observation, not proved from the source. Go memory model, unsafe string views and math/rand's lock are outside the model."),
    "C19": _lt("scan_text: the Column.Scan state machine reproduces any sequence of texts and NULLs with leading NULLs back-filled. ToSQL against a recording driver: statement text and arguments per row compared with insertText/toSqlS for every dialect option; ReadSQL of scripted result sets compared with readSqlS.",
               "Lean 4 proof (scan state machine) + differential correspondence with a recording database/sql driver",
               "database/sql argument conversion and the driver contract are assumed."),
    "C17": _lt("bitset_spec for the 256-bit value set behind in/like/ilike on enums; histories over declared and derived enum columns at and around the cardinality limit and the word boundaries of the bit set are compared with the spec (declared order for <,<=,>,>= and Sort, strict rejection of undeclared values and constants, clean failure beyond 255 values, null distinct from every value).",
               "Lean 4 proof (bit set) + differential correspondence over enum-heavy histories and ReadCSV"),
    "C18": _lt("toUpper_spec: the custom ToUpper equals encode(map up s) for every string, case mapping and buffer size (unconditional after the RuneSelf repair). Matcher choice and matching of the real code are compared with the documented rule; string and enum columns must select the same rows.",
               "Lean 4 proof (ToUpper refinement) + differential correspondence",
               "Regular-expression matching (Go regexp) and unicode.ToUpper are parameters supplied as oracle annotations."),
    "C13": _lt("ToCSV output of the real code is parsed by the spec's RFC 4180 scanner and must denote the frame; reading it back with ReadCSV must give the frame the property describes. The scanner side rests on the C12 theorems (schedule independence, escaped field read back as its content).",
               "Lean 4 proof (shared with C12) + semantic round-trip correspondence",
               "The writer (encoding/csv) is not modelled: its output is judged by what it denotes. A theorem scan(render(row)) = row for every quoting choice is an open goal."),
    "C14": _lt("ToJSON output of the real code is parsed by the spec's RFC 8259 parser (validity) and must denote the frame record by record; ReadJSON must invert it. Number tokens are judged by exact decimal-to-float arithmetic in Lean.",
               "Lean 4 executable RFC 8259 / exact float semantics as oracle + formatter lemma of C16",
               "quoted_parses: the mirror of AppendQuotedString yields, for every byte string, a token that the RFC 8259 string parser decodes to the string with invalid bytes as U+FFFD; the mirror is compared byte for byte with the real function. encoding/json is trusted for ReadJSON's decoding."),
    "C16": _lt("layoutInt_spec: the integer layout of appendF writes old content ++ digits ++ zeros for every buffer state (any stale spare capacity). Every output of the real formatter on generated floats and buffer states is checked in Lean against the definition of shortest round-trip text (exact natural-number arithmetic: parses back to the identical bits under correct rounding, no shorter decimal does, closest of that length) and against strconv.FormatFloat. ryu_shortest_partial (QF.Props.C16Core): the statement-by-statement mirror of float64ToDecimal over the extracted tables (compared exactly with the implementation on every generated float) returns a decimal that is in the rounding interval, shortest, and closest of that length, for every finite non-zero float64 - given that the three mulShift64 products are exact floors; exactInt_spec: the exact-integer fast path is exactly right.",
               "Lean 4 proof (formatter layout; Ryu core: mulShift64, logarithm approximations, divisibility tests, rounding interval, digit-removal loops, final rounding, trailing-zero flags) + executable Lean definition of shortest round trip as differential oracle",
               "PARTIAL: the claim for all 2^64 floats rests on Ryu's precision lemma (floor(m*multiplier/2^shift) = floor(m*2^e2/10^e10) for the 121/122-bit multipliers), which is the explicit hypothesis of ryu_shortest_partial and is not proved here; it is decided by exact arithmetic on every generated float."),
    "C12": _lt("read_schedule_independent / any_two_schedules_agree: the mirror of the whole fastcsv reader returns the same rows, fields and error for every read schedule (lock-step simulation against the fully loaded buffer); qscan_content: an escaped field is read back as its content. The real reader and ReadCSV are compared exactly with the L0 mirror and with the RFC 4180 scanner / ReadCSV spec on generated documents, schedules and configurations.",
               "Lean 4 proof (simulation: any schedule = loaded buffer) + differential correspondence",
               "strconv parsing is a parameter (oracle computed by the harness from the standard library). The proof model Core/CsvFull (subject of the schedule-independence and read-back theorems) is executed on every document of up to 2500 bytes as well."),
    "C15": _lt("Fault enumeration against the reader model: for every call number at which the underlying reader fails, the model decides whether that call is reached; if it is, the fastcsv reader must end in failure and ReadCSV must return Err (never an error-free partial frame). Writers: for every byte offset at which the io.Writer starts failing, success may only be reported if everything was accepted. SQL: a failing Exec or a failing row fetch must surface as an error.",
               "Lean 4 model of the reader with fault positions (theorems shared with C12) + exhaustive fault-position correspondence",
               "Covered: CSV reader faults at every call, ToCSV/ToJSON writer faults at every byte offset, ToSQL failing statement, ReadSQL failing row. ReadJSON reader faults are an open goal."),
    "C01": _lt("Kernel-checked theorems (frame_condition, history_persistent) that in the allocation/ownership model of the operations no history of operations can change an array that existed before; the real code is tied to the model by re-observing every earlier frame after every step of generated histories.",
               "Lean 4 proof (invariant over histories in a heap model) + differential correspondence",
               "The Go memory model and slice aliasing are represented only by the ownership discipline; that each operation obeys it is validated by T2, not proved from the Go source."),
    "C02": _lt("filter_refines: for every clause tree and every duplicate-free index the mirror of QFrame.filter/And/Or/Not returns exactly index.filter sem. Spec-level correspondence of Filter on generated derived frames, all column types and comparator/argument kinds.",
               "Lean 4 proof (refinement of a mirror model to a row-wise spec) + differential correspondence"),
    "C03": _lt("sort_perm and sort_sorted for the line-by-line mirror of internal/sort/sorter.go, for every size, comparison function (strict weak order) and regime; compare_spec/lessKeys_swo for the Comparable tables; Sort results of the real code checked to be sorted permutations.",
               "Lean 4 proof (unbounded induction over the sorter mirror) + differential correspondence"),
    "C04": _lt("groupBy_partition for the mirror of the open-addressing table, for every hash function, collision pattern and growth step; Aggregate/QFrames of the real code compared with the spec's groups as multisets.",
               "Lean 4 proof (table invariant, any hash function) + differential correspondence",
               "runtime.memhash is a parameter (any function); that keys which compare Equal hash equally is proved from today's source for every cell of every column type (C04Hash.gen_hash_respects_equality over the regenerated Hash terms); the built-in aggregations of today's source are proved equal to the spec's on every non-empty group (C04Aggregations.gen_agg_semantics)."),
    "C05": _lt("Distinct uses the same table as GroupBy (collectIx=false); the partition theorem of C04 gives one representative per key class; results of the real code are checked to be a sub-multiset with exactly one row per key class.",
               "Lean 4 proof (shared with C04) + differential correspondence"),
    "C06": _lt("setColumn_wf/setColumn_abs/applyFn1_rowwise for the frame mirror; Apply/FilteredApply/WithRowNums of the real code compared exactly with the spec on derived frames, with a catalogue of functions defined identically in Go and Lean.",
               "Lean 4 proof (frame invariant + refinement lemmas) + differential correspondence"),
    "C07": _lt("Eval of the real code compared exactly with the denotational spec (EArg.den) on generated expression trees; column bookkeeping lemmas shared with C06.",
               "Lean 4 proof (setColumn lemmas) + differential correspondence", "The refinement theorem eval_refines for the temp-column choreography is an open goal (listed in the evidence)."),
    "C08": _lt("pointer_roundtrip for the packed string pointers; New/Select/Drop/Slice/Copy of the real code compared exactly with newS/selectS/dropS/sliceS/copyS including every rejection rule.",
               "Lean 4 proof (bit-level round trip) + differential correspondence"),
    "C09": _lt("Equals of the real code compared with equalsS on pairs of derived frames (both directions and reflexivity); typed views cross-checked (ItemAt vs Slice vs Len) on every observation.",
               "Lean 4 proof (frame abstraction lemmas) + differential correspondence"),
    "C10": _lt("Every generated call, valid or malformed, must end in a frame or Err exactly as the spec decides (no panic, Len()=-1 on failure, errors sticky); the physical well-formedness predicate WF (hypothesis of the refinement theorems) is checked on every reachable frame through the hook.",
               "Lean 4 proof (WF preservation lemmas) + differential correspondence over a malformed-argument stream"),
}
