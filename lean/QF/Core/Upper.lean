/-! Mirror of internal/strings/convert.go ToUpper on code points with a byte output buffer (after the `< utf8.RuneSelf` repair). -/
namespace U
abbrev Byte := UInt8

def enc (c : Char) : List Byte := String.utf8EncodeChar c

/-- second loop of ToUpper: for each remaining rune write `up c` into the buffer;
    `cap` is len(b) (grows by doubling), output bytes accumulate in `out` (= b[:nbytes]). -/
def loop2 (up : Char → Char) (cap : Nat) (out : List Byte) : List Char → List Byte
  | [] => out
  | c :: cs =>
    let r := up c
    if r.val < 0x80 ∧ out.length < cap then loop2 up cap (out ++ [r.val.toUInt8]) cs   -- `r < utf8.RuneSelf`
    else
      let cap := if out.length + 4 ≥ cap then 2 * cap else cap
      loop2 up cap (out ++ enc r) cs

/-- ToUpper(bP, s): returns the bytes of the result string -/
def toUpper (up : Char → Char) (bufLen : Nat) (s : List Char) : List Byte :=
  -- first loop: up to the first rune that changes
  let rec go (pre : List Char) : List Char → List Byte
    | [] => (pre.flatMap enc)            -- nothing changed: return s itself
    | c :: cs =>
      let r := up c
      if r == c then go (pre ++ [c]) cs
      else
        let sLen := ((pre ++ c :: cs).flatMap enc).length
        let cap := if bufLen ≥ sLen + 4 then bufLen else sLen + 4
        let out := pre.flatMap enc
        let out := if r.val < 0x80 then out ++ [r.val.toUInt8] else out ++ enc r
        loop2 up cap out cs
  go [] s

def upAscii (c : Char) : Char := if 'a' ≤ c ∧ c ≤ 'z' then Char.ofNat (c.toNat - 32) else c
#eval toUpper upAscii 10 "a\u0080".toList        -- [65, 0xC2, 0x80]
#eval ("A\u0080".toList.flatMap enc)             -- spec: [65, 0xC2, 0x80]
#eval toUpper upAscii 10 "\u0080a".toList        -- first loop passes U+0080 unchanged, then 'a' → prefix copied verbatim: ok
#eval toUpper upAscii 10 "abc".toList

/-- the specification -/
def spec (up : Char → Char) (s : List Char) : List Byte := (s.map up).flatMap enc

end U

namespace U
theorem u32_lt_of_le_ne (x : UInt32) (h1 : x ≤ 0x80) (h2 : x ≠ 0x80) : x < 0x80 := by
  have a := UInt32.le_iff_toNat_le.mp h1
  have b : x.toNat ≠ 0x80 := by
    intro e; apply h2; apply UInt32.toNat_inj.mp; simpa using e
  apply UInt32.lt_iff_toNat_lt.mpr
  simp at a ⊢; omega

/-- a code point below 0x80 is encoded as the single byte holding its value -/
theorem enc_ascii (c : Char) (h : c.val < 0x80) : enc c = [c.val.toUInt8] := by
  unfold enc
  have h1 : c.utf8Size = 1 := by
    rw [Char.utf8Size_eq_one_iff]
    have := UInt32.lt_iff_toNat_lt.mp h
    apply UInt32.le_iff_toNat_le.mpr
    simp at this ⊢; omega
  exact String.utf8EncodeChar_eq_singleton h1

/-- second loop: every remaining rune is written correctly -/
theorem loop2_spec (up : Char → Char) : ∀ (cs : List Char) (cap : Nat) (out : List Byte),
    loop2 up cap out cs = out ++ (cs.map up).flatMap enc := by
  intro cs
  induction cs with
  | nil => intro cap out; simp [loop2]
  | cons c cs ih =>
    intro cap out
    unfold loop2
    simp only []
    split
    · rename_i hcond
      rw [ih]
      simp [enc_ascii _ hcond.1, List.append_assoc]
    · rw [ih]
      simp [List.append_assoc]

/-- C18: the custom ToUpper equals encode ∘ map up ∘ decode on every valid string, for every case mapping `up` and every
    buffer size. (Before the repair of `r <= utf8.RuneSelf` this needed the hypothesis that no upper case is U+0080.) -/
theorem toUpper_spec' (up : Char → Char) (bufLen : Nat) (s : List Char) :
    toUpper up bufLen s = spec up s := by
  unfold toUpper spec
  suffices H : ∀ (rest pre : List Char), (∀ c ∈ pre, up c = c) →
      toUpper.go up bufLen pre rest = ((pre ++ rest).map up).flatMap enc by
    simpa using H s [] (by simp)
  intro rest
  induction rest with
  | nil =>
    intro pre hp
    have hpre : pre.map up = pre := (List.map_congr_left (fun c hc => hp c hc)).trans (by simp)
    simp [toUpper.go, hpre]
  | cons c cs ih =>
    intro pre hp
    have hpre : pre.map up = pre := (List.map_congr_left (fun c hc => hp c hc)).trans (by simp)
    unfold toUpper.go
    simp only []
    by_cases heq : (up c == c) = true
    · simp only [heq, ↓reduceIte]
      have e : up c = c := by simpa using heq
      have := ih (pre ++ [c]) (by intro x hx; rcases List.mem_append.mp hx with h | h; exact hp x h; simp at h; subst h; exact e)
      simpa [List.append_assoc] using this
    · simp only [heq, Bool.false_eq_true, ↓reduceIte]
      rw [loop2_spec up cs _ _]
      by_cases hlt : (up c).val < 0x80
      · simp [hlt, List.map_append, List.flatMap_append, hpre, enc_ascii _ hlt, List.append_assoc]
      · simp [hlt, List.map_append, List.flatMap_append, hpre, List.append_assoc]

#print axioms toUpper_spec'
end U
