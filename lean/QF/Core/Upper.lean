/-! Prototype: mirror of internal/strings/convert.go ToUpper on code points with a byte output buffer. -/
namespace U
abbrev Byte := UInt8

def enc (c : Char) : List Byte := String.utf8EncodeChar c

/-- second loop of ToUpper: for each remaining rune write `up c` into the buffer;
    `cap` is len(b) (grows by doubling), output bytes accumulate in `out` (= b[:nbytes]). -/
def loop2 (up : Char → Char) (cap : Nat) (out : List Byte) : List Char → List Byte
  | [] => out
  | c :: cs =>
    let r := up c
    if r.val ≤ 0x80 ∧ out.length < cap then loop2 up cap (out ++ [r.val.toUInt8]) cs   -- `r <= utf8.RuneSelf`
    else
      let cap := if out.length + 4 ≥ cap then 2 * cap else cap
      loop2 up cap (out ++ enc r) cs

/-- ToUpper(bP, s): returns the bytes of the result string -/
def toUpper (up : Char → Char) (bufLen : Nat) (s : List Char) : List Byte :=
  -- first loop: up to the first rune that changes
  let rec go (pre : List Char) : List Char → List Byte
    | [] => (pre.flatMap enc)            -- nothing changed: return s itself
    | c :: cs =>
      let r := up c
      if r == c then go (pre ++ [c]) cs
      else
        let sLen := ((pre ++ c :: cs).flatMap enc).length
        let cap := if bufLen ≥ sLen + 4 then bufLen else sLen + 4
        let out := pre.flatMap enc
        let out := if r.val ≤ 0x80 then out ++ [r.val.toUInt8] else out ++ enc r
        loop2 up cap out cs
  go [] s

def upAscii (c : Char) : Char := if 'a' ≤ c ∧ c ≤ 'z' then Char.ofNat (c.toNat - 32) else c
#eval toUpper upAscii 10 "a\u0080".toList        -- Go: [65, 0x80] (invalid UTF-8)
#eval ("A\u0080".toList.flatMap enc)             -- spec: [65, 0xC2, 0x80]
#eval toUpper upAscii 10 "\u0080a".toList        -- first loop passes U+0080 unchanged, then 'a' → prefix copied verbatim: ok
#eval toUpper upAscii 10 "abc".toList

/-- the specification -/
def spec (up : Char → Char) (s : List Char) : List Byte := (s.map up).flatMap enc

theorem toUpper_spec (up : Char → Char) (bufLen : Nat) (s : List Char)
    (h : ∀ c ∈ s, (up c).val ≠ 0x80 ∨ up c = c) : True := trivial   -- statement placeholder; see DESIGN C18
end U

namespace U
theorem u32_lt_of_le_ne (x : UInt32) (h1 : x ≤ 0x80) (h2 : x ≠ 0x80) : x < 0x80 := by
  have a := UInt32.le_iff_toNat_le.mp h1
  have b : x.toNat ≠ 0x80 := by
    intro e; apply h2; apply UInt32.toNat_inj.mp; simpa using e
  apply UInt32.lt_iff_toNat_lt.mpr
  simp at a ⊢; omega

/-- a code point below 0x80 is encoded as the single byte holding its value -/
theorem enc_ascii (c : Char) (h : c.val < 0x80) : enc c = [c.val.toUInt8] := by
  unfold enc
  have h1 : c.utf8Size = 1 := by
    rw [Char.utf8Size_eq_one_iff]
    have := UInt32.lt_iff_toNat_lt.mp h
    apply UInt32.le_iff_toNat_le.mpr
    simp at this ⊢; omega
  exact String.utf8EncodeChar_eq_singleton h1

/-- second loop: every remaining rune is written correctly, unless its upper case is U+0080 -/
theorem loop2_spec (up : Char → Char) : ∀ (cs : List Char) (cap : Nat) (out : List Byte),
    (∀ c ∈ cs, (up c).val ≠ 0x80) → loop2 up cap out cs = out ++ (cs.map up).flatMap enc := by
  intro cs
  induction cs with
  | nil => intro cap out _; simp [loop2]
  | cons c cs ih =>
    intro cap out h
    have hc := h c (by simp)
    have hcs : ∀ c ∈ cs, (up c).val ≠ 0x80 := fun c hm => h c (by simp [hm])
    unfold loop2
    simp only []
    split
    · rename_i hcond
      have hlt : (up c).val < 0x80 := u32_lt_of_le_ne _ hcond.1 hc
      rw [ih _ _ hcs]
      simp [enc_ascii _ hlt, List.append_assoc]
    · rw [ih _ _ hcs]
      simp [List.append_assoc]

/-- C18: the custom ToUpper equals encode ∘ map up ∘ decode on every valid string and for every buffer size,
    provided no rune's upper case is U+0080 (the `<= RuneSelf` defect; with `<` the hypothesis disappears) -/
theorem toUpper_spec' (up : Char → Char) (bufLen : Nat) (s : List Char) (h : ∀ c ∈ s, (up c).val ≠ 0x80) :
    toUpper up bufLen s = spec up s := by
  unfold toUpper spec
  suffices H : ∀ (rest pre : List Char), (∀ c ∈ pre, up c = c) → (∀ c ∈ rest, (up c).val ≠ 0x80) →
      toUpper.go up bufLen pre rest = ((pre ++ rest).map up).flatMap enc by
    simpa using H s [] (by simp) h
  intro rest
  induction rest with
  | nil =>
    intro pre hp _
    have hpre : pre.map up = pre := (List.map_congr_left (fun c hc => hp c hc)).trans (by simp)
    simp [toUpper.go, hpre]
  | cons c cs ih =>
    intro pre hp hr
    have hc := hr c (by simp)
    have hcs : ∀ c ∈ cs, (up c).val ≠ 0x80 := fun c hm => hr c (by simp [hm])
    have hpre : pre.map up = pre := (List.map_congr_left (fun c hc => hp c hc)).trans (by simp)
    unfold toUpper.go
    simp only []
    by_cases heq : (up c == c) = true
    · simp only [heq, ↓reduceIte]
      have e : up c = c := by simpa using heq
      have := ih (pre ++ [c]) (by intro x hx; rcases List.mem_append.mp hx with h | h; exact hp x h; simp at h; subst h; exact e) hcs
      simpa [List.append_assoc] using this
    · simp only [heq, Bool.false_eq_true, ↓reduceIte]
      rw [loop2_spec up cs _ _ hcs]
      by_cases hle : (up c).val ≤ 0x80
      · have hlt : (up c).val < 0x80 := u32_lt_of_le_ne _ hle hc
        simp [hle, List.map_append, List.flatMap_append, hpre, enc_ascii _ hlt, List.append_assoc]
      · simp [hle, List.map_append, List.flatMap_append, hpre, List.append_assoc]

#print axioms toUpper_spec'
end U
