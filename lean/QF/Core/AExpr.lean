import QF.Spec.Ops
import QF.Core.KExpr
/-!
# AE — the language of the built-in aggregation functions, and its Go semantics

`Grouper.Aggregate` (/repo/grouper.go) hands every group's cells of a column to an aggregation function. The built-in
ones are named by a string: `Column.Aggregate` of the int, float and bool column packages looks the name up in a map

    var aggregations = map[string]func([]int) int{"sum": sum, "max": max, "min": min}      // internal/icolumn/aggregations.go

and `Grouper.Aggregate` itself answers `"count"` with the group sizes. The functions are small loops:

    func sum(values []int) int { result := 0; for _, v := range values { result += v }; return result }
    func max(values []int) int { result := values[0]; for _, v := range values[1:] { result = integer.Max(result, v) }; return result }
    func avg(values []float64) float64 { result := 0.0; for … { result += v }; return result / float64(len(values)) }
    func majority(b []bool) bool { tCount, fCount := 0, 0; for _, x := range b { if x { tCount++ } else { fCount++ } }; return tCount > fCount }

The extractor (go/cmd/extract/aast.go) translates the maps and the functions they name, from /repo's current source, into
terms of `AE` and writes them to `QF/Gen/Aggregations.lean` on every run. Terms name things by ROLE — `.acc` the
accumulator, `.v` the current element, `.c0` / `.c1` the first / second counter — never by the Go identifier. A call of a
small selection function of another package (`integer.Max(result, v)`: `if x > y { return x }; return y`) is replaced by
the callee's body with the arguments for its parameters (`.sel ">" .acc .v .acc .v`).

`AE.eval` is the meaning of a term under Go's semantics at the element type:

* int     — `+` wraps around at 64 bits (`wrap64`); the six comparisons
* float64 — on the bit patterns; `+`, `/`, `float64(n)` are the project's `fAdd`, `fDiv`, `fOfInt` (IEEE-754 double
            arithmetic of Lean's `Float`); comparisons as in KE (`F64.lt/le/eq`); `math.Max` / `math.Min` are `goMathMax`
            / `goMathMin` below, transcribed from $GOROOT/src/math/dim.go
* `values[0]` and `values[1:]` panic on the empty slice (`none`); counters are Go `int`s that cannot overflow (a slice
  has fewer than 2^63 elements)
-/
namespace QF

/-- Go values in aggregation functions. -/
inductive AV where
  | int (v : Int)
  | flt (bits : UInt64)
  | bool (b : Bool)
  deriving DecidableEq, Repr, Inhabited

/-- Value expressions of a loop body, by role. -/
inductive AX where
  /-- the accumulator (`result`) -/
  | acc
  /-- the current element (the value variable of the `range` loop) -/
  | v
  /-- Go `a + b` -/
  | add (a b : AX)
  /-- `math.Max(a, b)` -/
  | mathMax (a b : AX)
  /-- `math.Min(a, b)` -/
  | mathMin (a b : AX)
  /-- an inlined call of `func(x, y) { if x op y { return p }; return q }`: `if a op b then t else e` -/
  | sel (op : String) (a b t e : AX)
  | opaque (txt : String)
  deriving DecidableEq, Repr, Inhabited

/-- How the accumulator starts. -/
inductive AInit where
  /-- `result := 0` / `result := 0.0` -/
  | zero
  /-- `result := values[0]` -/
  | first
  | opaque (txt : String)
  deriving DecidableEq, Repr, Inhabited

/-- What is returned. -/
inductive AFin where
  /-- `return result` -/
  | id
  /-- `return result / float64(len(values))` -/
  | divByLen
  | opaque (txt : String)
  deriving DecidableEq, Repr, Inhabited

/-- The two counters of a counting loop, by order of declaration. -/
inductive ACtr where
  | c0 | c1
  deriving DecidableEq, Repr, Inhabited

/-- Aggregation functions. -/
inductive AE where
  /-- `result := <init>; for _, v := range values[<skip>:] { result = <step> }; return <fin>` -/
  | fold (init : AInit) (skip : Nat) (step : AX) (fin : AFin)
  /-- `a, b := 0, 0; for _, x := range values { if x { <t>++ } else { <e>++ } }; return <l> op <r>` -/
  | count2 (t e : ACtr) (op : String) (l r : ACtr)
  /-- `len(values)` (grouper.go's special case `"count"`) -/
  | len
  | opaque (txt : String)
  deriving DecidableEq, Repr, Inhabited

/-! ## `math.Max`, `math.Min`

$GOROOT/src/math/dim.go (the assembly versions of amd64 / arm64 / s390x / riscv64 implement the same cases):

    func max(x, y float64) float64 {
        switch {
        case IsInf(x, 1) || IsInf(y, 1): return Inf(1)
        case IsNaN(x) || IsNaN(y):       return NaN()
        case x == 0 && x == y:           if Signbit(x) { return y }; return x
        }
        if x > y { return x }
        return y
    }

`min` has `IsInf(·, -1)`, `Inf(-1)`, `if Signbit(x) { return x }; return y` and `x < y`. `IsInf(x, 1)` (`x > MaxFloat64`) holds
for exactly one bit pattern; `NaN()` is 0x7FF8000000000001. -/

def F64.posInf : UInt64 := 0x7ff0000000000000
def F64.negInf : UInt64 := 0xfff0000000000000

def goMathMax (x y : UInt64) : UInt64 :=
  if x == F64.posInf || y == F64.posInf then F64.posInf
  else if F64.isNaN x || F64.isNaN y then F64.canonNaN
  else if F64.eq x 0 && F64.eq x y then (if F64.sign x then y else x)
  else if F64.lt y x then x else y

def goMathMin (x y : UInt64) : UInt64 :=
  if x == F64.negInf || y == F64.negInf then F64.negInf
  else if F64.isNaN x || F64.isNaN y then F64.canonNaN
  else if F64.eq x 0 && F64.eq x y then (if F64.sign x then x else y)
  else if F64.lt x y then x else y

/-! ## Evaluation -/

def cmpAV (op : String) : AV → AV → Option Bool
  | .int a, .int b => cmpInt op a b
  | .flt a, .flt b => cmpFlt op a b
  | .bool a, .bool b => cmpBool op a b
  | _, _ => none

/-- the value of a step expression when the accumulator holds `acc` and the current element is `v` -/
def AX.eval (acc v : AV) : AX → Option AV
  | .acc => some acc
  | .v => some v
  | .add a b =>
    match a.eval acc v, b.eval acc v with
    | some (.int x), some (.int y) => some (.int (wrap64 (x + y)))
    | some (.flt x), some (.flt y) => some (.flt (fAdd x y))
    | _, _ => none
  | .mathMax a b =>
    match a.eval acc v, b.eval acc v with
    | some (.flt x), some (.flt y) => some (.flt (goMathMax x y))
    | _, _ => none
  | .mathMin a b =>
    match a.eval acc v, b.eval acc v with
    | some (.flt x), some (.flt y) => some (.flt (goMathMin x y))
    | _, _ => none
  | .sel op a b t e =>
    match a.eval acc v, b.eval acc v with
    | some x, some y =>
      match cmpAV op x y with
      | some true => t.eval acc v
      | some false => e.eval acc v
      | none => none
    | _, _ => none
  | .opaque _ => none

/-- the Go value of a cell of an int / float / bool column -/
def AV.ofCell : CType → Cell → Option AV
  | .int, .int v => some (.int v)
  | .float, .float b => some (.flt b)
  | .bool, .bool b => some (.bool b)
  | _, _ => none

def AV.toCell : AV → Cell
  | .int v => .int v
  | .flt b => .float b
  | .bool b => .bool b

/-- the slice `values` a group's cells are copied into (`subsetWithBuf`) -/
def avsOf (ty : CType) : List Cell → Option (List AV)
  | [] => some []
  | c :: cs =>
    match AV.ofCell ty c, avsOf ty cs with
    | some a, some as => some (a :: as)
    | _, _ => none

/-- the loop `for _, v := range vs { acc = <step> }` -/
def foldStep (step : AX) : AV → List AV → Option AV
  | acc, [] => some acc
  | acc, v :: vs =>
    match step.eval acc v with
    | some a => foldStep step a vs
    | none => none

def AInit.eval (ty : CType) (avs : List AV) : AInit → Option AV
  | .zero => match ty with | .int => some (.int 0) | .float => some (.flt 0) | _ => none
  | .first => avs.head?
  | .opaque _ => none

def AFin.eval (r : AV) (n : Nat) : AFin → Option AV
  | .id => some r
  | .divByLen => match r with | .flt b => some (.flt (fDiv b (fOfInt n))) | _ => none
  | .opaque _ => none

/-- the loop `for _, x := range bs { if x { <t>++ } else { <e>++ } }` on the counters (`c0`, `c1`) -/
def countStep (t e : ACtr) : Int × Int → List AV → Option (Int × Int)
  | cs, [] => some cs
  | cs, .bool b :: vs =>
    let bump (k : ACtr) : Int × Int := match k with | .c0 => (cs.1 + 1, cs.2) | .c1 => (cs.1, cs.2 + 1)
    countStep t e (bump (if b then t else e)) vs
  | _, _ :: _ => none

def ACtr.get (cs : Int × Int) : ACtr → Int
  | .c0 => cs.1
  | .c1 => cs.2

/-- What the aggregation function returns on the cells `vs` of a group of a column of type `ty` (in frame order); `none`
when the term has no meaning there or the function panics. -/
def AE.eval (ty : CType) (vs : List Cell) : AE → Option Cell
  | .len => some (.int vs.length)
  | .opaque _ => none
  | .fold init skip step fin =>
    match avsOf ty vs with
    | none => none
    | some avs =>
      match init.eval ty avs with
      | none => none
      | some a0 =>
        if skip ≤ avs.length then
          match foldStep step a0 (avs.drop skip) with
          | some r => (fin.eval r avs.length).map AV.toCell
          | none => none
        else none
  | .count2 t e op l r =>
    match ty, avsOf ty vs with
    | .bool, some avs =>
      match countStep t e (0, 0) avs with
      | some cs => (cmpInt op (l.get cs) (r.get cs)).map Cell.bool
      | none => none
    | _, _ => none

def AX.hasOpaque : AX → Bool
  | .opaque _ => true
  | .add a b | .mathMax a b | .mathMin a b => a.hasOpaque || b.hasOpaque
  | .sel _ a b t e => a.hasOpaque || b.hasOpaque || t.hasOpaque || e.hasOpaque
  | _ => false

/-- Does the term contain a part the translator did not understand? -/
def AE.hasOpaque : AE → Bool
  | .opaque _ => true
  | .fold init _ step fin =>
    (match init with | .opaque _ => true | _ => false) || step.hasOpaque || (match fin with | .opaque _ => true | _ => false)
  | _ => false

end QF
