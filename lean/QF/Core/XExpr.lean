import QF.Spec.Ops
/-!
# XE — the language of the expression DECODER of /repo/expression.go, and its Go semantics

    func newExpr(expr interface{}) Expression          -- the chain of attempts
    func newColExpr / newConstExpr / newUnaryExpr / newColConstExpr / newColColExpr (x interface{}) (T, bool)
    func newExprExpr(x interface{}) Expression
    func Val(value interface{}) Expression
    func Expr(name string, args ...interface{}) Expression

The extractor (go/cmd/extract/xast.go) executes the body of the decoder symbolically — the function `Val` delegates
to — inlining every constructor it calls, and writes what remains as ONE decision tree `XT` over the raw argument to
`QF/Gen/ExprDecode.lean` on every run: the conditions are the dynamic type tests on the argument `x` and on the elements
`l[i]` of `l := x.([]interface{})`, `len(l) == n`, and "the decoded sub-expression `newExpr(l[i])` has a non-nil `Err()`";
the leaves are the struct values returned. Everything is by ROLE:

* the struct types are identified by the types of their fields (`{ColumnName}` → `col`, `{interface{}}` → `const`,
  `{string, ColumnName}` → `unary`, `{string, ColumnName, interface{}, bool}` → `colConst`, `{string, ColumnName,
  ColumnName}` → `colCol`, `{string, Expression}` → `ex1`, `{string, Expression, Expression}` → `ex2`, `{error}` →
  `error`), and by their `Err()` method: `return nil` for all but the last, `return e.<error field>` for it;
* fields of equal type by declaration order; locals by what they were assigned; functions by being called.

`Expr` is translated separately to `XF`: the tests on `len(args)`, the lists handed to the decoder, and the step
"a fresh slice of length `len(args)-d` whose first element is the decoded `[name, args[0], args[1]]` and whose rest is
copied from `args[j:]`; tail call" (or the same step writing into `args` itself).

Whatever is not understood is `.opaque "<text>"`, which has no meaning (`stuck`).
-/
namespace QF

/-- dynamic types a raw argument is tested for -/
inductive XKind where
  /-- a value that implements `Expression` -/
  | expr
  /-- `types.ColumnName` -/
  | col
  /-- `string` -/
  | str
  | int | float | bool
  /-- `*string` -/
  | pstr
  /-- the nil interface -/
  | nil
  /-- `[]interface{}` -/
  | list
  /-- any other dynamic type -/
  | other
  deriving DecidableEq, Repr, Inhabited

/-- decoded expressions: the struct values of expression.go, by role -/
inductive XDec where
  | col (n : Bytes)
  | const (c : Cell)
  | unary (op : Bytes) (src : Bytes)
  | colConst (op : Bytes) (src : Bytes) (c : Cell) (constFirst : Bool)
  | colCol (op : Bytes) (a b : Bytes)
  | ex1 (op : Bytes) (e : XDec)
  | ex2 (op : Bytes) (l r : XDec)
  /-- the only one whose `Err()` is not nil -/
  | error
  deriving DecidableEq, Repr, Inhabited

/-- raw expression trees: the Go values handed to `Val` / `Expr` / `newExpr` -/
inductive RawExpr where
  /-- an `Expression` built earlier (the result of `Val` / `Expr`) -/
  | expr (d : XDec)
  | col (n : Bytes)
  | str (s : Bytes)
  | int (v : Int)
  | float (b : UInt64)
  | bool (b : Bool)
  | pstr (s : Option Bytes)
  | nil
  | list (l : List RawExpr)
  | other
  deriving Repr, Inhabited

def RawExpr.kind : RawExpr → XKind
  | .expr _ => .expr | .col _ => .col | .str _ => .str | .int _ => .int | .float _ => .float | .bool _ => .bool
  | .pstr _ => .pstr | .nil => .nil | .list _ => .list | .other => .other

def XDec.isErr : XDec → Bool
  | .error => true
  | _ => false

/-- a raw value of the call: the argument `x`, or `l[i]` for `l := x.([]interface{})` -/
inductive XV where
  | arg
  | elem (i : Nat)
  deriving DecidableEq, Repr, Inhabited

/-- the value of a constant expression -/
inductive XK where
  /-- the raw value itself (one of int, float64, bool, string, *string) -/
  | of (v : XV)
  /-- `(*string)(nil)`, what a nil argument is replaced with -/
  | null
  deriving DecidableEq, Repr, Inhabited

inductive XC where
  /-- `v.(T)` succeeds / `v == nil` / a type-switch case -/
  | is (v : XV) (k : XKind)
  /-- `len(l) == n` for `l, _ := x.([]interface{})` (the nil slice when the assertion fails) -/
  | lenIs (n : Nat)
  /-- `newExpr(v).Err() != nil` -/
  | subErr (v : XV)
  | not (c : XC)
  | and (a b : XC)
  | or (a b : XC)
  | tt
  | ff
  | opaque (txt : String)
  deriving DecidableEq, Repr, Inhabited

/-- the struct value returned -/
inductive XN where
  /-- the `Expression` `v` itself -/
  | same (v : XV)
  | col (v : XV)
  | const (k : XK)
  | unary (op src : XV)
  | colConst (op src : XV) (k : XK) (constFirst : Bool)
  | colCol (op a b : XV)
  /-- `{op, newExpr(l[i])}` -/
  | ex1 (op : XV) (i : Nat)
  | ex2 (op : XV) (i j : Nat)
  /-- the struct whose `Err()` returns its error field, built with a non-nil error -/
  | error
  deriving DecidableEq, Repr, Inhabited

inductive XT where
  | ite (c : XC) (t e : XT)
  | ret (n : XN)
  | opaque (txt : String)
  deriving DecidableEq, Repr, Inhabited

/-! ## Go semantics -/

def XV.get (x : RawExpr) : XV → Option RawExpr
  | .arg => some x
  | .elem i => match x with
    | .list l => l[i]?
    | _ => none

/-- `subs`: the decoded elements of the list `x` (`newExpr(l[i])`), `[]` for other arguments -/
def XC.eval (x : RawExpr) (subs : List XDec) : XC → Option Bool
  | .is v k => (v.get x).map (fun r => r.kind == k)
  | .lenIs n => some ((match x with | .list l => l.length | _ => 0) == n)
  | .subErr (.elem i) => (subs[i]?).map XDec.isErr
  | .subErr .arg => none
  | .not c => (c.eval x subs).map (!·)
  | .and a b =>
    match a.eval x subs with
    | some true => b.eval x subs
    | r => r
  | .or a b =>
    match a.eval x subs with
    | some false => b.eval x subs
    | r => r
  | .tt => some true
  | .ff => some false
  | .opaque _ => none

def XV.str (x : RawExpr) (v : XV) : Option Bytes :=
  match v.get x with
  | some (.str s) => some s
  | _ => none

def XV.col (x : RawExpr) (v : XV) : Option Bytes :=
  match v.get x with
  | some (.col s) => some s
  | _ => none

/-- the constant as the cell it denotes -/
def XK.cell (x : RawExpr) : XK → Option Cell
  | .null => some (.str none)
  | .of v =>
    match v.get x with
    | some (.int i) => some (.int i)
    | some (.float b) => some (.float b)
    | some (.bool b) => some (.bool b)
    | some (.str s) => some (.str (some s))
    | some (.pstr p) => some (.str p)
    | _ => none

/-- the struct value; `none`: a field whose type assertion did not hold (the code would have stored a zero value) -/
def XN.build (x : RawExpr) (subs : List XDec) : XN → Option XDec
  | .same v =>
    match v.get x with
    | some (.expr d) => some d
    | _ => none
  | .col v => (v.col x).map .col
  | .const k => (k.cell x).map .const
  | .unary op src =>
    match op.str x, src.col x with
    | some o, some s => some (.unary o s)
    | _, _ => none
  | .colConst op src k cf =>
    match op.str x, src.col x, k.cell x with
    | some o, some s, some c => some (.colConst o s c cf)
    | _, _, _ => none
  | .colCol op a b =>
    match op.str x, a.col x, b.col x with
    | some o, some s, some t => some (.colCol o s t)
    | _, _, _ => none
  | .ex1 op i =>
    match op.str x, subs[i]? with
    | some o, some d => some (.ex1 o d)
    | _, _ => none
  | .ex2 op i j =>
    match op.str x, subs[i]?, subs[j]? with
    | some o, some d, some e => some (.ex2 o d e)
    | _, _, _ => none
  | .error => some .error

/-- `none`: stuck (a panic, an untranslated part, a zero-valued field) -/
def XT.run (x : RawExpr) (subs : List XDec) : XT → Option XDec
  | .ite c t e =>
    match c.eval x subs with
    | some true => t.run x subs
    | some false => e.run x subs
    | none => none
  | .ret n => n.build x subs
  | .opaque _ => none

mutual
/-- `newExpr(x)` for the tree `t` of the decoder. The elements of a list are decoded first, whether or not the code
looks at them (they are only used through `subErr` and `ex1` / `ex2`). `none`: stuck (here or in an element). -/
def XT.decode (t : XT) : RawExpr → Option XDec
  | .list l =>
    match XT.decodeL t l with
    | some subs => t.run (.list l) subs
    | none => none
  | .expr d => t.run (.expr d) []
  | .col n => t.run (.col n) []
  | .str s => t.run (.str s) []
  | .int v => t.run (.int v) []
  | .float b => t.run (.float b) []
  | .bool b => t.run (.bool b) []
  | .pstr p => t.run (.pstr p) []
  | .nil => t.run .nil []
  | .other => t.run .other []
def XT.decodeL (t : XT) : List RawExpr → Option (List XDec)
  | [] => some []
  | a :: r =>
    match XT.decode t a, XT.decodeL t r with
    | some d, some ds => some (d :: ds)
    | _, _ => none
end

/-! ## Flattening: the leaf reached for an abstract SHAPE of the argument -/

/-- what the conditions can see of an argument: its kind; for a list its length and, per element, (kind, "the
decoded element has an error") -/
structure XShape where
  kind : XKind
  /-- length of a list, capped at 4 (0 for other arguments) -/
  len : Nat := 0
  elems : List (XKind × Bool) := []
  deriving DecidableEq, Repr, Inhabited

def XC.abs (s : XShape) : XC → Option Bool
  | .is .arg k => some (s.kind == k)
  | .is (.elem i) k => (s.elems[i]?).map (fun e => e.1 == k)
  | .lenIs n => if n < 4 then some (s.len == n) else none
  | .subErr (.elem i) => (s.elems[i]?).map (·.2)
  | .subErr .arg => none
  | .not c => (c.abs s).map (!·)
  | .and a b =>
    match a.abs s with
    | some true => b.abs s
    | r => r
  | .or a b =>
    match a.abs s with
    | some false => b.abs s
    | r => r
  | .tt => some true
  | .ff => some false
  | .opaque _ => none

def XT.flatten (s : XShape) : XT → Option XN
  | .ite c t e =>
    match c.abs s with
    | some true => t.flatten s
    | some false => e.flatten s
    | none => none
  | .ret n => some n
  | .opaque _ => none

/-- the shape of an actual argument; a list of a length other than 2 or 3 shows no elements -/
def shapeOf (x : RawExpr) (subs : List XDec) : XShape :=
  match x with
  | .list l =>
    { kind := .list, len := min l.length 4,
      elems := if l.length = 2 ∨ l.length = 3 then (l.zip subs).map (fun p => (p.1.kind, p.2.isErr)) else [] }
  | x => { kind := x.kind }

theorem XC.abs_sound (x : RawExpr) (subs : List XDec) (hs : ∀ l, x = .list l → subs.length = l.length)
    (c : XC) : ∀ v, c.abs (shapeOf x subs) = some v → c.eval x subs = some v := by
  induction c with
  | is w k =>
    intro v h
    cases w with
    | arg =>
      simp only [XC.abs, Option.some.injEq] at h
      simp only [XC.eval, XV.get, Option.map_some, Option.some.injEq]
      rw [← h]; cases x <;> rfl
    | elem i =>
      simp only [XC.abs, Option.map_eq_some_iff] at h
      obtain ⟨e, he, rfl⟩ := h
      cases x with
      | list l =>
        have hl := hs l rfl
        simp only [shapeOf] at he
        split at he
        · simp only [List.getElem?_map, Option.map_eq_some_iff] at he
          obtain ⟨p, hp, rfl⟩ := he
          rw [List.getElem?_zip_eq_some] at hp
          simp only [XC.eval, XV.get, hp.1, Option.map_some]
        · simp at he
      | _ => simp [shapeOf] at he
  | lenIs n =>
    intro v h
    simp only [XC.abs] at h
    split at h
    · rename_i hn
      simp only [Option.some.injEq] at h
      simp only [XC.eval, Option.some.injEq]
      rw [← h]
      cases x with
      | list l =>
        simp only [shapeOf]
        rw [Bool.eq_iff_iff]
        simp only [beq_iff_eq]
        omega
      | _ => rfl
    · exact absurd h (by simp)
  | subErr w =>
    intro v h
    cases w with
    | arg => simp [XC.abs] at h
    | elem i =>
      simp only [XC.abs, Option.map_eq_some_iff] at h
      obtain ⟨e, he, rfl⟩ := h
      cases x with
      | list l =>
        simp only [shapeOf] at he
        split at he
        · simp only [List.getElem?_map, Option.map_eq_some_iff] at he
          obtain ⟨p, hp, rfl⟩ := he
          rw [List.getElem?_zip_eq_some] at hp
          simp only [XC.eval, hp.2, Option.map_some]
        · simp at he
      | _ => simp [shapeOf] at he
  | not c ih =>
    intro v h
    simp only [XC.abs, Option.map_eq_some_iff] at h
    obtain ⟨w, hw, rfl⟩ := h
    simp [XC.eval, ih w hw]
  | and a b iha ihb =>
    intro v h
    simp only [XC.abs] at h
    cases ha : a.abs (shapeOf x subs) with
    | none => rw [ha] at h; exact absurd h (by simp)
    | some w =>
      rw [ha] at h
      cases w
      · simp only at h; simp only [XC.eval, iha false ha]; exact h
      · simp only at h; simp only [XC.eval, iha true ha]; exact ihb v h
  | or a b iha ihb =>
    intro v h
    simp only [XC.abs] at h
    cases ha : a.abs (shapeOf x subs) with
    | none => rw [ha] at h; exact absurd h (by simp)
    | some w =>
      rw [ha] at h
      cases w
      · simp only at h; simp only [XC.eval, iha false ha]; exact ihb v h
      · simp only at h; simp only [XC.eval, iha true ha]; exact h
  | tt => intro v h; simpa [XC.abs, XC.eval] using h
  | ff => intro v h; simpa [XC.abs, XC.eval] using h
  | «opaque» t => intro v h; exact absurd h (by simp [XC.abs])

/-- running the tree is building the leaf that `flatten` finds for the shape of the argument -/
theorem XT.run_flatten (x : RawExpr) (subs : List XDec) (hs : ∀ l, x = .list l → subs.length = l.length) (t : XT) :
    ∀ n, t.flatten (shapeOf x subs) = some n → t.run x subs = n.build x subs := by
  induction t with
  | ite c t e iht ihe =>
    intro n h
    simp only [XT.flatten] at h
    cases hc : c.abs (shapeOf x subs) with
    | none => rw [hc] at h; exact absurd h (by simp)
    | some w =>
      rw [hc] at h
      have := XC.abs_sound x subs hs c w hc
      cases w
      · simp only at h; simp only [XT.run, this]; exact ihe n h
      · simp only at h; simp only [XT.run, this]; exact iht n h
  | ret m => intro n h; simp only [XT.flatten, Option.some.injEq] at h; rw [← h]; rfl
  | «opaque» t => intro n h; exact absurd h (by simp [XT.flatten])

/-! ## `Expr(name, args...)` -/

inductive XFV where
  /-- the string parameter -/
  | name
  /-- `args[i]` -/
  | arg (i : Nat)
  deriving DecidableEq, Repr, Inhabited

/-- what is returned / stored -/
inductive XFR where
  /-- the error struct -/
  | error
  /-- `newExpr([]interface{}{…})` -/
  | decode (elems : List XFV)
  deriving DecidableEq, Repr, Inhabited

inductive XF where
  /-- `if len(args) == n { return r }; rest` -/
  | ifLen (n : Nat) (r : XFR) (rest : XF)
  /-- `newArgs := make([]interface{}, len(args)-d); newArgs[0] = first; copy(newArgs[1:], args[j:]);
  return <this function>(name, newArgs...)` -/
  | foldFresh (d j : Nat) (first : XFR)
  /-- `args[i] = first; return <this function>(name, args[i:]...)`: the caller's slice is written to -/
  | foldInPlace (i : Nat) (first : XFR)
  | opaque (txt : String)
  deriving DecidableEq, Repr, Inhabited

def XFV.get (name : Bytes) (args : List RawExpr) : XFV → Option RawExpr
  | .name => some (.str name)
  | .arg i => args[i]?

def XFV.getAll (name : Bytes) (args : List RawExpr) : List XFV → Option (List RawExpr)
  | [] => some []
  | v :: r =>
    match v.get name args, XFV.getAll name args r with
    | some x, some xs => some (x :: xs)
    | _, _ => none

def XFR.eval (t : XT) (name : Bytes) (args : List RawExpr) : XFR → Option XDec
  | .error => some .error
  | .decode elems =>
    match XFV.getAll name args elems with
    | some l => t.decode (.list l)
    | none => none

/-- one activation of `Expr(name, args...)`; `self`: the tail call -/
def XF.step (t : XT) (name : Bytes) (self : List RawExpr → Option (XDec × List RawExpr)) (args : List RawExpr) :
    XF → Option (XDec × List RawExpr)
  | .ifLen n r rest =>
    if args.length = n then (r.eval t name args).map (·, args) else XF.step t name self args rest
  | .foldFresh d j first =>
    if d = 0 ∨ args.length < d then none else
    match first.eval t name args with
    | none => none
    | some e =>
      let n := args.length - d
      if n = 0 then none else
      -- copy(dst, src) copies min(len(dst), len(src)) elements; the rest of the fresh slice stays nil
      let src := (args.drop j).take (n - 1)
      let newArgs := RawExpr.expr e :: (src ++ List.replicate (n - 1 - src.length) RawExpr.nil)
      (self newArgs).map (fun r => (r.1, args))
  | .foldInPlace i first =>
    if i = 0 ∨ args.length ≤ i then none else
    match first.eval t name args with
    | none => none
    | some e =>
      let args' := args.set i (.expr e)
      (self (args'.drop i)).map (fun r => (r.1, args'.take i ++ r.2))
  | .opaque _ => none

/-- `Expr(name, args...)`: the expression returned and the contents of the caller's slice afterwards; `none`: stuck
(index out of range, `make` with a negative length, no progress, an untranslated part). `fuel` bounds the tail calls. -/
def XF.run (t : XT) (f : XF) (name : Bytes) : Nat → List RawExpr → Option (XDec × List RawExpr)
  | 0, _ => none
  | fuel + 1, args => XF.step t name (XF.run t f name fuel) args f

end QF
