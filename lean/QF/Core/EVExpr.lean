import QF.Core.Eval
/-!
# EV — the language of the expression EXECUTION of /repo/expression.go and `QFrame.Eval`, and its Go semantics

    func getFunc(ctx, ac, qf, colName, funcName) (QFrame, interface{})
    func tempColName(qf QFrame, prefix string) types.ColumnName
    func (e colExpr | constExpr | unaryExpr | colConstExpr | colColExpr | exprExpr1 | exprExpr2 | errorExpr)
         execute(qf QFrame, ctx *eval.Context) (QFrame, types.ColumnName)
    func (qf QFrame) Eval(dstCol string, expr Expression, ff ...eval.ConfigFunc) QFrame
    func missingCol(expr Expression, qf QFrame) (types.ColumnName, bool)

go/cmd/extract/evalast.go executes the body of every `execute` method and of `Eval` symbolically and writes what remains to
`QF/Gen/EvalFns.lean` on every run: a decision tree `EP` whose conditions `EC` are the run-time tests (`qf.Err != nil`,
`err != nil`, `ok` of `ctx.GetFunc`, `qf.Contains(n)`, `e.constFirst`, `a != b`), whose inner nodes are the calls of the
`execute` method of another expression (of a struct built on the spot — `newConstExpr(…)`, `newColColExpr(…)`,
`newUnaryExpr(…)` are executed on their statically typed arguments — or of a sub-expression field through the
interface), and whose leaves are the values returned. Package functions without a loop (`getFunc`, the constructors) are
inlined. The function with the search loop (`tempColName`) is translated separately to `ETmp`; a call of it is the term
`ET.temp`. The recursive function over the expression tree that `Eval` calls first (`missingCol`: a type switch over the
expression structs, column fields collected per struct, `Expression` fields recursed into, a final loop with
`qf.Contains`) is translated separately to `EMiss`; a call of it is the pair `ET.missCol` / `EC.missing`.
Frames are immutable values in this code, so every call on a frame is a pure term `ET`:

    f.withErr(e)   f.Apply(Instruction{Fn, DstCol, SrcCol1, SrcCol2})   f.Drop(names…)   f.Copy(dst, src)
    f.Contains(n)  f.functionType(n)  ctx.GetFunc(typ, argCount, name)  tempColName(f, prefix)

These calls are PRIMITIVES: their meaning is the frame mirror's (`Fr.applyConst` / `Fr.apply1` / `Fr.apply2`, `Fr.contains`,
the name map, `Fr.Ctx`; `Drop` and `Copy` are parameters `Prims`, instantiated in QF/Props/C07EvalGen.lean with the
faithful `C08.drop` / `C08.copy`). Everything is by ROLE: receiver fields by their type and declaration order (`opF` the
string field, `srcF i` the i-th `types.ColumnName` field, `valueF` the `interface{}` field, `flagF` the bool field, `subF i`
the i-th `Expression` field, `errF` the error field), struct types by the multiset of their field types (as in XExpr.lean),
locals by what was assigned to them, `outF r` / `outN r` the two results of the r-th `execute` call on the path.

Whatever is not understood is `.opaque "<text>"`, which has no meaning.
-/
namespace QF.EV
open Fr (Frame Ctx Err Ty)

/-- the expression struct types of expression.go, by role (see XExpr.lean) -/
inductive Role where
  | col | const | unary | colConst | colCol | ex1 | ex2 | error
  deriving DecidableEq, Repr, Inhabited

/-- the translated functions -/
inductive FnId where
  /-- the `execute` method of the struct type with that role -/
  | exec (r : Role)
  /-- `QFrame.Eval` -/
  | eval
  deriving DecidableEq, Repr, Inhabited

/-- `eval.ArgCountOne` / `eval.ArgCountTwo` -/
inductive Arity where
  | one | two
  deriving DecidableEq, Repr, Inhabited

/-- Terms: frames, strings / column names, errors, function values, expression structs. -/
inductive ET where
  /-- the `QFrame` parameter (`Eval`: the receiver) -/
  | qf
  /-- `Eval`'s string parameter -/
  | dstP
  /-- `Eval`'s `Expression` parameter -/
  | exprP
  /-- receiver fields, by type and declaration order -/
  | opF | srcF (i : Nat) | valueF | flagF | subF (i : Nat) | errF
  /-- the frame / the column name returned by the r-th `execute` call on the path from the root -/
  | outF (r : Nat) | outN (r : Nat)
  /-- a string literal (also as `types.ColumnName`) -/
  | str (s : String)
  /-- `nil` as an `interface{}` -/
  | nilV
  /-- `f.Err` -/
  | errOf (f : ET)
  /-- `f.withErr(e)` (the frame method with the signature `(error) QFrame`) -/
  | withErr (f e : ET)
  /-- `f.Apply(Instruction{Fn: fn, DstCol: dst, SrcCol1: s1, SrcCol2: s2})`; an absent field is `""` -/
  | apply (f fn dst s1 s2 : ET)
  /-- `f.Drop()`, `f.Drop(a)`, `f.Drop(a, b)` -/
  | drop0 (f : ET) | drop1 (f a : ET) | drop2 (f a b : ET)
  /-- `f.Copy(dst, src)` -/
  | copy (f dst src : ET)
  /-- a call of the function translated to `ETmp` (`tempColName(f, pre)`) -/
  | temp (f pre : ET)
  /-- the first result of a call of the function translated to `EMiss` (`missingCol(e, f)`): the column found missing, `""` if
  none -/
  | missCol (e f : ET)
  /-- a call of `qerrors.New` / `Errorf`: an error built here, never nil -/
  | newErr
  /-- `qerrors.Propagate(_, e)` -/
  | propagate (e : ET)
  /-- the error returned by `f.functionType(n)` (the frame method `(string) (types.FunctionType, error)`) -/
  | fnTypeErr (f n : ET)
  /-- the first result of `ctx.GetFunc(<the type returned by f.functionType(n)>, ar, op)` -/
  | getFn (ar : Arity) (f n op : ET)
  /-- `v`, or `(*string)(nil)` when `v` is the nil interface (`if v == nil { v = (*string)(nil) }`) -/
  | orNull (v : ET)
  /-- struct values built by the constructors, fields by role -/
  | mkCol (n : ET) | mkConst (v : ET) | mkUnary (op s : ET) | mkColCol (op a b : ET)
  | opaque (txt : String)
  deriving DecidableEq, Repr, Inhabited

inductive EC where
  /-- `e != nil` for an error -/
  | notNil (e : ET)
  /-- the second result of `ctx.GetFunc(<the type returned by f.functionType(n)>, ar, op)` -/
  | gotFn (ar : Arity) (f n op : ET)
  /-- `f.Contains(n)` -/
  | contains (f n : ET)
  /-- the second result of a call of the function translated to `EMiss` (`missingCol(e, f)`): some column reference of `e` is
  not a column of `f` -/
  | missing (e f : ET)
  /-- a bool field -/
  | flag (b : ET)
  /-- `a == b` on strings -/
  | strEq (a b : ET)
  /-- the dynamic type of `v` is one of int, float64, bool, string, *string -/
  | isConstKind (v : ET)
  | not (c : EC)
  | and (a b : EC)
  | or (a b : EC)
  | tt
  | ff
  | opaque (txt : String)
  deriving DecidableEq, Repr, Inhabited

inductive EP where
  | ite (c : EC) (t e : EP)
  /-- `(outF r, outN r) := node.execute(f, ctx)`, `r` = the number of `exec` nodes above this one -/
  | exec (node f : ET) (k : EP)
  /-- `return f, n` -/
  | ret (f n : ET)
  /-- `return f` (`Eval`) -/
  | retF (f : ET)
  | opaque (txt : String)
  deriving DecidableEq, Repr, Inhabited

/-- the pieces of the name tried in round `i` -/
inductive EPiece where
  /-- the string parameter -/
  | pre
  | lit (s : String)
  /-- `strconv.Itoa(i)` -/
  | itoa
  deriving DecidableEq, Repr, Inhabited

/-- The temp-name function. -/
inductive ETmp where
  /-- `for i := lo; i < hi; i++ { n := <pieces joined by +>; if !qf.Contains(n) { return n } }; panic(…)` -/
  | search (lo hi : Nat) (pieces : List EPiece)
  | opaque (txt : String)
  deriving DecidableEq, Repr, Inhabited

/-- One clause of the type switch of the missing-column function, for the struct type of a role. -/
inductive EMClause where
  /-- `cols = []types.ColumnName{e.f₁, …}` (the fields by role: `srcF i`), then on to the final loop -/
  | cols (fields : List Nat)
  /-- `if c, m := F(e.s₁, qf); m { return c, true }; …; return F(e.sₙ, qf)`: the `Expression` fields (`subF i`) in the order
  they are searched -/
  | recur (subs : List Nat)
  | opaque (txt : String)
  deriving DecidableEq, Repr, Inhabited

/-- The missing-column function. -/
inductive EMiss where
  /-- `var cols []types.ColumnName; switch e := expr.(type) { <clauses> }` (a struct type without a clause leaves `cols` nil)
  `; for _, col := range cols { if !qf.Contains(string(col)) { return col, true } }; return "", false` -/
  | scan (clauses : List (Role × EMClause))
  | opaque (txt : String)
  deriving DecidableEq, Repr, Inhabited

def EMClause.hasOpaque : EMClause → Bool
  | .opaque _ => true
  | _ => false

def EMiss.hasOpaque : EMiss → Bool
  | .opaque _ => true
  | .scan cl => cl.any (·.2.hasOpaque)

def ET.hasOpaque : ET → Bool
  | .opaque _ => true
  | .errOf f | .drop0 f | .propagate f | .orNull f | .mkCol f | .mkConst f => f.hasOpaque
  | .withErr a b | .drop1 a b | .temp a b | .fnTypeErr a b | .mkUnary a b | .missCol a b => a.hasOpaque || b.hasOpaque
  | .drop2 a b c | .copy a b c | .getFn _ a b c | .mkColCol a b c => a.hasOpaque || b.hasOpaque || c.hasOpaque
  | .apply a b c d e => a.hasOpaque || b.hasOpaque || c.hasOpaque || d.hasOpaque || e.hasOpaque
  | _ => false

def EC.hasOpaque : EC → Bool
  | .opaque _ => true
  | .notNil e | .flag e | .isConstKind e => e.hasOpaque
  | .gotFn _ a b c => a.hasOpaque || b.hasOpaque || c.hasOpaque
  | .contains a b | .strEq a b | .missing a b => a.hasOpaque || b.hasOpaque
  | .not c => c.hasOpaque
  | .and a b | .or a b => a.hasOpaque || b.hasOpaque
  | _ => false

def EP.hasOpaque : EP → Bool
  | .opaque _ => true
  | .ite c t e => c.hasOpaque || t.hasOpaque || e.hasOpaque
  | .exec n f k => n.hasOpaque || f.hasOpaque || k.hasOpaque
  | .ret f n => f.hasOpaque || n.hasOpaque
  | .retF f => f.hasOpaque

def ETmp.hasOpaque : ETmp → Bool
  | .opaque _ => true
  | _ => false

/-! ## Values -/

/-- An expression struct value (the receiver of `execute`): `Ex'` of QF/Props/C07Eval.lean. -/
inductive Node where
  | col (n : String)
  | const (v : Fr.Val)
  | unary (op : String) (src : String)
  | colConst (op : String) (src : String) (v : Fr.Val) (constFirst : Bool)
  | colCol (op : String) (a b : String)
  | ex1 (op : String) (e : Node)
  | ex2 (op : String) (l r : Node)
  | error

def Node.role : Node → Role
  | .col _ => .col | .const _ => .const | .unary _ _ => .unary | .colConst _ _ _ _ => .colConst
  | .colCol _ _ _ => .colCol | .ex1 _ _ => .ex1 | .ex2 _ _ _ => .ex2 | .error => .error

/-- An `interface{}` handed to `Instruction.Fn`. -/
inductive FnV where
  /-- a constant of type int, float64, bool, string or *string -/
  | const (v : Fr.Val)
  /-- a one-argument function found in the context: result type and function -/
  | f1 (rty : Ty) (fn : Fr.Val → Fr.Val)
  | f2 (fn : Fr.Val → Fr.Val → Fr.Val)
  | nil

inductive V where
  | frame (f : Frame)
  | str (s : String)
  /-- an `error` -/
  | err (e : Option Err)
  | fn (x : FnV)
  | bool (b : Bool)
  | node (n : Node)
  /-- the i-th `Expression` field of the receiver (`Eval`: the parameter), an interface value -/
  | sub (i : Nat)

/-- the two frame operations whose mirrors live with their theorems (QF/Props/C08Project.lean) -/
structure Prims where
  drop : Frame → List String → Frame
  copy : Frame → String → String → Frame

abbrev Res := Frame × String

structure Env where
  prims : Prims
  ctx : Ctx
  /-- the meaning of a call of the temp-name function -/
  temp : Frame → String → String
  recv : Node
  qf : Frame
  dst : String
  /-- `execute` of a struct built on the spot -/
  exec : Node → Frame → Option Res
  /-- `execute` of the receiver's `Expression` fields -/
  subs : List (Frame → Option Res)
  /-- the missing-column function on the receiver's `Expression` fields (`Eval`: on the parameter): `some none` = nothing
  missing, `some (some c)` = the column `c` -/
  miss : List (Frame → Option (Option String)) := []

/-- `Apply` of ONE instruction. The mirror's three forms are chosen by the kind of `Fn` (the Go code chooses by the
emptiness of `SrcCol1` / `SrcCol2`; a constant with a source column, or a one-argument function with two, ends in the
type switch's error either way). -/
def applyI (g : Frame) (x : FnV) (dst a b : String) : Frame :=
  match x with
  | .const v => if a = "" ∧ b = "" then Fr.applyConst g dst v else if g.err.isSome then g else { g with err := some .typeErr }
  | .f1 rty h => if b = "" then Fr.apply1 g dst a rty h else if g.err.isSome then g else { g with err := some .typeErr }
  | .f2 h => Fr.apply2 g dst a b h
  | .nil => if g.err.isSome then g else { g with err := some .typeErr }

def ET.eval (Γ : Env) (outs : List Res) : ET → Option V
  | .qf => some (.frame Γ.qf)
  | .dstP => some (.str Γ.dst)
  | .exprP => some (.sub 0)
  | .opF =>
    match Γ.recv with
    | .unary op _ | .colConst op _ _ _ | .colCol op _ _ | .ex1 op _ | .ex2 op _ _ => some (.str op)
    | _ => none
  | .srcF i =>
    match Γ.recv, i with
    | .col n, 0 | .unary _ n, 0 | .colConst _ n _ _, 0 | .colCol _ n _, 0 | .colCol _ _ n, 1 => some (.str n)
    | _, _ => none
  | .valueF =>
    match Γ.recv with
    | .const v | .colConst _ _ v _ => some (.fn (.const v))
    | _ => none
  | .flagF =>
    match Γ.recv with
    | .colConst _ _ _ b => some (.bool b)
    | _ => none
  | .subF i =>
    match Γ.recv, i with
    | .ex1 _ _, 0 | .ex2 _ _ _, 0 | .ex2 _ _ _, 1 => some (.sub i)
    | _, _ => none
  | .errF =>
    match Γ.recv with
    | .error => some (.err (some .other))
    | _ => none
  | .outF r => (outs[r]?).map fun p => .frame p.1
  | .outN r => (outs[r]?).map fun p => .str p.2
  | .str s => some (.str s)
  | .nilV => some (.fn .nil)
  | .errOf f => match f.eval Γ outs with | some (.frame g) => some (.err g.err) | _ => none
  | .withErr f e =>
    match f.eval Γ outs, e.eval Γ outs with
    | some (.frame g), some (.err x) => some (.frame { g with err := x })
    | _, _ => none
  | .apply f fn d a b =>
    match f.eval Γ outs, fn.eval Γ outs, d.eval Γ outs, a.eval Γ outs, b.eval Γ outs with
    | some (.frame g), some (.fn x), some (.str d), some (.str a), some (.str b) => some (.frame (applyI g x d a b))
    | _, _, _, _, _ => none
  | .drop0 f => match f.eval Γ outs with | some (.frame g) => some (.frame (Γ.prims.drop g [])) | _ => none
  | .drop1 f a =>
    match f.eval Γ outs, a.eval Γ outs with
    | some (.frame g), some (.str a) => some (.frame (Γ.prims.drop g [a]))
    | _, _ => none
  | .drop2 f a b =>
    match f.eval Γ outs, a.eval Γ outs, b.eval Γ outs with
    | some (.frame g), some (.str a), some (.str b) => some (.frame (Γ.prims.drop g [a, b]))
    | _, _, _ => none
  | .copy f d s =>
    match f.eval Γ outs, d.eval Γ outs, s.eval Γ outs with
    | some (.frame g), some (.str d), some (.str s) => some (.frame (Γ.prims.copy g d s))
    | _, _, _ => none
  | .temp f p =>
    match f.eval Γ outs, p.eval Γ outs with
    | some (.frame g), some (.str p) => some (.str (Γ.temp g p))
    | _, _ => none
  | .missCol e f =>
    match e.eval Γ outs, f.eval Γ outs with
    | some (.sub i), some (.frame g) => ((Γ.miss[i]?).bind (· g)).map fun o => .str (o.getD "")
    | _, _ => none
  | .newErr => some (.err (some .other))
  | .propagate e => match e.eval Γ outs with | some (.err x) => some (.err x) | _ => none
  | .fnTypeErr f n =>
    match f.eval Γ outs, n.eval Γ outs with
    | some (.frame g), some (.str n) => some (.err (if (g.byName n).isNone then some .unknownCol else none))
    | _, _ => none
  | .getFn ar f n op =>
    match f.eval Γ outs, n.eval Γ outs, op.eval Γ outs with
    | some (.frame g), some (.str n), some (.str op) =>
      (match g.byName n with
       | none => some (.fn .nil)        -- `FunctionTypeUndefined`: `GetFunc` answers `nil, true`
       | some c =>
         match ar with
         | .one => some (.fn (match Γ.ctx.fn1 c.col.ty op with | some (rty, h) => .f1 rty h | none => .nil))
         | .two => some (.fn (match Γ.ctx.fn2 c.col.ty op with | some h => .f2 h | none => .nil)))
    | _, _, _ => none
  | .orNull v =>
    match v.eval Γ outs with
    | some (.fn .nil) => some (.fn (.const (.str none)))
    | some (.fn x) => some (.fn x)
    | _ => none
  | .mkCol n => match n.eval Γ outs with | some (.str n) => some (.node (.col n)) | _ => none
  | .mkConst v => match v.eval Γ outs with | some (.fn (.const c)) => some (.node (.const c)) | _ => none
  | .mkUnary op s =>
    match op.eval Γ outs, s.eval Γ outs with
    | some (.str op), some (.str s) => some (.node (.unary op s))
    | _, _ => none
  | .mkColCol op a b =>
    match op.eval Γ outs, a.eval Γ outs, b.eval Γ outs with
    | some (.str op), some (.str a), some (.str b) => some (.node (.colCol op a b))
    | _, _, _ => none
  | .opaque _ => none

def EC.eval (Γ : Env) (outs : List Res) : EC → Option Bool
  | .notNil e => match e.eval Γ outs with | some (.err x) => some x.isSome | _ => none
  | .gotFn ar f n op =>
    match f.eval Γ outs, n.eval Γ outs, op.eval Γ outs with
    | some (.frame g), some (.str n), some (.str op) =>
      (match g.byName n with
       | none => some true
       | some c =>
         match ar with
         | .one => some (Γ.ctx.fn1 c.col.ty op).isSome
         | .two => some (Γ.ctx.fn2 c.col.ty op).isSome)
    | _, _, _ => none
  | .contains f n =>
    match f.eval Γ outs, n.eval Γ outs with
    | some (.frame g), some (.str n) => some (Fr.contains g n)
    | _, _ => none
  | .missing e f =>
    match e.eval Γ outs, f.eval Γ outs with
    | some (.sub i), some (.frame g) => ((Γ.miss[i]?).bind (· g)).map (·.isSome)
    | _, _ => none
  | .flag b => match b.eval Γ outs with | some (.bool x) => some x | _ => none
  | .strEq a b =>
    match a.eval Γ outs, b.eval Γ outs with
    | some (.str x), some (.str y) => some (x == y)
    | _, _ => none
  | .isConstKind v => match v.eval Γ outs with | some (.fn (.const _)) => some true | some (.fn _) => some false | _ => none
  | .not c => (c.eval Γ outs).map (!·)
  | .and a b =>
    match a.eval Γ outs with
    | some true => b.eval Γ outs
    | r => r
  | .or a b =>
    match a.eval Γ outs with
    | some false => b.eval Γ outs
    | r => r
  | .tt => some true
  | .ff => some false
  | .opaque _ => none

/-- `none`: no meaning (a term that was not understood, a value of the wrong kind, a call that has none) -/
def EP.run (Γ : Env) : EP → List Res → Option Res
  | .ite c t e, outs =>
    match c.eval Γ outs with
    | some true => t.run Γ outs
    | some false => e.run Γ outs
    | none => none
  | .exec nd fr k, outs =>
    match nd.eval Γ outs, fr.eval Γ outs with
    | some (.node n), some (.frame g) =>
      (match Γ.exec n g with
       | some r => k.run Γ (outs ++ [r])
       | none => none)
    | some (.sub i), some (.frame g) =>
      (match Γ.subs[i]? with
       | some h => (match h g with | some r => k.run Γ (outs ++ [r]) | none => none)
       | none => none)
    | _, _ => none
  | .ret f n, outs =>
    match f.eval Γ outs, n.eval Γ outs with
    | some (.frame g), some (.str s) => some (g, s)
    | _, _ => none
  | .retF f, outs =>
    match f.eval Γ outs with
    | some (.frame g) => some (g, "")
    | _ => none
  | .opaque _, _ => none

/-! ## The temp-name function -/

def EPiece.text (pre : String) (i : Nat) : EPiece → String
  | .pre => pre
  | .lit s => s
  | .itoa => Fr.natStr i

/-- Go's `a + b + c`: left to right -/
def joinPieces (pre : String) (i : Nat) : List EPiece → String
  | [] => ""
  | p :: ps => ps.foldl (fun acc q => acc ++ q.text pre i) (p.text pre i)

/-- `none`: the panic after the loop (or a term that was not understood) -/
def ETmp.run : ETmp → Frame → String → Option String
  | .search lo hi ps, f, pre =>
    ((List.range (hi - lo)).find? (fun k => !Fr.contains f (joinPieces pre (lo + k) ps))).map
      (fun k => joinPieces pre (lo + k) ps)
  | .opaque _, _, _ => none

/-- the mirror's convention (QF/Core/Eval.lean `tempColName`): where the Go function panics the mirror answers "PANIC" -/
def ETmp.name (t : ETmp) (f : Frame) (pre : String) : String := (t.run f pre).getD "PANIC"

/-! ## The missing-column function -/

/-- the i-th `types.ColumnName` field of a struct value (as `ET.srcF`) -/
def Node.srcField : Node → Nat → Option String
  | .col n, 0 | .unary _ n, 0 | .colConst _ n _ _, 0 | .colCol _ n _, 0 | .colCol _ _ n, 1 => some n
  | _, _ => none

/-- how many `Expression` fields a struct value has (as `ET.subF`) -/
def Node.subCount : Node → Nat
  | .ex1 _ _ => 1
  | .ex2 _ _ _ => 2
  | _ => 0

/-- the final loop: the first of the collected names that is not a column -/
def firstNotIn (f : Frame) (names : List String) : Option String := names.find? fun n => !Fr.contains f n

/-- `if c, m := F(s₁); m { return c, true }; …; return F(sₙ)` on the results of the calls (made in this order, as far as
needed); no call at all has no meaning -/
def firstFound : List (Option (Option String)) → Option (Option String)
  | [] => none
  | [r] => r
  | r :: rest =>
    match r with
    | none => none
    | some (some c) => some (some c)
    | some none => firstFound rest

/-- one call of the function on the struct value `node`, the calls on its `Expression` fields given -/
def EMiss.step (cl : List (Role × EMClause)) (node : Node) (subs : List (Frame → Option (Option String))) (f : Frame) :
    Option (Option String) :=
  match cl.lookup node.role with
  | none => some none
  | some (.cols fs) => (fs.mapM node.srcField).map (firstNotIn f)
  | some (.recur is) =>
    if is.all (· < node.subCount) then firstFound (is.map fun i => (subs[i]?).bind (· f)) else none
  | some (.opaque _) => none

/-- the function on an expression tree -/
def EMiss.scanRun (cl : List (Role × EMClause)) : Node → Frame → Option (Option String)
  | .ex1 op e, f => EMiss.step cl (.ex1 op e) [scanRun cl e] f
  | .ex2 op l r, f => EMiss.step cl (.ex2 op l r) [scanRun cl l, scanRun cl r] f
  | .col n, f => EMiss.step cl (.col n) [] f
  | .const v, f => EMiss.step cl (.const v) [] f
  | .unary op s, f => EMiss.step cl (.unary op s) [] f
  | .colConst op s v cf, f => EMiss.step cl (.colConst op s v cf) [] f
  | .colCol op a b, f => EMiss.step cl (.colCol op a b) [] f
  | .error, f => EMiss.step cl .error [] f

/-- `none`: no meaning; `some none`: `("", false)`; `some (some c)`: `(c, true)` -/
def EMiss.run : EMiss → Node → Frame → Option (Option String)
  | .scan cl, n, f => EMiss.scanRun cl n f
  | .opaque _, _, _ => none

/-! ## Calls -/

abbrev Progs := List (FnId × EP)

/-- `node.execute(f, ctx)` by the translated methods `P`, calls of structs built on the spot nested at most `n` deep;
`subs`: the `execute` of the `Expression` fields of the outermost receiver -/
def callAt (pr : Prims) (P : Progs) (tmp : Frame → String → String) (ctx : Ctx) (subs : List (Frame → Option Res)) :
    Nat → Node → Frame → Option Res
  | 0 => fun _ _ => none
  | n + 1 => fun node f =>
    match P.lookup (.exec node.role) with
    | some p =>
      p.run { prims := pr, ctx := ctx, temp := tmp, recv := node, qf := f, dst := "",
              exec := callAt pr P tmp ctx subs n, subs := subs } []
    | none => none

/-- the call depth the interpretation allows (today: colConstExpr → colColExpr) -/
def depth : Nat := 3

/-- `e.execute(f, ctx)` for an expression tree `e` -/
def interp (pr : Prims) (P : Progs) (tmp : Frame → String → String) (ctx : Ctx) : Node → Frame → Option Res
  | .ex1 op e => callAt pr P tmp ctx [interp pr P tmp ctx e] depth (.ex1 op e)
  | .ex2 op l r => callAt pr P tmp ctx [interp pr P tmp ctx l, interp pr P tmp ctx r] depth (.ex2 op l r)
  | .col n => callAt pr P tmp ctx [] depth (.col n)
  | .const v => callAt pr P tmp ctx [] depth (.const v)
  | .unary op s => callAt pr P tmp ctx [] depth (.unary op s)
  | .colConst op s v cf => callAt pr P tmp ctx [] depth (.colConst op s v cf)
  | .colCol op a b => callAt pr P tmp ctx [] depth (.colCol op a b)
  | .error => callAt pr P tmp ctx [] depth .error

/-- `f.Eval(dst, e)` with the context `ctx` (`eval.NewConfig(ff).Ctx`); `miss`: the meaning of the missing-column function -/
def interpEval (pr : Prims) (P : Progs) (tmp : Frame → String → String) (miss : Node → Frame → Option (Option String))
    (ctx : Ctx) (f : Frame) (dst : String) (e : Node) : Option Frame :=
  match P.lookup .eval with
  | some p =>
    (p.run { prims := pr, ctx := ctx, temp := tmp, recv := .error, qf := f, dst := dst,
             exec := callAt pr P tmp ctx [] depth, subs := [interp pr P tmp ctx e], miss := [miss e] } []).map (·.1)
  | none => none

end QF.EV
