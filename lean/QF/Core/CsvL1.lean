import QF.Core.CsvSim
/-! Prototype: the in-place compacting quoted-field loop on a loaded buffer equals a functional scanner. -/
namespace Sim

/-- functional scanner: `rest` = unread bytes, `acc` = field so far, `qc` = consecutive quotes,
    `p` = the byte that the next "keep" will append (= tape[writeCursor]). Returns field, hitEOL, err,
    number of unread bytes left. -/
def qscan (delim : Byte) : List Byte → List Byte → Nat → Byte → List Byte × Bool × Option RErr × Nat
  | [], acc, _, _ => (acc, true, some .eof, 0)
  | [b], acc, qc, _ =>          -- the last byte is examined only for "delimiter after the closing quote"
    if qc % 2 != 0 && b == delim then (acc, false, none, 0) else (acc, true, some .eof, 1)
  | b :: b' :: rest, acc, qc, p =>
    if b == delim then
      (if qc % 2 != 0 then (acc, false, none, (b' :: rest).length) else qscan delim (b' :: rest) (acc ++ [p]) 0 b')
    else if b == LF then
      (if qc % 2 != 0 then (acc, true, none, (b' :: rest).length) else qscan delim (b' :: rest) (acc ++ [p]) 0 b')
    else if b == CR then
      (if qc % 2 != 0 then qscan delim (b' :: rest) acc qc p else qscan delim (b' :: rest) (acc ++ [p]) 0 b')
    else if b == QUOTE then
      (if (qc + 1) % 2 == 1 then qscan delim (b' :: rest) acc (qc + 1) p else qscan delim (b' :: rest) (acc ++ [p]) 0 b')
    else qscan delim (b' :: rest) (acc ++ [p]) 0 b'

theorem take_drop_get (l : List Byte) (i : Nat) (h : i < l.length) : l.drop i = l[i] :: l.drop (i + 1) :=
  List.drop_eq_getElem_cons h

/-- lock-step: tape machine on a loaded state vs functional scanner -/
theorem quoted_eq_qscan (delim : Byte) (fuel : Nat) : ∀ (s : St) (start w qc : Nat) (acc : List Byte) (p : Byte),
    s.future = [] → start ≤ w → w ≤ s.cursor → s.cursor ≤ s.data.length →
    (s.data.take w).drop start = acc → (w < s.data.length → s.data[w]? = some p) →
    s.data.length - s.cursor < fuel →
    ∃ d, quoted delim fuel s start w qc =
      some (⟨(qscan delim (s.data.drop s.cursor) acc qc p).1, (qscan delim (s.data.drop s.cursor) acc qc p).2.1,
             (qscan delim (s.data.drop s.cursor) acc qc p).2.2.1,
             s.data.length - (qscan delim (s.data.drop s.cursor) acc qc p).2.2.2⟩, d) := by
  induction fuel with
  | zero => intro s start w qc acc p _ _ _ _ _ _ h; omega
  | succ n ih =>
    intro s start w qc acc p hf hsw hwc hcl hacc hp hfu
    unfold quoted
    rw [ensure2_loaded _ s hf (by omega)]
    by_cases hE : s.cursor + 1 ≥ s.data.length
    · -- EOF branch: at most one unread byte
      simp only [hE, ↓reduceIte]
      have hlen : (s.data.drop s.cursor).length ≤ 1 := by simp; omega
      refine ⟨s.data, ?_⟩
      cases hd : s.data.drop s.cursor with
      | nil =>
        have : s.cursor = s.data.length := by
          have := congrArg List.length hd; simp at this; omega
        simp [qscan, St.slice, hacc, this]
      | cons x xs =>
        cases xs with
        | nil =>
          have hl1 : s.cursor + 1 = s.data.length := by
            have := congrArg List.length hd; simp at this; omega
          have hlt : s.cursor < s.data.length := by omega
          have hx : s.data[s.cursor]? = some x := by
            have := congrArg (·[0]?) hd; simpa using this
          by_cases hc : (qc % 2 != 0 && x == delim) = true
          · have hc' : (qc % 2 != 0 && decide (s.cursor < s.data.length) && s.data[s.cursor]? == some delim) = true := by
              simp only [Bool.and_eq_true, decide_eq_true_eq] at hc ⊢
              exact ⟨⟨hc.1, hlt⟩, by rw [hx]; simpa using hc.2⟩
            simp only [hc', hc, qscan, ↓reduceIte, St.slice, hacc]
            congr 3 <;> omega
          · have hc' : ¬ (qc % 2 != 0 && decide (s.cursor < s.data.length) && s.data[s.cursor]? == some delim) = true := by
              intro h
              simp only [Bool.and_eq_true, decide_eq_true_eq] at hc h
              exact hc ⟨h.1.1, by have := h.2; rw [hx] at this; simpa using this⟩
            simp only [hc', hc, qscan, Bool.false_eq_true, ↓reduceIte, St.slice, hacc]
            congr 3; omega
        | cons y ys => rw [hd] at hlen; simp at hlen
    · simp only [hE, ↓reduceIte]
      have h2 : s.cursor + 1 < s.data.length := by omega
      have hc0 : s.cursor < s.data.length := by omega
      rw [List.getElem?_eq_getElem hc0]
      simp only
      -- unread = ch :: nb :: R
      generalize hch : s.data[s.cursor] = ch
      generalize hnb : s.data[s.cursor + 1] = nb
      generalize hR : s.data.drop (s.cursor + 2) = R
      have e2 : s.data.drop (s.cursor + 1) = nb :: R := by
        rw [take_drop_get s.data (s.cursor + 1) h2, hnb, hR]
      have e1 : s.data.drop s.cursor = ch :: nb :: R := by
        rw [take_drop_get s.data s.cursor hc0, hch, e2]
      -- the two kinds of continuation
      have hskip : ∀ qc', ∃ d, quoted delim n { s with cursor := s.cursor + 1 } start w qc' =
          some (⟨(qscan delim (nb :: R) acc qc' p).1, (qscan delim (nb :: R) acc qc' p).2.1,
             (qscan delim (nb :: R) acc qc' p).2.2.1,
             s.data.length - (qscan delim (nb :: R) acc qc' p).2.2.2⟩, d) := by
        intro qc'
        have := ih { s with cursor := s.cursor + 1 } start w qc' acc p hf hsw (by show w ≤ s.cursor + 1; omega)
          (by show s.cursor + 1 ≤ s.data.length; omega) hacc hp (by show s.data.length - (s.cursor + 1) < n; omega)
        simp only [e2] at this
        exact this
      have hkeep : ∃ d,
          (if (w + 1 != s.cursor + 1) = true then
            match s.data[s.cursor + 1]? with
            | none => none
            | some nb' => quoted delim n { s with cursor := s.cursor + 1, data := s.data.set (w + 1) nb' } start (w + 1) 0
          else quoted delim n { s with cursor := s.cursor + 1 } start (w + 1) 0) =
          some (⟨(qscan delim (nb :: R) (acc ++ [p]) 0 nb).1, (qscan delim (nb :: R) (acc ++ [p]) 0 nb).2.1,
             (qscan delim (nb :: R) (acc ++ [p]) 0 nb).2.2.1,
             s.data.length - (qscan delim (nb :: R) (acc ++ [p]) 0 nb).2.2.2⟩, d) := by
        have hwl : w < s.data.length := by omega
        have hpw : s.data[w]? = some p := hp hwl
        have hacc' : ∀ dta : List Byte, dta.take (w + 1) = s.data.take (w + 1) → (dta.take (w + 1)).drop start = acc ++ [p] := by
          intro dta hdt
          rw [hdt, List.take_add_one, hpw]
          simp only [Option.toList_some, List.drop_append]
          rw [hacc]
          have : start - (s.data.take w).length = 0 := by simp; omega
          rw [this]; rfl
        by_cases hne : (w + 1 != s.cursor + 1) = true
        · simp only [hne, ↓reduceIte]
          rw [List.getElem?_eq_getElem h2, hnb]
          simp only
          have hw1 : w + 1 < s.cursor + 1 := by
            have : w + 1 ≠ s.cursor + 1 := by simpa using hne
            omega
          have := ih { s with cursor := s.cursor + 1, data := s.data.set (w + 1) nb } start (w + 1) 0 (acc ++ [p]) nb hf
            (by omega) (by show w + 1 ≤ s.cursor + 1; omega) (by show s.cursor + 1 ≤ (s.data.set (w + 1) nb).length; simp; omega)
            (by show ((s.data.set (w + 1) nb).take (w + 1)).drop start = acc ++ [p]
                exact hacc' _ (by rw [List.take_set_of_le (Nat.le_refl _)]))
            (by intro _; show (s.data.set (w + 1) nb)[w + 1]? = some nb; simp [List.getElem?_set]; omega)
            (by show (s.data.set (w + 1) nb).length - (s.cursor + 1) < n; simp; omega)
          have hdrop : (s.data.set (w + 1) nb).drop (s.cursor + 1) = nb :: R := by
            rw [List.drop_set_of_lt hw1, e2]
          simp only [hdrop, List.length_set] at this
          exact this
        · simp only [hne, Bool.false_eq_true, ↓reduceIte]
          have hw1 : w + 1 = s.cursor + 1 := by
            cases hv : (w + 1 != s.cursor + 1) with
            | true => exact absurd hv hne
            | false => simpa using hv
          have := ih { s with cursor := s.cursor + 1 } start (w + 1) 0 (acc ++ [p]) nb hf (by omega)
            (by show w + 1 ≤ s.cursor + 1; omega) (by show s.cursor + 1 ≤ s.data.length; omega)
            (hacc' _ rfl)
            (by intro _; show s.data[w + 1]? = some nb; rw [hw1, List.getElem?_eq_getElem h2, hnb])
            (by show s.data.length - (s.cursor + 1) < n; omega)
          simp only [e2] at this
          exact this
      have hslice : ({ s with cursor := s.cursor + 1 } : St).slice start w = acc := hacc
      have hrest : (nb :: R).length = s.data.length - (s.cursor + 1) := by
        rw [← e2]; simp
      rw [e1]
      simp only [qscan]
      by_cases c1 : (ch == delim) = true
      · simp only [c1, ↓reduceIte]
        by_cases c2 : (qc % 2 != 0) = true
        · simp only [c2, ↓reduceIte]
          exact ⟨s.data, by rw [hslice]; simp only [hrest]; congr 3; omega⟩
        · simp only [c2, Bool.false_eq_true, ↓reduceIte]; exact hkeep
      · simp only [c1, Bool.false_eq_true, ↓reduceIte]
        by_cases c3 : (ch == LF) = true
        · simp only [c3, ↓reduceIte]
          by_cases c2 : (qc % 2 != 0) = true
          · simp only [c2, ↓reduceIte]
            exact ⟨s.data, by rw [hslice]; simp only [hrest]; congr 3; omega⟩
          · simp only [c2, Bool.false_eq_true, ↓reduceIte]; exact hkeep
        · simp only [c3, Bool.false_eq_true, ↓reduceIte]
          by_cases c4 : (ch == CR) = true
          · simp only [c4, ↓reduceIte]
            by_cases c2 : (qc % 2 != 0) = true
            · simp only [c2, ↓reduceIte]; exact hskip qc
            · simp only [c2, Bool.false_eq_true, ↓reduceIte]; exact hkeep
          · simp only [c4, Bool.false_eq_true, ↓reduceIte]
            by_cases c5 : (ch == QUOTE) = true
            · simp only [c5, ↓reduceIte]
              by_cases c6 : ((qc + 1) % 2 == 1) = true
              · simp only [c6, ↓reduceIte]; exact hskip (qc + 1)
              · simp only [c6, Bool.false_eq_true, ↓reduceIte]; exact hkeep
            · simp only [c5, Bool.false_eq_true, ↓reduceIte]; exact hkeep


/-- RFC 4180 escaping of a field's content inside quotes -/
def escape : List Byte → List Byte
  | [] => []
  | b :: bs => if b == QUOTE then QUOTE :: QUOTE :: escape bs else b :: escape bs

def hd (l : List Byte) : Byte := l.headD 0

/-- the functional scanner walks through escaped content and accumulates exactly the content —
    carriage returns included (they are skipped only after a closing quote) -/
theorem qscan_content (delim : Byte) (hdq : (QUOTE == delim) = false) : ∀ (content tail acc : List Byte), tail ≠ [] →
    qscan delim (escape content ++ tail) acc 0 (hd (escape content ++ tail)) = qscan delim tail (acc ++ content) 0 (hd tail) := by
  intro content
  induction content with
  | nil => intro tail acc _; simp [escape]
  | cons b bs ih =>
    intro tail acc ht
    -- the rest after this content byte is non-empty
    obtain ⟨r0, rs, hr⟩ : ∃ r0 rs, escape bs ++ tail = r0 :: rs := by
      cases h : escape bs ++ tail with
      | nil => simp at h; exact absurd h.2 ht
      | cons r0 rs => exact ⟨r0, rs, rfl⟩
    by_cases hq : (b == QUOTE) = true
    · -- escaped quote: QUOTE QUOTE
      have hbq : b = QUOTE := by simpa using hq
      subst hbq
      simp only [escape, hq, ↓reduceIte, List.cons_append, hd, List.headD_cons]
      rw [hr]
      have h34 : ¬ (34 : UInt8) = delim := by simpa [QUOTE] using hdq
      have step1 : qscan delim (QUOTE :: QUOTE :: r0 :: rs) acc 0 QUOTE = qscan delim (QUOTE :: r0 :: rs) acc 1 QUOTE := by
        simp [qscan, h34, QUOTE, LF, CR]
      have step2 : qscan delim (QUOTE :: r0 :: rs) acc 1 QUOTE = qscan delim (r0 :: rs) (acc ++ [QUOTE]) 0 r0 := by
        simp [qscan, h34, QUOTE, LF, CR]
      rw [step1, step2, ← hr]
      have := ih tail (acc ++ [QUOTE]) ht
      rw [hr] at this ⊢
      simp only [hd, List.headD_cons] at this
      rw [this]; simp
    · have hq' : (b == QUOTE) = false := by simpa using hq
      simp only [escape, hq', Bool.false_eq_true, ↓reduceIte, List.cons_append, hd, List.headD_cons]
      rw [hr]
      have step : qscan delim (b :: r0 :: rs) acc 0 b = qscan delim (r0 :: rs) (acc ++ [b]) 0 r0 := by
        simp only [qscan]
        by_cases d : (b == delim) = true
        · simp [d]
        · simp only [d, Bool.false_eq_true, ↓reduceIte]
          by_cases l : (b == LF) = true
          · simp [l]
          · simp only [l, Bool.false_eq_true, ↓reduceIte]
            by_cases c : (b == CR) = true
            · simp [c]
            · simp [c, hq']
      rw [step, ← hr]
      have := ih tail (acc ++ [b]) ht
      rw [hr] at this ⊢
      simp only [hd, List.headD_cons] at this
      rw [this]; simp

#print axioms quoted_eq_qscan
#print axioms qscan_content
end Sim
