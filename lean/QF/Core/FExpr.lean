import QF.Spec.Ops
/-!
# FE — the expression language of the functions of the default evaluation context, and its Go semantics

`QFrame.Eval` and built-in `Apply` look their functions up in `eval.NewDefaultCtx()` (/repo/config/eval/context.go):
operand type × arity × operator name ↦ a function, almost all of them from package `function`
(/repo/function/{int,float,bool,string}.go). Those functions are small and pure:

    func PlusI(x, y int) int     { return x + y }
    func AbsI(x int) int         { if x < 0 { return -x }; return x }
    func StrI(x int) *string     { result := strconv.Itoa(x); return &result }
    func ConcatS(x, y *string) *string { if x == nil { return y }; if y == nil { return x }; result := *x + *y; return &result }
    var  UpperS = nilSafe(strings.ToUpper)

The extractor (go/cmd/extract/fast.go) translates the body of every one of them, from /repo's current source, into a
term of `FE` and writes the list to `QF/Gen/Functions.lean` on every run. Terms name the parameters by ROLE — `.x` the
first parameter, `.y` the second — never by the Go identifier, and local variables (`result`) are replaced by their
definitions, so that renaming a parameter or reformatting leaves the term unchanged, while another operator or swapped
operands give another term. A call of another function of the package (`!AndB(x, y)`) is replaced by the callee's term
with the arguments for its parameters.

`FE.eval` is the meaning of a term under Go's semantics of the operators at the type of the operands:

* int     — `+ - *` and unary `-` wrap around at 64 bits (two's complement, `wrap64`); `/` truncates towards zero and
            panics (`none`) on a zero divisor, `MinInt64 / -1` wraps to `MinInt64`; the six comparisons
* float64 — on the bit patterns, with the project's `fAdd fSub fMul fDiv` (IEEE-754 double arithmetic of Lean's `Float`,
            QF/Spec/Ops.lean); unary `-` flips the sign bit; comparisons as in KE (`F64.lt/le/eq`)
* bool    — `!`, `&&`, `||` (the right operand is not evaluated when the left one decides), `==`, `!=`
* string  — `+` is concatenation of the bytes, `len` the number of bytes, comparisons byte-wise
* *string — `== nil`, `!= nil`, `*p` (panics = `none` on nil), `&s`; a null cell is the nil pointer
* conversions — `float64(i)` (`fOfInt`), `int(i)`, `float64(f)`; `strconv.Itoa` (`intStr`), `strconv.FormatBool`

What the project has no definition for stays a parameter (`FParams`): `int(f)` for a float (Go leaves the result for
NaN and out-of-range values to the implementation), `fmt.Sprintf(format, f)`, and functions of other packages applied
to a string (`strings.ToUpper`, `strings.ToLower`).
-/
namespace QF

/-- Function-body expressions, by role. -/
inductive FE where
  /-- the first parameter -/
  | x
  /-- the second parameter -/
  | y
  | nil
  | intLit (n : Nat)
  | boolLit (b : Bool)
  /-- Go `a + b` (int, float64, string) -/
  | add (a b : FE)
  | sub (a b : FE)
  | mul (a b : FE)
  /-- Go `a / b` -/
  | div (a b : FE)
  /-- Go unary `-a` -/
  | neg (a : FE)
  /-- Go comparison `a op b`, `op` ∈ `<  <=  >  >=  ==  !=` -/
  | cmp (op : String) (a b : FE)
  | not (a : FE)
  /-- `a && b` -/
  | and (a b : FE)
  /-- `a || b` -/
  | or (a b : FE)
  /-- `if c { return t }; return e` -/
  | ite (c t e : FE)
  /-- `float64(a)` -/
  | toFloat (a : FE)
  /-- `int(a)` -/
  | toInt (a : FE)
  /-- `strconv.Itoa(a)` -/
  | itoa (a : FE)
  /-- `strconv.FormatBool(a)` -/
  | formatBool (a : FE)
  /-- `fmt.Sprintf(fmt, a)` -/
  | sprintf (fmt : String) (a : FE)
  /-- `*a` -/
  | deref (a : FE)
  /-- `&a` for a string value `a` (`result := a; return &result`) -/
  | addr (a : FE)
  /-- `len(a)` -/
  | strLen (a : FE)
  /-- `pkg.Fn(a)` for a function of another package, known by its qualified name -/
  | ext (fn : String) (a : FE)
  /-- anything the translator does not understand, as normalised source text -/
  | opaque (txt : String)
  deriving DecidableEq, Repr, Inhabited

/-- Go values that occur in these functions. -/
inductive FV where
  | int (v : Int)
  | flt (bits : UInt64)
  | bool (b : Bool)
  /-- `string` -/
  | str (s : Bytes)
  /-- `*string` -/
  | ptr (p : Option Bytes)
  deriving DecidableEq, Repr, Inhabited

/-- What the semantics is given from outside. -/
structure FParams where
  /-- `int(f)` of a float64 (bit pattern) -/
  f2i : UInt64 → Int := fun _ => 0
  /-- `fmt.Sprintf(format, f)` of a float64 -/
  sprintf : String → UInt64 → Bytes := fun _ _ => []
  /-- a string function of another package, by qualified name (`strings.ToUpper`) -/
  strFn : String → Bytes → Bytes := fun _ s => s

/-- The Go argument a function of the context receives for a cell: ints, floats and bools as they are, a string cell
as `*string` (nil for null). -/
def FV.ofCell : Cell → FV
  | .int v => .int v
  | .float b => .flt b
  | .bool b => .bool b
  | .str s => .ptr s

/-- The cell a returned Go value becomes (`SetFunc` allows int, float64, bool and `*string` results). -/
def FV.toCell : FV → Option Cell
  | .int v => some (.int v)
  | .flt b => some (.float b)
  | .bool b => some (.bool b)
  | .ptr p => some (.str p)
  | .str _ => none

/-- Go `a / b` on `int`: truncated division, run-time panic on zero. -/
def goDivInt (a b : Int) : Option Int := if b = 0 then none else some (wrap64 (Int.tdiv a b))

def fcmpInt (op : String) (a b : Int) : Option Bool :=
  match op with
  | "<" => some (decide (a < b))
  | "<=" => some (decide (a ≤ b))
  | ">" => some (decide (b < a))
  | ">=" => some (decide (b ≤ a))
  | "==" => some (decide (a = b))
  | "!=" => some (!decide (a = b))
  | _ => none

def fcmpFlt (op : String) (a b : UInt64) : Option Bool :=
  match op with
  | "<" => some (F64.lt a b)
  | "<=" => some (F64.le a b)
  | ">" => some (F64.lt b a)
  | ">=" => some (F64.le b a)
  | "==" => some (F64.eq a b)
  | "!=" => some (!F64.eq a b)
  | _ => none

def fcmpBool (op : String) (a b : Bool) : Option Bool :=
  match op with
  | "==" => some (a == b)
  | "!=" => some (a != b)
  | _ => none

def fcmpStr (op : String) (a b : Bytes) : Option Bool :=
  match op with
  | "<" => some (bytesCmp a b == .lt)
  | "<=" => some (bytesCmp a b != .gt)
  | ">" => some (bytesCmp a b == .gt)
  | ">=" => some (bytesCmp a b != .lt)
  | "==" => some (decide (a = b))
  | "!=" => some (!decide (a = b))
  | _ => none

/-- a pointer against `nil` (two non-nil pointers compare by identity, which the model does not have) -/
def fcmpPtr (op : String) (a b : Option Bytes) : Option Bool :=
  match a, b with
  | some _, some _ => none
  | _, _ =>
    match op with
    | "==" => some (a.isNone == b.isNone)
    | "!=" => some (a.isNone != b.isNone)
    | _ => none

def fcmpV (op : String) : FV → FV → Option Bool
  | .int a, .int b => fcmpInt op a b
  | .flt a, .flt b => fcmpFlt op a b
  | .bool a, .bool b => fcmpBool op a b
  | .str a, .str b => fcmpStr op a b
  | .ptr a, .ptr b => fcmpPtr op a b
  | _, _ => none

/-- The Go value of a term; `none`: the term has no meaning on these operands (ill-typed, untranslated) or the Go code
panics there (division by zero, nil dereference). -/
def FE.evalV (P : FParams) (vx vy : FV) : FE → Option FV
  | .x => some vx
  | .y => some vy
  | .nil => some (.ptr none)
  | .intLit n => some (.int n)
  | .boolLit b => some (.bool b)
  | .opaque _ => none
  | .add a b =>
    match a.evalV P vx vy, b.evalV P vx vy with
    | some (.int u), some (.int v) => some (.int (wrap64 (u + v)))
    | some (.flt u), some (.flt v) => some (.flt (fAdd u v))
    | some (.str u), some (.str v) => some (.str (u ++ v))
    | _, _ => none
  | .sub a b =>
    match a.evalV P vx vy, b.evalV P vx vy with
    | some (.int u), some (.int v) => some (.int (wrap64 (u - v)))
    | some (.flt u), some (.flt v) => some (.flt (fSub u v))
    | _, _ => none
  | .mul a b =>
    match a.evalV P vx vy, b.evalV P vx vy with
    | some (.int u), some (.int v) => some (.int (wrap64 (u * v)))
    | some (.flt u), some (.flt v) => some (.flt (fMul u v))
    | _, _ => none
  | .div a b =>
    match a.evalV P vx vy, b.evalV P vx vy with
    | some (.int u), some (.int v) => (goDivInt u v).map .int
    | some (.flt u), some (.flt v) => some (.flt (fDiv u v))
    | _, _ => none
  | .neg a =>
    match a.evalV P vx vy with
    | some (.int u) => some (.int (wrap64 (-u)))
    | some (.flt u) => some (.flt (u ^^^ F64.signBit))
    | _ => none
  | .cmp op a b =>
    match a.evalV P vx vy, b.evalV P vx vy with
    | some u, some v => (fcmpV op u v).map .bool
    | _, _ => none
  | .not a =>
    match a.evalV P vx vy with
    | some (.bool u) => some (.bool (!u))
    | _ => none
  | .and a b =>
    match a.evalV P vx vy with
    | some (.bool false) => some (.bool false)
    | some (.bool true) =>
      match b.evalV P vx vy with
      | some (.bool v) => some (.bool v)
      | _ => none
    | _ => none
  | .or a b =>
    match a.evalV P vx vy with
    | some (.bool true) => some (.bool true)
    | some (.bool false) =>
      match b.evalV P vx vy with
      | some (.bool v) => some (.bool v)
      | _ => none
    | _ => none
  | .ite c t e =>
    match c.evalV P vx vy with
    | some (.bool true) => t.evalV P vx vy
    | some (.bool false) => e.evalV P vx vy
    | _ => none
  | .toFloat a =>
    match a.evalV P vx vy with
    | some (.int u) => some (.flt (fOfInt u))
    | some (.flt u) => some (.flt u)
    | _ => none
  | .toInt a =>
    match a.evalV P vx vy with
    | some (.int u) => some (.int u)
    | some (.flt u) => some (.int (P.f2i u))
    | _ => none
  | .itoa a =>
    match a.evalV P vx vy with
    | some (.int u) => some (.str (intStr u))
    | _ => none
  | .formatBool a =>
    match a.evalV P vx vy with
    | some (.bool u) => some (.str (strBytes (if u then "true" else "false")))
    | _ => none
  | .sprintf fmt a =>
    match a.evalV P vx vy with
    | some (.flt u) => some (.str (P.sprintf fmt u))
    | _ => none
  | .deref a =>
    match a.evalV P vx vy with
    | some (.ptr (some s)) => some (.str s)
    | _ => none
  | .addr a =>
    match a.evalV P vx vy with
    | some (.str s) => some (.ptr (some s))
    | _ => none
  | .strLen a =>
    match a.evalV P vx vy with
    | some (.str s) => some (.int s.length)
    | _ => none
  | .ext fn a =>
    match a.evalV P vx vy with
    | some (.str s) => some (.str (P.strFn fn s))
    | _ => none

/-- The cell a function with body `e` returns for the argument cells `x` (first parameter) and `y` (second parameter;
ignored by a term without `.y`). -/
def FE.eval (P : FParams) (x y : Cell) (e : FE) : Option Cell :=
  (e.evalV P (FV.ofCell x) (FV.ofCell y)).bind FV.toCell

/-- Does the term contain a part the translator did not understand? -/
def FE.hasOpaque : FE → Bool
  | .opaque _ => true
  | .add a b | .sub a b | .mul a b | .div a b | .cmp _ a b | .and a b | .or a b => a.hasOpaque || b.hasOpaque
  | .neg a | .not a | .toFloat a | .toInt a | .itoa a | .formatBool a | .sprintf _ a | .deref a | .addr a | .strLen a
  | .ext _ a => a.hasOpaque
  | .ite c t e => c.hasOpaque || t.hasOpaque || e.hasOpaque
  | _ => false

/-- Does the term mention the second parameter? -/
def FE.usesY : FE → Bool
  | .y => true
  | .add a b | .sub a b | .mul a b | .div a b | .cmp _ a b | .and a b | .or a b => a.usesY || b.usesY
  | .neg a | .not a | .toFloat a | .toInt a | .itoa a | .formatBool a | .sprintf _ a | .deref a | .addr a | .strLen a
  | .ext _ a => a.usesY
  | .ite c t e => c.usesY || t.usesY || e.usesY
  | _ => false

end QF
