import QF.Core.Small
/-!
# ST — the language of the STRINGS package and of the like/ilike filter loops, and its Go semantics

    /repo/internal/strings/pointer.go    NewPointer, Pointer.Offset, Pointer.Len, Pointer.IsNull   (nullBit)
    /repo/internal/strings/serialize.go  AppendQuotedString                                        (chars)
    /repo/internal/strings/convert.go    ToUpper                                                   (UnsafeBytesToString)
    /repo/internal/scolumn/filters.go    the function `(index.Int, Column, string, index.Bool, bool) error`   (regexFilter)
    /repo/internal/ecolumn/filters.go    the function `(string, []string, bool) (*bitset, error)`             (filterLike)

go/cmd/extract/strast.go translates the bodies of these functions, statement by statement, to terms of the small
imperative language below and writes them to `QF/Gen/StringsFns.lean` on every run. The language is generic where the
code is generic (variables, assignments, fixed-width and `int` arithmetic, shifts, `&`, `|`, conversions, comparisons,
`if`, `switch` as a chain of `if`, `for` with `break` / `continue` / `return`, `range` over a string and over a slice,
strings and byte slices with `len`, indexing, slicing, `make`, `copy`, `append`) and has one construct for each thing it
takes from outside: `utf8.DecodeRuneInString`, `utf8.EncodeRune`, `utf8.RuneLen`, `unicode.ToUpper` (functions of the
environment `Env`), `NewMatcher` / `Matches`, the column's `stringAt`, `qerrors.Propagate`, the enum `bitset` with `set`.

Terms name things by ROLE: the variables of a function are numbered in the order of their declaration (receiver, then the
parameters, then every `:=` / `var` / range variable as it occurs in the text), the functions by their exported names or,
for the two private filter functions, by their signature (`FnId`); package-level constants (`nullBit`, `chars`) and the
constants of `unicode/utf8` (`RuneSelf`, `UTFMax`, `RuneError`) are replaced by their values, typed by the context.

## What the semantics models, and how exactly

* `uint64` (and `Pointer`): exactly, modulo 2^64 (`Val.u64 n`, `n < 2^64`). `byte` / `uint8` / `enumVal`: exactly (`UInt8`).
  `rune`: as ℤ; `&` on runes is taken on the 32-bit two's complement pattern.
* `int`: `+`, `-`, `*` as in ℤ (no wrap-around at 2^63: the `int`s that are added here are lengths and positions);
  `<<`, `&`, `|` and the conversions to and from `uint64` exactly as on the 64-bit two's complement pattern (`tc64`, `sx64`)
  — these are the operations of pointer.go.
* a `string` is the list of its bytes; a `[]byte` is the list of its bytes, `nil` told from empty (`Val.bytes none`); its
  capacity is not modelled: `append` returns a new value (exact for what the caller of `AppendQuotedString` can read from the
  result), `make([]byte, n)` is `n` zero bytes. Writes `b[i] = x`, `copy(b, …)`, `utf8.EncodeRune(b[i:], r)` go to the
  variable that holds `b`.
* a parameter of pointer type `*[]byte` is the variable that holds the slice it points to (`*bP` is that variable, read and
  written; the translator checks that the parameter is used in no other way). A slice parameter that is written through
  (`bIndex[i] = …`) is likewise a variable; what the caller sees afterwards is its final value (`run` returns the final
  store). Exact as long as the function does not keep two live names for one backing array and writes through both; the
  one place where the code does (`b = *bP` in `ToUpper`) ends with `*bP = b`.
* `for i, c := range s` over a string decodes with `Env.decode` from the byte offset `i`, which advances by the width;
  `for i, x := range v` over a slice variable runs `len(v)` rounds (the length at the start) and reads `v[i]` at the
  start of round `i`. Assignments to `i` in the body do not change the iteration (Go: a copy per round).
* every `for` without `range` has a budget of `Env.fuel` rounds (`panic .fuel` beyond it).
* run-time panics (index out of range, slice bounds out of range) are results (`Res.panic`); whatever has no meaning —
  a value of the wrong kind, a negative `make`, something the translator did not understand (`opaque`) — is `stuck`.
-/
namespace QF.ST

abbrev Var := Nat
abbrev Byte := UInt8
abbrev Bytes := List UInt8

/-- The functions of the translation unit, by role. -/
inductive FnId where
  /-- `strings.NewPointer` -/
  | newPointer
  /-- `strings.Pointer.Offset` -/
  | pOffset
  /-- `strings.Pointer.Len` -/
  | pLen
  /-- `strings.Pointer.IsNull` -/
  | pIsNull
  /-- `strings.AppendQuotedString` -/
  | appendQuoted
  /-- `strings.ToUpper` -/
  | toUpper
  /-- package scolumn: the function `(index.Int, Column, string, index.Bool, bool) error` -/
  | likeStrings
  /-- package ecolumn: the function `(string, []string, bool) (*bitset, error)` -/
  | likeEnum
  deriving DecidableEq, Repr, Inhabited

/-- the numeric types -/
inductive NK where
  | int | u64 | byte | rune
  deriving DecidableEq, Repr, Inhabited

inductive COp where
  | lt | le | gt | ge | eq | ne
  deriving DecidableEq, Repr, Inhabited

/-- Expressions (no side effects; an index or a slice expression may panic). -/
inductive E where
  | var (v : Var)
  /-- a constant of type `int` -/
  | int (n : Int)
  /-- a constant of type `uint64` (`Pointer`) -/
  | u64 (n : Nat)
  /-- a constant of type `byte` -/
  | byte (n : Nat)
  /-- a constant of type `rune` -/
  | rune (n : Int)
  | bool (b : Bool)
  /-- a string constant, by its bytes -/
  | str (bs : List Nat)
  /-- `nil` as a `[]byte` -/
  | nilBytes
  /-- `nil` as an `error` -/
  | nilErr
  /-- `nil` as a `*bitset` -/
  | nilBitset
  | len (e : E)
  /-- `s[i]` -/
  | at (s i : E)
  /-- `s[lo:hi]` -/
  | slice (s lo hi : E)
  /-- `s[lo:]` -/
  | sliceFrom (s lo : E)
  /-- `s[:hi]` -/
  | sliceTo (s hi : E)
  /-- `make([]byte, n)` -/
  | make (n : E)
  /-- `append(b, x)` on a `[]byte` -/
  | app1 (b x : E)
  /-- `append(b, s...)`, `s` a string or a `[]byte` -/
  | appAll (b s : E)
  /-- the string with the bytes of a `[]byte` (`unsafe.String(unsafe.SliceData(b), len(b))`) -/
  | toStr (e : E)
  /-- a conversion `T(e)` between numeric types -/
  | conv (k : NK) (e : E)
  | add (a b : E)
  | sub (a b : E)
  | mul (a b : E)
  /-- `a << b` -/
  | shl (a b : E)
  /-- `a >> b` -/
  | shr (a b : E)
  /-- `a & b` -/
  | band (a b : E)
  /-- `a | b` -/
  | bor (a b : E)
  | cmp (op : COp) (a b : E)
  /-- `e == nil` for a `[]byte` or an `error` -/
  | isNil (e : E)
  | not (e : E)
  /-- `a && b` (b is not evaluated when a is false) -/
  | and (a b : E)
  /-- `a || b` (b is not evaluated when a is true) -/
  | or (a b : E)
  /-- `utf8.RuneLen(e)` -/
  | runeLen (e : E)
  /-- `unicode.ToUpper(e)` -/
  | upper (e : E)
  /-- `m.Matches(s)` for a matcher returned by `NewMatcher` -/
  | matches (m s : E)
  /-- `qerrors.Propagate(msg, e)` -/
  | propagate (msg : String) (e : E)
  /-- `&bitset{}` -/
  | newBitset
  | opaque (txt : String)
  deriving DecidableEq, Repr, Inhabited

/-- What can be assigned. -/
inductive L where
  | var (v : Var)
  /-- `_` -/
  | blank
  deriving DecidableEq, Repr, Inhabited

/-- Statements. A block is `S.block [s₁, …]`. -/
inductive S where
  | skip
  | seq (a b : S)
  /-- `l = e`, `v := e`; `x op= e` is `x = x op e`, `x++` is `x = x + 1` -/
  | assign (l : L) (e : E)
  /-- `v[i] = e` for a variable holding a `[]byte` or a `[]bool` -/
  | setAt (v : Var) (i e : E)
  /-- `n = copy(v, src)` for a variable holding a `[]byte` (`n` blank: the count is dropped) -/
  | copy (n : L) (v : Var) (src : E)
  /-- `n = utf8.EncodeRune(v[off:], r)` for a variable holding a `[]byte` -/
  | encodeRune (n : L) (v : Var) (off r : E)
  /-- `r, w = utf8.DecodeRuneInString(s)` -/
  | decodeRune (r w : L) (s : E)
  /-- `m, err = NewMatcher(pattern, caseSensitive)` -/
  | newMatcher (m err : L) (pat cs : E)
  /-- `s, isNull = col.stringAt(i)` -/
  | stringAt (s isNull : L) (col i : E)
  /-- `v.set(e)` for a variable holding a `*bitset` -/
  | bsSet (v : Var) (e : E)
  | ite (c : E) (t e : S)
  /-- `for { body }`; `for c { body }` is `loop (block [ite c skip brk, body])` -/
  | loop (body : S)
  /-- `for i, c := range s { body }` over a string -/
  | rangeStr (i c : L) (s : E) (body : S)
  /-- `for i, x := range v { body }` over a variable holding a slice -/
  | rangeVar (i x : L) (v : Var) (body : S)
  | brk
  | cont
  | ret (es : List E)
  | opaque (txt : String)
  deriving DecidableEq, Repr, Inhabited

def S.block : List S → S
  | [] => .skip
  | s :: ss => .seq s (S.block ss)

/-- A translated function: the receiver and the parameters are the variables `0 … params-1`. -/
structure Fn where
  params : Nat
  body : S
  deriving DecidableEq, Repr, Inhabited

def E.hasOpaque : E → Bool
  | .opaque _ => true
  | .len e | .make e | .toStr e | .conv _ e | .isNil e | .not e | .runeLen e | .upper e | .propagate _ e => e.hasOpaque
  | .at a b | .sliceFrom a b | .sliceTo a b | .app1 a b | .appAll a b | .add a b | .sub a b | .mul a b | .shl a b | .shr a b
  | .band a b | .bor a b | .cmp _ a b | .and a b | .or a b | .matches a b => a.hasOpaque || b.hasOpaque
  | .slice a b c => a.hasOpaque || b.hasOpaque || c.hasOpaque
  | _ => false

def S.hasOpaque : S → Bool
  | .opaque _ => true
  | .seq a b => a.hasOpaque || b.hasOpaque
  | .assign _ e | .copy _ _ e | .decodeRune _ _ e | .bsSet _ e => e.hasOpaque
  | .setAt _ a b | .encodeRune _ _ a b | .newMatcher _ _ a b | .stringAt _ _ a b => a.hasOpaque || b.hasOpaque
  | .ite c t e => c.hasOpaque || t.hasOpaque || e.hasOpaque
  | .loop b | .rangeVar _ _ _ b => b.hasOpaque
  | .rangeStr _ _ s b => s.hasOpaque || b.hasOpaque
  | .ret es => es.any E.hasOpaque
  | _ => false

/-! ## Values -/

/-- the classes of run-time panics -/
inductive PCls where
  /-- index out of range -/
  | index
  /-- slice bounds out of range -/
  | slice
  /-- the budget of a loop is used up -/
  | fuel
  deriving DecidableEq, Repr, Inhabited

inductive Res (α : Type) where
  | ok (a : α)
  | panic (c : PCls)
  /-- no meaning -/
  | stuck
  deriving Repr

def Res.bind {α β : Type} (r : Res α) (f : α → Res β) : Res β :=
  match r with
  | .ok a => f a
  | .panic c => .panic c
  | .stuck => .stuck

@[simp] theorem Res.bind_ok {α β : Type} (a : α) (f : α → Res β) : (Res.ok a).bind f = f a := rfl
@[simp] theorem Res.bind_panic {α β : Type} (c : PCls) (f : α → Res β) : (Res.panic c : Res α).bind f = .panic c := rfl
@[simp] theorem Res.bind_stuck {α β : Type} (f : α → Res β) : (Res.stuck : Res α).bind f = .stuck := rfl

/-- an `error` that is not nil: what `NewMatcher` reports (the pattern is not a regular expression), possibly wrapped by
`qerrors.Propagate` with a message -/
inductive Err where
  | badPattern
  | propagated (msg : String) (e : Err)
  deriving DecidableEq, Repr, Inhabited

/-- a string column as `stringAt` sees it: the cells, `none` = null -/
abbrev Col := List (Option Bytes)

inductive Val where
  | int (n : Int)
  | u64 (n : Nat)
  | byte (b : Byte)
  | rune (r : Int)
  | bool (b : Bool)
  | str (s : Bytes)
  /-- a `[]byte`; `none`: nil -/
  | bytes (b : Option Bytes)
  /-- an `error`; `none`: nil -/
  | err (e : Option Err)
  /-- an `index.Bool` -/
  | bools (l : List Bool)
  /-- an `index.Int` (its elements, of type `uint32`, are numbers `Val.u64`) -/
  | rows (l : List Nat)
  /-- a `[]string` -/
  | strs (l : List Bytes)
  /-- a string column -/
  | col (c : Col)
  /-- a matcher: what its `Matches` answers -/
  | matcher (f : Bytes → Bool)
  /-- a `*bitset`; `none`: nil -/
  | bitset (s : Option Small.BitSet)

abbrev Store := Var → Option Val

def Store.empty : Store := fun _ => none
def Store.set (σ : Store) (v : Var) (x : Val) : Store := fun w => if w = v then some x else σ w

@[simp] theorem Store.set_same (σ : Store) (v : Var) (x : Val) : σ.set v x v = some x := by simp [Store.set]
theorem Store.set_ne (σ : Store) (v w : Var) (x : Val) (h : w ≠ v) : σ.set v x w = σ w := by simp [Store.set, h]

/-- what the code takes from outside -/
structure Env where
  /-- the budget of every `for` without `range` -/
  fuel : Nat
  /-- `utf8.DecodeRuneInString`: (rune, width) -/
  decode : Bytes → Int × Nat
  /-- the bytes `utf8.EncodeRune` writes -/
  encode : Int → Bytes
  /-- `utf8.RuneLen` -/
  runeLen : Int → Int
  /-- `unicode.ToUpper` -/
  toUpper : Int → Int
  /-- `NewMatcher(pattern, caseSensitive)`: an error, or what `Matches` of the matcher answers -/
  newMatcher : Bytes → Bool → Except Err (Bytes → Bool)

/-! ## Arithmetic -/

/-- the 64-bit two's complement pattern of an `int` -/
def tc64 (a : Int) : Nat := (a % 2 ^ 64).toNat
/-- the `int` with the 64-bit pattern `m` -/
def sx64 (m : Nat) : Int := if m % 2 ^ 64 < 2 ^ 63 then ((m % 2 ^ 64 : Nat) : Int) else ((m % 2 ^ 64 : Nat) : Int) - 2 ^ 64
/-- the 32-bit two's complement pattern of a `rune` -/
def tc32 (a : Int) : Nat := (a % 2 ^ 32).toNat
def sx32 (m : Nat) : Int := if m % 2 ^ 32 < 2 ^ 31 then ((m % 2 ^ 32 : Nat) : Int) else ((m % 2 ^ 32 : Nat) : Int) - 2 ^ 32

def COp.holds : COp → Int → Int → Bool
  | .lt, a, b => a < b
  | .le, a, b => a ≤ b
  | .gt, a, b => a > b
  | .ge, a, b => a ≥ b
  | .eq, a, b => decide (a = b)
  | .ne, a, b => !decide (a = b)

def COp.holdsN : COp → Nat → Nat → Bool
  | .lt, a, b => a < b
  | .le, a, b => a ≤ b
  | .gt, a, b => a > b
  | .ge, a, b => a ≥ b
  | .eq, a, b => decide (a = b)
  | .ne, a, b => !decide (a = b)

def COp.holdsB : COp → Byte → Byte → Bool
  | .lt, a, b => a < b
  | .le, a, b => a ≤ b
  | .gt, a, b => a > b
  | .ge, a, b => a ≥ b
  | .eq, a, b => a == b
  | .ne, a, b => a != b

/-- `==` / `!=` on booleans and errors -/
def COp.same {α : Type} [DecidableEq α] : COp → α → α → Option Bool
  | .eq, a, b => some (decide (a = b))
  | .ne, a, b => some (!decide (a = b))
  | _, _, _ => none

def compare (op : COp) (x y : Val) : Res Val :=
  match x, y with
  | .int m, .int n => .ok (.bool (op.holds m n))
  | .rune m, .rune n => .ok (.bool (op.holds m n))
  | .u64 m, .u64 n => .ok (.bool (op.holdsN m n))
  | .byte a, .byte b => .ok (.bool (op.holdsB a b))
  | .bool a, .bool b => (match op.same a b with | some r => .ok (.bool r) | none => .stuck)
  | .err a, .err b => (match op.same a b with | some r => .ok (.bool r) | none => .stuck)
  | .str a, .str b => (match op.same a b with | some r => .ok (.bool r) | none => .stuck)
  | _, _ => .stuck

/-- `+`, `-`, `*`: both operands of one type -/
def arith (fi : Int → Int → Int) (x y : Val) : Res Val :=
  match x, y with
  | .int m, .int n => .ok (.int (fi m n))
  | .u64 m, .u64 n => .ok (.u64 (tc64 (fi m n)))
  | _, _ => .stuck

/-- a shift count: a non-negative number of any integer type -/
def shiftCount : Val → Option Nat
  | .int n => if 0 ≤ n then some n.toNat else none
  | .u64 n => some n
  | .byte b => some b.toNat
  | _ => none

def shlV (x : Val) (k : Nat) : Res Val :=
  match x with
  | .int a => .ok (.int (sx64 (tc64 a <<< k)))
  | .u64 a => .ok (.u64 ((a <<< k) % 2 ^ 64))
  | .byte b => .ok (.byte (if k < 8 then b <<< UInt8.ofNat k else 0))
  | _ => .stuck

def shrV (x : Val) (k : Nat) : Res Val :=
  match x with
  | .int a => .ok (.int (a >>> k))
  | .u64 a => .ok (.u64 (a >>> k))
  | .byte b => .ok (.byte (if k < 8 then b >>> UInt8.ofNat k else 0))
  | _ => .stuck

def bandV (x y : Val) : Res Val :=
  match x, y with
  | .int a, .int b => .ok (.int (sx64 (tc64 a &&& tc64 b)))
  | .u64 a, .u64 b => .ok (.u64 (a &&& b))
  | .byte a, .byte b => .ok (.byte (a &&& b))
  | .rune a, .rune b => .ok (.rune (sx32 (tc32 a &&& tc32 b)))
  | _, _ => .stuck

def borV (x y : Val) : Res Val :=
  match x, y with
  | .int a, .int b => .ok (.int (sx64 (tc64 a ||| tc64 b)))
  | .u64 a, .u64 b => .ok (.u64 (a ||| b))
  | .byte a, .byte b => .ok (.byte (a ||| b))
  | .rune a, .rune b => .ok (.rune (sx32 (tc32 a ||| tc32 b)))
  | _, _ => .stuck

/-- `T(x)` -/
def convV (k : NK) (x : Val) : Res Val :=
  match k, x with
  | .int, .int a => .ok (.int a)
  | .int, .u64 a => .ok (.int (sx64 a))
  | .int, .byte b => .ok (.int b.toNat)
  | .int, .rune r => .ok (.int r)
  | .u64, .int a => .ok (.u64 (tc64 a))
  | .u64, .u64 a => .ok (.u64 a)
  | .u64, .byte b => .ok (.u64 b.toNat)
  | .u64, .rune r => .ok (.u64 (tc64 r))
  | .byte, .int a => .ok (.byte (UInt8.ofNat (a % 256).toNat))
  | .byte, .u64 a => .ok (.byte (UInt8.ofNat (a % 256)))
  | .byte, .byte b => .ok (.byte b)
  | .byte, .rune r => .ok (.byte (UInt8.ofNat (r % 256).toNat))
  | .rune, .int a => .ok (.rune (sx32 (tc64 a)))
  | .rune, .u64 a => .ok (.rune (sx32 a))
  | .rune, .byte b => .ok (.rune b.toNat)
  | .rune, .rune r => .ok (.rune r)
  | _, _ => .stuck

/-- the number an index expression stands for (Go: any integer type) -/
def asIndex : Val → Res Int
  | .int n => .ok n
  | .u64 n => .ok n
  | .byte b => .ok b.toNat
  | .rune r => .ok r
  | _ => .stuck

def asInt : Val → Res Int
  | .int n => .ok n
  | _ => .stuck

def asBool : Val → Res Bool
  | .bool b => .ok b
  | _ => .stuck

def Val.len : Val → Option Nat
  | .str s => some s.length
  | .bytes none => some 0
  | .bytes (some b) => some b.length
  | .bools l => some l.length
  | .rows l => some l.length
  | .strs l => some l.length
  | _ => none

def lenOf (v : Val) : Res Int :=
  match v.len with
  | some n => .ok n
  | none => .stuck

/-- `s[i]` -/
def Val.index : Val → Int → Res Val
  | .str s, i => if 0 ≤ i ∧ i < s.length then .ok (.byte s[i.toNat]!) else .panic .index
  | .bytes none, _ => .panic .index
  | .bytes (some s), i => if 0 ≤ i ∧ i < s.length then .ok (.byte s[i.toNat]!) else .panic .index
  | .bools l, i => if 0 ≤ i ∧ i < l.length then .ok (.bool l[i.toNat]!) else .panic .index
  | .rows l, i => if 0 ≤ i ∧ i < l.length then .ok (.u64 l[i.toNat]!) else .panic .index
  | .strs l, i => if 0 ≤ i ∧ i < l.length then .ok (.str l[i.toNat]!) else .panic .index
  | _, _ => .stuck

/-- `s[lo:hi]` of a string or of a `[]byte` (`hi ≤ len`: the capacity is not modelled) -/
def Val.slice : Val → Int → Int → Res Val
  | .str s, lo, hi =>
    if 0 ≤ lo ∧ lo ≤ hi ∧ hi ≤ s.length then .ok (.str ((s.take hi.toNat).drop lo.toNat)) else .panic .slice
  | .bytes (some s), lo, hi =>
    if 0 ≤ lo ∧ lo ≤ hi then (if hi ≤ s.length then .ok (.bytes (some ((s.take hi.toNat).drop lo.toNat))) else .stuck) else .panic .slice
  | _, _, _ => .stuck

/-- the bytes of a string or of a `[]byte` -/
def Val.bytesOf : Val → Option Bytes
  | .str s => some s
  | .bytes none => some []
  | .bytes (some b) => some b
  | _ => none

/-- the bytes `bs` written over `l` from position `off` on (all of them fit) -/
def overwrite (l : Bytes) (off : Nat) (bs : Bytes) : Bytes := l.take off ++ bs ++ l.drop (off + bs.length)

def E.eval (Γ : Env) (σ : Store) : E → Res Val
  | .var v => match σ v with | some x => .ok x | none => .stuck
  | .int n => .ok (.int n)
  | .u64 n => .ok (.u64 (n % 2 ^ 64))
  | .byte n => .ok (.byte (UInt8.ofNat n))
  | .rune n => .ok (.rune n)
  | .bool b => .ok (.bool b)
  | .str bs => .ok (.str (bs.map UInt8.ofNat))
  | .nilBytes => .ok (.bytes none)
  | .nilErr => .ok (.err none)
  | .nilBitset => .ok (.bitset none)
  | .len e => (e.eval Γ σ).bind fun x => (lenOf x).bind fun n => .ok (.int n)
  | .at s i => (s.eval Γ σ).bind fun x => (i.eval Γ σ).bind fun y => (asIndex y).bind fun n => x.index n
  | .slice s lo hi =>
    (s.eval Γ σ).bind fun x => (lo.eval Γ σ).bind fun a => (hi.eval Γ σ).bind fun b =>
      (asInt a).bind fun m => (asInt b).bind fun n => x.slice m n
  | .sliceFrom s lo =>
    (s.eval Γ σ).bind fun x => (lo.eval Γ σ).bind fun a => (asInt a).bind fun m => (lenOf x).bind fun n => x.slice m n
  | .sliceTo s hi => (s.eval Γ σ).bind fun x => (hi.eval Γ σ).bind fun b => (asInt b).bind fun n => x.slice 0 n
  | .make n => (n.eval Γ σ).bind fun a => (asInt a).bind fun m =>
      if 0 ≤ m then .ok (.bytes (some (List.replicate m.toNat 0))) else .stuck
  | .app1 b x => (b.eval Γ σ).bind fun u => (x.eval Γ σ).bind fun w =>
      match u, w with
      | .bytes o, .byte c => .ok (.bytes (some (o.getD [] ++ [c])))
      | _, _ => .stuck
  | .appAll b s => (b.eval Γ σ).bind fun u => (s.eval Γ σ).bind fun w =>
      match u, w.bytesOf with
      | .bytes o, some t => .ok (.bytes (if o.isNone && t.isEmpty then none else some (o.getD [] ++ t)))
      | _, _ => .stuck
  | .toStr e => (e.eval Γ σ).bind fun x => match x with | .bytes o => .ok (.str (o.getD [])) | _ => .stuck
  | .conv k e => (e.eval Γ σ).bind fun x => convV k x
  | .add a b => (a.eval Γ σ).bind fun x => (b.eval Γ σ).bind fun y => arith (· + ·) x y
  | .sub a b => (a.eval Γ σ).bind fun x => (b.eval Γ σ).bind fun y => arith (· - ·) x y
  | .mul a b => (a.eval Γ σ).bind fun x => (b.eval Γ σ).bind fun y => arith (· * ·) x y
  | .shl a b => (a.eval Γ σ).bind fun x => (b.eval Γ σ).bind fun y =>
      match shiftCount y with | some k => shlV x k | none => .stuck
  | .shr a b => (a.eval Γ σ).bind fun x => (b.eval Γ σ).bind fun y =>
      match shiftCount y with | some k => shrV x k | none => .stuck
  | .band a b => (a.eval Γ σ).bind fun x => (b.eval Γ σ).bind fun y => bandV x y
  | .bor a b => (a.eval Γ σ).bind fun x => (b.eval Γ σ).bind fun y => borV x y
  | .cmp op a b => (a.eval Γ σ).bind fun x => (b.eval Γ σ).bind fun y => compare op x y
  | .isNil e => (e.eval Γ σ).bind fun x =>
      match x with
      | .bytes o => .ok (.bool o.isNone)
      | .err o => .ok (.bool o.isNone)
      | .bitset o => .ok (.bool o.isNone)
      | _ => .stuck
  | .not e => (e.eval Γ σ).bind fun x => (asBool x).bind fun b => .ok (.bool (!b))
  | .and a b => (a.eval Γ σ).bind fun x => (asBool x).bind fun p =>
      if p then (b.eval Γ σ).bind fun y => (asBool y).bind fun q => .ok (.bool q) else .ok (.bool false)
  | .or a b => (a.eval Γ σ).bind fun x => (asBool x).bind fun p =>
      if p then .ok (.bool true) else (b.eval Γ σ).bind fun y => (asBool y).bind fun q => .ok (.bool q)
  | .runeLen e => (e.eval Γ σ).bind fun x => match x with | .rune r => .ok (.int (Γ.runeLen r)) | _ => .stuck
  | .upper e => (e.eval Γ σ).bind fun x => match x with | .rune r => .ok (.rune (Γ.toUpper r)) | _ => .stuck
  | .matches m s => (m.eval Γ σ).bind fun x => (s.eval Γ σ).bind fun y =>
      match x, y with
      | .matcher f, .str t => .ok (.bool (f t))
      | _, _ => .stuck
  | .propagate msg e => (e.eval Γ σ).bind fun x =>
      match x with
      | .err (some er) => .ok (.err (some (.propagated msg er)))
      | .err none => .ok (.err none)
      | _ => .stuck
  | .newBitset => .ok (.bitset (some (0, 0, 0, 0)))
  | .opaque _ => .stuck

def evalList (Γ : Env) (σ : Store) : List E → Res (List Val)
  | [] => .ok []
  | e :: es => (e.eval Γ σ).bind fun x => (evalList Γ σ es).bind fun xs => .ok (x :: xs)

/-! ## Statements -/

inductive Out where
  | next (σ : Store)
  | brk (σ : Store)
  | cont (σ : Store)
  /-- `return`: the results and the store at that moment (the final values of the variables the caller can see) -/
  | ret (σ : Store) (vs : List Val)
  | panic (c : PCls)
  | stuck

def Out.ofRes {α : Type} (r : Res α) (k : α → Out) : Out :=
  match r with
  | .ok a => k a
  | .panic c => .panic c
  | .stuck => .stuck

@[simp] theorem Out.ofRes_ok {α : Type} (a : α) (k : α → Out) : Out.ofRes (.ok a) k = k a := rfl
@[simp] theorem Out.ofRes_panic {α : Type} (c : PCls) (k : α → Out) : Out.ofRes (.panic c) k = .panic c := rfl
@[simp] theorem Out.ofRes_stuck {α : Type} (k : α → Out) : Out.ofRes (.stuck) k = .stuck := rfl

def assignL (σ : Store) : L → Val → Store
  | .var v, x => σ.set v x
  | .blank, _ => σ

/-- at most `n` rounds -/
def iter (step : Store → Out) : Nat → Store → Out
  | 0, _ => .panic .fuel
  | n + 1, σ =>
    match step σ with
    | .next σ' => iter step n σ'
    | .cont σ' => iter step n σ'
    | .brk σ' => .next σ'
    | r => r

/-- `range` over the string `s` from byte offset `off`; `n` bounds the rounds (`len(s) + 1` is enough when every width is
positive) -/
def iterStr (decode : Bytes → Int × Nat) (i c : L) (step : Store → Out) (s : Bytes) : Nat → Nat → Store → Out
  | 0, _, _ => .panic .fuel
  | n + 1, off, σ =>
    if off < s.length then
      let d := decode (s.drop off)
      match step (assignL (assignL σ i (.int off)) c (.rune d.1)) with
      | .next σ' => iterStr decode i c step s n (off + d.2) σ'
      | .cont σ' => iterStr decode i c step s n (off + d.2) σ'
      | .brk σ' => .next σ'
      | r => r
    else .next σ

/-- `range` over the slice in variable `v`: rounds `k, k+1, …, len-1` -/
def iterVar (i x : L) (v : Var) (step : Store → Out) (len : Nat) : Nat → Nat → Store → Out
  | 0, _, σ => .next σ
  | n + 1, k, σ =>
    match σ v with
    | some s =>
      (match s.index k with
       | .ok e =>
         (match step (assignL (assignL σ i (.int k)) x e) with
          | .next σ' => iterVar i x v step len n (k + 1) σ'
          | .cont σ' => iterVar i x v step len n (k + 1) σ'
          | .brk σ' => .next σ'
          | r => r)
       | .panic c => .panic c
       | .stuck => .stuck)
    | none => .stuck

def S.exec (Γ : Env) : S → Store → Out
  | .skip, σ => .next σ
  | .seq a b, σ =>
    match a.exec Γ σ with
    | .next σ' => b.exec Γ σ'
    | r => r
  | .assign l e, σ => Out.ofRes (e.eval Γ σ) fun x => .next (assignL σ l x)
  | .setAt v i e, σ =>
    Out.ofRes (i.eval Γ σ) fun iv => Out.ofRes (asIndex iv) fun n => Out.ofRes (e.eval Γ σ) fun x =>
      match σ v, x with
      | some (.bytes (some b)), .byte c =>
        if 0 ≤ n ∧ n < b.length then .next (σ.set v (.bytes (some (b.set n.toNat c)))) else .panic .index
      | some (.bytes none), .byte _ => .panic .index
      | some (.bools l), .bool c =>
        if 0 ≤ n ∧ n < l.length then .next (σ.set v (.bools (l.set n.toNat c))) else .panic .index
      | _, _ => .stuck
  | .copy n v src, σ =>
    Out.ofRes (src.eval Γ σ) fun s =>
      match σ v, s.bytesOf with
      | some (.bytes o), some t =>
        let k := min (o.getD []).length t.length
        .next (assignL (σ.set v (.bytes (o.map fun b => overwrite b 0 (t.take k)))) n (.int k))
      | _, _ => .stuck
  | .encodeRune n v off r, σ =>
    Out.ofRes (off.eval Γ σ) fun ov => Out.ofRes (asInt ov) fun o => Out.ofRes (r.eval Γ σ) fun rv =>
      match σ v, rv with
      | some (.bytes (some b)), .rune x =>
        if 0 ≤ o ∧ o ≤ b.length then
          (if o.toNat + (Γ.encode x).length ≤ b.length then
            .next (assignL (σ.set v (.bytes (some (overwrite b o.toNat (Γ.encode x))))) n (.int (Γ.encode x).length))
           else .panic .index)
        else .panic .slice
      | _, _ => .stuck
  | .decodeRune r w s, σ =>
    Out.ofRes (s.eval Γ σ) fun x =>
      match x with
      | .str t => .next (assignL (assignL σ r (.rune (Γ.decode t).1)) w (.int (Γ.decode t).2))
      | _ => .stuck
  | .newMatcher m er pat cs, σ =>
    Out.ofRes (pat.eval Γ σ) fun p => Out.ofRes (cs.eval Γ σ) fun c =>
      match p, c with
      | .str t, .bool b =>
        (match Γ.newMatcher t b with
         | .ok f => .next (assignL (assignL σ m (.matcher f)) er (.err none))
         | .error e => .next (assignL (assignL σ m (.matcher fun _ => false)) er (.err (some e))))
      | _, _ => .stuck
  | .stringAt s isNull col i, σ =>
    Out.ofRes (col.eval Γ σ) fun c => Out.ofRes (i.eval Γ σ) fun iv => Out.ofRes (asIndex iv) fun n =>
      match c with
      | .col cells =>
        if 0 ≤ n ∧ n < cells.length then
          (match cells[n.toNat]! with
           | some t => .next (assignL (assignL σ s (.str t)) isNull (.bool false))
           | none => .next (assignL (assignL σ s (.str [])) isNull (.bool true)))
        else .panic .index
      | _ => .stuck
  | .bsSet v e, σ =>
    Out.ofRes (e.eval Γ σ) fun x =>
      match σ v, x with
      | some (.bitset (some b)), .byte c => .next (σ.set v (.bitset (some (Small.bsSet b c.toNat))))
      | _, _ => .stuck
  | .ite c t e, σ =>
    Out.ofRes (c.eval Γ σ) fun x =>
      match x with
      | .bool true => t.exec Γ σ
      | .bool false => e.exec Γ σ
      | _ => .stuck
  | .loop body, σ => iter (fun σ' => body.exec Γ σ') Γ.fuel σ
  | .rangeStr i c s body, σ =>
    Out.ofRes (s.eval Γ σ) fun x =>
      match x with
      | .str t => iterStr Γ.decode i c (fun σ' => body.exec Γ σ') t (t.length + 1) 0 σ
      | _ => .stuck
  | .rangeVar i x v body, σ =>
    match σ v with
    | some s => (match s.len with
                 | some n => iterVar i x v (fun σ' => body.exec Γ σ') n n 0 σ
                 | none => .stuck)
    | none => .stuck
  | .brk, σ => .brk σ
  | .cont, σ => .cont σ
  | .ret es, σ => Out.ofRes (evalList Γ σ es) fun vs => .ret σ vs
  | .opaque _, _ => .stuck

/-! ## Calls -/

def bindArgs : List Val → Nat → Store → Store
  | [], _, σ => σ
  | x :: xs, i, σ => bindArgs xs (i + 1) (σ.set i x)

/-- the result of running a function: what it returns and the store at that moment -/
inductive Run where
  | ret (σ : Store) (vs : List Val)
  | panic (c : PCls)
  | stuck

/-- a body that ends without `return` returns nothing -/
def runFn (Γ : Env) (fn : Fn) (args : List Val) : Run :=
  if args.length = fn.params then
    match fn.body.exec Γ (bindArgs args 0 Store.empty) with
    | .ret σ vs => .ret σ vs
    | .next σ => .ret σ []
    | .panic c => .panic c
    | _ => .stuck
  else .stuck

def run (Γ : Env) (P : List (FnId × Fn)) (f : FnId) (args : List Val) : Run :=
  match P.lookup f with
  | some fn => runFn Γ fn args
  | none => .stuck

/-- what the caller gets back, without the store -/
def Run.vals : Run → Option (List Val)
  | .ret _ vs => some vs
  | _ => none

end QF.ST
