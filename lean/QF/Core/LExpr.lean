import QF.Core.OExpr
/-!
# L* — the language of the per-row LOOPS of Apply and Aggregate, and its Go semantics

    func (c Column) Apply1(fn interface{}, ix index.Int) (interface{}, error)                      -- the five column packages
    func (c Column) Apply2(fn interface{}, s2 column.Column, ix index.Int) (column.Column, error)
    func (qf QFrame) apply0(fn types.DataFuncOrBuiltInId, dstCol string) QFrame                    -- /repo/qframe.go
    func (c Column) Aggregate(indices []index.Int, fn interface{}) (column.Column, error)          -- part B, below
    func (g Grouper) Aggregate(aggs ...Aggregation) QFrame                                         -- /repo/grouper.go

Each of the apply functions is a decision on the DYNAMIC TYPE of the function value (`switch t := fn.(type)`, or a single
type assertion `t, ok := fn.(func(int, int) int)`), and behind every accepted type the same three statements

    result := make([]R, len(c.data))                 -- the full physical length of the column, zero-initialised
    for _, i := range ix { result[i] = t(c.data[i]) } -- one call per entry of the index; read row i, write slot i
    return result, nil

The extractor (go/cmd/extract/last.go) translates the functions of /repo's current source into terms of the types below and
writes them to `QF/Gen/Loops.lean` on every run. Terms name things by ROLE, never by identifier:

* a case of the type switch is named by its type (`LSig`): `func(A…) R` over the element types `int`, `float64`, `bool`,
  `*string`; the constants `int`, `float64`, `bool`, `*string`; `string`; a named string type (`types.ColumnName`);
* the two variables of `for pos, row := range ix` are `LIdx.pos` (the key: the position in the index) and `LIdx.row` (the
  value: the physical row);
* the receiver is `LWhich.recv`, the second column AFTER its type assertion to the package's `Column` is `LWhich.other`;
* the length of the allocation is `recvLen` (`len` of the field whose length the package's `Len()` returns), `ixLen`
  (`len` of the index), `firstColLen` (apply0: 0 without columns, else `qf.columns[0].Len()`);
* a cell handed to the function is `LArg.cell which at acc`: the cell of column `which` at index `at`, converted by `acc`.
  The helpers between the cell array and the function argument (`stringToPtr(c.stringAt(i))`, `c.stringPtrAt(i)`) are
  executed symbolically, with the callee's body inlined, and leave a small decision tree `LAcc` over the null flag of the
  cell: `ifNull nilPtr addrStr` (scolumn), `ifNull nilPtr addrValue` (ecolumn), `raw` (the three generated packages).

Fixed vocabulary (as in oast.go): the field names `data`, `pointers`, `values`; `Pointer.IsNull/Offset/Len`;
`enumVal.isNull`. Everything else is found by role. Whatever is not understood becomes `.opaque "<text>"` and has no meaning.

`LFn.run` is the meaning of a term on PHYSICAL data: the receiver's cells by physical row (`PCol.cells`; a cell is what the
observation functions of C09 see at that row), the index `ix` as a list of physical rows, the function value (`LVal`: its
dynamic type, and the function as a Lean function on cells; zero-argument functions may have state). Out-of-range reads and
writes are `panic`.
-/
namespace QF

/-! ## Terms -/

/-- The dynamic type of the function value, as the type tests can tell them apart. -/
inductive LSig where
  /-- `func(A…) R`, every type one of `int`, `float64`, `bool`, `*string` (`CType.string`) -/
  | fn (args : List CType) (res : CType)
  /-- `func([]A) R` -/
  | aggFn (arg res : CType)
  /-- `int`, `float64`, `bool`, `*string` -/
  | const (ty : CType)
  /-- `string` -/
  | str
  /-- a named string type of another package (`types.ColumnName`) -/
  | named
  /-- a type the translator has no name for (never the type of a value of the model) -/
  | other (txt : String)
  deriving DecidableEq, Repr, Inhabited

inductive LWhich where
  | recv | other
  deriving DecidableEq, Repr, Inhabited

/-- The two variables of `for pos, row := range ix`. -/
inductive LIdx where
  | row | pos
  deriving DecidableEq, Repr, Inhabited

/-- From the cell to the function argument. -/
inductive LAcc where
  /-- the element of the cell array itself (`int`, `float64`, `bool`) -/
  | raw
  /-- `nil` -/
  | nilPtr
  /-- `&s`, `s` the string made of the cell's bytes (`c.data[p.Offset():p.Offset()+p.Len()]`, string column) -/
  | addrStr
  /-- `&s` for a string literal `s` -/
  | addrLit (b : Bytes)
  /-- `&c.values[v]`, `v` the cell's code (enum column) -/
  | addrValue
  /-- the null flag of the cell: `p.IsNull()` of the cell's pointer (string), `v.isNull()` of the cell's code (enum) -/
  | ifNull (t e : LAcc)
  /-- the element of the cell array copied as it is, whatever it is (part B: `Subset`) -/
  | entry
  | opaque (txt : String)
  deriving DecidableEq, Repr, Inhabited

inductive LArg where
  /-- the cell of column `c` at index `i`, converted by `acc` -/
  | cell (c : LWhich) (i : LIdx) (acc : LAcc)
  | opaque (txt : String)
  deriving DecidableEq, Repr, Inhabited

/-- Right-hand sides of the assignment in the loop. -/
inductive LRhs where
  /-- `t(args…)`, `t` the function value asserted to the type of the case -/
  | call (args : List LArg)
  /-- `t` itself (a constant) -/
  | fnValue
  /-- `&t` (a string constant) -/
  | addrFnValue
  | opaque (txt : String)
  deriving DecidableEq, Repr, Inhabited

inductive LLen where
  /-- `len(c.<cells>)`: the number of physical rows of the receiver -/
  | recvLen
  /-- `len(ix)` -/
  | ixLen
  /-- apply0: `colLen := 0; if len(qf.columns) > 0 { colLen = qf.columns[0].Len() }` -/
  | firstColLen
  | lit (n : Nat)
  | opaque (txt : String)
  deriving DecidableEq, Repr, Inhabited

/-- The statements of the loop body. -/
inductive LStmt where
  /-- `result[slot] = rhs` -/
  | store (slot : LIdx) (rhs : LRhs)
  /-- `if <the cell of c at i is null> { continue }` -/
  | skipIfNull (c : LWhich) (i : LIdx)
  | opaque (txt : String)
  deriving DecidableEq, Repr, Inhabited

/-- What happens to the result array. -/
inductive LRet where
  /-- `return result, nil` (Apply1: the caller makes the column of the slice's element type) -/
  | slice
  /-- `return New(result), nil`: the constructor from cells of the receiver's own package -/
  | ownCol
  /-- `return scolumn.New(result), nil` from another package -/
  | strCol
  /-- apply0: `data = result`, and after the switch `createColumn(dst, data, <empty config>)`, `setColumn(dst, ·)` -/
  | create
  | opaque (txt : String)
  deriving DecidableEq, Repr, Inhabited

/-- The body of one case. -/
inductive LBody where
  /-- `result := make([]res, len); for pos, row := range ix { body }; ret` -/
  | loop (res : CType) (len : LLen) (body : List LStmt) (ret : LRet)
  /-- `if f, ok := <map>[t]; ok { return f(ix, c), nil }; miss` — the entries of the package-level map: (key, FNV-1a hash of
  the body of the function the entry names) -/
  | lookup (entries : List (String × Nat)) (miss : LBody)
  /-- apply0: `return qf.Copy(dst, string(t))` -/
  | copyCol
  /-- a non-nil error is returned -/
  | err
  | opaque (txt : String)
  deriving DecidableEq, Repr, Inhabited

/-- One of the apply functions. -/
structure LFn where
  /-- `o, ok := s2.(Column); if !ok { … }` in front of everything else: what happens for a column of another package -/
  assertOther : Option LBody := none
  /-- the cases of the type switch in source order (a single type assertion is a switch with one case) -/
  cases : List (LSig × LBody)
  dflt : LBody
  deriving DecidableEq, Repr, Inhabited

/-- `QFrame.apply1` after `Apply1` returned: the switch on the type of the slice. -/
structure LWrap where
  /-- `case []T: resultColumn = <pkg>.New(t)`: (element type, column type of the package) -/
  slices : List (CType × CType)
  /-- `case column.Column: resultColumn = t` -/
  passesColumn : Bool
  /-- the default case returns an error -/
  dfltErr : Bool
  /-- `return qf.setColumn(dst, resultColumn)` -/
  setsDst : Bool
  deriving DecidableEq, Repr, Inhabited

/-! ## Values -/

/-- A column as the loops see it: its package (`ty`), the value table of an enum, the cell of every PHYSICAL row. -/
structure PCol where
  ty : CType
  vals : List Bytes := []
  cells : List Cell
  deriving Repr, Inhabited

/-- The function value: its dynamic type and what it computes. `σ` is the state of a zero-argument closure. -/
inductive LVal (σ : Type) where
  | fn0 (res : CType) (next : σ → Cell × σ)
  | fn1 (arg res : CType) (g : Cell → Cell)
  | fn2 (a b res : CType) (g : Cell → Cell → Cell)
  /-- `func([]A) R` (part B) -/
  | aggFn (arg res : CType) (g : List Cell → Cell)
  /-- an `int`, `float64`, `bool` or `*string` by the constructor of the cell -/
  | const (c : Cell)
  /-- a Go `string` -/
  | str (s : Bytes)
  /-- a `types.ColumnName` -/
  | named (s : Bytes)
  | other

def LVal.sig {σ : Type} : LVal σ → LSig
  | .fn0 r _ => .fn [] r
  | .fn1 a r _ => .fn [a] r
  | .fn2 a b r _ => .fn [a, b] r
  | .aggFn a r _ => .aggFn a r
  | .const c => .const (cellType c)
  | .str _ => .str
  | .named _ => .named
  | .other => .other ""

/-- results of Go code that may panic -/
inductive LR (α : Type) where
  | ok (a : α)
  | panic
  | stuck
  deriving Repr, Inhabited

structure LEnv (σ : Type) where
  recv : PCol
  /-- Apply2's second column -/
  other : PCol
  ix : List Nat
  /-- apply0: `qf.columns[0].Len()`, 0 for a frame without columns -/
  firstColLen : Nat := 0
  fn : LVal σ
  s0 : σ

inductive LOutcome (σ : Type) where
  | err
  /-- the result array (element type, cells), where it goes, and the closure's state after the loop -/
  | arr (ret : LRet) (ty : CType) (cells : List Cell) (s : σ)
  /-- the function of a map entry was called with (ix, receiver): the hash of its body -/
  | builtin (hash : Nat)
  /-- `Copy(dst, name)` -/
  | copy (name : Bytes)
  | panic
  | stuck

/-! ## Evaluation -/

/-- The function argument made from cell `x` of a column of type `ty` (value table `vals`); `none`: no meaning (or a
panic: `c.values[255]`). For a null cell of a string column the string `stringAt` hands out is empty (`strOf`). -/
def LAcc.eval (ty : CType) (vals : List Bytes) (x : Cell) : LAcc → Option Cell
  | .raw =>
    match ty with
    | .int | .float | .bool => if (cellVal ty vals x).isSome then some x else none
    | _ => none
  | .nilPtr => some (.str none)
  | .addrStr => (strOf ty x).map (fun s => .str (some s))
  | .addrLit b => some (.str (some b))
  | .addrValue => (enumStrOf ty vals x).map (fun s => .str (some s))
  | .entry => some x
  | .ifNull t e =>
    match nullOf ty vals x with
    | some true => t.eval ty vals x
    | some false => e.eval ty vals x
    | none => none
  | .opaque _ => none

def LIdx.of (pos row : Nat) : LIdx → Nat
  | .row => row
  | .pos => pos

/-- the column a role stands for; the second column has a role only as a `Column` of the receiver's package -/
def LEnv.col {σ : Type} (E : LEnv σ) : LWhich → Option PCol
  | .recv => some E.recv
  | .other => if E.other.ty = E.recv.ty then some E.other else none

def LArg.eval {σ : Type} (E : LEnv σ) (pos row : Nat) : LArg → LR Cell
  | .cell w i acc =>
    match E.col w with
    | none => .stuck
    | some P =>
      match P.cells[i.of pos row]? with
      | none => .panic
      | some x =>
        match acc.eval P.ty P.vals x with
        | some c => .ok c
        | none => .stuck
  | .opaque _ => .stuck

def LRhs.eval {σ : Type} (E : LEnv σ) (pos row : Nat) (s : σ) : LRhs → LR (Cell × σ)
  | .call args =>
    match E.fn, args with
    | .fn0 _ next, [] => .ok (next s)
    | .fn1 _ _ g, [a] =>
      match a.eval E pos row with
      | .ok x => .ok (g x, s)
      | .panic => .panic
      | .stuck => .stuck
    | .fn2 _ _ _ g, [a, b] =>
      match a.eval E pos row, b.eval E pos row with
      | .ok x, .ok y => .ok (g x y, s)
      | .stuck, _ | _, .stuck => .stuck
      | _, _ => .panic
    | _, _ => .stuck
  | .fnValue =>
    match E.fn with
    | .const c => .ok (c, s)
    | _ => .stuck
  | .addrFnValue =>
    match E.fn with
    | .str b => .ok (.str (some b), s)
    | _ => .stuck
  | .opaque _ => .stuck

def LLen.eval {σ : Type} (E : LEnv σ) : LLen → Option Nat
  | .recvLen => some E.recv.cells.length
  | .ixLen => some E.ix.length
  | .firstColLen => some E.firstColLen
  | .lit n => some n
  | .opaque _ => none

/-- one round of the loop: the statements of the body on the result array `res` and the closure state `s` -/
def lRunBody {σ : Type} (E : LEnv σ) (pos row : Nat) : List LStmt → List Cell → σ → LR (List Cell × σ)
  | [], res, s => .ok (res, s)
  | .store slot rhs :: rest, res, s =>
    match rhs.eval E pos row s with
    | .ok (v, s') =>
      if slot.of pos row < res.length then lRunBody E pos row rest (res.set (slot.of pos row) v) s' else .panic
    | .panic => .panic
    | .stuck => .stuck
  | .skipIfNull w i :: rest, res, s =>
    match E.col w with
    | none => .stuck
    | some P =>
      match P.cells[i.of pos row]? with
      | none => .panic
      | some x => if x.isNull then .ok (res, s) else lRunBody E pos row rest res s
  | .opaque _ :: _, _, _ => .stuck

/-- `for pos, row := range ix { body }`, started at position `pos` -/
def lRunLoop {σ : Type} (E : LEnv σ) (body : List LStmt) : Nat → List Nat → List Cell → σ → LR (List Cell × σ)
  | _, [], res, s => .ok (res, s)
  | pos, row :: ix, res, s =>
    match lRunBody E pos row body res s with
    | .ok (r, s') => lRunLoop E body (pos + 1) ix r s'
    | .panic => .panic
    | .stuck => .stuck

def LBody.run {σ : Type} (E : LEnv σ) : LBody → LOutcome σ
  | .loop ty len body ret =>
    match len.eval E with
    | none => .stuck
    | some n =>
      match lRunLoop E body 0 E.ix (List.replicate n (zeroCell ty)) E.s0 with
      | .ok (r, s) => .arr ret ty r s
      | .panic => .panic
      | .stuck => .stuck
  | .lookup entries miss =>
    match E.fn with
    | .str s =>
      match entries.find? (fun e => strBytes e.1 == s) with
      | some e => .builtin e.2
      | none => miss.run E
    | _ => .stuck
  | .copyCol =>
    match E.fn with
    | .named n => .copy n
    | _ => .stuck
  | .err => .err
  | .opaque _ => .stuck

/-- the type switch: the first case of the value's dynamic type, else the default -/
def LFn.switch {σ : Type} (F : LFn) (E : LEnv σ) : LOutcome σ :=
  match F.cases.find? (fun c => c.1 == E.fn.sig) with
  | some c => c.2.run E
  | none => F.dflt.run E

def LFn.run {σ : Type} (F : LFn) (E : LEnv σ) : LOutcome σ :=
  match F.assertOther with
  | some b => if E.other.ty = E.recv.ty then F.switch E else b.run E
  | none => F.switch E

/-! ## Opaque parts -/

def LAcc.hasOpaque : LAcc → Bool
  | .opaque _ => true
  | .ifNull t e => t.hasOpaque || e.hasOpaque
  | _ => false

def LArg.hasOpaque : LArg → Bool
  | .opaque _ => true
  | .cell _ _ acc => acc.hasOpaque

def LRhs.hasOpaque : LRhs → Bool
  | .opaque _ => true
  | .call args => args.any (·.hasOpaque)
  | _ => false

def LStmt.hasOpaque : LStmt → Bool
  | .opaque _ => true
  | .store _ rhs => rhs.hasOpaque
  | .skipIfNull _ _ => false

def LBody.hasOpaque : LBody → Bool
  | .opaque _ => true
  | .loop _ len body ret =>
    (match len with | .opaque _ => true | _ => false) || body.any (·.hasOpaque) || (match ret with | .opaque _ => true | _ => false)
  | .lookup _ miss => miss.hasOpaque
  | _ => false

def LSig.isOther : LSig → Bool
  | .other _ => true
  | _ => false

def LFn.hasOpaque (F : LFn) : Bool :=
  (match F.assertOther with | some b => b.hasOpaque | none => false) ||
  F.cases.any (fun c => c.1.isOther || c.2.hasOpaque) || F.dflt.hasOpaque

/-! # Part B — the group loops of Aggregate

    func (c Column) Aggregate(indices []index.Int, fn interface{}) (column.Column, error)     -- the five column packages
    func (c Column) subset(index index.Int) Column                                            -- `Subset`, for the key columns
    func (g Grouper) Aggregate(aggs ...Aggregation) QFrame                                    -- /repo/grouper.go, after its guards

`Column.Aggregate` decides on the dynamic type of the function value (a `string` names a built-in of the package's
`aggregations` map — `QF.Gen.aggAst`, C04Aggregations —, a `func([]T) T` is the user's) and then runs

    data := make([]T, 0, len(indices))
    for _, ix := range indices { data = append(data, f(<the cells of the rows of ix, in order>)) }
    return Column{data: data}, nil

The slice handed to `f` is made by a helper (`subsetWithBuf`, `stringSlice`) whose loop is executed symbolically; what is
left of it is a `LGSlice`: how the slice starts (`empty`: `make([]T, 0, n)`, `buf[:0]`; `full`: `make([]T, n)`), how an
element gets into it (`append`, or `s[i] = …` at the position / the row), which cell it is made of. -/

inductive LGInit where
  /-- length 0: `make([]T, 0, n)`, `x[:0]` -/
  | empty
  /-- `make([]T, n)`, `n` the length of what the loop ranges over, zero-initialised -/
  | full
  | opaque (txt : String)
  deriving DecidableEq, Repr, Inhabited

inductive LGWrite where
  /-- `s = append(s, v)` -/
  | append
  /-- `s[i] = v` -/
  | setAt (i : LIdx)
  | opaque (txt : String)
  deriving DecidableEq, Repr, Inhabited

/-- A slice made in one loop `for pos, row := range <index>` from the receiver's cells. -/
structure LGSlice where
  init : LGInit
  write : LGWrite
  /-- the index the cell is read at -/
  i : LIdx
  /-- from the cell to the element -/
  acc : LAcc
  deriving DecidableEq, Repr, Inhabited

/-- Which function aggregates. -/
inductive LGSrc where
  /-- the function value itself, asserted to the type of the case -/
  | user
  /-- `f, ok := <map>[t]; if !ok { return <error> }`: the entry of the package-level map of functions, whose keys are
  `names` (sorted; the map `QF.Gen.aggAst` lists for the package) -/
  | builtin (names : List String)
  | opaque (txt : String)
  deriving DecidableEq, Repr, Inhabited

/-- One case of `Column.Aggregate`, executed to the end of the function. -/
inductive LGCase where
  /-- a non-nil error is returned -/
  | err
  /-- `out := <init>; for pos, ix := range indices { out <write> f(<slice of ix>) }; return <column of out>, nil` -/
  | agg (src : LGSrc) (init : LGInit) (write : LGWrite) (slice : LGSlice) (ret : LRet)
  | opaque (txt : String)
  deriving DecidableEq, Repr, Inhabited

structure LGFn where
  cases : List (LSig × LGCase)
  dflt : LGCase
  deriving DecidableEq, Repr, Inhabited

/-- Integer expressions of the loop of the string column's `subset`. -/
inductive BInt where
  /-- the running offset (the `int` variable declared in front of the loop) -/
  | running
  /-- `p.Len()` / `p.Offset()` of the source cell's pointer `p` -/
  | cellLen
  | cellOff
  | lit (n : Nat)
  | opaque (txt : String)
  deriving DecidableEq, Repr, Inhabited

inductive BFlag where
  /-- `p.IsNull()` of the source cell's pointer -/
  | cellNull
  | lit (b : Bool)
  | opaque (txt : String)
  deriving DecidableEq, Repr, Inhabited

/-- When a statement of the loop body is executed: always, or inside `if !p.IsNull() { … }` / `if p.IsNull() { … }`. -/
inductive BCond where
  | always | notNull | isNull
  deriving DecidableEq, Repr, Inhabited

inductive BAct where
  /-- `pointers[slot] = NewPointer(off, len, null)` -/
  | setPtr (slot : LIdx) (off len : BInt) (null : BFlag)
  /-- `data = append(data, c.data[from : from+len]...)` -/
  | appendBytes (src len : BInt)
  /-- `offset += n` -/
  | advance (n : BInt)
  | opaque (txt : String)
  deriving DecidableEq, Repr, Inhabited

/-- `subset` of the string column: the new pointer array and the new byte blob are made in ONE loop over the index.
`p := c.pointers[<cellAt>]` is the pointer of the source cell; the statements of the body are flattened, each with the
condition it stands under. -/
structure LBlob where
  /-- `pointers := make([]Pointer, len(index))` -/
  ptrInit : LGInit
  /-- `data := make([]byte, 0, …)` -/
  dataInit : LGInit
  /-- `offset := 0` -/
  offInit : Nat
  cellAt : LIdx
  body : List (BCond × BAct)
  deriving DecidableEq, Repr, Inhabited

/-- `Column.subset(index)`: the cells at the rows of the index as a new column of the package; `keeps`: the other fields
of the struct, copied from the receiver (sorted). -/
inductive LGSub where
  | cells (s : LGSlice) (keeps : List String)
  /-- the string column: `return Column{data: <the new blob>, pointers: <the new pointers>}` -/
  | blob (b : LBlob)
  /-- not translated: only the FNV-1a hash of the function's body (the string column, whose cells are a byte blob behind
  packed pointers: `QF.Gen.hashes "scolumn.Column.subset"`) -/
  | byText (hash : Nat)
  | opaque (txt : String)
  deriving DecidableEq, Repr, Inhabited

/-- What a key column of the result is made of. -/
inductive LGKey where
  /-- `col.Subset(<the first-row index>)`, stored at the position of the name in the list of grouped columns -/
  | subsetOfFirst
  | opaque (txt : String)
  deriving DecidableEq, Repr, Inhabited

/-- `Grouper.Aggregate` after its guards. -/
structure LGTail where
  /-- `first := make(index.Int, len(g.indices)); for i, ix := range g.indices { first[i] = ix[k] }`: how the array starts,
  how it is written, and `k` -/
  firstInit : LGInit
  firstWrite : LGWrite
  firstRow : Option Nat
  key : LGKey
  /-- the other aggregations: `col.Aggregate(<groups>, <the Fn field>)` with the grouper's groups -/
  aggPassesGroups : Bool
  /-- the result's index: `index.NewAscending(uint32(len(<groups>)))` -/
  indexAscending : Bool
  deriving DecidableEq, Repr, Inhabited

/-! ## Evaluation -/

/-- the writes of one loop, in order, on the array `l`; an item is (position, row, value) -/
def lgWriteAll {α : Type} (write : LGWrite) : List (Nat × Nat × α) → List α → LR (List α)
  | [], l => .ok l
  | it :: rest, l =>
    match write with
    | .append => lgWriteAll write rest (l ++ [it.2.2])
    | .setAt i => if i.of it.1 it.2.1 < l.length then lgWriteAll write rest (l.set (i.of it.1 it.2.1) it.2.2) else .panic
    | .opaque _ => .stuck

/-- an array built in one loop: `items` are (position, row, value) in loop order; `z` the zero value of the element type -/
def buildArr {α : Type} (z : α) (init : LGInit) (write : LGWrite) (items : List (Nat × Nat × α)) : LR (List α) :=
  match init with
  | .empty => lgWriteAll write items []
  | .full => lgWriteAll write items (List.replicate items.length z)
  | .opaque _ => .stuck

/-- the elements a slice term reads for the rows `rows` of a group, from position `k` on: `none` = a row out of range
(panic) or an element without meaning -/
def sliceItems (P : PCol) (s : LGSlice) : Nat → List Nat → Option (List (Nat × Nat × Cell))
  | _, [] => some []
  | k, r :: rs =>
    match P.cells[s.i.of k r]? with
    | none => none
    | some x =>
      match s.acc.eval P.ty P.vals x with
      | none => none
      | some v => (sliceItems P s (k + 1) rs).map (fun l => (k, r, v) :: l)

/-- the slice made from the rows of one group -/
def LGSlice.run (P : PCol) (z : Cell) (grp : List Nat) (s : LGSlice) : LR (List Cell) :=
  match sliceItems P s 0 grp with
  | none => .panic
  | some items => buildArr z s.init s.write items

/-- The function value handed to `Aggregate`. -/
inductive LGVal where
  /-- `func([]A) R` -/
  | aggFn (arg res : CType) (g : List Cell → Cell)
  /-- a Go `string`: the name of a built-in -/
  | name (s : String)
  /-- a value of any other dynamic type -/
  | other (sig : LSig)

def LGVal.sig : LGVal → LSig
  | .aggFn a r _ => .aggFn a r
  | .name _ => .str
  | .other sig => sig

structure LGEnv where
  recv : PCol
  /-- the groups: lists of physical rows -/
  groups : List (List Nat)
  fn : LGVal
  /-- the package's map of built-in aggregations: name ↦ function on the cells of a group (`none` as a result: Go panics) -/
  builtin : String → Option (List Cell → Option Cell)

inductive LGOut where
  | err
  /-- one cell per group, and where the array goes -/
  | col (ret : LRet) (cells : List Cell)
  | panic
  | stuck
  deriving Repr, Inhabited

/-- the aggregating function: `none`: no meaning; `some none`: the unknown-name error -/
def LGSrc.pick (E : LGEnv) : LGSrc → Option (Option (List Cell → Option Cell))
  | .user =>
    match E.fn with
    | .aggFn _ _ g => some (some (fun l => some (g l)))
    | _ => none
  | .builtin names =>
    match E.fn with
    | .name s => if names.contains s then (E.builtin s).map some else some none
    | _ => none
  | .opaque _ => none

/-- one value per group, in group order, from group number `k` on: (group number, group number, value) -/
def aggVals (F : List Cell → Option Cell) (slice : LGSlice) (P : PCol) (z : Cell) : Nat → List (List Nat) → LR (List (Nat × Nat × Cell))
  | _, [] => .ok []
  | k, grp :: rest =>
    match slice.run P z grp with
    | .ok vs =>
      match F vs with
      | some v =>
        match aggVals F slice P z (k + 1) rest with
        | .ok l => .ok ((k, k, v) :: l)
        | e => e
      | none => .panic
    | .panic => .panic
    | .stuck => .stuck

def LGCase.run (E : LGEnv) (z : Cell) : LGCase → LGOut
  | .err => .err
  | .agg src init write slice ret =>
    match src.pick E with
    | none => .stuck
    | some none => .err
    | some (some F) =>
      match aggVals F slice E.recv z 0 E.groups with
      | .ok items =>
        match buildArr z init write items with
        | .ok out => .col ret out
        | .panic => .panic
        | .stuck => .stuck
      | .panic => .panic
      | .stuck => .stuck
  | .opaque _ => .stuck

/-- `Column.Aggregate`: the switch on the function value; `z` is the zero value of the package's element type -/
def LGFn.run (F : LGFn) (E : LGEnv) (z : Cell) : LGOut :=
  match F.cases.find? (fun c => c.1 == E.fn.sig) with
  | some c => c.2.run E z
  | none => F.dflt.run E z

/-- the rows `ix[k]` of the groups, from group number `n` on: `none` = a group shorter than `k + 1` (Go panics) -/
def firstItems (k : Nat) : Nat → List (List Nat) → Option (List (Nat × Nat × Nat))
  | _, [] => some []
  | n, grp :: rest =>
    match grp[k]? with
    | none => none
    | some r => (firstItems k (n + 1) rest).map (fun l => (n, n, r) :: l)

/-- the first-row index of `Grouper.Aggregate`: `none` = a panic (an empty group) or no meaning -/
def LGTail.first (T : LGTail) (groups : List (List Nat)) : Option (List Nat) :=
  match T.firstRow with
  | none => none
  | some k =>
    match firstItems k 0 groups with
    | none => none
    | some items =>
      match buildArr 0 T.firstInit T.firstWrite items with
      | .ok l => some l
      | _ => none

/-- `c.subset(index)`: the cells of the new column -/
def LGSub.run (P : PCol) (z : Cell) (ix : List Nat) : LGSub → LR (List Cell)
  | .cells s _ => s.run P z ix
  | .blob _ => .stuck
  | .byText _ => .stuck
  | .opaque _ => .stuck

/-! ### The string column's byte blob

`internal/strings.Pointer` packs (offset, length, null flag) into 64 bits; `NewPointer(o, l, n)` followed by `Offset()`,
`Len()`, `IsNull()` gives `o`, `l`, `n` back for offsets below 2^35 and lengths below 2^28 (`pointer_roundtrip`, C08). In
the model a pointer IS that triple. -/

structure BPtr where
  off : Nat
  len : Nat
  null : Bool
  deriving DecidableEq, Repr, Inhabited

/-- a string column as stored: packed pointers into a byte blob -/
structure BCol where
  ptrs : List BPtr
  data : Bytes
  deriving Repr, Inhabited

/-- the string a pointer denotes in a blob: `c.data[p.Offset() : p.Offset()+p.Len()]`, nothing for a null pointer -/
def ptrCell (data : Bytes) (p : BPtr) : Option Bytes :=
  if p.null then none else some ((data.drop p.off).take p.len)

/-- the cell `stringAt(i)` sees (`none`: out of range) -/
def BCol.cell (B : BCol) (i : Nat) : Option (Option Bytes) := (B.ptrs[i]?).map (ptrCell B.data)

/-- the three variables of the loop -/
structure BSt where
  ptrs : List BPtr
  data : Bytes
  off : Nat
  deriving Repr, Inhabited

def BInt.eval (st : BSt) (p : BPtr) : BInt → Option Nat
  | .running => some st.off
  | .cellLen => some p.len
  | .cellOff => some p.off
  | .lit n => some n
  | .opaque _ => none

def BFlag.eval (p : BPtr) : BFlag → Option Bool
  | .cellNull => some p.null
  | .lit b => some b
  | .opaque _ => none

def BCond.holds (p : BPtr) : BCond → Bool
  | .always => true
  | .notNull => !p.null
  | .isNull => p.null

def BAct.run (src : BCol) (pos row : Nat) (p : BPtr) (st : BSt) : BAct → LR BSt
  | .setPtr slot o l n =>
    match o.eval st p, l.eval st p, n.eval p with
    | some o', some l', some n' =>
      if slot.of pos row < st.ptrs.length then .ok { st with ptrs := st.ptrs.set (slot.of pos row) ⟨o', l', n'⟩ } else .panic
    | _, _, _ => .stuck
  | .appendBytes f l =>
    match f.eval st p, l.eval st p with
    | some f', some l' =>
      if f' + l' ≤ src.data.length then .ok { st with data := st.data ++ (src.data.drop f').take l' } else .panic
    | _, _ => .stuck
  | .advance n =>
    match n.eval st p with
    | some k => .ok { st with off := st.off + k }
    | none => .stuck
  | .opaque _ => .stuck

def runBlobBody (src : BCol) (pos row : Nat) (p : BPtr) : List (BCond × BAct) → BSt → LR BSt
  | [], st => .ok st
  | ca :: rest, st =>
    if ca.1.holds p then
      match ca.2.run src pos row p st with
      | .ok st' => runBlobBody src pos row p rest st'
      | e => e
    else runBlobBody src pos row p rest st

def runBlobLoop (src : BCol) (b : LBlob) : Nat → List Nat → BSt → LR BSt
  | _, [], st => .ok st
  | pos, row :: rows, st =>
    match src.ptrs[b.cellAt.of pos row]? with
    | none => .panic
    | some p =>
      match runBlobBody src pos row p b.body st with
      | .ok st' => runBlobLoop src b (pos + 1) rows st'
      | e => e

/-- `c.subset(ix)` of the string column -/
def LBlob.run (src : BCol) (ix : List Nat) (b : LBlob) : LR BCol :=
  let ptrs0 : Option (List BPtr) :=
    match b.ptrInit with
    | .empty => some []
    | .full => some (List.replicate ix.length ⟨0, 0, false⟩)
    | .opaque _ => none
  let data0 : Option Bytes :=
    match b.dataInit with
    | .empty => some []
    | .full => some (List.replicate ix.length 0)
    | .opaque _ => none
  match ptrs0, data0 with
  | some ps, some d =>
    match runBlobLoop src b 0 ix ⟨ps, d, b.offInit⟩ with
    | .ok st => .ok ⟨st.ptrs, st.data⟩
    | .panic => .panic
    | .stuck => .stuck
  | _, _ => .stuck

def LGSlice.hasOpaque (s : LGSlice) : Bool :=
  (match s.init with | .opaque _ => true | _ => false) || (match s.write with | .opaque _ => true | _ => false) || s.acc.hasOpaque

def LGCase.hasOpaque : LGCase → Bool
  | .opaque _ => true
  | .agg src init write slice ret =>
    (match src with | .opaque _ => true | _ => false) || (match init with | .opaque _ => true | _ => false) ||
    (match write with | .opaque _ => true | _ => false) || slice.hasOpaque || (match ret with | .opaque _ => true | _ => false)
  | .err => false

def LGFn.hasOpaque (F : LGFn) : Bool := F.cases.any (fun c => c.1.isOther || c.2.hasOpaque) || F.dflt.hasOpaque

def BAct.hasOpaque : BAct → Bool
  | .opaque _ => true
  | .setPtr _ o l n =>
    (match o with | .opaque _ => true | _ => false) || (match l with | .opaque _ => true | _ => false) ||
    (match n with | .opaque _ => true | _ => false)
  | .appendBytes f l => (match f with | .opaque _ => true | _ => false) || (match l with | .opaque _ => true | _ => false)
  | .advance n => (match n with | .opaque _ => true | _ => false)

def LBlob.hasOpaque (b : LBlob) : Bool :=
  (match b.ptrInit with | .opaque _ => true | _ => false) || (match b.dataInit with | .opaque _ => true | _ => false) ||
  b.body.any (fun ca => ca.2.hasOpaque)

def LGSub.hasOpaque : LGSub → Bool
  | .opaque _ => true
  | .byText _ => false
  | .blob b => b.hasOpaque
  | .cells s _ => s.hasOpaque

def LGTail.hasOpaque (T : LGTail) : Bool :=
  (match T.firstInit with | .opaque _ => true | _ => false) || (match T.firstWrite with | .opaque _ => true | _ => false) ||
  T.firstRow.isNone || (match T.key with | .opaque _ => true | _ => false)

end QF
