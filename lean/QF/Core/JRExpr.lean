import QF.Spec.JsonRead
/-!
# JR / JU — the language of the JSON reading glue (/repo/internal/io/json.go, `ReadJSON` of /repo/qframe.go), and its Go semantics

    type JSONRecords []map[string]interface{}
    func fillInts(col []int, records JSONRecords, colName string) error          (fillFloats, fillBools, fillStrings)
    func jsonRecordsToData(records JSONRecords) (map[string]interface{}, error)
    func UnmarshalJSON(r io.Reader) (map[string]interface{}, error)
    func ReadJSON(reader io.Reader, confFuncs ...newqf.ConfigFunc) QFrame

The extractor (go/cmd/extract/jrast.go) walks the bodies statement by statement and writes them to `QF/Gen/ReadJson.lean`
on every run: the fill functions and `jsonRecordsToData` as terms of `JR` in continuation style (every statement carries
the rest of its block; a block ends with `done` or a `ret…`; the statements after a type switch are carried into its
clauses), `UnmarshalJSON` and `ReadJSON` as terms of `JU`.

Terms name things by ROLE, never by Go identifier:
* the record type `R` is the named type with underlying type `[]map[string]interface{}`; a fill function is a function
  `([]T, R, string) error` — `T` (`int`, `float64`, `bool`, `*string`: `JRElem`) says which one —, `jsonRecordsToData` is the
  function `(R) (map[string]interface{}, error)`, `UnmarshalJSON` the function `(io.Reader) (map[string]interface{}, error)`,
  `ReadJSON` the function of the root package `(io.Reader, ...ConfigFunc) QFrame` that calls it;
* variables by what they are bound to: the records, the column slice (parameter / `make([]T, len(records))`), the column
  name (parameter / key of the `range` over a record), the index of `range col`, the record bound last
  (`records[i]`, `records[0]`), the looked-up / ranged-over value, the `ok` of the latest comma-ok form, the value bound by
  the latest type assertion or by the single-type clause of a type switch, the result map, the error of the latest call.

`JR.run` is the Go meaning of a term. `col[i] = v` for the index `i` of `for i := range col` is modelled as in `IS.setPtr`
of IExpr.lean: the column holds the slots written so far and a write must be to slot `size`; a column must be completely
written when it is stored in the result. The order in which `range` delivers the entries of a map is a parameter
(`JREnv.iter`). Untranslated code is `.opaque` and has no meaning (`JROut.stuck`).

`encoding/json` is NOT regenerated: `decodeDoc` is the model of `Decoder.Decode` into a `*[]map[string]interface{}` this
file assumes (objects become maps — the last of several members with the same name wins —, `null` elements nil maps, numbers
`float64`, strings `string`, `true`/`false` `bool`, `null` nil, arrays and objects `[]interface{}` / `map[string]interface{}`;
a number that is no float64, an element that is no object, a document that is no array: an error).
-/
namespace QF
open Json

/-! ## Decoded values -/

/-- What an `interface{}` holds after decoding (`int`: never produced by `encoding/json`, but the code asks for it). -/
inductive GV where
  | null
  | bool (b : Bool)
  | float64 (f : UInt64)
  | str (s : Bytes)
  | int (i : Int)
  /-- `[]interface{}` / `map[string]interface{}` -/
  | other
  deriving DecidableEq, Repr, Inhabited

/-- A `map[string]interface{}`: every key at most once. -/
abbrev GoMap := List (Bytes × GV)

def goMapGet (m : GoMap) (k : Bytes) : Option GV := (m.find? (·.1 == k)).map (·.2)

/-- `m[k] = v` -/
def goMapInsert : GoMap → Bytes → GV → GoMap
  | [], k, v => [(k, v)]
  | e :: rest, k, v => if e.1 == k then (k, v) :: rest else e :: goMapInsert rest k v

def decodeVal (pnum : Bytes → Option UInt64) : JVal → GV
  | .null => .null
  | .bool b => .bool b
  | .num t => .float64 ((pnum t).getD 0)
  | .str s => .str s
  | .arr _ => .other
  | .obj _ => .other

/-- an object decoded member by member -/
def decodeRec (pnum : Bytes → Option UInt64) (r : JRec) : GoMap :=
  r.foldl (fun m kv => goMapInsert m kv.1 (decodeVal pnum kv.2)) []

/-- `decoder.Decode(&records)`: `none` = an error -/
def decodeDoc (pnum : Bytes → Option UInt64) (doc : JVal) : Option (List GoMap) :=
  if jsonNumsOk pnum doc then (jsonRecords doc).map (fun recs => recs.map (decodeRec pnum)) else none

/-! ## Terms -/

/-- The dynamic type asked for in a type assertion / a clause of a type switch. -/
inductive JRDyn where
  | int | float64 | bool | string
  /-- `case nil` -/
  | null
  deriving DecidableEq, Repr, Inhabited

/-- The element type of a column slice. -/
inductive JRElem where
  | int | float64 | bool
  /-- `*string` -/
  | strptr
  deriving DecidableEq, Repr, Inhabited

/-- An index into the records. -/
inductive JRIx where
  /-- the index of the enclosing `for i := range col` -/
  | loopVar
  | lit (n : Nat)
  deriving DecidableEq, Repr, Inhabited

inductive JR where
  /-- `for i := range col { body }` -/
  | rangeCol (body k : JR)
  /-- `record := records[ix]` -/
  | bindRecord (ix : JRIx) (k : JR)
  /-- `value, ok := record[colName]` -/
  | lookup (k : JR)
  /-- `if !ok { t }` for the `ok` of the latest comma-ok form -/
  | ifNotOk (t k : JR)
  /-- `x, ok := value.(T)` -/
  | assertTy (d : JRDyn) (k : JR)
  /-- `switch t := value.(type) { case T1, T2: t … }`: `e` is the rest of the switch (further clauses, at last the default
  clause; a switch without default clause ends with what follows the switch) -/
  | caseTy (ds : List JRDyn) (t e : JR)
  /-- `col[i] = x` for the value asserted last -/
  | store (k : JR)
  /-- `col[i] = &t` for the string bound by the clause -/
  | storeAddr (k : JR)
  /-- `col[i] = nil` -/
  | storeNil (k : JR)
  /-- `result := map[string]interface{}{}` -/
  | newResult (k : JR)
  /-- `if len(records) == 0 { t }` -/
  | ifNoRecords (t k : JR)
  /-- `for colName, value := range record { body }` -/
  | rangeRecord (body k : JR)
  /-- `col := make([]T, len(records))` -/
  | makeCol (e : JRElem) (k : JR)
  /-- `if err := <the fill function for []T>(col, records, colName); err != nil { onErr }` -/
  | callFill (e : JRElem) (onErr k : JR)
  /-- `result[colName] = col` -/
  | setResult (k : JR)
  /-- the end of a block -/
  | done
  /-- a fill function: `return nil` -/
  | retNil
  /-- `return <a non-nil error made on the spot>` / `return nil, <such an error>` -/
  | retErr
  /-- `return nil, err` for the error of the latest call -/
  | retCallErr
  /-- `return result, nil` -/
  | retResult
  | opaque (txt : String)
  deriving DecidableEq, Repr, Inhabited

/-- `UnmarshalJSON` and `ReadJSON`. -/
inductive JU where
  /-- `var records R; decoder := json.NewDecoder(r); err := decoder.Decode(&records)` -/
  | decode (k : JU)
  /-- `data, err := <UnmarshalJSON>(reader)` -/
  | unmarshal (k : JU)
  /-- `if err != nil { t }` for the error of the latest call -/
  | ifErr (t k : JU)
  /-- `return nil, <a non-nil error>` -/
  | retErr
  /-- `return <jsonRecordsToData>(records)` -/
  | retToData
  /-- `return QFrame{Err: err}` -/
  | retErrFrame
  /-- `return New(data, confFuncs...)` -/
  | retNew
  | opaque (txt : String)
  deriving DecidableEq, Repr, Inhabited

/-! ## Semantics -/

/-- A typed value bound by an assertion or a clause. -/
inductive JRV where
  | none
  | int (i : Int)
  | float (f : UInt64)
  | bool (b : Bool)
  | str (s : Bytes)
  deriving DecidableEq, Repr, Inhabited

/-- Does the value have the dynamic type? If so, the typed value. -/
def JRDyn.bind : JRDyn → GV → Option JRV
  | .int, .int i => some (.int i)
  | .float64, .float64 f => some (.float f)
  | .bool, .bool b => some (.bool b)
  | .string, .str s => some (.str s)
  | .null, .null => some .none
  | _, _ => none

/-- A column slice: the slots written so far. -/
inductive JCol where
  | ints (a : List Int)
  | floats (a : List UInt64)
  | bools (a : List Bool)
  | strs (a : List (Option Bytes))
  deriving DecidableEq, Repr, Inhabited

def JCol.empty : JRElem → JCol
  | .int => .ints []
  | .float64 => .floats []
  | .bool => .bools []
  | .strptr => .strs []

def JCol.size : JCol → Nat
  | .ints a => a.length
  | .floats a => a.length
  | .bools a => a.length
  | .strs a => a.length

/-- `col[size] = v` -/
def JCol.push : JCol → JRV → Option JCol
  | .ints a, .int i => some (.ints (a ++ [i]))
  | .floats a, .float f => some (.floats (a ++ [f]))
  | .bools a, .bool b => some (.bools (a ++ [b]))
  | _, _ => none

def JCol.pushPtr : JCol → Option Bytes → Option JCol
  | .strs a, p => some (.strs (a ++ [p]))
  | _, _ => none

abbrev JData := List (Bytes × JCol)

/-- `result[k] = c` -/
def jdataInsert : JData → Bytes → JCol → JData
  | [], k, c => [(k, c)]
  | e :: rest, k, c => if e.1 == k then (k, c) :: rest else e :: jdataInsert rest k c

structure JRSt where
  colName : Bytes := []
  record : Option GoMap := none
  /-- the looked-up / ranged-over value -/
  value : Option GV := none
  ok : Bool := false
  bound : JRV := .none
  /-- `len(col)` -/
  colLen : Nat := 0
  col : Option JCol := none
  callFailed : Bool := false
  result : Option JData := none

inductive JROut where
  | next (σ : JRSt)
  /-- a fill function returns nil -/
  | retNil (σ : JRSt)
  /-- a non-nil error is returned -/
  | retErr
  | retData (m : JData)
  | stuck

structure JREnv where
  records : List GoMap
  /-- the order in which `range` delivers the entries of a map -/
  iter : GoMap → GoMap
  /-- the fill function for `[]T`, called with a fresh slice of the given length, the records and the column name:
  `none` = no meaning, `some none` = an error, `some (some c)` = nil, the slice is `c` afterwards -/
  fill : JRElem → Bytes → Nat → Option (Option JCol)

/-- the rounds `i, i+1, …` of `for i := range col` -/
def iterIdx (step : Nat → JRSt → JROut) : Nat → Nat → JRSt → JROut
  | _, 0, σ => .next σ
  | i, n + 1, σ =>
    match step i σ with
    | .next σ' => iterIdx step (i + 1) n σ'
    | r => r

def iterEntries (step : Bytes → GV → JRSt → JROut) : List (Bytes × GV) → JRSt → JROut
  | [], σ => .next σ
  | e :: es, σ =>
    match step e.1 e.2 σ with
    | .next σ' => iterEntries step es σ'
    | r => r

def JR.run (E : JREnv) : JR → Option Nat → JRSt → JROut
  | .rangeCol body k, cur, σ =>
    match σ.col with
    | none => .stuck
    | some _ =>
      match iterIdx (fun i τ => body.run E (some i) τ) 0 σ.colLen σ with
      | .next σ' => k.run E cur σ'
      | r => r
  | .bindRecord ix k, cur, σ =>
    match (match ix with | .loopVar => cur | .lit n => some n) with
    | none => .stuck
    | some i =>
      match E.records[i]? with
      | none => .stuck
      | some m => k.run E cur { σ with record := some m }
  | .lookup k, cur, σ =>
    match σ.record with
    | none => .stuck
    | some m =>
      match goMapGet m σ.colName with
      | some v => k.run E cur { σ with value := some v, ok := true }
      | none => k.run E cur { σ with value := some .null, ok := false }
  | .ifNotOk t k, cur, σ =>
    if σ.ok then k.run E cur σ
    else
      match t.run E cur σ with
      | .next σ' => k.run E cur σ'
      | r => r
  | .assertTy d k, cur, σ =>
    match σ.value with
    | none => .stuck
    | some v =>
      match d.bind v with
      | some tv => k.run E cur { σ with bound := tv, ok := true }
      | none => k.run E cur { σ with bound := .none, ok := false }
  | .caseTy ds t e, cur, σ =>
    match σ.value with
    | none => .stuck
    | some v =>
      if ds.any (fun d => (d.bind v).isSome) then
        t.run E cur { σ with bound := match ds with | [d] => (d.bind v).getD .none | _ => .none }
      else e.run E cur σ
  | .store k, cur, σ =>
    match cur, σ.col with
    | some i, some c =>
      if c.size = i then
        match c.push σ.bound with
        | some c' => k.run E cur { σ with col := some c' }
        | none => .stuck
      else .stuck
    | _, _ => .stuck
  | .storeAddr k, cur, σ =>
    match cur, σ.col, σ.bound with
    | some i, some c, .str s =>
      if c.size = i then
        match c.pushPtr (some s) with
        | some c' => k.run E cur { σ with col := some c' }
        | none => .stuck
      else .stuck
    | _, _, _ => .stuck
  | .storeNil k, cur, σ =>
    match cur, σ.col with
    | some i, some c =>
      if c.size = i then
        match c.pushPtr none with
        | some c' => k.run E cur { σ with col := some c' }
        | none => .stuck
      else .stuck
    | _, _ => .stuck
  | .newResult k, cur, σ => k.run E cur { σ with result := some [] }
  | .ifNoRecords t k, cur, σ =>
    if E.records.length = 0 then
      match t.run E cur σ with
      | .next σ' => k.run E cur σ'
      | r => r
    else k.run E cur σ
  | .rangeRecord body k, cur, σ =>
    match σ.record with
    | none => .stuck
    | some m =>
      match iterEntries (fun name v τ => body.run E cur { τ with colName := name, value := some v }) (E.iter m) σ with
      | .next σ' => k.run E cur σ'
      | r => r
  | .makeCol e k, cur, σ => k.run E cur { σ with col := some (JCol.empty e), colLen := E.records.length }
  | .callFill e onErr k, cur, σ =>
    if σ.col = some (JCol.empty e) then
      match E.fill e σ.colName σ.colLen with
      | none => .stuck
      | some none =>
        match onErr.run E cur { σ with callFailed := true } with
        | .next σ' => k.run E cur σ'
        | r => r
      | some (some c) => k.run E cur { σ with col := some c, callFailed := false }
    else .stuck
  | .setResult k, cur, σ =>
    match σ.result, σ.col with
    | some m, some c => if c.size = σ.colLen then k.run E cur { σ with result := some (jdataInsert m σ.colName c) } else .stuck
    | _, _ => .stuck
  | .done, _, σ => .next σ
  | .retNil, _, σ => .retNil σ
  | .retErr, _, _ => .retErr
  | .retCallErr, _, σ => if σ.callFailed then .retErr else .stuck
  | .retResult, _, σ =>
    match σ.result with
    | some m => .retData m
    | none => .stuck
  | .opaque _, _, _ => .stuck

/-- The generated bodies. -/
structure JRProg where
  /-- the fill functions, by the element type of their slice parameter -/
  fills : List (JRElem × JR)
  toData : JR

/-- a fill function called with a fresh slice of length `n` -/
def JRProg.fill (G : JRProg) (records : List GoMap) (e : JRElem) (name : Bytes) (n : Nat) : Option (Option JCol) :=
  match G.fills.lookup e with
  | none => none
  | some t =>
    match t.run { records := records, iter := id, fill := fun _ _ _ => none } none
        { colName := name, colLen := n, col := some (JCol.empty e) } with
    | .retNil σ =>
      match σ.col with
      | some c => if c.size = n then some (some c) else none
      | none => none
    | .retErr => some none
    | _ => none

/-- `jsonRecordsToData(records)`: `none` = no meaning, `some none` = an error, `some (some m)` = the map `m` -/
def JRProg.run (G : JRProg) (iter : GoMap → GoMap) (records : List GoMap) : Option (Option JData) :=
  match G.toData.run { records := records, iter := iter, fill := G.fill records } none {} with
  | .retData m => some (some m)
  | .retErr => some none
  | _ => none

/-- Where `UnmarshalJSON` / `ReadJSON` stands: nothing was called yet, `Decode` was called (`none`: it returned an error,
else what it left in `records`), `UnmarshalJSON` was called (`none`: it returned an error, else the data). -/
inductive JUSt (δ : Type) where
  | start
  | decoded (r : Option (List GoMap))
  | unmarshalled (d : Option δ)

/-- What is returned: `(data, error)` or a frame. -/
inductive JURes (δ ρ : Type) where
  | data (d : Option δ)
  | frame (f : ρ)

/-- What the functions are run with: `dec` is what `Decode` does with the reader (`none`: an error), `toData` is
`jsonRecordsToData`, `unm` what `UnmarshalJSON` returns for the reader, `new` is `New(data, confFuncs...)` and `errFrame`
the frame `QFrame{Err: err}` of a non-nil error. -/
structure JUEnv (δ ρ : Type) where
  dec : Option (List GoMap)
  toData : List GoMap → Option (Option δ)
  unm : Option (Option δ)
  new : δ → ρ
  errFrame : ρ

/-- `none` = no meaning. -/
def JU.run {δ ρ : Type} (E : JUEnv δ ρ) : JU → JUSt δ → Option (JURes δ ρ)
  | .decode k, _ => k.run E (.decoded E.dec)
  | .unmarshal k, _ =>
    match E.unm with
    | none => none
    | some u => k.run E (.unmarshalled u)
  | .ifErr t k, s =>
    match s with
    | .start => none
    | .decoded none | .unmarshalled none => t.run E s
    | .decoded (some _) | .unmarshalled (some _) => k.run E s
  | .retErr, _ => some (.data none)
  | .retToData, s =>
    match s with
    | .decoded (some recs) => (E.toData recs).map JURes.data
    | _ => none
  | .retErrFrame, s =>
    match s with
    | .unmarshalled none => some (.frame E.errFrame)
    | _ => none
  | .retNew, s =>
    match s with
    | .unmarshalled (some x) => some (.frame (E.new x))
    | _ => none
  | .opaque _, _ => none

def JR.hasOpaque : JR → Bool
  | .opaque _ => true
  | .rangeCol b k | .ifNotOk b k | .caseTy _ b k | .ifNoRecords b k | .rangeRecord b k | .callFill _ b k =>
    b.hasOpaque || k.hasOpaque
  | .bindRecord _ k | .lookup k | .assertTy _ k | .store k | .storeAddr k | .storeNil k | .newResult k | .makeCol _ k
  | .setResult k => k.hasOpaque
  | _ => false

def JU.hasOpaque : JU → Bool
  | .opaque _ => true
  | .ifErr t k => t.hasOpaque || k.hasOpaque
  | .decode k | .unmarshal k => k.hasOpaque
  | _ => false

end QF
