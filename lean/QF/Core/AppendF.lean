/-! Prototype: dec64.appendF on a buffer with arbitrary stale spare capacity (C16 formatter). -/
namespace AF
abbrev Byte := UInt8

/-- a Go byte slice: visible content + whatever lies in the spare capacity behind it -/
structure Buf where
  content : List Byte
  spare : List Byte

/-- sizeSlice(b, n): reslice into the spare capacity if it is large enough (exposing stale bytes),
    else append n zero bytes (fresh array; spare afterwards unspecified — modelled as given `extra`) -/
def sizeSlice (b : Buf) (n : Nat) (extra : List Byte) : Buf :=
  if b.spare.length ≥ n then ⟨b.content ++ b.spare.take n, b.spare.drop n⟩
  else ⟨b.content ++ List.replicate n 0, extra⟩

def digit (d : Nat) : Byte := (48 + d % 10).toUInt8

/-- the k low decimal digits of m, most significant first -/
def digitsN : Nat → Nat → List Byte
  | 0, _ => []
  | k + 1, m => digitsN k (m / 10) ++ [digit m]

/-- `for i := pos+k-1; i >= pos; i-- { b[i] = '0' + out%10; out /= 10 }` -/
def writeDigits (l : List Byte) (pos : Nat) : Nat → Nat → List Byte
  | 0, _ => l
  | k + 1, out => writeDigits (l.set (pos + k) (digit out)) pos k (out / 10)

theorem writeDigits_length (l : List Byte) (pos k out : Nat) : (writeDigits l pos k out).length = l.length := by
  induction k generalizing l out with
  | zero => rfl
  | succ k ih => simp [writeDigits, ih]

/-- writing k digits over positions [pos, pos+k) replaces exactly that segment, whatever was there -/
theorem writeDigits_spec (pos : Nat) : ∀ (k : Nat) (l : List Byte) (out : Nat), pos + k ≤ l.length →
    writeDigits l pos k out = l.take pos ++ digitsN k out ++ l.drop (pos + k) := by
  intro k
  induction k with
  | zero => intro l out _; simp [writeDigits, digitsN]
  | succ k ih =>
    intro l out h
    simp only [writeDigits, digitsN]
    rw [ih _ _ (by simp; omega)]
    have h1 : (l.set (pos + k) (digit out)).take pos = l.take pos := by
      rw [List.take_set_of_le (by omega)]
    have h2 : (l.set (pos + k) (digit out)).drop (pos + k) = digit out :: l.drop (pos + k + 1) := by
      rw [List.drop_set]
      simp only [Nat.lt_irrefl, ↓reduceIte, Nat.sub_self]
      have : pos + k < l.length := by omega
      rw [List.drop_eq_getElem_cons this, List.set_cons_zero]
    rw [h1, h2]
    simp [List.append_assoc, Nat.add_assoc]

def zeros (n : Nat) : List Byte := List.replicate n 48

/-- `for i := n; i < dE+n; i++ { b[outLen+i] = '0' }` as one segment write -/
def writeZeros (l : List Byte) (pos : Nat) : Nat → List Byte
  | 0 => l
  | k + 1 => writeZeros (l.set (pos + k) 48) pos k

theorem writeZeros_spec (pos : Nat) : ∀ (k : Nat) (l : List Byte), pos + k ≤ l.length →
    writeZeros l pos k = l.take pos ++ zeros k ++ l.drop (pos + k) := by
  intro k
  induction k with
  | zero => intro l _; simp [writeZeros, zeros]
  | succ k ih =>
    intro l h
    simp only [writeZeros]
    rw [ih _ (by simp; omega)]
    have h1 : (l.set (pos + k) 48).take pos = l.take pos := by rw [List.take_set_of_le (by omega)]
    have h2 : (l.set (pos + k) 48).drop (pos + k) = 48 :: l.drop (pos + k + 1) := by
      rw [List.drop_set]
      simp only [Nat.lt_irrefl, ↓reduceIte, Nat.sub_self]
      have : pos + k < l.length := by omega
      rw [List.drop_eq_getElem_cons this, List.set_cons_zero]
    rw [h1, h2]
    simp [zeros, List.replicate_succ', List.append_assoc, Nat.add_assoc]

/-- layout 1 (dE ≥ 0): digits then dE zeros -/
def layoutInt (b : Buf) (m outLen dE : Nat) (extra : List Byte) : Buf :=
  let n := b.content.length
  let b1 := sizeSlice b (dE + outLen) extra
  let c := writeZeros b1.content (n + outLen) dE     -- positions outLen+i for i in [n, n+dE)
  ⟨writeDigits c n outLen m, b1.spare⟩

theorem sizeSlice_content (b : Buf) (n : Nat) (extra : List Byte) :
    ∃ junk : List Byte, junk.length = n ∧ (sizeSlice b n extra).content = b.content ++ junk := by
  unfold sizeSlice
  split
  · rename_i h; exact ⟨b.spare.take n, by simp; omega, rfl⟩
  · exact ⟨List.replicate n 0, by simp, rfl⟩

/-- C16 (formatter, integer layout): the output is the old content followed by the digits and the zeros,
    for every buffer state — stale spare capacity is completely overwritten -/
theorem layoutInt_spec (b : Buf) (m outLen dE : Nat) (extra : List Byte) :
    (layoutInt b m outLen dE extra).content = b.content ++ digitsN outLen m ++ zeros dE := by
  unfold layoutInt
  simp only []
  obtain ⟨junk, hj, hc⟩ := sizeSlice_content b (dE + outLen) extra
  rw [hc]
  have hlen : (b.content ++ junk).length = b.content.length + (dE + outLen) := by simp [hj]
  rw [writeZeros_spec _ _ _ (by rw [hlen]; omega)]
  rw [writeDigits_spec _ _ _ _ (by simp [zeros, hj] <;> omega)]
  -- clean up the take/drop algebra
  have t1 : ((b.content ++ junk).take (b.content.length + outLen) ++ zeros dE ++
      (b.content ++ junk).drop (b.content.length + outLen + dE)).take b.content.length = b.content := by
    rw [List.append_assoc, List.take_append_of_le_length (by simp <;> omega), List.take_take]
    simp [Nat.min_def]
  have t2 : ((b.content ++ junk).take (b.content.length + outLen) ++ zeros dE ++
      (b.content ++ junk).drop (b.content.length + outLen + dE)).drop (b.content.length + outLen) = zeros dE := by
    have hl : ((b.content ++ junk).take (b.content.length + outLen)).length = b.content.length + outLen := by
      simp [hj] <;> omega
    rw [List.append_assoc, List.drop_append_of_le_length (by omega)]
    rw [List.drop_of_length_le (by omega)]
    have : (b.content ++ junk).drop (b.content.length + outLen + dE) = [] := by
      apply List.drop_of_length_le; rw [hlen]; omega
    simp [this]
  rw [t1, t2]

#print axioms layoutInt_spec
end AF
