import QF.Core.SorterPerm
/-! Prototype: sortedness of the insertion-sort regime of the mirror. -/
namespace Sorter

structure SWO (less : Nat → Nat → Bool) : Prop where
  asymm : ∀ a b, less a b = true → less b a = false
  le_trans : ∀ a b c, less b a = false → less c b = false → less c a = false

/-- value at position k (total) -/
@[inline] def at' (a : Ix) (k : Nat) : Nat := a[k]!

theorem sw_size (a : Ix) (i j : Nat) : (sw a i j).size = a.size := by
  unfold sw; split <;> simp

theorem at'_eq (a : Ix) (k : Nat) : at' a k = (a[k]?).getD 0 := by
  unfold at'
  rw [Array.getElem!_eq_getD, Array.getD_eq_getD_getElem?]
  rfl

theorem sw_at (a : Ix) (i j k : Nat) (hi : i < a.size) (hj : j < a.size) :
    at' (sw a i j) k = if k = j then at' a i else if k = i then at' a j else at' a k := by
  rw [at'_eq, at'_eq, at'_eq, at'_eq]
  unfold sw
  simp only [hi, hj, and_self, ↓reduceDIte]
  rw [Array.getElem?_swap]
  by_cases e1 : j = k
  · subst e1; simp [hi]
  · have e1' : k ≠ j := fun h => e1 h.symm
    by_cases e2 : i = k
    · subst e2; simp [e1, e1', hj]
    · have e2' : k ≠ i := fun h => e2 h.symm
      simp [e1, e2, e1', e2']

def Sorted (less : Nat → Nat → Bool) (a : Ix) (lo hi : Nat) : Prop :=
  ∀ i j, lo ≤ i → i < j → j < hi → less (at' a j) (at' a i) = false

theorem lt_eq (less : Nat → Nat → Bool) (a : Ix) (i j : Nat) : lt less a i j = less (at' a i) (at' a j) := rfl

/-- invariant of the inner loop of insertion sort at position j (element travelling down from i) -/
def InsInv (less : Nat → Nat → Bool) (a : Ix) (lo j i : Nat) : Prop :=
  Sorted less a lo j ∧ Sorted less a j (i + 1) ∧
  ∀ p q, lo ≤ p → p < j → j < q → q ≤ i → less (at' a q) (at' a p) = false

theorem insInner_sorted (less : Nat → Nat → Bool) (sw0 : SWO less) (lo i : Nat) :
    ∀ (j : Nat) (a : Ix), lo ≤ j → j ≤ i → i < a.size → InsInv less a lo j i →
      Sorted less (insInner less a lo j) lo (i + 1) := by
  intro j
  induction j with
  | zero =>
    intro a hlo hji his ⟨_, h2, _⟩
    have : lo = 0 := by omega
    subst this
    simpa [insInner] using h2
  | succ j ih =>
    intro a hlo hji his ⟨h1, h2, h3⟩
    unfold insInner
    by_cases hc : (decide (j + 1 > lo) && lt less a (j + 1) j) = true
    · simp only [hc, ↓reduceIte]
      simp only [Bool.and_eq_true, decide_eq_true_eq] at hc
      obtain ⟨hgt, hlt⟩ := hc
      rw [lt_eq] at hlt
      have hj1 : j + 1 < a.size := by omega
      have hj0 : j < a.size := by omega
      apply ih (sw a (j + 1) j) (by omega) (by omega) (by rw [sw_size]; exact his)
      have G : ∀ k, at' (sw a (j + 1) j) k = if k = j then at' a (j + 1) else if k = j + 1 then at' a j else at' a k :=
        fun k => sw_at a (j + 1) j k hj1 hj0
      refine ⟨?_, ?_, ?_⟩
      · intro p q hp hpq hq
        rw [G p, G q]
        have : p ≠ j ∧ p ≠ j + 1 ∧ q ≠ j ∧ q ≠ j + 1 := by omega
        simp only [this.1, this.2.1, this.2.2.1, this.2.2.2, ↓reduceIte]
        exact h1 p q hp hpq (by omega)
      · intro p q hp hpq hq
        rw [G p, G q]
        by_cases e1 : p = j
        · subst e1
          by_cases e2 : q = p + 1
          · subst e2; simp; exact sw0.asymm _ _ hlt
          · have : q ≠ p := by omega
            simp only [this, e2, ↓reduceIte]
            exact h2 (p + 1) q (by omega) (by omega) hq
        · by_cases e3 : p = j + 1
          · subst e3
            have : q ≠ j ∧ q ≠ j + 1 := by omega
            simp only [e1, this.1, this.2, ↓reduceIte]
            exact h3 j q (by omega) (by omega) (by omega) (by omega)
          · have : q ≠ j ∧ q ≠ j + 1 := by omega
            simp only [e1, e3, this.1, this.2, ↓reduceIte]
            exact h2 p q (by omega) hpq hq
      · intro p q hp hpj hjq hqi
        rw [G p, G q]
        have hp' : p ≠ j ∧ p ≠ j + 1 := by omega
        simp only [hp'.1, hp'.2, ↓reduceIte]
        by_cases e : q = j + 1
        · subst e
          have : j + 1 ≠ j := by omega
          simp only [this, ↓reduceIte]
          exact h1 p j hp hpj (by omega)
        · have : q ≠ j := by omega
          simp only [this, e, ↓reduceIte]
          exact h3 p q hp (by omega) (by omega) hqi
    · simp only [hc, Bool.false_eq_true, ↓reduceIte]
      -- stop: either j+1 = lo, or a[j+1] is not less than a[j]
      intro p q hp hpq hq
      by_cases hq1 : q < j + 1
      · exact h1 p q hp hpq hq1
      · by_cases hp1 : j + 1 ≤ p
        · exact h2 p q hp1 hpq hq
        · -- p < j+1 ≤ q
          have hgt : j + 1 > lo := by omega
          have hnl : less (at' a (j + 1)) (at' a j) = false := by
            have : lt less a (j + 1) j = false := by
              cases hv : lt less a (j + 1) j with
              | false => rfl
              | true => simp [hgt, hv] at hc
            simpa [lt_eq] using this
          by_cases hq2 : q = j + 1
          · subst hq2
            by_cases hp2 : p = j
            · subst hp2; exact hnl
            · exact sw0.le_trans _ _ _ (h1 p j hp (by omega) (by omega)) hnl
          · exact h3 p q hp (by omega) (by omega) (by omega)


/-- `a'` is obtained from `a` by rearranging the positions in [lo,hi) only -/
structure RangePres (a a' : Ix) (lo hi : Nat) : Prop where
  size : a'.size = a.size
  outside : ∀ k, (k < lo ∨ hi ≤ k) → at' a' k = at' a k
  pres : ∀ P : Nat → Prop, (∀ k, lo ≤ k → k < hi → P (at' a k)) → ∀ k, lo ≤ k → k < hi → P (at' a' k)

theorem RangePres.refl (a : Ix) (lo hi : Nat) : RangePres a a lo hi := ⟨rfl, fun _ _ => rfl, fun _ h => h⟩

theorem RangePres.trans {a b c : Ix} {lo hi : Nat} (h1 : RangePres a b lo hi) (h2 : RangePres b c lo hi) :
    RangePres a c lo hi :=
  ⟨h2.size.trans h1.size, fun k hk => (h2.outside k hk).trans (h1.outside k hk),
   fun P hP => h2.pres P (h1.pres P hP)⟩

theorem RangePres.mono {a b : Ix} {lo hi lo' hi' : Nat} (h : RangePres a b lo hi) (hl : lo' ≤ lo) (hh : hi ≤ hi') :
    RangePres a b lo' hi' := by
  refine ⟨h.size, fun k hk => h.outside k (by omega), fun P hP k hk1 hk2 => ?_⟩
  by_cases hin : lo ≤ k ∧ k < hi
  · exact h.pres P (fun k' a b => hP k' (by omega) (by omega)) k hin.1 hin.2
  · rw [h.outside k (by omega)]; exact hP k hk1 hk2

theorem sw_rangePres (a : Ix) (i j lo hi : Nat) (hi1 : lo ≤ i) (hi2 : i < hi) (hj1 : lo ≤ j) (hj2 : j < hi)
    (hsz : hi ≤ a.size) : RangePres a (sw a i j) lo hi := by
  have hia : i < a.size := by omega
  have hja : j < a.size := by omega
  refine ⟨sw_size a i j, fun k hk => ?_, fun P hP k hk1 hk2 => ?_⟩
  · rw [sw_at a i j k hia hja]
    have : k ≠ j ∧ k ≠ i := by omega
    simp [this.1, this.2]
  · rw [sw_at a i j k hia hja]
    split
    · exact hP i hi1 hi2
    · split
      · exact hP j hj1 hj2
      · exact hP k hk1 hk2

theorem insInner_rangePres (less : Nat → Nat → Bool) (lo hi : Nat) :
    ∀ (j : Nat) (a : Ix), lo ≤ j → j < hi → hi ≤ a.size → RangePres a (insInner less a lo j) lo hi := by
  intro j
  induction j with
  | zero => intro a _ _ _; simp [insInner]; exact RangePres.refl _ _ _
  | succ j ih =>
    intro a h1 h2 h3
    unfold insInner
    split
    · rename_i hc
      simp only [Bool.and_eq_true, decide_eq_true_eq] at hc
      have hs := sw_rangePres a (j + 1) j lo hi (by omega) h2 (by omega) (by omega) h3
      exact hs.trans (ih _ (by omega) (by omega) (by rw [sw_size]; exact h3))
    · exact RangePres.refl _ _ _

/-- generic fold lemma for loops `for i := s; i < s+n; i++ { a = step a i }` -/
theorem foldl_range'_inv {α : Type} (step : α → Nat → α) (Inv : Nat → α → Prop) :
    ∀ (n s : Nat) (a : α), Inv s a → (∀ i a, s ≤ i → i < s + n → Inv i a → Inv (i + 1) (step a i)) →
      Inv (s + n) ((List.range' s n).foldl step a) := by
  intro n
  induction n with
  | zero => intro s a h _; simpa using h
  | succ n ih =>
    intro s a h hstep
    simp only [List.range'_succ, List.foldl_cons]
    have := ih (s + 1) (step a s) (hstep s a (Nat.le_refl _) (by omega) h)
      (fun i a h1 h2 hi => hstep i a (by omega) (by omega) hi)
    rwa [show s + 1 + n = s + (n + 1) by omega] at this

theorem insertionSort_spec (less : Nat → Nat → Bool) (sw0 : SWO less) (a : Ix) (lo hi : Nat) (hlh : lo < hi)
    (hsz : hi ≤ a.size) :
    Sorted less (insertionSort less a lo hi) lo hi ∧ RangePres a (insertionSort less a lo hi) lo hi := by
  unfold insertionSort
  have key := foldl_range'_inv (fun a i => insInner less a lo i)
    (fun i b => Sorted less b lo i ∧ RangePres a b lo hi) (hi - (lo + 1)) (lo + 1) a
    ⟨by intro p q hp hpq hq; omega, RangePres.refl _ _ _⟩
    (by
      intro i b h1 h2 ⟨hs, hr⟩
      have hbsz : hi ≤ b.size := by rw [hr.size]; exact hsz
      refine ⟨?_, hr.trans (insInner_rangePres less lo hi i b (by omega) (by omega) hbsz)⟩
      apply insInner_sorted less sw0 lo i i b (by omega) (Nat.le_refl _) (by omega)
      exact ⟨hs, by intro p q hp hpq hq; omega, by intro p q _ hp hq hq2; omega⟩)
  rw [show lo + 1 + (hi - (lo + 1)) = hi by omega] at key
  exact key


/-- what quickSort needs from doPivot -/
def PivotSpec (less : Nat → Nat → Bool) : Prop :=
  ∀ (a : Ix) (lo hi : Nat), lo + 12 < hi → hi ≤ a.size →
    RangePres a (doPivot less a lo hi).1 lo hi ∧
    lo ≤ (doPivot less a lo hi).2.1 ∧ (doPivot less a lo hi).2.1 < (doPivot less a lo hi).2.2 ∧
    (doPivot less a lo hi).2.2 ≤ hi ∧
    (∀ i j, lo ≤ i → i < (doPivot less a lo hi).2.1 → (doPivot less a lo hi).2.1 ≤ j → j < hi →
        less (at' (doPivot less a lo hi).1 j) (at' (doPivot less a lo hi).1 i) = false) ∧
    (∀ i j, (doPivot less a lo hi).2.1 ≤ i → i < (doPivot less a lo hi).2.2 → i < j → j < hi →
        less (at' (doPivot less a lo hi).1 j) (at' (doPivot less a lo hi).1 i) = false)

/-- what quickSort needs from heapSort -/
def HeapSpec (less : Nat → Nat → Bool) : Prop :=
  ∀ (a : Ix) (lo hi : Nat), lo ≤ hi → hi ≤ a.size →
    Sorted less (heapSort less a lo hi) lo hi ∧ RangePres a (heapSort less a lo hi) lo hi

theorem shellPass_rangePres (less : Nat → Nat → Bool) (a : Ix) (lo hi : Nat) (hsz : hi ≤ a.size) :
    RangePres a ((List.range' (lo + 6) (hi - (lo + 6))).foldl (fun a i => if lt less a i (i - 6) then sw a i (i - 6) else a) a) lo hi := by
  by_cases h : lo + 6 ≤ hi
  · have key := foldl_range'_inv (fun a i => if lt less a i (i - 6) then sw a i (i - 6) else a)
      (fun _ b => RangePres a b lo hi) (hi - (lo + 6)) (lo + 6) a (RangePres.refl _ _ _)
      (by
        intro i b h1 h2 hr
        have hbsz : hi ≤ b.size := by rw [hr.size]; exact hsz
        split
        · exact hr.trans (sw_rangePres b i (i - 6) lo hi (by omega) (by omega) (by omega) (by omega) hbsz)
        · exact hr)
    exact key
  · have : hi - (lo + 6) = 0 := by omega
    rw [this]; simp; exact RangePres.refl _ _ _

/-- combining a partition with sorted sides -/
theorem sorted_of_partition (less : Nat → Nat → Bool) (sw0 : SWO less) (a1 a2 a3 : Ix) (lo mlo mhi hi : Nat)
    (h1 : lo ≤ mlo) (h2 : mlo < mhi) (h3 : mhi ≤ hi)
    (pl : ∀ i j, lo ≤ i → i < mlo → mlo ≤ j → j < hi → less (at' a1 j) (at' a1 i) = false)
    (pm : ∀ i j, mlo ≤ i → i < mhi → i < j → j < hi → less (at' a1 j) (at' a1 i) = false)
    (r12 : RangePres a1 a2 lo mlo) (s2 : Sorted less a2 lo mlo)
    (r23 : RangePres a2 a3 mhi hi) (s3 : Sorted less a3 mhi hi) :
    Sorted less a3 lo hi := by
  -- facts about a2
  have pl2 : ∀ i j, lo ≤ i → i < mlo → mlo ≤ j → j < hi → less (at' a2 j) (at' a2 i) = false := by
    intro i j hi1 hi2 hj1 hj2
    rw [r12.outside j (by omega)]
    exact r12.pres (fun x => ∀ j, mlo ≤ j → j < hi → less (at' a1 j) x = false)
      (fun k hk1 hk2 j hj1 hj2 => pl k j hk1 hk2 hj1 hj2) i hi1 hi2 j hj1 hj2
  have pm2 : ∀ i j, mlo ≤ i → i < mhi → i < j → j < hi → less (at' a2 j) (at' a2 i) = false := by
    intro i j hi1 hi2 hij hj2
    rw [r12.outside j (by omega), r12.outside i (by omega)]
    exact pm i j hi1 hi2 hij hj2
  -- facts about a3
  have lowEq : ∀ k, k < mhi → at' a3 k = at' a2 k := fun k hk => r23.outside k (by omega)
  have pl3 : ∀ i j, lo ≤ i → i < mlo → mlo ≤ j → j < hi → less (at' a3 j) (at' a3 i) = false := by
    intro i j hi1 hi2 hj1 hj2
    rw [lowEq i (by omega)]
    by_cases hjm : j < mhi
    · rw [lowEq j hjm]; exact pl2 i j hi1 hi2 hj1 hj2
    · exact r23.pres (fun y => less y (at' a2 i) = false)
        (fun k hk1 hk2 => pl2 i k hi1 hi2 (by omega) hk2) j (by omega) hj2
  have pm3 : ∀ i j, mlo ≤ i → i < mhi → i < j → j < hi → less (at' a3 j) (at' a3 i) = false := by
    intro i j hi1 hi2 hij hj2
    rw [lowEq i hi2]
    by_cases hjm : j < mhi
    · rw [lowEq j hjm]; exact pm2 i j hi1 hi2 hij hj2
    · exact r23.pres (fun y => less y (at' a2 i) = false)
        (fun k hk1 hk2 => pm2 i k hi1 hi2 (by omega) hk2) j (by omega) hj2
  intro i j hi1 hij hj2
  by_cases c1 : i < mlo
  · by_cases c2 : j < mlo
    · rw [lowEq i (by omega), lowEq j (by omega)]; exact s2 i j hi1 hij c2
    · exact pl3 i j hi1 c1 (by omega) hj2
  · by_cases c3 : i < mhi
    · exact pm3 i j (by omega) c3 hij hj2
    · exact s3 i j (by omega) hij hj2


/-- same, when the right side is sorted first -/
theorem sorted_of_partition' (less : Nat → Nat → Bool) (a1 a2 a3 : Ix) (lo mlo mhi hi : Nat)
    (h2 : mlo < mhi)
    (pl : ∀ i j, lo ≤ i → i < mlo → mlo ≤ j → j < hi → less (at' a1 j) (at' a1 i) = false)
    (pm : ∀ i j, mlo ≤ i → i < mhi → i < j → j < hi → less (at' a1 j) (at' a1 i) = false)
    (r12 : RangePres a1 a2 mhi hi) (s2 : Sorted less a2 mhi hi)
    (r23 : RangePres a2 a3 lo mlo) (s3 : Sorted less a3 lo mlo) :
    Sorted less a3 lo hi := by
  have lowEq2 : ∀ k, k < mhi → at' a2 k = at' a1 k := fun k hk => r12.outside k (by omega)
  have pl2 : ∀ i j, lo ≤ i → i < mlo → mlo ≤ j → j < hi → less (at' a2 j) (at' a2 i) = false := by
    intro i j hi1 hi2 hj1 hj2
    rw [lowEq2 i (by omega)]
    by_cases hjm : j < mhi
    · rw [lowEq2 j hjm]; exact pl i j hi1 hi2 hj1 hj2
    · exact r12.pres (fun y => less y (at' a1 i) = false) (fun k hk1 hk2 => pl i k hi1 hi2 (by omega) hk2) j (by omega) hj2
  have pm2 : ∀ i j, mlo ≤ i → i < mhi → i < j → j < hi → less (at' a2 j) (at' a2 i) = false := by
    intro i j hi1 hi2 hij hj2
    rw [lowEq2 i hi2]
    by_cases hjm : j < mhi
    · rw [lowEq2 j hjm]; exact pm i j hi1 hi2 hij hj2
    · exact r12.pres (fun y => less y (at' a1 i) = false) (fun k hk1 hk2 => pm i k hi1 hi2 (by omega) hk2) j (by omega) hj2
  have hiEq : ∀ k, mlo ≤ k → at' a3 k = at' a2 k := fun k hk => r23.outside k (by omega)
  have pl3 : ∀ i j, lo ≤ i → i < mlo → mlo ≤ j → j < hi → less (at' a3 j) (at' a3 i) = false := by
    intro i j hi1 hi2 hj1 hj2
    rw [hiEq j hj1]
    exact r23.pres (fun x => ∀ j, mlo ≤ j → j < hi → less (at' a2 j) x = false)
      (fun k hk1 hk2 j hj1 hj2 => pl2 k j hk1 hk2 hj1 hj2) i hi1 hi2 j hj1 hj2
  intro i j hi1 hij hj2
  by_cases c1 : i < mlo
  · by_cases c2 : j < mlo
    · exact s3 i j hi1 hij c2
    · exact pl3 i j hi1 c1 (by omega) hj2
  · rw [hiEq i (by omega), hiEq j (by omega)]
    by_cases c3 : i < mhi
    · exact pm2 i j (by omega) c3 hij hj2
    · exact s2 i j (by omega) hij hj2

/-- C03 (conditional on the two component specs): quickSort sorts its range and touches nothing else. -/
theorem quickSort_spec (less : Nat → Nat → Bool) (sw0 : SWO less) (hp : PivotSpec less) (hh : HeapSpec less) :
    ∀ (fuel : Nat) (a : Ix) (lo hi depth : Nat), lo ≤ hi → hi ≤ a.size → hi - lo < fuel →
      Sorted less (quickSort less fuel a lo hi depth) lo hi ∧ RangePres a (quickSort less fuel a lo hi depth) lo hi := by
  intro fuel
  induction fuel with
  | zero => intro a lo hi depth _ _ h; omega
  | succ n ih =>
    intro a lo hi depth hlh hsz hf
    unfold quickSort
    by_cases c12 : hi - lo > 12
    · simp only [c12, ↓reduceIte]
      by_cases cd : depth = 0
      · simp only [cd, ↓reduceIte]; exact hh a lo hi hlh hsz
      · simp only [cd, ↓reduceIte]
        obtain ⟨rp, b1, b2, b3, pl, pm⟩ := hp a lo hi (by omega) hsz
        generalize doPivot less a lo hi = r at rp b1 b2 b3 pl pm
        obtain ⟨a1, mlo, mhi⟩ := r
        simp only at rp b1 b2 b3 pl pm ⊢
        have hsz1 : hi ≤ a1.size := by rw [rp.size]; exact hsz
        by_cases cs : mlo - lo < hi - mhi
        · simp only [cs, ↓reduceIte]
          obtain ⟨sL, rL⟩ := ih a1 lo mlo (depth - 1) b1 (by omega) (by omega)
          have hszL : hi ≤ (quickSort less n a1 lo mlo (depth - 1)).size := by rw [rL.size]; exact hsz1
          obtain ⟨sR, rR⟩ := ih (quickSort less n a1 lo mlo (depth - 1)) mhi hi (depth - 1) b3 hszL (by omega)
          exact ⟨sorted_of_partition less sw0 a1 _ _ lo mlo mhi hi b1 b2 b3 pl pm rL sL rR sR,
            rp.trans ((rL.mono (Nat.le_refl _) (by omega)).trans (rR.mono (by omega) (Nat.le_refl _)))⟩
        · simp only [cs, ↓reduceIte]
          obtain ⟨sR, rR⟩ := ih a1 mhi hi (depth - 1) b3 hsz1 (by omega)
          have hszR : mlo ≤ (quickSort less n a1 mhi hi (depth - 1)).size := by rw [rR.size]; omega
          obtain ⟨sL, rL⟩ := ih (quickSort less n a1 mhi hi (depth - 1)) lo mlo (depth - 1) b1 hszR (by omega)
          exact ⟨sorted_of_partition' less a1 _ _ lo mlo mhi hi b2 pl pm rR sR rL sL,
            rp.trans ((rR.mono (by omega) (Nat.le_refl _)).trans (rL.mono (Nat.le_refl _) (by omega)))⟩
    · simp only [c12, ↓reduceIte]
      by_cases c1 : hi - lo > 1
      · simp only [c1, ↓reduceIte]
        have rs := shellPass_rangePres less a lo hi hsz
        have hsz' : hi ≤ ((List.range' (lo + 6) (hi - (lo + 6))).foldl (fun a i => if lt less a i (i - 6) then sw a i (i - 6) else a) a).size := by
          rw [rs.size]; exact hsz
        obtain ⟨si, ri⟩ := insertionSort_spec less sw0 _ lo hi (by omega) hsz'
        exact ⟨si, rs.trans ri⟩
      · simp only [c1, ↓reduceIte]
        exact ⟨by intro i j h1 h2 h3; omega, RangePres.refl _ _ _⟩

/-- the top-level statement for `sort` -/
theorem sort_sorted (less : Nat → Nat → Bool) (sw0 : SWO less) (hp : PivotSpec less) (hh : HeapSpec less) (ix : Ix) :
    Sorted less (sort less ix) 0 ix.size :=
  (quickSort_spec less sw0 hp hh (ix.size + 2) ix 0 ix.size (maxDepth ix.size) (Nat.zero_le _) (Nat.le_refl _) (by omega)).1

#print axioms sort_sorted
end Sorter
