import QF.Spec.Basic
/-!
# CT — the column constructors that `createColumn` calls as primitives, and their Go semantics

    /repo/internal/scolumn/column.go      func NewBytes(pointers []qfstrings.Pointer, bytes []byte) Column
                                          func NewStrings(strings []string) Column
                                          func New(strings []*string) Column
                                          func NewConst(val *string, count int) Column
    /repo/internal/{i,f,b}column/column_gen.go   func New(d []T) Column · func NewConst(val T, count int) Column

go/cmd/extract/ctorast.go translates these bodies on every run and writes the terms to `QF/Gen/Ctors.lean`.

Terms name things by ROLE, never by Go identifier: the functions by their signature (`([]*string) Column`, `([]string)
Column`, `(*string, int) Column`, `([]Pointer, []byte) Column`, `([]T) Column`, `(T, int) Column`), the fields of the
`Column` struct by their types (`[]qfstrings.Pointer`, `[]byte`, `[]T`), the locals by what they are made as (`make([]byte,
0, …)` / `var … []byte`: the data buffer; `make([]qfstrings.Pointer, n)`: the pointer array; the `int` initialised in
front of the loop: the running offset; a local bound to `len(*s)`: that length), the string of the round by the `range`.

## What the semantics models

A `[]byte` is the list of its bytes; capacities are not modelled (`append` returns the longer list; nothing else holds the
buffer while the constructor runs). `pointers[i] = …` outside the array, `*s` of a nil pointer are run-time panics: no
value. `qfstrings.NewPointer` is a parameter `np` of the semantics (its regenerated meaning is QF/Props/C08PointerGen.lean);
`int` arithmetic on offsets and lengths is that of ℕ (they are lengths of slices that exist).
-/
namespace QF.CT

/-- Integer expressions of the string constructors. -/
inductive IE where
  /-- the running offset -/
  | offset
  | lit (n : Nat)
  /-- `len(*s)` / `len(s)` for the string of this round (or a local bound to it) -/
  | lenCur
  /-- `len(*val)` for the constant (or a local bound to it) -/
  | lenVal
  /-- `len(data)` for the data buffer -/
  | lenData
  deriving DecidableEq, Repr, Inhabited

/-- The body of a loop over the cells (or over the pointer array), statement by statement; `if` copies what follows it
into both branches. -/
inductive CB where
  /-- `pointers[i] = qfstrings.NewPointer(off, len, isNull)`, `i` the position of the round -/
  | setPtr (off len : IE) (isNull : Bool) (k : CB)
  /-- `offset += e` -/
  | addOffset (e : IE) (k : CB)
  /-- `data = append(data, *s...)` / `append(data, s...)` for the string of this round -/
  | appendCur (k : CB)
  /-- `if s == nil { t } else { e }` for the pointer of this round -/
  | ifNil (t e : CB)
  | done
  | opaque (txt : String)
  deriving DecidableEq, Repr, Inhabited

/-- The length an array is made with. -/
inductive PLen where
  /-- `len(strings)` -/
  | lenCells
  /-- the `int` parameter -/
  | count
  deriving DecidableEq, Repr, Inhabited

/-- The statements of a string constructor. -/
inductive CN where
  /-- `data := make([]byte, 0[, …])` / `var data []byte` / `data = make([]byte, 0[, …])` -/
  | makeData (k : CN)
  /-- `pointers := make([]qfstrings.Pointer, n)` -/
  | makePointers (n : PLen) (k : CN)
  /-- `offset := n` -/
  | initOffset (n : Nat) (k : CN)
  /-- `for i, s := range strings { body }` -/
  | rangeCells (body : CB) (k : CN)
  /-- `for i := range pointers { body }` -/
  | rangePointers (body : CB) (k : CN)
  /-- `if val == nil { t } else { e }` -/
  | ifValNil (t e : CN)
  /-- `data = append(data, *val...)` -/
  | appendVal (k : CN)
  /-- `return <the function ([]Pointer, []byte) Column>(pointers, data)` -/
  | retBytes
  | opaque (txt : String)
  deriving DecidableEq, Repr, Inhabited

/-- Where a field of `Column{…}` of the function `([]Pointer, []byte) Column` comes from. -/
inductive BSrc where
  | ptrParam
  | bytesParam
  | zero
  deriving DecidableEq, Repr, Inhabited

/-- `NewBytes`: `return Column{<pointers>: p, <data>: d}` -/
inductive NB where
  | ret (pointers data : BSrc)
  | opaque (txt : String)
  deriving DecidableEq, Repr, Inhabited

/-- The statements of the constructors of the int / float / bool columns. -/
inductive NC where
  /-- `data := make([]T, count)` -/
  | makeCells (k : NC)
  /-- `for i := range data { data[i] = val }` -/
  | fillVal (k : NC)
  /-- `return Column{<cells>: <the local slice>}` -/
  | retLocal
  /-- `return Column{<cells>: <the slice parameter>}` -/
  | retParam
  | opaque (txt : String)
  deriving DecidableEq, Repr, Inhabited

/-! ## Go semantics -/

/-- The locals of a string constructor. `none`: not declared yet. -/
structure St where
  data : Option Bytes := none
  ptrs : Option (List Nat) := none
  offset : Option Nat := none
  deriving Repr, Inhabited

/-- The arguments: `strings` (for `[]string`: no element is nil), or `val`, `count`. -/
structure In where
  cells : List (Option Bytes) := []
  val : Option Bytes := none
  count : Nat := 0

/-- `cur`: the string of the round, `none` when the loop has none (`for i := range pointers`), `some none`: a nil pointer. -/
def IE.eval (I : In) (σ : St) (cur : Option (Option Bytes)) : IE → Option Nat
  | .offset => σ.offset
  | .lit n => some n
  | .lenCur => match cur with | some (some s) => some s.length | _ => none
  | .lenVal => match I.val with | some s => some s.length | none => none
  | .lenData => σ.data.map (·.length)

def CB.run (np : Nat → Nat → Bool → Option Nat) (I : In) (i : Nat) (cur : Option (Option Bytes)) : CB → St → Option St
  | .setPtr off len isNull k, σ =>
    match off.eval I σ cur, len.eval I σ cur, σ.ptrs with
    | some o, some l, some ps =>
      match np o l isNull with
      | some p => if i < ps.length then k.run np I i cur { σ with ptrs := some (ps.set i p) } else none
      | none => none
    | _, _, _ => none
  | .addOffset e k, σ =>
    match e.eval I σ cur, σ.offset with
    | some x, some o => k.run np I i cur { σ with offset := some (o + x) }
    | _, _ => none
  | .appendCur k, σ =>
    match cur, σ.data with
    | some (some s), some d => k.run np I i cur { σ with data := some (d ++ s) }
    | _, _ => none
  | .ifNil t e, σ =>
    match cur with
    | some none => t.run np I i cur σ
    | some (some _) => e.run np I i cur σ
    | none => none
  | .done, σ => some σ
  | .opaque _, _ => none

/-- the rounds `i, i+1, …` over the cells that are left -/
def loopCells (np : Nat → Nat → Bool → Option Nat) (I : In) (body : CB) : Nat → List (Option Bytes) → St → Option St
  | _, [], σ => some σ
  | i, c :: cs, σ =>
    match body.run np I i (some c) σ with
    | some σ' => loopCells np I body (i + 1) cs σ'
    | none => none

/-- the rounds `i, i+1, …, i+n-1` of `for i := range pointers` (the length is taken when the loop starts) -/
def loopN (np : Nat → Nat → Bool → Option Nat) (I : In) (body : CB) : Nat → Nat → St → Option St
  | _, 0, σ => some σ
  | i, n + 1, σ =>
    match body.run np I i none σ with
    | some σ' => loopN np I body (i + 1) n σ'
    | none => none

/-- The result: the arguments the function `([]Pointer, []byte) Column` is called with. -/
def CN.run (np : Nat → Nat → Bool → Option Nat) (I : In) : CN → St → Option (List Nat × Bytes)
  | .makeData k, σ => k.run np I { σ with data := some [] }
  | .makePointers n k, σ =>
    k.run np I { σ with ptrs := some (List.replicate (match n with | .lenCells => I.cells.length | .count => I.count) 0) }
  | .initOffset n k, σ => k.run np I { σ with offset := some n }
  | .rangeCells body k, σ =>
    match loopCells np I body 0 I.cells σ with
    | some σ' => k.run np I σ'
    | none => none
  | .rangePointers body k, σ =>
    match σ.ptrs with
    | some ps =>
      match loopN np I body 0 ps.length σ with
      | some σ' => k.run np I σ'
      | none => none
    | none => none
  | .ifValNil t e, σ =>
    match I.val with
    | none => t.run np I σ
    | some _ => e.run np I σ
  | .appendVal k, σ =>
    match I.val, σ.data with
    | some s, some d => k.run np I { σ with data := some (d ++ s) }
    | _, _ => none
  | .retBytes, σ =>
    match σ.ptrs, σ.data with
    | some ps, some d => some (ps, d)
    | _, _ => none
  | .opaque _, _ => none

/-- A string column: the pointer array and the data buffer. -/
structure SCol where
  ptrs : List Nat
  data : Bytes
  deriving DecidableEq, Repr, Inhabited

def NB.run (ptrs : List Nat) (bytes : Bytes) : NB → Option SCol
  | .ret p d =>
    match p, d with
    | .ptrParam, .bytesParam => some { ptrs := ptrs, data := bytes }
    | .ptrParam, .zero => some { ptrs := ptrs, data := [] }
    | .zero, .bytesParam => some { ptrs := [], data := bytes }
    | .zero, .zero => some { ptrs := [], data := [] }
    | _, _ => none
  | .opaque _ => none

/-- A string constructor, its `return` through the function `([]Pointer, []byte) Column`. -/
def runString (np : Nat → Nat → Bool → Option Nat) (nb : NB) (I : In) (t : CN) : Option SCol :=
  match t.run np I {} with
  | some (ps, d) => nb.run ps d
  | none => none

/-- The constructors of the columns with one slice of cells: `d` the slice parameter, `val`, `count` the constant and its
count, `zero` the zero value of the element type. -/
def NC.run {α : Type} (zero : α) (d : List α) (val : α) (count : Nat) : NC → Option (List α) → Option (List α)
  | .makeCells k, none => k.run zero d val count (some (List.replicate count zero))
  | .makeCells _, some _ => none
  | .fillVal k, some l => k.run zero d val count (some (l.map fun _ => val))
  | .fillVal _, none => none
  | .retLocal, l => l
  | .retParam, _ => some d
  | .opaque _, _ => none

def CB.hasOpaque : CB → Bool
  | .opaque _ => true
  | .setPtr _ _ _ k | .addOffset _ k | .appendCur k => k.hasOpaque
  | .ifNil t e => t.hasOpaque || e.hasOpaque
  | .done => false

def CN.hasOpaque : CN → Bool
  | .opaque _ => true
  | .makeData k | .makePointers _ k | .initOffset _ k | .appendVal k => k.hasOpaque
  | .rangeCells b k | .rangePointers b k => b.hasOpaque || k.hasOpaque
  | .ifValNil t e => t.hasOpaque || e.hasOpaque
  | .retBytes => false

def NB.hasOpaque : NB → Bool
  | .opaque _ => true
  | _ => false

def NC.hasOpaque : NC → Bool
  | .opaque _ => true
  | .makeCells k | .fillVal k => k.hasOpaque
  | _ => false

end QF.CT
