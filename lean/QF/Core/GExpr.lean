import QF.Spec.Ops
/-!
# GStep — the language of guard chains (which requests an operation rejects), and its Go semantics

The projection operations of /repo/qframe.go begin with a chain of guards before the real work starts:

    func (qf QFrame) Slice(start, end int) QFrame {
        if qf.Err != nil { return qf }
        if start < 0 { return qf.withErr(…) }
        if start > end { return qf.withErr(…) }
        if end > qf.Len() { return qf.withErr(…) }
        return qf.withIndex(qf.index[start:end])          -- the real work
    }

The extractor (go/cmd/extract/gast.go) translates this prefix of `Slice`, `Select`, `Drop`, `Copy` and `New` of /repo's
current source into a list of `GStep` and writes it to `QF/Gen/Guards.lean` on every run; `QFrame.Len` becomes a list of
`IStep` (guards that return an int), `CheckName` of internal/strings (with `isQuoted` inlined) a list of `NStep` over the
bytes of the name.

Terms name the parts of a request by ROLE, never by identifier: `start` / `stop` are the first / second int parameter,
`dst` / `src` the first / second name parameter, `columns` the variadic names, `each` the variable of the enclosing
`for … range` loop; `x < y` and `y > x` are the same condition (`lt x y`), `x >= y` is `le y x`, `x != y` is
`not (eqI x y)`. Helper methods that return an `error` (`checkColumns`) and tail calls that forward the request
(`Copy` → `setColumn`) are inlined, so a guard reads the same wherever it is written.

Evaluation is against an abstract request `GReq`; the first guard that fires decides the outcome, otherwise the chain
ends in `ok` (the real work starts). A term containing `.opaque` has no value (`none`).

The same language covers the remaining public operations of qframe.go and grouper.go (`QF.Gen.guardAst2`, proved in
QF/Props/C10Guards.lean): `Sort`, `Distinct`, `GroupBy`, `Grouper.Aggregate`, `Grouper.QFrames`, the three helpers `Apply`
dispatches to, `FilteredApply`, `Eval`, `Filter` / `filter`, `Equals`, `ToCSV`, `ToJSON`, `ToSQL`, `ReadCSV`, `ReadJSON`,
`ReadSQLWithArgs`. There the prefix may step over WORK — statements without a `return` that do not assign to the
receiver — and a loop may contain work and further error returns (`forEachWork`). `Apply` itself is a loop without guards:
`ApplyAst` / `IDisp` hold its per-instruction dispatch.
-/
namespace QF

/-! ## Names: `CheckName` -/

inductive NInt where
  /-- `len(name)` (bytes) -/
  | len
  | lit (n : Nat)
  deriving DecidableEq, Repr, Inhabited

/-- Conditions on the bytes of one name. -/
inductive NCond where
  /-- `a < b` (`b > a`) -/
  | lt (a b : NInt)
  /-- `a <= b` (`b >= a`) -/
  | le (a b : NInt)
  /-- `a == b` -/
  | eqI (a b : NInt)
  /-- `strings.HasPrefix(name, lit)` -/
  | hasPrefix (lit : Bytes)
  /-- `strings.HasSuffix(name, lit)` -/
  | hasSuffix (lit : Bytes)
  | not (c : NCond)
  | and (c d : NCond)
  | or (c d : NCond)
  | opaque (txt : String)
  deriving DecidableEq, Repr, Inhabited

/-- One statement of `func CheckName(name string) error`. -/
inductive NStep where
  /-- `if c { return <a non-nil error> }` -/
  | reject (c : NCond)
  /-- `return nil` -/
  | accept
  | opaque (txt : String)
  deriving DecidableEq, Repr, Inhabited

def NInt.eval (s : Bytes) : NInt → Nat
  | .len => s.length
  | .lit n => n

def NCond.eval (s : Bytes) : NCond → Option Bool
  | .lt a b => some (decide (a.eval s < b.eval s))
  | .le a b => some (decide (a.eval s ≤ b.eval s))
  | .eqI a b => some (a.eval s == b.eval s)
  | .hasPrefix l => some (l.isPrefixOf s)
  | .hasSuffix l => some (l.isSuffixOf s)
  | .not c => (c.eval s).map (!·)
  | .and c d =>
    match c.eval s, d.eval s with
    | some a, some b => some (a && b)
    | _, _ => none
  | .or c d =>
    match c.eval s, d.eval s with
    | some a, some b => some (a || b)
    | _, _ => none
  | .opaque _ => none

/-- Does `CheckName(s)` return an error? `none`: the chain has no meaning (opaque, or a path without `return`). -/
def runName : List NStep → Bytes → Option Bool
  | [], _ => none
  | .accept :: _, _ => some false
  | .opaque _ :: _, _ => none
  | .reject c :: ss, s =>
    match c.eval s with
    | some true => some true
    | some false => runName ss s
    | none => none

def NCond.hasOpaque : NCond → Bool
  | .opaque _ => true
  | .not c => c.hasOpaque
  | .and c d | .or c d => c.hasOpaque || d.hasOpaque
  | _ => false

def NStep.hasOpaque : NStep → Bool
  | .opaque _ => true
  | .reject c => c.hasOpaque
  | .accept => false

/-! ## Requests -/

/-- The names a condition can speak about, by role. -/
inductive GRole where
  /-- the first name parameter (`Copy(dstCol, _)`; the name parameter of `setColumn`) -/
  | dst
  /-- the second name parameter (`Copy(_, srcCol)`) -/
  | src
  /-- the variable of the enclosing loop (for a loop over structs — `Order`, `Aggregation`, `filter.Filter` — its `Column` field) -/
  | each
  /-- the third name parameter (`apply2(_, _, _, srcCol2)`) -/
  | src2
  deriving DecidableEq, Repr, Inhabited

/-- The collections of names a loop can range over. -/
inductive GColl where
  /-- the variadic parameter of `Select` / `Drop` -/
  | columns
  /-- the keys of `New`'s `data` map -/
  | dataKeys
  /-- `config.ColumnOrder` of `New` -/
  | order
  /-- the `Column` fields of the variadic `Order` parameter of `Sort` -/
  | orderCols
  /-- `config.Columns` of a `groupby.Config` (`Distinct`, `GroupBy`) -/
  | groupCols
  /-- the `Column` fields of the variadic `Aggregation` parameter of `Grouper.Aggregate` -/
  | aggCols
  /-- the `Column` fields of the variadic `filter.Filter` parameter of `QFrame.filter` -/
  | filterCols
  /-- `conf.Columns` of a `csv.ToConfig` (`ToCSV`); may be nil (`GCond.given`) -/
  | csvCols
  deriving DecidableEq, Repr, Inhabited

inductive GInt where
  /-- the first int parameter (`Slice(start, _)`) -/
  | start
  /-- the second int parameter (`Slice(_, end)`) -/
  | stop
  | lit (n : Int)
  /-- `qf.Len()` (its meaning is that of the extracted `QFrame.Len`, see `GEnv.lenOf`) -/
  | len
  /-- `qf.index.Len()` -/
  | indexLen
  /-- `len(columns)`, `len(data)`, `len(config.ColumnOrder)` -/
  | count (c : GColl)
  /-- `len(qf.columns)` — the slice field of `type QFrame struct` -/
  | colCount
  /-- `len(other.index)` (`Equals(other QFrame)`) -/
  | otherIndexLen
  /-- `len(other.columns)` -/
  | otherColCount
  deriving DecidableEq, Repr, Inhabited

/-- Guard conditions, by role. -/
inductive GCond where
  /-- `a < b` (`b > a`) -/
  | lt (a b : GInt)
  /-- `a <= b` (`b >= a`) -/
  | le (a b : GInt)
  /-- `a == b` -/
  | eqI (a b : GInt)
  /-- `qf.Err != nil` -/
  | qfHasErr
  /-- `_, ok := qf.columnsByName[r]; !ok` — the map field is found by its type in `type QFrame struct` -/
  | unknownColumn (r : GRole)
  /-- `_, ok := data[r]; !ok` (`New`) -/
  | notInData (r : GRole)
  /-- `dstCol == srcCol` -/
  | sameName
  /-- `err := CheckName(r); err != nil` — `CheckName` is whatever function of internal/strings is called -/
  | nameCheckFails (r : GRole)
  /-- `g.Err != nil` for a `Grouper` receiver -/
  | grouperHasErr
  /-- `conf.Columns != nil` -/
  | given (c : GColl)
  /-- `…, err := <k-th call outside the package that yields an error>; err != nil` (`ReadCSV`, `ReadJSON`, `ReadSQLWithArgs`) -/
  | extFails (k : Nat)
  /-- inside `for i, s := range qf.columns { o := other.columns[i]; … }`: `s.name != o.name` -/
  | pairNameDiffers
  /-- … : `!s.Equals(qf.index, o.Column, other.index)` — decided by the per-type column code -/
  | pairContentDiffers
  | not (c : GCond)
  | and (c d : GCond)
  | or (c d : GCond)
  | opaque (txt : String)
  deriving DecidableEq, Repr, Inhabited

/-- `start < 0` -/
abbrev GCond.startLtZero : GCond := .lt .start (.lit 0)
/-- `start > end` -/
abbrev GCond.startGtEnd : GCond := .lt .stop .start
/-- `end > qf.Len()` -/
abbrev GCond.endGtLen : GCond := .lt .len .stop
/-- `len(columns) == 0` -/
abbrev GCond.noColumns : GCond := .eqI (.count .columns) (.lit 0)

/-- What a fired guard does. -/
inductive GOut where
  /-- `return qf.withErr(e)` / `return QFrame{Err: e}` with a non-nil `e` -/
  | err
  /-- `return qf` -/
  | returnSelf
  /-- `return QFrame{…}` without an error; also the end of the chain: the real work starts -/
  | ok
  /-- `return T{Err: recv.Err}` / `return nil, g.Err` inside `if recv.Err != nil`: a fresh result that carries the receiver's error -/
  | carryErr
  /-- `return false, …` (`Equals`) -/
  | retFalse
  /-- `return true, …` -/
  | retTrue
  deriving DecidableEq, Repr, Inhabited

inductive GStep where
  /-- `if c { return o }` -/
  | guard (c : GCond) (o : GOut)
  /-- `for _, x := range coll { if c { return o } }` (`c` may mention `each`) -/
  | forEach (coll : GColl) (c : GCond) (o : GOut)
  /-- `if len(order) == 0 { order = the keys of data, in some order }` (`New`) -/
  | defaultOrder
  /-- `for _, x := range coll { …; if c { return o }; … }` where `o` is an error, the other statements of the body do
  not assign to the receiver, and EVERY other `return` in the body returns an error as well (they are counted in
  `lateErrors2`): if `c` holds for some element the operation ends in an error -/
  | forEachWork (coll : GColl) (c : GCond) (o : GOut)
  /-- `if pre { if c { return o } … }` -/
  | guardIf (pre c : GCond) (o : GOut)
  /-- `if pre { for … range coll { if c { return o } } … }` -/
  | forEachIf (pre : GCond) (coll : GColl) (c : GCond) (o : GOut)
  /-- `r := qf.op(<the request's parameters>); if r.Err != nil { return r }` (`FilteredApply`: `op` = Filter) -/
  | subFails (op : String)
  /-- `for i, s := range qf.columns { o := other.columns[i]; if c { return out } }` (`Equals`) -/
  | forEachPair (c : GCond) (o : GOut)
  /-- `return …` unconditionally: the whole function was translated -/
  | done (o : GOut)
  | opaque (txt : String)
  deriving DecidableEq, Repr, Inhabited

/-- One statement of an int-valued method (`QFrame.Len`). -/
inductive IStep where
  /-- `if c { return v }` -/
  | guard (c : GCond) (v : GInt)
  /-- `return v` -/
  | ret (v : GInt)
  | opaque (txt : String)
  deriving DecidableEq, Repr, Inhabited

/-- An abstract request: the frame as far as guards can see it, and the arguments. -/
structure GReq where
  /-- `qf.Err != nil` -/
  hasErr : Bool := false
  /-- `qf.index.Len()` -/
  rows : Nat := 0
  /-- the keys of `qf.columnsByName` -/
  known : Bytes → Bool := fun _ => false
  start : Int := 0
  stop : Int := 0
  columns : List Bytes := []
  dst : Bytes := []
  src : Bytes := []
  /-- `New`: the keys of `data` -/
  dataNames : List Bytes := []
  /-- `New`: `config.ColumnOrder` -/
  order : List Bytes := []
  src2 : Bytes := []
  /-- `Sort`: the `Column` of each order -/
  orderCols : List Bytes := []
  /-- `Distinct` / `GroupBy`: `config.Columns` -/
  groupCols : List Bytes := []
  /-- `Aggregate`: the `Column` of each aggregation -/
  aggCols : List Bytes := []
  /-- `filter`: the `Column` of each filter -/
  filterCols : List Bytes := []
  /-- `ToCSV`: `conf.Columns` and whether it is not nil -/
  csvCols : List Bytes := []
  csvGiven : Bool := false
  /-- `g.Err != nil` (a `Grouper` receiver; its name map is `known`) -/
  grouperErr : Bool := false
  /-- the names of `qf.columns`, in order -/
  colNames : List Bytes := []
  /-- `Equals`: `len(other.index)`, the names of `other.columns`, and what the column code says about the columns at position `i` -/
  otherRows : Nat := 0
  otherNames : List Bytes := []
  contentDiffers : Nat → Bool := fun _ => false
  /-- did the `k`-th call outside the package return an error? -/
  extFails : Nat → Bool := fun _ => false
  /-- `subFails op`: what `qf.op(…)` does on this request — `returnSelf`, `err`, or `ok` (a frame without error) -/
  subOut : Option GOut := none
  /-- … when its guard prefix lets the request through: does its real work end in an error? -/
  subWorkFails : Bool := false

def GReq.coll (q : GReq) : GColl → List Bytes
  | .columns => q.columns
  | .dataKeys => q.dataNames
  | .order => q.order
  | .orderCols => q.orderCols
  | .groupCols => q.groupCols
  | .aggCols => q.aggCols
  | .filterCols => q.filterCols
  | .csvCols => q.csvCols

def GReq.isGiven (q : GReq) : GColl → Bool
  | .csvCols => q.csvGiven
  | _ => true

def GReq.name (q : GReq) (each : Option Bytes) : GRole → Option Bytes
  | .dst => some q.dst
  | .src => some q.src
  | .each => each
  | .src2 => some q.src2

/-- The meaning of the two functions a guard may call. -/
structure GEnv where
  /-- `CheckName(s) != nil` -/
  nameFails : Bytes → Option Bool
  /-- `qf.Len()` -/
  lenOf : GReq → Option Int

def GInt.eval (E : GEnv) (q : GReq) : GInt → Option Int
  | .start => some q.start
  | .stop => some q.stop
  | .lit n => some n
  | .len => E.lenOf q
  | .indexLen => some (q.rows : Int)
  | .count c => some ((q.coll c).length : Int)
  | .colCount => some (q.colNames.length : Int)
  | .otherIndexLen => some (q.otherRows : Int)
  | .otherColCount => some (q.otherNames.length : Int)

def GCond.eval (E : GEnv) (q : GReq) (each : Option Bytes) : GCond → Option Bool
  | .lt a b =>
    match a.eval E q, b.eval E q with
    | some x, some y => some (decide (x < y))
    | _, _ => none
  | .le a b =>
    match a.eval E q, b.eval E q with
    | some x, some y => some (decide (x ≤ y))
    | _, _ => none
  | .eqI a b =>
    match a.eval E q, b.eval E q with
    | some x, some y => some (x == y)
    | _, _ => none
  | .qfHasErr => some q.hasErr
  | .unknownColumn r => (q.name each r).map (fun n => !q.known n)
  | .notInData r => (q.name each r).map (fun n => !q.dataNames.contains n)
  | .sameName => some (q.dst == q.src)
  | .nameCheckFails r => (q.name each r).bind E.nameFails
  | .grouperHasErr => some q.grouperErr
  | .given c => some (q.isGiven c)
  | .extFails k => some (q.extFails k)
  | .pairNameDiffers => none
  | .pairContentDiffers => none
  | .not c => (c.eval E q each).map (!·)
  | .and c d =>
    match c.eval E q each, d.eval E q each with
    | some a, some b => some (a && b)
    | _, _ => none
  | .or c d =>
    match c.eval E q each, d.eval E q each with
    | some a, some b => some (a || b)
    | _, _ => none
  | .opaque _ => none

/-- Does the body of a loop fire for one of the elements (in order)? -/
def anyFires (c : Bytes → Option Bool) : List Bytes → Option Bool
  | [] => some false
  | x :: xs =>
    match c x with
    | some true => some true
    | some false => anyFires c xs
    | none => none

/-- A condition inside `for i, s := range qf.columns { o := other.columns[i]; … }` at position `i`: `a` is the name of
`s`, `b` that of `o` — `none` beyond the end of `other.columns`, where Go panics. -/
def GCond.evalPair (E : GEnv) (q : GReq) (i : Nat) (a : Bytes) (b : Option Bytes) : GCond → Option Bool
  | .pairNameDiffers => b.map (fun n => a != n)
  | .pairContentDiffers => b.map (fun _ => q.contentDiffers i)
  | .not c => (c.evalPair E q i a b).map (!·)
  | c => c.eval E q none

/-- Does the body of the loop over the positions fire (in order, from position `i` on)? -/
def anyFiresPair (c : Nat → Bytes → Option Bytes → Option Bool) : Nat → List Bytes → List Bytes → Option Bool
  | _, [], _ => some false
  | i, a :: as, bs =>
    match c i a bs.head? with
    | some true => some true
    | some false => anyFiresPair c (i + 1) as bs.tail
    | none => none

/-- The outcome of a guard chain on a request. -/
def runGuards (E : GEnv) : List GStep → GReq → Option GOut
  | [], _ => some .ok
  | .guard c o :: ss, q =>
    match c.eval E q none with
    | some true => some o
    | some false => runGuards E ss q
    | none => none
  | .forEach coll c o :: ss, q =>
    match anyFires (fun x => c.eval E q (some x)) (q.coll coll) with
    | some true => some o
    | some false => runGuards E ss q
    | none => none
  | .defaultOrder :: ss, q => runGuards E ss { q with order := if q.order.isEmpty then q.dataNames else q.order }
  | .forEachWork coll c o :: ss, q =>
    match anyFires (fun x => c.eval E q (some x)) (q.coll coll) with
    | some true => some o
    | some false => runGuards E ss q
    | none => none
  | .guardIf pre c o :: ss, q =>
    match pre.eval E q none with
    | some true =>
      match c.eval E q none with
      | some true => some o
      | some false => runGuards E ss q
      | none => none
    | some false => runGuards E ss q
    | none => none
  | .forEachIf pre coll c o :: ss, q =>
    match pre.eval E q none with
    | some true =>
      match anyFires (fun x => c.eval E q (some x)) (q.coll coll) with
      | some true => some o
      | some false => runGuards E ss q
      | none => none
    | some false => runGuards E ss q
    | none => none
  | .subFails _ :: ss, q =>
    match q.subOut with
    | some .returnSelf => if q.hasErr then some .returnSelf else runGuards E ss q
    | some .err => some .err
    | some .carryErr => some .err
    | some _ => runGuards E ss q
    | none => none
  | .forEachPair c o :: ss, q =>
    match anyFiresPair (fun i a b => c.evalPair E q i a b) 0 q.colNames q.otherNames with
    | some true => some o
    | some false => runGuards E ss q
    | none => none
  | .done o :: _, _ => some o
  | .opaque _ :: _, _ => none

/-- The value of an int-valued chain; `none` for a path without `return`. -/
def runInt (E : GEnv) : List IStep → GReq → Option Int
  | [], _ => none
  | .ret v :: _, q => v.eval E q
  | .opaque _ :: _, _ => none
  | .guard c v :: ss, q =>
    match c.eval E q none with
    | some true => v.eval E q
    | some false => runInt E ss q
    | none => none

def GCond.hasOpaque : GCond → Bool
  | .opaque _ => true
  | .not c => c.hasOpaque
  | .and c d | .or c d => c.hasOpaque || d.hasOpaque
  | _ => false

def GStep.hasOpaque : GStep → Bool
  | .opaque _ => true
  | .guard c _ | .forEach _ c _ | .forEachWork _ c _ | .forEachPair c _ => c.hasOpaque
  | .guardIf p c _ | .forEachIf p _ c _ => p.hasOpaque || c.hasOpaque
  | .defaultOrder | .subFails _ | .done _ => false

def IStep.hasOpaque : IStep → Bool
  | .opaque _ => true
  | .guard c _ => c.hasOpaque
  | .ret _ => false

/-! ## `Apply`: a loop without guards -/

/-- The fields of an `Instruction`. -/
inductive IField where
  | fn | dst | src1 | src2
  deriving DecidableEq, Repr, Inhabited

/-- The body of `for _, a := range instructions { … }`. -/
inductive IDisp where
  /-- `if a.f == "" { t } else { e }` -/
  | ifEmpty (f : IField) (t e : IDisp)
  /-- `acc = acc.h(a.args…)` where `h` is the frame method with the signature `(fn, dstCol, srcCol × srcs) QFrame` -/
  | call (srcs : Nat) (args : List IField)
  | opaque (txt : String)
  deriving DecidableEq, Repr, Inhabited

/-- `func (qf QFrame) Apply(instructions ...Instruction) QFrame`. -/
structure ApplyAst where
  /-- `acc := qf` before the loop -/
  accFromRecv : Bool
  disp : IDisp
  /-- `return acc` after it, and nothing else -/
  returnsAcc : Bool
  deriving DecidableEq, Repr, Inhabited

/-- An `Instruction{…}` literal: which fields are set (`WithRowNums`). -/
structure InstrLit where
  /-- `DstCol: <name parameter>` -/
  dst : Option GRole
  src1Set : Bool
  src2Set : Bool
  /-- `Fn: func() … { … }` -/
  fnIsFuncLit : Bool
  deriving DecidableEq, Repr, Inhabited

/-- The name fields of an instruction as Go sees them (`""` = not set). -/
structure GoInstr where
  dst : Bytes
  src1 : Bytes := []
  src2 : Bytes := []
  fn : Fn
  deriving Inhabited

def GoInstr.nameOf (g : GoInstr) : IField → Option Bytes
  | .fn => none
  | .dst => some g.dst
  | .src1 => some g.src1
  | .src2 => some g.src2

/-- Which helper an instruction goes to, and with which fields. -/
def IDisp.eval (g : GoInstr) : IDisp → Option (Nat × List IField)
  | .ifEmpty f t e =>
    match g.nameOf f with
    | some n => if n.isEmpty then t.eval g else e.eval g
    | none => none
  | .call k args => some (k, args)
  | .opaque _ => none

def IDisp.hasOpaque : IDisp → Bool
  | .opaque _ => true
  | .ifEmpty _ t e => t.hasOpaque || e.hasOpaque
  | .call _ _ => false

/-- The loop of `Apply` over any kind of accumulator: it starts as the receiver, each instruction replaces it by what the
helper chosen by the dispatch returns, the last one is the result. -/
def runApplyLoop {σ : Type} (a : ApplyAst) (helper : Nat → List IField → GoInstr → σ → σ) (recv : σ) :
    List GoInstr → Option σ
  | [] => if a.accFromRecv && a.returnsAcc then some recv else none
  | i :: is =>
    match a.disp.eval i with
    | some (k, args) => runApplyLoop a helper (helper k args i recv) is
    | none => none

end QF
