import QF.Spec.Ops
/-!
# GStep — the language of guard chains (which requests an operation rejects), and its Go semantics

The projection operations of /repo/qframe.go begin with a chain of guards before the real work starts:

    func (qf QFrame) Slice(start, end int) QFrame {
        if qf.Err != nil { return qf }
        if start < 0 { return qf.withErr(…) }
        if start > end { return qf.withErr(…) }
        if end > qf.Len() { return qf.withErr(…) }
        return qf.withIndex(qf.index[start:end])          -- the real work
    }

The extractor (go/cmd/extract/gast.go) translates this prefix of `Slice`, `Select`, `Drop`, `Copy` and `New` of /repo's
current source into a list of `GStep` and writes it to `QF/Gen/Guards.lean` on every run; `QFrame.Len` becomes a list of
`IStep` (guards that return an int), `CheckName` of internal/strings (with `isQuoted` inlined) a list of `NStep` over the
bytes of the name.

Terms name the parts of a request by ROLE, never by identifier: `start` / `stop` are the first / second int parameter,
`dst` / `src` the first / second name parameter, `columns` the variadic names, `each` the variable of the enclosing
`for … range` loop; `x < y` and `y > x` are the same condition (`lt x y`), `x >= y` is `le y x`, `x != y` is
`not (eqI x y)`. Helper methods that return an `error` (`checkColumns`) and tail calls that forward the request
(`Copy` → `setColumn`) are inlined, so a guard reads the same wherever it is written.

Evaluation is against an abstract request `GReq`; the first guard that fires decides the outcome, otherwise the chain
ends in `ok` (the real work starts). A term containing `.opaque` has no value (`none`).
-/
namespace QF

/-! ## Names: `CheckName` -/

inductive NInt where
  /-- `len(name)` (bytes) -/
  | len
  | lit (n : Nat)
  deriving DecidableEq, Repr, Inhabited

/-- Conditions on the bytes of one name. -/
inductive NCond where
  /-- `a < b` (`b > a`) -/
  | lt (a b : NInt)
  /-- `a <= b` (`b >= a`) -/
  | le (a b : NInt)
  /-- `a == b` -/
  | eqI (a b : NInt)
  /-- `strings.HasPrefix(name, lit)` -/
  | hasPrefix (lit : Bytes)
  /-- `strings.HasSuffix(name, lit)` -/
  | hasSuffix (lit : Bytes)
  | not (c : NCond)
  | and (c d : NCond)
  | or (c d : NCond)
  | opaque (txt : String)
  deriving DecidableEq, Repr, Inhabited

/-- One statement of `func CheckName(name string) error`. -/
inductive NStep where
  /-- `if c { return <a non-nil error> }` -/
  | reject (c : NCond)
  /-- `return nil` -/
  | accept
  | opaque (txt : String)
  deriving DecidableEq, Repr, Inhabited

def NInt.eval (s : Bytes) : NInt → Nat
  | .len => s.length
  | .lit n => n

def NCond.eval (s : Bytes) : NCond → Option Bool
  | .lt a b => some (decide (a.eval s < b.eval s))
  | .le a b => some (decide (a.eval s ≤ b.eval s))
  | .eqI a b => some (a.eval s == b.eval s)
  | .hasPrefix l => some (l.isPrefixOf s)
  | .hasSuffix l => some (l.isSuffixOf s)
  | .not c => (c.eval s).map (!·)
  | .and c d =>
    match c.eval s, d.eval s with
    | some a, some b => some (a && b)
    | _, _ => none
  | .or c d =>
    match c.eval s, d.eval s with
    | some a, some b => some (a || b)
    | _, _ => none
  | .opaque _ => none

/-- Does `CheckName(s)` return an error? `none`: the chain has no meaning (opaque, or a path without `return`). -/
def runName : List NStep → Bytes → Option Bool
  | [], _ => none
  | .accept :: _, _ => some false
  | .opaque _ :: _, _ => none
  | .reject c :: ss, s =>
    match c.eval s with
    | some true => some true
    | some false => runName ss s
    | none => none

def NCond.hasOpaque : NCond → Bool
  | .opaque _ => true
  | .not c => c.hasOpaque
  | .and c d | .or c d => c.hasOpaque || d.hasOpaque
  | _ => false

def NStep.hasOpaque : NStep → Bool
  | .opaque _ => true
  | .reject c => c.hasOpaque
  | .accept => false

/-! ## Requests -/

/-- The names a condition can speak about, by role. -/
inductive GRole where
  /-- the first name parameter (`Copy(dstCol, _)`; the name parameter of `setColumn`) -/
  | dst
  /-- the second name parameter (`Copy(_, srcCol)`) -/
  | src
  /-- the variable of the enclosing loop -/
  | each
  deriving DecidableEq, Repr, Inhabited

/-- The collections of names a loop can range over. -/
inductive GColl where
  /-- the variadic parameter of `Select` / `Drop` -/
  | columns
  /-- the keys of `New`'s `data` map -/
  | dataKeys
  /-- `config.ColumnOrder` of `New` -/
  | order
  deriving DecidableEq, Repr, Inhabited

inductive GInt where
  /-- the first int parameter (`Slice(start, _)`) -/
  | start
  /-- the second int parameter (`Slice(_, end)`) -/
  | stop
  | lit (n : Int)
  /-- `qf.Len()` (its meaning is that of the extracted `QFrame.Len`, see `GEnv.lenOf`) -/
  | len
  /-- `qf.index.Len()` -/
  | indexLen
  /-- `len(columns)`, `len(data)`, `len(config.ColumnOrder)` -/
  | count (c : GColl)
  deriving DecidableEq, Repr, Inhabited

/-- Guard conditions, by role. -/
inductive GCond where
  /-- `a < b` (`b > a`) -/
  | lt (a b : GInt)
  /-- `a <= b` (`b >= a`) -/
  | le (a b : GInt)
  /-- `a == b` -/
  | eqI (a b : GInt)
  /-- `qf.Err != nil` -/
  | qfHasErr
  /-- `_, ok := qf.columnsByName[r]; !ok` — the map field is found by its type in `type QFrame struct` -/
  | unknownColumn (r : GRole)
  /-- `_, ok := data[r]; !ok` (`New`) -/
  | notInData (r : GRole)
  /-- `dstCol == srcCol` -/
  | sameName
  /-- `err := CheckName(r); err != nil` — `CheckName` is whatever function of internal/strings is called -/
  | nameCheckFails (r : GRole)
  | not (c : GCond)
  | and (c d : GCond)
  | or (c d : GCond)
  | opaque (txt : String)
  deriving DecidableEq, Repr, Inhabited

/-- `start < 0` -/
abbrev GCond.startLtZero : GCond := .lt .start (.lit 0)
/-- `start > end` -/
abbrev GCond.startGtEnd : GCond := .lt .stop .start
/-- `end > qf.Len()` -/
abbrev GCond.endGtLen : GCond := .lt .len .stop
/-- `len(columns) == 0` -/
abbrev GCond.noColumns : GCond := .eqI (.count .columns) (.lit 0)

/-- What a fired guard does. -/
inductive GOut where
  /-- `return qf.withErr(e)` / `return QFrame{Err: e}` with a non-nil `e` -/
  | err
  /-- `return qf` -/
  | returnSelf
  /-- `return QFrame{…}` without an error; also the end of the chain: the real work starts -/
  | ok
  deriving DecidableEq, Repr, Inhabited

inductive GStep where
  /-- `if c { return o }` -/
  | guard (c : GCond) (o : GOut)
  /-- `for _, x := range coll { if c { return o } }` (`c` may mention `each`) -/
  | forEach (coll : GColl) (c : GCond) (o : GOut)
  /-- `if len(order) == 0 { order = the keys of data, in some order }` (`New`) -/
  | defaultOrder
  | opaque (txt : String)
  deriving DecidableEq, Repr, Inhabited

/-- One statement of an int-valued method (`QFrame.Len`). -/
inductive IStep where
  /-- `if c { return v }` -/
  | guard (c : GCond) (v : GInt)
  /-- `return v` -/
  | ret (v : GInt)
  | opaque (txt : String)
  deriving DecidableEq, Repr, Inhabited

/-- An abstract request: the frame as far as guards can see it, and the arguments. -/
structure GReq where
  /-- `qf.Err != nil` -/
  hasErr : Bool := false
  /-- `qf.index.Len()` -/
  rows : Nat := 0
  /-- the keys of `qf.columnsByName` -/
  known : Bytes → Bool := fun _ => false
  start : Int := 0
  stop : Int := 0
  columns : List Bytes := []
  dst : Bytes := []
  src : Bytes := []
  /-- `New`: the keys of `data` -/
  dataNames : List Bytes := []
  /-- `New`: `config.ColumnOrder` -/
  order : List Bytes := []

def GReq.coll (q : GReq) : GColl → List Bytes
  | .columns => q.columns
  | .dataKeys => q.dataNames
  | .order => q.order

def GReq.name (q : GReq) (each : Option Bytes) : GRole → Option Bytes
  | .dst => some q.dst
  | .src => some q.src
  | .each => each

/-- The meaning of the two functions a guard may call. -/
structure GEnv where
  /-- `CheckName(s) != nil` -/
  nameFails : Bytes → Option Bool
  /-- `qf.Len()` -/
  lenOf : GReq → Option Int

def GInt.eval (E : GEnv) (q : GReq) : GInt → Option Int
  | .start => some q.start
  | .stop => some q.stop
  | .lit n => some n
  | .len => E.lenOf q
  | .indexLen => some (q.rows : Int)
  | .count c => some ((q.coll c).length : Int)

def GCond.eval (E : GEnv) (q : GReq) (each : Option Bytes) : GCond → Option Bool
  | .lt a b =>
    match a.eval E q, b.eval E q with
    | some x, some y => some (decide (x < y))
    | _, _ => none
  | .le a b =>
    match a.eval E q, b.eval E q with
    | some x, some y => some (decide (x ≤ y))
    | _, _ => none
  | .eqI a b =>
    match a.eval E q, b.eval E q with
    | some x, some y => some (x == y)
    | _, _ => none
  | .qfHasErr => some q.hasErr
  | .unknownColumn r => (q.name each r).map (fun n => !q.known n)
  | .notInData r => (q.name each r).map (fun n => !q.dataNames.contains n)
  | .sameName => some (q.dst == q.src)
  | .nameCheckFails r => (q.name each r).bind E.nameFails
  | .not c => (c.eval E q each).map (!·)
  | .and c d =>
    match c.eval E q each, d.eval E q each with
    | some a, some b => some (a && b)
    | _, _ => none
  | .or c d =>
    match c.eval E q each, d.eval E q each with
    | some a, some b => some (a || b)
    | _, _ => none
  | .opaque _ => none

/-- Does the body of a loop fire for one of the elements (in order)? -/
def anyFires (c : Bytes → Option Bool) : List Bytes → Option Bool
  | [] => some false
  | x :: xs =>
    match c x with
    | some true => some true
    | some false => anyFires c xs
    | none => none

/-- The outcome of a guard chain on a request. -/
def runGuards (E : GEnv) : List GStep → GReq → Option GOut
  | [], _ => some .ok
  | .guard c o :: ss, q =>
    match c.eval E q none with
    | some true => some o
    | some false => runGuards E ss q
    | none => none
  | .forEach coll c o :: ss, q =>
    match anyFires (fun x => c.eval E q (some x)) (q.coll coll) with
    | some true => some o
    | some false => runGuards E ss q
    | none => none
  | .defaultOrder :: ss, q => runGuards E ss { q with order := if q.order.isEmpty then q.dataNames else q.order }
  | .opaque _ :: _, _ => none

/-- The value of an int-valued chain; `none` for a path without `return`. -/
def runInt (E : GEnv) : List IStep → GReq → Option Int
  | [], _ => none
  | .ret v :: _, q => v.eval E q
  | .opaque _ :: _, _ => none
  | .guard c v :: ss, q =>
    match c.eval E q none with
    | some true => v.eval E q
    | some false => runInt E ss q
    | none => none

def GCond.hasOpaque : GCond → Bool
  | .opaque _ => true
  | .not c => c.hasOpaque
  | .and c d | .or c d => c.hasOpaque || d.hasOpaque
  | _ => false

def GStep.hasOpaque : GStep → Bool
  | .opaque _ => true
  | .guard c _ | .forEach _ c _ => c.hasOpaque
  | .defaultOrder => false

def IStep.hasOpaque : IStep → Bool
  | .opaque _ => true
  | .guard c _ => c.hasOpaque
  | .ret _ => false

end QF
