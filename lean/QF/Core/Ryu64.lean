import QF.Gen.Ryu
/-!
# Mirror of the Ryu core: `/repo/internal/ryu/ryu64.go` and the helpers of `ryu.go`

A statement-by-statement transcription of `float64ToDecimalExactInt`, `float64ToDecimal` and their helpers
(`mulShift64`, `shiftRight128`, `pow5Factor64`, `multipleOfPowerOfFive64`, `multipleOfPowerOfTwo64`,
`decimalLen64`, `log10Pow2`, `log10Pow5`, `pow5Bits`) as executable functions over `Nat` / `Int`.

Conventions.
* `uint64` / `uint32` values are naturals; every Go operation that can wrap is followed by an explicit
  reduction (`u64`, `u32`, `subU64`, `subU32`), so the functions compute what the machine computes also
  outside the ranges the algorithm stays in.
* `int32` values are integers. No `int32` operation of the code can overflow for `exp < 2^11`, `mant < 2^52`
  (all intermediate values are below 2^12 in magnitude); they are therefore not reduced.
* conversions `uint32(e)`, `uint64(x)`, `uint(x)` of a signed value are `toU32` / `toU64`.
* Go shifts by a count ≥ 64 give 0 (`shl64`, `shr64`).
* the multipliers are read from the tables regenerated from the source on every run
  (`QF.Gen.pow5Split64`, `QF.Gen.pow5InvSplit64`, pairs `(lo, hi)`).
* Go `assert`s and index-out-of-range panics are preconditions: the mirror returns a value there
  (table look-ups outside the table give `(0, 0)`); inside the preconditions nothing differs.
* The `for` loops run on fuel 20, which is never the reason a loop stops for 64-bit operands: every iteration divides
  a value `< 2^64 < 10^20` by at least 10 and the loop condition fails at the latest when that value is below 10. Proved in
  `QF.Props.C16Core`: `cnt1_spec` (first loop of the general case and the one-digit loop of the common case: the loop
  condition is false at the exit), `cnt100_spec` (two-digit loop), `cnt2_spec` (second loop of the general case, for
  `vm ≠ 0`), `exactIntLoop_spec` (`d.m ≠ 0`), `pow5Factor64Loop_spec` (fuel 28 for a non-zero value `< 2^64 < 5^28`),
  `trailingZeros64Loop_spec` (`bits.TrailingZeros64` looks at 64 bits).
* `step3Pos` / `step3Neg` pass `q` to `step3PosQ` / `step3NegQ` and `float64ToDecimal` is the composition of `step3`,
  `step4`: this only names intermediate values of the Go function (it keeps the kernel from re-evaluating `q` in proofs).

The replay driver (`QF/Drv/Ryu.lean`, line `FD`) compares this mirror with the implementation on every generated
float (`MIRROR-MISMATCH … op=ryudec kind=mirror`).
-/
namespace QF.Ryu64

def mantBits64 : Nat := 52
def bias64 : Nat := 1023
def pow5NumBits64 : Nat := 121
def pow5InvNumBits64 : Nat := 122

/-- the two bit-count constants are the ones of tables.go today -/
theorem numBits_tie : toString pow5NumBits64 = QF.Gen.pow5NumBits64 ∧ toString pow5InvNumBits64 = QF.Gen.pow5InvNumBits64 := by
  decide

/-! ## machine arithmetic -/

def u64 (x : Nat) : Nat := x % 2 ^ 64
def u32 (x : Nat) : Nat := x % 2 ^ 32
/-- `a - b` on `uint64` (operands `< 2^64`) -/
def subU64 (a b : Nat) : Nat := (a + 2 ^ 64 - b) % 2 ^ 64
/-- `a - b` on `uint32` (operands `< 2^32`) -/
def subU32 (a b : Nat) : Nat := (a + 2 ^ 32 - b) % 2 ^ 32
/-- `uint32(e)` of a signed value -/
def toU32 (e : Int) : Nat := (e % 2 ^ 32).toNat
/-- `uint64(e)` / `uint(e)` of a signed value -/
def toU64 (e : Int) : Nat := (e % 2 ^ 64).toNat
/-- `x << s` on `uint64` with an unsigned count -/
def shl64 (x s : Nat) : Nat := if s < 64 then (x <<< s) % 2 ^ 64 else 0
/-- `x >> s` on `uint64` with an unsigned count -/
def shr64 (x s : Nat) : Nat := if s < 64 then x >>> s else 0

def boolToNat (b : Bool) : Nat := if b then 1 else 0

/-- `bits.Mul64(x, y) = (hi, lo)` -/
def mul64 (x y : Nat) : Nat × Nat := (x * y / 2 ^ 64 % 2 ^ 64, x * y % 2 ^ 64)

/-- `bits.TrailingZeros64` (64 for 0) -/
def trailingZeros64Loop : Nat → Nat → Nat → Nat
  | 0, _, n => n
  | fuel + 1, v, n => if v % 2 == 1 then n else trailingZeros64Loop fuel (v / 2) (n + 1)
def trailingZeros64 (v : Nat) : Nat := trailingZeros64Loop 64 v 0

/-- `64 - bits.LeadingZeros64(u)`: the bit length (0 for 0) -/
def bitLen64 (u : Nat) : Nat := if u = 0 then 0 else Nat.log2 u + 1

/-- a decimal floating-point number `m · 10^e` (`dec64`) -/
structure Dec64 where
  m : Nat := 0
  e : Int := 0
  deriving Repr, DecidableEq, Inhabited

/-! ## ryu.go -/

/-- `func log10Pow2(e int32) uint32 { … return (uint32(e) * 78913) >> 18 }` (asserts `0 ≤ e ≤ 1650`) -/
def log10Pow2 (e : Int) : Nat := u32 (toU32 e * 78913) >>> 18

/-- `func log10Pow5(e int32) uint32 { … return (uint32(e) * 732923) >> 20 }` (asserts `0 ≤ e ≤ 2620`) -/
def log10Pow5 (e : Int) : Nat := u32 (toU32 e * 732923) >>> 20

/-- `func pow5Bits(e int32) int32 { … return int32((uint32(e)*1217359)>>19 + 1) }` (asserts `0 ≤ e ≤ 3528`) -/
def pow5Bits (e : Int) : Int := ((u32 (toU32 e * 1217359) >>> 19 + 1 : Nat) : Int)

/-! ## helpers of ryu64.go -/

/-- ```
func shiftRight128(v uint128, shift int32) uint64 {
	assert(shift < 64, "shift < 64")
	return (v.hi << uint64(64-shift)) | (v.lo >> uint(shift))
}
``` `v = (lo, hi)` -/
def shiftRight128 (v : Nat × Nat) (shift : Int) : Nat :=
  shl64 v.2 (toU64 (64 - shift)) ||| shr64 v.1 (toU64 shift)

/-- ```
func mulShift64(m uint64, mul uint128, shift int32) uint64 {
	hihi, hilo := bits.Mul64(m, mul.hi)
	lohi, _ := bits.Mul64(m, mul.lo)
	sum := uint128{hi: hihi, lo: lohi + hilo}
	if sum.lo < lohi {
		sum.hi++ // overflow
	}
	return shiftRight128(sum, shift-64)
}
``` `mul = (lo, hi)` -/
def mulShift64 (m : Nat) (mul : Nat × Nat) (shift : Int) : Nat :=
  let hihi := (mul64 m mul.2).1
  let hilo := (mul64 m mul.2).2
  let lohi := (mul64 m mul.1).1
  let sumlo := u64 (lohi + hilo)
  let sumhi := if sumlo < lohi then u64 (hihi + 1) else hihi
  shiftRight128 (sumlo, sumhi) (shift - 64)

/-- ```
func pow5Factor64(v uint64) uint32 {
	for n := uint32(0); ; n++ {
		q, r := v/5, v%5
		if r != 0 {
			return n
		}
		v = q
	}
}
``` (does not terminate for `v = 0`; the mirror then returns the fuel) -/
def pow5Factor64Loop : Nat → Nat → Nat → Nat
  | 0, _, n => n
  | fuel + 1, v, n => if v % 5 != 0 then n else pow5Factor64Loop fuel (v / 5) (n + 1)
def pow5Factor64 (v : Nat) : Nat := pow5Factor64Loop 28 v 0

/-- `func multipleOfPowerOfFive64(v uint64, p uint32) bool { return pow5Factor64(v) >= p }` -/
def multipleOfPowerOfFive64 (v p : Nat) : Bool := pow5Factor64 v ≥ p

/-- `func multipleOfPowerOfTwo64(v uint64, p uint32) bool { return uint32(bits.TrailingZeros64(v)) >= p }` -/
def multipleOfPowerOfTwo64 (v p : Nat) : Bool := trailingZeros64 v ≥ p

def powersOf10 : Array Nat := #[1, 10, 100, 1000, 10000, 100000, 1000000, 10000000, 100000000, 1000000000,
  10000000000, 100000000000, 1000000000000, 10000000000000, 100000000000000, 1000000000000000,
  10000000000000000, 100000000000000000]

/-- ```
func decimalLen64(u uint64) int {
	log2 := 64 - bits.LeadingZeros64(u) - 1
	t := (log2 + 1) * 1233 >> 12
	return t - boolToInt(u < powersOf10[t]) + 1
}
``` `log2 + 1` is the bit length; `t + 1 ≥ 1` so the result is computed as `t + 1 - b` in `Nat`
(the index `t` is inside the table for `u < 2^59`, outside Go panics). -/
def decimalLen64 (u : Nat) : Nat :=
  let t := (bitLen64 u * 1233) >>> 12
  t + 1 - boolToNat (u < powersOf10.getD t 0)

/-! ## float64ToDecimalExactInt -/

/-- `for d.m%10 == 0 { d.m /= 10; d.e++ }` -/
def exactIntLoop : Nat → Dec64 → Dec64
  | 0, d => d
  | fuel + 1, d => if d.m % 10 == 0 then exactIntLoop fuel { m := d.m / 10, e := d.e + 1 } else d

/-- ```
func float64ToDecimalExactInt(mant, exp uint64) (d dec64, ok bool) {
	e := exp - bias64
	if e > mantBits64 {
		return d, false
	}
	shift := mantBits64 - e
	mant |= 1 << mantBits64 // implicit 1
	d.m = mant >> shift
	if d.m<<shift != mant {
		return d, false
	}
	for d.m%10 == 0 {
		d.m /= 10
		d.e++
	}
	return d, true
}
``` -/
def float64ToDecimalExactInt (mant exp : Nat) : Dec64 × Bool :=
  let e := subU64 exp bias64
  if e > mantBits64 then (({} : Dec64), false) else
  let shift := mantBits64 - e
  let mant := mant ||| shl64 1 mantBits64
  let d : Dec64 := { m := shr64 mant shift, e := 0 }
  if shl64 d.m shift != mant then (d, false) else
  (exactIntLoop 20 d, true)

/-! ## float64ToDecimal -/

/-- Step 1 of `float64ToDecimal`: `(e2, m2)`
```
	if exp == 0 {
		e2 = 1 - bias64 - mantBits64 - 2
		m2 = mant
	} else {
		e2 = int32(exp) - bias64 - mantBits64 - 2
		m2 = uint64(1)<<mantBits64 | mant
	}
``` -/
def decodeE2 (exp : Nat) : Int :=
  if exp == 0 then 1 - (bias64 : Int) - (mantBits64 : Int) - 2 else (exp : Int) - (bias64 : Int) - (mantBits64 : Int) - 2
def decodeM2 (mant exp : Nat) : Nat :=
  if exp == 0 then mant else shl64 1 mantBits64 ||| mant

/-- `mmShift := boolToUint64(mant != 0 || exp <= 1)` -/
def mmShiftOf (mant exp : Nat) : Nat := boolToNat (mant != 0 || exp ≤ 1)
/-- `mv := 4 * m2` -/
def mvOf (m2 : Nat) : Nat := u64 (4 * m2)
/-- `4*m2 + 2` (the code's `mp`) -/
def mpOf (m2 : Nat) : Nat := u64 (u64 (4 * m2) + 2)
/-- `4*m2 - 1 - mmShift` (the code's `mm`) -/
def mmOf (m2 mmShift : Nat) : Nat := subU64 (subU64 (u64 (4 * m2)) 1) mmShift

/-- the variables alive after step 3 -/
structure Step3 where
  vr : Nat
  vp : Nat
  vm : Nat
  e10 : Int
  vmIsTrailingZeros : Bool := false
  vrIsTrailingZeros : Bool := false
  deriving Repr, DecidableEq, Inhabited

/-- Step 3, branch `e2 >= 0` (the first line, `q := …`, is in `step3Pos` below)
```
		q := log10Pow2(e2) - boolToUint32(e2 > 3)
		e10 = int32(q)
		k := pow5InvNumBits64 + pow5Bits(int32(q)) - 1
		i := -e2 + int32(q) + k
		mul := pow5InvSplit64[q]
		vr = mulShift64(4*m2, mul, i)
		vp = mulShift64(4*m2+2, mul, i)
		vm = mulShift64(4*m2-1-mmShift, mul, i)
		if q <= 21 {
			if mv%5 == 0 {
				vrIsTrailingZeros = multipleOfPowerOfFive64(mv, q)
			} else if acceptBounds {
				vmIsTrailingZeros = multipleOfPowerOfFive64(mv-1-mmShift, q)
			} else if multipleOfPowerOfFive64(mv+2, q) {
				vp--
			}
		}
``` -/
def step3PosQ (q : Nat) (e2 : Int) (m2 mmShift : Nat) (acceptBounds : Bool) : Step3 :=
  let mv := mvOf m2
  let e10 : Int := (q : Int)
  let k : Int := (pow5InvNumBits64 : Int) + pow5Bits (q : Int) - 1
  let i : Int := -e2 + (q : Int) + k
  let mul := QF.Gen.pow5InvSplit64.getD q (0, 0)
  let vr := mulShift64 (mvOf m2) mul i
  let vp := mulShift64 (mpOf m2) mul i
  let vm := mulShift64 (mmOf m2 mmShift) mul i
  if q ≤ 21 then
    if mv % 5 == 0 then
      { vr, vp, vm, e10, vrIsTrailingZeros := multipleOfPowerOfFive64 mv q }
    else if acceptBounds then
      { vr, vp, vm, e10, vmIsTrailingZeros := multipleOfPowerOfFive64 (subU64 (subU64 mv 1) mmShift) q }
    else if multipleOfPowerOfFive64 (u64 (mv + 2)) q then
      { vr, vp := subU64 vp 1, vm, e10 }
    else { vr, vp, vm, e10 }
  else { vr, vp, vm, e10 }

/-- `q := log10Pow2(e2) - boolToUint32(e2 > 3)`, then the rest of the branch (`step3PosQ`; the split into two functions
only names the `let q`) -/
def step3Pos (e2 : Int) (m2 mmShift : Nat) (acceptBounds : Bool) : Step3 :=
  step3PosQ (subU32 (log10Pow2 e2) (boolToNat (e2 > 3))) e2 m2 mmShift acceptBounds

/-- Step 3, branch `e2 < 0` (the first line, `q := …`, is in `step3Neg` below)
```
		q := log10Pow5(-e2) - boolToUint32(-e2 > 1)
		e10 = int32(q) + e2
		i := -e2 - int32(q)
		k := pow5Bits(i) - pow5NumBits64
		j := int32(q) - k
		mul := pow5Split64[i]
		vr = mulShift64(4*m2, mul, j)
		vp = mulShift64(4*m2+2, mul, j)
		vm = mulShift64(4*m2-1-mmShift, mul, j)
		if q <= 1 {
			vrIsTrailingZeros = true
			if acceptBounds {
				vmIsTrailingZeros = mmShift == 1
			} else {
				vp--
			}
		} else if q < 63 {
			vrIsTrailingZeros = multipleOfPowerOfTwo64(mv, q-1)
		}
``` -/
def step3NegQ (q : Nat) (e2 : Int) (m2 mmShift : Nat) (acceptBounds : Bool) : Step3 :=
  let mv := mvOf m2
  let e10 : Int := (q : Int) + e2
  let i : Int := -e2 - (q : Int)
  let k : Int := pow5Bits i - (pow5NumBits64 : Int)
  let j : Int := (q : Int) - k
  let mul := QF.Gen.pow5Split64.getD i.toNat (0, 0)
  let vr := mulShift64 (mvOf m2) mul j
  let vp := mulShift64 (mpOf m2) mul j
  let vm := mulShift64 (mmOf m2 mmShift) mul j
  if q ≤ 1 then
    if acceptBounds then
      { vr, vp, vm, e10, vrIsTrailingZeros := true, vmIsTrailingZeros := mmShift == 1 }
    else
      { vr, vp := subU64 vp 1, vm, e10, vrIsTrailingZeros := true }
  else if q < 63 then
    { vr, vp, vm, e10, vrIsTrailingZeros := multipleOfPowerOfTwo64 mv (subU32 q 1) }
  else { vr, vp, vm, e10 }

/-- `q := log10Pow5(-e2) - boolToUint32(-e2 > 1)`, then the rest of the branch (`step3NegQ`) -/
def step3Neg (e2 : Int) (m2 mmShift : Nat) (acceptBounds : Bool) : Step3 :=
  step3NegQ (subU32 (log10Pow5 (-e2)) (boolToNat (-e2 > 1))) e2 m2 mmShift acceptBounds

/-- the variables of step 4's general case -/
structure Gen where
  vr : Nat
  vp : Nat
  vm : Nat
  removed : Int := 0
  lastRemovedDigit : Nat := 0
  vmIsTrailingZeros : Bool
  vrIsTrailingZeros : Bool
  deriving Repr, DecidableEq, Inhabited

/-- ```
			for {
				vpDiv10 := vp / 10
				vmDiv10 := vm / 10
				if vpDiv10 <= vmDiv10 {
					break
				}
				vmMod10 := vm % 10
				vrDiv10 := vr / 10
				vrMod10 := vr % 10
				vmIsTrailingZeros = vmIsTrailingZeros && vmMod10 == 0
				vrIsTrailingZeros = vrIsTrailingZeros && lastRemovedDigit == 0
				lastRemovedDigit = uint8(vrMod10)
				vr = vrDiv10
				vp = vpDiv10
				vm = vmDiv10
				removed++
			}
``` -/
def loopGeneral1 : Nat → Gen → Gen
  | 0, s => s
  | fuel + 1, s =>
    let vpDiv10 := s.vp / 10
    let vmDiv10 := s.vm / 10
    if vpDiv10 ≤ vmDiv10 then s else
    let vmMod10 := s.vm % 10
    let vrDiv10 := s.vr / 10
    let vrMod10 := s.vr % 10
    loopGeneral1 fuel
      { vmIsTrailingZeros := s.vmIsTrailingZeros && vmMod10 == 0
        vrIsTrailingZeros := s.vrIsTrailingZeros && s.lastRemovedDigit == 0
        lastRemovedDigit := vrMod10
        vr := vrDiv10
        vp := vpDiv10
        vm := vmDiv10
        removed := s.removed + 1 }

/-- ```
				for {
					vmDiv10 := vm / 10
					vmMod10 := vm % 10
					if vmMod10 != 0 {
						break
					}
					vpDiv10 := vp / 10
					vrDiv10 := vr / 10
					vrMod10 := vr % 10
					vrIsTrailingZeros = vrIsTrailingZeros && lastRemovedDigit == 0
					lastRemovedDigit = uint8(vrMod10)
					vr = vrDiv10
					vp = vpDiv10
					vm = vmDiv10
					removed++
				}
``` (does not terminate for `vm = 0`; the mirror then stops when the fuel is used up) -/
def loopGeneral2 : Nat → Gen → Gen
  | 0, s => s
  | fuel + 1, s =>
    let vmDiv10 := s.vm / 10
    let vmMod10 := s.vm % 10
    if vmMod10 != 0 then s else
    let vpDiv10 := s.vp / 10
    let vrDiv10 := s.vr / 10
    let vrMod10 := s.vr % 10
    loopGeneral2 fuel
      { vmIsTrailingZeros := s.vmIsTrailingZeros
        vrIsTrailingZeros := s.vrIsTrailingZeros && s.lastRemovedDigit == 0
        lastRemovedDigit := vrMod10
        vr := vrDiv10
        vp := vpDiv10
        vm := vmDiv10
        removed := s.removed + 1 }

/-- Step 4, general case (`if vmIsTrailingZeros || vrIsTrailingZeros { … }`): `(out, removed)`
```
			if vmIsTrailingZeros { for { … } }
			if vrIsTrailingZeros && lastRemovedDigit == 5 && vr%2 == 0 {
				lastRemovedDigit = 4
			}
			out = vr
			if (vr == vm && (!acceptBounds || !vmIsTrailingZeros)) || lastRemovedDigit >= 5 {
				out++
			}
``` -/
def step4General (s3 : Step3) (acceptBounds : Bool) : Nat × Int :=
  let s : Gen := { vr := s3.vr, vp := s3.vp, vm := s3.vm,
                   vmIsTrailingZeros := s3.vmIsTrailingZeros, vrIsTrailingZeros := s3.vrIsTrailingZeros }
  let s := loopGeneral1 20 s
  let s := if s.vmIsTrailingZeros then loopGeneral2 20 s else s
  let lastRemovedDigit :=
    if s.vrIsTrailingZeros && s.lastRemovedDigit == 5 && s.vr % 2 == 0 then 4 else s.lastRemovedDigit
  let out := s.vr
  let out :=
    if (s.vr == s.vm && (!acceptBounds || !s.vmIsTrailingZeros)) || lastRemovedDigit ≥ 5 then u64 (out + 1) else out
  (out, s.removed)

/-- the variables of step 4's common case -/
structure Com where
  vr : Nat
  vp : Nat
  vm : Nat
  removed : Int := 0
  roundUp : Bool := false
  deriving Repr, DecidableEq, Inhabited

/-- ```
			for vp/100 > vm/100 {
				roundUp = vr%100 >= 50
				vr /= 100
				vp /= 100
				vm /= 100
				removed += 2
			}
``` -/
def loopCommon100 : Nat → Com → Com
  | 0, s => s
  | fuel + 1, s =>
    if s.vp / 100 > s.vm / 100 then
      loopCommon100 fuel { roundUp := s.vr % 100 ≥ 50, vr := s.vr / 100, vp := s.vp / 100, vm := s.vm / 100, removed := s.removed + 2 }
    else s

/-- ```
			for vp/10 > vm/10 {
				roundUp = vr%10 >= 5
				vr /= 10
				vp /= 10
				vm /= 10
				removed++
			}
``` -/
def loopCommon10 : Nat → Com → Com
  | 0, s => s
  | fuel + 1, s =>
    if s.vp / 10 > s.vm / 10 then
      loopCommon10 fuel { roundUp := s.vr % 10 ≥ 5, vr := s.vr / 10, vp := s.vp / 10, vm := s.vm / 10, removed := s.removed + 1 }
    else s

/-- Step 4, common case: `(out, removed)`; `out = vr + boolToUint64(vr == vm || roundUp)` -/
def step4Common (s3 : Step3) : Nat × Int :=
  let s : Com := { vr := s3.vr, vp := s3.vp, vm := s3.vm }
  let s := loopCommon100 20 s
  let s := loopCommon10 20 s
  (u64 (s.vr + boolToNat (s.vr == s.vm || s.roundUp)), s.removed)

/-- `even := m2&1 == 0; acceptBounds := even` -/
def acceptBoundsOf (mant exp : Nat) : Bool := decodeM2 mant exp &&& 1 == 0

/-- Step 3 (`if e2 >= 0 { … } else { … }`) on the values of steps 1 and 2 -/
def step3 (mant exp : Nat) : Step3 :=
  let e2 := decodeE2 exp
  let m2 := decodeM2 mant exp
  let acceptBounds := acceptBoundsOf mant exp
  let mmShift := mmShiftOf mant exp
  if e2 ≥ 0 then step3Pos e2 m2 mmShift acceptBounds else step3Neg e2 m2 mmShift acceptBounds

/-- Step 4 (`if vmIsTrailingZeros || vrIsTrailingZeros { general case } else { common case }`): `(out, removed)` -/
def step4 (s3 : Step3) (acceptBounds : Bool) : Nat × Int :=
  if s3.vmIsTrailingZeros || s3.vrIsTrailingZeros then step4General s3 acceptBounds else step4Common s3

/-- `func float64ToDecimal(mant, exp uint64) dec64`: steps 1–3, step 4, `return dec64{m: out, e: e10 + removed}` -/
def float64ToDecimal (mant exp : Nat) : Dec64 :=
  let s3 := step3 mant exp
  let r := step4 s3 (acceptBoundsOf mant exp)
  { m := r.1, e := s3.e10 + r.2 }

/-- what the hook `VerifDecimal` (and `AppendFloat64f`) computes: the fast path, else the general algorithm -/
def decimal (mant exp : Nat) : Nat × Int × Bool :=
  let r := float64ToDecimalExactInt mant exp
  let d := if r.2 then r.1 else float64ToDecimal mant exp
  (d.m, d.e, r.2)

end QF.Ryu64
