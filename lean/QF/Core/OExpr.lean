import QF.Core.CExpr
import QF.Spec.Ops
/-!
# OP / EQ / RE — the per-cell OBSERVATION functions of the column packages, and their Go semantics

Everything a user can see of a frame goes through three methods of each of the five column packages:

    func (c Column) Equals(index index.Int, other column.Column, otherIndex index.Int) bool   -- QFrame.Equals
    func (c Column) StringAt(i uint32, naRep string) string                                   -- ToCSV (naRep ""), String()
    func (c Column) AppendByteStringAt(buf []byte, i uint32) []byte                           -- ToJSON

The extractor (go/cmd/extract/oast.go) translates these fifteen functions (and scolumn's helpers `stringAt` / `bytesAt`)
of /repo's current source and writes them to `QF/Gen/Observe.lean` on every run: `Equals` as a term of `EQ` (the type
assertion on `other`, the loop over the positions, the per-cell predicate `OP`), the two renderers as terms of `RE`.

Terms name the operands by ROLE, whatever the Go variables are called. In `Equals`, `x` is the receiver's cell at
`index[ix]` (the range value), `y` the cell of the asserted `other` at `otherIndex[ix]`; in the renderers the cell is the
receiver's cell at the index parameter, `buf` the buffer parameter, `naRep` the string parameter.

The evaluation functions follow Go's semantics at the column's element type:

* int, bool — `==` on the values
* float     — IEEE-754 `==` on the bit patterns (`F64.eq`: false as soon as one side is NaN, `-0 == +0`), `math.IsNaN`
* string    — `s, isNull := c.stringAt(i)` is `("", true)` for a null cell and `(bytes, false)` otherwise
              (`gen_helpers_canon` in QF/Props/C09Observe.lean: that is what today's helper does); the slice
              `c.data[p.Offset() : p.Offset()+p.Len()]` read directly through the pointer is the cell's bytes for a
              non-null cell and has no value in the model for a null one (the logical cell does not determine it)
* enum      — the cell is an `enumVal` (uint8): the rank of the string in the column's OWN value table, 255 for null;
              `isNull()` (`v == 255`: `gen_enum_null_code`); `==` on the raw codes; `c.values[v]` is the string (no value — Go panics — for the null code).
              In `Equals` the two columns have their own value tables `xv`, `yv`.
-/
namespace QF

/-! ## (a) `Equals` -/

/-- The per-cell predicate of `Equals`' loop body, by role: `tt` = go on with the next position (`continue`, or the end of
the body), `ff` = `return false`. -/
inductive OP where
  /-- `x == y` on the raw cells (int, float, bool; the enum CODES) -/
  | xEqY
  /-- `math.IsNaN(x)` -/
  | xNaN
  | yNaN
  /-- the flag `stringAt` returns (string); `x.isNull()` (enum) -/
  | xNull
  | yNull
  /-- `s == os` on the strings `stringAt` returns; `bytes.Equal` on what `bytesAt` returns -/
  | bytesEq
  /-- `c.values[x] == other.values[y]`: the enum STRINGS, each looked up in its own column's value table -/
  | enumStrEq
  | tt
  | ff
  | not (p : OP)
  /-- `p && q` (short circuit) -/
  | and (p q : OP)
  /-- `p || q` (short circuit) -/
  | or (p q : OP)
  /-- `if c { t } else { e }` followed by the rest of the body in both arms -/
  | ite (c t e : OP)
  /-- something the translator does not understand -/
  | opaque (txt : String)
  deriving DecidableEq, Repr, Inhabited

/-- `Column.Equals` as a whole. -/
inductive EQ where
  /-- `o, ok := other.(Column); if !ok { return onMismatch }`, then `rest` -/
  | assertType (onMismatch : Bool) (rest : EQ)
  /-- `for ix, x := range index { body }` where the body is the predicate `pred` (false: `return false`), then `rest` -/
  | loopAll (pred : OP) (rest : EQ)
  | ret (b : Bool)
  | opaque (txt : String)
  deriving DecidableEq, Repr, Inhabited

/-- the string `stringAt` / `bytesAt` hands out for a cell of a string column: empty for null -/
def strOf (ty : CType) (x : Cell) : Option Bytes :=
  match ty, x with
  | .string, .str s => some (s.getD [])
  | _, _ => none

/-- `c.values[v]` for the code `v` of an enum cell; the null code is out of range (Go panics) -/
def enumStrOf (ty : CType) (vals : List Bytes) (x : Cell) : Option Bytes :=
  match ty with
  | .enum =>
    match cellVal .enum vals x with
    | some (.enum i) => if i = enumNull then none else vals[i]?
    | _ => none
  | _ => none

/-- Go's `x == y` on the raw cells of two columns of type `ty` (value tables `xv`, `yv`); strings are not cells -/
def rawEq (ty : CType) (xv yv : List Bytes) (x y : Cell) : Option Bool :=
  match ty with
  | .string => none
  | _ =>
    match cellVal ty xv x, cellVal ty yv y with
    | some u, some v => cmpV "==" u v
    | _, _ => none

/-- The value of the predicate on the cells `x` (receiver, value table `xv`) and `y` (other, value table `yv`) of two
columns of type `ty`; `none` when the term has no meaning there (or Go panics). `&&`, `||` and `if` evaluate what Go
evaluates: the right operand / the other arm may be undefined when it is not reached. -/
def OP.eval (ty : CType) (xv yv : List Bytes) (x y : Cell) : OP → Option Bool
  | .xEqY => rawEq ty xv yv x y
  | .xNaN => nanOf ty x
  | .yNaN => nanOf ty y
  | .xNull => nullOf ty xv x
  | .yNull => nullOf ty yv y
  | .bytesEq =>
    match strOf ty x, strOf ty y with
    | some s, some t => some (decide (s = t))
    | _, _ => none
  | .enumStrEq =>
    match enumStrOf ty xv x, enumStrOf ty yv y with
    | some s, some t => some (decide (s = t))
    | _, _ => none
  | .tt => some true
  | .ff => some false
  | .not p => (p.eval ty xv yv x y).map (!·)
  | .and p q =>
    match p.eval ty xv yv x y with
    | some true => q.eval ty xv yv x y
    | some false => some false
    | none => none
  | .or p q =>
    match p.eval ty xv yv x y with
    | some true => some true
    | some false => q.eval ty xv yv x y
    | none => none
  | .ite c t e =>
    match c.eval ty xv yv x y with
    | some true => t.eval ty xv yv x y
    | some false => e.eval ty xv yv x y
    | none => none
  | .opaque _ => none

/-- a loop that returns `false` at the first position where `p` is false: the later positions are not looked at -/
def allOpt (p : Nat → Option Bool) : List Nat → Option Bool
  | [] => some true
  | i :: is =>
    match p i with
    | some true => allOpt p is
    | some false => some false
    | none => none

/-- What `c.Equals(index, other, otherIndex)` returns: `sameType` says whether `other` is a `Column` of the receiver's
package (the type assertion succeeds); `xs i` / `ys i` are the cells `c` holds at `index[i]` and `other` at
`otherIndex[i]` for the `n` positions of `index`. A loop over the cells of an `other` that was not asserted to be of the
same type has no meaning. -/
def EQ.eval (ty : CType) (sameType : Bool) (xv yv : List Bytes) (xs ys : Nat → Cell) (n : Nat) : EQ → Option Bool
  | .assertType m rest => if sameType then rest.eval ty sameType xv yv xs ys n else some m
  | .loopAll p rest =>
    if sameType then
      match allOpt (fun i => p.eval ty xv yv (xs i) (ys i)) (List.range n) with
      | some true => rest.eval ty sameType xv yv xs ys n
      | some false => some false
      | none => none
    else none
  | .ret b => some b
  | .opaque _ => none

def OP.hasOpaque : OP → Bool
  | .opaque _ => true
  | .not p => p.hasOpaque
  | .and p q | .or p q => p.hasOpaque || q.hasOpaque
  | .ite c t e => c.hasOpaque || t.hasOpaque || e.hasOpaque
  | _ => false

def EQ.hasOpaque : EQ → Bool
  | .opaque _ => true
  | .assertType _ rest => rest.hasOpaque
  | .loopAll p rest => p.hasOpaque || rest.hasOpaque
  | .ret _ => false

/-- the per-cell predicate of the (first) loop -/
def EQ.pred? : EQ → Option OP
  | .assertType _ rest => rest.pred?
  | .loopAll p _ => some p
  | _ => none

/-! ## (b) `StringAt` / `AppendByteStringAt` -/

/-- Tests of the renderers on the cell. -/
inductive RTest where
  /-- `math.IsNaN(cell)` -/
  | isNaN
  /-- the flag `stringAt` returns / `p.IsNull()` of the cell's pointer (string); `cell.isNull()` (enum) -/
  | isNull
  /-- `cell == 0` -/
  | isZero
  | not (t : RTest)
  | opaque (txt : String)
  deriving DecidableEq, Repr, Inhabited

/-- The renderers as decision trees. The first group of leaves are STRINGS, the second group BUFFERS: the parameter `buf`
with something appended. -/
inductive RE where
  /-- the parameter `naRep` -/
  | naRep
  /-- a string literal (its bytes) -/
  | lit (b : Bytes)
  /-- `strconv.Itoa(int(cell))` / `strconv.FormatInt(int64(cell), 10)` -/
  | itoa
  /-- `strconv.FormatBool(cell)` -/
  | formatBool
  /-- `strconv.FormatFloat(cell, 'f', -1, 64)` -/
  | formatFloatF
  /-- the string `stringAt(i)` returns -/
  | strAt
  /-- `c.data[p.Offset() : p.Offset()+p.Len()]` for the cell's pointer `p` (also under `UnsafeBytesToString`, `string(…)`) -/
  | rawBytes
  /-- `c.values[cell]` -/
  | enumValue
  /-- `append(buf, "…"...)` -/
  | appendLit (b : Bytes)
  /-- `append(buf, s...)` for a string term `s` -/
  | appendStr (s : RE)
  /-- `strconv.AppendInt(buf, int64(cell), 10)` -/
  | appendInt
  /-- `strconv.AppendBool(buf, cell)` -/
  | appendBool
  /-- `ryu.AppendFloat64f(buf, cell)` -/
  | ryuF
  /-- `qfstrings.AppendQuotedString(buf, s)` for a string term `s` -/
  | quoted (s : RE)
  /-- `return s, flag` of the helpers `stringAt` / `bytesAt` -/
  | pair (s : RE) (isNull : Bool)
  | ite (c : RTest) (t e : RE)
  | opaque (txt : String)
  deriving DecidableEq, Repr, Inhabited

/-- What the renderers call: the formatters are parameters. -/
structure Fmt where
  /-- `strconv.FormatFloat(·, 'f', -1, 64)` on the bits of the float -/
  fmtF : UInt64 → Bytes
  /-- the bytes `ryu.AppendFloat64f(buf, ·)` appends to `buf` -/
  ryu : UInt64 → Bytes
  /-- the bytes `AppendQuotedString(buf, ·)` appends to `buf` -/
  quote : Bytes → Bytes

/-- A value of a renderer term. -/
inductive RV where
  | str (b : Bytes)
  /-- the whole buffer returned -/
  | buf (b : Bytes)
  | pair (b : Bytes) (isNull : Bool)
  deriving DecidableEq, Repr, Inhabited

def RTest.eval (ty : CType) (vals : List Bytes) (x : Cell) : RTest → Option Bool
  | .isNaN => nanOf ty x
  | .isNull => nullOf ty vals x
  | .isZero =>
    match ty, x with
    | .int, .int v => some (decide (v = 0))
    | .float, .float b => some (F64.eq b 0)
    | _, _ => none
  | .not t => (t.eval ty vals x).map (!·)
  | .opaque _ => none

/-- the decimal text of an int cell (`strconv.Itoa`, `FormatInt(·, 10)`, `AppendInt(·, ·, 10)`) -/
def intOf (ty : CType) (x : Cell) : Option Bytes :=
  match ty, x with
  | .int, .int v => some (intStr v)
  | _, _ => none

/-- `strconv.FormatBool` / `AppendBool` -/
def boolOf (ty : CType) (x : Cell) : Option Bytes :=
  match ty, x with
  | .bool, .bool true => some [116, 114, 117, 101]
  | .bool, .bool false => some [102, 97, 108, 115, 101]
  | _, _ => none

def floatOf (f : UInt64 → Bytes) (ty : CType) (x : Cell) : Option Bytes :=
  match ty, x with
  | .float, .float b => some (f b)
  | _, _ => none

/-- the slice read through the pointer of a string cell: the bytes of a non-null cell -/
def rawOf (ty : CType) (x : Cell) : Option Bytes :=
  match ty, x with
  | .string, .str (some s) => some s
  | _, _ => none

/-- a string-valued term -/
def RV.str? : Option RV → Option Bytes
  | some (.str b) => some b
  | _ => none

/-- The value of a renderer of a column of type `ty` (value table `vals`) on the cell `x`, called with the parameters
`naRep` and `buf`. -/
def RE.eval (F : Fmt) (ty : CType) (vals : List Bytes) (naRep buf : Bytes) (x : Cell) : RE → Option RV
  | .naRep => some (.str naRep)
  | .lit b => some (.str b)
  | .itoa => (intOf ty x).map .str
  | .formatBool => (boolOf ty x).map .str
  | .formatFloatF => (floatOf F.fmtF ty x).map .str
  | .strAt => (strOf ty x).map .str
  | .rawBytes => (rawOf ty x).map .str
  | .enumValue => (enumStrOf ty vals x).map .str
  | .appendLit b => some (.buf (buf ++ b))
  | .appendStr s => (RV.str? (s.eval F ty vals naRep buf x)).map (fun b => .buf (buf ++ b))
  | .appendInt => (intOf ty x).map (fun b => .buf (buf ++ b))
  | .appendBool => (boolOf ty x).map (fun b => .buf (buf ++ b))
  | .ryuF => (floatOf F.ryu ty x).map (fun b => .buf (buf ++ b))
  | .quoted s => (RV.str? (s.eval F ty vals naRep buf x)).map (fun b => .buf (buf ++ F.quote b))
  | .pair s n => (RV.str? (s.eval F ty vals naRep buf x)).map (fun b => .pair b n)
  | .ite c t e =>
    match c.eval ty vals x with
    | some true => t.eval F ty vals naRep buf x
    | some false => e.eval F ty vals naRep buf x
    | none => none
  | .opaque _ => none

def RTest.hasOpaque : RTest → Bool
  | .opaque _ => true
  | .not t => t.hasOpaque
  | _ => false

def RE.hasOpaque : RE → Bool
  | .opaque _ => true
  | .appendStr s | .quoted s | .pair s _ => s.hasOpaque
  | .ite c t e => c.hasOpaque || t.hasOpaque || e.hasOpaque
  | _ => false

end QF
