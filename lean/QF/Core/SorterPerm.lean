import QF.Core.Sorter
namespace Sorter

theorem sw_perm (a : Ix) (i j : Nat) : (sw a i j).Perm a := by
  unfold sw; split
  · exact Array.swap_perm _ _
  · exact Array.Perm.refl _

theorem foldl_perm {α} (f : Ix → α → Ix) (h : ∀ a x, (f a x).Perm a) (l : List α) (a : Ix) :
    (l.foldl f a).Perm a := by
  induction l generalizing a with
  | nil => exact Array.Perm.refl _
  | cons x l ih => exact (ih (f a x)).trans (h a x)

theorem insInner_perm (less) (a : Ix) (lo j : Nat) : (insInner less a lo j).Perm a := by
  induction j generalizing a with
  | zero => exact Array.Perm.refl _
  | succ j ih =>
    unfold insInner; split
    · exact (ih _).trans (sw_perm _ _ _)
    · exact Array.Perm.refl _

theorem insertionSort_perm (less) (a : Ix) (lo hi : Nat) : (insertionSort less a lo hi).Perm a :=
  foldl_perm _ (fun a i => insInner_perm less a lo i) _ _

theorem ite_perm {c : Prop} [Decidable c] {x y a : Ix} (hx : x.Perm a) (hy : y.Perm a) :
    (if c then x else y).Perm a := by split <;> assumption

theorem siftDown_perm (less) (fuel : Nat) (a : Ix) (root hi first : Nat) :
    (siftDown less fuel a root hi first).Perm a := by
  induction fuel generalizing a root with
  | zero => exact Array.Perm.refl _
  | succ n ih =>
    unfold siftDown
    simp only []
    refine ite_perm (Array.Perm.refl _) (ite_perm (Array.Perm.refl _) ((ih _ _).trans (sw_perm _ _ _)))

theorem heapSort_perm (less) (a : Ix) (lo hi : Nat) : (heapSort less a lo hi).Perm a := by
  unfold heapSort
  refine (foldl_perm _ (fun a i => ?_) _ _).trans (foldl_perm _ (fun a i => ?_) _ _)
  · exact (siftDown_perm ..).trans (sw_perm ..)
  · exact siftDown_perm ..

theorem medianOfThree_perm (less) (a : Ix) (m1 m0 m2 : Nat) : (medianOfThree less a m1 m0 m2).Perm a := by
  unfold medianOfThree
  have h1 : (if lt less a m1 m0 then sw a m1 m0 else a).Perm a := ite_perm (sw_perm ..) (Array.Perm.refl _)
  simp only []
  refine ite_perm (ite_perm (((sw_perm ..).trans (sw_perm ..)).trans h1) ((sw_perm ..).trans h1)) h1

theorem pivotLoop_perm (less) (fuel : Nat) (a : Ix) (p b c : Nat) : (pivotLoop less fuel a p b c).1.Perm a := by
  induction fuel generalizing a b c with
  | zero => exact Array.Perm.refl _
  | succ n ih =>
    unfold pivotLoop
    simp only []
    split
    · exact Array.Perm.refl _
    · exact (ih ..).trans (sw_perm ..)

theorem protectLoop_perm (less) (fuel : Nat) (a : Ix) (p x b : Nat) : (protectLoop less fuel a p x b).1.Perm a := by
  induction fuel generalizing a x b with
  | zero => exact Array.Perm.refl _
  | succ n ih =>
    unfold protectLoop
    simp only []
    split
    · exact Array.Perm.refl _
    · exact (ih ..).trans (sw_perm ..)

theorem choosePivot_perm (less) (a : Ix) (lo hi : Nat) : (choosePivot less a lo hi).Perm a := by
  unfold choosePivot
  exact (medianOfThree_perm ..).trans (ite_perm (((medianOfThree_perm ..).trans (medianOfThree_perm ..)).trans (medianOfThree_perm ..)) (Array.Perm.refl _))

theorem dupsBlock_perm (less) (a : Ix) (lo hi m b c : Nat) : (dupsBlock less a lo hi m b c).a.Perm a := by
  unfold dupsBlock dups3 dups1
  simp only []
  split <;> split <;> first | exact (sw_perm ..).trans (sw_perm ..) | exact sw_perm .. | exact Array.Perm.refl _

theorem doPivot_perm (less) (a : Ix) (lo hi : Nat) : (doPivot less a lo hi).1.Perm a := by
  unfold doPivot
  simp only []
  have h1 := choosePivot_perm less a lo hi
  generalize choosePivot less a lo hi = a1 at h1 ⊢
  generalize scanUp _ _ _ _ = x
  have h2 := pivotLoop_perm less (a1.size + 1) a1 lo x (hi - 1)
  generalize pivotLoop less (a1.size + 1) a1 lo x (hi - 1) = r at h2 ⊢
  have h3 : (if (!decide (hi - r.2.2 < 5) && decide (hi - r.2.2 < (hi - lo) / 4)) = true then dupsBlock less r.1 lo hi ((lo + hi) / 2) r.2.1 r.2.2
      else (⟨r.1, r.2.1, r.2.2, decide (hi - r.2.2 < 5)⟩ : PState)).a.Perm r.1 := by
    split
    · exact dupsBlock_perm ..
    · exact Array.Perm.refl _
  generalize (if (!decide (hi - r.2.2 < 5) && decide (hi - r.2.2 < (hi - lo) / 4)) = true then dupsBlock less r.1 lo hi ((lo + hi) / 2) r.2.1 r.2.2
      else (⟨r.1, r.2.1, r.2.2, decide (hi - r.2.2 < 5)⟩ : PState)) = st at h3 ⊢
  refine (sw_perm ..).trans ?_
  split
  · exact ((protectLoop_perm ..).trans h3).trans (h2.trans h1)
  · exact h3.trans (h2.trans h1)

theorem quickSort_perm (less) (fuel : Nat) (a : Ix) (lo hi depth : Nat) :
    (quickSort less fuel a lo hi depth).Perm a := by
  induction fuel generalizing a lo hi depth with
  | zero => exact Array.Perm.refl _
  | succ n ih =>
    unfold quickSort
    simp only []
    split
    · split
      · exact heapSort_perm ..
      · have hp := doPivot_perm less a lo hi
        generalize doPivot less a lo hi = r at hp
        obtain ⟨a', mlo, mhi⟩ := r
        simp only [] at hp ⊢
        split
        · exact ((ih ..).trans (ih ..)).trans hp
        · exact ((ih ..).trans (ih ..)).trans hp
    · split
      · exact (insertionSort_perm ..).trans (foldl_perm _ (fun a i => ite_perm (sw_perm ..) (Array.Perm.refl _)) _ _)
      · exact Array.Perm.refl _

theorem sort_perm (less) (ix : Ix) : (sort less ix).Perm ix := quickSort_perm ..

end Sorter
