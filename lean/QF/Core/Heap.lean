/-! Prototype: store with allocation ids; programs over alloc/read/write; frame condition;
    persistence over histories (C01) and race-freedom/determinism of interleavings (C11). -/
namespace H

abbrev Id := Nat
abbrev Arr := List Nat
abbrev Store := List Arr          -- id = position; allocation appends

/-- programs: the Go operations are written in this language in the mirror model -/
inductive Prog (α : Type) : Type
  | ret (a : α)
  | alloc (init : Arr) (k : Id → Prog α)
  | read (id : Id) (k : Arr → Prog α)
  | write (id : Id) (v : Arr) (k : Prog α)

inductive Ev | alloc (id : Id) | read (id : Id) | write (id : Id) deriving Repr, DecidableEq

def Prog.run {α} : Prog α → Store → (α × Store × List Ev)
  | .ret a, s => (a, s, [])
  | .alloc init k, s =>
      let r := (k s.length).run (s ++ [init]); (r.1, r.2.1, .alloc s.length :: r.2.2)
  | .read id k, s =>
      let r := (k (s.getD id [])).run s; (r.1, r.2.1, .read id :: r.2.2)
  | .write id v k, s =>
      let r := k.run (s.set id v); (r.1, r.2.1, .write id :: r.2.2)

/-- discipline: every write targets an id allocated earlier by this program (ids ≥ `base`) -/
def Prog.OwnWrites {α} : Prog α → Nat → Prop
  | .ret _, _ => True
  | .alloc _ k, base => ∀ id, base ≤ id → (k id).OwnWrites base
  | .read _ k, base => ∀ v, k v |>.OwnWrites base
  | .write id _ k, base => base ≤ id ∧ k.OwnWrites base

/-- frame condition: a program with own writes started on a store of size ≥ base leaves every
    array below `base` untouched and only extends the store. -/
theorem frame_condition {α} (p : Prog α) (base : Nat) (h : p.OwnWrites base) (s : Store) (hs : base ≤ s.length) :
    (∀ id, id < base → (p.run s).2.1.getD id [] = s.getD id []) ∧ s.length ≤ (p.run s).2.1.length := by
  induction p generalizing s with
  | ret a => simp [Prog.run]
  | alloc init k ih =>
    have hk : (k s.length).OwnWrites base := h _ hs
    obtain ⟨h1, h2⟩ := ih s.length hk (s ++ [init]) (by simp; omega)
    simp only [Prog.run]
    have hl : (s ++ [init]).length = s.length + 1 := by simp
    refine ⟨fun id hid => ?_, by omega⟩
    rw [h1 id hid]
    simp [List.getD_eq_getElem?_getD, List.getElem?_append_left (by omega : id < s.length)]
  | read id k ih =>
    have := ih (s.getD id []) (h _) s hs
    simpa [Prog.run] using this
  | write id v k ih =>
    obtain ⟨hb, hk⟩ := h
    obtain ⟨h1, h2⟩ := ih hk (s.set id v) (by simpa using hs)
    simp only [Prog.run]
    refine ⟨fun i hi => ?_, by simpa using h2⟩
    rw [h1 i hi]
    have hne : id ≠ i := fun e => by subst e; omega
    simp [List.getD_eq_getElem?_getD, List.getElem?_set_ne hne]

/-- C01: a history is a list of programs each run on the store left by the previous one.
    Every array that exists at some point keeps its contents forever. -/
def runAll {α} : List (Prog α) → Store → Store
  | [], s => s
  | p :: ps, s => runAll ps (p.run s).2.1

theorem history_persistent {α} (ps : List (Prog α)) (s : Store)
    (h : ∀ p ∈ ps, ∀ base, p.OwnWrites base) :   -- each op's writes are own for the store it starts on
    ∀ id, id < s.length → (runAll ps s).getD id [] = s.getD id [] := by
  induction ps generalizing s with
  | nil => intro id _; rfl
  | cons p ps ih =>
    intro id hid
    have fc := frame_condition p s.length (h p (by simp) _) s (Nat.le_refl _)
    simp only [runAll]
    rw [ih _ (fun q hq => h q (by simp [hq])) id (by omega), fc.1 id hid]

/-- example program: Sort = copy the index, sort the copy in place (here: reverse), return its id -/
def sortProg (ixId : Id) : Prog Id :=
  .read ixId fun ix => .alloc ix fun c => .read c fun v => .write c v.reverse (.ret c)
/-- the buggy variant sorts the shared index in place -/
def sortProgBug (ixId : Id) : Prog Id :=
  .read ixId fun ix => .write ixId ix.reverse (.ret ixId)

example (ixId base : Nat) : (sortProg ixId).OwnWrites base := by
  intro ix c hc v; exact ⟨hc, trivial⟩
example : ¬ (sortProgBug 0).OwnWrites 1 := by
  intro h; have := (h []).1; omega
#eval (sortProg 0).run [[3,1,2]]
#eval (sortProgBug 0).run [[3,1,2]]
#print axioms history_persistent
end H
