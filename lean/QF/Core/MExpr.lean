import QF.Spec.Basic
/-!
# ME — the language of `NewMatcher` (internal/strings/match.go) and of the `Matches` methods, and its Go semantics

    func NewMatcher(comparatee string, caseSensitive bool) (Matcher, error)
    func (m *XMatcher) Matches(s string) bool

The extractor (go/cmd/extract/mast.go) executes the body of `NewMatcher` symbolically and writes it, on every run, as a
decision tree `MT` to `QF/Gen/Matcher.lean`:

* the string parameter is re-assigned on the way; every string local is a term `SE` over the ORIGINAL parameter
  (`"^" + comparatee` → `cat (lit "^") param`, `comparatee[1:]` → `dropFirst`, `comparatee[:len(comparatee)-1]` →
  `dropLast`, `strings.ToUpper` → `upper`, `strings.TrimPrefix / TrimSuffix` → `trimPrefix / trimSuffix`; helpers of the
  package that only compute a string — `trimPercent` — are executed on the symbolic value, not named);
* a bool local is the condition `MC` it was initialised with, i.e. over the value the string had AT THAT POINT
  (`fuzzyStart := strings.HasPrefix(comparatee, "%")` before any re-assignment → `hasPrefix param "%"`);
* a leaf is `return &T{…}, nil`: the matcher type `T` is not named — the leaf carries the translated body `MB` of
  `T`'s `Matches` method and the value of the field that `Matches` reads (by type: the `string` field is the match
  string, `[]byte` the scratch buffer of the package's `ToUpper(*[]byte, string)`, `*regexp.Regexp` the compiled
  expression) — or the regular-expression leaf `r, err := regexp.Compile(src); if err != nil { return nil, … };
  return &T{r}, nil`.

Everything is named by ROLE; whatever is not understood becomes `.opaque "<text>"`, which has no meaning (`stuck`).

`MEnv` holds the three library functions the code calls and this model does not define: `strings.ToUpper`, the package's
own `ToUpper(&buf, ·)` (mirrored and proved equal to the former in QF/Core/Upper.lean, for every buffer size — which is
why the size of the `make([]byte, n)` buffer is not part of a term) and `regexp.QuoteMeta(s) != s`.
Slicing out of range panics: `SE.eval` is `none`.
-/
namespace QF

/-- string terms over the original parameter of `NewMatcher` -/
inductive SE where
  | param
  | lit (b : Bytes)
  /-- `a + b` -/
  | cat (a b : SE)
  /-- `a[1:]` -/
  | dropFirst (a : SE)
  /-- `a[:len(a)-1]` -/
  | dropLast (a : SE)
  /-- `strings.ToUpper(a)` -/
  | upper (a : SE)
  /-- `strings.TrimPrefix(a, l)` -/
  | trimPrefix (a : SE) (l : Bytes)
  /-- `strings.TrimSuffix(a, l)` -/
  | trimSuffix (a : SE) (l : Bytes)
  | opaque (txt : String)
  deriving DecidableEq, Repr, Inhabited

/-- conditions of `NewMatcher` -/
inductive MC where
  /-- `strings.HasPrefix(a, l)` -/
  | hasPrefix (a : SE) (l : Bytes)
  /-- `strings.HasSuffix(a, l)` -/
  | hasSuffix (a : SE) (l : Bytes)
  /-- `regexp.QuoteMeta(a) != a` -/
  | quoteMetaNe (a : SE)
  /-- the bool parameter -/
  | caseSensitive
  | not (c : MC)
  | and (a b : MC)
  | or (a b : MC)
  | opaque (txt : String)
  deriving DecidableEq, Repr, Inhabited

/-- operands of a `Matches` body -/
inductive MO where
  /-- the parameter `s` -/
  | cell
  /-- the `string` field of the receiver -/
  | matchString
  /-- `ToUpper(&m.<[]byte field>, s)`: the package's own upper-casing of the cell -/
  | upperCell
  | opaque (txt : String)
  deriving DecidableEq, Repr, Inhabited

/-- bodies `return <e>` of the `Matches` methods -/
inductive MB where
  /-- `strings.HasPrefix(x, y)` -/
  | hasPrefix (x y : MO)
  /-- `strings.HasSuffix(x, y)` -/
  | hasSuffix (x y : MO)
  /-- `strings.Contains(x, y)` -/
  | contains (x y : MO)
  /-- `x == y` (the extractor puts the cell side first) -/
  | eq (x y : MO)
  /-- `m.<*regexp.Regexp field>.MatchString(x)` -/
  | regexpMatch (x : MO)
  | opaque (txt : String)
  deriving DecidableEq, Repr, Inhabited

/-- the decision tree of `NewMatcher` -/
inductive MT where
  | ite (c : MC) (t e : MT)
  /-- `r, err := regexp.Compile(src); if err != nil { return nil, <err> }; return &T{<regexp field>: r}, nil`; `body`:
  `T.Matches` -/
  | regexp (src : SE) (body : MB)
  /-- `return &T{<string field>: ms, [<[]byte field>: make([]byte, n)]}, nil`; `body`: `T.Matches` -/
  | mk (body : MB) (ms : SE)
  | opaque (txt : String)
  deriving DecidableEq, Repr, Inhabited

structure MEnv where
  /-- `strings.ToUpper` -/
  toUpperStd : Bytes → Bytes
  /-- the package's `ToUpper(&buf, ·)` -/
  toUpperBuf : Bytes → Bytes
  /-- `regexp.QuoteMeta(s) != s` -/
  quoteMetaNe : Bytes → Bool

/-- `strings.Contains(s, p)` -/
def infixB (p : Bytes) : Bytes → Bool
  | [] => p.isPrefixOf []
  | a :: t => p.isPrefixOf (a :: t) || infixB p t

/-- `strings.TrimPrefix(a, l)` -/
def trimPrefixB (a l : Bytes) : Bytes := if l.isPrefixOf a then a.drop l.length else a

/-- `strings.TrimSuffix(a, l)` -/
def trimSuffixB (a l : Bytes) : Bytes := if l.isSuffixOf a then a.take (a.length - l.length) else a

/-- the value of a string term; `none`: a slice out of range (panic) or an untranslated part -/
def SE.eval (E : MEnv) (pat : Bytes) : SE → Option Bytes
  | .param => some pat
  | .lit b => some b
  | .cat a b =>
    match a.eval E pat, b.eval E pat with
    | some x, some y => some (x ++ y)
    | _, _ => none
  | .dropFirst a =>
    match a.eval E pat with
    | some (_ :: t) => some t
    | _ => none
  | .dropLast a =>
    match a.eval E pat with
    | some [] => none
    | some x => some x.dropLast
    | none => none
  | .upper a => (a.eval E pat).map E.toUpperStd
  | .trimPrefix a l => (a.eval E pat).map (trimPrefixB · l)
  | .trimSuffix a l => (a.eval E pat).map (trimSuffixB · l)
  | .opaque _ => none

def MC.eval (E : MEnv) (pat : Bytes) (cs : Bool) : MC → Option Bool
  | .hasPrefix a l => (a.eval E pat).map (fun x => l.isPrefixOf x)
  | .hasSuffix a l => (a.eval E pat).map (fun x => l.isSuffixOf x)
  | .quoteMetaNe a => (a.eval E pat).map E.quoteMetaNe
  | .caseSensitive => some cs
  | .not c => (c.eval E pat cs).map (!·)
  | .and a b =>
    -- Go's && does not evaluate b when a is false
    match a.eval E pat cs with
    | some true => b.eval E pat cs
    | r => r
  | .or a b =>
    match a.eval E pat cs with
    | some false => b.eval E pat cs
    | r => r
  | .opaque _ => none

/-- what `NewMatcher` returns -/
inductive MOut where
  /-- the matcher of the compiled regular expression `src`, or the error of `regexp.Compile(src)` -/
  | regexp (src : Bytes) (body : MB)
  /-- a matcher with `Matches` body `body` and match string `ms` -/
  | mk (body : MB) (ms : Bytes)
  /-- a panic, or an untranslated part -/
  | stuck
  deriving DecidableEq, Repr, Inhabited

def MT.run (E : MEnv) (pat : Bytes) (cs : Bool) : MT → MOut
  | .ite c t e =>
    match c.eval E pat cs with
    | some true => t.run E pat cs
    | some false => e.run E pat cs
    | none => .stuck
  | .regexp src body =>
    match src.eval E pat with
    | some s => .regexp s body
    | none => .stuck
  | .mk body ms =>
    match ms.eval E pat with
    | some m => .mk body m
    | none => .stuck
  | .opaque _ => .stuck

def MO.eval (E : MEnv) (ms cell : Bytes) : MO → Option Bytes
  | .cell => some cell
  | .matchString => some ms
  | .upperCell => some (E.toUpperBuf cell)
  | .opaque _ => none

/-- `m.Matches(cell)` for a matcher with match string `ms`; `none`: no meaning in this model (regular expressions,
untranslated parts) -/
def MB.eval (E : MEnv) (ms cell : Bytes) : MB → Option Bool
  | .hasPrefix x y =>
    match x.eval E ms cell, y.eval E ms cell with
    | some a, some b => some (b.isPrefixOf a)
    | _, _ => none
  | .hasSuffix x y =>
    match x.eval E ms cell, y.eval E ms cell with
    | some a, some b => some (b.isSuffixOf a)
    | _, _ => none
  | .contains x y =>
    match x.eval E ms cell, y.eval E ms cell with
    | some a, some b => some (infixB b a)
    | _, _ => none
  | .eq x y =>
    match x.eval E ms cell, y.eval E ms cell with
    | some a, some b => some (a == b)
    | _, _ => none
  | .regexpMatch _ => none
  | .opaque _ => none

/-- `m, _ := NewMatcher(pat, cs); m.Matches(cell)` for the string matchers -/
def MT.matches (E : MEnv) (t : MT) (pat : Bytes) (cs : Bool) (cell : Bytes) : Option Bool :=
  match t.run E pat cs with
  | .mk body ms => body.eval E ms cell
  | _ => none

/-! ## Flattening: the leaf reached for given answers of the four tests `NewMatcher` may make on its parameters -/

/-- the answers: does the parameter start / end with "%", does it contain metacharacters, the bool parameter -/
structure MFlags where
  fs : Bool
  fe : Bool
  hasMeta : Bool
  cs : Bool
  deriving DecidableEq, Repr

def pct : Bytes := [37]

/-- a condition as a function of the flags; `none`: it is not one of the four tests on the ORIGINAL parameter -/
def MC.abs (F : MFlags) : MC → Option Bool
  | .hasPrefix .param l => if l = pct then some F.fs else none
  | .hasSuffix .param l => if l = pct then some F.fe else none
  | .quoteMetaNe .param => some F.hasMeta
  | .caseSensitive => some F.cs
  | .not c => (c.abs F).map (!·)
  | .and a b =>
    match a.abs F with
    | some true => b.abs F
    | r => r
  | .or a b =>
    match a.abs F with
    | some false => b.abs F
    | r => r
  | _ => none

/-- the leaf of the tree for these flags -/
def MT.flatten (F : MFlags) : MT → Option MT
  | .ite c t e =>
    match c.abs F with
    | some true => t.flatten F
    | some false => e.flatten F
    | none => none
  | .opaque _ => none
  | l => some l

def MFlags.all : List MFlags :=
  [true, false].flatMap fun a => [true, false].flatMap fun b => [true, false].flatMap fun c => [true, false].map fun d => ⟨a, b, c, d⟩

/-- the flags of an actual call -/
def MFlags.of (E : MEnv) (pat : Bytes) (cs : Bool) : MFlags :=
  ⟨pct.isPrefixOf pat, pct.isSuffixOf pat, E.quoteMetaNe pat, cs⟩

theorem MFlags.of_mem (E : MEnv) (pat : Bytes) (cs : Bool) : MFlags.of E pat cs ∈ MFlags.all := by
  unfold MFlags.of
  cases pct.isPrefixOf pat <;> cases pct.isSuffixOf pat <;> cases E.quoteMetaNe pat <;> cases cs <;> decide

theorem MC.abs_sound (E : MEnv) (pat : Bytes) (cs : Bool) (c : MC) :
    ∀ v, c.abs (MFlags.of E pat cs) = some v → c.eval E pat cs = some v := by
  induction c with
  | hasPrefix a l =>
    intro v h
    cases a with
    | param =>
      simp only [MC.abs] at h
      split at h
      · rename_i hl; subst hl; simpa [MC.eval, SE.eval, MFlags.of] using h
      · exact absurd h (by simp)
    | _ => exact absurd h (by simp [MC.abs])
  | hasSuffix a l =>
    intro v h
    cases a with
    | param =>
      simp only [MC.abs] at h
      split at h
      · rename_i hl; subst hl; simpa [MC.eval, SE.eval, MFlags.of] using h
      · exact absurd h (by simp)
    | _ => exact absurd h (by simp [MC.abs])
  | quoteMetaNe a =>
    intro v h
    cases a with
    | param => simpa [MC.abs, MC.eval, SE.eval, MFlags.of] using h
    | _ => exact absurd h (by simp [MC.abs])
  | caseSensitive => intro v h; simpa [MC.eval, MC.abs, MFlags.of] using h
  | not c ih =>
    intro v h
    simp only [MC.abs, Option.map_eq_some_iff] at h
    obtain ⟨w, hw, rfl⟩ := h
    simp [MC.eval, ih w hw]
  | and a b iha ihb =>
    intro v h
    simp only [MC.abs] at h
    cases ha : a.abs (MFlags.of E pat cs) with
    | none => rw [ha] at h; exact absurd h (by simp)
    | some w =>
      rw [ha] at h
      cases w
      · simp only at h; simp only [MC.eval, iha false ha]; exact h
      · simp only at h; simp only [MC.eval, iha true ha]; exact ihb v h
  | or a b iha ihb =>
    intro v h
    simp only [MC.abs] at h
    cases ha : a.abs (MFlags.of E pat cs) with
    | none => rw [ha] at h; exact absurd h (by simp)
    | some w =>
      rw [ha] at h
      cases w
      · simp only at h; simp only [MC.eval, iha false ha]; exact ihb v h
      · simp only at h; simp only [MC.eval, iha true ha]; exact h
  | «opaque» t => intro v h; exact absurd h (by simp [MC.abs])

/-- running the tree is running the leaf that `flatten` finds for the flags of the call -/
theorem MT.run_flatten (E : MEnv) (pat : Bytes) (cs : Bool) (t : MT) :
    ∀ l, t.flatten (MFlags.of E pat cs) = some l → t.run E pat cs = l.run E pat cs := by
  induction t with
  | ite c t e iht ihe =>
    intro l h
    simp only [MT.flatten] at h
    cases hc : c.abs (MFlags.of E pat cs) with
    | none => rw [hc] at h; exact absurd h (by simp)
    | some w =>
      rw [hc] at h
      have := MC.abs_sound E pat cs c w hc
      cases w
      · simp only at h; simp only [MT.run, this]; exact ihe l h
      · simp only at h; simp only [MT.run, this]; exact iht l h
  | regexp s b => intro l h; simp only [MT.flatten, Option.some.injEq] at h; rw [← h]
  | mk b m => intro l h; simp only [MT.flatten, Option.some.injEq] at h; rw [← h]
  | «opaque» t => intro l h; exact absurd h (by simp [MT.flatten])

end QF
