import QF.Core.KExpr
/-!
# DE — the language of the filter DISPATCH in front of the kernels, and its Go semantics

Every column package (`internal/{i,f,b,s,e}column`) has

    func (c Column) filterBuiltIn(index index.Int, comparator string, comparatee interface{}, bIndex index.Bool) error

which decides, from the dynamic type of the comparatee and the comparator string, which comparator table to consult,
which kernel to run with which argument, and when to return an error instead; `Column.Filter` decides between
`filterBuiltIn` and the custom predicates from the dynamic type of the comparator, `filterCustom2` checks that its
comparatee is a column; ecolumn's `equalTypes` (→ `QStep`) decides whether two enum columns may be compared.

The extractor (go/cmd/extract/dast.go) executes these bodies symbolically, once for every KIND of comparatee
(`int`, `float64`, `bool`, `string`, `[]int`, `[]string`, a `Column` of the package, `nil`, anything else), inlining the
helpers that only inspect and convert the comparatee (`intComp`, `newIntSet`, `qfstrings.InterfaceSliceToStringSlice`),
and writes what remains — the decisions that depend on the comparator string, the value table, the `strict` flag, the
constant — as a term of `DE` to `QF/Gen/Dispatch.lean` on every run.

Terms name things by ROLE: "the function found by the look-up", "the constant (after the conversion `int(·)`)", "the
set built from the elements of the comparatee", "the cells of the comparatee column", "the value-table field", "the bool
field of the column struct" — never by the Go identifier.

`DE.run` is the meaning of a term: given the column (package, value table, strict flag, number of cells), the
comparator string, the comparatee, the comparator tables and the kernel terms (`Gen.tables`, `Gen.kernelAst`) it
answers `err` (a non-nil error is returned), `upd u` (nil is returned; a mask entry that held `b` in a row with cells
`x`, `y` holds `u x y b` afterwards) or `stuck` (the term has no meaning: untranslated code, a call of a table entry
that was not checked, a role that is not available on this path).
-/
namespace QF

/-! ## `equalTypes` of ecolumn -/

/-- Conditions of `func equalTypes(s1, s2 Column) bool`, by role (`s1` first, `s2` second parameter). -/
inductive QCond where
  /-- `len(s1.values) != len(s2.values)` -/
  | lenValuesNe
  /-- `len(s1.data) != len(s2.data)` -/
  | lenDataNe
  | or (a b : QCond)
  | opaque (txt : String)
  deriving DecidableEq, Repr, Inhabited

inductive QStep where
  /-- `if c { return false }` -/
  | rejectIf (c : QCond)
  /-- `for i, val := range s1.values { if val != s2.values[i] { return false } }` -/
  | rejectIfValueDiffers
  /-- `return true` -/
  | accept
  | opaque (txt : String)
  deriving DecidableEq, Repr, Inhabited

def QCond.eval (v1 : List Bytes) (n1 : Nat) (v2 : List Bytes) (n2 : Nat) : QCond → Option Bool
  | .lenValuesNe => some (v1.length != v2.length)
  | .lenDataNe => some (n1 != n2)
  | .or a b =>
    match a.eval v1 n1 v2 n2, b.eval v1 n1 v2 n2 with
    | some x, some y => some (x || y)
    | _, _ => none
  | .opaque _ => none

/-- `equalTypes(s1, s2)`; `none`: no meaning (opaque, a path without `return`, or `s2.values[i]` out of range). -/
def runEqualTypes (v1 : List Bytes) (n1 : Nat) (v2 : List Bytes) (n2 : Nat) : List QStep → Option Bool
  | [] => none
  | .accept :: _ => some true
  | .opaque _ :: _ => none
  | .rejectIf c :: ss =>
    match c.eval v1 n1 v2 n2 with
    | some true => some false
    | some false => runEqualTypes v1 n1 v2 n2 ss
    | none => none
  | .rejectIfValueDiffers :: ss =>
    if v2.length < v1.length then none
    else if (List.range v1.length).any (fun i => v1[i]! != v2[i]!) then some false
    else runEqualTypes v1 n1 v2 n2 ss

/-! ## The dispatch language -/

/-- Conversions of the constant. -/
inductive DConv where
  /-- Go `int(x)` of a `float64` -/
  | floatToInt
  /-- Go `float64(x)` of an `int` -/
  | intToFloat
  deriving DecidableEq, Repr, Inhabited

/-- What a kernel is called with besides the index, the column and the mask. -/
inductive DRole where
  /-- the comparatee asserted to its dynamic type (after the conversions on the path; inside `enumSearch … found`: the
  `enumVal` of the position found) -/
  | const
  /-- the set built from all elements of the comparatee slice (`newIntSet`, `qfstrings.NewStringSet`) -/
  | set
  /-- the cells of the comparatee column -/
  | col2
  /-- nothing (zero-argument kernels) -/
  | none
  deriving DecidableEq, Repr, Inhabited

/-- Dispatch trees, by role. -/
inductive DE where
  /-- the decision on the dynamic type of the comparatee; one subtree per kind, produced by executing the body for that
  kind. `onCol`: a `Column` of the same package; a column of another package is `onOther`. -/
  | typeSwitch (onInt onFloat onBool onStr onInts onStrs onCol onNil onOther : DE)
  /-- `f, ok := table[comparator]`: `onHit` runs with `f` bound to the entry, `onMiss` when there is none -/
  | lookup (table : String) (onHit onMiss : DE)
  /-- `f(index, <column>, <arg>, bIndex)` for the entry found by the innermost look-up; `ret`: the call's error result
  is what the function returns (`return f(…)`), otherwise it has none or it is dropped -/
  | callKernel (arg : DRole) (ret : Bool)
  /-- `bset[, err] := f(<arg>, <value table>)` for the entry found, `if err != nil { return … }` when `checked`, then
  `c.<reader>(index, bset, bIndex)` -/
  | callBitset (reader : String) (arg : DRole) (checked : Bool)
  /-- `return <non-nil error>`; the tag is the message, for the reader only -/
  | err (tag : String)
  /-- `math.IsNaN(<const>)` -/
  | ifNaN (t e : DE)
  /-- `for i, v := range <value table> { if v == <const> { found[const := enumVal(i)]; return } }; notFound` -/
  | enumSearch (found notFound : DE)
  /-- the bool field of the column struct -/
  | ifStrict (t e : DE)
  /-- `comparator == op` -/
  | ifOpIs (op : String) (t e : DE)
  /-- `equalTypes(c, <comparatee column>)` -/
  | ifEqualTypes (t e : DE)
  /-- `for i := range bIndex { bIndex[i] = true }` -/
  | fillAllTrue
  /-- `return nil` without touching the mask -/
  | nothing
  /-- the constant is converted before `k` uses it -/
  | convert (c : DConv) (k : DE)
  /-- `Column.Filter`: the decision on the dynamic type of the comparator: a string, a one-argument predicate on the
  package's element type, a two-argument predicate, anything else -/
  | cmpSwitch (onStr onFn1 onFn2 onOther : DE)
  /-- `c.<entry>(index, <comparator asserted to its type>, [comparatee,] bIndex)` for another entry point of the package,
  named by the role its signature gives it (`builtIn`: comparator `string`; `custom1` / `custom2`: a predicate of one /
  two arguments); `ret`: its error is what the function returns -/
  | callEntry (role : String) (ret : Bool)
  /-- the mask loop of the function itself (its term is in `Gen.kernelAst` under the function's name) -/
  | ownLoop (fn : String) (arg : DRole)
  | opaque (txt : String)
  deriving DecidableEq, Repr, Inhabited

/-- The comparatee as a Go value, by kind. -/
inductive DArg where
  | int (v : Int)
  | float (b : UInt64)
  | bool (b : Bool)
  | str (s : Bytes)
  /-- `[]int` -/
  | ints (l : List Int)
  /-- `[]string` -/
  | strs (l : List Bytes)
  /-- a `Column` of the package of type `ty` with value table `vals` and `n` cells -/
  | col (ty : CType) (vals : List Bytes) (n : Nat)
  | nil
  /-- a value whose dynamic type none of the type tests of the package mentions (`struct{}{}`, a nil `*string`, a
  `Column` of another package, …). `[]float64` and `[]interface{}` comparatees, which `icolumn.newIntSet` and
  `qfstrings.InterfaceSliceToStringSlice` convert, are NOT covered by this model (the spec's `Arg` has no such argument). -/
  | other
  deriving Repr, Inhabited

/-- The comparator as a Go value, by kind. -/
inductive DCmp where
  | str (op : String)
  /-- `func(T) bool` where `T` is the element type of the package of column type `ty` (`*string` for string and enum) -/
  | fn1 (ty : CType)
  /-- `func(T, T) bool` -/
  | fn2 (ty : CType)
  | other
  deriving Repr, Inhabited

structure DEnv where
  tables : List (String × String × List (String × String))
  kernels : List (String × String × String × KE)
  /-- the entry points that take the mask: (package, role, term), role ∈ filter | builtIn | custom1 | custom2 -/
  entries : List (String × String × DE) := []
  eqTypes : List QStep := []
  /-- validity of like patterns, `Matches` -/
  lo : LikeOracle
  /-- Go's `int(x)` for a `float64` (truncation; implementation-defined outside the range of `int`) -/
  f2i : UInt64 → Int
  /-- Go's `float64(x)` for an `int` -/
  i2f : Int → UInt64
  /-- the user's predicates -/
  P : KParams := {}
  /-- the receiver: column type (= package), value table, strict flag, number of cells -/
  ty : CType
  vals : List Bytes := []
  strict : Bool := false
  n : Nat := 0
  cmp : DCmp
  arg : DArg

inductive DRes where
  | err
  | upd (u : Cell → Cell → Bool → Option Bool)
  | stuck

def DRes.isErr : DRes → Bool
  | .err => true
  | _ => false

def DE.pkgOf : CType → String
  | .int => "icolumn" | .float => "fcolumn" | .bool => "bcolumn" | .string => "scolumn" | .enum => "ecolumn" | .undef => ""

/-- the comparator string (`filterBuiltIn` is only reached with one) -/
def DEnv.op (E : DEnv) : Option String := match E.cmp with | .str op => some op | _ => none

/-- the entry of a comparator table -/
def DEnv.tableFn (E : DEnv) (tab op : String) : Option String :=
  (E.tables.find? (fun t => t.1 == DE.pkgOf E.ty && t.2.1 == tab)).bind (fun t => t.2.2.lookup op)

/-- (shape, term) of a function of the receiver's package -/
def DEnv.kernel (E : DEnv) (fn : String) : Option (String × KE) :=
  (E.kernels.find? (fun k => k.1 == DE.pkgOf E.ty && k.2.1 == fn)).map (fun k => k.2.2)

def DEnv.entry (E : DEnv) (role : String) : Option DE :=
  (E.entries.find? (fun k => k.1 == DE.pkgOf E.ty && k.2.1 == role)).map (fun k => k.2.2)

/-- What is known on a path. -/
structure DSt where
  /-- the constant as the kernel will see it -/
  const : Option Cell
  /-- inside `enumSearch … found`: the constant is the `enumVal` of a position of the value table -/
  searched : Bool := false
  /-- the entry found by the innermost look-up -/
  fn : Option String := none

def DArg.const : DArg → Option Cell
  | .int v => some (.int v)
  | .float b => some (.float b)
  | .bool b => some (.bool b)
  | .str s => some (.str (some s))
  | _ => none

/-- The bitset the builder `for i, v := range values { if e(v) { bset.set(enumVal(i)) } }` returns, read with `isSet`. -/
def DE.bsetOf (vals : List Bytes) (P : KParams) (c : Cell) (builder : KE) : Nat → Bool := fun i =>
  match vals[i]? with
  | some v => (builder.eval .string [] P (.str (some v)) (.str none) c).getD false
  | none => false

/-- `m, err := qfstrings.NewMatcher(pat, cs)` of a kernel's statements in front of the loop. -/
def KE.matcher : KE → Option (KE × KE)
  | .matches p c _ => some (p, c)
  | .and a b | .or a b =>
    match a.matcher with
    | some m => some m
    | none => b.matcher
  | .not a => a.matcher
  | _ => none

def hasPre (sh : String) : Bool := sh == "guarded+pre" || sh == "unguarded+pre" || sh == "bitset+pre"

/-- Do the statements in front of a kernel's loop let it run? The only ones a table kernel has today are
`m, err := NewMatcher(<const>, <literal>); if err != nil { return err }`. `none`: statements this model does not know. -/
def preOk (lo : LikeOracle) (sh : String) (ke : KE) (c : Cell) : Option Bool :=
  if hasPre sh then
    match ke.matcher with
    | some (.const, .lit cs) =>
      match c with
      | .str (some v) => some (lo.valid v (!cs))
      | _ => none
    | _ => none
  else some true

/-- The kernel parameters and the constant a role stands for on this path. `wantSearched`: the callee takes an `enumVal`. -/
def roleArgs (E : DEnv) (σ : DSt) (wantSearched : Bool) : DRole → Option (KParams × Cell)
  | .const =>
    match σ.const with
    | some k => if E.ty = .enum ∧ σ.searched ≠ wantSearched then none else some (E.P, k)
    | none => none
  | .set =>
    match E.arg with
    | .ints l => some ({ E.P with ints := l }, .int 0)
    | .strs l => some ({ E.P with strs := l }, .int 0)
    | _ => none
  | .col2 =>
    match E.arg with
    | .col ty _ _ => if ty = E.ty then some (E.P, .int 0) else none
    | _ => none
  | .none => some (E.P, .int 0)

def DConv.apply (E : DEnv) : DConv → Cell → Option Cell
  | .floatToInt, .float b => some (.int (E.f2i b))
  | .intToFloat, .int v => some (.float (E.i2f v))
  | _, _ => none

/-- the function the comparator must be for `onFn1` / `onFn2` of the receiver's package -/
def fnTy : CType → CType
  | .enum => .string
  | t => t

/-- The meaning of a dispatch term. `sub fn σ` is the meaning of a call of another entry point of the package
(`Column.Filter` → `filterBuiltIn`, `filterCustom2`), see `DEnv.run`. -/
def DE.run (E : DEnv) (sub : String → DSt → DRes) : DE → DSt → DRes
  | .typeSwitch a b c d e f g h i, σ =>
    match E.arg with
    | .int _ => a.run E sub σ
    | .float _ => b.run E sub σ
    | .bool _ => c.run E sub σ
    | .str _ => d.run E sub σ
    | .ints _ => e.run E sub σ
    | .strs _ => f.run E sub σ
    | .col ty _ _ => if ty = E.ty then g.run E sub σ else i.run E sub σ
    | .nil => h.run E sub σ
    | .other => i.run E sub σ
  | .lookup tab hit miss, σ =>
    match E.op with
    | none => .stuck
    | some op =>
      match E.tableFn tab op with
      | some fn => hit.run E sub { σ with fn := some fn }
      | none => miss.run E sub σ
  | .callKernel role ret, σ =>
    match σ.fn.bind E.kernel with
    | none => .stuck
    | some (sh, ke) =>
      match roleArgs E σ true role with
      | none => .stuck
      | some (P, c) =>
        match preOk E.lo sh ke c with
        | none => .stuck
        | some false => if ret then .err else .upd (fun _ _ b => some b)
        | some true => .upd (fun x y b => kstep sh (ke.eval E.ty E.vals P x y c) b)
  | .callBitset reader role checked, σ =>
    match σ.fn.bind E.kernel, E.kernel reader with
    | some (bsh, B), some (rsh, R) =>
      if bsh = "bitset" ∨ bsh = "bitset+pre" then
        match roleArgs E σ false role with
        | none => .stuck
        | some (P, c) =>
          match preOk E.lo bsh B c with
          | none => .stuck
          | some false => if checked then .err else .stuck
          | some true => .upd (fun x y b => kstep rsh (R.eval E.ty E.vals { P with bset := DE.bsetOf E.vals P c B } x y c) b)
      else .stuck
    | _, _ => .stuck
  | .err _, _ => .err
  | .ifNaN t e, σ =>
    match σ.const with
    | some (.float b) => if F64.isNaN b then t.run E sub σ else e.run E sub σ
    | _ => .stuck
  | .enumSearch found notFound, σ =>
    match E.ty, σ.const, σ.searched with
    | .enum, some (.str (some s)), false =>
      match enumRank E.vals s with
      | some _ => found.run E sub { σ with searched := true }
      | none => notFound.run E sub σ
    | _, _, _ => .stuck
  | .ifStrict t e, σ => if E.strict then t.run E sub σ else e.run E sub σ
  | .ifOpIs op t e, σ =>
    match E.op with
    | none => .stuck
    | some o => if o = op then t.run E sub σ else e.run E sub σ
  | .ifEqualTypes t e, σ =>
    match E.arg with
    | .col ty vals n =>
      if ty = E.ty then
        match runEqualTypes E.vals E.n vals n E.eqTypes with
        | some true => t.run E sub σ
        | some false => e.run E sub σ
        | none => .stuck
      else .stuck
    | _ => .stuck
  | .fillAllTrue, _ => .upd (fun _ _ _ => some true)
  | .nothing, _ => .upd (fun _ _ b => some b)
  | .convert cv k, σ =>
    match σ.const.bind (cv.apply E) with
    | some c => k.run E sub { σ with const := some c }
    | none => .stuck
  | .cmpSwitch a b c d, σ =>
    match E.cmp with
    | .str _ => a.run E sub σ
    | .fn1 ty => if ty = fnTy E.ty then b.run E sub σ else d.run E sub σ
    | .fn2 ty => if ty = fnTy E.ty then c.run E sub σ else d.run E sub σ
    | .other => d.run E sub σ
  | .callEntry fn ret, σ =>
    match sub fn σ with
    | .err => if ret then .err else .upd (fun _ _ b => some b)
    | r => r
  | .ownLoop fn role, σ =>
    match E.kernel fn with
    | none => .stuck
    | some (sh, ke) =>
      if (sh = "guarded" ∨ sh = "guarded+pre") ∧ ke.matcher = none then
        match roleArgs E σ true role with
        | none => .stuck
        | some (P, c) => .upd (fun x y b => kstep sh (ke.eval E.ty E.vals P x y c) b)
      else .stuck
  | .opaque _, _ => .stuck

def DEnv.start (E : DEnv) : DSt := { const := E.arg.const }

/-- `c.filterBuiltIn(index, op, arg, bIndex)` for the term `d` of the package's `filterBuiltIn`. -/
def DEnv.runBuiltIn (E : DEnv) (d : DE) : DRes := d.run E (fun _ _ => .stuck) E.start

/-- `c.Filter(index, cmp, arg, bIndex)`: the term of `Column.Filter`, whose calls of other entry points of the package
are the terms of those (which call no further entry point). -/
def DEnv.runFilter (E : DEnv) : DRes :=
  match E.entry "filter" with
  | none => .stuck
  | some d => d.run E (fun fn σ => match E.entry fn with | some d' => d'.run E (fun _ _ => .stuck) σ | none => .stuck) E.start

/-- Does the term contain a part the translator did not understand? -/
def DE.hasOpaque : DE → Bool
  | .opaque _ => true
  | .typeSwitch a b c d e f g h i =>
    a.hasOpaque || b.hasOpaque || c.hasOpaque || d.hasOpaque || e.hasOpaque || f.hasOpaque || g.hasOpaque || h.hasOpaque || i.hasOpaque
  | .lookup _ a b | .ifNaN a b | .enumSearch a b | .ifStrict a b | .ifOpIs _ a b | .ifEqualTypes a b => a.hasOpaque || b.hasOpaque
  | .cmpSwitch a b c d => a.hasOpaque || b.hasOpaque || c.hasOpaque || d.hasOpaque
  | .convert _ k => k.hasOpaque
  | _ => false

/-- The term without the error messages (they are for the reader). -/
def DE.untag : DE → DE
  | .err _ => .err ""
  | .typeSwitch a b c d e f g h i => .typeSwitch a.untag b.untag c.untag d.untag e.untag f.untag g.untag h.untag i.untag
  | .lookup t a b => .lookup t a.untag b.untag
  | .ifNaN a b => .ifNaN a.untag b.untag
  | .enumSearch a b => .enumSearch a.untag b.untag
  | .ifStrict a b => .ifStrict a.untag b.untag
  | .ifOpIs o a b => .ifOpIs o a.untag b.untag
  | .ifEqualTypes a b => .ifEqualTypes a.untag b.untag
  | .cmpSwitch a b c d => .cmpSwitch a.untag b.untag c.untag d.untag
  | .convert c k => .convert c k.untag
  | d => d

def QCond.hasOpaque : QCond → Bool
  | .opaque _ => true
  | .or a b => a.hasOpaque || b.hasOpaque
  | _ => false

def QStep.hasOpaque : QStep → Bool
  | .opaque _ => true
  | .rejectIf c => c.hasOpaque
  | _ => false

end QF
