/-! Prototype: schedule-independence of the (fixed) quoted-field loop by lock-step simulation
    between the refilling buffer machine (L0) and the same loop on a fully loaded buffer (L1).
    The loop is the repaired `nextQuotedField`: look-ahead until two bytes or EOF; a delimiter as the
    very last byte after the closing quote is consumed (the row goes on); a carriage return is skipped
    only after a closing quote and is content inside the quotes. -/
namespace Sim
abbrev Byte := UInt8

/-- machine state: `data` loaded bytes (logical view: positions < data.length are valid),
    `future` = bytes the reader has not delivered yet, `sched` = chunk sizes (each ≥ 1). -/
structure St where
  data : List Byte
  future : List Byte
  sched : List Nat
  cursor : Nat
deriving Repr

inductive RErr | eof deriving Repr, DecidableEq

/-- more(): append next chunk (≥ 1 byte if any left) -/
def St.more (s : St) : St × Option RErr :=
  if s.future.isEmpty then (s, some .eof) else
  let k := match s.sched with | [] => s.future.length | k :: _ => max k 1
  ({ s with data := s.data ++ s.future.take k, future := s.future.drop k, sched := s.sched.drop 1 }, none)

/-- the *fixed* lookahead: loop until two bytes are available or EOF -/
def ensure2 (fuel : Nat) (s : St) : St × Option RErr :=
  match fuel with
  | 0 => (s, some .eof)
  | fuel + 1 =>
    if s.cursor + 1 ≥ s.data.length then
      match s.more with
      | (s', some e) => (s', some e)
      | (s', none) => ensure2 fuel s'
    else (s, none)

def QUOTE : Byte := 34
def LF : Byte := 10
def CR : Byte := 13

structure Res where
  field : List Byte
  hitEOL : Bool
  err : Option RErr
  cursor : Nat
deriving Repr, DecidableEq

def St.slice (s : St) (i j : Nat) : List Byte := (s.data.take j).drop i

def quoted (delim : Byte) (fuel : Nat) (s : St) (start w qc : Nat) : Option (Res × List Byte) :=
  match fuel with
  | 0 => none
  | fuel + 1 =>
    match ensure2 (s.future.length + 1) s with
    | (s, some e) =>
      -- `err == io.EOF` (the only error of this model) `&& quoteCount%2 != 0 && cursor < len(data) &&
      -- data[cursor] == delimiter`: the input ends with a delimiter right after the closing quote
      if qc % 2 != 0 && decide (s.cursor < s.data.length) && s.data[s.cursor]? == some delim then
        some (⟨s.slice start w, false, none, s.cursor + 1⟩, s.data)
      else some (⟨s.slice start w, true, some e, s.cursor⟩, s.data)
    | (s, none) =>
      match s.data[s.cursor]? with
      | none => none
      | some ch =>
        let s := { s with cursor := s.cursor + 1 }
        -- a function (as in `Full.quoted`), so that under strict evaluation its recursive call runs only in
        -- the branch that takes it
        let keep : Unit → Option (Res × List Byte) := fun _ =>
          let w' := w + 1
          if w' != s.cursor then
            match s.data[s.cursor]? with
            | none => none     -- would read stale memory: excluded by ensure2
            | some nb => quoted delim fuel { s with data := s.data.set w' nb } start w' 0
          else quoted delim fuel s start w' 0
        if ch == delim then (if qc % 2 != 0 then some (⟨s.slice start w, false, none, s.cursor⟩, s.data) else keep ())
        else if ch == LF then (if qc % 2 != 0 then some (⟨s.slice start w, true, none, s.cursor⟩, s.data) else keep ())
        else if ch == CR then (if qc % 2 != 0 then quoted delim fuel s start w qc else keep ())
        else if ch == QUOTE then (if (qc + 1) % 2 == 1 then quoted delim fuel s start w (qc + 1) else keep ())
        else keep ()

/-- fully loaded twin of a state -/
def St.loaded (s : St) : St := { s with data := s.data ++ s.future, future := [], sched := [] }

#eval (quoted 44 100 { data := "\"a\"\"b".toUTF8.toList, future := "c\",x\n".toUTF8.toList, sched := List.replicate 20 1, cursor := 1 } 1 1 0).map (·.1)
#eval (quoted 44 100 (St.loaded { data := "\"a\"\"b".toUTF8.toList, future := "c\",x\n".toUTF8.toList, sched := [], cursor := 1 }) 1 1 0).map (·.1)

theorem more_spec (s : St) : (s.more).1.data ++ (s.more).1.future = s.data ++ s.future ∧ (s.more).1.cursor = s.cursor ∧
    ((s.more).2 = some .eof → s.future = [] ∧ (s.more).1 = s) ∧
    ((s.more).2 = none → (s.more).1.future.length < s.future.length) := by
  unfold St.more
  split
  · rename_i h; simp at h; simp [h]
  · rename_i h
    have hne : s.future ≠ [] := by simpa using h
    refine ⟨by simp [List.append_assoc], rfl, by simp, ?_⟩
    intro _
    simp only [List.length_drop]
    have : 0 < s.future.length := List.length_pos_iff.mpr hne
    split <;> simp <;> omega

theorem ensure2_spec (fuel : Nat) (s : St) (hf : s.future.length < fuel) :
    let r := ensure2 fuel s
    r.1.data ++ r.1.future = s.data ++ s.future ∧ r.1.cursor = s.cursor ∧
    (r.2 = some .eof → r.1.future = [] ∧ r.1.cursor + 1 ≥ r.1.data.length) ∧
    (r.2 = none → r.1.cursor + 1 < r.1.data.length) ∧ (r.2 = some .eof ∨ r.2 = none) := by
  induction fuel generalizing s with
  | zero => omega
  | succ n ih =>
    unfold ensure2
    split
    · rename_i hc
      obtain ⟨m1, m2, m3, m4⟩ := more_spec s
      generalize hm : s.more = mm at m1 m2 m3 m4
      obtain ⟨s', e⟩ := mm
      cases e with
      | some e =>
        cases e
        obtain ⟨h1, h2⟩ := m3 rfl
        simp only at h2 ⊢
        subst h2
        exact ⟨rfl, rfl, fun _ => ⟨h1, hc⟩, by simp, Or.inl trivial⟩
      | none =>
        simp only at m1 m2 m4 ⊢
        have := ih s' (by have := m4 trivial; omega)
        simp only at this
        obtain ⟨a, b, c, d, e⟩ := this
        exact ⟨by rw [a, m1], by rw [b, m2], c, d, e⟩
    · rename_i hc
      exact ⟨rfl, rfl, by simp, fun _ => by simp only; omega, Or.inr rfl⟩

/-- simulation relation: same cursor, loaded machine's data extends ours by our future -/
def Rel (s t : St) : Prop := t.data = s.data ++ s.future ∧ t.future = [] ∧ t.cursor = s.cursor

theorem ensure2_loaded (fuel : Nat) (t : St) (hf : t.future = []) (h0 : 0 < fuel) :
    ensure2 fuel t = (t, if t.cursor + 1 ≥ t.data.length then some .eof else none) := by
  cases fuel with
  | zero => omega
  | succ n =>
    unfold ensure2
    split
    · simp [St.more, hf]
    · rfl

theorem slice_append (a b : List Byte) (i j : Nat) (h : j ≤ a.length) :
    ((a ++ b).take j).drop i = (a.take j).drop i := by
  rw [List.take_append_of_le_length h]

theorem get_append (a b : List Byte) (i : Nat) (h : i < a.length) : (a ++ b)[i]? = a[i]? := by
  simp [List.getElem?_append_left h]

theorem set_append (a b : List Byte) (i : Nat) (x : Byte) (h : i < a.length) :
    (a ++ b).set i x = a.set i x ++ b := by
  simp [h]

theorem quoted_sim (delim : Byte) (fuel : Nat) : ∀ (s t : St) (start w qc : Nat),
    t.data = s.data ++ s.future → t.future = [] → t.cursor = s.cursor → w ≤ s.cursor →
    ∀ r d, quoted delim fuel s start w qc = some (r, d) → ∃ d', quoted delim fuel t start w qc = some (r, d') := by
  induction fuel with
  | zero => intro s t start w qc _ _ _ _ r d h; simp [quoted] at h
  | succ n ih =>
    intro s t start w qc hd hf hc hw r d h
    unfold quoted at h ⊢
    -- s side
    have es := ensure2_spec (s.future.length + 1) s (by omega)
    generalize ensure2 (s.future.length + 1) s = rs at es h
    obtain ⟨s1, e1⟩ := rs
    simp only at es
    obtain ⟨a1, a2, a3, a4, a5⟩ := es
    -- t side
    rw [ensure2_loaded _ t hf (by omega)]
    have htd : t.data = s1.data ++ s1.future := by rw [hd, a1]
    have htc : t.cursor = s1.cursor := by rw [hc, a2]
    rcases a5 with he | he
    · -- EOF on s side
      subst he
      obtain ⟨f0, f1⟩ := a3 rfl
      simp only at h
      have hlen : t.data.length = s1.data.length := by rw [htd, f0]; simp
      have htd' : t.data = s1.data := by rw [htd, f0, List.append_nil]
      simp only [htc, hlen, f1, ↓reduceIte]
      simp only [St.slice, htd'] at h ⊢
      by_cases hc : (qc % 2 != 0 && decide (s1.cursor < s1.data.length) && s1.data[s1.cursor]? == some delim) = true
      · simp only [hc, ↓reduceIte, Option.some.injEq, Prod.mk.injEq] at h ⊢
        exact ⟨_, h.1, rfl⟩
      · simp only [hc, Bool.false_eq_true, ↓reduceIte, Option.some.injEq, Prod.mk.injEq] at h ⊢
        exact ⟨_, h.1, rfl⟩
    · subst he
      have g1 := a4 rfl
      simp only at h
      have hlen : ¬ (t.cursor + 1 ≥ t.data.length) := by rw [htc, htd]; simp; omega
      simp only [hlen, ↓reduceIte]
      have hw1 : w ≤ s1.cursor := by omega
      -- read ch
      have hget : t.data[t.cursor]? = s1.data[s1.cursor]? := by
        rw [htd, htc]; exact get_append _ _ _ (by omega)
      rw [hget]
      cases hch : s1.data[s1.cursor]? with
      | none => rw [hch] at h; simp at h
      | some ch =>
        rw [hch] at h
        simp only at h ⊢
        -- related successor states
        have R1 : ({ t with cursor := t.cursor + 1 } : St).data = ({ s1 with cursor := s1.cursor + 1 } : St).data ++ s1.future := htd
        have hslice : ∀ (c : Nat), ({ t with cursor := c } : St).slice start w = ({ s1 with cursor := c } : St).slice start w := by
          intro c; simp only [St.slice, htd]; exact slice_append _ _ _ _ (by omega)
        -- the keep continuation
        have hkeep : ∀ r d,
            (if (w + 1 != s1.cursor + 1) = true then
              match s1.data[s1.cursor + 1]? with
              | none => none
              | some nb => quoted delim n { s1 with cursor := s1.cursor + 1, data := s1.data.set (w + 1) nb } start (w + 1) 0
            else quoted delim n { s1 with cursor := s1.cursor + 1 } start (w + 1) 0) = some (r, d) →
            ∃ d', (if (w + 1 != t.cursor + 1) = true then
              match t.data[t.cursor + 1]? with
              | none => none
              | some nb => quoted delim n { t with cursor := t.cursor + 1, data := t.data.set (w + 1) nb } start (w + 1) 0
            else quoted delim n { t with cursor := t.cursor + 1 } start (w + 1) 0) = some (r, d') := by
          intro r d hk
          rw [htc]
          split at hk
          · rename_i hne
            simp only [hne, ↓reduceIte]
            have hg2 : t.data[s1.cursor + 1]? = s1.data[s1.cursor + 1]? := by
              rw [htd]; exact get_append _ _ _ (by omega)
            rw [hg2]
            cases hnb : s1.data[s1.cursor + 1]? with
            | none => rw [hnb] at hk; simp at hk
            | some nb =>
              rw [hnb] at hk
              simp only at hk ⊢
              have hlt : w + 1 < s1.data.length := by
                have : w + 1 ≠ s1.cursor + 1 := by simpa using hne
                omega
              exact ih { s1 with cursor := s1.cursor + 1, data := s1.data.set (w + 1) nb } { t with cursor := s1.cursor + 1, data := t.data.set (w + 1) nb } start (w + 1) 0 (by show t.data.set (w + 1) nb = s1.data.set (w + 1) nb ++ s1.future; rw [htd]; exact set_append _ _ _ _ hlt) hf rfl (by show w + 1 ≤ s1.cursor + 1; omega) r d hk
          · rename_i hne
            simp only [hne, Bool.false_eq_true, ↓reduceIte]
            exact ih { s1 with cursor := s1.cursor + 1 } { t with cursor := s1.cursor + 1 } start (w + 1) 0 htd hf rfl (by show w + 1 ≤ s1.cursor + 1; omega) r d hk
        have hrec : ∀ qc' r d, quoted delim n { s1 with cursor := s1.cursor + 1 } start w qc' = some (r, d) →
            ∃ d', quoted delim n { t with cursor := t.cursor + 1 } start w qc' = some (r, d') := by
          intro qc' r d hk
          exact ih { s1 with cursor := s1.cursor + 1 } { t with cursor := t.cursor + 1 } start w qc' htd hf (by show t.cursor + 1 = s1.cursor + 1; rw [htc]) (by show w ≤ s1.cursor + 1; omega) r d hk
        have hret : ∀ eol : Bool,
            some (Res.mk (St.slice { s1 with cursor := s1.cursor + 1 } start w) eol none (s1.cursor + 1), s1.data) = some (r, d) →
            ∃ d', some (Res.mk (St.slice { t with cursor := t.cursor + 1 } start w) eol none (t.cursor + 1), t.data) = some (r, d') := by
          intro eol hh
          simp only [Option.some.injEq, Prod.mk.injEq] at hh
          exact ⟨t.data, by simp only [Option.some.injEq, Prod.mk.injEq, and_true]; rw [← hh.1, hslice, htc]⟩
        by_cases c1 : (ch == delim) = true
        · simp only [c1, ↓reduceIte] at h ⊢
          by_cases c2 : (qc % 2 != 0) = true
          · simp only [c2, ↓reduceIte] at h ⊢; exact hret _ h
          · simp only [c2, Bool.false_eq_true, ↓reduceIte] at h ⊢; exact hkeep r d h
        · simp only [c1, Bool.false_eq_true, ↓reduceIte] at h ⊢
          by_cases c3 : (ch == LF) = true
          · simp only [c3, ↓reduceIte] at h ⊢
            by_cases c2 : (qc % 2 != 0) = true
            · simp only [c2, ↓reduceIte] at h ⊢; exact hret _ h
            · simp only [c2, Bool.false_eq_true, ↓reduceIte] at h ⊢; exact hkeep r d h
          · simp only [c3, Bool.false_eq_true, ↓reduceIte] at h ⊢
            by_cases c4 : (ch == CR) = true
            · simp only [c4, ↓reduceIte] at h ⊢
              by_cases c2 : (qc % 2 != 0) = true
              · simp only [c2, ↓reduceIte] at h ⊢; exact hrec _ r d h
              · simp only [c2, Bool.false_eq_true, ↓reduceIte] at h ⊢; exact hkeep r d h
            · simp only [c4, Bool.false_eq_true, ↓reduceIte] at h ⊢
              by_cases c5 : (ch == QUOTE) = true
              · simp only [c5, ↓reduceIte] at h ⊢
                by_cases c6 : ((qc + 1) % 2 == 1) = true
                · simp only [c6, ↓reduceIte] at h ⊢; exact hrec _ r d h
                · simp only [c6, Bool.false_eq_true, ↓reduceIte] at h ⊢; exact hkeep r d h
              · simp only [c5, Bool.false_eq_true, ↓reduceIte] at h ⊢; exact hkeep r d h

/-- Schedule independence of the quoted-field loop: whatever the chunk sizes, the result equals
    the result on the fully loaded buffer (hence any two schedules agree). -/
theorem schedule_irrelevant (delim : Byte) (fuel : Nat) (s : St) (start w qc : Nat) (r : Res) (d : List Byte)
    (h : quoted delim fuel s start w qc = some (r, d))
    (hw : w ≤ s.cursor) :
    ∃ d', quoted delim fuel s.loaded start w qc = some (r, d') :=
  quoted_sim delim fuel s s.loaded start w qc rfl rfl rfl hw r d h
#print axioms schedule_irrelevant
end Sim
