/-! Prototype: mirror of internal/sort/sorter.go on an index array; `swap` is the only mutation. -/
namespace Sorter

abbrev Ix := Array Nat

@[inline] def sw (a : Ix) (i j : Nat) : Ix :=
  if h : i < a.size ∧ j < a.size then a.swap i j h.1 h.2 else a

/-- data.Less(i,j) = less a[i] a[j] -/
@[inline] def lt (less : Nat → Nat → Bool) (a : Ix) (i j : Nat) : Bool := less a[i]! a[j]!

def insInner (less : Nat → Nat → Bool) (a : Ix) (lo : Nat) : Nat → Ix
  | 0 => a
  | j + 1 => if j + 1 > lo && lt less a (j + 1) j then insInner less (sw a (j + 1) j) lo j else a

def insertionSort (less : Nat → Nat → Bool) (a : Ix) (lo hi : Nat) : Ix :=
  (List.range' (lo + 1) (hi - (lo + 1))).foldl (fun a i => insInner less a lo i) a

def siftDown (less : Nat → Nat → Bool) (fuel : Nat) (a : Ix) (root hi first : Nat) : Ix :=
  match fuel with
  | 0 => a
  | fuel + 1 =>
    let child := 2 * root + 1
    if child ≥ hi then a else
    let child := if child + 1 < hi && lt less a (first + child) (first + child + 1) then child + 1 else child
    if !lt less a (first + root) (first + child) then a
    else siftDown less fuel (sw a (first + root) (first + child)) child hi first

def heapSort (less : Nat → Nat → Bool) (a : Ix) (lo hi : Nat) : Ix :=
  let first := lo
  let n := hi - lo
  -- for i := (n-1)/2; i >= 0; i--
  let a := (List.range ((n - 1) / 2 + 1)).reverse.foldl (fun a i => siftDown less (n + 1) a i n first) a
  -- for i := n-1; i >= 0; i--
  (List.range n).reverse.foldl (fun a i => siftDown less (n + 1) (sw a first (first + i)) 0 i first) a

def medianOfThree (less : Nat → Nat → Bool) (a : Ix) (m1 m0 m2 : Nat) : Ix :=
  let a := if lt less a m1 m0 then sw a m1 m0 else a
  if lt less a m2 m1 then
    let a := sw a m2 m1
    if lt less a m1 m0 then sw a m1 m0 else a
  else a

/-- `for ; a < c && P(a); a++ {}` -/
def scanUp (fuel : Nat) (p : Nat → Bool) (i c : Nat) : Nat :=
  match fuel with
  | 0 => i
  | fuel + 1 => if i < c && p i then scanUp fuel p (i + 1) c else i

/-- `for ; b < c && P(c-1); c-- {}` -/
def scanDown (fuel : Nat) (p : Nat → Bool) (b c : Nat) : Nat :=
  match fuel with
  | 0 => c
  | fuel + 1 => if b < c && p (c - 1) then scanDown fuel p b (c - 1) else c

def pivotLoop (less : Nat → Nat → Bool) (fuel : Nat) (a : Ix) (pivot b c : Nat) : Ix × Nat × Nat :=
  match fuel with
  | 0 => (a, b, c)
  | fuel + 1 =>
    let b := scanUp (a.size + 1) (fun i => !lt less a pivot i) b c
    let c := scanDown (a.size + 1) (fun i => lt less a pivot i) b c
    if b ≥ c then (a, b, c) else pivotLoop less fuel (sw a b (c - 1)) pivot (b + 1) (c - 1)

def protectLoop (less : Nat → Nat → Bool) (fuel : Nat) (a : Ix) (pivot x b : Nat) : Ix × Nat × Nat :=
  match fuel with
  | 0 => (a, x, b)
  | fuel + 1 =>
    let b := scanDown (a.size + 1) (fun i => !lt less a i pivot) x b
    let x := scanUp (a.size + 1) (fun i => lt less a i pivot) x b
    if x ≥ b then (a, x, b) else protectLoop less fuel (sw a x (b - 1)) pivot (x + 1) (b - 1)

/-- median selection: ninther for large ranges, then median of three into position lo -/
def choosePivot (less : Nat → Nat → Bool) (a : Ix) (lo hi : Nat) : Ix :=
  let m := (lo + hi) / 2
  let a := if hi - lo > 40 then
      let s := (hi - lo) / 8
      let a := medianOfThree less a lo (lo + s) (lo + 2 * s)
      let a := medianOfThree less a m (m - s) (m + s)
      medianOfThree less a (hi - 1) (hi - 1 - s) (hi - 1 - 2 * s)
    else a
  medianOfThree less a lo m (hi - 1)

structure PState where
  a : Ix
  b : Nat
  c : Nat
  protect : Bool

/-- "Lets test some points for equality to pivot" -/
def dups1 (less : Nat → Nat → Bool) (a : Ix) (lo hi c : Nat) : Ix × Nat × Nat :=
  if !lt less a lo (hi - 1) then (sw a c (hi - 1), c + 1, 1) else (a, c, 0)
def dups2 (less : Nat → Nat → Bool) (a : Ix) (lo b d : Nat) : Nat × Nat :=
  if !lt less a (b - 1) lo then (b - 1, d + 1) else (b, d)
def dups3 (less : Nat → Nat → Bool) (a : Ix) (lo m b d : Nat) : Ix × Nat × Nat :=
  if !lt less a m lo then (sw a m (b - 1), b - 1, d + 1) else (a, b, d)

def dupsBlock (less : Nat → Nat → Bool) (a : Ix) (lo hi m b c : Nat) : PState :=
  let r1 := dups1 less a lo hi c
  let r2 := dups2 less r1.1 lo b r1.2.2
  let r3 := dups3 less r1.1 lo m r2.1 r2.2
  ⟨r3.1, r3.2.1, r1.2.1, decide (r3.2.2 > 1)⟩

def doPivot (less : Nat → Nat → Bool) (a : Ix) (lo hi : Nat) : Ix × Nat × Nat :=
  let m := (lo + hi) / 2
  let a1 := choosePivot less a lo hi
  let x := scanUp (a1.size + 1) (fun i => lt less a1 i lo) (lo + 1) (hi - 1)
  let r := pivotLoop less (a1.size + 1) a1 lo x (hi - 1)
  let st : PState :=
    if !(decide (hi - r.2.2 < 5)) && decide (hi - r.2.2 < (hi - lo) / 4) then dupsBlock less r.1 lo hi m r.2.1 r.2.2
    else ⟨r.1, r.2.1, r.2.2, decide (hi - r.2.2 < 5)⟩
  let p : Ix × Nat :=
    if st.protect then (let q := protectLoop less (st.a.size + 1) st.a lo x st.b; (q.1, q.2.2)) else (st.a, st.b)
  (sw p.1 lo (p.2 - 1), p.2 - 1, st.c)

def maxDepth (n : Nat) : Nat := 2 * (if n = 0 then 0 else Nat.log2 n + 1)

def quickSort (less : Nat → Nat → Bool) (fuel : Nat) (a : Ix) (lo hi depth : Nat) : Ix :=
  match fuel with
  | 0 => a
  | fuel + 1 =>
    if hi - lo > 12 then
      if depth = 0 then heapSort less a lo hi else
      let depth := depth - 1
      let (a, mlo, mhi) := doPivot less a lo hi
      if mlo - lo < hi - mhi then
        let a := quickSort less fuel a lo mlo depth
        quickSort less fuel a mhi hi depth
      else
        let a := quickSort less fuel a mhi hi depth
        quickSort less fuel a lo mlo depth
    else if hi - lo > 1 then
      let a := (List.range' (lo + 6) (hi - (lo + 6))).foldl (fun a i => if lt less a i (i - 6) then sw a i (i - 6) else a) a
      insertionSort less a lo hi
    else a

def sort (less : Nat → Nat → Bool) (ix : Ix) : Ix :=
  quickSort less (ix.size + 2) ix 0 ix.size (maxDepth ix.size)

-- quick sanity
def vals : Array Nat := #[5, 3, 8, 3, 1, 9, 2, 8, 8, 0, 4, 7, 6, 6, 1, 5, 3, 2, 9, 0, 11, 15, 13, 3, 3, 3, 8, 1, 0, 7,
  5, 3, 8, 3, 1, 9, 2, 8, 8, 0, 4, 7, 6, 6, 1, 5, 3, 2, 9, 0, 11, 15, 13, 3, 3, 3, 8, 1, 0, 7]
#eval (sort (fun i j => vals[i]! < vals[j]!) (Array.range vals.size))
#eval (sort (fun i j => vals[i]! < vals[j]!) (Array.range vals.size)).map (vals[·]!)
end Sorter
