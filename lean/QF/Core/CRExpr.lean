import QF.Core.Csv
/-!
# CR — the language of the CSV READER (/repo/internal/fastcsv/csv.go), and its Go semantics

    func (b *bufferedReader) more() error, reset()
    func (fs *fields) reset(), nextUnquotedField() bool, next() bool
    func nextQuotedField(buffer *bufferedReader, delimiter byte) ([]byte, bool, error)
    func (r *Reader) Next() bool, Err() error, Read() ([][]byte, error)
    func (r *eofReaderWrapper) Read(b []byte) (int, error)
    func NewReader(r io.Reader, delimiter byte) Reader

go/cmd/extract/csvast.go translates the bodies of these functions, statement by statement, to terms of the small imperative
language below and writes them to `QF/Gen/CsvFns.lean` on every run. The language is generic where the code is generic
(variables, assignments, `++`, arithmetic, comparisons, `if`, `for` with `break` / `continue` / `return`, byte slices with
`len`, `cap`, indexing, slicing, `make`, `copy`, `append`, calls of the other translated functions with several results) and
has one statement for the one thing only this code does: the `Read` call on the underlying `io.Reader`.

Terms name things by ROLE: the variables of a function are numbered in the order of their declaration (the value
parameters, then every `:=` as it occurs in the text), the functions by the role their receiver and signature give them
(`FnId`), the struct fields by the struct they belong to and their type (`Fld`), constants by their value.

## The state

There is ONE reader object: `Reader` holds its `fields` by value, `fields` its `bufferedReader` by value, and the
`bufferedReader` the one `eofReaderWrapper` `NewReader` makes; every receiver and every `*bufferedReader` argument of
the translated functions is (a pointer to) that object — the translator checks the paths (`fs.buffer`, `&fs.buffer`,
`r.fields`, …) and refuses anything else. The state of a run is therefore the record of the fields of that object. It is
laid out as the hand mirror's `Csv.Reader` (QF/Core/Csv.lean) — `data` as the backing array (its size is `cap(b.data)`) and
`len(b.data)`, the underlying reader as `Csv.Src` with `wrapEof` as `eofReaderWrapper.isEof` — but nothing of the
mirror's FUNCTIONS is used here except the array primitive `Csv.writeAll`; the underlying `io.Reader` is `underRead`.

## What is abstracted

* A `[]byte` that leaves the buffer (`fs.field = data[a:b]`, the elements of `r.fieldsBuffer`, a returned field at the
  moment it is stored) is the LIST of its bytes at that moment (`Val.snap`), as in the hand mirror. That the real slices
  alias the buffer and that no later write of the same row reaches them is what the replay driver checks against the real
  reader (stale bytes included); it is not part of these terms. Slices of the buffer that are used in place (`copy`
  operands, the argument of `Read`, `b.data = b.data[:n]`) are views (`Val.view`: offset, len, cap) into the array.
* `int` is `Int`; `cursor` and `fieldStart` are stored as naturals: storing a negative number has no meaning (`stuck`).
* Every `for` has a budget of `fuel` rounds (`panic .fuel` beyond it), as the mirror's loops.
-/
namespace QF.CR
open Csv (Byte Src RErr Buf Fields Reader writeAll)

abbrev Var := Nat

/-- The functions of the translation unit, by role. -/
inductive FnId where
  /-- the method `() error` of the buffer struct (`bufferedReader.more`) -/
  | more
  /-- the method `()` of the buffer struct (`bufferedReader.reset`) -/
  | bufReset
  /-- the method `()` of the fields struct (`fields.reset`) -/
  | fsReset
  /-- the method `() bool` of the fields struct that `fsNext` calls (`fields.nextUnquotedField`) -/
  | unquoted
  /-- the function `(*buffer, byte) ([]byte, bool, error)` (`nextQuotedField`) -/
  | quoted
  /-- the method `() bool` of the fields struct that `Reader.Next` calls (`fields.next`) -/
  | fsNext
  /-- `Reader.Next` -/
  | rdNext
  /-- `Reader.Err` -/
  | rdErr
  /-- `Reader.Read` -/
  | rdRead
  /-- the method `([]byte) (int, error)` of the wrapper struct `NewReader` puts around the reader (`eofReaderWrapper.Read`) -/
  | wrapRead
  /-- `NewReader` -/
  | newReader
  deriving DecidableEq, Repr, Inhabited

/-- The struct fields, by struct and type. -/
inductive Fld where
  /-- buffer struct: the `[]byte` -/
  | data
  /-- buffer struct: the `int` -/
  | cursor
  /-- fields struct: the `int` -/
  | fieldStart
  /-- fields struct: the `bool` -/
  | hitEOL
  /-- fields struct: the `byte` -/
  | delim
  /-- fields struct: the `[]byte` -/
  | field
  /-- fields struct: the `error` -/
  | err
  /-- `Reader`: the `[][]byte` -/
  | row
  /-- wrapper struct: the `bool` -/
  | isEof
  deriving DecidableEq, Repr, Inhabited

inductive COp where
  | lt | le | gt | ge | eq | ne
  deriving DecidableEq, Repr, Inhabited

/-- Expressions (no side effects; an index or a slice expression may panic). -/
inductive E where
  | var (v : Var)
  | int (n : Int)
  | bool (b : Bool)
  /-- a byte constant (`'\n'`, `'"'`, …) -/
  | byte (b : Nat)
  /-- `nil` as an `error` -/
  | nilErr
  /-- `io.EOF` -/
  | eof
  /-- `nil` as a `[]byte` -/
  | nilBytes
  /-- `nil` as a `[][]byte` -/
  | nilRows
  /-- `<the object>.<field>` -/
  | fld (f : Fld)
  | len (e : E)
  | cap (e : E)
  /-- `s[i]` -/
  | at (s i : E)
  /-- `s[lo:hi]` -/
  | slice (s lo hi : E)
  /-- `s[lo:]` -/
  | sliceFrom (s lo : E)
  /-- `s[:hi]` -/
  | sliceTo (s hi : E)
  /-- `make([]byte, n, c)` -/
  | make (n c : E)
  /-- `make([][]byte, n, c)` -/
  | makeRows (n c : E)
  /-- `append(l, x)` on a `[][]byte` -/
  | snoc (l x : E)
  | add (a b : E)
  | sub (a b : E)
  | mul (a b : E)
  /-- `a % b` -/
  | rem (a b : E)
  | cmp (op : COp) (a b : E)
  | not (e : E)
  /-- `a && b` (b is not evaluated when a is false) -/
  | and (a b : E)
  /-- `a || b` (b is not evaluated when a is true) -/
  | or (a b : E)
  /-- `&W{r: e}` for the wrapper struct W (its `bool` is the zero value) -/
  | wrap (e : E)
  /-- `Reader{fields: fields{buffer: bufferedReader{r: rd, data: data}, delimiter: delim}, fieldsBuffer: rows}`, every other
  field its zero value -/
  | mkReader (rd data delim rows : E)
  | opaque (txt : String)
  deriving DecidableEq, Repr, Inhabited

/-- What can be assigned. -/
inductive L where
  | var (v : Var)
  | fld (f : Fld)
  deriving DecidableEq, Repr, Inhabited

/-- Statements. A block is `S.block [s₁, …]`. -/
inductive S where
  | skip
  | seq (a b : S)
  /-- `l = e`, `v := e` -/
  | assign (l : L) (e : E)
  /-- `l++` -/
  | incr (l : L)
  /-- `copy(dst, src)`, both slices of the buffer's array -/
  | copy (dst src : E)
  /-- `copy(v, src)` for a variable that holds a slice made in this function -/
  | copyVar (v : Var) (src : E)
  /-- `<the [][]byte field>[i] = e` -/
  | setRowAt (i e : E)
  | ite (c : E) (t e : S)
  /-- `for { body }`; `for c { body }` is `loop (block [ite c skip brk, body])` -/
  | loop (body : S)
  | brk
  | cont
  | ret (es : List E)
  /-- `l₁, …, lₙ = f(args)` (also `:=`; no `l` at all: the results are dropped) for a translated function; receivers and
  pointers to the buffer struct are not arguments -/
  | call (ls : List L) (f : FnId) (args : List E)
  /-- `return f(args)` -/
  | retCall (f : FnId) (args : List E)
  /-- `n, err = <the underlying io.Reader>.Read(dst)` -/
  | rawRead (n err : L) (dst : E)
  | opaque (txt : String)
  deriving DecidableEq, Repr, Inhabited

def S.block : List S → S
  | [] => .skip
  | s :: ss => .seq s (S.block ss)

/-- A translated function: the value parameters are the variables `0 … params-1`. -/
structure Fn where
  params : Nat
  body : S
  deriving DecidableEq, Repr, Inhabited

def E.hasOpaque : E → Bool
  | .opaque _ => true
  | .len e | .cap e | .not e | .wrap e => e.hasOpaque
  | .at a b | .sliceFrom a b | .sliceTo a b | .make a b | .makeRows a b | .snoc a b | .add a b | .sub a b | .mul a b | .rem a b
  | .cmp _ a b | .and a b | .or a b => a.hasOpaque || b.hasOpaque
  | .slice a b c => a.hasOpaque || b.hasOpaque || c.hasOpaque
  | .mkReader a b c d => a.hasOpaque || b.hasOpaque || c.hasOpaque || d.hasOpaque
  | _ => false

def S.hasOpaque : S → Bool
  | .opaque _ => true
  | .seq a b => a.hasOpaque || b.hasOpaque
  | .assign _ e | .copyVar _ e => e.hasOpaque
  | .copy a b | .setRowAt a b => a.hasOpaque || b.hasOpaque
  | .ite c t e => c.hasOpaque || t.hasOpaque || e.hasOpaque
  | .loop b => b.hasOpaque
  | .ret es => es.any E.hasOpaque
  | .call _ _ args | .retCall _ args => args.any E.hasOpaque
  | .rawRead _ _ d => d.hasOpaque
  | _ => false

/-! ## Values -/

/-- the classes of run-time panics -/
inductive PCls where
  /-- index out of range -/
  | index
  /-- slice bounds out of range -/
  | slice
  /-- the budget of a loop is used up -/
  | fuel
  deriving DecidableEq, Repr, Inhabited

inductive Res (α : Type) where
  | ok (a : α)
  | panic (c : PCls)
  /-- no meaning: a value of the wrong kind, a negative number stored in `cursor` / `fieldStart`, something that is not
  modelled, or a term that was not understood -/
  | stuck
  deriving Repr

def Res.bind {α β : Type} (r : Res α) (f : α → Res β) : Res β :=
  match r with
  | .ok a => f a
  | .panic c => .panic c
  | .stuck => .stuck

@[simp] theorem Res.bind_ok {α β : Type} (a : α) (f : α → Res β) : (Res.ok a).bind f = f a := rfl
@[simp] theorem Res.bind_panic {α β : Type} (c : PCls) (f : α → Res β) : (Res.panic c : Res α).bind f = .panic c := rfl
@[simp] theorem Res.bind_stuck {α β : Type} (f : α → Res β) : (Res.stuck : Res α).bind f = .stuck := rfl

inductive Val where
  | int (n : Int)
  | bool (b : Bool)
  | byte (b : Byte)
  /-- an `error`: nil, `io.EOF`, or the failure of the underlying reader -/
  | err (e : Option RErr)
  /-- a slice of the buffer's backing array -/
  | view (off len cap : Nat)
  /-- a slice with a backing array of its own, made by `make` (offset 0, cap = the size of the array) -/
  | fresh (a : Array Byte) (len : Nat)
  /-- the bytes of a `[]byte` that has left the buffer (nil: the empty list) -/
  | snap (l : List Byte)
  /-- a `[][]byte` -/
  | rows (l : List (List Byte))
  /-- an `io.Reader`: the underlying reader, or the wrapper around it -/
  | rdr (s : Src) (wrapped : Bool)
  /-- a `Reader` struct -/
  | reader (r : Reader)

abbrev Store := Var → Option Val

def Store.empty : Store := fun _ => none
def Store.set (σ : Store) (v : Var) (x : Val) : Store := fun w => if w = v then some x else σ w

@[simp] theorem Store.set_same (σ : Store) (v : Var) (x : Val) : σ.set v x v = some x := by simp [Store.set]
theorem Store.set_ne (σ : Store) (v w : Var) (x : Val) (h : w ≠ v) : σ.set v x w = σ w := by simp [Store.set, h]

/-- The underlying `io.Reader` (what `Csv.Src` describes without the wrapper): asked for at most `room` bytes it delivers
the next chunk of the schedule; the `failAt`-th call fails (with its bytes when `failWithData`); at the end of the
document it reports `io.EOF` — together with the last bytes when `eofWithData`. -/
def underRead (s : Src) (room : Nat) : List Byte × Option RErr × Src :=
  if s.failAt == some s.calls && !(s.failWithData && !s.rest.isEmpty) then ([], some .fail, { s with calls := s.calls + 1 })
  else if s.rest.isEmpty then ([], some .eof, { s with calls := s.calls + 1 })
  else
    let want := match s.sched with | [] => s.rest.length | k :: _ => k
    let n := min (min want room) s.rest.length
    let err : Option RErr :=
      if s.failAt == some s.calls then some .fail
      else if s.eofWithData && n == s.rest.length && n > 0 then some .eof
      else none
    (s.rest.take n, err, { s with rest := s.rest.drop n, sched := s.sched.drop 1, calls := s.calls + 1 })

/-- the bytes `off … off+n-1` of an array -/
def readView (a : Array Byte) (off n : Nat) : List Byte := (a.toList.take (off + n)).drop off

def COp.holds : COp → Int → Int → Bool
  | .lt, a, b => a < b
  | .le, a, b => a ≤ b
  | .gt, a, b => a > b
  | .ge, a, b => a ≥ b
  | .eq, a, b => decide (a = b)
  | .ne, a, b => !decide (a = b)

/-- `==` / `!=` on bytes, errors and booleans -/
def COp.same {α : Type} [DecidableEq α] : COp → α → α → Option Bool
  | .eq, a, b => some (decide (a = b))
  | .ne, a, b => some (!decide (a = b))
  | _, _, _ => none

def Val.len : Val → Option Nat
  | .view _ l _ => some l
  | .fresh _ l => some l
  | .snap l => some l.length
  | .rows l => some l.length
  | _ => none

def Val.cap : Val → Option Nat
  | .view _ _ c => some c
  | .fresh a _ => some a.size
  | _ => none

/-- `s[i]` -/
def Val.index (data : Array Byte) : Val → Int → Res Val
  | .view off len _, i => if 0 ≤ i ∧ i < len then .ok (.byte data[off + i.toNat]!) else .panic .index
  | .snap l, i => if 0 ≤ i ∧ i < l.length then .ok (.byte l[i.toNat]!) else .panic .index
  | .rows l, i => if 0 ≤ i ∧ i < l.length then .ok (.snap l[i.toNat]!) else .panic .index
  | _, _ => .stuck

/-- `s[lo:hi]`: `0 ≤ lo ≤ hi ≤ cap(s)`. The capacity of a slice that has left the buffer is not modelled: a `hi`
beyond its length has no meaning. -/
def Val.slice : Val → Int → Int → Res Val
  | .view off _ cap, lo, hi =>
    if 0 ≤ lo ∧ lo ≤ hi ∧ hi ≤ cap then .ok (.view (off + lo.toNat) (hi.toNat - lo.toNat) (cap - lo.toNat)) else .panic .slice
  | .snap l, lo, hi =>
    if 0 ≤ lo ∧ lo ≤ hi then (if hi ≤ l.length then .ok (.snap ((l.take hi.toNat).drop lo.toNat)) else .stuck) else .panic .slice
  | .rows l, lo, hi =>
    if 0 ≤ lo ∧ lo ≤ hi then (if hi ≤ l.length then .ok (.rows ((l.take hi.toNat).drop lo.toNat)) else .stuck) else .panic .slice
  | _, _, _ => .stuck

def asInt : Val → Res Int
  | .int n => .ok n
  | _ => .stuck

def asBool : Val → Res Bool
  | .bool b => .ok b
  | _ => .stuck

def lenOf (v : Val) : Res Int :=
  match v.len with
  | some n => .ok n
  | none => .stuck

/-- the value of a field -/
def getFld (h : Reader) : Fld → Val
  | .data => .view 0 h.fs.buf.len h.fs.buf.data.size
  | .cursor => .int h.fs.buf.cursor
  | .fieldStart => .int h.fs.fieldStart
  | .hitEOL => .bool h.fs.hitEOL
  | .delim => .byte h.fs.delim
  | .field => .snap h.fs.field
  | .err => .err h.fs.err
  | .row => .rows h.row
  | .isEof => .bool h.fs.buf.src.wrapEof

def arith (f : Int → Int → Int) (x y : Val) : Res Val :=
  match x, y with
  | .int m, .int n => .ok (.int (f m n))
  | _, _ => .stuck

/-- `%` (truncated, as in Go); a zero divisor has no meaning here -/
def remV (x y : Val) : Res Val :=
  match x, y with
  | .int m, .int n => if n = 0 then .stuck else .ok (.int (m.tmod n))
  | _, _ => .stuck

def compare (op : COp) (x y : Val) : Res Val :=
  match x, y with
  | .int m, .int n => .ok (.bool (op.holds m n))
  | .byte a, .byte b => (match op.same a b with | some r => .ok (.bool r) | none => .stuck)
  | .err a, .err b => (match op.same a b with | some r => .ok (.bool r) | none => .stuck)
  | .bool a, .bool b => (match op.same a b with | some r => .ok (.bool r) | none => .stuck)
  | _, _ => .stuck

def E.eval (h : Reader) (σ : Store) : E → Res Val
  | .var v => match σ v with | some x => .ok x | none => .stuck
  | .int n => .ok (.int n)
  | .bool b => .ok (.bool b)
  | .byte b => .ok (.byte (UInt8.ofNat b))
  | .nilErr => .ok (.err none)
  | .eof => .ok (.err (some .eof))
  | .nilBytes => .ok (.snap [])
  | .nilRows => .ok (.rows [])
  | .fld f => .ok (getFld h f)
  | .len e => (e.eval h σ).bind fun x => (lenOf x).bind fun n => .ok (.int n)
  | .cap e => (e.eval h σ).bind fun x => match x.cap with | some n => .ok (.int n) | none => .stuck
  | .at s i => (s.eval h σ).bind fun x => (i.eval h σ).bind fun y => (asInt y).bind fun n => x.index h.fs.buf.data n
  | .slice s lo hi =>
    (s.eval h σ).bind fun x => (lo.eval h σ).bind fun a => (hi.eval h σ).bind fun b =>
      (asInt a).bind fun m => (asInt b).bind fun n => x.slice m n
  | .sliceFrom s lo =>
    (s.eval h σ).bind fun x => (lo.eval h σ).bind fun a => (asInt a).bind fun m => (lenOf x).bind fun n => x.slice m n
  | .sliceTo s hi => (s.eval h σ).bind fun x => (hi.eval h σ).bind fun b => (asInt b).bind fun n => x.slice 0 n
  | .make n c =>
    (n.eval h σ).bind fun a => (c.eval h σ).bind fun b => (asInt a).bind fun m => (asInt b).bind fun k =>
      if 0 ≤ m ∧ m ≤ k then .ok (.fresh (Array.replicate k.toNat 0) m.toNat) else .stuck
  | .makeRows n c =>
    (n.eval h σ).bind fun a => (c.eval h σ).bind fun b => (asInt a).bind fun m => (asInt b).bind fun k =>
      if m = 0 ∧ 0 ≤ k then .ok (.rows []) else .stuck
  | .snoc l x =>
    (l.eval h σ).bind fun a => (x.eval h σ).bind fun b =>
      match a, b with
      | .rows r, .snap f => .ok (.rows (r ++ [f]))
      | _, _ => .stuck
  | .add a b => (a.eval h σ).bind fun x => (b.eval h σ).bind fun y => arith (· + ·) x y
  | .sub a b => (a.eval h σ).bind fun x => (b.eval h σ).bind fun y => arith (· - ·) x y
  | .mul a b => (a.eval h σ).bind fun x => (b.eval h σ).bind fun y => arith (· * ·) x y
  | .rem a b => (a.eval h σ).bind fun x => (b.eval h σ).bind fun y => remV x y
  | .cmp op a b => (a.eval h σ).bind fun x => (b.eval h σ).bind fun y => compare op x y
  | .not e => (e.eval h σ).bind fun x => (asBool x).bind fun b => .ok (.bool (!b))
  | .and a b => (a.eval h σ).bind fun x => (asBool x).bind fun p =>
      if p then (b.eval h σ).bind fun y => (asBool y).bind fun q => .ok (.bool q) else .ok (.bool false)
  | .or a b => (a.eval h σ).bind fun x => (asBool x).bind fun p =>
      if p then .ok (.bool true) else (b.eval h σ).bind fun y => (asBool y).bind fun q => .ok (.bool q)
  | .wrap e => (e.eval h σ).bind fun x =>
      match x with | .rdr s false => .ok (.rdr { s with wrapEof := false } true) | _ => .stuck
  | .mkReader rd data delim rows =>
    (rd.eval h σ).bind fun a => (data.eval h σ).bind fun b => (delim.eval h σ).bind fun c => (rows.eval h σ).bind fun d =>
      match a, b, c, d with
      | .rdr s true, .fresh arr n, .byte dl, .rows [] =>
        .ok (.reader { fs := { buf := { data := arr, len := n, cursor := 0, src := s }, delim := dl }, row := [] })
      | _, _, _, _ => .stuck
  | .opaque _ => .stuck

def evalList (h : Reader) (σ : Store) : List E → Res (List Val)
  | [] => .ok []
  | e :: es => (e.eval h σ).bind fun x => (evalList h σ es).bind fun xs => .ok (x :: xs)

/-! ## Statements -/

/-- `<field> = v` -/
def setFld (h : Reader) : Fld → Val → Option Reader
  | .data, .view off len cap =>
    if off = 0 ∧ cap = h.fs.buf.data.size then some { h with fs := { h.fs with buf := { h.fs.buf with len := len } } } else none
  | .data, .fresh a len => some { h with fs := { h.fs with buf := { h.fs.buf with data := a, len := len } } }
  | .cursor, .int n => if 0 ≤ n then some { h with fs := { h.fs with buf := { h.fs.buf with cursor := n.toNat } } } else none
  | .fieldStart, .int n => if 0 ≤ n then some { h with fs := { h.fs with fieldStart := n.toNat } } else none
  | .hitEOL, .bool b => some { h with fs := { h.fs with hitEOL := b } }
  | .delim, .byte b => some { h with fs := { h.fs with delim := b } }
  | .field, .snap l => some { h with fs := { h.fs with field := l } }
  | .field, .view off len _ => some { h with fs := { h.fs with field := readView h.fs.buf.data off len } }
  | .err, .err e => some { h with fs := { h.fs with err := e } }
  | .row, .rows l => some { h with row := l }
  | .isEof, .bool b => some { h with fs := { h.fs with buf := { h.fs.buf with src := { h.fs.buf.src with wrapEof := b } } } }
  | _, _ => none

/-- the result of a function call -/
inductive CallRes where
  | ret (h : Reader) (vs : List Val)
  | panic (c : PCls)
  | stuck

inductive Out where
  | next (h : Reader) (σ : Store)
  | brk (h : Reader) (σ : Store)
  | cont (h : Reader) (σ : Store)
  | ret (h : Reader) (vs : List Val)
  | panic (c : PCls)
  | stuck

def Out.ofRes {α : Type} (r : Res α) (k : α → Out) : Out :=
  match r with
  | .ok a => k a
  | .panic c => .panic c
  | .stuck => .stuck

@[simp] theorem Out.ofRes_ok {α : Type} (a : α) (k : α → Out) : Out.ofRes (.ok a) k = k a := rfl
@[simp] theorem Out.ofRes_panic {α : Type} (c : PCls) (k : α → Out) : Out.ofRes (.panic c) k = .panic c := rfl
@[simp] theorem Out.ofRes_stuck {α : Type} (k : α → Out) : Out.ofRes (.stuck) k = .stuck := rfl

def assignL (h : Reader) (σ : Store) : L → Val → Option (Reader × Store)
  | .var v, x => some (h, σ.set v x)
  | .fld f, x => (setFld h f x).map fun h' => (h', σ)

def assignAll : Reader → Store → List L → List Val → Option (Reader × Store)
  | h, σ, [], [] => some (h, σ)
  | h, σ, l :: ls, x :: xs => (assignL h σ l x).bind fun p => assignAll p.1 p.2 ls xs
  | _, _, _, _ => none

def readL (h : Reader) (σ : Store) : L → Option Val
  | .var v => σ v
  | .fld f => some (getFld h f)

/-- at most `n` rounds -/
def iter (step : Reader → Store → Out) : Nat → Reader → Store → Out
  | 0, _, _ => .panic .fuel
  | n + 1, h, σ =>
    match step h σ with
    | .next h' σ' => iter step n h' σ'
    | .cont h' σ' => iter step n h' σ'
    | .brk h' σ' => .next h' σ'
    | r => r

structure Env where
  call : FnId → List Val → Reader → CallRes
  /-- the budget of every `for` -/
  fuel : Nat

def S.exec (Γ : Env) : S → Reader → Store → Out
  | .skip, h, σ => .next h σ
  | .seq a b, h, σ =>
    match a.exec Γ h σ with
    | .next h' σ' => b.exec Γ h' σ'
    | r => r
  | .assign l e, h, σ =>
    Out.ofRes (e.eval h σ) fun x => match assignL h σ l x with | some p => .next p.1 p.2 | none => .stuck
  | .incr l, h, σ =>
    match readL h σ l with
    | some (.int n) => (match assignL h σ l (.int (n + 1)) with | some p => .next p.1 p.2 | none => .stuck)
    | _ => .stuck
  | .copy dst src, h, σ =>
    Out.ofRes (dst.eval h σ) fun d => Out.ofRes (src.eval h σ) fun s =>
      match d, s with
      | .view o1 l1 _, .view o2 l2 _ =>
        .next { h with fs := { h.fs with buf := { h.fs.buf with
          data := writeAll h.fs.buf.data o1 (readView h.fs.buf.data o2 (min l1 l2)) } } } σ
      | _, _ => .stuck
  | .copyVar v src, h, σ =>
    Out.ofRes (src.eval h σ) fun s =>
      match σ v, s with
      | some (.fresh a l), .view o2 l2 _ => .next h (σ.set v (.fresh (writeAll a 0 (readView h.fs.buf.data o2 (min l l2))) l))
      | _, _ => .stuck
  | .setRowAt i e, h, σ =>
    Out.ofRes (i.eval h σ) fun iv => Out.ofRes (e.eval h σ) fun x =>
      match iv, x with
      | .int n, .snap f => if 0 ≤ n ∧ n < h.row.length then .next { h with row := h.row.set n.toNat f } σ else .panic .index
      | _, _ => .stuck
  | .ite c t e, h, σ =>
    Out.ofRes (c.eval h σ) fun x =>
      match x with
      | .bool true => t.exec Γ h σ
      | .bool false => e.exec Γ h σ
      | _ => .stuck
  | .loop body, h, σ => iter (fun h' σ' => body.exec Γ h' σ') Γ.fuel h σ
  | .brk, h, σ => .brk h σ
  | .cont, h, σ => .cont h σ
  | .ret es, h, σ => Out.ofRes (evalList h σ es) fun vs => .ret h vs
  | .call ls f args, h, σ =>
    Out.ofRes (evalList h σ args) fun vs =>
      match Γ.call f vs h with
      | .ret h' rs => (match assignAll h' σ ls rs with
                       | some p => .next p.1 p.2
                       | none => (match ls with | [] => .next h' σ | _ => .stuck))
      | .panic c => .panic c
      | .stuck => .stuck
  | .retCall f args, h, σ =>
    Out.ofRes (evalList h σ args) fun vs =>
      match Γ.call f vs h with
      | .ret h' rs => .ret h' rs
      | .panic c => .panic c
      | .stuck => .stuck
  | .rawRead n er dst, h, σ =>
    Out.ofRes (dst.eval h σ) fun d =>
      match d with
      | .view off len _ =>
        let r := underRead h.fs.buf.src len
        let h1 : Reader := { h with fs := { h.fs with buf := { h.fs.buf with
          data := writeAll h.fs.buf.data off r.1, src := r.2.2 } } }
        (match assignAll h1 σ [n, er] [.int r.1.length, .err r.2.1] with
         | some p => .next p.1 p.2
         | none => .stuck)
      | _ => .stuck
  | .opaque _, _, _ => .stuck

/-! ## Calls -/

def bindArgs : List Val → Nat → Store → Store
  | [], _, σ => σ
  | x :: xs, i, σ => bindArgs xs (i + 1) (σ.set i x)

/-- a body that ends without `return` returns nothing -/
def runFn (Γ : Env) (fn : Fn) (args : List Val) (h : Reader) : CallRes :=
  if args.length = fn.params then
    match fn.body.exec Γ h (bindArgs args 0 Store.empty) with
    | .ret h' vs => .ret h' vs
    | .next h' _ => .ret h' []
    | .panic c => .panic c
    | _ => .stuck
  else .stuck

/-- calls nested at most `n` deep (the translated functions do not call themselves) -/
def callAt (P : List (FnId × Fn)) (fuel : Nat) : Nat → FnId → List Val → Reader → CallRes
  | 0 => fun _ _ _ => .stuck
  | n + 1 => fun f args h =>
    match P.lookup f with
    | some fn => runFn { call := callAt P fuel n, fuel := fuel } fn args h
    | none => .stuck

/-- the call depth the interpretation allows (today: Read → Next → fields.next → nextQuotedField → more → wrapper Read) -/
def depth : Nat := 6

/-! ## Reading a document -/

/-- the state `NewReader` builds, for any capacity of the buffer -/
def initHeap (doc : List Byte) (sched : List Nat) (delim : Byte) (cap : Nat) (failAt : Option Nat)
    (eofWithData failWithData : Bool) : Reader :=
  { fs := { buf := { data := Array.replicate cap 0, len := 0, cursor := 0,
                     src := { rest := doc, sched := sched, failAt := failAt, eofWithData := eofWithData,
                              failWithData := failWithData } }, delim := delim } }

/-- the caller's loop `for { row, err := r.Read(); if err != nil { break }; <keep row> }` with a budget of `n` rows: the rows,
the error that ended the loop, the final state -/
def readAllLoop (P : List (FnId × Fn)) (fuel : Nat) : Nat → Reader → List (List (List Byte)) →
    Res (List (List (List Byte)) × Option RErr × Reader)
  | 0, _, _ => .panic .fuel
  | n + 1, h, acc =>
    match callAt P fuel depth .rdRead [] h with
    | .ret h' [.rows row, .err none] => readAllLoop P fuel n h' (acc ++ [row])
    | .ret h' [.rows _, .err (some e)] => .ok (acc, some e, h')
    | .panic c => .panic c
    | _ => .stuck

/-- reading a whole document with the translated functions `P`, with the budget of the hand mirror's `Csv.readAll` -/
def readAll (P : List (FnId × Fn)) (doc : List Byte) (sched : List Nat) (delim : Byte) (cap : Nat) (failAt : Option Nat)
    (eofWithData failWithData : Bool) : Res (List (List (List Byte)) × Option RErr × Reader) :=
  let fuel := 8 * doc.length + 64
  readAllLoop P fuel fuel (initHeap doc sched delim cap failAt eofWithData failWithData) []

/-- `NewReader(<the underlying reader>, delim)` by the translated functions -/
def newReader (P : List (FnId × Fn)) (s : Src) (delim : Byte) : Option Reader :=
  match callAt P 0 1 .newReader [.rdr s false, .byte delim] (initHeap [] [] 0 0 none false false) with
  | .ret _ [.reader r] => some r
  | _ => none

end QF.CR
