import QF.Core.SorterPivot
/-! Prototype: comparators (Reverse/NullLast tables) → total preorder → lexicographic Less is a strict weak order. -/
namespace Cmp

inductive Res | lt | gt | eq | neq deriving DecidableEq, Repr

/-- Comparable(reverse, equalNull, nullLast) as in internal/template/column.go, scolumn, ecolumn -/
structure Tbl where
  ltV : Res
  nullLtV : Res
  gtV : Res
  nullGtV : Res
  eqNullV : Res
deriving DecidableEq, Repr

def mkTbl (reverse equalNull nullLast : Bool) : Tbl :=
  let t : Tbl := ⟨.lt, .lt, .gt, .gt, .neq⟩
  let t := if reverse then ⟨t.gtV, t.nullGtV, t.ltV, t.nullLtV, t.eqNullV⟩ else t
  let t := if nullLast then { t with nullLtV := t.nullGtV, nullGtV := t.nullLtV } else t
  if equalNull then { t with eqNullV := .eq } else t

/-- a key column abstractly: each row has either no value (null/NaN) or a rank in a linear order (Int) -/
abbrev Key := Nat → Option Int

/-- Compare(i, j) for a nullable column (float / string / enum pattern) -/
def compare (t : Tbl) (k : Key) (i j : Nat) : Res :=
  match k i, k j with
  | some x, some y => if x < y then t.ltV else if x > y then t.gtV else .eq
  | some _, none => t.nullGtV
  | none, some _ => t.nullLtV
  | none, none => t.eqNullV

/-- the order the property describes: null smallest (largest with NullLast); Reverse inverts everything -/
def specLt (reverse nullLast : Bool) (k : Key) (i j : Nat) : Bool :=
  let base (a b : Option Int) : Bool :=
    match a, b with
    | some x, some y => decide (x < y)
    | none, some _ => !nullLast
    | some _, none => nullLast
    | none, none => false
  if reverse then base (k j) (k i) else base (k i) (k j)

theorem compare_spec (reverse nullLast : Bool) (k : Key) (i j : Nat) :
    (compare (mkTbl reverse false nullLast) k i j == .lt) = specLt reverse nullLast k i j := by
  unfold compare specLt mkTbl
  cases reverse <;> cases nullLast <;> cases hi : k i <;> cases hj : k j <;> simp <;>
    (try (rename_i x y; by_cases h1 : x < y <;> by_cases h2 : y < x <;> simp [h1, h2] <;> omega))

/-- Sorter.Less over a list of keys: first key that says lt/gt decides; eq/neq fall through -/
def lessKeys : List (Tbl × Key) → Nat → Nat → Bool
  | [], _, _ => false
  | (t, k) :: ks, i, j =>
    match compare t k i j with
    | .lt => true
    | .gt => false
    | _ => lessKeys ks i j

/-- per key: a "rank" making compare an honest comparison of ranks; tables built by mkTbl with equalNull = false -/
def rank (reverse nullLast : Bool) (k : Key) (i : Nat) : Int × Int :=
  -- (null group, value) compared lexicographically
  let nullRank : Int := if nullLast then 1 else -1
  let r : Int × Int := match k i with | some x => (0, x) | none => (nullRank, 0)
  if reverse then (-r.1, -r.2) else r

def pairLt (a b : Int × Int) : Bool := decide (a.1 < b.1 ∨ (a.1 = b.1 ∧ a.2 < b.2))

theorem compare_rank (reverse nullLast : Bool) (k : Key) (i j : Nat) :
    (compare (mkTbl reverse false nullLast) k i j = .lt ↔ pairLt (rank reverse nullLast k i) (rank reverse nullLast k j) = true) ∧
    (compare (mkTbl reverse false nullLast) k i j = .gt ↔ pairLt (rank reverse nullLast k j) (rank reverse nullLast k i) = true) := by
  unfold compare mkTbl rank pairLt
  cases reverse <;> cases nullLast <;> cases hi : k i <;> cases hj : k j <;> simp <;>
    (try (rename_i x y; by_cases h1 : x < y <;> by_cases h2 : y < x <;> simp [h1, h2] <;> omega))

/-- keys as produced by QFrame.Sort: (reverse, nullLast, column) -/
def mkKeys (ks : List (Bool × Bool × Key)) : List (Tbl × Key) := ks.map fun (r, n, k) => (mkTbl r false n, k)

/-- lexicographic less on rank vectors -/
def vecLt : List (Int × Int) → List (Int × Int) → Bool
  | a :: as, b :: bs => pairLt a b || (!pairLt b a && vecLt as bs)
  | _, _ => false

theorem lessKeys_vec (ks : List (Bool × Bool × Key)) (i j : Nat) :
    lessKeys (mkKeys ks) i j = vecLt (ks.map fun (r, n, k) => rank r n k i) (ks.map fun (r, n, k) => rank r n k j) := by
  induction ks with
  | nil => simp [mkKeys, lessKeys, vecLt]
  | cons x ks ih =>
    obtain ⟨r, n, k⟩ := x
    simp only [mkKeys, List.map_cons, lessKeys, vecLt] at ih ⊢
    obtain ⟨h1, h2⟩ := compare_rank r n k i j
    cases hc : compare (mkTbl r false n) k i j with
    | lt => simp [h1.mp hc]
    | gt =>
      have a := h2.mp hc
      have b : pairLt (rank r n k i) (rank r n k j) = false := by
        unfold pairLt at a ⊢; simp at a ⊢; omega
      simp [a, b]
    | eq | neq =>
      all_goals
        have a : pairLt (rank r n k i) (rank r n k j) = false := by
          cases hv : pairLt (rank r n k i) (rank r n k j) with
          | false => rfl
          | true => rw [h1.mpr hv] at hc; cases hc
        have b : pairLt (rank r n k j) (rank r n k i) = false := by
          cases hv : pairLt (rank r n k j) (rank r n k i) with
          | false => rfl
          | true => rw [h2.mpr hv] at hc; cases hc
        simp only [a, b, Bool.false_or, Bool.not_false, Bool.true_and]
        exact ih

theorem pairLt_asymm (a b : Int × Int) (h : pairLt a b = true) : pairLt b a = false := by
  unfold pairLt at *; simp at *; omega

theorem pairLt_cotrans (a b c : Int × Int) (h1 : pairLt b a = false) (h2 : pairLt c b = false) : pairLt c a = false := by
  unfold pairLt at *; simp at *; omega

theorem pairLt_trans (a b c : Int × Int) (h1 : pairLt a b = true) (h2 : pairLt b c = true) : pairLt a c = true := by
  unfold pairLt at *; simp at *; omega

theorem pair_eq_of_incomp (a b : Int × Int) (h1 : pairLt a b = false) (h2 : pairLt b a = false) : a = b := by
  unfold pairLt at *; simp at *
  apply Prod.ext <;> omega

theorem vecLt_asymm : ∀ (u v : List (Int × Int)), vecLt u v = true → vecLt v u = false := by
  intro u
  induction u with
  | nil => intro v h; simp [vecLt] at h
  | cons a as ih =>
    intro v h
    cases v with
    | nil => simp [vecLt] at h
    | cons b bs =>
      simp only [vecLt, Bool.or_eq_true, Bool.and_eq_true, Bool.not_eq_eq_eq_not, Bool.not_true] at h
      simp only [vecLt, Bool.or_eq_false_iff, Bool.and_eq_false_iff, Bool.not_eq_eq_eq_not, Bool.not_false]
      rcases h with h | ⟨h1, h2⟩
      · exact ⟨pairLt_asymm _ _ h, Or.inl h⟩
      · cases hv : pairLt a b with
        | true => exact ⟨h1, Or.inl rfl⟩
        | false => exact ⟨h1, Or.inr (ih bs h2)⟩

theorem vecLt_cotrans : ∀ (u v w : List (Int × Int)), u.length = v.length → v.length = w.length →
    vecLt v u = false → vecLt w v = false → vecLt w u = false := by
  intro u
  induction u with
  | nil => intro v w h1 h2 _ _; cases w <;> simp [vecLt]
  | cons a as ih =>
    intro v w hl1 hl2 h1 h2
    cases v with
    | nil => simp at hl1
    | cons b bs =>
      cases w with
      | nil => simp at hl2
      | cons c cs =>
        simp only [vecLt, Bool.or_eq_false_iff, Bool.and_eq_false_iff, Bool.not_eq_eq_eq_not, Bool.not_false] at h1 h2 ⊢
        obtain ⟨p1, q1⟩ := h1
        obtain ⟨p2, q2⟩ := h2
        refine ⟨pairLt_cotrans _ _ _ p1 p2, ?_⟩
        -- either a < c strictly, or the heads are all equal and the tails decide
        cases hac : pairLt a c with
        | true => exact Or.inl rfl
        | false =>
          right
          have hab : pairLt a b = false := by
            cases hv : pairLt a b with
            | false => rfl
            | true =>
              -- a < b and ¬ c < b ... then a < c unless b ≤ c fails; use cotrans contrapositive
              have := pairLt_cotrans b c a (by
                cases hx : pairLt c b with
                | false => rfl
                | true => rw [hx] at p2; cases p2) (by rw [hac])
              rw [hv] at this; cases this
          have hbc : pairLt b c = false := by
            cases hv : pairLt b c with
            | false => rfl
            | true =>
              have := pairLt_cotrans c a b hac p1
              rw [hv] at this; cases this
          have e1 : a = b := pair_eq_of_incomp _ _ hab p1
          have e2 : b = c := pair_eq_of_incomp _ _ hbc p2
          rcases q1 with q1 | q1
          · rw [hab] at q1; cases q1
          · rcases q2 with q2 | q2
            · rw [hbc] at q2; cases q2
            · exact ih bs cs (by simpa using hl1) (by simpa using hl2) q1 q2

/-- C03 glue: the Less function QFrame.Sort builds from any list of orders is a strict weak order -/
theorem lessKeys_swo (ks : List (Bool × Bool × Key)) : Sorter.SWO (lessKeys (mkKeys ks)) := by
  constructor
  · intro a b h
    rw [lessKeys_vec] at h ⊢
    exact vecLt_asymm _ _ h
  · intro a b c h1 h2
    rw [lessKeys_vec] at h1 h2 ⊢
    exact vecLt_cotrans _ _ _ (by simp) (by simp) h1 h2

/-- end-to-end: sorting an index with the model's sorter and the Less built from the orders yields a
    sorted permutation -/
theorem sort_by_orders (ks : List (Bool × Bool × Key)) (ix : Sorter.Ix) :
    Sorter.Sorted (lessKeys (mkKeys ks)) (Sorter.sort (lessKeys (mkKeys ks)) ix) 0 ix.size ∧
    (Sorter.sort (lessKeys (mkKeys ks)) ix).Perm ix :=
  ⟨Sorter.sort_sorted_full _ (lessKeys_swo ks) ix, Sorter.sort_perm _ ix⟩

#print axioms sort_by_orders
end Cmp
