import QF.Core.Frame
/-! Prototype: mirror of expression.go (newExpr decoding, temp columns, execute) and QFrame.Eval. -/
namespace Fr

/-- dynamic argument tree accepted by Expr/Val -/
inductive Dyn
  | col (n : String)          -- types.ColumnName
  | const (v : Val)
  | str (s : String)          -- plain string: an operation name in head position, a string constant elsewhere
  | list (l : List Dyn)
  | bad

inductive Ex
  | col (n : String)
  | const (v : Val)
  | unary (op : String) (src : String)
  | colConst (op : String) (src : String) (v : Val)     -- NB: the code forgets which side the constant was on
  | colCol (op : String) (a b : String)
  | ex1 (op : String) (e : Ex)
  | ex2 (op : String) (l r : Ex)
  | error

def constOf : Dyn → Option Val
  | .const v => some v
  | .str s => some (.str (some s.toUTF8.toList))
  | _ => none
def colOf : Dyn → Option String
  | .col n => some n
  | _ => none
def opOf : Dyn → Option String
  | .str s => some s
  | _ => none

/-- newExpr: decoding order col, const, unary, col-const (with flip), col-col, nested -/
def newExpr (fuel : Nat) (d : Dyn) : Ex :=
  match fuel with
  | 0 => .error
  | fuel + 1 =>
  match colOf d with
  | some n => .col n
  | none =>
  match constOf d with
  | some v => .const v
  | none =>
  match d with
  | .list [o, a] =>
    (match opOf o, colOf a with
     | some op, some c => .unary op c
     | some op, none => (match newExpr fuel a with | .error => .error | e => .ex1 op e)
     | none, _ => .error)
  | .list [o, a, b] =>
    match opOf o with
    | none => .error
    | some op =>
      match colOf a, constOf b, colOf b, constOf a with
      | some c, some v, _, _ => .colConst op c v
      | _, _, some c, some v => .colConst op c v          -- flipped order: same node
      | some c1, _, some c2, _ => .colCol op c1 c2
      | _, _, _, _ =>
        match newExpr fuel a, newExpr fuel b with
        | .error, _ => .error
        | _, .error => .error
        | l, r => .ex2 op l r
  | _ => .error

/-- evaluation context: (operand type, arity, name) ↦ function -/
structure Ctx where
  fn1 : Ty → String → Option (Ty × (Val → Val))
  fn2 : Ty → String → Option (Val → Val → Val)

def natStr (n : Nat) : String := toString n
def tempColName (f : Frame) (pre : String) : String :=
  match (List.range 10000).find? (fun i => (f.byName (pre ++ "-temp-" ++ natStr i)).isNone) with
  | some i => pre ++ "-temp-" ++ natStr i
  | none => "PANIC"

def physLen (f : Frame) : Nat := match f.cols with | [] => 0 | c :: _ => c.col.data.length

def tyOf : Val → Ty
  | .int _ => .int | .float _ => .float | .bool _ => .bool | .str _ => .str | .enum _ => .enum

def applyConst (f : Frame) (dst : String) (v : Val) : Frame :=
  if f.err.isSome then f else setColumn f dst { ty := tyOf v, data := List.replicate (physLen f) v }

def apply1 (f : Frame) (dst src : String) (rty : Ty) (fn : Val → Val) : Frame :=
  if f.err.isSome then f else
  match f.byName src with
  | none => { f with err := some .unknownCol }
  | some s => setColumn f dst (applyFn1 f (physLen f) fn rty s.col)

def apply2 (f : Frame) (dst a b : String) (fn : Val → Val → Val) : Frame :=
  if f.err.isSome then f else
  match f.byName a, f.byName b with
  | some x, some y =>
    if x.col.ty != y.col.ty then { f with err := some .typeErr } else
    setColumn f dst { ty := x.col.ty, data := (List.range (physLen f)).map fun p =>
      if p ∈ f.index then (match x.col.data[p]?, y.col.data[p]? with | some u, some v => fn u v | _, _ => x.col.ty.zero) else x.col.ty.zero }
  | _, _ => { f with err := some .unknownCol }

def copyCol (f : Frame) (dst src : String) : Frame :=
  if f.err.isSome then f else
  match f.byName src with
  | none => { f with err := some .unknownCol }
  | some s => if dst = src then f else setColumn f dst s.col

def selectCols (f : Frame) (names : List String) : Frame :=
  let cols := (List.range names.length).zip names |>.filterMap fun (i, n) => (f.byName n).map fun c => { c with pos := i }
  { f with cols := cols, byName := fun n => if n ∈ names then (cols.reverse.find? (·.name == n)) else none }

def dropCols (f : Frame) (names : List String) : Frame :=
  if f.err.isSome || names.isEmpty then f else
  selectCols f ((f.cols.map (·.name)).filter fun n => !(names.contains n))

def contains (f : Frame) (n : String) : Bool := (f.byName n).isSome

def execConst (v : Val) (f : Frame) : Frame × String :=
  if f.err.isSome then (f, "") else
  let t := tempColName f "const"; (applyConst f t v, t)

def execUnary (ctx : Ctx) (op src : String) (f : Frame) : Frame × String :=
  if f.err.isSome then (f, "") else
  match f.byName src with
  | none => ({ f with err := some .unknownCol }, "")
  | some s => match ctx.fn1 s.col.ty op with
    | none => ({ f with err := some .other }, "")
    | some (rty, fn) => let t := tempColName f "unary"; (apply1 f t src rty fn, t)

def execColCol (ctx : Ctx) (op a b : String) (f : Frame) : Frame × String :=
  if f.err.isSome then (f, "") else
  match f.byName a with
  | none => ({ f with err := some .unknownCol }, "")
  | some s => match ctx.fn2 s.col.ty op with
    | none => ({ f with err := some .other }, "")
    | some fn => let t := tempColName f "colcol"; (apply2 f t a b fn, t)

/-- execute: returns the frame and the name of the column holding the result -/
def execute (ctx : Ctx) : Ex → Frame → Frame × String
  | .col n, f => (f, n)
  | .const v, f => execConst v f
  | .unary op src, f => execUnary ctx op src f
  | .colCol op a b, f => execColCol ctx op a b f
  | .colConst op src v, f =>
      if f.err.isSome then (f, "") else
      let rc := execConst v f
      let rn := execColCol ctx op src rc.2 rc.1      -- always (column, constant): the flip
      (dropCols rn.1 [rc.2], rn.2)
  | .ex1 op e, f =>
      let rt := execute ctx e f
      let rn := execUnary ctx op rt.2 rt.1
      (if !contains f rt.2 then dropCols rn.1 [rt.2] else rn.1, rn.2)
  | .ex2 op l r, f =>
      let x := execute ctx l f
      let y := execute ctx r x.1
      let z := execColCol ctx op x.2 y.2 y.1
      (dropCols z.1 ([x.2, y.2].filter fun s => !contains f s), z.2)
  | .error, f => if f.err.isSome then (f, "") else ({ f with err := some .other }, "")

/-- QFrame.Eval -/
def eval (ctx : Ctx) (f : Frame) (dst : String) (e : Ex) : Frame :=
  if f.err.isSome then f else
  let (r, c) := execute ctx e f
  let r := copyCol r dst c
  if !contains f c then dropCols r [c] else r

-- tests
def intCtx : Ctx :=
  { fn1 := fun _ _ => none,
    fn2 := fun t op => if t == .int && op == "-" then some (fun a b => match a, b with | .int x, .int y => .int (x - y) | _, _ => .int 0) else
                      if t == .int && op == "+" then some (fun a b => match a, b with | .int x, .int y => .int (x + y) | _, _ => .int 0) else none }
def xcol : Col := { ty := .int, data := [.int 1, .int 2, .int 3] }
def fx : Frame := { cols := [⟨"x", 0, xcol⟩], byName := fun n => if n = "x" then some ⟨"x", 0, xcol⟩ else none, index := [0, 1, 2] }
def showF (f : Frame) : Option Err × List (String × List Int) :=
  (f.err, f.abs.map fun (n, _, vs) => (n, vs.map fun (v : Option Val) => match v with | some (Val.int i) => i | _ => -999))
#eval showF (eval intCtx fx "y" (newExpr 10 (.list [.str "-", .const (.int 10), .col "x"])))   -- Go: x-10 = [-9,-8,-7]
#eval showF (eval intCtx fx "y" (newExpr 10 (.list [.str "-", .col "x", .const (.int 10)])))
#eval showF (eval intCtx fx "colcol-temp-0" (newExpr 10 (.list [.str "+", .col "x", .col "x"])))  -- Go: dst dropped → [x]
#eval showF (eval intCtx fx "y" (newExpr 10 (.list [.str "+", .list [.str "+", .col "x", .const (.int 10)], .list [.str "-", .col "x", .col "x"]])))
end Fr
