import QF.Core.OExpr
import QF.Core.WExpr
/-!
# VCol / VFrame — columns AS STORED, and the views into them

A `QFrame` holds, per column, the cells of ALL physical rows (`data`) and ONE index (`[]uint32`) that says which physical
rows make up the frame, in which order. The logical frame of the spec (`LFrame`) is what the index selects:
logical cell `i` of a column is `data[index[i]]`. Everything that reads a cell through an index of its own — the typed
views of the five column packages (`View.ItemAt`, `View.Slice`), the argument builders of `ToSQL` — is modelled on the
stored column, so that reading `data[i]` where `data[index[i]]` is meant is a different function.
-/
namespace QF

/-- A column as stored: the cells of all physical rows (enum cells as the string of their code, `vals` the value table). -/
structure VCol where
  name : Bytes
  ty : CType
  vals : List Bytes := []
  data : Array Cell
  deriving Repr, Inhabited

/-- A frame as stored: the columns and the index. -/
structure VFrame where
  cols : List VCol
  index : List Nat
  deriving Repr, Inhabited

/-- the cells an index selects, in its order -/
def VCol.pick (c : VCol) (ix : List Nat) : List Cell := ix.map (fun j => c.data[j]!)

/-- the logical column an index selects -/
def VCol.logical (c : VCol) (ix : List Nat) : LCol :=
  { name := c.name, ty := c.ty, vals := c.vals, cells := (c.pick ix).toArray }

/-- the logical frame: what the spec talks about -/
def VFrame.logical (P : VFrame) : LFrame :=
  { cols := P.cols.map (fun c => c.logical P.index), n := P.index.length }

/-! ## The views of the column packages as terms

    func (c Column) View(ix index.Int) View                      → VwCtor
    func (v View) ItemAt(i int) T                                → VwItem
    func (v View) Len() int                                      → VwLen
    func (v View) Slice() []T                                    → VwSlice
    func stringToPtr(s string, isNull bool) *string   (scolumn)  → VwPtr
    func (c Column) stringPtrAt(i uint32) *string     (ecolumn)  → VwPtr
    func (c Column) stringCopyAt(i uint32) (string, bool) (scolumn) → RE (as `stringAt`, OExpr.lean)

The extractor (go/cmd/extract/viewast.go) translates these functions of /repo's current source and writes them to
`QF/Gen/Views.lean` on every run. Terms name things by ROLE: the fields of `type View struct` are found by their TYPES (the
index `index.Int`, the cell slice `[]T`, the column `Column`); "the position" is the parameter of `ItemAt` or the key of the
`range` over the view's index, "the row" the value of that range or `v.index[<position>]`.

`T` is `int` / `float64` / `bool` for the three value packages (the item is the stored cell) and `*string` for scolumn and
ecolumn (the item is `Cell.str`: `none` is the nil pointer). -/

/-- A position (`int`). -/
inductive VwPos where
  /-- the parameter of `ItemAt` -/
  | param
  /-- the key of the `range` over the view's index -/
  | loopPos
  deriving DecidableEq, Repr, Inhabited

/-- A physical row (`uint32`). -/
inductive VwRow where
  /-- `v.index[p]` -/
  | indexAt (p : VwPos)
  /-- the value of the `range` over the view's index -/
  | loopRow
  /-- the position itself used as a row: `v.data[i]` -/
  | posAsRow (p : VwPos)
  deriving DecidableEq, Repr, Inhabited

/-- An item of a view. -/
inductive VwItem where
  /-- `v.data[r]` (the view holds the cell slice) -/
  | dataAt (r : VwRow)
  /-- `stringToPtr(v.column.stringAt(r))`; `copy`: `stringCopyAt` instead of `stringAt` -/
  | strPtr (copy : Bool) (r : VwRow)
  /-- `v.column.stringPtrAt(r)` -/
  | enumPtr (r : VwRow)
  /-- `v.ItemAt(p)` -/
  | itemAt (p : VwPos)
  | opaque (txt : String)
  deriving DecidableEq, Repr, Inhabited

/-- `Column.View(ix)`. -/
inductive VwCtor where
  /-- `View{data: c.data, index: ix}`: the view holds the receiver's cell slice and the index parameter -/
  | ofData
  /-- `View{column: c, index: ix}`: the view holds the receiver and the index parameter -/
  | ofColumn
  | opaque (txt : String)
  deriving DecidableEq, Repr, Inhabited

/-- `View.Len()`. -/
inductive VwLen where
  /-- `return len(v.index)` -/
  | lenIndex
  | opaque (txt : String)
  deriving DecidableEq, Repr, Inhabited

/-- The length `Slice` allocates. -/
inductive VwLenE where
  /-- `v.Len()` -/
  | callLen
  /-- `len(v.index)` -/
  | lenIndex
  | opaque (txt : String)
  deriving DecidableEq, Repr, Inhabited

/-- `View.Slice()`. -/
inductive VwSlice where
  /-- `result := make([]T, n); for i, j := range v.index { result[i] = item }; return result` -/
  | fill (n : VwLenE) (item : VwItem)
  | opaque (txt : String)
  deriving DecidableEq, Repr, Inhabited

/-- Conditions of the pointer helpers. -/
inductive VwCond where
  /-- the `bool` parameter -/
  | flagParam
  /-- `c.data[i].isNull()` for the receiver's cell at the row parameter -/
  | cellIsNull
  | not (c : VwCond)
  | opaque (txt : String)
  deriving DecidableEq, Repr, Inhabited

/-- The pointer helpers (`*string` results) as decision trees. -/
inductive VwPtr where
  /-- `return nil` -/
  | nilPtr
  /-- `return &s` for the string parameter -/
  | addrStr
  /-- `return &c.values[c.data[i]]` for the receiver's cell at the row parameter -/
  | addrEnumValue
  | ite (c : VwCond) (t e : VwPtr)
  | opaque (txt : String)
  deriving DecidableEq, Repr, Inhabited

/-- A view value. -/
structure VView where
  /-- the cell slice the view holds -/
  data : Option (Array Cell) := none
  /-- the column the view holds -/
  col : Option VCol := none
  index : List Nat

/-- `c.View(ix)`. The cell slice of a column is `c.data` for the three value packages only. -/
def VwCtor.eval (c : VCol) (ix : List Nat) : VwCtor → Option VView
  | .ofData =>
    match c.ty with
    | .int | .float | .bool => some { data := some c.data, index := ix }
    | _ => none
  | .ofColumn => some { col := some c, index := ix }
  | .opaque _ => none

def VwCond.eval (flag : Option Bool) (ty : CType) (vals : List Bytes) (x : Option Cell) : VwCond → Option Bool
  | .flagParam => flag
  | .cellIsNull => x.bind (nullOf ty vals)
  | .not c => (c.eval flag ty vals x).map (!·)
  | .opaque _ => none

/-- The pointer returned: `some none` is nil. `s`, `flag`: the string and the bool parameter; `x`: the receiver's cell at
the row parameter (a column of type `ty`, value table `vals`). -/
def VwPtr.eval (s : Option Bytes) (flag : Option Bool) (ty : CType) (vals : List Bytes) (x : Option Cell) :
    VwPtr → Option (Option Bytes)
  | .nilPtr => some none
  | .addrStr => s.map some
  | .addrEnumValue => x.bind (fun x => (enumStrOf ty vals x).map some)
  | .ite c t e =>
    match c.eval flag ty vals x with
    | some true => t.eval s flag ty vals x
    | some false => e.eval s flag ty vals x
    | none => none
  | .opaque _ => none

/-- What the views call. -/
structure VwEnv where
  /-- `c.stringAt(r)` (`false`) / `c.stringCopyAt(r)` (`true`) on the cell at `r`: the string and the null flag -/
  pair : Bool → Cell → Option (Bytes × Bool)
  /-- `stringToPtr(s, isNull)` -/
  toPtr : Bytes → Bool → Option (Option Bytes)
  /-- `c.stringPtrAt(r)` on the cell at `r` of an enum column with the value table -/
  enumPtr : List Bytes → Cell → Option (Option Bytes)

structure VwCtx where
  param : Option Nat := none
  /-- position and row of the `range` over the view's index -/
  loop : Option (Nat × Nat) := none

def VwPos.eval (c : VwCtx) : VwPos → Option Nat
  | .param => c.param
  | .loopPos => c.loop.map (·.1)

/-- `none`: index out of range -/
def VwRow.eval (V : VView) (c : VwCtx) : VwRow → Option Nat
  | .indexAt p => (p.eval c).bind (fun i => V.index[i]?)
  | .loopRow => c.loop.map (·.2)
  | .posAsRow p => p.eval c

/-- an item that does not call `ItemAt` -/
def VwItem.eval1 (E : VwEnv) (V : VView) (c : VwCtx) : VwItem → Option Cell
  | .dataAt r =>
    match V.data, r.eval V c with
    | some d, some j => d[j]?
    | _, _ => none
  | .strPtr copy r =>
    match V.col, r.eval V c with
    | some col, some j =>
      match col.data[j]? with
      | some x =>
        match E.pair copy x with
        | some (s, n) => (E.toPtr s n).map Cell.str
        | none => none
      | none => none
    | _, _ => none
  | .enumPtr r =>
    match V.col, r.eval V c with
    | some col, some j =>
      match col.data[j]? with
      | some x => (E.enumPtr col.vals x).map Cell.str
      | none => none
    | _, _ => none
  | .itemAt _ => none
  | .opaque _ => none

/-- an item; `itemAt` is the body of `ItemAt` (a call of `ItemAt` from inside `ItemAt` has no value) -/
def VwItem.eval (E : VwEnv) (itemAt : VwItem) (V : VView) (c : VwCtx) : VwItem → Option Cell
  | .itemAt p => (p.eval c).bind (fun i => itemAt.eval1 E V { param := some i })
  | t => t.eval1 E V c

def VwLen.eval (V : VView) : VwLen → Option Nat
  | .lenIndex => some V.index.length
  | .opaque _ => none

def VwLenE.eval (len : VwLen) (V : VView) : VwLenE → Option Nat
  | .callLen => len.eval V
  | .lenIndex => some V.index.length
  | .opaque _ => none

/-- the pairs (position, element) of a list -/
def withPos {α : Type} : Nat → List α → List (Nat × α)
  | _, [] => []
  | i, a :: as => (i, a) :: withPos (i + 1) as

/-- `Slice()`: the items in index order. A slice allocated with another length than the index has is not modelled (too
short: Go panics; too long: zero values remain at the end). -/
def VwSlice.eval (E : VwEnv) (itemAt : VwItem) (len : VwLen) (V : VView) : VwSlice → Option (List Cell)
  | .fill n item =>
    match n.eval len V with
    | some k =>
      if k = V.index.length then optMap (fun p => VwItem.eval E itemAt V { loop := some p } item) (withPos 0 V.index) else none
    | none => none
  | .opaque _ => none

def VwItem.hasOpaque : VwItem → Bool
  | .opaque _ => true
  | _ => false

def VwCtor.hasOpaque : VwCtor → Bool
  | .opaque _ => true
  | _ => false

def VwLen.hasOpaque : VwLen → Bool
  | .opaque _ => true
  | _ => false

def VwSlice.hasOpaque : VwSlice → Bool
  | .opaque _ | .fill (.opaque _) _ => true
  | .fill _ item => item.hasOpaque

def VwCond.hasOpaque : VwCond → Bool
  | .opaque _ => true
  | .not c => c.hasOpaque
  | _ => false

def VwPtr.hasOpaque : VwPtr → Bool
  | .opaque _ => true
  | .ite c t e => c.hasOpaque || t.hasOpaque || e.hasOpaque
  | _ => false

end QF
