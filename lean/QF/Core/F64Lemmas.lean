import QF.Spec.Basic
/-!
# Bit-level facts about `F64.key`

`F64.key` (QF/Spec/Basic.lean) orders the non-NaN floats; it identifies exactly +0.0 and -0.0. Used by the proofs about
the row hashes (C04Hash: cells that compare equal have the same canonical bits) and about `math.Max` / `math.Min`
(C04Aggregations: `x > y` and `key x ≥ key y` pick the same bits).
-/
namespace QF.F64

theorem mag_toNat (a : UInt64) : (a &&& 0x7fffffffffffffff).toNat = a.toNat % 2 ^ 63 := by
  rw [UInt64.toNat_and]
  exact Nat.and_two_pow_sub_one_eq_mod a.toNat 63

theorem signAnd_toNat (a : UInt64) : (a &&& signBit).toNat = 2 ^ 63 * (a.toNat / 2 ^ 63 % 2) := by
  rw [UInt64.toNat_and]
  have h1 : (a.toNat &&& 2 ^ 63) / 2 ^ 63 = a.toNat / 2 ^ 63 % 2 := by
    rw [Nat.and_div_two_pow, Nat.div_self (by decide), Nat.and_one_is_mod]
  have h2 : (a.toNat &&& 2 ^ 63) % 2 ^ 63 = 0 := by
    rw [Nat.and_mod_two_pow, Nat.mod_self, Nat.and_zero]
  have : signBit.toNat = 2 ^ 63 := by decide
  rw [this]
  omega

theorem sign_iff (a : UInt64) : sign a = decide (2 ^ 63 ≤ a.toNat) := by
  have h := signAnd_toNat a
  have hl := UInt64.toNat_lt a
  unfold sign
  by_cases hz : (a &&& signBit) = 0
  · have : (a &&& signBit).toNat = 0 := by rw [hz]; rfl
    have : ¬ 2 ^ 63 ≤ a.toNat := by omega
    simp [hz, this]
  · have : (a &&& signBit).toNat ≠ 0 := fun h0 => hz (UInt64.toNat_inj.1 (by rw [h0]; rfl))
    have : 2 ^ 63 ≤ a.toNat := by omega
    simp [hz, this]

/-- the order key determines a float that is not a zero -/
theorem key_inj {a b : UInt64} (h : key a = key b) (h0 : key a ≠ 0) : a = b := by
  have ha := UInt64.toNat_lt a
  have hb := UInt64.toNat_lt b
  apply UInt64.toNat_inj.1
  unfold key at h h0
  simp only [mag_toNat, sign_iff] at h h0
  by_cases sa : 2 ^ 63 ≤ a.toNat <;> by_cases sb : 2 ^ 63 ≤ b.toNat <;> simp [sa, sb] at h h0 <;> omega

theorem key_zero : key 0 = 0 := by decide
end QF.F64
