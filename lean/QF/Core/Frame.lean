/-! Prototype: frame core — columns with `pos`, name map, index; WF; abs; setColumn; projections; apply. -/
namespace Fr

inductive Val
  | int (v : Int) | float (b : UInt64) | bool (b : Bool) | str (s : Option (List UInt8)) | enum (r : Option Nat)
deriving DecidableEq, Repr

inductive Ty | int | float | bool | str | enum deriving DecidableEq, Repr

def Ty.zero : Ty → Val
  | .int => .int 0 | .float => .float 0 | .bool => .bool false | .str => .str none | .enum => .enum none

structure Col where
  ty : Ty
  data : List Val            -- physical storage
deriving DecidableEq, Repr

structure NCol where
  name : String
  pos : Nat
  col : Col
deriving DecidableEq, Repr

inductive Err | unknownCol | badName | badSlice | typeErr | other deriving DecidableEq, Repr

structure Frame where
  cols : List NCol
  byName : String → Option NCol
  index : List Nat
  err : Option Err := none

/-- logical content: per column (name, type, values in row order) -/
def Frame.abs (f : Frame) : List (String × Ty × List (Option Val)) :=
  f.cols.map fun c => (c.name, c.col.ty, f.index.map fun p => c.col.data[p]?)

structure WF (f : Frame) (L : Nat) : Prop where
  pos : ∀ (i : Nat) (c : NCol), f.cols[i]? = some c → c.pos = i
  mapOk : ∀ (n : String) (c : NCol), f.byName n = some c → f.cols[c.pos]? = some c ∧ c.name = n
  mapTotal : ∀ c : NCol, c ∈ f.cols → (f.byName c.name).isSome
  len : ∀ c : NCol, c ∈ f.cols → c.col.data.length = L
  ixLt : ∀ p, p ∈ f.index → p < L
  ixNodup : f.index.Nodup

def checkName (n : String) : Bool :=
  !n.isEmpty && !(n.startsWith "$") &&
  !(n.length > 2 && ((n.startsWith "'" && n.endsWith "'") || (n.startsWith "\"" && n.endsWith "\"")))

/-- qframe.go setColumn -/
def setColumn (f : Frame) (name : String) (c : Col) : Frame :=
  if !checkName name then { f with err := some .badName } else
  match f.byName name with
  | some existing =>
    let n : NCol := { name := name, pos := existing.pos, col := c }
    { f with cols := f.cols.set existing.pos n, byName := fun k => if k = name then some n else f.byName k }
  | none =>
    let n : NCol := { name := name, pos := f.cols.length, col := c }
    { f with cols := f.cols ++ [n], byName := fun k => if k = name then some n else f.byName k }

/-- logical effect of setting a column -/
def absSet (l : List (String × Ty × List (Option Val))) (pos? : Option Nat) (entry : String × Ty × List (Option Val)) :=
  match pos? with
  | some p => l.set p entry
  | none => l ++ [entry]

theorem setColumn_wf (f : Frame) (L : Nat) (wf : WF f L) (name : String) (c : Col) (hc : c.data.length = L)
    (hn : checkName name = true) : WF (setColumn f name c) L := by
  unfold setColumn
  simp only [hn, Bool.not_true, Bool.false_eq_true, ↓reduceIte]
  cases hb : f.byName name with
  | none =>
    simp only
    constructor
    · intro i x hx
      rcases Nat.lt_or_ge i f.cols.length with h | h
      · rw [List.getElem?_append_left h] at hx; exact wf.pos i x hx
      · rw [List.getElem?_append_right h] at hx
        have : i - f.cols.length = 0 := by
          cases hk : i - f.cols.length with
          | zero => rfl
          | succ k => rw [hk] at hx; simp at hx
        rw [this] at hx; simp at hx; subst hx; simp; omega
    · intro n x hx
      by_cases hk : n = name
      · subst hk; simp at hx; subst hx; simp
      · simp [hk] at hx
        obtain ⟨a, b⟩ := wf.mapOk n x hx
        have : x.pos < f.cols.length := by
          rcases Nat.lt_or_ge x.pos f.cols.length with h | h
          · exact h
          · rw [List.getElem?_eq_none h] at a; cases a
        exact ⟨by rw [List.getElem?_append_left this]; exact a, b⟩
    · intro x hx
      rcases List.mem_append.mp hx with h | h
      · by_cases hk : x.name = name
        · simp [hk]
        · simp [hk]; exact wf.mapTotal x h
      · simp at h; subst h; simp
    · intro x hx
      rcases List.mem_append.mp hx with h | h
      · exact wf.len x h
      · simp at h; subst h; exact hc
    · exact wf.ixLt
    · exact wf.ixNodup
  | some ex =>
    simp only
    obtain ⟨ea, eb⟩ := wf.mapOk name ex hb
    have hlt : ex.pos < f.cols.length := by
      rcases Nat.lt_or_ge ex.pos f.cols.length with h | h
      · exact h
      · rw [List.getElem?_eq_none h] at ea; cases ea
    constructor
    · intro i x hx
      rw [List.getElem?_set] at hx
      by_cases hi : ex.pos = i
      · subst hi; simp [hlt] at hx; subst hx; rfl
      · simp [hi] at hx; exact wf.pos i x hx
    · intro n x hx
      by_cases hk : n = name
      · subst hk; simp at hx; subst hx; simp [hlt]
      · simp [hk] at hx
        obtain ⟨a, b⟩ := wf.mapOk n x hx
        refine ⟨?_, b⟩
        rw [List.getElem?_set]
        by_cases hi : ex.pos = x.pos
        · -- then x = ex (same slot) hence n = name: contradiction
          rw [← hi, ea] at a; cases a; exact absurd (b.symm.trans eb) hk
        · simp [hi]; exact a
    · intro x hx
      by_cases hk : x.name = name
      · simp [hk]
      · simp [hk]
        rcases List.mem_or_eq_of_mem_set hx with h | h
        · exact wf.mapTotal x h
        · subst h; simp at hk
    · intro x hx
      rcases List.mem_or_eq_of_mem_set hx with h | h
      · exact wf.len x h
      · subst h; exact hc
    · exact wf.ixLt
    · exact wf.ixNodup


/-- logical effect of setColumn: replace in place or append last; everything else untouched -/
theorem setColumn_abs (f : Frame) (L : Nat) (wf : WF f L) (name : String) (c : Col) (hn : checkName name = true) :
    (setColumn f name c).abs =
      absSet f.abs ((f.byName name).map (·.pos)) (name, c.ty, f.index.map fun p => c.data[p]?) ∧
    (setColumn f name c).index = f.index ∧ (setColumn f name c).err = f.err := by
  unfold setColumn
  simp only [hn, Bool.not_true, Bool.false_eq_true, ↓reduceIte]
  cases hb : f.byName name with
  | none => simp [Frame.abs, absSet]
  | some ex => simp [Frame.abs, absSet, List.map_set]

/-- apply1 with a user function: result allocated at physical length, written at index positions -/
def applyFn1 (f : Frame) (L : Nat) (fn : Val → Val) (rty : Ty) (src : Col) : Col :=
  { ty := rty, data := (List.range L).map fun p => if p ∈ f.index then (match src.data[p]? with | some v => fn v | none => rty.zero) else rty.zero }

theorem applyFn1_rowwise (f : Frame) (L : Nat) (wf : WF f L) (fn : Val → Val) (rty : Ty) (src : Col) (hs : src.data.length = L) :
    (f.index.map fun p => (applyFn1 f L fn rty src).data[p]?) = f.index.map fun p => (src.data[p]?).map fn := by
  apply List.map_congr_left
  intro p hp
  have hlt := wf.ixLt p hp
  simp only [applyFn1]
  rw [List.getElem?_map, List.getElem?_range hlt]
  simp only [Option.map_some, hp, ↓reduceIte]
  have : p < src.data.length := by omega
  rw [List.getElem?_eq_getElem this]; rfl

/-- Grouper.Aggregate's schema bookkeeping: grouped columns get pos := i; aggregated columns keep the
    source `pos` in the code as it is (`fixPos = false`), or get the next position (`fixPos = true`). -/
def aggCols (fixPos : Bool) (grouped : List NCol) (aggs : List NCol) : List NCol :=
  let g := (List.range grouped.length).zip grouped |>.map fun (i, c) => { c with pos := i }
  let a := (List.range aggs.length).zip aggs |>.map fun (i, c) => if fixPos then { c with pos := grouped.length + i } else c
  g ++ a

def mapOf (cols : List NCol) : String → Option NCol := fun n => (cols.reverse.find? (·.name == n))

def c0 : Col := { ty := .int, data := [.int 1, .int 2] }
/-- GroupBy(a).Aggregate(sum c) on a frame [a,b,c]: the aggregated column keeps pos = 2 in a two-column frame -/
def aggFrame (fixPos : Bool) : Frame :=
  let cols := aggCols fixPos [⟨"a", 0, c0⟩] [⟨"c", 2, c0⟩]
  { cols := cols, byName := mapOf cols, index := [0, 1] }

-- the code as it is violates WF.pos (witness); the repaired bookkeeping satisfies it
example : (aggFrame false).cols.map (·.pos) = [0, 2] := by rfl
example : (aggFrame true).cols.map (·.pos) = [0, 1] := by rfl
-- setColumn on the unrepaired frame targets slot 2 of a 2-element slice (Go: index out of range):
#eval (setColumn (aggFrame false) "c" c0).cols.map (fun c => (c.name, c.pos))
#eval (setColumn (aggFrame true) "c" c0).cols.map (fun c => (c.name, c.pos))

#print axioms applyFn1_rowwise
end Fr
