import QF.Core.GrouperInv
/-! Prototype: growth preserves the table invariant; counting; assembly. -/
namespace G

variable (hash : Nat → Nat) (eqv : Nat → Nat → Bool)

/-- number of occupied slots -/
def countOcc (slots : Array (Option Entry)) : Nat := (slots.toList.filter Option.isSome).length

theorem exists_empty_of_count (slots : Array (Option Entry)) (h : countOcc slots < slots.size) :
    ∃ s : Nat, slots[s]? = some none := by
  unfold countOcc at h
  have : ∃ x ∈ slots.toList, x.isSome = false := by
    apply Classical.byContradiction
    intro hne
    have hall : ∀ x ∈ slots.toList, x.isSome = true := by
      intro x hx
      cases hv : x.isSome with
      | true => rfl
      | false => exact absurd ⟨x, hx, hv⟩ hne
    rw [List.filter_eq_self.mpr hall] at h
    simp at h
  obtain ⟨x, hx, hxn⟩ := this
  obtain ⟨s, hs, hsx⟩ := List.getElem_of_mem hx
  refine ⟨s, ?_⟩
  have hx0 : x = none := by cases x <;> simp_all
  subst hx0
  simp at hs
  rw [Array.getElem?_eq_getElem hs]
  simpa using hsx

theorem countOcc_set_empty (slots : Array (Option Entry)) (p : Nat) (x : Entry) (h : slots[p]? = some none) :
    countOcc (slots.setIfInBounds p (some x)) = countOcc slots + 1 := by
  unfold countOcc
  have hp : p < slots.size := by
    rcases Nat.lt_or_ge p slots.size with h' | h'
    · exact h'
    · rw [Array.getElem?_eq_none h'] at h; cases h
  have hl : slots.toList[p]? = some none := by simpa using h
  cases slots with
  | mk l =>
    simp only [Array.setIfInBounds, List.size_toArray] at *
    simp only [hp, ↓reduceDIte, Array.set, List.set_toArray]
    -- split the list at p
    have hlt : p < l.length := hp
    have hlp : l[p] = none := by
      have := List.getElem?_eq_getElem hlt
      rw [this] at hl; simpa using hl
    rw [List.set_eq_take_append_cons_drop]
    simp only [hlt, ↓reduceIte]
    conv => rhs; rw [← List.take_append_drop p l, List.drop_eq_getElem_cons hlt, hlp]
    simp [List.filter_append, List.filter_cons]
    omega

theorem countOcc_set_occ (slots : Array (Option Entry)) (p : Nat) (e x : Entry) (h : slots[p]? = some (some e)) :
    countOcc (slots.setIfInBounds p (some x)) = countOcc slots := by
  unfold countOcc
  have hp : p < slots.size := by
    rcases Nat.lt_or_ge p slots.size with h' | h'
    · exact h'
    · rw [Array.getElem?_eq_none h'] at h; cases h
  have hl : slots.toList[p]? = some (some e) := by simpa using h
  cases slots with
  | mk l =>
    simp only [Array.setIfInBounds, List.size_toArray] at *
    simp only [hp, ↓reduceDIte, Array.set, List.set_toArray]
    have hlt : p < l.length := hp
    have hlp : l[p] = some e := by
      have := List.getElem?_eq_getElem hlt
      rw [this] at hl; simpa using hl
    rw [List.set_eq_take_append_cons_drop]
    simp only [hlt, ↓reduceIte]
    conv => rhs; rw [← List.take_append_drop p l, List.drop_eq_getElem_cons hlt, hlp]
    simp [List.filter_append, List.filter_cons]


theorem placeFrom_eq (slots : Array (Option Entry)) (e : Entry) (fuel pos coll : Nat) :
    placeFrom slots e fuel pos coll =
      (probe (fun _ _ => false) slots 0 0 fuel pos coll).map (fun pc => (slots.setIfInBounds pc.1 (some e), pc.2)) := by
  induction fuel generalizing pos coll with
  | zero => simp [placeFrom, probe]
  | succ f ih =>
    unfold placeFrom probe
    cases hv : slots[pos]? with
    | none => simp
    | some o =>
      cases o with
      | none => simp
      | some e' => simp [ih]

/-- placing into a table with an empty slot: goes to the first empty slot on the path -/
theorem place_result (ns : Array (Option Entry)) (e : Entry) (c0 : Nat) (hn : 0 < ns.size)
    (hEmpty : ∃ s : Nat, ns[s]? = some none) :
    ∃ p c, placeFrom ns e (ns.size + 1) (e.hash % ns.size) c0 = some (ns.setIfInBounds p (some e), c0 + c) ∧
      p < ns.size ∧ ns[p]? = some none ∧ c < ns.size ∧ p = walk ns.size c (e.hash % ns.size) ∧
      ∀ j, j < c → ∃ e', occ ns (walk ns.size j (e.hash % ns.size)) e' := by
  have hhome : e.hash % ns.size < ns.size := Nat.mod_lt _ hn
  obtain ⟨s0, hs0⟩ := hEmpty
  have hs0lt : s0 < ns.size := by
    rcases Nat.lt_or_ge s0 ns.size with h | h
    · exact h
    · rw [Array.getElem?_eq_none h] at hs0; cases hs0
  obtain ⟨k, hk, hwk⟩ := walk_cover ns.size (e.hash % ns.size) s0 hhome hs0lt
  have hstop : stopAt (fun _ _ => false) ns 0 0 (walk ns.size k (e.hash % ns.size)) = true := by
    unfold stopAt; rw [hwk, hs0]
  obtain ⟨m, hm, hpr, hsm, hbefore⟩ := probe_finds (fun _ _ => false) ns 0 0 (e.hash % ns.size) k hhome hk hstop
  have hplt := walk_lt ns.size m (e.hash % ns.size) hhome
  have hpr' : probe (fun _ _ => false) ns 0 0 (ns.size + 1) (e.hash % ns.size) c0 =
      some (walk ns.size m (e.hash % ns.size), c0 + m) := by
    have := probe_spec (fun _ _ => false) ns 0 0 m (ns.size + 1) (e.hash % ns.size) c0 hhome (by omega) hsm hbefore
    exact this
  refine ⟨_, m, by rw [placeFrom_eq, hpr']; rfl, hplt, ?_, by omega, rfl, fun j hj => ?_⟩
  · unfold stopAt at hsm
    have hlt : ns[walk ns.size m (e.hash % ns.size)]? = some ns[walk ns.size m (e.hash % ns.size)] := by simp [hplt]
    cases hv : ns[walk ns.size m (e.hash % ns.size)] with
    | none => rw [hlt, hv]
    | some e' => rw [hlt, hv] at hsm; simp at hsm
  · exact stopAt_false_occ (fun _ _ => false) ns 0 0 _ (walk_lt _ _ _ hhome) (hbefore j hj)


theorem skipFrom_eq (slots : Array (Option Entry)) (fuel pos coll : Nat) :
    skipFrom slots fuel pos coll = (probe (fun _ _ => false) slots 0 0 fuel pos coll).map (fun pc => pc.2) := by
  induction fuel generalizing pos coll with
  | zero => simp [skipFrom, probe]
  | succ f ih =>
    unfold skipFrom probe
    cases hv : slots[pos]? with
    | none => simp
    | some o =>
      cases o with
      | none => simp
      | some e' => simp [ih]

/-- the walk for an empty old slot ends: there is a free slot -/
theorem skip_result (ns : Array (Option Entry)) (c0 : Nat) (hn : 0 < ns.size)
    (hEmpty : ∃ s : Nat, ns[s]? = some none) :
    ∃ c, skipFrom ns (ns.size + 1) (0 % ns.size) c0 = some (c0 + c) ∧ c < ns.size := by
  have hhome : 0 % ns.size < ns.size := Nat.mod_lt _ hn
  obtain ⟨s0, hs0⟩ := hEmpty
  have hs0lt : s0 < ns.size := by
    rcases Nat.lt_or_ge s0 ns.size with h | h
    · exact h
    · rw [Array.getElem?_eq_none h] at hs0; cases hs0
  obtain ⟨k, hk, hwk⟩ := walk_cover ns.size (0 % ns.size) s0 hhome hs0lt
  have hstop : stopAt (fun _ _ => false) ns 0 0 (walk ns.size k (0 % ns.size)) = true := by
    unfold stopAt; rw [hwk, hs0]
  obtain ⟨m, hm, _, hsm, hbefore⟩ := probe_finds (fun _ _ => false) ns 0 0 (0 % ns.size) k hhome hk hstop
  have hpr' := probe_spec (fun _ _ => false) ns 0 0 m (ns.size + 1) (0 % ns.size) c0 hhome (by omega) hsm hbefore
  exact ⟨m, by rw [skipFrom_eq, hpr']; rfl, by omega⟩

/-- the step function of grow's fold -/
def growStep (newLen : Nat) (acc : Option (Array (Option Entry) × Nat)) (s : Option Entry) :
    Option (Array (Option Entry) × Nat) :=
  match acc, s with
  | some (ns, c), some e => placeFrom ns e (newLen + 1) (e.hash % newLen) c
  | some (ns, c), none => (skipFrom ns (newLen + 1) (0 % newLen) c).map fun c' => (ns, c')
  | none, _ => none

/-- invariant of the rehash fold after the prefix `l₁` of the old slots has been processed -/
structure RI (N : Nat) (ns : Array (Option Entry)) (l₁ : List (Option Entry)) : Prop where
  size : ns.size = N
  reach : ∀ s e, occ ns s e → ∃ d, d < ns.size ∧ walk ns.size d (e.hash % ns.size) = s ∧
            ∀ j, j < d → ∃ e', occ ns (walk ns.size j (e.hash % ns.size)) e'
  sub : ∀ s e, occ ns s e → some e ∈ l₁
  sup : ∀ e, some e ∈ l₁ → ∃ s, occ ns s e
  inj : ∀ s1 s2 e, occ ns s1 e → occ ns s2 e → s1 = s2
  cnt : countOcc ns = (l₁.filter Option.isSome).length

theorem RI_step (N : Nat) (hN : 0 < N) (ns : Array (Option Entry)) (l₁ : List (Option Entry)) (x : Option Entry) (c : Nat)
    (ri : RI N ns l₁) (hlen : l₁.length < N) (hnew : ∀ e, x = some e → some e ∉ l₁) :
    ∃ ns' c', growStep N (some (ns, c)) x = some (ns', c') ∧ RI N ns' (l₁ ++ [x]) := by
  cases x with
  | none =>
    have hcount : countOcc ns < ns.size := by
      rw [ri.cnt, ri.size]
      exact Nat.lt_of_le_of_lt (List.length_filter_le _ _) hlen
    obtain ⟨k, hsk, _⟩ := skip_result ns c (by rw [ri.size]; exact hN) (exists_empty_of_count ns hcount)
    refine ⟨ns, c + k, by simp only [growStep]; rw [← ri.size, hsk]; rfl,
      ⟨ri.size, ri.reach, fun s e h => List.mem_append_left _ (ri.sub s e h), ?_, ri.inj, ?_⟩⟩
    · intro e he
      rcases List.mem_append.mp he with h | h
      · exact ri.sup e h
      · simp at h
    · rw [ri.cnt]; simp [List.filter_append]
  | some e =>
    have hsz := ri.size
    have hcount : countOcc ns < ns.size := by
      rw [ri.cnt, hsz]
      exact Nat.lt_of_le_of_lt (List.length_filter_le _ _) hlen
    obtain ⟨p, k, hpl, hp, hemp, hk, hpw, hpath⟩ := place_result ns e c (by omega) (exists_empty_of_count ns hcount)
    refine ⟨ns.setIfInBounds p (some e), c + k, by simp only [growStep]; rw [← hsz]; exact hpl, ?_⟩
    have not_occ_p : ∀ e0, ¬ occ ns p e0 := by intro e0 h; unfold occ at h; rw [hemp] at h; cases h
    have occ_old : ∀ s e', occ (ns.setIfInBounds p (some e)) s e' → (s = p ∧ e' = e) ∨ (s ≠ p ∧ occ ns s e') :=
      fun s e' h => (occ_set ns p hp e s e').mp h
    have occ_keep : ∀ s e0, occ ns s e0 → occ (ns.setIfInBounds p (some e)) s e0 := by
      intro s e0 h0
      have : s ≠ p := by intro h; subst h; exact not_occ_p e0 h0
      exact (occ_set ns p hp e s e0).mpr (Or.inr ⟨this, h0⟩)
    have hsz' : (ns.setIfInBounds p (some e)).size = ns.size := by simp
    constructor
    · rw [hsz', hsz]
    · intro s e' h
      rw [hsz']
      rcases occ_old s e' h with ⟨rfl, rfl⟩ | ⟨hne, h0⟩
      · exact ⟨k, hk, hpw.symm, fun j hj => by obtain ⟨e1, h1⟩ := hpath j hj; exact ⟨e1, occ_keep _ e1 h1⟩⟩
      · obtain ⟨d, hd, hw, hpa⟩ := ri.reach s e' h0
        exact ⟨d, hd, hw, fun j hj => by obtain ⟨e1, h1⟩ := hpa j hj; exact ⟨e1, occ_keep _ e1 h1⟩⟩
    · intro s e' h
      rcases occ_old s e' h with ⟨rfl, rfl⟩ | ⟨hne, h0⟩
      · simp
      · exact List.mem_append_left _ (ri.sub s e' h0)
    · intro e' he
      rcases List.mem_append.mp he with h | h
      · obtain ⟨s, hs⟩ := ri.sup e' h; exact ⟨s, occ_keep s e' hs⟩
      · simp at h; subst h; exact ⟨p, (occ_set ns p hp e' p e').mpr (Or.inl ⟨rfl, rfl⟩)⟩
    · intro s1 s2 e' h1 h2
      rcases occ_old s1 e' h1 with ⟨rfl, rfl⟩ | ⟨hne1, a1⟩ <;> rcases occ_old s2 e' h2 with ⟨rfl, hh⟩ | ⟨hne2, a2⟩
      · rfl
      · exact absurd (ri.sub s2 e' a2) (hnew e' rfl)
      · subst hh; exact absurd (ri.sub s1 e' a1) (hnew e' rfl)
      · exact ri.inj s1 s2 e' a1 a2
    · rw [countOcc_set_empty ns p e hemp, ri.cnt]; simp [List.filter_append]


theorem RI_fold (N : Nat) (hN : 0 < N) (l : List (Option Entry)) (hlen : l.length < N)
    (hnd : ∀ l₁ x l₂, l = l₁ ++ x :: l₂ → ∀ e, x = some e → some e ∉ l₁) :
    ∀ (l₂ l₁ : List (Option Entry)) (ns : Array (Option Entry)) (c : Nat), l = l₁ ++ l₂ → RI N ns l₁ →
      ∃ ns' c', l₂.foldl (growStep N) (some (ns, c)) = some (ns', c') ∧ RI N ns' l := by
  intro l₂
  induction l₂ with
  | nil => intro l₁ ns c h ri; simp at h; subst h; exact ⟨ns, c, rfl, ri⟩
  | cons x l₂ ih =>
    intro l₁ ns c h ri
    have hl1 : l₁.length < N := by rw [h] at hlen; simp at hlen; omega
    obtain ⟨ns', c', hs, ri'⟩ := RI_step N hN ns l₁ x c ri hl1 (hnd l₁ x l₂ h)
    obtain ⟨ns'', c'', hf, ri''⟩ := ih (l₁ ++ [x]) ns' c' (by rw [h]; simp) ri'
    exact ⟨ns'', c'', by simp only [List.foldl_cons, hs]; exact hf, ri''⟩

theorem RI_init (N : Nat) : RI N (Array.replicate N none) [] := by
  have hno : ∀ s e, ¬ occ (Array.replicate N (none : Option Entry)) s e := by
    intro s e h; unfold occ at h
    rw [Array.getElem?_replicate] at h; split at h <;> simp at h
  exact ⟨by simp, fun s e h => absurd h (hno s e), fun s e h => absurd h (hno s e), by simp,
    fun s1 s2 e h => absurd h (hno s1 e), by simp [countOcc, List.filter_eq_nil_iff]⟩

/-- growth preserves the table invariant (default growth factor 2) -/
theorem grow_preserves (t : Tbl) (done : List Nat) (inv : SInv hash eqv t.slots done) (hn : 0 < t.slots.size) :
    ∃ t', grow {} t = some t' ∧ SInv hash eqv t'.slots done ∧ t'.slots.size = 2 * t.slots.size ∧
      countOcc t'.slots = countOcc t.slots ∧ t'.groupCount = t.groupCount ∧ t'.lfNum = t.lfNum ∧ t'.lfDen = t.lfDen * 2 := by
  have hnd : ∀ l₁ x l₂, t.slots.toList = l₁ ++ x :: l₂ → ∀ e, x = some e → some e ∉ l₁ := by
    intro l₁ x l₂ h e hx hmem
    subst hx
    obtain ⟨i, hi, hie⟩ := List.getElem_of_mem hmem
    have h1 : occ t.slots i e := by
      unfold occ
      have : t.slots.toList[i]? = some (some e) := by
        rw [h, List.getElem?_append_left hi, List.getElem?_eq_getElem hi, hie]
      simpa using this
    have h2 : occ t.slots l₁.length e := by
      unfold occ
      have : t.slots.toList[l₁.length]? = some (some e) := by rw [h]; simp
      simpa using this
    exact (inv.distinct i l₁.length e e h1 h2 (by omega)).2 rfl
  obtain ⟨ns', c', hf, ri⟩ := RI_fold (2 * t.slots.size) (by omega) t.slots.toList (by simp; omega) hnd
    t.slots.toList [] (Array.replicate (2 * t.slots.size) none) t.relocCollisions (by simp) (RI_init _)
  refine ⟨{ t with slots := ns', relocCollisions := c', relocCount := t.relocCount + 1, lfDen := t.lfDen * 2 }, ?_, ?_, ri.size, ?_, rfl, rfl, rfl⟩
  · unfold grow
    simp only []
    rw [← Array.foldl_toList]
    change Option.map _ (List.foldl (growStep (2 * t.slots.size)) _ _) = _
    rw [hf]; rfl
  · -- transfer the invariant
    have of_new : ∀ s e, occ ns' s e → ∃ s0, occ t.slots s0 e := by
      intro s e h
      obtain ⟨i, hi, hie⟩ := List.getElem_of_mem (ri.sub s e h)
      refine ⟨i, ?_⟩
      unfold occ
      have : t.slots.toList[i]? = some (some e) := by rw [List.getElem?_eq_getElem hi, hie]
      simpa using this
    have to_new : ∀ s0 e, occ t.slots s0 e → ∃ s, occ ns' s e := by
      intro s0 e h
      apply ri.sup
      unfold occ at h
      have : t.slots.toList[s0]? = some (some e) := by simpa using h
      exact List.mem_of_getElem? this
    constructor
    · exact ri.reach
    · intro s e h; obtain ⟨s0, h0⟩ := of_new s e h; exact inv.hashF s0 e h0
    · intro s1 s2 e1 e2 h1 h2 hne
      obtain ⟨a1, b1⟩ := of_new s1 e1 h1
      obtain ⟨a2, b2⟩ := of_new s2 e2 h2
      by_cases ha : a1 = a2
      · subst ha
        have : e1 = e2 := by unfold occ at b1 b2; rw [b1] at b2; cases b2; rfl
        subst this
        exact absurd (ri.inj s1 s2 e1 h1 h2) hne
      · exact inv.distinct a1 a2 e1 e2 b1 b2 ha
    · intro s e h; obtain ⟨s0, h0⟩ := of_new s e h; exact inv.mem s0 e h0
    · intro j hj
      obtain ⟨s0, e, h0, hc⟩ := inv.cover j hj
      obtain ⟨s, hs⟩ := to_new s0 e h0
      exact ⟨s, e, hs, hc⟩
  · rw [ri.cnt]; rfl

#print axioms grow_preserves
end G
