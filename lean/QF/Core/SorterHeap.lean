import QF.Core.SorterSorted
/-! Prototype: heapSort of the mirror sorts its range. -/
namespace Sorter

variable (less : Nat → Nat → Bool)

def HeapAt (a : Ix) (first n r : Nat) : Prop :=
  ∀ c, (c = 2 * r + 1 ∨ c = 2 * r + 2) → c < n → less (at' a (first + r)) (at' a (first + c)) = false

def Heap (a : Ix) (first k n : Nat) : Prop := ∀ r, k ≤ r → r < n → HeapAt less a first n r

def AlmostHeap (a : Ix) (first k n root : Nat) : Prop :=
  (∀ r, k ≤ r → r < n → r ≠ root → HeapAt less a first n r) ∧
  (∀ p, k ≤ p → (root = 2 * p + 1 ∨ root = 2 * p + 2) →
     ∀ c, (c = 2 * root + 1 ∨ c = 2 * root + 2) → c < n → less (at' a (first + p)) (at' a (first + c)) = false)

theorem siftDown_heap (sw0 : SWO less) (first k n : Nat) :
    ∀ (fuel : Nat) (a : Ix) (root : Nat), k ≤ root → n < fuel + root → first + n ≤ a.size →
      AlmostHeap less a first k n root →
      Heap less (siftDown less fuel a root n first) first k n ∧
      RangePres a (siftDown less fuel a root n first) first (first + n) := by
  intro fuel
  induction fuel with
  | zero =>
    intro a root hk hf hsz ⟨h1, _⟩
    refine ⟨?_, RangePres.refl _ _ _⟩
    intro r hr1 hr2
    simp only [siftDown]
    exact h1 r hr1 hr2 (by omega)
  | succ f ih =>
    intro a root hk hf hsz ⟨h1, h2⟩
    unfold siftDown
    simp only []
    by_cases c0 : 2 * root + 1 ≥ n
    · simp only [c0, ↓reduceIte]
      refine ⟨?_, RangePres.refl _ _ _⟩
      intro r hr1 hr2
      by_cases e : r = root
      · subst e; intro c hc hcn; omega
      · exact h1 r hr1 hr2 e
    · simp only [c0, ↓reduceIte]
      have hroot : root < n := by omega
      -- the selected child
      generalize hcs : (if (decide (2 * root + 1 + 1 < n) && lt less a (first + (2 * root + 1)) (first + (2 * root + 1) + 1)) = true
          then 2 * root + 1 + 1 else 2 * root + 1) = cs
      have hcs_cases : (cs = 2 * root + 1 ∨ cs = 2 * root + 2) ∧ cs < n ∧
          ∀ c, (c = 2 * root + 1 ∨ c = 2 * root + 2) → c < n → less (at' a (first + cs)) (at' a (first + c)) = false := by
        subst hcs
        split
        · rename_i hc
          simp only [Bool.and_eq_true, decide_eq_true_eq] at hc
          obtain ⟨hc1, hc2⟩ := hc
          rw [lt_eq] at hc2
          refine ⟨Or.inr rfl, hc1, ?_⟩
          intro c hc hcn
          rcases hc with rfl | rfl
          · rw [show first + (2 * root + 1) + 1 = first + (2 * root + 1 + 1) by omega] at hc2
            exact sw0.asymm _ _ hc2
          · exact sw0.le_trans _ _ _ (by
              cases hv : less (at' a (first + (2 * root + 2))) (at' a (first + (2 * root + 2))) with
              | false => rfl
              | true => have := sw0.asymm _ _ hv; rw [hv] at this; cases this) (by
              cases hv : less (at' a (first + (2 * root + 2))) (at' a (first + (2 * root + 2))) with
              | false => rfl
              | true => have := sw0.asymm _ _ hv; rw [hv] at this; cases this)
        · rename_i hc
          refine ⟨Or.inl rfl, by omega, ?_⟩
          intro c hcc hcn
          rcases hcc with rfl | rfl
          · cases hv : less (at' a (first + (2 * root + 1))) (at' a (first + (2 * root + 1))) with
            | false => rfl
            | true => have := sw0.asymm _ _ hv; rw [hv] at this; cases this
          · have : lt less a (first + (2 * root + 1)) (first + (2 * root + 1) + 1) = false := by
              cases hv : lt less a (first + (2 * root + 1)) (first + (2 * root + 1) + 1) with
              | false => rfl
              | true => exact absurd (by simp [hv]; omega) hc
            rw [lt_eq] at this
            rw [show first + (2 * root + 1) + 1 = first + (2 * root + 2) by omega] at this
            exact this
      obtain ⟨hcsv, hcsn, hcsmax⟩ := hcs_cases
      by_cases c1 : (!lt less a (first + root) (first + cs)) = true
      · simp only [c1, ↓reduceIte]
        refine ⟨?_, RangePres.refl _ _ _⟩
        have hge : less (at' a (first + root)) (at' a (first + cs)) = false := by
          simpa [lt_eq] using c1
        intro r hr1 hr2
        by_cases e : r = root
        · subst e
          intro c hc hcn
          exact sw0.le_trans _ _ _ (hcsmax c hc hcn) hge
        · exact h1 r hr1 hr2 e
      · simp only [c1, Bool.false_eq_true, ↓reduceIte]
        have hlt : less (at' a (first + root)) (at' a (first + cs)) = true := by
          cases hv : less (at' a (first + root)) (at' a (first + cs)) with
          | true => rfl
          | false => exact absurd (by simp [lt_eq, hv]) c1
        have hra : first + root < a.size := by omega
        have hca : first + cs < a.size := by omega
        have G : ∀ x, at' (sw a (first + root) (first + cs)) x =
            if x = first + cs then at' a (first + root) else if x = first + root then at' a (first + cs) else at' a x :=
          fun x => sw_at a (first + root) (first + cs) x hra hca
        have hsz' : first + n ≤ (sw a (first + root) (first + cs)).size := by rw [sw_size]; exact hsz
        have hrp := sw_rangePres a (first + root) (first + cs) first (first + n) (by omega) (by omega) (by omega) (by omega) hsz
        obtain ⟨ihh, ihr⟩ := ih (sw a (first + root) (first + cs)) cs (by omega) (by omega) hsz' (by
          constructor
          · intro r hr1 hr2 hne c hc hcn
            rw [G (first + r), G (first + c)]
            by_cases e1 : r = root
            · -- r = root: its value is now a[cs]
              subst e1
              have : first + r ≠ first + cs := by omega
              simp only [this, ↓reduceIte]
              by_cases e2 : c = cs
              · subst e2; simp; exact sw0.asymm _ _ hlt
              · have : first + c ≠ first + cs ∧ first + c ≠ first + r := by omega
                simp only [this.1, this.2, ↓reduceIte]
                exact hcsmax c hc hcn
            · have hr' : first + r ≠ first + cs ∧ first + r ≠ first + root := by omega
              simp only [hr'.1, hr'.2, ↓reduceIte]
              by_cases e3 : c = root
              · -- r is the parent of root; root now holds a[cs]
                subst e3
                have : first + c ≠ first + cs := by omega
                simp only [this, ↓reduceIte]
                exact h2 r hr1 (by omega) cs hcsv hcsn
              · have : first + c ≠ first + cs := by omega
                have : first + c ≠ first + root := by omega
                simp only [*, ↓reduceIte]
                exact h1 r hr1 hr2 e1 c hc hcn
          · intro p hp hpc c hc hcn
            -- the parent of cs is root
            have : p = root := by omega
            subst this
            rw [G (first + p), G (first + c)]
            have h1' : first + p ≠ first + cs := by omega
            have h2' : first + c ≠ first + cs ∧ first + c ≠ first + p := by omega
            simp only [h1', h2'.1, h2'.2, ↓reduceIte]
            exact h1 cs (by omega) hcsn (by omega) c hc hcn)
        exact ⟨ihh, hrp.trans ihr⟩


theorem less_irrefl (sw0 : SWO less) (x : Nat) : less x x = false := by
  cases hv : less x x with
  | false => rfl
  | true => have := sw0.asymm _ _ hv; rw [hv] at this; cases this

/-- in a heap the root is a maximum -/
theorem heap_root_max (sw0 : SWO less) (a : Ix) (first m : Nat) (h : Heap less a first 0 m) :
    ∀ r, r < m → less (at' a (first + 0)) (at' a (first + r)) = false := by
  intro r
  induction r using Nat.strongRecOn with
  | _ r ih =>
    intro hr
    cases r with
    | zero => exact less_irrefl less sw0 _
    | succ r =>
      have hp : r / 2 < r + 1 := by omega
      have h1 := ih (r / 2) hp (by omega)
      have h2 := h (r / 2) (Nat.zero_le _) (by omega) (r + 1) (by omega) hr
      exact sw0.le_trans _ _ _ h2 h1

/-- downward loop: `for i := m-1; i >= 0; i-- { a = step a i }` -/
theorem foldl_down_inv {α : Type} (step : α → Nat → α) (Inv : Nat → α → Prop) :
    ∀ (m : Nat) (a : α), Inv m a → (∀ i a, i < m → Inv (i + 1) a → Inv i (step a i)) →
      Inv 0 ((List.range m).reverse.foldl step a) := by
  intro m
  induction m with
  | zero => intro a h _; simpa using h
  | succ m ih =>
    intro a h hstep
    rw [List.range_succ, List.reverse_append]
    simp only [List.reverse_cons, List.reverse_nil, List.nil_append, List.cons_append, List.foldl_cons]
    exact ih (step a m) (hstep m a (by omega) h) (fun i a hi => hstep i a (by omega))

theorem heapSort_spec (sw0 : SWO less) : HeapSpec less := by
  intro a lo hi hlh hsz
  unfold heapSort
  simp only []
  generalize hn : hi - lo = n
  have hfn : lo + n = hi := by omega
  -- phase 1: build
  have ph1 := foldl_down_inv (fun a i => siftDown less (n + 1) a i n lo)
    (fun i b => Heap less b lo i n ∧ RangePres a b lo (lo + n)) ((n - 1) / 2 + 1) a
    ⟨by intro r hr1 hr2 c hc hcn; omega, RangePres.refl _ _ _⟩
    (by
      intro i b hi1 ⟨hh, hr⟩
      have hbsz : lo + n ≤ b.size := by rw [hr.size]; omega
      obtain ⟨x, y⟩ := siftDown_heap less sw0 lo i n (n + 1) b i (Nat.le_refl _) (by omega) hbsz
        ⟨fun r hr1 hr2 hne => hh r (by omega) hr2, fun p hp hpc => by omega⟩
      exact ⟨x, hr.trans y⟩)
  obtain ⟨hheap, hrp1⟩ := ph1
  generalize (List.range ((n - 1) / 2 + 1)).reverse.foldl (fun a i => siftDown less (n + 1) a i n lo) a = b at hheap hrp1
  -- phase 2: pop
  have ph2 := foldl_down_inv (fun a i => siftDown less (n + 1) (sw a lo (lo + i)) 0 i lo)
    (fun i c => Heap less c lo 0 i ∧ Sorted less c (lo + i) (lo + n) ∧
      (∀ p q, p < i → i ≤ q → q < n → less (at' c (lo + q)) (at' c (lo + p)) = false) ∧ RangePres b c lo (lo + n)) n b
    ⟨hheap, by intro i j h1 h2 h3; omega, by intro p q h1 h2 h3; omega, RangePres.refl _ _ _⟩
    (by
      intro i c hin ⟨hh, hs, hb, hr⟩
      have hcsz : lo + n ≤ c.size := by rw [hr.size, hrp1.size]; omega
      have hla : lo < c.size := by omega
      have hia : lo + i < c.size := by omega
      have G : ∀ x, at' (sw c lo (lo + i)) x = if x = lo + i then at' c lo else if x = lo then at' c (lo + i) else at' c x :=
        fun x => sw_at c lo (lo + i) x hla hia
      have hsw := sw_rangePres c lo (lo + i) lo (lo + n) (Nat.le_refl _) (by omega) (by omega) (by omega) hcsz
      have hsz1 : lo + i ≤ (sw c lo (lo + i)).size := by rw [sw_size]; omega
      have rootmax := heap_root_max less sw0 c lo (i + 1) hh
      obtain ⟨x, y⟩ := siftDown_heap less sw0 lo 0 i (n + 1) (sw c lo (lo + i)) 0 (Nat.le_refl _) (by omega) hsz1
        ⟨by
          intro r _ hr2 hne cc hcc hccn
          rw [G (lo + r), G (lo + cc)]
          have : lo + r ≠ lo + i ∧ lo + r ≠ lo ∧ lo + cc ≠ lo + i ∧ lo + cc ≠ lo := by omega
          simp only [this.1, this.2.1, this.2.2.1, this.2.2.2, ↓reduceIte]
          exact hh r (Nat.zero_le _) (by omega) cc hcc (by omega),
         fun p _ hpc => by omega⟩
      generalize siftDown less (n + 1) (sw c lo (lo + i)) 0 i lo = d at x y
      -- facts about the swapped array c1 = sw c lo (lo+i)
      have top : ∀ q, i ≤ q → q < n → at' d (lo + q) = if q = i then at' c lo else at' c (lo + q) := by
        intro q hq1 hq2
        rw [y.outside (lo + q) (by omega), G (lo + q)]
        by_cases e : q = i
        · subst e; simp
        · have : lo + q ≠ lo + i ∧ lo + q ≠ lo := by omega
          rw [if_neg this.1, if_neg this.2, if_neg e]
      have low : ∀ p q, p < i → i ≤ q → q < n → less (at' d (lo + q)) (at' d (lo + p)) = false := by
        intro p q hp hq1 hq2
        have := y.pres (fun v => ∀ q, i ≤ q → q < n → less (at' d (lo + q)) v = false) (by
          intro k hk1 hk2 q hq1 hq2
          rw [top q hq1 hq2, G k]
          have hk3 : k ≠ lo + i := by omega
          simp only [hk3, ↓reduceIte]
          by_cases ek : k = lo
          · simp only [ek, ↓reduceIte]
            by_cases e : q = i
            · simp only [e, ↓reduceIte]
              have := rootmax i (by omega); simpa using this
            · simp only [e, ↓reduceIte]
              exact hb i q (by omega) (by omega) hq2
          · simp only [ek, ↓reduceIte]
            by_cases e : q = i
            · simp only [e, ↓reduceIte]
              have := rootmax (k - lo) (by omega)
              rw [show lo + (k - lo) = k by omega] at this; simpa using this
            · simp only [e, ↓reduceIte]
              have := hb (k - lo) q (by omega) (by omega) hq2
              rw [show lo + (k - lo) = k by omega] at this; exact this) (lo + p) (by omega) (by omega)
        exact this q hq1 hq2
      refine ⟨x, ?_, low, hr.trans (hsw.trans (y.mono (Nat.le_refl _) (by omega)))⟩
      intro u v hu huv hv
      rw [show u = lo + (u - lo) by omega, show v = lo + (v - lo) by omega,
        top (u - lo) (by omega) (by omega), top (v - lo) (by omega) (by omega)]
      have hvne : v - lo ≠ i := by omega
      simp only [hvne, ↓reduceIte]
      by_cases e : u - lo = i
      · simp only [e, ↓reduceIte]
        have := hb 0 (v - lo) (by omega) (by omega) (by omega)
        simpa using this
      · simp only [e, ↓reduceIte]
        have := hs (lo + (u - lo)) (lo + (v - lo)) (by omega) (by omega) (by omega)
        exact this)
  obtain ⟨_, hsorted, _, hrp2⟩ := ph2
  rw [← hfn]
  exact ⟨by simpa using hsorted, hrp1.trans hrp2⟩

#print axioms heapSort_spec
end Sorter
