import QF.Core.GrouperProof
/-! Prototype: table invariant and its preservation by one insertion (no growth). -/
namespace G

variable (hash : Nat → Nat) (eqv : Nat → Nat → Bool)

structure KeyRel : Prop where
  symm : ∀ a b, eqv a b = true → eqv b a = true
  trans : ∀ a b c, eqv a b = true → eqv b c = true → eqv a c = true
  hashOk : ∀ a b, eqv a b = true → hash a % 2^32 = hash b % 2^32

def occ (slots : Array (Option Entry)) (s : Nat) (e : Entry) : Prop := slots[s]? = some (some e)
def members (e : Entry) : List Nat := if e.ix.isEmpty then [e.firstPos] else e.ix
def cls (f j : Nat) : Bool := j == f || eqv j f

structure SInv (slots : Array (Option Entry)) (done : List Nat) : Prop where
  reach : ∀ s e, occ slots s e → ∃ d, d < slots.size ∧ walk slots.size d (e.hash % slots.size) = s ∧
            ∀ j, j < d → ∃ e', occ slots (walk slots.size j (e.hash % slots.size)) e'
  hashF : ∀ s e, occ slots s e → e.hash = hash e.firstPos % 2^32
  distinct : ∀ s1 s2 e1 e2, occ slots s1 e1 → occ slots s2 e2 → s1 ≠ s2 →
            eqv e1.firstPos e2.firstPos = false ∧ e1.firstPos ≠ e2.firstPos
  mem : ∀ s e, occ slots s e → members e = done.filter (cls eqv e.firstPos) ∧ e.firstPos ∈ done
  cover : ∀ j, j ∈ done → ∃ s e, occ slots s e ∧ cls eqv e.firstPos j = true

theorem stopAt_false_occ (slots : Array (Option Entry)) (i h pos : Nat) (hp : pos < slots.size)
    (hs : stopAt eqv slots i h pos = false) : ∃ e, occ slots pos e := by
  unfold stopAt at hs
  have hlt : slots[pos]? = some slots[pos] := by simp [hp]
  cases hv : slots[pos] with
  | none => rw [hlt, hv] at hs; simp at hs
  | some e => exact ⟨e, by unfold occ; rw [hlt, hv]⟩

/-- Outcome of the probe for a new row `i` under the invariant. -/
theorem probe_result (slots : Array (Option Entry)) (done : List Nat) (inv : SInv hash eqv slots done)
    (kr : KeyRel hash eqv) (hn : 0 < slots.size) (hEmpty : ∃ s : Nat, slots[s]? = some none) (i : Nat) :
    ∃ p c, probe eqv slots i (hash i % 2^32) (slots.size + 1) ((hash i % 2^32) % slots.size) 0 = some (p, c) ∧
      p < slots.size ∧
      ((∃ e, occ slots p e ∧ eqv i e.firstPos = true) ∨
       (slots[p]? = some none ∧ (∀ s e, occ slots s e → eqv i e.firstPos = false) ∧
         c < slots.size ∧ p = walk slots.size c ((hash i % 2^32) % slots.size) ∧
         ∀ j, j < c → ∃ e', occ slots (walk slots.size j ((hash i % 2^32) % slots.size)) e')) := by
  generalize hh : hash i % 2^32 = h
  have hhome : h % slots.size < slots.size := Nat.mod_lt _ hn
  by_cases hex : ∃ s e, occ slots s e ∧ eqv i e.firstPos = true
  · obtain ⟨s, e, ho, he⟩ := hex
    have hhash : e.hash = h := by
      rw [inv.hashF s e ho, ← hh]; exact (kr.hashOk _ _ he).symm
    obtain ⟨d, hd, hw, hpath⟩ := inv.reach s e ho
    rw [hhash] at hw hpath
    have hstop : stopAt eqv slots i h (walk slots.size d (h % slots.size)) = true := by
      unfold stopAt; rw [hw]; unfold occ at ho; rw [ho]; simp [hhash, he]
    obtain ⟨m, hm, hpr, hsm, hbefore⟩ := probe_finds eqv slots i h (h % slots.size) d hhome hd hstop
    refine ⟨_, _, hpr, walk_lt _ _ _ hhome, Or.inl ?_⟩
    by_cases hmd : m = d
    · subst hmd; rw [hw]; exact ⟨e, ho, he⟩
    · obtain ⟨e', ho'⟩ := hpath m (by omega)
      refine ⟨e', ho', ?_⟩
      unfold stopAt at hsm; unfold occ at ho'; rw [ho'] at hsm
      simp at hsm; exact hsm.2
  · have hno : ∀ s e, occ slots s e → eqv i e.firstPos = false := by
      intro s e ho
      cases hv : eqv i e.firstPos with
      | false => rfl
      | true => exact absurd ⟨s, e, ho, hv⟩ hex
    obtain ⟨s0, hs0⟩ := hEmpty
    have hs0lt : s0 < slots.size := by
      rcases Nat.lt_or_ge s0 slots.size with h | h
      · exact h
      · rw [Array.getElem?_eq_none h] at hs0; cases hs0
    obtain ⟨k, hk, hwk⟩ := walk_cover slots.size (h % slots.size) s0 hhome hs0lt
    have hstop : stopAt eqv slots i h (walk slots.size k (h % slots.size)) = true := by
      unfold stopAt; rw [hwk, hs0]
    obtain ⟨m, hm, hpr, hsm, hbefore⟩ := probe_finds eqv slots i h (h % slots.size) k hhome hk hstop
    have hplt := walk_lt slots.size m (h % slots.size) hhome
    refine ⟨_, _, hpr, hplt, Or.inr ⟨?_, hno, by omega, rfl, fun j hj => ?_⟩⟩
    · -- the stopping slot is empty (a match is impossible)
      unfold stopAt at hsm
      have hlt : slots[walk slots.size m (h % slots.size)]? = some slots[walk slots.size m (h % slots.size)] := by simp [hplt]
      cases hv : slots[walk slots.size m (h % slots.size)] with
      | none => rw [hlt, hv]
      | some e =>
        rw [hlt, hv] at hsm
        simp at hsm
        have := hno _ e (by unfold occ; rw [hlt, hv])
        rw [this] at hsm; simp at hsm
    · exact stopAt_false_occ eqv slots i h _ (walk_lt _ _ _ hhome) (hbefore j hj)


theorem occ_set (slots : Array (Option Entry)) (p : Nat) (hp : p < slots.size) (x : Entry) (s : Nat) (e : Entry) :
    occ (slots.setIfInBounds p (some x)) s e ↔ (s = p ∧ e = x) ∨ (s ≠ p ∧ occ slots s e) := by
  unfold occ
  rw [Array.getElem?_setIfInBounds]
  by_cases h : p = s
  · subst h; simp [hp]; exact eq_comm
  · simp only [h, ↓reduceIte]
    constructor
    · intro a; exact Or.inr ⟨fun h' => h h'.symm, a⟩
    · rintro (⟨h', _⟩ | ⟨_, a⟩)
      · exact absurd h'.symm h
      · exact a

theorem filter_append_one (l : List Nat) (q : Nat → Bool) (i : Nat) :
    (l ++ [i]).filter q = l.filter q ++ (if q i then [i] else []) := by
  cases h : q i <;> simp [List.filter_append, h]

/-- Case A: the probe found the entry of `i`'s class; appending `i` to it preserves the invariant. -/
theorem insert_found (slots : Array (Option Entry)) (done : List Nat) (inv : SInv hash eqv slots done)
    (kr : KeyRel hash eqv) (i p : Nat) (e : Entry) (hi : i ∉ done) (hp : p < slots.size)
    (ho : occ slots p e) (he : eqv i e.firstPos = true) :
    SInv hash eqv (slots.setIfInBounds p (some (if e.ix.isEmpty then { e with ix := [e.firstPos, i] } else { e with ix := e.ix ++ [i] })))
      (done ++ [i]) := by
  generalize hx : (if e.ix.isEmpty then { e with ix := [e.firstPos, i] } else { e with ix := e.ix ++ [i] } : Entry) = x
  have hxf : x.firstPos = e.firstPos := by subst hx; split <;> rfl
  have hxh : x.hash = e.hash := by subst hx; split <;> rfl
  have hxm : members x = members e ++ [i] := by
    subst hx; unfold members
    cases hix : e.ix with
    | nil => simp
    | cons a l => simp
  have hsz : (slots.setIfInBounds p (some x)).size = slots.size := by simp
  -- occupancy is unchanged as a set of slots; only slot p's payload changes
  have occ_old : ∀ s e', occ (slots.setIfInBounds p (some x)) s e' →
      ∃ e0, occ slots s e0 ∧ e'.firstPos = e0.firstPos ∧ e'.hash = e0.hash ∧ (s = p → e' = x ∧ e0 = e) ∧ (s ≠ p → e' = e0) := by
    intro s e' h
    rcases (occ_set slots p hp x s e').mp h with ⟨rfl, rfl⟩ | ⟨hne, h0⟩
    · exact ⟨e, ho, hxf, hxh, fun _ => ⟨rfl, rfl⟩, fun h => absurd rfl h⟩
    · exact ⟨e', h0, rfl, rfl, fun h => absurd h hne, fun _ => rfl⟩
  have occ_new : ∀ s e0, occ slots s e0 → ∃ e', occ (slots.setIfInBounds p (some x)) s e' := by
    intro s e0 h0
    by_cases h : s = p
    · subst h; exact ⟨x, (occ_set slots s hp x s x).mpr (Or.inl ⟨rfl, rfl⟩)⟩
    · exact ⟨e0, (occ_set slots p hp x s e0).mpr (Or.inr ⟨h, h0⟩)⟩
  have cls_other : ∀ s e0, occ slots s e0 → s ≠ p → cls eqv e0.firstPos i = false := by
    intro s e0 h0 hne
    have hd := inv.distinct p s e e0 ho h0 (Ne.symm hne)
    have hin := (inv.mem s e0 h0).2
    unfold cls
    have h1 : (i == e0.firstPos) = false := by
      simp only [beq_eq_false_iff_ne]; intro h; subst h; exact hi hin
    have h2 : eqv i e0.firstPos = false := by
      cases hv : eqv i e0.firstPos with
      | false => rfl
      | true =>
        have := kr.trans _ _ _ (kr.symm _ _ he) hv
        rw [hd.1] at this; cases this
    simp [h1, h2]
  constructor
  · intro s e' h
    obtain ⟨e0, h0, hf, hh, _, _⟩ := occ_old s e' h
    obtain ⟨d, hd, hw, hpath⟩ := inv.reach s e0 h0
    rw [hsz, hh]
    exact ⟨d, hd, hw, fun j hj => by obtain ⟨e1, h1⟩ := hpath j hj; exact occ_new _ e1 h1⟩
  · intro s e' h
    obtain ⟨e0, h0, hf, hh, _, _⟩ := occ_old s e' h
    rw [hh, hf]; exact inv.hashF s e0 h0
  · intro s1 s2 e1 e2 h1 h2 hne
    obtain ⟨a1, b1, f1, _, _, _⟩ := occ_old s1 e1 h1
    obtain ⟨a2, b2, f2, _, _, _⟩ := occ_old s2 e2 h2
    rw [f1, f2]; exact inv.distinct s1 s2 a1 a2 b1 b2 hne
  · intro s e' h
    obtain ⟨e0, h0, hf, hh, hp1, hp2⟩ := occ_old s e' h
    obtain ⟨m1, m2⟩ := inv.mem s e0 h0
    refine ⟨?_, by rw [hf]; exact List.mem_append_left _ m2⟩
    rw [filter_append_one, hf]
    by_cases hs : s = p
    · obtain ⟨rfl, rfl⟩ := hp1 hs
      have : cls eqv e0.firstPos i = true := by unfold cls; simp [he]
      rw [hxm, m1, this]; rfl
    · have := hp2 hs; subst this
      rw [cls_other s e' h0 hs, m1]; simp
  · intro j hj
    rcases List.mem_append.mp hj with hj | hj
    · obtain ⟨s, e0, h0, hc⟩ := inv.cover j hj
      obtain ⟨e', h'⟩ := occ_new s e0 h0
      obtain ⟨e1, h1, hf, _, _, _⟩ := occ_old s e' h'
      have : e1 = e0 := by unfold occ at h1 h0; rw [h0] at h1; cases h1; rfl
      subst this
      exact ⟨s, e', h', by rw [hf]; exact hc⟩
    · simp at hj; subst hj
      exact ⟨p, x, (occ_set slots p hp x p x).mpr (Or.inl ⟨rfl, rfl⟩), by rw [hxf]; unfold cls; simp [he]⟩


/-- Case B: no entry of `i`'s class exists; a new entry goes into the first empty slot of the path. -/
theorem insert_new (slots : Array (Option Entry)) (done : List Nat) (inv : SInv hash eqv slots done)
    (kr : KeyRel hash eqv) (i p c : Nat) (hi : i ∉ done) (hp : p < slots.size)
    (hemp : slots[p]? = some none) (hno : ∀ s e, occ slots s e → eqv i e.firstPos = false)
    (hc : c < slots.size) (hpw : p = walk slots.size c ((hash i % 2^32) % slots.size))
    (hpath : ∀ j, j < c → ∃ e', occ slots (walk slots.size j ((hash i % 2^32) % slots.size)) e') :
    SInv hash eqv (slots.setIfInBounds p (some { hash := hash i % 2^32, firstPos := i, ix := [] })) (done ++ [i]) := by
  generalize hx : ({ hash := hash i % 2^32, firstPos := i, ix := [] } : Entry) = x
  have hxf : x.firstPos = i := by subst hx; rfl
  have hxh : x.hash = hash i % 2^32 := by subst hx; rfl
  have hxm : members x = [i] := by subst hx; simp [members]
  have hsz : (slots.setIfInBounds p (some x)).size = slots.size := by simp
  have not_occ_p : ∀ e0, ¬ occ slots p e0 := by intro e0 h; unfold occ at h; rw [hemp] at h; cases h
  have occ_old : ∀ s e', occ (slots.setIfInBounds p (some x)) s e' → (s = p ∧ e' = x) ∨ (s ≠ p ∧ occ slots s e') :=
    fun s e' h => (occ_set slots p hp x s e').mp h
  have occ_keep : ∀ s e0, occ slots s e0 → occ (slots.setIfInBounds p (some x)) s e0 := by
    intro s e0 h0
    have : s ≠ p := by intro h; subst h; exact not_occ_p e0 h0
    exact (occ_set slots p hp x s e0).mpr (Or.inr ⟨this, h0⟩)
  have occ_x : occ (slots.setIfInBounds p (some x)) p x := (occ_set slots p hp x p x).mpr (Or.inl ⟨rfl, rfl⟩)
  have cls_old_i : ∀ s e0, occ slots s e0 → cls eqv e0.firstPos i = false := by
    intro s e0 h0
    unfold cls
    have h1 : (i == e0.firstPos) = false := by
      simp only [beq_eq_false_iff_ne]; intro h; subst h; exact hi (inv.mem s e0 h0).2
    simp [h1, hno s e0 h0]
  have cls_i_old : ∀ j, j ∈ done → cls eqv i j = false := by
    intro j hj
    unfold cls
    have h1 : (j == i) = false := by
      simp only [beq_eq_false_iff_ne]; intro h; subst h; exact hi hj
    have h2 : eqv j i = false := by
      cases hv : eqv j i with
      | false => rfl
      | true =>
        obtain ⟨s, e0, h0, hc0⟩ := inv.cover j hj
        have hno0 := hno s e0 h0
        unfold cls at hc0
        rcases Bool.or_eq_true_iff.mp hc0 with h | h
        · have : j = e0.firstPos := by simpa using h
          subst this; rw [kr.symm _ _ hv] at hno0; cases hno0
        · rw [kr.trans _ _ _ (kr.symm _ _ hv) h] at hno0; cases hno0
    simp [h1, h2]
  constructor
  · intro s e' h
    rw [hsz]
    rcases occ_old s e' h with ⟨rfl, rfl⟩ | ⟨hne, h0⟩
    · rw [hxh]
      exact ⟨c, hc, hpw.symm, fun j hj => by obtain ⟨e1, h1⟩ := hpath j hj; exact ⟨e1, occ_keep _ e1 h1⟩⟩
    · obtain ⟨d, hd, hw, hpa⟩ := inv.reach s e' h0
      exact ⟨d, hd, hw, fun j hj => by obtain ⟨e1, h1⟩ := hpa j hj; exact ⟨e1, occ_keep _ e1 h1⟩⟩
  · intro s e' h
    rcases occ_old s e' h with ⟨rfl, rfl⟩ | ⟨hne, h0⟩
    · rw [hxh, hxf]
    · exact inv.hashF s e' h0
  · intro s1 s2 e1 e2 h1 h2 hne
    rcases occ_old s1 e1 h1 with ⟨rfl, rfl⟩ | ⟨hne1, a1⟩ <;> rcases occ_old s2 e2 h2 with ⟨rfl, rfl⟩ | ⟨hne2, a2⟩
    · exact absurd rfl hne
    · rw [hxf]
      refine ⟨hno s2 e2 a2, ?_⟩
      intro h; rw [h] at hi; exact hi (inv.mem s2 e2 a2).2
    · rw [hxf]
      refine ⟨?_, ?_⟩
      · cases hv : eqv e1.firstPos i with
        | false => rfl
        | true => have := hno s1 e1 a1; rw [kr.symm _ _ hv] at this; cases this
      · intro h; rw [← h] at hi; exact hi (inv.mem s1 e1 a1).2
    · exact inv.distinct s1 s2 e1 e2 a1 a2 hne
  · intro s e' h
    rcases occ_old s e' h with ⟨rfl, rfl⟩ | ⟨hne, h0⟩
    · rw [hxm, hxf, filter_append_one]
      have h1 : done.filter (cls eqv i) = [] := by
        rw [List.filter_eq_nil_iff]; intro j hj; simp [cls_i_old j hj]
      have h2 : cls eqv i i = true := by unfold cls; simp
      rw [h1, h2]; simp
    · obtain ⟨m1, m2⟩ := inv.mem s e' h0
      rw [filter_append_one, cls_old_i s e' h0, m1]; simp [m2]
  · intro j hj
    rcases List.mem_append.mp hj with hj | hj
    · obtain ⟨s, e0, h0, hc0⟩ := inv.cover j hj
      exact ⟨s, e0, occ_keep s e0 h0, hc0⟩
    · simp at hj; subst hj
      exact ⟨p, x, occ_x, by rw [hxf]; unfold cls; simp⟩

#print axioms insert_new
end G
