import QF.Spec.Basic
/-!
# ER — the small functions of internal/ecolumn that are not the factory: the bitset, `isNull`, `compVal`, `subset`

    /repo/internal/ecolumn/bitset.go   type bitset [4]uint64 · func (s *bitset) set(val enumVal) · isSet(val enumVal) bool
    /repo/internal/ecolumn/column.go   type enumVal uint8 · const maxCardinality, nullValue
                                       func (v enumVal) isNull() bool · compVal() int
                                       func (c Column) subset(index index.Int) Column · Subset(index index.Int) column.Column

go/cmd/extract/ecast.go translates these bodies on every run and writes the terms to `QF/Gen/EnumRest.lean`.

Terms name things by ROLE, never by Go identifier: "the code the method was called with / on" (`W.code`: the parameter
of the code type, or the receiver of a method of the code type), "the word `ix` of the receiver array" (`W.word ix`), "the
element of the index the loop is at" (`SE.cellAtVal`), "the cells / the value list / the strict flag of the receiver
column" (the fields of `Column` by their types, as in east.go). Named constants (`maxCardinality`, `nullValue`) are
replaced by their values. The WIDTH of a shift is made explicit by the translator from Go's typing rules: `1 << k` with an
untyped constant on the left takes the type of its context — the element type of the array it is or-ed into or and-ed
with (`uint64`) —, so `1 << k` is `W.shl 64 (lit 1) k`; `x op= e` is `x = x op e`.

## Semantics

`W.eval` computes with natural numbers: `>>`, `&`, `|` never leave the width of their operands, `<<` is taken modulo
`2^bits`. `s[ix]` outside the array is a run-time panic: no value (`none`). Untranslated code is `.opaque`: no value.
-/
namespace QF.ER

inductive Cmp where
  | lt | le | gt | ge | eq | ne
  deriving DecidableEq, Repr, Inhabited

def Cmp.eval : Cmp → Nat → Nat → Bool
  | .lt, a, b => a < b
  | .le, a, b => a ≤ b
  | .gt, a, b => a > b
  | .ge, a, b => a ≥ b
  | .eq, a, b => a == b
  | .ne, a, b => a != b

/-- Unsigned integer expressions. -/
inductive W where
  /-- the code (`enumVal`) the method was called with, or on -/
  | code
  /-- a constant; named constants are resolved -/
  | lit (n : Nat)
  /-- `s[ix]`: a word of the receiver array -/
  | word (ix : W)
  /-- `a >> b` -/
  | shr (a b : W)
  /-- `a << b` in an unsigned type of `bits` bits -/
  | shl (bits : Nat) (a b : W)
  /-- `a & b` -/
  | band (a b : W)
  /-- `a | b` -/
  | bor (a b : W)
  | opaque (txt : String)
  deriving DecidableEq, Repr, Inhabited

/-- Statements of the bitset methods and of `isNull`. -/
inductive BS where
  /-- `s[ix] = e` (`s[ix] |= e` is `s[ix] = s[ix] | e`) -/
  | store (ix e : W)
  /-- `return a <op> b` -/
  | retCmp (op : Cmp) (a b : W)
  | opaque (txt : String)
  deriving DecidableEq, Repr, Inhabited

/-- The body of `compVal`: a decision tree over the code. -/
inductive CV where
  /-- `if v <op> n { t }; e` -/
  | ifCode (op : Cmp) (n : Nat) (t e : CV)
  /-- `return z` -/
  | retInt (z : Int)
  /-- `return int(v)` -/
  | retCode
  | opaque (txt : String)
  deriving DecidableEq, Repr, Inhabited

/-- The length a slice is made with. -/
inductive SLen where
  /-- `0` -/
  | zero
  /-- `len(index)` -/
  | lenIndex
  deriving DecidableEq, Repr, Inhabited

/-- The element a loop of `subset` writes. -/
inductive SE where
  /-- `c.<cells>[ix]`, `ix` the ELEMENT of the index the loop is at -/
  | cellAtVal
  /-- `c.<cells>[i]`, `i` the POSITION the loop is at -/
  | cellAtKey
  /-- a constant code -/
  | lit (n : Nat)
  deriving DecidableEq, Repr, Inhabited

/-- Where a field of the returned `Column{…}` comes from. -/
inductive SF where
  /-- the local slice made by `make` -/
  | fresh
  /-- the receiver's cells / value list / strict flag -/
  | recvCells
  | recvValues
  | recvStrict
  /-- a constant / the zero value (field left out) -/
  | bool (b : Bool)
  | zero
  deriving DecidableEq, Repr, Inhabited

/-- Statements of `subset` / `Subset`. -/
inductive SS where
  /-- `data := make([]enumVal, len, …)` -/
  | makeCells (len : SLen)
  /-- `for _, ix := range index { data = append(data, e) }` -/
  | rangeAppend (e : SE)
  /-- `for i, ix := range index { data[i] = e }` -/
  | rangeStore (e : SE)
  /-- `return Column{<cells>: …, <value list>: …, <strict>: …}` -/
  | ret (cells values strict : SF)
  /-- `return c.<subset>(index)`: the unexported function with the same arguments -/
  | retSubset
  | opaque (txt : String)
  deriving DecidableEq, Repr, Inhabited

/-! ## Go semantics -/

def W.eval (words : List Nat) (v : Nat) : W → Option Nat
  | .code => some v
  | .lit n => some n
  | .word ix =>
    match ix.eval words v with
    | some i => words[i]?
    | none => none
  | .shr a b =>
    match a.eval words v, b.eval words v with
    | some x, some y => some (x >>> y)
    | _, _ => none
  | .shl bits a b =>
    match a.eval words v, b.eval words v with
    | some x, some y => some ((x <<< y) % 2 ^ bits)
    | _, _ => none
  | .band a b =>
    match a.eval words v, b.eval words v with
    | some x, some y => some (x &&& y)
    | _, _ => none
  | .bor a b =>
    match a.eval words v, b.eval words v with
    | some x, some y => some (x ||| y)
    | _, _ => none
  | .opaque _ => none

/-- What a body does: the array afterwards and the value returned (if any). `none`: panic or no meaning. -/
def BS.run (v : Nat) : List BS → List Nat → Option (List Nat × Option Bool)
  | [], words => some (words, none)
  | .store ix e :: rest, words =>
    match ix.eval words v, e.eval words v with
    | some i, some x => if i < words.length then BS.run v rest (words.set i x) else none
    | _, _ => none
  | .retCmp op a b :: _, words =>
    match a.eval words v, b.eval words v with
    | some x, some y => some (words, some (op.eval x y))
    | _, _ => none
  | .opaque _ :: _, _ => none

def CV.run (v : Nat) : CV → Option Int
  | .ifCode op n t e => if op.eval v n then t.run v else e.run v
  | .retInt z => some z
  | .retCode => some (v : Int)
  | .opaque _ => none

/-- An enum column: the codes, the value list, the strict flag. -/
structure Col where
  cells : List Nat
  values : List Bytes
  strict : Bool
  deriving DecidableEq, Repr, Inhabited

def SE.eval (c : Col) (i ix : Nat) : SE → Option Nat
  | .cellAtVal => c.cells[ix]?
  | .cellAtKey => c.cells[i]?
  | .lit n => some n

/-- `for i, ix := range index { data = append(data, e) }` from position `i` on -/
def appendLoop (c : Col) (e : SE) : Nat → List Nat → List Nat → Option (List Nat)
  | _, [], data => some data
  | i, ix :: rest, data =>
    match e.eval c i ix with
    | some x => appendLoop c e (i + 1) rest (data ++ [x])
    | none => none

/-- `for i, ix := range index { data[i] = e }` from position `i` on -/
def storeLoop (c : Col) (e : SE) : Nat → List Nat → List Nat → Option (List Nat)
  | _, [], data => some data
  | i, ix :: rest, data =>
    match e.eval c i ix with
    | some x => if i < data.length then storeLoop c e (i + 1) rest (data.set i x) else none
    | none => none

/-- The result of `subset`: the column returned and whether its cells are the slice made in the function (and not the
receiver's array). -/
structure SubOut where
  col : Col
  freshCells : Bool
  deriving DecidableEq, Repr

def SS.run (c : Col) (index : List Nat) : List SS → Option (List Nat) → Option SubOut
  | [], _ => none
  | .makeCells .zero :: rest, none => SS.run c index rest (some [])
  | .makeCells .lenIndex :: rest, none => SS.run c index rest (some (List.replicate index.length 0))
  | .makeCells _ :: _, some _ => none
  | .rangeAppend e :: rest, some data =>
    match appendLoop c e 0 index data with
    | some d => SS.run c index rest (some d)
    | none => none
  | .rangeStore e :: rest, some data =>
    match storeLoop c e 0 index data with
    | some d => SS.run c index rest (some d)
    | none => none
  | .rangeAppend _ :: _, none => none
  | .rangeStore _ :: _, none => none
  | .ret cf vf sf :: _, data =>
    let cells : Option (List Nat × Bool) := match cf, data with
      | .fresh, some d => some (d, true)
      | .recvCells, _ => some (c.cells, false)
      | .zero, _ => some ([], true)
      | _, _ => none
    let values : Option (List Bytes) := match vf with
      | .recvValues => some c.values
      | .zero => some []
      | _ => none
    let strict : Option Bool := match sf with
      | .recvStrict => some c.strict
      | .bool b => some b
      | .zero => some false
      | _ => none
    match cells, values, strict with
    | some (d, fr), some vs, some st => some { col := { cells := d, values := vs, strict := st }, freshCells := fr }
    | _, _, _ => none
  | .retSubset :: _, _ => none
  | .opaque _ :: _, _ => none

/-- The exported method: `return c.<subset>(index)` runs the body of the unexported one. -/
def SS.runExported (c : Col) (index : List Nat) (sub : List SS) : List SS → Option SubOut
  | [.retSubset] => SS.run c index sub none
  | body => SS.run c index body none

def W.hasOpaque : W → Bool
  | .opaque _ => true
  | .word a => a.hasOpaque
  | .shr a b | .shl _ a b | .band a b | .bor a b => a.hasOpaque || b.hasOpaque
  | _ => false

def BS.hasOpaque : BS → Bool
  | .opaque _ => true
  | .store a b | .retCmp _ a b => a.hasOpaque || b.hasOpaque

def CV.hasOpaque : CV → Bool
  | .opaque _ => true
  | .ifCode _ _ t e => t.hasOpaque || e.hasOpaque
  | _ => false

def SS.hasOpaque : SS → Bool
  | .opaque _ => true
  | _ => false

end QF.ER
