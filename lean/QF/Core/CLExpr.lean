import QF.Core.Filter
/-!
# CL — the language of the CLAUSE EVALUATION of Filter (/repo/filter.go, /repo/qframe.go, /repo/internal/index), and its Go semantics

    func (qf QFrame) Filter(clause FilterClause) QFrame
    func (qf QFrame) filter(filters ...filter.Filter) QFrame          -- the shared mask, one kernel call per filter, the Inverse handling
    func (c AndClause|OrClause|NotClause|NullClause|Filter) filter(qf QFrame) QFrame     and   Err() error
    func And|Or(clauses ...FilterClause), Not(c), Null(), anyFilterErr(clauses)
    func orFrames(original, lhs, rhs *QFrame) *QFrame
    func (qf QFrame) withErr(err) / withIndex(ix),  index.NewBool, Int.Len, Bool.Len, Int.Filter, integer.Max

go/cmd/extract/clast.go translates the bodies of these functions, statement by statement, to terms of the small
imperative language below and writes them to `QF/Gen/Clauses.lean` on every run. The language is generic where the code
is generic (variables, `:=`, `=`, `++`, `if`, `range`, `return`, slices, `len`, `append`, comparisons, pointers to frames,
calls of the other translated functions) and has one statement per thing that only this code does (the look-ups of
`QFrame.filter`'s preamble, the `filter.Inverse` look-up, the kernel call `s.Filter(qf.index, comparator, f.Arg, mask)`).

Terms name things by ROLE: variables are numbered in the order of their declaration (receiver, parameters, then every
`:=` / `var` / range variable / variable of an `if v, ok := …` as it occurs in the text), the functions called by the
role their signature gives them (`FnId`), the fields of `QFrame` and of the clause structs by their types.

What is NOT in the terms: the cells. A kernel call is a primitive whose effect on the mask is taken from the leaf, exactly
as the hand mirror `F.Leaf` (QF/Core/Filter.lean) abstracts it — see `LeafCalls` and `LeafCalls.Abstracts`.
-/
namespace QF.CL
open F (Frame Leaf Clause KShape Pos)

abbrev Var := Nat

/-- The dynamic type of a `FilterClause` value. -/
inductive DynTy where
  | filter | and | or | not | null
  deriving DecidableEq, Repr, Inhabited

/-- The functions of the translation unit, by role. -/
inductive FnId where
  /-- `QFrame.Filter(clause)`: the method of `QFrame` with the signature `(FilterClause) QFrame` -/
  | publicFilter
  /-- `QFrame.filter(filters...)`: `(...filter.Filter) QFrame` -/
  | leaves
  /-- the method `(QFrame) QFrame` of the interface `FilterClause`, per implementing type -/
  | filter (ty : DynTy)
  /-- the method `() error` of the interface, per implementing type -/
  | errM (ty : DynTy)
  /-- the constructors `And`, `Or`, `Not`, `Null` -/
  | ctor (ty : DynTy)
  /-- `anyFilterErr`: `([]FilterClause) error` -/
  | anyErr
  /-- `orFrames`: `(*QFrame, *QFrame, *QFrame) *QFrame` -/
  | orFrames
  /-- `QFrame.withErr`: `(error) QFrame` -/
  | withErr
  /-- `QFrame.withIndex`: `(index.Int) QFrame` -/
  | withIndex
  /-- `index.NewBool`: `(int) index.Bool` -/
  | newBool
  /-- `index.Int.Len` -/
  | ixLen
  /-- `index.Bool.Len` -/
  | maskLen
  /-- `index.Int.Filter`: `(index.Bool) index.Int` -/
  | ixFilter
  /-- the `(int, int) int` helper called for a capacity (`integer.Max`) -/
  | max
  deriving DecidableEq, Repr, Inhabited

inductive COp where
  | lt | le | gt | ge | eq | ne
  deriving DecidableEq, Repr, Inhabited

/-- Expressions. -/
inductive E where
  | var (v : Var)
  | int (n : Int)
  | bool (b : Bool)
  /-- `nil` as an `error` -/
  | nilErr
  /-- a call of a function of package qerrors that returns its (non-pointer) `Error` struct: never nil as an `error` -/
  | newErr
  /-- `nil` as a `*QFrame` -/
  | nilPtr
  /-- `&x` for a frame variable that is never assigned after its declaration -/
  | addr (e : E)
  /-- `*p`, also the implicit one of `p.Err`, `p.index`, `p.m(…)` -/
  | deref (e : E)
  /-- `<frame>.Err` -/
  | frameErr (e : E)
  /-- `<frame>.<the field of type index.Int>` -/
  | frameIndex (e : E)
  /-- `QFrame{Err: err, index: ix, <the other fields copied from the receiver>}` -/
  | mkFrame (err ix : E)
  /-- `e == nil` (error or pointer) -/
  | isNil (e : E)
  /-- `e != nil` -/
  | notNil (e : E)
  | not (e : E)
  /-- `a && b` (b is not evaluated when a is false) -/
  | and (a b : E)
  /-- `a || b` (b is not evaluated when a is true) -/
  | or (a b : E)
  | cmp (op : COp) (a b : E)
  | add (a b : E)
  | sub (a b : E)
  /-- the builtin `len` of a slice -/
  | len (e : E)
  /-- `a[i]` -/
  | at (a i : E)
  /-- `make(<[]bool>, n)` -/
  | makeMask (n : E)
  /-- `make(<[]uint32>, 0, cap)` -/
  | makeIx (cap : E)
  /-- `make([]filter.Filter, 0)` -/
  | emptyLeaves
  /-- `append(l, x)` -/
  | snoc (l x : E)
  /-- `l[:n]` -/
  | truncate (l n : E)
  /-- the variadic argument list of one element -/
  | single (e : E)
  /-- `<filter>.Inverse` -/
  | inverseFlag (e : E)
  /-- `<combo>.<the field of type []FilterClause>` -/
  | subClauses (e : E)
  /-- `<not clause>.<the field of type FilterClause>` -/
  | subClause (e : E)
  /-- `<combo>.<the field of type error>` -/
  | errField (e : E)
  /-- `AndClause{subClauses: subs, err: err}` / `OrClause{…}`; an absent field is its zero value (`noSubs`, `nilErr`) -/
  | mkCombo (ty : DynTy) (subs err : E)
  | noSubs
  /-- `NotClause{subClause: c}` -/
  | mkNot (e : E)
  /-- `NullClause{}` -/
  | mkNull
  /-- `c.<filter method>(f)` through the interface -/
  | callFilter (c f : E)
  /-- `c.Err()` through the interface -/
  | callErr (c : E)
  /-- calls of translated functions (a receiver is the first argument) -/
  | call1 (f : FnId) (a : E)
  | call2 (f : FnId) (a b : E)
  | call3 (f : FnId) (a b c : E)
  | opaque (txt : String)
  deriving DecidableEq, Repr, Inhabited

/-- column types of the promotion rules in `QFrame.filter`'s preamble -/
inductive PTy where
  | int | float | bool | string | enum | other
  deriving DecidableEq, Repr, Inhabited

inductive PSide where
  /-- the filtered column is replaced -/
  | column
  /-- the argument column is replaced -/
  | arg
  deriving DecidableEq, Repr, Inhabited

/-- `if the column is a <recv> column and the argument column a <arg> column: <side> = <to>.New(<side's cells>.FloatSlice())` -/
structure PRule where
  recv : PTy
  arg : PTy
  side : PSide
  to : PTy
  deriving DecidableEq, Repr, Inhabited

/-- the comparator handed to the kernel -/
inductive KCmp where
  /-- `f.Comparator` -/
  | own
  /-- the value found in `filter.Inverse`, held by the variable -/
  | inverseVia (v : Var)
  deriving DecidableEq, Repr, Inhabited

/-- Statements. A block is `S.block [s₁, …]`. -/
inductive S where
  | skip
  | seq (a b : S)
  /-- `v := e`, `var v T = e`, `var v T` (e the zero value) -/
  | define (v : Var) (e : E)
  /-- `v = e` -/
  | assign (v : Var) (e : E)
  /-- `v++` -/
  | incr (v : Var)
  /-- `m[i] = e` for a mask made in this function -/
  | setAt (m : Var) (i e : E)
  /-- `v.Inverse = e` -/
  | setInverse (v : Var) (e : E)
  | ite (c : E) (t e : S)
  /-- `if v, ok := x.(T); ok { t } else { e }` for an interface value x and one of the clause types T -/
  | ifIs (x : E) (ty : DynTy) (v : Var) (t e : S)
  /-- `for k, v := range xs { body }` over a slice that the body does not write -/
  | range (xs : E) (k v : Option Var) (body : S)
  /-- `for k, v := range m { body }` over a mask variable that the body writes: the element is read in every round -/
  | rangeLive (m : Var) (k v : Option Var) (body : S)
  | ret (e : E)
  /-- `s, ok := <frame>.<map of columns>[<filter>.Column]` -/
  | lookupColumn (s ok : Var) (frame leaf : E)
  /-- `if name, ok := f.Arg.(types.ColumnName); ok { t }` -/
  | ifArgIsColumn (leaf name : Var) (t : S)
  /-- `a, ok := <frame>.<map of columns>[string(name)]` -/
  | lookupArgColumn (a ok : Var) (frame : E) (name : Var)
  /-- the chain of type tests on (`s.Column`, `a.Column`) that replaces one of them by its float image -/
  | promote (rules : List PRule) (s a : Var)
  /-- `f.Arg = a.Column` -/
  | setArg (leaf a : Var)
  /-- `if sc, ok := f.Comparator.(string); ok { t }` -/
  | ifCmpIsString (leaf sc : Var) (t : S)
  /-- `if inv, ok := filter.Inverse[key]; ok { t }` -/
  | ifInverseEntry (key inv : Var) (t : S)
  /-- `err = s.Filter(ix, <cmp>, f.Arg, mask)` -/
  | kernel (err s : Var) (ix : E) (cmp : KCmp) (leaf mask : Var)
  | opaque (txt : String)
  deriving DecidableEq, Repr, Inhabited

def S.block : List S → S
  | [] => .skip
  | s :: ss => .seq s (S.block ss)

/-- A translated function: the receiver and the parameters are the variables `0 … params-1`. -/
structure Fn where
  params : Nat
  body : S
  deriving DecidableEq, Repr, Inhabited

def E.hasOpaque : E → Bool
  | .opaque _ => true
  | .addr e | .deref e | .frameErr e | .frameIndex e | .isNil e | .notNil e | .not e | .len e | .makeMask e | .makeIx e
  | .single e | .inverseFlag e | .subClauses e | .subClause e | .errField e | .mkNot e | .callErr e | .call1 _ e => e.hasOpaque
  | .mkFrame a b | .and a b | .or a b | .cmp _ a b | .add a b | .sub a b | .at a b | .snoc a b | .truncate a b
  | .mkCombo _ a b | .callFilter a b | .call2 _ a b => a.hasOpaque || b.hasOpaque
  | .call3 _ a b c => a.hasOpaque || b.hasOpaque || c.hasOpaque
  | _ => false

def S.hasOpaque : S → Bool
  | .opaque _ => true
  | .seq a b => a.hasOpaque || b.hasOpaque
  | .define _ e | .assign _ e | .setInverse _ e | .ret e => e.hasOpaque
  | .setAt _ i e => i.hasOpaque || e.hasOpaque
  | .ite c t e => c.hasOpaque || t.hasOpaque || e.hasOpaque
  | .ifIs x _ _ t e => x.hasOpaque || t.hasOpaque || e.hasOpaque
  | .range xs _ _ b => xs.hasOpaque || b.hasOpaque
  | .rangeLive _ _ _ b => b.hasOpaque
  | .lookupColumn _ _ f l => f.hasOpaque || l.hasOpaque
  | .ifArgIsColumn _ _ t | .ifCmpIsString _ _ t | .ifInverseEntry _ _ t => t.hasOpaque
  | .lookupArgColumn _ _ f _ => f.hasOpaque
  | .promote rules _ _ => rules.any (fun r => r.recv == .other || r.arg == .other || r.to == .other)
  | .kernel _ _ ix _ _ _ => ix.hasOpaque
  | _ => false

/-- the promotion rules a statement contains, in the order of the text -/
def S.promoteRules : S → List PRule
  | .promote rules _ _ => rules
  | .seq a b => a.promoteRules ++ b.promoteRules
  | .ite _ t e | .ifIs _ _ _ t e => t.promoteRules ++ e.promoteRules
  | .range _ _ _ b | .rangeLive _ _ _ b | .ifArgIsColumn _ _ b | .ifCmpIsString _ _ b | .ifInverseEntry _ _ b => b.promoteRules
  | _ => []

/-! ## Values -/

/-- What the calls made for one `filter.Filter` return. The hand mirror `F.Leaf` lumps them together. -/
structure LeafCalls where
  /-- `qf.columnsByName[f.Column]` finds the column -/
  colKnown : Bool
  /-- `f.Arg` is a `types.ColumnName` -/
  argIsCol : Bool
  /-- … and that column exists -/
  argColKnown : Bool
  /-- `f.Comparator` is a string -/
  cmpIsString : Bool
  /-- … with an entry in `filter.Inverse` -/
  hasInverse : Bool
  /-- `s.Filter(qf.index, f.Comparator, f.Arg, ·)`: `none` = an error (the mask is not touched), else the kernel that runs -/
  direct : Option (KShape × (Pos → Bool))
  /-- the same call with the comparator found in `filter.Inverse` -/
  inverse : Option (KShape × (Pos → Bool))

/-- `F.Leaf` as an abstraction of the calls: `err` says that the leaf cannot be evaluated — every kernel call for it
fails, and a failing look-up is such an error; `shape`/`pred` is the kernel of the comparator; `inv` the kernel of the
inverse comparator where the shortcut is available (string comparator, entry in the table, the call succeeds). -/
def LeafCalls.Abstracts (k : LeafCalls) (l : Leaf) : Prop :=
  (k.colKnown = false → l.err = true) ∧
  (k.argIsCol = true → k.argColKnown = false → l.err = true) ∧
  k.direct = (if l.err then none else some (l.shape, l.pred)) ∧
  (if k.cmpIsString && k.hasInverse then k.inverse else none) = (if l.err then none else l.inv)

/-- the simplest calls with this abstraction -/
def LeafCalls.ofLeaf (l : Leaf) : LeafCalls :=
  { colKnown := true, argIsCol := false, argColKnown := true, cmpIsString := true, hasInverse := !l.err && l.inv.isSome,
    direct := if l.err then none else some (l.shape, l.pred), inverse := if l.err then none else l.inv }

theorem LeafCalls.ofLeaf_abstracts (l : Leaf) : (LeafCalls.ofLeaf l).Abstracts l := by
  refine ⟨by simp [ofLeaf], by simp [ofLeaf], rfl, ?_⟩
  cases he : l.err <;> cases hi : l.inv <;> simp [ofLeaf, he, hi]

instance : Inhabited Leaf := ⟨{ shape := .guarded, pred := fun _ => false }⟩

/-- A `FilterClause` value: the struct behind the interface and its two methods. -/
inductive Obj where
  | mk (ty : DynTy) (leaf : Leaf) (subs : List Obj) (errField : Bool) (filterM : Frame → Option Frame) (errM : Option Bool)

def Obj.ty : Obj → DynTy | .mk t _ _ _ _ _ => t
def Obj.leaf : Obj → Leaf | .mk _ l _ _ _ _ => l
def Obj.subs : Obj → List Obj | .mk _ _ s _ _ _ => s
def Obj.errField : Obj → Bool | .mk _ _ _ e _ _ => e
def Obj.filterM : Obj → Frame → Option Frame | .mk _ _ _ _ f _ => f
def Obj.errM : Obj → Option Bool | .mk _ _ _ _ _ e => e

/-- the things `QFrame.filter` derives from one filter -/
inductive Tok where
  | col | argName | argCol | cmpStr | invCmp
  deriving DecidableEq, Repr

inductive Val where
  | frame (f : Frame)
  /-- `*QFrame`: frames are never written through a pointer, so a pointer is the frame it points to (or nil) -/
  | ptr (p : Option Frame)
  /-- an `error`: non-nil? -/
  | err (e : Bool)
  | bool (b : Bool)
  | int (n : Int)
  | ix (l : List Pos)
  | pos (p : Pos)
  | mask (m : List Bool)
  | leaf (l : Leaf)
  | leaves (ls : List Leaf)
  | obj (o : Obj)
  | objs (os : List Obj)
  /-- a value of one of the clause struct types other than `Filter` -/
  | struct (ty : DynTy) (subs : List Obj) (errField : Bool)
  | tok (k : Tok) (l : Leaf)

abbrev Store := Var → Option Val

def Store.empty : Store := fun _ => none
def Store.set (σ : Store) (v : Var) (x : Val) : Store := fun w => if w = v then some x else σ w
def Store.setOpt (σ : Store) (v : Option Var) (x : Val) : Store :=
  match v with
  | some v => σ.set v x
  | none => σ

@[simp] theorem Store.set_same (σ : Store) (v : Var) (x : Val) : σ.set v x v = some x := by simp [Store.set]
theorem Store.set_ne (σ : Store) (v w : Var) (x : Val) (h : w ≠ v) : σ.set v x w = σ w := by simp [Store.set, h]

structure Env where
  call : FnId → List Val → Option Val
  oracle : Leaf → LeafCalls

def COp.holds : COp → Int → Int → Bool
  | .lt, a, b => a < b
  | .le, a, b => a ≤ b
  | .gt, a, b => a > b
  | .ge, a, b => a ≥ b
  | .eq, a, b => a == b
  | .ne, a, b => a != b

def Val.isNil : Val → Option Bool
  | .err e => some (!e)
  | .ptr p => some p.isNone
  | _ => none

def Val.len : Val → Option Nat
  | .ix l => some l.length
  | .mask m => some m.length
  | .leaves l => some l.length
  | .objs l => some l.length
  | _ => none

def Val.elems : Val → Option (List Val)
  | .ix l => some (l.map .pos)
  | .mask m => some (m.map .bool)
  | .leaves l => some (l.map .leaf)
  | .objs l => some (l.map .obj)
  | _ => none

def Val.at : Val → Int → Option Val
  | .ix l, n => if n < 0 then none else (l[n.toNat]?).map .pos
  | .mask l, n => if n < 0 then none else (l[n.toNat]?).map .bool
  | _, _ => none

/-! ## Expressions -/

def E.eval (Γ : Env) (σ : Store) : E → Option Val
  | .var v => σ v
  | .int n => some (.int n)
  | .bool b => some (.bool b)
  | .nilErr => some (.err false)
  | .newErr => some (.err true)
  | .nilPtr => some (.ptr none)
  | .addr e => match e.eval Γ σ with | some (.frame f) => some (.ptr (some f)) | _ => none
  | .deref e => match e.eval Γ σ with | some (.ptr (some f)) => some (.frame f) | _ => none
  | .frameErr e => match e.eval Γ σ with | some (.frame f) => some (.err f.err) | _ => none
  | .frameIndex e => match e.eval Γ σ with | some (.frame f) => some (.ix f.index) | _ => none
  | .mkFrame er ix =>
    match er.eval Γ σ, ix.eval Γ σ with
    | some (.err b), some (.ix l) => some (.frame { index := l, err := b })
    | _, _ => none
  | .isNil e => match e.eval Γ σ with | some x => x.isNil.map .bool | none => none
  | .notNil e => match e.eval Γ σ with | some x => x.isNil.map (fun b => .bool (!b)) | none => none
  | .not e => match e.eval Γ σ with | some (.bool b) => some (.bool (!b)) | _ => none
  | .and a b =>
    match a.eval Γ σ with
    | some (.bool false) => some (.bool false)
    | some (.bool true) => (match b.eval Γ σ with | some (.bool x) => some (.bool x) | _ => none)
    | _ => none
  | .or a b =>
    match a.eval Γ σ with
    | some (.bool true) => some (.bool true)
    | some (.bool false) => (match b.eval Γ σ with | some (.bool x) => some (.bool x) | _ => none)
    | _ => none
  | .cmp op a b =>
    match a.eval Γ σ, b.eval Γ σ with
    | some (.int x), some (.int y) => some (.bool (op.holds x y))
    | some (.pos x), some (.pos y) => some (.bool (op.holds x y))
    | _, _ => none
  | .add a b => match a.eval Γ σ, b.eval Γ σ with | some (.int x), some (.int y) => some (.int (x + y)) | _, _ => none
  | .sub a b => match a.eval Γ σ, b.eval Γ σ with | some (.int x), some (.int y) => some (.int (x - y)) | _, _ => none
  | .len e => match e.eval Γ σ with | some x => x.len.map (fun n => .int n) | none => none
  | .at a i => match a.eval Γ σ, i.eval Γ σ with | some x, some (.int n) => x.at n | _, _ => none
  | .makeMask n => match n.eval Γ σ with | some (.int k) => if k < 0 then none else some (.mask (List.replicate k.toNat false)) | _ => none
  | .makeIx c => match c.eval Γ σ with | some (.int k) => if k < 0 then none else some (.ix []) | _ => none
  | .emptyLeaves => some (.leaves [])
  | .snoc l x =>
    match l.eval Γ σ, x.eval Γ σ with
    | some (.ix l), some (.pos p) => some (.ix (l ++ [p]))
    | some (.leaves l), some (.leaf p) => some (.leaves (l ++ [p]))
    | _, _ => none
  | .truncate l n =>
    match l.eval Γ σ, n.eval Γ σ with
    | some (.leaves l), some (.int k) => if k < 0 ∨ (l.length : Int) < k then none else some (.leaves (l.take k.toNat))
    | _, _ => none
  | .single e => match e.eval Γ σ with | some (.leaf l) => some (.leaves [l]) | _ => none
  | .inverseFlag e => match e.eval Γ σ with | some (.leaf l) => some (.bool l.inverse) | _ => none
  | .subClauses e =>
    match e.eval Γ σ with
    | some (.struct .and s _) => some (.objs s)
    | some (.struct .or s _) => some (.objs s)
    | _ => none
  | .subClause e => match e.eval Γ σ with | some (.struct .not [o] _) => some (.obj o) | _ => none
  | .errField e =>
    match e.eval Γ σ with
    | some (.struct .and _ b) => some (.err b)
    | some (.struct .or _ b) => some (.err b)
    | _ => none
  | .mkCombo ty s er =>
    match s.eval Γ σ, er.eval Γ σ with
    | some (.objs os), some (.err b) => some (.struct ty os b)
    | _, _ => none
  | .noSubs => some (.objs [])
  | .mkNot e => match e.eval Γ σ with | some (.obj o) => some (.struct .not [o] false) | _ => none
  | .mkNull => some (.struct .null [] false)
  | .callFilter c f =>
    match c.eval Γ σ, f.eval Γ σ with
    | some (.obj o), some (.frame g) => (o.filterM g).map .frame
    | _, _ => none
  | .callErr c => match c.eval Γ σ with | some (.obj o) => o.errM.map .err | _ => none
  | .call1 f a => match a.eval Γ σ with | some x => Γ.call f [x] | none => none
  | .call2 f a b => match a.eval Γ σ, b.eval Γ σ with | some x, some y => Γ.call f [x, y] | _, _ => none
  | .call3 f a b c => match a.eval Γ σ, b.eval Γ σ, c.eval Γ σ with | some x, some y, some z => Γ.call f [x, y, z] | _, _, _ => none
  | .opaque _ => none

/-! ## Statements -/

inductive Out where
  | next (σ : Store)
  | ret (v : Val)
  /-- no meaning: a run-time panic of the Go code (nil dereference, index out of range, negative capacity), a value of
  the wrong kind, or a term that was not understood -/
  | stuck

def loop (step : Val → Nat → Store → Out) : List Val → Nat → Store → Out
  | [], _, σ => .next σ
  | x :: xs, i, σ =>
    match step x i σ with
    | .next σ' => loop step xs (i + 1) σ'
    | r => r

/-- `n` more rounds from round `i` on, the element read from the variable in every round -/
def loopLive (step : Val → Nat → Store → Out) (m : Var) : Nat → Nat → Store → Out
  | 0, _, σ => .next σ
  | n + 1, i, σ =>
    match σ m with
    | some (.mask mm) =>
      (match mm[i]? with
       | some b =>
         (match step (.bool b) i σ with
          | .next σ' => loopLive step m n (i + 1) σ'
          | r => r)
       | none => .stuck)
    | _ => .stuck

def bindKV (k v : Option Var) (i : Nat) (x : Val) (σ : Store) : Store := (σ.setOpt k (.int i)).setOpt v x

def S.exec (Γ : Env) : S → Store → Out
  | .skip, σ => .next σ
  | .seq a b, σ =>
    match a.exec Γ σ with
    | .next σ' => b.exec Γ σ'
    | r => r
  | .define v e, σ => match e.eval Γ σ with | some x => .next (σ.set v x) | none => .stuck
  | .assign v e, σ => match e.eval Γ σ with | some x => .next (σ.set v x) | none => .stuck
  | .incr v, σ => match σ v with | some (.int n) => .next (σ.set v (.int (n + 1))) | _ => .stuck
  | .setAt m i e, σ =>
    match σ m, i.eval Γ σ, e.eval Γ σ with
    | some (.mask mm), some (.int n), some (.bool b) =>
      if n < 0 ∨ (mm.length : Int) ≤ n then .stuck else .next (σ.set m (.mask (mm.set n.toNat b)))
    | _, _, _ => .stuck
  | .setInverse v e, σ =>
    match σ v, e.eval Γ σ with
    | some (.leaf l), some (.bool b) => .next (σ.set v (.leaf { l with inverse := b }))
    | _, _ => .stuck
  | .ite c t e, σ =>
    match c.eval Γ σ with
    | some (.bool true) => t.exec Γ σ
    | some (.bool false) => e.exec Γ σ
    | _ => .stuck
  | .ifIs x ty v t e, σ =>
    match x.eval Γ σ with
    | some (.obj o) =>
      if o.ty = ty then
        t.exec Γ (σ.set v (match ty with | .filter => .leaf o.leaf | _ => .struct o.ty o.subs o.errField))
      else e.exec Γ σ
    | _ => .stuck
  | .range xs k v body, σ =>
    match xs.eval Γ σ with
    | some x =>
      (match x.elems with
       | some l => loop (fun y i σ' => body.exec Γ (bindKV k v i y σ')) l 0 σ
       | none => .stuck)
    | none => .stuck
  | .rangeLive m k v body, σ =>
    match σ m with
    | some (.mask mm) => loopLive (fun y i σ' => body.exec Γ (bindKV k v i y σ')) m mm.length 0 σ
    | _ => .stuck
  | .ret e, σ => match e.eval Γ σ with | some x => .ret x | none => .stuck
  | .lookupColumn s ok fr lf, σ =>
    match fr.eval Γ σ, lf.eval Γ σ with
    | some (.frame _), some (.leaf l) => .next ((σ.set s (.tok .col l)).set ok (.bool (Γ.oracle l).colKnown))
    | _, _ => .stuck
  | .ifArgIsColumn lf name t, σ =>
    match σ lf with
    | some (.leaf l) => if (Γ.oracle l).argIsCol then t.exec Γ (σ.set name (.tok .argName l)) else .next σ
    | _ => .stuck
  | .lookupArgColumn a ok fr name, σ =>
    match fr.eval Γ σ, σ name with
    | some (.frame _), some (.tok .argName l) => .next ((σ.set a (.tok .argCol l)).set ok (.bool (Γ.oracle l).argColKnown))
    | _, _ => .stuck
  | .promote _ s a, σ =>
    match σ s, σ a with
    | some (.tok .col _), some (.tok .argCol _) => .next σ
    | _, _ => .stuck
  | .setArg lf a, σ =>
    match σ lf, σ a with
    | some (.leaf _), some (.tok .argCol _) => .next σ
    | _, _ => .stuck
  | .ifCmpIsString lf sc t, σ =>
    match σ lf with
    | some (.leaf l) => if (Γ.oracle l).cmpIsString then t.exec Γ (σ.set sc (.tok .cmpStr l)) else .next σ
    | _ => .stuck
  | .ifInverseEntry key inv t, σ =>
    match σ key with
    | some (.tok .cmpStr l) => if (Γ.oracle l).hasInverse then t.exec Γ (σ.set inv (.tok .invCmp l)) else .next σ
    | _ => .stuck
  | .kernel er s ix cmp lf m, σ =>
    match σ s, ix.eval Γ σ, σ lf, σ m with
    | some (.tok .col _), some (.ix I), some (.leaf l), some (.mask mm) =>
      let k : Option (Option (KShape × (Pos → Bool))) :=
        match cmp with
        | .own => some (Γ.oracle l).direct
        | .inverseVia v => (match σ v with | some (.tok .invCmp _) => some (Γ.oracle l).inverse | _ => none)
      (match k with
       | none => .stuck
       | some none => .next (σ.set er (.err true))
       | some (some (sh, p)) => .next ((σ.set m (.mask (F.runKernel sh p I mm))).set er (.err false)))
    | _, _, _, _ => .stuck
  | .opaque _, _ => .stuck

/-! ## Calls -/

def bindArgs : List Val → Nat → Store → Store
  | [], _, σ => σ
  | x :: xs, i, σ => bindArgs xs (i + 1) (σ.set i x)

def runFn (Γ : Env) (fn : Fn) (args : List Val) : Option Val :=
  if args.length = fn.params then
    match fn.body.exec Γ (bindArgs args 0 Store.empty) with
    | .ret v => some v
    | _ => none
  else none

/-- calls nested at most `n` deep (the translated functions do not call themselves; the recursion over the clause tree
goes through the interface values, see `objOf`) -/
def callAt (P : List (FnId × Fn)) (O : Leaf → LeafCalls) : Nat → FnId → List Val → Option Val
  | 0 => fun _ _ => none
  | n + 1 => fun f args =>
    match P.lookup f with
    | some fn => runFn { call := callAt P O n, oracle := O } fn args
    | none => none

/-! ## Clause values -/

/-- the receiver of a method of the clause type -/
def recvOf (ty : DynTy) (leaf : Leaf) (subs : List Obj) (e : Bool) : Val :=
  match ty with
  | .filter => .leaf leaf
  | _ => .struct ty subs e

/-- the struct the constructor of the type returns for the sub-clauses (`Filter` is a struct literal) -/
def construct (call : FnId → List Val → Option Val) (ty : DynTy) (subs : List Obj) : Option (List Obj × Bool) :=
  let args : Option (List Val) :=
    match ty, subs with
    | .filter, _ => none
    | .not, [o] => some [.obj o]
    | .not, _ => none
    | .null, _ => some []
    | _, _ => some [.objs subs]
  match ty, args with
  | .filter, _ => some ([], false)
  | _, none => none
  | _, some a =>
    match call (.ctor ty) a with
    | some (.struct ty' s e) => if ty' = ty then some (s, e) else none
    | _ => none

def asFrame : Option Val → Option Frame
  | some (.frame g) => some g
  | _ => none

def asErr : Option Val → Option Bool
  | some (.err b) => some b
  | _ => none

/-- the interface value: the constructed struct with the two methods of its type -/
def mkObj (call : FnId → List Val → Option Val) (ty : DynTy) (leaf : Leaf) (subs : List Obj) : Option Obj :=
  (construct call ty subs).map fun (s, e) =>
    Obj.mk ty leaf s e
      (fun f => asFrame (call (.filter ty) [recvOf ty leaf s e, .frame f]))
      (asErr (call (.errM ty) [recvOf ty leaf s e]))

mutual
/-- the Go value of a clause tree: `Filter{…}`, `And(…)`, `Or(…)`, `Not(…)`, `Null()` -/
def objOf (call : FnId → List Val → Option Val) : Clause → Option Obj
  | .leaf l => mkObj call .filter l []
  | .null => mkObj call .null default []
  | .not c => (objOf call c).bind fun o => mkObj call .not default [o]
  | .and cs => (objsOf call cs).bind fun os => mkObj call .and default os
  | .or cs => (objsOf call cs).bind fun os => mkObj call .or default os
def objsOf (call : FnId → List Val → Option Val) : List Clause → Option (List Obj)
  | [] => some []
  | c :: cs => (objOf call c).bind fun o => (objsOf call cs).map (o :: ·)
end

/-- the call depth the interpretation allows (today: Filter → clause method → QFrame.filter → Int.Filter) -/
def depth : Nat := 4

/-- `qf.Filter(<the clause>)` by the translated functions `P`: `none` = no meaning (a panic, or something not understood) -/
def interp (P : List (FnId × Fn)) (O : Leaf → LeafCalls) (c : Clause) (f : Frame) : Option Frame :=
  (objOf (callAt P O depth) c).bind fun o => asFrame (callAt P O depth .publicFilter [.frame f, .obj o])

end QF.CL
