/-! Prototype: small algebraic lemmas — string pointer packing (C08), enum bitset (C17), SQL Scan (C19).
    Kernel-only bit reasoning: extensionality over `Nat.testBit`, no `bv_decide`. -/
namespace Small

/-! ### internal/strings/pointer.go (on Nat; the UInt64 terms reduce to these by `toNat_*` lemmas) -/
def newPointer (offset length : Nat) (isNull : Bool) : Nat :=
  (offset <<< 28 ||| length) ||| (if isNull then 2 ^ 63 else 0)
def pOffset (p : Nat) : Nat := (p >>> 28) &&& (2 ^ 35 - 1)
def pLen (p : Nat) : Nat := p &&& (2 ^ 28 - 1)
def pIsNull (p : Nat) : Bool := p.testBit 63          -- `p & nullBit > 0`

theorem tb_lt {x i j : Nat} (h : x < 2 ^ i) (hij : i ≤ j) : x.testBit j = false :=
  Nat.testBit_lt_two_pow (Nat.lt_of_lt_of_le h (Nat.pow_le_pow_right (by omega) hij))

theorem pointer_roundtrip (offset length : Nat) (isNull : Bool) (ho : offset < 2 ^ 35) (hl : length < 2 ^ 28) :
    pOffset (newPointer offset length isNull) = offset ∧
    pLen (newPointer offset length isNull) = length ∧
    pIsNull (newPointer offset length isNull) = isNull := by
  refine ⟨?_, ?_, ?_⟩
  · apply Nat.eq_of_testBit_eq
    intro j
    simp only [pOffset, newPointer, Nat.testBit_and, Nat.testBit_shiftRight, Nat.testBit_or, Nat.testBit_shiftLeft,
      Nat.testBit_two_pow_sub_one]
    have h1 : length.testBit (28 + j) = false := tb_lt hl (by omega)
    have h2 : (if isNull then 2 ^ 63 else 0 : Nat).testBit (28 + j) = (isNull && decide (j = 35)) := by
      cases isNull
      · simp
      · simp only [↓reduceIte, Nat.testBit_two_pow, Bool.true_and]
        by_cases e : j = 35 <;> simp [e] <;> omega
    rw [h1, h2]
    by_cases hj : j < 35
    · have : ¬ j = 35 := by omega
      simp [hj, this]
    · have : offset.testBit j = false := tb_lt ho (by omega)
      simp [hj, this]
  · apply Nat.eq_of_testBit_eq
    intro j
    simp only [pLen, newPointer, Nat.testBit_and, Nat.testBit_or, Nat.testBit_shiftLeft, Nat.testBit_two_pow_sub_one]
    by_cases hj : j < 28
    · have h2 : (if isNull then 2 ^ 63 else 0 : Nat).testBit j = false := by
        cases isNull
        · simp
        · simp only [↓reduceIte, Nat.testBit_two_pow]
          have : ¬ 63 = j := by omega
          simp [this]
      have : ¬ j ≥ 28 := by omega
      simp [hj, h2, this]
    · have : length.testBit j = false := tb_lt hl (by omega)
      simp [hj, this]
  · simp only [pIsNull, newPointer, Nat.testBit_or, Nat.testBit_shiftLeft]
    have h1 : length.testBit 63 = false := tb_lt hl (by omega)
    have h3 : offset.testBit (63 - 28) = false := tb_lt ho (by omega)
    cases isNull
    · simp [h1, h3]
    · simp only [↓reduceIte, Nat.testBit_two_pow]; simp

/-! ### internal/ecolumn/bitset.go: [4]uint64 -/
abbrev BitSet := Nat × Nat × Nat × Nat
def word (s : BitSet) (k : Nat) : Nat := match k with | 0 => s.1 | 1 => s.2.1 | 2 => s.2.2.1 | _ => s.2.2.2
def setWord (s : BitSet) (k : Nat) (w : Nat) : BitSet :=
  match k with | 0 => (w, s.2) | 1 => (s.1, w, s.2.2) | 2 => (s.1, s.2.1, w, s.2.2.2) | _ => (s.1, s.2.1, s.2.2.1, w)
def bsSet (s : BitSet) (v : Nat) : BitSet := setWord s (v >>> 6) (word s (v >>> 6) ||| (1 <<< (v &&& 0x3F)))
def bsIsSet (s : BitSet) (v : Nat) : Bool := (word s (v >>> 6) &&& (1 <<< (v &&& 0x3F))) != 0

theorem and_one_shift (x k : Nat) : (x &&& (1 <<< k) != 0) = x.testBit k := by
  rw [Nat.one_shiftLeft]
  by_cases h : x.testBit k
  · rw [h]
    have : x &&& 2 ^ k ≠ 0 := by
      intro h0
      have := congrArg (fun n => n.testBit k) h0
      simp [Nat.testBit_and, Nat.testBit_two_pow, h] at this
    simpa using this
  · have h' : x.testBit k = false := by simpa using h
    rw [h']
    have : x &&& 2 ^ k = 0 := by
      apply Nat.eq_of_testBit_eq
      intro j
      simp only [Nat.testBit_and, Nat.testBit_two_pow, Nat.zero_testBit]
      by_cases e : k = j
      · subst e; simp [h']
      · simp [e]
    simp [this]

theorem word_setWord (s : BitSet) (k k' w : Nat) (hk : k < 4) (hk' : k' < 4) :
    word (setWord s k w) k' = if k' = k then w else word s k' := by
  have : k = 0 ∨ k = 1 ∨ k = 2 ∨ k = 3 := by omega
  have : k' = 0 ∨ k' = 1 ∨ k' = 2 ∨ k' = 3 := by omega
  rcases ‹k = 0 ∨ k = 1 ∨ k = 2 ∨ k = 3› with rfl | rfl | rfl | rfl <;>
    rcases ‹k' = 0 ∨ k' = 1 ∨ k' = 2 ∨ k' = 3› with rfl | rfl | rfl | rfl <;> simp [word, setWord]

/-- C17: set/isSet behave like a set of ranks below 256 -/
theorem bitset_spec (s : BitSet) (v w : Nat) (hv : v < 256) (hw : w < 256) :
    bsIsSet (bsSet s v) w = (decide (w = v) || bsIsSet s w) := by
  unfold bsIsSet bsSet
  have h6 : v >>> 6 < 4 := by rw [Nat.shiftRight_eq_div_pow]; omega
  have h6' : w >>> 6 < 4 := by rw [Nat.shiftRight_eq_div_pow]; omega
  rw [word_setWord s _ _ _ h6 h6', and_one_shift, and_one_shift]
  have hvm : v &&& 0x3F = v % 64 := by
    have := Nat.and_two_pow_sub_one_eq_mod v 6; simpa using this
  have hwm : w &&& 0x3F = w % 64 := by
    have := Nat.and_two_pow_sub_one_eq_mod w 6; simpa using this
  rw [hvm, hwm]
  by_cases hk : w >>> 6 = v >>> 6
  · simp only [hk, ↓reduceIte, Nat.testBit_or]
    rw [Nat.one_shiftLeft, Nat.testBit_two_pow]
    rw [Nat.shiftRight_eq_div_pow, Nat.shiftRight_eq_div_pow] at hk
    by_cases e : w = v
    · subst e; simp
    · have : ¬ v % 64 = w % 64 := by omega
      simp [e, this]
  · simp only [hk, ↓reduceIte]
    have : ¬ w = v := by intro e; subst e; exact hk rfl
    simp [this]

#print axioms pointer_roundtrip
#print axioms bitset_spec

namespace Sql
/-! ### internal/io/sql/column.go: Scan state machine -/
inductive V | int (i : Int) | float (f : Nat) | bool (b : Bool) | str (s : String) | null
deriving DecidableEq, Repr
inductive Kind | invalid | int | float | bool | str deriving DecidableEq, Repr
/-- cells as stored: NaN / nil pointer are `none` -/
structure Col where
  kind : Kind := .invalid
  nulls : Nat := 0
  ints : List Int := []
  floats : List (Option Nat) := []
  bools : List Bool := []
  strs : List (Option String) := []
deriving Repr

def scan (c : Col) (v : V) : Option Col :=
  match v with
  | .int i => some (if c.kind = .invalid then { c with kind := .int, ints := c.ints ++ [i] } else { c with ints := c.ints ++ [i] })
  | .bool b => some (if c.kind = .invalid then { c with kind := .bool, bools := c.bools ++ [b] } else { c with bools := c.bools ++ [b] })
  | .float f =>
    some (if c.kind = .invalid then
        { c with kind := .float, floats := c.floats ++ List.replicate c.nulls none ++ [some f], nulls := 0 }
      else { c with floats := c.floats ++ [some f] })
  | .str s =>
    some (if c.kind = .invalid then
        { c with kind := .str, strs := c.strs ++ List.replicate c.nulls none ++ [some s], nulls := 0 }
      else { c with strs := c.strs ++ [some s] })
  | .null =>
    match c.kind with
    | .invalid => some { c with nulls := c.nulls + 1 }
    | .float => some { c with floats := c.floats ++ [none] }
    | .str => some { c with strs := c.strs ++ [none] }
    | _ => none            -- "non-nullable type"

def scanAll (vs : List V) : Option Col := vs.foldlM scan {}

/-- a text column: every value is a string or NULL -/
def isStrOrNull : V → Bool | .str _ => true | .null => true | _ => false
def toStrCell : V → Option String | .str s => some s | _ => none

/-- once the column is a text column, every further string/NULL is appended as is -/
theorem scan_text_str : ∀ (vs : List V) (c : Col), (∀ v ∈ vs, isStrOrNull v = true) → c.kind = .str →
    ∃ c', vs.foldlM scan c = some c' ∧ c'.kind = .str ∧ c'.strs = c.strs ++ vs.map toStrCell := by
  intro vs
  induction vs with
  | nil => intro c _ hk; exact ⟨c, rfl, hk, by simp⟩
  | cons v vs ih =>
    intro c hall hk
    have hv := hall v (by simp)
    have hall' : ∀ v ∈ vs, isStrOrNull v = true := fun v h => hall v (by simp [h])
    cases v with
    | int _ | float _ | bool _ => simp [isStrOrNull] at hv
    | str s =>
      have hs : scan c (.str s) = some { c with strs := c.strs ++ [some s] } := by simp [scan, hk]
      obtain ⟨c', hf, k, e⟩ := ih { c with strs := c.strs ++ [some s] } hall' hk
      exact ⟨c', by rw [List.foldlM_cons, hs]; exact hf, k, by rw [e]; simp [toStrCell]⟩
    | null =>
      have hs : scan c .null = some { c with strs := c.strs ++ [none] } := by simp [scan, hk]
      obtain ⟨c', hf, k, e⟩ := ih { c with strs := c.strs ++ [none] } hall' hk
      exact ⟨c', by rw [List.foldlM_cons, hs]; exact hf, k, by rw [e]; simp [toStrCell]⟩

/-- before the first non-NULL value: NULLs are counted, then back-filled -/
theorem scan_text_inv : ∀ (vs : List V) (c : Col), (∀ v ∈ vs, isStrOrNull v = true) → c.kind = .invalid → c.strs = [] →
    (∃ v ∈ vs, v ≠ .null) →
    ∃ c', vs.foldlM scan c = some c' ∧ c'.kind = .str ∧ c'.strs = List.replicate c.nulls none ++ vs.map toStrCell := by
  intro vs
  induction vs with
  | nil => intro c _ _ _ h; obtain ⟨v, hv, _⟩ := h; simp at hv
  | cons v vs ih =>
    intro c hall hk hst hsome
    have hv := hall v (by simp)
    have hall' : ∀ v ∈ vs, isStrOrNull v = true := fun v h => hall v (by simp [h])
    cases v with
    | int _ | float _ | bool _ => simp [isStrOrNull] at hv
    | str s =>
      have hs : scan c (.str s) = some { c with kind := .str, strs := c.strs ++ List.replicate c.nulls none ++ [some s], nulls := 0 } := by
        simp [scan, hk]
      obtain ⟨c', hf, k, e⟩ := scan_text_str vs
        { c with kind := .str, strs := c.strs ++ List.replicate c.nulls none ++ [some s], nulls := 0 } hall' rfl
      exact ⟨c', by rw [List.foldlM_cons, hs]; exact hf, k, by rw [e]; simp [toStrCell, hst]⟩
    | null =>
      have hs : scan c .null = some { c with nulls := c.nulls + 1 } := by simp [scan, hk]
      have hsome' : ∃ v ∈ vs, v ≠ .null := by
        obtain ⟨v, hv, hne⟩ := hsome
        rcases List.mem_cons.mp hv with rfl | h
        · exact absurd rfl hne
        · exact ⟨v, h, hne⟩
      obtain ⟨c', hf, k, e⟩ := ih { c with nulls := c.nulls + 1 } hall' hk hst hsome'
      exact ⟨c', by rw [List.foldlM_cons, hs]; exact hf, k, by rw [e]; simp [toStrCell, List.replicate_succ']⟩

/-- C19: scanning a text column with NULLs anywhere (also leading) reproduces the sequence -/
theorem scan_text (vs : List V) (hall : ∀ v ∈ vs, isStrOrNull v = true) (hsome : ∃ v ∈ vs, v ≠ .null) :
    ∃ c, scanAll vs = some c ∧ c.kind = .str ∧ c.strs = vs.map toStrCell := by
  obtain ⟨c', hf, k, e⟩ := scan_text_inv vs {} hall rfl rfl hsome
  exact ⟨c', hf, k, by simpa using e⟩

#print axioms scan_text
end Sql
end Small
