import QF.Core.STExpr
/-!
# ST — symbolic execution of terms of `QF.ST`

One lemma per statement form (`exec_*`; loops keep their step function folded so that the loop lemmas can be stated by
induction) and the tactic `st_simp […]` that runs a term on a symbolic store with them. Used by the Props files about
`QF.Gen.stringsFns` (C08PointerGen, C14QuoteGen, C18UpperGen, C18FilterGen).
-/
namespace QF.ST

theorem set_apply (σ : Store) (v w : Var) (x : Val) : σ.set v x w = if w = v then some x else σ w := rfl

theorem set_set (σ : Store) (v : Var) (x y : Val) : (σ.set v x).set v y = σ.set v y := by
  funext w; simp only [Store.set]; split <;> rfl

/-- the step function of a loop with body `body` -/
def stepOf (Γ : Env) (body : S) (σ : Store) : Out := body.exec Γ σ

section exec
variable (Γ : Env) (σ : Store)
theorem exec_skip : S.skip.exec Γ σ = .next σ := rfl
theorem exec_block_nil : (S.block []).exec Γ σ = .next σ := rfl
theorem exec_block_cons (s : S) (ss : List S) :
    (S.block (s :: ss)).exec Γ σ = (match s.exec Γ σ with | .next σ' => (S.block ss).exec Γ σ' | r => r) := rfl
theorem exec_seq (a b : S) : (S.seq a b).exec Γ σ = (match a.exec Γ σ with | .next σ' => b.exec Γ σ' | r => r) := rfl
theorem exec_assign (l : L) (e : E) : (S.assign l e).exec Γ σ = Out.ofRes (e.eval Γ σ) fun x => .next (assignL σ l x) := rfl
theorem exec_setAt (v : Var) (i e : E) : (S.setAt v i e).exec Γ σ =
    Out.ofRes (i.eval Γ σ) fun iv => Out.ofRes (asIndex iv) fun n => Out.ofRes (e.eval Γ σ) fun x =>
      match σ v, x with
      | some (.bytes (some b)), .byte c =>
        if 0 ≤ n ∧ n < b.length then .next (σ.set v (.bytes (some (b.set n.toNat c)))) else .panic .index
      | some (.bytes none), .byte _ => .panic .index
      | some (.bools l), .bool c =>
        if 0 ≤ n ∧ n < l.length then .next (σ.set v (.bools (l.set n.toNat c))) else .panic .index
      | _, _ => .stuck := rfl
theorem exec_copy (n : L) (v : Var) (src : E) : (S.copy n v src).exec Γ σ =
    Out.ofRes (src.eval Γ σ) fun s =>
      match σ v, s.bytesOf with
      | some (.bytes o), some t =>
        let k := min (o.getD []).length t.length
        .next (assignL (σ.set v (.bytes (o.map fun b => overwrite b 0 (t.take k)))) n (.int k))
      | _, _ => .stuck := rfl
theorem exec_encodeRune (n : L) (v : Var) (off r : E) : (S.encodeRune n v off r).exec Γ σ =
    Out.ofRes (off.eval Γ σ) fun ov => Out.ofRes (asInt ov) fun o => Out.ofRes (r.eval Γ σ) fun rv =>
      match σ v, rv with
      | some (.bytes (some b)), .rune x =>
        if 0 ≤ o ∧ o ≤ b.length then
          (if o.toNat + (Γ.encode x).length ≤ b.length then
            .next (assignL (σ.set v (.bytes (some (overwrite b o.toNat (Γ.encode x))))) n (.int (Γ.encode x).length))
           else .panic .index)
        else .panic .slice
      | _, _ => .stuck := rfl
theorem exec_decodeRune (r w : L) (s : E) : (S.decodeRune r w s).exec Γ σ =
    Out.ofRes (s.eval Γ σ) fun x =>
      match x with
      | .str t => .next (assignL (assignL σ r (.rune (Γ.decode t).1)) w (.int (Γ.decode t).2))
      | _ => .stuck := rfl
theorem exec_newMatcher (m er : L) (pat cs : E) : (S.newMatcher m er pat cs).exec Γ σ =
    Out.ofRes (pat.eval Γ σ) fun p => Out.ofRes (cs.eval Γ σ) fun c =>
      match p, c with
      | .str t, .bool b =>
        (match Γ.newMatcher t b with
         | .ok f => .next (assignL (assignL σ m (.matcher f)) er (.err none))
         | .error e => .next (assignL (assignL σ m (.matcher fun _ => false)) er (.err (some e))))
      | _, _ => .stuck := rfl
theorem exec_stringAt (s isNull : L) (col i : E) : (S.stringAt s isNull col i).exec Γ σ =
    Out.ofRes (col.eval Γ σ) fun c => Out.ofRes (i.eval Γ σ) fun iv => Out.ofRes (asIndex iv) fun n =>
      match c with
      | .col cells =>
        if 0 ≤ n ∧ n < cells.length then
          (match cells[n.toNat]! with
           | some t => .next (assignL (assignL σ s (.str t)) isNull (.bool false))
           | none => .next (assignL (assignL σ s (.str [])) isNull (.bool true)))
        else .panic .index
      | _ => .stuck := rfl
theorem exec_bsSet (v : Var) (e : E) : (S.bsSet v e).exec Γ σ =
    Out.ofRes (e.eval Γ σ) fun x =>
      match σ v, x with
      | some (.bitset (some b)), .byte c => .next (σ.set v (.bitset (some (Small.bsSet b c.toNat))))
      | _, _ => .stuck := rfl
theorem exec_ite (c : E) (t e : S) : (S.ite c t e).exec Γ σ =
    Out.ofRes (c.eval Γ σ) fun x =>
      match x with
      | .bool true => t.exec Γ σ
      | .bool false => e.exec Γ σ
      | _ => .stuck := rfl
theorem exec_loop (body : S) : (S.loop body).exec Γ σ = iter (stepOf Γ body) Γ.fuel σ := rfl
theorem exec_rangeStr (i c : L) (s : E) (body : S) : (S.rangeStr i c s body).exec Γ σ =
    Out.ofRes (s.eval Γ σ) fun x =>
      match x with
      | .str t => iterStr Γ.decode i c (stepOf Γ body) t (t.length + 1) 0 σ
      | _ => .stuck := rfl
theorem exec_rangeVar (i x : L) (v : Var) (body : S) : (S.rangeVar i x v body).exec Γ σ =
    (match σ v with
     | some s => (match s.len with
                  | some n => iterVar i x v (stepOf Γ body) n n 0 σ
                  | none => .stuck)
     | none => .stuck) := rfl
theorem exec_brk : S.brk.exec Γ σ = .brk σ := rfl
theorem exec_cont : S.cont.exec Γ σ = .cont σ := rfl
theorem exec_ret (es : List E) : (S.ret es).exec Γ σ = Out.ofRes (evalList Γ σ es) fun vs => .ret σ vs := rfl
end exec

/-- what a round of a loop leaves to the following rounds -/
def contK (step : Store → Out) (k : Nat) : Out → Out
  | .next σ => iter step k σ
  | .cont σ => iter step k σ
  | .brk σ => .next σ
  | r => r

theorem iter_succ (step : Store → Out) (k : Nat) (σ : Store) : iter step (k + 1) σ = contK step k (step σ) := by
  rw [iter]; cases step σ <;> rfl

/-- a round that goes on to the next one -/
def GoesOn (o : Out) (σ' : Store) : Prop := o = .cont σ' ∨ o = .next σ'

theorem contK_goesOn (step : Store → Out) (k : Nat) (o : Out) (σ' : Store) (h : GoesOn o σ') : contK step k o = iter step k σ' := by
  rcases h with h | h <;> rw [h] <;> rfl

/-- symbolic execution of the statement forms (loops stay folded) and of expressions; bounds checks are decided by `omega` -/
macro "st_simp" " [" ts:Lean.Parser.Tactic.simpLemma,* "]" : tactic =>
  `(tactic| simp (disch := omega) only [exec_block_nil, exec_block_cons, exec_skip, exec_seq, exec_assign, exec_setAt, exec_copy,
      exec_encodeRune, exec_decodeRune, exec_newMatcher, exec_stringAt, exec_bsSet, exec_ite, exec_loop, exec_rangeStr, exec_rangeVar,
      exec_brk, exec_cont, exec_ret, E.eval, evalList, bindArgs, set_apply, set_set, Nat.reduceEqDiff, Bool.false_and, Bool.true_and, Bool.and_false, Bool.and_true, ↓reduceIte, assignL, lenOf, asInt, asBool,
      asIndex, arith, ST.compare, COp.holds, COp.holdsN, COp.holdsB, COp.same, shiftCount, shlV, shrV, bandV, borV, convV, Val.len,
      Val.index, Val.slice, Val.bytesOf, Res.bind_ok, Res.bind_panic, Res.bind_stuck, Out.ofRes_ok, Out.ofRes_panic, Out.ofRes_stuck,
      if_pos, if_neg, decide_eq_true, decide_eq_false, Int.toNat_natCast, Int.toNat_zero, Int.reduceToNat, Nat.sub_zero, Option.map_some, Option.map_none,
      Option.getD_some, Option.getD_none, Option.isNone_some, Option.isNone_none, List.length_nil, List.length_cons, Nat.zero_add,
      Nat.add_zero, and_self, and_true, true_and, decide_true, decide_false, Bool.not_true, Bool.not_false, ite_true, ite_false,
      decide_eq_true_eq, Bool.true_eq_false, Bool.false_eq_true, reduceCtorEq, not_false_eq_true, not_true_eq_false,
      Bool.decide_eq_true, Option.some.injEq, $ts,*])

end QF.ST
