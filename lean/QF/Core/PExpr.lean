import QF.Spec.Ops
/-!
# PF / PStm / PA — the language of the INDEX and COLUMN-LIST work of the projection and ordering operations, and its Go semantics

After their guard prefixes (`QF.Gen.guardAst`, QF/Core/GExpr.lean) the operations of /repo/qframe.go

    Slice · Select · Drop · Copy (→ setColumn) · Sort · Distinct            and the helpers withErr · withIndex,

`Int.Copy`, `Int.Filter`, `NewAscending`, `NewBool`, `Int.Len`, `Bool.Len` of internal/index and `Distinct` of
internal/grouper do their real work on three kinds of storage: the ROW INDEX (`index.Int`, a slice of physical row
numbers), the COLUMN LIST (`[]namedColumn`) and the NAME MAP (`map[string]namedColumn`). go/cmd/extract/pxast.go
translates those bodies — every statement that is not a rejecting guard — into terms of the small language below and
writes them to `QF/Gen/Project.lean` on every run.

Terms name things by ROLE, never by identifier:

* storage: `recv` is the receiver's field of that kind (found by its TYPE in `type QFrame struct`), `new` the slice / map
  the function itself made (`make`, or the result of a call that returns one), `param` a parameter of that type;
* names: `dst` / `src` the first / second `string` parameter, `requested` the variadic `...string`, `kept` the local
  `[]string` the function appends to, `each` the loop variable;
* elements (`namedColumn` values): `reg a` / `reg b` the first / second local bound by a look-up in the name map on the
  path, `eachCol` the loop variable over a column list, `mk name column pos` a composite literal (fields found by type:
  the `string`, the embedded `column.Column`, the `int`);
* ints: `start` / `stop` the first / second `int` parameter, `i` the loop index, `size` a `uint32` / `int` size parameter.

Local `int` variables and `if … else` on the outcome of a look-up are executed symbolically (the function FORKS:
`PF.fork`), helper methods that only build a frame literal (`withErr`, `withIndex`) and tail calls that forward the
request (`Copy` → `setColumn`) are inlined. Whatever is not understood becomes `.opaque "<text>"`: such a term has no value.

## Semantics

Evaluation is on an abstract PHYSICAL frame: a `Heap` of backing arrays with allocation ids (three kinds: index arrays,
column lists, name maps) and Go slice headers (`ISlice`: array id, offset, length, capacity) — so sharing, re-slicing,
`append` within / beyond the capacity and `copy` mean what they mean in Go. Columns are arrays of cells over PHYSICAL rows
(`PXCol`); the logical frame of a physical one is `PFrame.abs`: the cells at the index's row numbers.

Every modification of an existing array is LOGGED (`Wr`: kind and id). The persistence statement of C01 — an operation
writes only to arrays it allocated itself — is a statement about that log, read off the regenerated code.
-/
namespace QF

/-! ## Physical frames -/

/-- A column as stored: cells over PHYSICAL rows. -/
structure PXCol where
  ty : CType
  vals : List Bytes := []
  strict : Bool := false
  data : Array Cell
  deriving Repr, Inhabited, DecidableEq

/-- Go `namedColumn`; `col = none` is the nil `column.Column` of the zero value. -/
structure NCol where
  name : Bytes
  pos : Nat
  col : Option PXCol
  deriving Repr, Inhabited, DecidableEq

/-- the zero value of `namedColumn` (`make([]namedColumn, n)`, a missing map key) -/
def NCol.zero : NCol := ⟨[], 0, none⟩

inductive Kind where
  | ix | cols | map
  deriving DecidableEq, Repr, Inhabited

/-- A write into an array that exists: which kind, which allocation id. -/
structure Wr where
  kind : Kind
  id : Nat
  deriving DecidableEq, Repr, Inhabited

/-- Backing arrays by allocation id (allocation appends). A map is an association list, first match wins. -/
structure Heap where
  ixs : List (List Nat)
  colss : List (List NCol)
  maps : List (List (Bytes × NCol))
  deriving Repr, Inhabited, DecidableEq

/-- Go slice header of an `index.Int`. -/
structure ISlice where
  id : Nat
  off : Nat
  len : Nat
  cap : Nat
  deriving Repr, Inhabited, DecidableEq

/-- Go slice header of a `[]namedColumn` (never re-sliced from the front here). -/
structure CSlice where
  id : Nat
  len : Nat
  cap : Nat
  deriving Repr, Inhabited, DecidableEq

/-- nil slices: no capacity, so `append` allocates -/
def ISlice.nil : ISlice := ⟨0, 0, 0, 0⟩
def CSlice.nil : CSlice := ⟨0, 0, 0⟩

/-- Go `QFrame`: three headers and the error (`err = true`: `Err != nil`). `map = none` is the nil map. -/
structure PFrame where
  cols : CSlice
  map : Option Nat
  index : ISlice
  err : Bool
  deriving Repr, Inhabited, DecidableEq

namespace Heap
def ixArr (h : Heap) (id : Nat) : List Nat := h.ixs.getD id []
def colArr (h : Heap) (id : Nat) : List NCol := h.colss.getD id []
def mapArr (h : Heap) (id : Nat) : List (Bytes × NCol) := h.maps.getD id []
/-- the elements a slice header denotes -/
def ixWin (h : Heap) (s : ISlice) : List Nat := ((h.ixArr s.id).drop s.off).take s.len
def colWin (h : Heap) (s : CSlice) : List NCol := (h.colArr s.id).take s.len
def setIx (h : Heap) (id : Nat) (a : List Nat) : Heap := { h with ixs := h.ixs.set id a }
def setCols (h : Heap) (id : Nat) (a : List NCol) : Heap := { h with colss := h.colss.set id a }
def setMap (h : Heap) (id : Nat) (a : List (Bytes × NCol)) : Heap := { h with maps := h.maps.set id a }
/-- the bindings of a map value (`none`: the nil map, which has none) -/
def mapOf (h : Heap) : Option Nat → List (Bytes × NCol)
  | some id => h.mapArr id
  | none => []
/-- `m[k]`, comma-ok form -/
def mapGet (h : Heap) (m : Option Nat) (k : Bytes) : Option NCol := (h.mapOf m).lookup k
end Heap

/-- overwrite `vals.length` elements of `arr` from position `off` on -/
def setWin {α : Type} (arr : List α) (off : Nat) (vals : List α) : List α :=
  arr.take off ++ vals ++ arr.drop (off + vals.length)

/-- the cell of a stored column at a physical row (the nil column of a zero value has none: a default) -/
def NCol.cellAt (c : NCol) (r : Nat) : Cell :=
  match c.col with
  | some p => p.data[r]!
  | none => default

/-- the logical column of a stored one under a row index: its cells at the index's row numbers, in that order -/
def lcol (ix : List Nat) (c : NCol) : LCol :=
  { name := c.name, ty := (c.col.map (·.ty)).getD .undef, vals := (c.col.map (·.vals)).getD [],
    strict := (c.col.map (·.strict)).getD false, cells := (ix.map c.cellAt).toArray }

namespace PFrame
def ixList (h : Heap) (f : PFrame) : List Nat := h.ixWin f.index
def colList (h : Heap) (f : PFrame) : List NCol := h.colWin f.cols
def lookup (h : Heap) (f : PFrame) (k : Bytes) : Option NCol := h.mapGet f.map k
/-- what a user can observe: names, types and the cells in row order -/
def abs (h : Heap) (f : PFrame) : LFrame :=
  { cols := (f.colList h).map (lcol (f.ixList h)), n := (f.ixList h).length }
/-- Go `QFrame{}` -/
def empty : PFrame := ⟨CSlice.nil, none, ISlice.nil, false⟩
end PFrame

/-! ## Terms -/

/-- the two locals a path can bind by a look-up in the name map -/
inductive ERg where
  | a | b
  deriving DecidableEq, Repr, Inhabited

/-- functions that take an index and return one, by role -/
inductive IxFn where
  /-- the method of `index.Int` without parameters that returns an `index.Int` (`Copy`) -/
  | copy
  /-- the function of internal/grouper that takes the index and the comparables and returns an `index.Int` (`Distinct`) -/
  | distinct
  deriving DecidableEq, Repr, Inhabited

/-- lists of names -/
inductive PNs where
  /-- the variadic `...string` parameter -/
  | requested
  /-- the local `[]string` the function appends to -/
  | kept
  deriving DecidableEq, Repr, Inhabited

/-- column lists -/
inductive PCs where
  | recv | new
  deriving DecidableEq, Repr, Inhabited

/-- name maps -/
inductive PMp where
  | recv | new
  deriving DecidableEq, Repr, Inhabited

/-- the error field of a frame literal -/
inductive PEr where
  /-- `Err: qf.Err` -/
  | recv
  /-- the field is left out, or nil -/
  | none
  /-- the `error` parameter (`withErr`) -/
  | param
  deriving DecidableEq, Repr, Inhabited

mutual
/-- int expressions -/
inductive PI where
  | start | stop | i | size
  | lit (n : Nat)
  /-- `len(<names>)` -/
  | countNames (l : PNs)
  /-- `len(<column list>)` -/
  | lenCols (c : PCs)
  /-- `len(x)` / `x.Len()` -/
  | lenIx (x : PIx)
  /-- `len(<the bool index parameter>)` -/
  | lenBools
  /-- `e.pos` — the `int` field of `namedColumn` -/
  | posOf (e : PEl)
  | add (a b : PI)
  /-- the local counter (`count := 0 … count++`) -/
  | count
  /-- the group count the table reports (`stats.GroupCount`) -/
  | groupCount
  | opaque (txt : String)
/-- index expressions -/
inductive PIx where
  | recv | new | param
  /-- `x[a:b]` -/
  | slice (x : PIx) (a b : PI)
/-- `namedColumn` expressions -/
inductive PEl where
  | reg (r : ERg)
  /-- the loop variable of a loop over a column list -/
  | eachCol
  /-- `namedColumn{name: n, Column: c, pos: p}` -/
  | mk (n : PN) (c : PC) (p : PI)
/-- names -/
inductive PN where
  | dst | src | each
  /-- `e.name` — the `string` field of `namedColumn` -/
  | nameOf (e : PEl)
/-- `column.Column` values -/
inductive PC where
  /-- `e.Column` -/
  | colOf (e : PEl)
  /-- the `column.Column` parameter (`setColumn` on its own) -/
  | param
end

deriving instance DecidableEq, Repr for PI, PIx, PEl, PN, PC
instance : Inhabited PI := ⟨.lit 0⟩
instance : Inhabited PIx := ⟨.recv⟩
instance : Inhabited PEl := ⟨.eachCol⟩
instance : Inhabited PN := ⟨.dst⟩
instance : Inhabited PC := ⟨.param⟩

/-- `uint32` values stored in an index -/
inductive PU where
  /-- `uint32(i)` -/
  | ofI
  /-- `x[e]` -/
  | ixAt (x : PIx) (e : PI)
  /-- `e.firstPos` of the loop variable over the table entries -/
  | firstPos
  deriving DecidableEq, Repr, Inhabited

inductive PCond where
  /-- `len(<names>) == 0` -/
  | noNames (l : PNs)
  /-- `!set.Contains(n)` where `set` was built from the requested names -/
  | notRequested (n : PN)
  /-- the comma-ok result of the look-up that bound the register -/
  | present (r : ERg)
  /-- the loop variable of a loop over the bool index -/
  | eachBool
  /-- `e.occupied` of the loop variable over the table entries -/
  | occupied
  | opaque (txt : String)
  deriving DecidableEq, Repr, Inhabited

/-- statements without control flow -/
inductive PA where
  /-- `<new> := make(index.Int, len, cap)` -/
  | allocIx (len cap : PI)
  /-- `<new> := fn(x, …)` -/
  | callIx (fn : IxFn) (x : PIx)
  /-- `copy(dst, src)` -/
  | copyIx (dst src : PIx)
  /-- `dst[i] = v` -/
  | ixStore (dst : PIx) (k : PI) (v : PU)
  /-- `<new> = append(src, v)` -/
  | appendIx (src : PIx) (v : PU)
  /-- `sort.New(x, comparables).Sort()`: sorts `x` in place -/
  | sortIx (x : PIx)
  /-- `<new> := make([]namedColumn, n)` -/
  | allocCols (n : PI)
  | copyCols (dst src : PCs)
  /-- `dst[i] = e` -/
  | colStore (dst : PCs) (k : PI) (e : PEl)
  /-- `<new> = append(src, e)` -/
  | appendCol (src : PCs) (e : PEl)
  /-- `<new> := make(map[string]namedColumn, _)` -/
  | allocMap
  /-- `for k, v := range src { dst[k] = v }` -/
  | copyMap (dst src : PMp)
  /-- `dst[k] = e` -/
  | mapPut (dst : PMp) (k : PN) (e : PEl)
  /-- `r, ok := m[k]` -/
  | lookup (r : ERg) (m : PMp) (k : PN)
  /-- `r.pos = e` -/
  | setPos (r : ERg) (e : PI)
  /-- `<kept> := make([]string, 0)` -/
  | initNames
  /-- `<kept> = append(<kept>, n)` -/
  | pushName (n : PN)
  /-- `count := n` -/
  | setCount (n : Nat)
  /-- `count++` -/
  | incCount
  | opaque (txt : String)
  deriving DecidableEq, Repr, Inhabited

/-- statements of a loop body -/
inductive PL where
  | do (a : PA)
  /-- `if c { as }` -/
  | when (c : PCond) (as : List PA)
  deriving DecidableEq, Repr, Inhabited

/-- what a function returns -/
inductive PRet where
  /-- `QFrame{columns: …, columnsByName: …, index: …, Err: …}` -/
  | frame (cols : PCs) (map : PMp) (index : PIx) (err : PEr)
  /-- `QFrame{}` -/
  | emptyFrame
  | ix (x : PIx)
  | int (e : PI)
  /-- `make(index.Bool, n)` -/
  | bools (n : PI)
  /-- `qf.Select(<names>...)`: the whole operation, guards included -/
  | callSelect (l : PNs)
  | opaque (txt : String)
  deriving DecidableEq, Repr, Inhabited

inductive PStm where
  | do (a : PA)
  /-- `for i, x := range <names> { body }` -/
  | forEachName (l : PNs) (body : List PL)
  /-- `for _, c := range <column list> { body }` -/
  | forEachCol (c : PCs) (body : List PL)
  /-- `for i, b := range <the bool index parameter> { body }` -/
  | forEachBool (body : List PL)
  /-- `for i := range x { body }` -/
  | forRangeIx (x : PIx) (body : List PL)
  /-- `for _, e := range <the entries of the table> { body }` -/
  | forEachEntry (body : List PL)
  /-- `if c { return r }` -/
  | retIf (c : PCond) (r : PRet)
  | ret (r : PRet)
  | opaque (txt : String)
  deriving DecidableEq, Repr, Inhabited

/-- a function body from the end of its rejecting guards on -/
inductive PF where
  | seq (ss : List PStm)
  /-- `pre; if c { t } else { e }` where both branches run to a `return` -/
  | fork (pre : List PStm) (c : PCond) (t e : List PStm)
  | opaque (txt : String)
  deriving DecidableEq, Repr, Inhabited

/-! ## Opaque parts -/

mutual
def PI.hasOpaque : PI → Bool
  | .opaque _ => true
  | .lenIx x => x.hasOpaque
  | .posOf e => e.hasOpaque
  | .add a b => a.hasOpaque || b.hasOpaque
  | _ => false
def PIx.hasOpaque : PIx → Bool
  | .slice x a b => x.hasOpaque || a.hasOpaque || b.hasOpaque
  | _ => false
def PEl.hasOpaque : PEl → Bool
  | .mk n c p => n.hasOpaque || c.hasOpaque || p.hasOpaque
  | _ => false
def PN.hasOpaque : PN → Bool
  | .nameOf e => e.hasOpaque
  | _ => false
def PC.hasOpaque : PC → Bool
  | .colOf e => e.hasOpaque
  | _ => false
end

def PU.hasOpaque : PU → Bool
  | .ixAt x e => x.hasOpaque || e.hasOpaque
  | _ => false

def PCond.hasOpaque : PCond → Bool
  | .opaque _ => true
  | .notRequested n => n.hasOpaque
  | _ => false

def PA.hasOpaque : PA → Bool
  | .opaque _ => true
  | .allocIx l c => l.hasOpaque || c.hasOpaque
  | .callIx _ x | .sortIx x => x.hasOpaque
  | .copyIx d s => d.hasOpaque || s.hasOpaque
  | .ixStore d k v => d.hasOpaque || k.hasOpaque || v.hasOpaque
  | .appendIx s v => s.hasOpaque || v.hasOpaque
  | .allocCols n => n.hasOpaque
  | .colStore _ k e => k.hasOpaque || e.hasOpaque
  | .appendCol _ e => e.hasOpaque
  | .mapPut _ k e => k.hasOpaque || e.hasOpaque
  | .lookup _ _ k => k.hasOpaque
  | .setPos _ e => e.hasOpaque
  | .pushName n => n.hasOpaque
  | _ => false

def PL.hasOpaque : PL → Bool
  | .do a => a.hasOpaque
  | .when c as => c.hasOpaque || as.any PA.hasOpaque

def PRet.hasOpaque : PRet → Bool
  | .opaque _ => true
  | .frame _ _ x _ | .ix x => x.hasOpaque
  | .int e | .bools e => e.hasOpaque
  | _ => false

def PStm.hasOpaque : PStm → Bool
  | .opaque _ => true
  | .do a => a.hasOpaque
  | .forEachName _ b | .forEachCol _ b | .forEachBool b | .forEachEntry b => b.any PL.hasOpaque
  | .forRangeIx x b => x.hasOpaque || b.any PL.hasOpaque
  | .retIf c r => c.hasOpaque || r.hasOpaque
  | .ret r => r.hasOpaque

def PF.hasOpaque : PF → Bool
  | .opaque _ => true
  | .seq ss => ss.any PStm.hasOpaque
  | .fork p c t e => p.any PStm.hasOpaque || c.hasOpaque || t.any PStm.hasOpaque || e.any PStm.hasOpaque

/-! ## Evaluation -/

/-- the result of a function -/
inductive PRes where
  | frame (f : PFrame)
  | ix (s : ISlice)
  | int (n : Nat)
  | bools (l : List Bool)
  deriving Repr, Inhabited, DecidableEq

/-- result, heap afterwards, writes into existing arrays -/
abbrev POut := PRes × Heap × List Wr

/-- Everything a function body can read but not change, and the functions it calls. -/
structure PIn where
  /-- the receiver -/
  f : PFrame := PFrame.empty
  start : Int := 0
  stop : Int := 0
  names : List Bytes := []
  dst : Bytes := []
  src : Bytes := []
  /-- the `column.Column` parameter -/
  colParam : Option PXCol := none
  /-- the index parameter (the receiver of the methods of `index.Int`) -/
  ixParam : ISlice := ISlice.nil
  bools : List Bool := []
  size : Nat := 0
  /-- the entries of the table in table order: (occupied, firstPos) -/
  entries : List (Bool × Nat) := []
  groupCount : Nat := 0
  /-- is the `error` parameter non-nil? -/
  errParam : Bool := true
  /-- what the sorter makes of the rows it is given (a parameter: C03 says it is a sorted permutation) -/
  sortFn : List Nat → List Nat := id
  /-- the functions from index to index a body may call -/
  callIx : IxFn → ISlice → Heap → Option (ISlice × Heap × List Wr) := fun _ _ _ => none
  /-- `qf.Select(names...)` as a whole -/
  callSelect : List Bytes → Heap → Option POut := fun _ _ => none
  -- loop variables
  i : Nat := 0
  each : Bytes := []
  eachCol : NCol := NCol.zero
  eachBool : Bool := false
  eachEntry : Bool × Nat := (false, 0)

/-- The mutable state of a function body. -/
structure PMem where
  h : Heap
  /-- the `new` registers: unset until the function makes (or is handed) a slice / map of that kind -/
  nIx : Option ISlice := none
  nCols : Option CSlice := none
  nMap : Option Nat := none
  ea : NCol := NCol.zero
  eb : NCol := NCol.zero
  pa : Bool := false
  pb : Bool := false
  kept : List Bytes := []
  count : Nat := 0
  log : List Wr := []

def PMem.reg (σ : PMem) : ERg → NCol
  | .a => σ.ea
  | .b => σ.eb
def PMem.ok (σ : PMem) : ERg → Bool
  | .a => σ.pa
  | .b => σ.pb
def PMem.setReg (σ : PMem) (r : ERg) (v : NCol) : PMem :=
  match r with
  | .a => { σ with ea := v }
  | .b => { σ with eb := v }
def PMem.bind (σ : PMem) (r : ERg) (v : Option NCol) : PMem :=
  match r with
  | .a => { σ with ea := v.getD NCol.zero, pa := v.isSome }
  | .b => { σ with eb := v.getD NCol.zero, pb := v.isSome }

def PNs.eval (E : PIn) (σ : PMem) : PNs → List Bytes
  | .requested => E.names
  | .kept => σ.kept

def PCs.eval (E : PIn) (σ : PMem) : PCs → Option CSlice
  | .recv => some E.f.cols
  | .new => σ.nCols

def PMp.eval (E : PIn) (σ : PMem) : PMp → Option Nat
  | .recv => E.f.map
  | .new => σ.nMap

mutual
def PI.eval (E : PIn) (σ : PMem) : PI → Option Nat
  | .start => if 0 ≤ E.start then some E.start.toNat else none
  | .stop => if 0 ≤ E.stop then some E.stop.toNat else none
  | .i => some E.i
  | .size => some E.size
  | .lit n => some n
  | .countNames l => some (l.eval E σ).length
  | .lenCols c => (c.eval E σ).map (·.len)
  | .lenIx x => (x.eval E σ).map (·.len)
  | .lenBools => some E.bools.length
  | .posOf e => some (e.eval E σ).pos
  | .add a b =>
    match a.eval E σ, b.eval E σ with
    | some x, some y => some (x + y)
    | _, _ => none
  | .count => some σ.count
  | .groupCount => some E.groupCount
  | .opaque _ => none
def PIx.eval (E : PIn) (σ : PMem) : PIx → Option ISlice
  | .recv => some E.f.index
  | .new => σ.nIx
  | .param => some E.ixParam
  | .slice x a b =>
    match x.eval E σ, a.eval E σ, b.eval E σ with
    | some s, some lo, some hi =>
      -- Go: 0 ≤ lo ≤ hi ≤ cap(s), else panic
      if lo ≤ hi ∧ hi ≤ s.cap then some ⟨s.id, s.off + lo, hi - lo, s.cap - lo⟩ else none
    | _, _, _ => none
def PEl.eval (E : PIn) (σ : PMem) : PEl → NCol
  | .reg r => σ.reg r
  | .eachCol => E.eachCol
  | .mk n c p => ⟨n.eval E σ, (p.eval E σ).getD 0, c.eval E σ⟩
def PN.eval (E : PIn) (σ : PMem) : PN → Bytes
  | .dst => E.dst
  | .src => E.src
  | .each => E.each
  | .nameOf e => (e.eval E σ).name
def PC.eval (E : PIn) (σ : PMem) : PC → Option PXCol
  | .colOf e => (e.eval E σ).col
  | .param => E.colParam
end

def PU.eval (E : PIn) (σ : PMem) : PU → Option Nat
  | .ofI => some E.i
  | .ixAt x e =>
    match x.eval E σ, e.eval E σ with
    | some s, some k => if k < s.len then (σ.h.ixWin s)[k]? else none
    | _, _ => none
  | .firstPos => some E.eachEntry.2

def PCond.eval (E : PIn) (σ : PMem) : PCond → Option Bool
  | .noNames l => some (l.eval E σ).isEmpty
  | .notRequested n => some (!E.names.contains (n.eval E σ))
  | .present r => some (σ.ok r)
  | .eachBool => some E.eachBool
  | .occupied => some E.eachEntry.1
  | .opaque _ => none

/-- `append(s, v)` on an index slice: in place within the capacity (a WRITE into `s`'s array), else a new array -/
def appendIxTo (σ : PMem) (s : ISlice) (v : Nat) : PMem :=
  if s.len < s.cap then
    { σ with h := σ.h.setIx s.id ((σ.h.ixArr s.id).set (s.off + s.len) v), nIx := some { s with len := s.len + 1 },
             log := σ.log ++ [⟨.ix, s.id⟩] }
  else
    { σ with h := { σ.h with ixs := σ.h.ixs ++ [σ.h.ixWin s ++ [v]] }, nIx := some ⟨σ.h.ixs.length, 0, s.len + 1, s.len + 1⟩ }

def appendColTo (σ : PMem) (s : CSlice) (v : NCol) : PMem :=
  if s.len < s.cap then
    { σ with h := σ.h.setCols s.id ((σ.h.colArr s.id).set s.len v), nCols := some { s with len := s.len + 1 },
             log := σ.log ++ [⟨.cols, s.id⟩] }
  else
    { σ with h := { σ.h with colss := σ.h.colss ++ [σ.h.colWin s ++ [v]] }, nCols := some ⟨σ.h.colss.length, s.len + 1, s.len + 1⟩ }

def PA.exec (E : PIn) (σ : PMem) : PA → Option PMem
  | .allocIx l c =>
    match l.eval E σ, c.eval E σ with
    | some n, some k =>
      if n ≤ k then
        some { σ with h := { σ.h with ixs := σ.h.ixs ++ [List.replicate k 0] }, nIx := some ⟨σ.h.ixs.length, 0, n, k⟩ }
      else none
    | _, _ => none
  | .callIx fn x =>
    match x.eval E σ with
    | some s =>
      match E.callIx fn s σ.h with
      | some (r, h', w) => some { σ with h := h', nIx := some r, log := σ.log ++ w }
      | none => none
    | none => none
  | .copyIx d s =>
    match d.eval E σ, s.eval E σ with
    | some ds, some ss =>
      let vals := (σ.h.ixWin ss).take (min ds.len ss.len)
      some { σ with h := σ.h.setIx ds.id (setWin (σ.h.ixArr ds.id) ds.off vals), log := σ.log ++ [⟨.ix, ds.id⟩] }
    | _, _ => none
  | .ixStore d ie v =>
    match d.eval E σ, ie.eval E σ, v.eval E σ with
    | some ds, some k, some x =>
      if k < ds.len then
        some { σ with h := σ.h.setIx ds.id ((σ.h.ixArr ds.id).set (ds.off + k) x), log := σ.log ++ [⟨.ix, ds.id⟩] }
      else none
    | _, _, _ => none
  | .appendIx s v =>
    match s.eval E σ, v.eval E σ with
    | some ss, some x => some (appendIxTo σ ss x)
    | _, _ => none
  | .sortIx x =>
    match x.eval E σ with
    | some s =>
      some { σ with h := σ.h.setIx s.id (setWin (σ.h.ixArr s.id) s.off (E.sortFn (σ.h.ixWin s))), log := σ.log ++ [⟨.ix, s.id⟩] }
    | none => none
  | .allocCols n =>
    match n.eval E σ with
    | some k =>
      some { σ with h := { σ.h with colss := σ.h.colss ++ [List.replicate k NCol.zero] }, nCols := some ⟨σ.h.colss.length, k, k⟩ }
    | none => none
  | .copyCols d s =>
    match d.eval E σ, s.eval E σ with
    | some ds, some ss =>
      let vals := (σ.h.colWin ss).take (min ds.len ss.len)
      some { σ with h := σ.h.setCols ds.id (setWin (σ.h.colArr ds.id) 0 vals), log := σ.log ++ [⟨.cols, ds.id⟩] }
    | _, _ => none
  | .colStore d ie e =>
    match d.eval E σ, ie.eval E σ with
    | some ds, some k =>
      if k < ds.len then
        some { σ with h := σ.h.setCols ds.id ((σ.h.colArr ds.id).set k (e.eval E σ)), log := σ.log ++ [⟨.cols, ds.id⟩] }
      else none
    | _, _ => none
  | .appendCol s e =>
    match s.eval E σ with
    | some ss => some (appendColTo σ ss (e.eval E σ))
    | none => none
  | .allocMap => some { σ with h := { σ.h with maps := σ.h.maps ++ [[]] }, nMap := some σ.h.maps.length }
  | .copyMap d s =>
    match d.eval E σ with
    | some did =>
      -- ranging over a nil map does nothing
      some { σ with h := σ.h.setMap did (σ.h.mapOf (s.eval E σ) ++ σ.h.mapArr did), log := σ.log ++ [⟨.map, did⟩] }
    | none => none
  | .mapPut d k e =>
    match d.eval E σ with
    | some did =>
      some { σ with h := σ.h.setMap did ((k.eval E σ, e.eval E σ) :: σ.h.mapArr did), log := σ.log ++ [⟨.map, did⟩] }
    | none => none
  | .lookup r m k => some (σ.bind r (σ.h.mapGet (m.eval E σ) (k.eval E σ)))
  | .setPos r e =>
    match e.eval E σ with
    | some p => some (σ.setReg r { σ.reg r with pos := p })
    | none => none
  | .initNames => some { σ with kept := [] }
  | .pushName n => some { σ with kept := σ.kept ++ [n.eval E σ] }
  | .setCount n => some { σ with count := n }
  | .incCount => some { σ with count := σ.count + 1 }
  | .opaque _ => none

def execAs (E : PIn) : List PA → PMem → Option PMem
  | [], σ => some σ
  | a :: as, σ =>
    match a.exec E σ with
    | some σ' => execAs E as σ'
    | none => none

def PL.exec (E : PIn) (σ : PMem) : PL → Option PMem
  | .do a => a.exec E σ
  | .when c as =>
    match c.eval E σ with
    | some true => execAs E as σ
    | some false => some σ
    | none => none

def execLs (E : PIn) : List PL → PMem → Option PMem
  | [], σ => some σ
  | l :: ls, σ =>
    match l.exec E σ with
    | some σ' => execLs E ls σ'
    | none => none

/-- a `for … range` loop: the body once per element, in order, with the loop variables set by `bindv` -/
def loopOver {α : Type} (body : List PL) (E : PIn) (bindv : PIn → Nat → α → PIn) : List α → Nat → PMem → Option PMem
  | [], _, σ => some σ
  | x :: xs, k, σ =>
    match execLs (bindv E k x) body σ with
    | some σ' => loopOver body E bindv xs (k + 1) σ'
    | none => none

def PRet.eval (E : PIn) (σ : PMem) : PRet → Option POut
  | .frame c m x e =>
    match c.eval E σ, x.eval E σ with
    | some cs, some s =>
      let err := match e with | .recv => E.f.err | .none => false | .param => E.errParam
      some (.frame ⟨cs, m.eval E σ, s, err⟩, σ.h, σ.log)
    | _, _ => none
  | .emptyFrame => some (.frame PFrame.empty, σ.h, σ.log)
  | .ix x => (x.eval E σ).map (fun s => (.ix s, σ.h, σ.log))
  | .int e => (e.eval E σ).map (fun n => (.int n, σ.h, σ.log))
  | .bools n => (n.eval E σ).map (fun k => (.bools (List.replicate k false), σ.h, σ.log))
  | .callSelect l =>
    match E.callSelect (l.eval E σ) σ.h with
    | some (r, h', w) => some (r, h', σ.log ++ w)
    | none => none
  | .opaque _ => none

def bindName (E : PIn) (k : Nat) (x : Bytes) : PIn := { E with i := k, each := x }
def bindCol (E : PIn) (k : Nat) (x : NCol) : PIn := { E with i := k, eachCol := x }
def bindBool (E : PIn) (k : Nat) (x : Bool) : PIn := { E with i := k, eachBool := x }
def bindUnit (E : PIn) (k : Nat) (_ : Unit) : PIn := { E with i := k }
def bindEntry (E : PIn) (k : Nat) (x : Bool × Nat) : PIn := { E with i := k, eachEntry := x }

def PStm.step (E : PIn) (σ : PMem) : PStm → Option PMem
  | .do a => a.exec E σ
  | .forEachName l body => loopOver body E bindName (l.eval E σ) 0 σ
  | .forEachCol c body =>
    match c.eval E σ with
    | some cs => loopOver body E bindCol (σ.h.colWin cs) 0 σ
    | none => none
  | .forEachBool body => loopOver body E bindBool E.bools 0 σ
  | .forRangeIx x body =>
    match x.eval E σ with
    | some s => loopOver body E bindUnit (List.replicate s.len ()) 0 σ
    | none => none
  | .forEachEntry body => loopOver body E bindEntry E.entries 0 σ
  | _ => none

/-- a statement list that ends in a `return`; falling off the end has no value -/
def runSs (E : PIn) : List PStm → PMem → Option POut
  | [], _ => none
  | .ret r :: _, σ => r.eval E σ
  | .retIf c r :: ss, σ =>
    match c.eval E σ with
    | some true => r.eval E σ
    | some false => runSs E ss σ
    | none => none
  | .opaque _ :: _, _ => none
  | s :: ss, σ =>
    match s.step E σ with
    | some σ' => runSs E ss σ'
    | none => none

/-- the statements before a fork: no `return` among them -/
def stepSs (E : PIn) : List PStm → PMem → Option PMem
  | [], σ => some σ
  | s :: ss, σ =>
    match s.step E σ with
    | some σ' => stepSs E ss σ'
    | none => none

/-- A function body on a heap: result, heap afterwards, and the writes into arrays that existed. -/
def PF.run (E : PIn) (h : Heap) : PF → Option POut
  | .seq ss => runSs E ss { h := h }
  | .fork pre c t e =>
    match stepSs E pre { h := h } with
    | some σ =>
      match c.eval E σ with
      | some true => runSs E t σ
      | some false => runSs E e σ
      | none => none
    | none => none
  | .opaque _ => none


/-! ## Which statements write only into storage the function made itself -/

/-- The target of every `copy`, store, `append`, in-place sort and map assignment is the `new` slice / map. -/
def PA.ownOnly : PA → Bool
  | .copyIx d _ | .ixStore d _ _ | .appendIx d _ | .sortIx d => d == .new
  | .copyCols d _ | .colStore d _ _ | .appendCol d _ => d == .new
  | .copyMap d _ | .mapPut d _ _ => d == .new
  | _ => true

def PL.ownOnly : PL → Bool
  | .do a => a.ownOnly
  | .when _ as => as.all PA.ownOnly

def PStm.ownOnly : PStm → Bool
  | .do a => a.ownOnly
  | .forEachName _ b | .forEachCol _ b | .forEachBool b | .forRangeIx _ b | .forEachEntry b => b.all PL.ownOnly
  | _ => true

def PF.ownOnly : PF → Bool
  | .seq ss => ss.all PStm.ownOnly
  | .fork p _ t e => p.all PStm.ownOnly && t.all PStm.ownOnly && e.all PStm.ownOnly
  | .opaque _ => true

end QF
