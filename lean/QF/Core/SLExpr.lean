import QF.Core.Sorter
import QF.Core.CExpr
/-!
# SL — the language of the SORTER (/repo/internal/sort/sorter.go), and its Go semantics

    func (s Sorter) Sort() / Len() int / Swap(i, j int) / Less(i, j int) bool
    func insertionSort, siftDown, heapSort, medianOfThree, doPivot, quickSort, maxDepth

go/cmd/extract/sortast.go translates the bodies of these functions, statement by statement, to terms of the small
imperative language below and writes them to `QF/Gen/SorterFns.lean` on every run. The language is generic: integer
variables and arithmetic, `:=`, `=`, `++`, `--`, `if`, three-clause `for` loops with `break` / `continue`, `return` (none,
one or two results), calls of the other translated functions (also recursive ones), and for the `Sorter` value: the
element `s.<index field>[i]`, `len(s.<index field>)`, the parallel assignment `s.<index field>[i], s.<index field>[j] = x, y`,
the `range` over `s.<columns field>` and `c.Compare(x, y)` of an element of it.

Terms name things by ROLE: variables are numbered in the order of their declaration (receiver, parameters, then every
`:=` / `var` / range variable as it occurs in the text); functions are numbered in the order in which a walk of the
source that starts at `Sorter.Sort` meets their first call (`Sort` itself is 0); the two fields of `Sorter` by their
types.

What is NOT in the terms: the cells. `c.Compare(x, y)` is a primitive whose result is taken from a list of abstract
comparators `Cols` on row numbers, one per element of `s.columns` (their meaning is regenerated and proved in
QF/Props/C03Compare.lean).

Idealisation (as in QF.CL and in the hand mirror QF/Core/Sorter.lean): `int` is unbounded. Consequently `uint(x)` has a
meaning only for `x ≥ 0` (the identity) and `int(x)` is the identity. `/` truncates towards zero, `>>` is the
arithmetic shift (floor), an index out of range and a division by zero have no meaning (`stuck`: the Go code panics).

A call runs the body of the function on a fresh store: the arguments, then `.unit` for every variable the body declares
(`Fn.vars` of them in all); the index array is the one state that calls share.

Semantics: `exec n` is the interpreter with `n` levels of fuel (every nesting of statement, loop round or call takes
one); `.timeout` means that the fuel did not suffice, `.stuck` that the program has no meaning. `exec` is monotone in
the fuel (`exec_mono`); `execLim` is its limit and satisfies the unfolding equation `execLim = step execLim`
(`execLim_eq`) from which the equations of the statement forms follow without any fuel.
-/
namespace QF.SL

abbrev Var := Nat
abbrev Ix := Sorter.Ix

inductive COp where
  | lt | le | gt | ge | eq | ne
  deriving DecidableEq, Repr, Inhabited

inductive UOp where
  | not
  /-- `uint(x)` -/
  | toUint
  /-- `int(x)` -/
  | toInt
  /-- `len(<sorter>.<the field of type index.Int>)` -/
  | lenIx
  /-- `<compare result> == column.<constant>` -/
  | resIs (c : CRes)
  deriving DecidableEq, Repr, Inhabited

inductive BOp where
  | add | sub | mul
  /-- `/` on `int`: truncated -/
  | div
  /-- `>>` -/
  | shr
  | cmp (op : COp)
  /-- `<sorter>.<the field of type index.Int>[i]` -/
  | ixAt
  deriving DecidableEq, Repr, Inhabited

/-- Expressions. Functions are named by their number (see the header). A receiver is the first argument. -/
inductive E where
  | var (v : Var)
  | int (n : Int)
  | bool (b : Bool)
  | un (op : UOp) (x : E)
  | bin (op : BOp) (x y : E)
  /-- `a && b` (b is not evaluated when a is false) -/
  | and (x y : E)
  /-- `a || b` (b is not evaluated when a is true) -/
  | or (x y : E)
  /-- `c.Compare(x, y)` for an element `c` of `<sorter>.<the field of type []column.Comparable>` -/
  | compare (c x y : E)
  | call0 (f : Nat)
  | call1 (f : Nat) (a : E)
  | call2 (f : Nat) (a b : E)
  | call3 (f : Nat) (a b c : E)
  | call4 (f : Nat) (a b c d : E)
  | opaque (txt : String)
  deriving DecidableEq, Repr, Inhabited

/-- Statements. A block is `S.block [s₁, …]`. -/
inductive S where
  | skip
  | seq (a b : S)
  /-- `v := e`, `var v T = e`, `var v T` (e the zero value) -/
  | define (v : Var) (e : E)
  /-- `v = e`, `v op= e` -/
  | assign (v : Var) (e : E)
  | incr (v : Var)
  | decr (v : Var)
  /-- `v, w := f(…)` for a function with two results -/
  | define2 (v w : Var) (e : E)
  /-- `f(…)` as a statement -/
  | expr (e : E)
  /-- `s.<index field>[i], s.<index field>[j] = x, y` -/
  | setIx2 (recv i j x y : E)
  | ite (c : E) (t e : S)
  /-- `for ; c; post { body }` (an absent condition is `true`; the init statement stands in front of the loop) -/
  | loop (c : E) (post body : S)
  /-- `for _, v := range s.<the field of type []column.Comparable> { body }` -/
  | rangeCols (recv : E) (v : Var) (body : S)
  | brk
  | cont
  | ret0
  | ret (e : E)
  | ret2 (x y : E)
  | opaque (txt : String)
  deriving DecidableEq, Repr, Inhabited

def S.block : List S → S
  | [] => .skip
  | s :: ss => .seq s (S.block ss)

/-- A translated function: the receiver and the parameters are the variables `0 … params-1`, the variables declared in
the body `params … vars-1`. -/
structure Fn where
  params : Nat
  vars : Nat
  body : S
  deriving DecidableEq, Repr, Inhabited

/-- the functions, by number -/
abbrev Prog := List Fn

def E.hasOpaque : E → Bool
  | .opaque _ => true
  | .un _ x | .call1 _ x => x.hasOpaque
  | .bin _ x y | .and x y | .or x y | .call2 _ x y => x.hasOpaque || y.hasOpaque
  | .compare x y z | .call3 _ x y z => x.hasOpaque || y.hasOpaque || z.hasOpaque
  | .call4 _ x y z w => x.hasOpaque || y.hasOpaque || z.hasOpaque || w.hasOpaque
  | _ => false

def S.hasOpaque : S → Bool
  | .opaque _ => true
  | .seq a b => a.hasOpaque || b.hasOpaque
  | .define _ e | .assign _ e | .define2 _ _ e | .expr e | .ret e => e.hasOpaque
  | .setIx2 r i j x y => r.hasOpaque || i.hasOpaque || j.hasOpaque || x.hasOpaque || y.hasOpaque
  | .ite c t e => c.hasOpaque || t.hasOpaque || e.hasOpaque
  | .loop c p b => c.hasOpaque || p.hasOpaque || b.hasOpaque
  | .rangeCols r _ b => r.hasOpaque || b.hasOpaque
  | .ret2 x y => x.hasOpaque || y.hasOpaque
  | _ => false

/-! ## Values, stores, results -/

inductive Val where
  | int (n : Int)
  | bool (b : Bool)
  /-- the `Sorter` value: its index is THE array of the run, its columns the comparators of the environment -/
  | sorter
  /-- an element of the index: a row number -/
  | row (r : Nat)
  /-- the `k`-th element of `s.columns` -/
  | col (k : Nat)
  | res (r : CRes)
  /-- the two results of a call -/
  | pair (x y : Int)
  | unit
  deriving DecidableEq, Repr, Inhabited

/-- the variables of a function, by number -/
abbrev Store := List Val

def Store.set : Store → Var → Val → Store
  | [], 0, x => [x]
  | [], v + 1, x => .unit :: Store.set [] v x
  | _ :: t, 0, x => x :: t
  | h :: t, v + 1, x => h :: Store.set t v x

/-- the variables and the index array -/
abbrev St := Store × Ix

/-- `Compare(i, j)` of the elements of `s.columns` on row numbers (`none`: no meaning) -/
abbrev Cols := List (Nat → Nat → Option CRes)

inductive R (α : Type) where
  | ok (x : α)
  /-- no meaning: a run-time panic of the Go code (index out of range, division by zero), a value of the wrong kind, or
  a term that was not understood -/
  | stuck
  /-- the fuel did not suffice -/
  | timeout
  deriving DecidableEq, Repr

def R.bind {α β : Type} : R α → (α → R β) → R β
  | .ok x, k => k x
  | .stuck, _ => .stuck
  | .timeout, _ => .timeout

/-- how a statement ends -/
inductive Ctl where
  | next (st : St)
  | brk (st : St)
  | cont (st : St)
  | ret (v : Val) (a : Ix)
  deriving DecidableEq, Repr

def COp.holds : COp → Int → Int → Bool
  | .lt, a, b => a < b
  | .le, a, b => a ≤ b
  | .gt, a, b => a > b
  | .ge, a, b => a ≥ b
  | .eq, a, b => a == b
  | .ne, a, b => a != b

def UOp.apply (a : Ix) : UOp → Val → R Val
  | .not, .bool b => .ok (.bool (!b))
  | .toUint, .int n => if 0 ≤ n then .ok (.int n) else .stuck
  | .toInt, .int n => .ok (.int n)
  | .lenIx, .sorter => .ok (.int a.size)
  | .resIs c, .res r => .ok (.bool (r == c))
  | _, _ => .stuck

def BOp.apply (a : Ix) : BOp → Val → Val → R Val
  | .add, .int x, .int y => .ok (.int (x + y))
  | .sub, .int x, .int y => .ok (.int (x - y))
  | .mul, .int x, .int y => .ok (.int (x * y))
  | .div, .int x, .int y => if y = 0 then .stuck else .ok (.int (x.tdiv y))
  | .shr, .int x, .int k => if k < 0 then .stuck else .ok (.int (x / 2 ^ k.toNat))
  | .cmp op, .int x, .int y => .ok (.bool (op.holds x y))
  | .ixAt, .sorter, .int i => if i < 0 then .stuck else (match a[i.toNat]? with | some r => .ok (.row r) | none => .stuck)
  | _, _, _ => .stuck

/-- `f(args)` on the array: the result and the array afterwards -/
abbrev Call := Nat → List Val → Ix → R (Val × Ix)

/-! ## Expressions -/

def E.eval (call : Call) (cols : Cols) (σ : Store) : E → Ix → R (Val × Ix)
  | .var v, a => match σ[v]? with | some x => .ok (x, a) | none => .stuck
  | .int n, a => .ok (.int n, a)
  | .bool b, a => .ok (.bool b, a)
  | .un op x, a => (x.eval call cols σ a).bind fun r => (op.apply r.2 r.1).bind fun v => .ok (v, r.2)
  | .bin op x y, a =>
    (x.eval call cols σ a).bind fun r => (y.eval call cols σ r.2).bind fun s => (op.apply s.2 r.1 s.1).bind fun v => .ok (v, s.2)
  | .and x y, a =>
    (x.eval call cols σ a).bind fun r =>
      match r.1 with
      | .bool false => .ok (.bool false, r.2)
      | .bool true => (y.eval call cols σ r.2).bind fun s => (match s.1 with | .bool b => .ok (.bool b, s.2) | _ => .stuck)
      | _ => .stuck
  | .or x y, a =>
    (x.eval call cols σ a).bind fun r =>
      match r.1 with
      | .bool true => .ok (.bool true, r.2)
      | .bool false => (y.eval call cols σ r.2).bind fun s => (match s.1 with | .bool b => .ok (.bool b, s.2) | _ => .stuck)
      | _ => .stuck
  | .compare c x y, a =>
    (c.eval call cols σ a).bind fun rc => (x.eval call cols σ rc.2).bind fun rx => (y.eval call cols σ rx.2).bind fun ry =>
      match rc.1, rx.1, ry.1 with
      | .col k, .row i, .row j =>
        (match cols[k]? with
         | some f => (match f i j with | some r => .ok (.res r, ry.2) | none => .stuck)
         | none => .stuck)
      | _, _, _ => .stuck
  | .call0 f, a => call f [] a
  | .call1 f x, a => (x.eval call cols σ a).bind fun r => call f [r.1] r.2
  | .call2 f x y, a =>
    (x.eval call cols σ a).bind fun r => (y.eval call cols σ r.2).bind fun s => call f [r.1, s.1] s.2
  | .call3 f x y z, a =>
    (x.eval call cols σ a).bind fun r => (y.eval call cols σ r.2).bind fun s => (z.eval call cols σ s.2).bind fun t =>
      call f [r.1, s.1, t.1] t.2
  | .call4 f x y z w, a =>
    (x.eval call cols σ a).bind fun r => (y.eval call cols σ r.2).bind fun s => (z.eval call cols σ s.2).bind fun t =>
      (w.eval call cols σ t.2).bind fun u => call f [r.1, s.1, t.1, u.1] u.2
  | .opaque _, _ => .stuck

/-! ## Statements -/

/-- the rounds of `for _, v := range s.columns` -/
def colLoop (step : Nat → St → R Ctl) : List Nat → St → R Ctl
  | [], st => .ok (.next st)
  | k :: ks, st =>
    (step k st).bind fun
      | .next st' => colLoop step ks st'
      | .cont st' => colLoop step ks st'
      | .brk st' => .ok (.next st')
      | .ret v a => .ok (.ret v a)

/-- what a call makes of the way the body ends -/
def wrapRet : Ctl → R (Val × Ix)
  | .next st => .ok (.unit, st.2)
  | .ret v a => .ok (v, a)
  | _ => .stuck

/-- calls, given the meaning `rec` of statements -/
def callOf (P : Prog) (rec : S → St → R Ctl) : Call := fun f args a =>
  match P[f]? with
  | some fn =>
    if args.length = fn.params then (rec fn.body (args ++ List.replicate (fn.vars - fn.params) .unit, a)).bind wrapRet
    else .stuck
  | none => .stuck

/-- after the first statement of a sequence -/
def seqK (rec : S → St → R Ctl) (b : S) : Ctl → R Ctl
  | .next st => rec b st
  | c => .ok c

/-- after the post statement of a loop -/
def postK (rec : S → St → R Ctl) (l : S) : Ctl → R Ctl
  | .next st => rec l st
  | _ => .stuck

/-- after the body of a loop -/
def bodyK (rec : S → St → R Ctl) (l post : S) : Ctl → R Ctl
  | .next st => (rec post st).bind (postK rec l)
  | .cont st => (rec post st).bind (postK rec l)
  | .brk st => .ok (.next st)
  | .ret v a => .ok (.ret v a)

/-- one level of the interpreter, given the meaning `rec` of the statements below it -/
def step (P : Prog) (cols : Cols) (rec : S → St → R Ctl) : S → St → R Ctl
  | .skip, st => .ok (.next st)
  | .seq a b, st => (rec a st).bind (seqK rec b)
  | .define v e, st => (e.eval (callOf P rec) cols st.1 st.2).bind fun r => .ok (.next (st.1.set v r.1, r.2))
  | .assign v e, st => (e.eval (callOf P rec) cols st.1 st.2).bind fun r => .ok (.next (st.1.set v r.1, r.2))
  | .incr v, st => match st.1[v]? with | some (.int n) => .ok (.next (st.1.set v (.int (n + 1)), st.2)) | _ => .stuck
  | .decr v, st => match st.1[v]? with | some (.int n) => .ok (.next (st.1.set v (.int (n - 1)), st.2)) | _ => .stuck
  | .define2 v w e, st =>
    (e.eval (callOf P rec) cols st.1 st.2).bind fun r =>
      match r.1 with
      | .pair x y => .ok (.next ((st.1.set v (.int x)).set w (.int y), r.2))
      | _ => .stuck
  | .expr e, st => (e.eval (callOf P rec) cols st.1 st.2).bind fun r => .ok (.next (st.1, r.2))
  | .setIx2 recv i j x y, st =>
    (recv.eval (callOf P rec) cols st.1 st.2).bind fun r0 => (i.eval (callOf P rec) cols st.1 r0.2).bind fun r1 =>
    (j.eval (callOf P rec) cols st.1 r1.2).bind fun r2 => (x.eval (callOf P rec) cols st.1 r2.2).bind fun r3 =>
    (y.eval (callOf P rec) cols st.1 r3.2).bind fun r4 =>
      match r0.1, r1.1, r2.1, r3.1, r4.1 with
      | .sorter, .int i, .int j, .row x, .row y =>
        if 0 ≤ i ∧ i < (r4.2.size : Int) ∧ 0 ≤ j ∧ j < (r4.2.size : Int) then
          .ok (.next (st.1, (r4.2.setIfInBounds i.toNat x).setIfInBounds j.toNat y))
        else .stuck
      | _, _, _, _, _ => .stuck
  | .ite c t e, st =>
    (c.eval (callOf P rec) cols st.1 st.2).bind fun r =>
      match r.1 with
      | .bool true => rec t (st.1, r.2)
      | .bool false => rec e (st.1, r.2)
      | _ => .stuck
  | .loop c post body, st =>
    (c.eval (callOf P rec) cols st.1 st.2).bind fun r =>
      match r.1 with
      | .bool true => (rec body (st.1, r.2)).bind (bodyK rec (.loop c post body) post)
      | .bool false => .ok (.next (st.1, r.2))
      | _ => .stuck
  | .rangeCols recv v body, st =>
    (recv.eval (callOf P rec) cols st.1 st.2).bind fun r =>
      match r.1 with
      | .sorter => colLoop (fun k st' => rec body (st'.1.set v (.col k), st'.2)) (List.range cols.length) (st.1, r.2)
      | _ => .stuck
  | .brk, st => .ok (.brk st)
  | .cont, st => .ok (.cont st)
  | .ret0, st => .ok (.ret .unit st.2)
  | .ret e, st => (e.eval (callOf P rec) cols st.1 st.2).bind fun r => .ok (.ret r.1 r.2)
  | .ret2 x y, st =>
    (x.eval (callOf P rec) cols st.1 st.2).bind fun r => (y.eval (callOf P rec) cols st.1 r.2).bind fun s =>
      match r.1, s.1 with
      | .int p, .int q => .ok (.ret (.pair p q) s.2)
      | _, _ => .stuck
  | .opaque _, _ => .stuck

/-- the interpreter with `n` levels of fuel -/
def exec (P : Prog) (cols : Cols) : Nat → S → St → R Ctl
  | 0 => fun _ _ => .timeout
  | n + 1 => step P cols (exec P cols n)

/-- `f(args)` with `n` levels of fuel below the call -/
def callAt (P : Prog) (cols : Cols) (n : Nat) : Call := callOf P (exec P cols n)

/-! ## Limits -/

/-- `F n` is `L` for all sufficiently large `n` and `.timeout` before (never, if `L` is `.timeout`) -/
def Tends {α : Type} (F : Nat → R α) (L : R α) : Prop :=
  (∀ n, F n = .timeout ∨ F n = L) ∧ (L ≠ .timeout → ∃ N, ∀ n, N ≤ n → F n = L)

theorem tends_const {α : Type} (r : R α) : Tends (fun _ => r) r := ⟨fun _ => .inr rfl, fun _ => ⟨0, fun _ _ => rfl⟩⟩

theorem Tends.unique {α : Type} {F : Nat → R α} {L L' : R α} (h : Tends F L) (h' : Tends F L') : L = L' := by
  by_cases e : L = .timeout
  · by_cases e' : L' = .timeout
    · rw [e, e']
    · obtain ⟨N, hN⟩ := h'.2 e'
      rcases h.1 N with q | q
      · exact absurd ((hN N (Nat.le_refl _)).symm.trans q) e'
      · rw [← q, hN N (Nat.le_refl _)]
  · obtain ⟨N, hN⟩ := h.2 e
    rcases h'.1 N with q | q
    · exact absurd ((hN N (Nat.le_refl _)).symm.trans q) e
    · rw [← q, hN N (Nat.le_refl _)]

theorem Tends.shift {α : Type} {F : Nat → R α} {L : R α} (h : Tends F L) : Tends (fun n => F (n + 1)) L :=
  ⟨fun n => h.1 (n + 1), fun e => by
    obtain ⟨N, hN⟩ := h.2 e
    exact ⟨N, fun n hn => hN (n + 1) (by omega)⟩⟩

theorem tends_bind {α β : Type} {F : Nat → R α} {L : R α} {G : α → Nat → R β} {K : α → R β}
    (h : Tends F L) (hk : ∀ x, Tends (G x) (K x)) : Tends (fun n => (F n).bind (fun x => G x n)) (L.bind K) := by
  refine ⟨fun n => ?_, fun e => ?_⟩
  · rcases h.1 n with q | q
    · left; simp only [q, R.bind]
    · simp only [q]
      cases L with
      | ok x => exact (hk x).1 n
      | stuck => right; rfl
      | timeout => left; rfl
  · cases L with
    | ok x =>
      obtain ⟨N, hN⟩ := h.2 (by simp)
      obtain ⟨M, hM⟩ := (hk x).2 e
      refine ⟨max N M, fun n hn => ?_⟩
      simp only [hN n (by omega), R.bind]
      exact hM n (by omega)
    | stuck =>
      obtain ⟨N, hN⟩ := h.2 (by simp)
      exact ⟨N, fun n hn => by simp only [hN n hn, R.bind]⟩
    | timeout => exact absurd rfl e

/-- a function of the result: `Tends` is kept -/
theorem tends_congr {α : Type} {F G : Nat → R α} {L : R α} (h : Tends F L) (e : ∀ n, G n = F n) : Tends G L := by
  have : G = F := funext e
  rw [this]; exact h

section limits
variable (P : Prog) (cols : Cols)

theorem tends_callOf {rec : Nat → S → St → R Ctl} {L : S → St → R Ctl}
    (h : ∀ s st, Tends (fun n => rec n s st) (L s st)) (f : Nat) (args : List Val) (a : Ix) :
    Tends (fun n => callOf P (rec n) f args a) (callOf P L f args a) := by
  unfold callOf
  cases P[f]? with
  | none => exact tends_const _
  | some fn =>
    simp only
    by_cases e : args.length = fn.params
    · simp only [e, ↓reduceIte]
      exact tends_bind (h _ _) (fun x => tends_const _)
    · simp only [e, ↓reduceIte]
      exact tends_const _

theorem tends_eval {call : Nat → Call} {callL : Call}
    (h : ∀ f args a, Tends (fun n => call n f args a) (callL f args a)) (σ : Store) :
    ∀ (e : E) (a : Ix), Tends (fun n => e.eval (call n) cols σ a) (e.eval callL cols σ a) := by
  intro e
  induction e with
  | var v => intro a; exact tends_const _
  | int n => intro a; exact tends_const _
  | bool b => intro a; exact tends_const _
  | un op x ih => intro a; exact tends_bind (ih a) (fun r => tends_const _)
  | bin op x y ihx ihy => intro a; exact tends_bind (ihx a) (fun r => tends_bind (ihy r.2) (fun s => tends_const _))
  | and x y ihx ihy =>
    intro a
    refine tends_bind (ihx a) (fun r => ?_)
    cases r.1 with
    | bool b => cases b with
      | false => exact tends_const _
      | true => exact tends_bind (ihy r.2) (fun s => tends_const _)
    | _ => exact tends_const _
  | or x y ihx ihy =>
    intro a
    refine tends_bind (ihx a) (fun r => ?_)
    cases r.1 with
    | bool b => cases b with
      | true => exact tends_const _
      | false => exact tends_bind (ihy r.2) (fun s => tends_const _)
    | _ => exact tends_const _
  | compare c x y ihc ihx ihy =>
    intro a
    exact tends_bind (ihc a) (fun rc => tends_bind (ihx rc.2) (fun rx => tends_bind (ihy rx.2) (fun ry => tends_const _)))
  | call0 f => intro a; exact h f [] a
  | call1 f x ihx => intro a; exact tends_bind (ihx a) (fun r => h f _ _)
  | call2 f x y ihx ihy => intro a; exact tends_bind (ihx a) (fun r => tends_bind (ihy r.2) (fun s => h f _ _))
  | call3 f x y z ihx ihy ihz =>
    intro a
    exact tends_bind (ihx a) (fun r => tends_bind (ihy r.2) (fun s => tends_bind (ihz s.2) (fun t => h f _ _)))
  | call4 f x y z w ihx ihy ihz ihw =>
    intro a
    exact tends_bind (ihx a) (fun r => tends_bind (ihy r.2) (fun s => tends_bind (ihz s.2) (fun t =>
      tends_bind (ihw t.2) (fun u => h f _ _))))
  | «opaque» t => intro a; exact tends_const _

theorem tends_colLoop {stepN : Nat → Nat → St → R Ctl} {stepL : Nat → St → R Ctl}
    (h : ∀ k st, Tends (fun n => stepN n k st) (stepL k st)) :
    ∀ (ks : List Nat) (st : St), Tends (fun n => colLoop (stepN n) ks st) (colLoop stepL ks st) := by
  intro ks
  induction ks with
  | nil => intro st; exact tends_const _
  | cons k ks ih =>
    intro st
    refine tends_bind (h k st) (fun c => ?_)
    cases c with
    | next st' => exact ih st'
    | cont st' => exact ih st'
    | brk st' => exact tends_const _
    | ret v a => exact tends_const _

/-- `step` is continuous -/
theorem tends_step {rec : Nat → S → St → R Ctl} {L : S → St → R Ctl}
    (h : ∀ s st, Tends (fun n => rec n s st) (L s st)) (s : S) (st : St) :
    Tends (fun n => step P cols (rec n) s st) (step P cols L s st) := by
  have hc := tends_callOf P h
  have he := fun σ e a => tends_eval cols hc σ e a
  have hpost : ∀ (l : S) (c : Ctl), Tends (fun n => postK (rec n) l c) (postK L l c) := by
    intro l c; cases c <;> first | exact h _ _ | exact tends_const _
  have hbody : ∀ (l post : S) (c : Ctl), Tends (fun n => bodyK (rec n) l post c) (bodyK L l post c) := by
    intro l post c
    cases c with
    | next st' => exact tends_bind (h _ _) (hpost l)
    | cont st' => exact tends_bind (h _ _) (hpost l)
    | brk st' => exact tends_const _
    | ret v a => exact tends_const _
  cases s with
  | skip => exact tends_const _
  | seq a b =>
    refine tends_bind (h a st) (fun c => ?_)
    cases c <;> first | exact h _ _ | exact tends_const _
  | define v e => exact tends_bind (he _ _ _) (fun r => tends_const _)
  | assign v e => exact tends_bind (he _ _ _) (fun r => tends_const _)
  | incr v => exact tends_const _
  | decr v => exact tends_const _
  | define2 v w e => exact tends_bind (he _ _ _) (fun r => tends_const _)
  | expr e => exact tends_bind (he _ _ _) (fun r => tends_const _)
  | setIx2 recv i j x y =>
    exact tends_bind (he _ _ _) (fun r0 => tends_bind (he _ _ _) (fun r1 => tends_bind (he _ _ _) (fun r2 =>
      tends_bind (he _ _ _) (fun r3 => tends_bind (he _ _ _) (fun r4 => tends_const _)))))
  | ite c t e =>
    refine tends_bind (he _ _ _) (fun r => ?_)
    cases r.1 with
    | bool b => cases b <;> exact h _ _
    | _ => exact tends_const _
  | loop c post body =>
    refine tends_bind (he _ _ _) (fun r => ?_)
    cases r.1 with
    | bool b => cases b with
      | false => exact tends_const _
      | true => exact tends_bind (h _ _) (hbody _ _)
    | _ => exact tends_const _
  | rangeCols recv v body =>
    refine tends_bind (he _ _ _) (fun r => ?_)
    cases r.1 with
    | sorter => exact tends_colLoop (fun k st' => h _ _) _ _
    | _ => exact tends_const _
  | brk => exact tends_const _
  | cont => exact tends_const _
  | ret0 => exact tends_const _
  | ret e => exact tends_bind (he _ _ _) (fun r => tends_const _)
  | ret2 x y => exact tends_bind (he _ _ _) (fun r => tends_bind (he _ _ _) (fun s => tends_const _))
  | «opaque» t => exact tends_const _

/-- more fuel does not change a result -/
theorem exec_mono (n : Nat) : ∀ s st, exec P cols n s st = .timeout ∨ exec P cols n s st = exec P cols (n + 1) s st := by
  induction n with
  | zero => intro s st; left; rfl
  | succ n ih =>
    intro s st
    have key := tends_step P cols (rec := fun k => if k = 0 then exec P cols n else exec P cols (n + 1))
      (L := exec P cols (n + 1)) (fun s st => ⟨fun k => by
        by_cases e : k = 0
        · simp only [e, ↓reduceIte]; exact ih s st
        · simp only [e, ↓reduceIte]; right; trivial, fun _ => ⟨1, fun k hk => by
          have : k ≠ 0 := by omega
          simp only [this, ↓reduceIte]⟩⟩) s st
    exact key.1 0

theorem exec_mono_le {n m : Nat} (h : n ≤ m) (s : S) (st : St) :
    exec P cols n s st = .timeout ∨ exec P cols n s st = exec P cols m s st := by
  induction h with
  | refl => right; rfl
  | step _ ih =>
    rcases ih with q | q
    · left; exact q
    · rename_i k _
      rcases exec_mono P cols k s st with q' | q'
      · left; rw [q, q']
      · right; rw [q, q']

open Classical in
/-- the interpreter with all the fuel it asks for (`.timeout`: it never returns) -/
noncomputable def execLim (s : S) (st : St) : R Ctl :=
  if h : ∃ n, exec P cols n s st ≠ .timeout then exec P cols (Classical.choose h) s st else .timeout

theorem tends_exec (s : S) (st : St) : Tends (fun n => exec P cols n s st) (execLim P cols s st) := by
  unfold execLim
  by_cases h : ∃ n, exec P cols n s st ≠ .timeout
  · simp only [h, ↓reduceDIte]
    have hN := Classical.choose_spec h
    refine ⟨fun n => ?_, fun _ => ⟨Classical.choose h, fun n hn => ?_⟩⟩
    · rcases Nat.le_total n (Classical.choose h) with q | q
      · exact exec_mono_le P cols q s st
      · rcases exec_mono_le P cols q s st with q' | q'
        · exact absurd q' hN
        · right; exact q'.symm
    · rcases exec_mono_le P cols hn s st with q' | q'
      · exact absurd q' hN
      · exact q'.symm
  · simp only [h, ↓reduceDIte]
    refine ⟨fun n => ?_, fun e => absurd rfl e⟩
    left
    apply Classical.byContradiction
    intro q
    exact h ⟨n, q⟩

/-- THE unfolding equation: the limit interprets a statement by one `step` over itself -/
theorem execLim_eq (s : S) (st : St) : execLim P cols s st = step P cols (execLim P cols) s st :=
  (tends_exec P cols s st).shift.unique (tends_step P cols (tends_exec P cols) s st)

/-- calls in the limit -/
noncomputable def callLim : Call := callOf P (execLim P cols)

theorem tends_callAt (f : Nat) (args : List Val) (a : Ix) :
    Tends (fun n => callAt P cols n f args a) (callLim P cols f args a) :=
  tends_callOf P (tends_exec P cols) f args a

/-- a result of the limit is the result for all sufficiently large fuel … -/
theorem callLim_ok {f : Nat} {args : List Val} {a : Ix} {r : Val × Ix} (h : callLim P cols f args a = .ok r) :
    ∃ N, ∀ n, N ≤ n → callAt P cols n f args a = .ok r := by
  have := (tends_callAt P cols f args a).2 (by rw [h]; simp)
  rw [h] at this; exact this

/-- … and for no fuel there is another one -/
theorem callAt_cases {f : Nat} {args : List Val} {a : Ix} {r : Val × Ix} (h : callLim P cols f args a = .ok r) (n : Nat) :
    callAt P cols n f args a = .timeout ∨ callAt P cols n f args a = .ok r := by
  have := (tends_callAt P cols f args a).1 n
  rw [h] at this; exact this

end limits

end QF.SL
