import QF.Core.Heap
/-! Prototype C11: small-step interleavings of programs with own writes are race free and deterministic. -/
namespace H

structure Thread (α : Type) where
  prog : Prog α
  priv : Store := []          -- arrays allocated by this thread; global id = base + position

def stepT {α} (base : Nat) (shared : Store) (t : Thread α) : Option (Thread α × Store × Ev) :=
  match t.prog with
  | .ret _ => none
  | .alloc init k => some ({ prog := k (base + t.priv.length), priv := t.priv ++ [init] }, shared, .alloc (base + t.priv.length))
  | .read id k =>
      let v := if id < base then shared.getD id [] else t.priv.getD (id - base) []
      some ({ t with prog := k v }, shared, .read id)
  | .write id v k =>
      if id < base then some ({ t with prog := k }, shared.set id v, .write id)
      else some ({ t with prog := k, priv := t.priv.set (id - base) v }, shared, .write id)

/-- run a schedule (list of thread indices); a step of a finished or missing thread is a no-op -/
def runSched {α} (base : Nat) : List Nat → Store → List (Thread α) → Store × List (Thread α) × List (Nat × Ev)
  | [], sh, ts => (sh, ts, [])
  | i :: σ, sh, ts =>
    match ts[i]? with
    | none => runSched base σ sh ts
    | some t =>
      match stepT base sh t with
      | none => runSched base σ sh ts
      | some (t', sh', ev) =>
        let r := runSched base σ sh' (ts.set i t')
        (r.1, r.2.1, (i, ev) :: r.2.2)

/-- thread run alone for n steps against a fixed shared store -/
def alone {α} (base : Nat) (sh : Store) : Nat → Thread α → Thread α
  | 0, t => t
  | n + 1, t => match stepT base sh t with
    | none => t
    | some (t', _, _) => alone base sh n t'

theorem step_own {α} (base : Nat) (sh : Store) (t t' : Thread α) (sh' : Store) (ev : Ev)
    (h : t.prog.OwnWrites base) (hs : stepT base sh t = some (t', sh', ev)) :
    sh' = sh ∧ t'.prog.OwnWrites base ∧ (∀ id, ev = .write id → base ≤ id) := by
  unfold stepT at hs
  cases hp : t.prog with
  | ret a => rw [hp] at hs; simp at hs
  | alloc init k =>
    rw [hp] at hs h; simp only [Option.some.injEq, Prod.mk.injEq] at hs
    obtain ⟨rfl, rfl, rfl⟩ := hs
    exact ⟨rfl, h _ (by omega), by intro id e; cases e⟩
  | read id k =>
    rw [hp] at hs h; simp only [Option.some.injEq, Prod.mk.injEq] at hs
    obtain ⟨rfl, rfl, rfl⟩ := hs
    exact ⟨rfl, h _, by intro id e; cases e⟩
  | write id v k =>
    rw [hp] at hs h
    obtain ⟨hb, hk⟩ := h
    have : ¬ id < base := Nat.not_lt.mpr hb
    simp only [this, ↓reduceIte, Option.some.injEq, Prod.mk.injEq] at hs
    obtain ⟨rfl, rfl, rfl⟩ := hs
    exact ⟨rfl, hk, by intro id' e; cases e; exact hb⟩

def count (i : Nat) (σ : List Nat) : Nat := (σ.filter (· == i)).length

/-- C11: for every schedule, the shared region is never written (hence no write/any conflict on a shared
    array is possible), and every thread is exactly where it would be after the same number of its own
    steps run alone. -/
theorem interleaving_deterministic {α} (base : Nat) (σ : List Nat) (sh : Store) (ts : List (Thread α))
    (h : ∀ t ∈ ts, t.prog.OwnWrites base) :
    (runSched base σ sh ts).1 = sh ∧
    (∀ i t, ts[i]? = some t → (runSched base σ sh ts).2.1[i]? = some (alone base sh (count i σ) t)) ∧
    (∀ i id, (i, Ev.write id) ∈ (runSched base σ sh ts).2.2 → base ≤ id) := by
  induction σ generalizing ts with
  | nil => simp [runSched, count, alone]
  | cons j σ ih =>
    simp only [runSched]
    cases hj : ts[j]? with
    | none =>
      simp only
      obtain ⟨a, b, c⟩ := ih ts h
      refine ⟨a, fun i t hi => ?_, c⟩
      have : j ≠ i := by intro e; subst e; rw [hj] at hi; cases hi
      have hc : count i (j :: σ) = count i σ := by simp [count, List.filter_cons, this]
      rw [hc]; exact b i t hi
    | some tj =>
      simp only
      cases hst : stepT base sh tj with
      | none =>
        simp only
        obtain ⟨a, b, c⟩ := ih ts h
        refine ⟨a, fun i t hi => ?_, c⟩
        by_cases e : j = i
        · subst e
          rw [hj] at hi; cases hi
          have hc : count j (j :: σ) = count j σ + 1 := by simp [count, List.filter_cons]
          rw [hc]
          have := b j tj hj
          rw [this]
          -- a finished thread stays finished
          have hfix : ∀ n, alone base sh n tj = tj := by
            intro n; cases n <;> simp [alone, hst]
          rw [hfix, hfix]
        · have hc : count i (j :: σ) = count i σ := by simp [count, List.filter_cons, e]
          rw [hc]; exact b i t hi
      | some r =>
        obtain ⟨t', sh', ev⟩ := r
        simp only
        have hjm : tj ∈ ts := List.mem_of_getElem? hj
        obtain ⟨e1, e2, e3⟩ := step_own base sh tj t' sh' ev (h tj hjm) hst
        subst e1
        have h' : ∀ t ∈ ts.set j t', t.prog.OwnWrites base := by
          intro t ht
          rcases List.mem_or_eq_of_mem_set ht with ht | rfl
          · exact h t ht
          · exact e2
        obtain ⟨a, b, c⟩ := ih (ts.set j t') h'
        refine ⟨a, fun i t hi => ?_, ?_⟩
        · by_cases e : j = i
          · subst e
            rw [hj] at hi; cases hi
            have hc : count j (j :: σ) = count j σ + 1 := by simp [count, List.filter_cons]
            rw [hc]
            have hlt : j < ts.length := by
              rcases List.getElem?_eq_some_iff.mp hj with ⟨hlt, _⟩; exact hlt
            have := b j t' (by simp [List.getElem?_set_self hlt])
            rw [this]
            simp [alone, hst]
          · have hc : count i (j :: σ) = count i σ := by simp [count, List.filter_cons, e]
            rw [hc]
            exact b i t (by rw [List.getElem?_set_ne e]; exact hi)
        · intro i id hm
          simp only [List.mem_cons, Prod.mk.injEq] at hm
          rcases hm with ⟨_, rfl⟩ | hm
          · exact e3 id rfl
          · exact c i id hm
#print axioms interleaving_deterministic
end H
