import QF.Spec.Filter
/-!
# KE — the expression language of the filter kernels, and its Go semantics

The filter kernels of the five column packages (`internal/{i,f,b,s,e}column`) all have the form

    for i, x := range bIndex { if !x { <decls>; bIndex[i] = <expr> } }

The extractor (go/cmd/extract/kast.go) translates `<expr>` of every kernel of /repo's current source into a term of
`KE` and writes the list to `QF/Gen/Kernels.lean` on every run. Terms name things by ROLE — "the cell of the column
at `index[i]`", "the constant argument", "the null flag returned by `stringAt`" — never by the Go identifier, so that
renaming a variable or reformatting leaves the term unchanged, while a different operator, a dropped null test or
swapped operands give a different term.

`KE.eval` is the meaning of a term under Go's semantics of the operators at the column's element type:

* int    — Go `int` comparison; `&` on the two's-complement bit patterns (`intBits`, `wrap64`)
* float  — IEEE-754 comparison of the bit patterns (`F64.lt/le/eq`: false as soon as one side is NaN, `!=` is the
           negation of `==`, -0 = +0), `math.IsNaN`
* bool   — `==`, `!=` (Go has no order on bool: other operators have no value)
* string — the pair `s, isNull := c.stringAt(index[i])` (`""`, true for a null cell); byte-wise lexicographic
           comparison of Go strings
* enum   — the cell is an `enumVal` (uint8): the rank of the string in the column's value table, 255 for null;
           `isNull()` tests for 255, `compVal()` maps 255 to -1 and a rank to itself; the constant is the `enumVal` of
           the first table entry equal to the argument, looked up by `filterBuiltIn` before the kernel runs

Custom predicates, `Contains` sets, bitsets and the like-matcher are parameters (`KParams`).
-/
namespace QF

/-- Kernel expressions, by role. -/
inductive KE where
  /-- `column[index[i]]` / `c.data[index[i]]` / first result of `c.stringAt(index[i])` -/
  | cell
  /-- the same for the second column of a column–column comparison -/
  | cell2
  /-- the constant argument (third parameter) -/
  | const
  /-- second result of `c.stringAt(index[i])` -/
  | isNull
  | isNull2
  /-- `c.stringPtrAt(index[i])` (enum columns) -/
  | cellPtr
  | cellPtr2
  | lit (b : Bool)
  | num (n : Nat)
  /-- a further parameter of the function, known only by its position (e.g. `caseSensitive` of `regexFilter`) -/
  | arg (i : Nat)
  /-- no expression: the kernel does not touch the mask -/
  | skip
  /-- Go comparison `a op b`, `op` ∈ `<  <=  >  >=  ==  !=` -/
  | cmp (op : String) (a b : KE)
  | and (a b : KE)
  | or (a b : KE)
  | not (a : KE)
  /-- `math.IsNaN(a)` -/
  | isNaN (a : KE)
  /-- `a & b` -/
  | band (a b : KE)
  /-- `a.isNull()` of an `enumVal` -/
  | nullTest (a : KE)
  /-- `a.compVal()` of an `enumVal` -/
  | rank (a : KE)
  /-- `stringToPtr(s, isNull)` -/
  | ptr (s n : KE)
  /-- `comp.Contains(a)` for the set argument of `in` -/
  | contains (a : KE)
  /-- `bset.isSet(a)` -/
  | bitset (a : KE)
  /-- `m.Matches(a)` for `m, err := qfstrings.NewMatcher(pat, caseSensitive)` -/
  | matches (pat cs a : KE)
  /-- `fn(a)` for the user's predicate -/
  | custom1 (a : KE)
  | custom2 (a b : KE)
  /-- anything the translator does not understand, as normalised source text -/
  | opaque (txt : String)
  deriving DecidableEq, Repr, Inhabited

/-- Go values that occur in kernels. -/
inductive KV where
  | int (v : Int)
  | flt (bits : UInt64)
  | bool (b : Bool)
  | str (s : Bytes)
  /-- `*string` -/
  | ptr (p : Option Bytes)
  /-- `enumVal` -/
  | enum (v : Nat)
  deriving DecidableEq, Repr, Inhabited

/-- What a kernel is given besides the cells. -/
structure KParams where
  /-- custom one-argument predicate, on the cell as the user sees it -/
  fn1 : Cell → Bool := fun _ => false
  fn2 : Cell → Cell → Bool := fun _ _ => false
  /-- the `intSet` of `in` on an int column -/
  ints : List Int := []
  /-- the `StringSet` of `in` on a string column -/
  strs : List Bytes := []
  /-- the bitset of `filterWithBitset` -/
  bset : Nat → Bool := fun _ => false
  /-- `qfstrings.NewMatcher(pat, caseSensitive).Matches(s)` is `lo.isMatch pat (!caseSensitive) s` (subject of C18) -/
  lo : LikeOracle := ⟨fun _ _ => true, fun _ _ _ => false⟩

/-- ecolumn's `nullValue` -/
def enumNull : Nat := 255

/-- The Go value of a cell of a column of type `ty` (for an enum: with value table `vals`). -/
def cellVal (ty : CType) (vals : List Bytes) (x : Cell) : Option KV :=
  match ty, x with
  | .int, .int v => some (.int v)
  | .float, .float b => some (.flt b)
  | .bool, .bool b => some (.bool b)
  | .string, .str s => some (.str (s.getD []))
  | .enum, .str none => some (.enum enumNull)
  | .enum, .str (some s) =>
    match enumRank vals s with
    | some i => if i < enumNull then some (.enum i) else none
    | none => none
  | _, _ => none

/-- `isNull` of `s, isNull := c.stringAt(..)`. -/
def nullFlag (ty : CType) (x : Cell) : Option KV :=
  match ty, x with
  | .string, .str s => some (.bool s.isNone)
  | _, _ => none

/-- `c.stringPtrAt(..)` of an enum column. -/
def cellPtrVal (ty : CType) (vals : List Bytes) (x : Cell) : Option KV :=
  match ty, x with
  | .enum, .str none => some (.ptr none)
  | .enum, .str (some s) => if (cellVal .enum vals x).isSome then some (.ptr (some s)) else none
  | _, _ => none

/-- The Go value of the constant argument as the dispatcher hands it to the kernel. -/
def constVal (ty : CType) (vals : List Bytes) (c : Cell) : Option KV :=
  match ty, c with
  | .int, .int v => some (.int v)
  | .float, .float b => some (.flt b)
  | .bool, .bool b => some (.bool b)
  | .string, .str (some s) => some (.str s)
  | .enum, .str (some s) =>
    match enumRank vals s with
    | some i => if i < enumNull then some (.enum i) else none
    | none => none
  | _, _ => none

def cmpInt (op : String) (a b : Int) : Option Bool :=
  match op with
  | "<" => some (decide (a < b))
  | "<=" => some (decide (a ≤ b))
  | ">" => some (decide (b < a))
  | ">=" => some (decide (b ≤ a))
  | "==" => some (decide (a = b))
  | "!=" => some (!decide (a = b))
  | _ => none

def cmpNat (op : String) (a b : Nat) : Option Bool :=
  match op with
  | "<" => some (decide (a < b))
  | "<=" => some (decide (a ≤ b))
  | ">" => some (decide (b < a))
  | ">=" => some (decide (b ≤ a))
  | "==" => some (decide (a = b))
  | "!=" => some (!decide (a = b))
  | _ => none

def cmpFlt (op : String) (a b : UInt64) : Option Bool :=
  match op with
  | "<" => some (F64.lt a b)
  | "<=" => some (F64.le a b)
  | ">" => some (F64.lt b a)
  | ">=" => some (F64.le b a)
  | "==" => some (F64.eq a b)
  | "!=" => some (!F64.eq a b)
  | _ => none

def cmpBool (op : String) (a b : Bool) : Option Bool :=
  match op with
  | "==" => some (a == b)
  | "!=" => some (a != b)
  | _ => none

def cmpStr (op : String) (a b : Bytes) : Option Bool :=
  match op with
  | "<" => some (bytesCmp a b == .lt)
  | "<=" => some (bytesCmp a b != .gt)
  | ">" => some (bytesCmp a b == .gt)
  | ">=" => some (bytesCmp a b != .lt)
  | "==" => some (decide (a = b))
  | "!=" => some (!decide (a = b))
  | _ => none

def cmpV (op : String) : KV → KV → Option Bool
  | .int a, .int b => cmpInt op a b
  | .flt a, .flt b => cmpFlt op a b
  | .bool a, .bool b => cmpBool op a b
  | .str a, .str b => cmpStr op a b
  | .enum a, .enum b => cmpNat op a b
  | _, _ => none

/-- the cell a custom predicate sees -/
def KV.toCell : KV → Option Cell
  | .int v => some (.int v)
  | .flt b => some (.float b)
  | .bool b => some (.bool b)
  | .ptr p => some (.str p)
  | _ => none

structure KEnv where
  ty : CType
  vals : List Bytes
  P : KParams
  x : Cell
  y : Cell
  c : Cell

def KE.evalV (E : KEnv) : KE → Option KV
  | .cell => cellVal E.ty E.vals E.x
  | .cell2 => cellVal E.ty E.vals E.y
  | .const => constVal E.ty E.vals E.c
  | .isNull => nullFlag E.ty E.x
  | .isNull2 => nullFlag E.ty E.y
  | .cellPtr => cellPtrVal E.ty E.vals E.x
  | .cellPtr2 => cellPtrVal E.ty E.vals E.y
  | .lit b => some (.bool b)
  | .num n => some (.int n)
  | .arg _ => none
  | .skip => none
  | .opaque _ => none
  | .cmp op a b =>
    match a.evalV E, b.evalV E with
    | some u, some v => (cmpV op u v).map .bool
    | _, _ => none
  | .and a b =>
    match a.evalV E, b.evalV E with
    | some (.bool u), some (.bool v) => some (.bool (u && v))
    | _, _ => none
  | .or a b =>
    match a.evalV E, b.evalV E with
    | some (.bool u), some (.bool v) => some (.bool (u || v))
    | _, _ => none
  | .not a =>
    match a.evalV E with
    | some (.bool u) => some (.bool (!u))
    | _ => none
  | .isNaN a =>
    match a.evalV E with
    | some (.flt u) => some (.bool (F64.isNaN u))
    | _ => none
  | .band a b =>
    match a.evalV E, b.evalV E with
    | some (.int u), some (.int v) => some (.int (wrap64 (Int.ofNat (intBits u &&& intBits v))))
    | _, _ => none
  | .nullTest a =>
    match a.evalV E with
    | some (.enum v) => some (.bool (v == enumNull))
    | _ => none
  | .rank a =>
    match a.evalV E with
    | some (.enum v) => some (.int (if v = enumNull then -1 else (v : Int)))
    | _ => none
  | .ptr s n =>
    match s.evalV E, n.evalV E with
    | some (.str u), some (.bool nl) => some (.ptr (if nl then none else some u))
    | _, _ => none
  | .contains a =>
    match a.evalV E with
    | some (.int v) => some (.bool (E.P.ints.contains v))
    | some (.str s) => some (.bool (E.P.strs.contains s))
    | _ => none
  | .bitset a =>
    match a.evalV E with
    | some (.enum v) => some (.bool (E.P.bset v))
    | _ => none
  | .matches pat cs a =>
    match pat.evalV E, cs.evalV E, a.evalV E with
    | some (.str p), some (.bool caseSensitive), some (.str s) => some (.bool (E.P.lo.isMatch p (!caseSensitive) s))
    | _, _, _ => none
  | .custom1 a =>
    match (a.evalV E).bind KV.toCell with
    | some u => some (.bool (E.P.fn1 u))
    | none => none
  | .custom2 a b =>
    match (a.evalV E).bind KV.toCell, (b.evalV E).bind KV.toCell with
    | some u, some v => some (.bool (E.P.fn2 u v))
    | _, _ => none

/-- The value of the kernel's expression for a column of type `ty` (value table `vals`), the column's cell `x`, the
second column's cell `y` and the constant `c`; `none` when the term has no meaning there. -/
def KE.eval (ty : CType) (vals : List Bytes) (P : KParams) (x y c : Cell) (e : KE) : Option Bool :=
  match e.evalV ⟨ty, vals, P, x, y, c⟩ with
  | some (.bool b) => some b
  | _ => none

/-- One mask entry: what a kernel of the given shape leaves in an entry that held `b`, when its expression evaluates to
`ev` there. `guarded`: `if !x { bIndex[i] = e }`; `unguarded`: `bIndex[i] = e`; `noop`: the entry is not touched. -/
def kstep (shape : String) (ev : Option Bool) (b : Bool) : Option Bool :=
  if shape = "guarded" ∨ shape = "guarded+pre" then (if b then some true else ev)
  else if shape = "unguarded" then ev
  else if shape = "noop" then some b
  else none

/-- Does the term contain a part the translator did not understand? -/
def KE.hasOpaque : KE → Bool
  | .opaque _ => true
  | .cmp _ a b | .and a b | .or a b | .band a b | .ptr a b | .custom2 a b => a.hasOpaque || b.hasOpaque
  | .not a | .isNaN a | .nullTest a | .rank a | .contains a | .bitset a | .custom1 a => a.hasOpaque
  | .matches p c a => p.hasOpaque || c.hasOpaque || a.hasOpaque
  | _ => false

end QF
