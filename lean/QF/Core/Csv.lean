/-! L0 mirror of internal/fastcsv/csv.go (bufferedReader with capacity and stale bytes, read schedule, fault position). -/
namespace Csv

abbrev Byte := UInt8

/-- Underlying reader: remaining document, remaining schedule of chunk sizes,
    `eofWithData`: last data-carrying read also reports EOF (handled by wrapper). -/
structure Src where
  rest  : List Byte
  sched : List Nat      -- requested max chunk sizes; when exhausted: deliver all
  failAt : Option Nat := none   -- fail on the k-th Read call (0-based) with a non-EOF error
  calls : Nat := 0
  eofWithData : Bool := false   -- the underlying reader reports EOF together with its last data
  wrapEof : Bool := false       -- eofReaderWrapper.isEof: the underlying reader is not called again
  failWithData : Bool := false  -- the failing call still delivers its bytes together with the error
deriving Repr

inductive RErr | eof | fail deriving Repr, DecidableEq

/-- bufferedReader: `data` holds cap-many bytes (stale beyond len). -/
structure Buf where
  data   : Array Byte    -- size = cap
  len    : Nat
  cursor : Nat
  src    : Src
deriving Repr

def Src.read (s : Src) (room : Nat) : (List Byte × Option RErr × Src) :=
  if s.wrapEof then ([], some .eof, s)
  else if s.failAt == some s.calls && !(s.failWithData && !s.rest.isEmpty) then ([], some .fail, { s with calls := s.calls + 1 })
  else if s.rest.isEmpty then ([], some .eof, { s with calls := s.calls + 1 })
  else
    let want := match s.sched with | [] => s.rest.length | k :: _ => k
    let n := min (min want room) s.rest.length
    let atEnd : Bool := s.eofWithData && n == s.rest.length && n > 0
    let err : Option RErr := if s.failAt == some s.calls then some .fail else none
    (s.rest.take n, err, { s with rest := s.rest.drop n, sched := s.sched.drop 1, calls := s.calls + 1, wrapEof := atEnd && err.isNone })

def writeAll (a : Array Byte) (off : Nat) : List Byte → Array Byte
  | [] => a
  | b :: bs => writeAll (a.setIfInBounds off b) (off + 1) bs

/-- `more()` -/
def Buf.more (b : Buf) : Buf × Option RErr :=
  let b := if b.len == b.data.size then
      { b with data := b.data ++ Array.replicate (b.len + 1) 0 }   -- cap := 2*len+1, copy
    else b
  let (bytes, err, src) := b.src.read (b.data.size - b.len)
  ({ b with data := writeAll b.data b.len bytes, len := b.len + bytes.length, src := src }, err)

/-- `reset()`: shift unread bytes to the front (stale bytes stay behind len). -/
def Buf.reset (b : Buf) : Buf :=
  let unread := (b.data.toList.take b.len).drop b.cursor
  { b with data := writeAll b.data 0 unread, len := b.len - b.cursor, cursor := 0 }

def Buf.slice (b : Buf) (i j : Nat) : List Byte := (b.data.toList.take j).drop i

structure Fields where
  buf : Buf
  fieldStart : Nat := 0
  hitEOL : Bool := false
  delim : Byte
  field : List Byte := []
  err : Option RErr := none

/-- outcome of stepping: either a panic (index out of range) or a value -/
inductive Out (α : Type) | ok (a : α) | panic (why : String)

def QUOTE : Byte := 34
def LF : Byte := 10
def CR : Byte := 13

/-- nextUnquotedField; fuel bounds the loop (doc length + reads). -/
def nextUnquoted (fuel : Nat) (fs : Fields) (cursor : Nat) : Out (Fields × Bool) :=
  match fuel with
  | 0 => .panic "fuel"
  | fuel + 1 =>
    let step (fs : Fields) : Out (Fields × Bool) :=
      if h : cursor < fs.buf.data.size then
        if cursor < fs.buf.len then
          let ch := fs.buf.data[cursor]
          let cursor' := cursor + 1
          let fs := { fs with buf := { fs.buf with cursor := cursor' } }
          if ch == fs.delim then
            .ok ({ fs with field := fs.buf.slice fs.fieldStart (cursor' - 1), fieldStart := cursor' }, true)
          else if ch == LF then
            .ok ({ fs with field := fs.buf.slice fs.fieldStart (cursor' - 1), hitEOL := true }, true)
          else nextUnquoted fuel fs cursor'
        else .panic "index out of range (len)"
      else .panic "index out of range (cap)"
    if cursor ≥ fs.buf.len then
      let (b, e) := fs.buf.more
      let fs := { fs with buf := b }
      match e with
      | some .eof => .ok ({ fs with field := fs.buf.slice fs.fieldStart cursor, hitEOL := true, err := some .eof }, true)
      | some .fail => .ok ({ fs with err := some .fail }, false)
      | none => step fs
    else step fs

/-- nextQuotedField: returns (field, hitEOL, err, buf) -/
def quotedLoop (fuel : Nat) (b : Buf) (delim : Byte) (start writeCursor quoteCount : Nat) :
    Out (List Byte × Bool × Option RErr × Buf) :=
  match fuel with
  | 0 => .panic "fuel"
  | fuel + 1 =>
    let body (b : Buf) : Out (List Byte × Bool × Option RErr × Buf) :=
      if b.cursor < b.len then
        let ch := b.data[b.cursor]!
        let b := { b with cursor := b.cursor + 1 }
        let keep (b : Buf) (quoteCount : Nat) : Out (List Byte × Bool × Option RErr × Buf) :=
          let _ := quoteCount
          let w := writeCursor + 1
          if w != b.cursor then
            -- copy(data[w:w+1], data[cursor:cursor+1]) ; slicing up to cap is legal in Go
            if b.cursor + 1 ≤ b.data.size ∧ w + 1 ≤ b.data.size then
              let b := { b with data := b.data.setIfInBounds w b.data[b.cursor]! }
              quotedLoop fuel b delim start w 0
            else .panic "slice bounds out of range"
          else quotedLoop fuel b delim start w 0
        if ch == delim then
          if quoteCount % 2 != 0 then .ok (b.slice start writeCursor, false, none, b) else keep b quoteCount
        else if ch == LF then
          if quoteCount % 2 != 0 then .ok (b.slice start writeCursor, true, none, b) else keep b quoteCount
        else if ch == CR then
          if quoteCount % 2 != 0 then quotedLoop fuel b delim start writeCursor quoteCount else keep b quoteCount
        else if ch == QUOTE then
          let qc := quoteCount + 1
          if qc % 2 == 1 then quotedLoop fuel b delim start writeCursor qc else keep b qc
        else keep b quoteCount
      else .panic "index out of range (quoted)"
    if b.cursor + 1 ≥ b.len then
      let (b, e) := b.more
      match e with
      | some err =>
        if err == .eof && quoteCount % 2 != 0 && b.cursor < b.len && b.data[b.cursor]! == delim then
          let b := { b with cursor := b.cursor + 1 }
          .ok (b.slice start writeCursor, false, none, b)
        else .ok (b.slice start writeCursor, true, some err, b)
      | none => quotedLoop fuel b delim start writeCursor quoteCount   -- `for cursor+1 >= len { more() }`
    else body b

def nextQuoted (fuel : Nat) (b : Buf) (delim : Byte) : Out (List Byte × Bool × Option RErr × Buf) :=
  let b := { b with cursor := b.cursor + 1 }
  quotedLoop fuel b delim b.cursor b.cursor 0

/-- fields.next -/
def Fields.next (fuel : Nat) (fs : Fields) : Out (Fields × Bool) :=
  if fs.hitEOL then .ok (fs, false) else
  let go (fs : Fields) : Out (Fields × Bool) :=
    if fs.buf.cursor < fs.buf.len then
      if fs.buf.data[fs.buf.cursor]! == QUOTE then
        match nextQuoted fuel fs.buf fs.delim with
        | .panic w => .panic w
        | .ok (f, eol, err, b) =>
          .ok ({ fs with field := f, hitEOL := eol, err := err, buf := b, fieldStart := b.cursor },
               err == none || err == some .eof)
      else nextUnquoted fuel fs fs.buf.cursor
    else .panic "index out of range (first)"
  if fs.buf.cursor ≥ fs.buf.len then
    let (b, e) := fs.buf.more
    let fs := { fs with buf := b }
    match e with
    | some err =>
      if err == .eof && fs.fieldStart > 0 then
        .ok ({ fs with err := some err, field := fs.buf.slice fs.fieldStart fs.fieldStart, hitEOL := true }, true)
      else .ok ({ fs with err := some err }, false)
    | none => go fs
  else go fs

structure Reader where
  fs : Fields
  row : List (List Byte) := []

def rowLoop (fuel n : Nat) (fs : Fields) (acc : List (List Byte)) : Out (Fields × List (List Byte)) :=
  match n with
  | 0 => .panic "fuel(row)"
  | n + 1 =>
    match fs.next fuel with
    | .panic w => .panic w
    | .ok (fs, true) => rowLoop fuel n fs (acc ++ [fs.field])
    | .ok (fs, false) => .ok (fs, acc)

/-- Reader.Next -/
def Reader.next (fuel : Nat) (r : Reader) : Out (Reader × Bool) :=
  if r.fs.err != none then .ok (r, false) else
  let fs := { r.fs with buf := r.fs.buf.reset, field := [], fieldStart := 0, hitEOL := false }
  match rowLoop fuel fuel fs [] with
  | .panic w => .panic w
  | .ok (fs, row) =>
    let row := match row.getLast? with
      | some last => if last.getLast? == some CR then row.dropLast ++ [last.dropLast] else row
      | none => row
    if row.isEmpty then
      let fs := if fs.err == none then { fs with err := some .eof } else fs
      .ok ({ fs := fs, row := [] }, false)
    else .ok ({ fs := fs, row := row }, true)

def readAllLoop (fuel n : Nat) (r : Reader) (acc : List (List (List Byte))) : Out (List (List (List Byte)) × Option RErr) :=
  match n with
  | 0 => .panic "fuel(all)"
  | n + 1 =>
    match r.next fuel with
    | .panic w => .panic w
    | .ok (r, true) => readAllLoop fuel n r (acc ++ [r.row])
    | .ok (r, false) => .ok (acc, r.fs.err)

def readAll (doc : List Byte) (sched : List Nat) (delim : Byte := 44) (cap : Nat := 1024) (failAt : Option Nat := none) (eofWithData : Bool := false) (failWithData : Bool := false) : Out (List (List (List Byte)) × Option RErr) :=
  let fuel := 8 * doc.length + 64
  let r : Reader := { fs := { buf := { data := Array.replicate cap 0, len := 0, cursor := 0, src := { rest := doc, sched := sched, failAt := failAt, eofWithData := eofWithData, failWithData := failWithData } }, delim := delim } }
  readAllLoop fuel fuel r []

def render (o : Out (List (List (List Byte)) × Option RErr)) : String :=
  match o with
  | .panic w => s!"PANIC {w}"
  | .ok (rows, e) => s!"{rows.map (·.map (fun f => String.fromUTF8! (ByteArray.mk f.toArray)))} err={repr e}"

def doc1 := "h,k\n\"a\"\"bc\",x\n\"d\"\"ef\",y\n".toUTF8.toList
#eval render (readAll doc1 [])
#eval render (readAll doc1 (List.replicate 100 1))
#eval render (readAll doc1 [5,1,1,1,1])
#eval render (readAll "a,b\n\"x\r\ny\",z\n".toUTF8.toList [])
#eval render (readAll "a,b\nx,".toUTF8.toList [])
#eval render (readAll "a,b\nx,\n".toUTF8.toList [])
#eval render (readAll "\"abc\",\"def\",\"ghi\"".toUTF8.toList [] 44 4)
#eval render (readAll "a,b\n\nc,d".toUTF8.toList [])
#eval render (readAll "\"a\"\r\n\"b\"".toUTF8.toList [])
end Csv
