import QF.Core.SorterHeap
/-! Prototype: doPivot of the mirror establishes the partition quickSort needs. -/
namespace Sorter

variable (less : Nat → Nat → Bool)

/-- `for ; i < c && p i; i++ {}` -/
theorem scanUp_spec (p : Nat → Bool) : ∀ (fuel i c : Nat), c < fuel + i →
    i ≤ scanUp fuel p i c ∧ (i ≤ c → scanUp fuel p i c ≤ c) ∧
    (∀ k, i ≤ k → k < scanUp fuel p i c → p k = true) ∧
    (scanUp fuel p i c < c → p (scanUp fuel p i c) = false) := by
  intro fuel
  induction fuel with
  | zero => intro i c h; exact ⟨Nat.le_refl _, fun h => by simpa [scanUp] using h, fun k a b => by simp [scanUp] at b; omega, fun h' => by simp [scanUp] at h'; omega⟩
  | succ f ih =>
    intro i c h
    unfold scanUp
    by_cases hc : (decide (i < c) && p i) = true
    · simp only [hc, ↓reduceIte]
      simp only [Bool.and_eq_true, decide_eq_true_eq] at hc
      obtain ⟨a1, a2, a3, a4⟩ := ih (i + 1) c (by omega)
      refine ⟨by omega, fun _ => a2 (by omega), fun k hk1 hk2 => ?_, a4⟩
      by_cases e : k = i
      · subst e; exact hc.2
      · exact a3 k (by omega) hk2
    · simp only [hc, Bool.false_eq_true, ↓reduceIte]
      refine ⟨Nat.le_refl _, fun h => h, fun k a b => by omega, fun hlt => ?_⟩
      cases hv : p i with
      | false => rfl
      | true => exact absurd (by simp [hlt, hv]) hc

/-- `for ; b < c && p (c-1); c-- {}` -/
theorem scanDown_spec (p : Nat → Bool) : ∀ (fuel b c : Nat), c < fuel + b →
    scanDown fuel p b c ≤ c ∧ (b ≤ c → b ≤ scanDown fuel p b c) ∧
    (∀ k, scanDown fuel p b c ≤ k → k < c → p k = true) ∧
    (b < scanDown fuel p b c → p (scanDown fuel p b c - 1) = false) := by
  intro fuel
  induction fuel with
  | zero => intro b c h; exact ⟨by simp [scanDown], fun h => by simpa [scanDown] using h, fun k a b => by simp [scanDown] at a; omega, fun h' => by simp [scanDown] at h'; omega⟩
  | succ f ih =>
    intro b c h
    unfold scanDown
    by_cases hc : (decide (b < c) && p (c - 1)) = true
    · simp only [hc, ↓reduceIte]
      simp only [Bool.and_eq_true, decide_eq_true_eq] at hc
      obtain ⟨a1, a2, a3, a4⟩ := ih b (c - 1) (by omega)
      refine ⟨by omega, fun _ => a2 (by omega), fun k hk1 hk2 => ?_, a4⟩
      by_cases e : k = c - 1
      · subst e; exact hc.2
      · exact a3 k hk1 (by omega)
    · simp only [hc, Bool.false_eq_true, ↓reduceIte]
      refine ⟨Nat.le_refl _, fun h => h, fun k a b => by omega, fun hlt => ?_⟩
      cases hv : p (c - 1) with
      | false => rfl
      | true => exact absurd (by simp [hlt, hv]) hc

/-- medianOfThree on three distinct in-range positions: result is a rearrangement of those positions with
    data[m0] ≤ data[m1] ≤ data[m2] -/
theorem medianOfThree_spec (sw0 : SWO less) (a : Ix) (m1 m0 m2 lo hi : Nat)
    (h0 : lo ≤ m0 ∧ m0 < hi) (h1 : lo ≤ m1 ∧ m1 < hi) (h2 : lo ≤ m2 ∧ m2 < hi)
    (d01 : m0 ≠ m1) (d12 : m1 ≠ m2) (d02 : m0 ≠ m2) (hsz : hi ≤ a.size) :
    RangePres a (medianOfThree less a m1 m0 m2) lo hi ∧
    less (at' (medianOfThree less a m1 m0 m2) m1) (at' (medianOfThree less a m1 m0 m2) m0) = false ∧
    less (at' (medianOfThree less a m1 m0 m2) m2) (at' (medianOfThree less a m1 m0 m2) m1) = false ∧
    (∀ k, k ≠ m0 → k ≠ m1 → k ≠ m2 → at' (medianOfThree less a m1 m0 m2) k = at' a k) := by
  unfold medianOfThree
  -- step 1
  generalize hb : (if lt less a m1 m0 = true then sw a m1 m0 else a) = b
  have hbr : RangePres a b lo hi ∧ less (at' b m1) (at' b m0) = false ∧ (∀ k, k ≠ m0 → k ≠ m1 → at' b k = at' a k) := by
    subst hb
    split
    · rename_i hc
      rw [lt_eq] at hc
      have G := fun k => sw_at a m1 m0 k (by omega) (by omega)
      refine ⟨sw_rangePres a m1 m0 lo hi h1.1 h1.2 h0.1 h0.2 hsz, ?_, fun k k0 k1 => by rw [G k]; simp [k0, k1]⟩
      rw [G m1, G m0]; simp [d01, Ne.symm d01]; exact sw0.asymm _ _ hc
    · rename_i hc
      refine ⟨RangePres.refl _ _ _, ?_, fun _ _ _ => rfl⟩
      cases hv : lt less a m1 m0 with
      | false => simpa [lt_eq] using hv
      | true => exact absurd hv hc
  obtain ⟨br, b10, bo⟩ := hbr
  have hbsz : hi ≤ b.size := by rw [br.size]; exact hsz
  simp only []
  by_cases c2 : lt less b m2 m1 = true
  · simp only [c2, ↓reduceIte]
    rw [lt_eq] at c2
    have G := fun k => sw_at b m2 m1 k (by omega) (by omega)
    have cr := sw_rangePres b m2 m1 lo hi h2.1 h2.2 h1.1 h1.2 hbsz
    have hcsz : hi ≤ (sw b m2 m1).size := by rw [sw_size]; exact hbsz
    -- in c := sw b m2 m1: c[m1] = b[m2], c[m2] = b[m1], c[m0] = b[m0]
    have c1v : at' (sw b m2 m1) m1 = at' b m2 := by rw [G m1]; simp
    have c2v : at' (sw b m2 m1) m2 = at' b m1 := by rw [G m2]; simp [Ne.symm d12]
    have c0v : at' (sw b m2 m1) m0 = at' b m0 := by rw [G m0]; simp [d01, d02]
    by_cases c3 : lt less (sw b m2 m1) m1 m0 = true
    · simp only [c3, ↓reduceIte]
      rw [lt_eq, c1v, c0v] at c3
      have G2 := fun k => sw_at (sw b m2 m1) m1 m0 k (by omega) (by omega)
      refine ⟨br.trans (cr.trans (sw_rangePres _ m1 m0 lo hi h1.1 h1.2 h0.1 h0.2 hcsz)), ?_, ?_, ?_⟩
      · rw [G2 m1, G2 m0]; simp [d01, Ne.symm d01]; rw [c1v, c0v]; exact sw0.asymm _ _ c3
      · rw [G2 m2, G2 m1]; simp [Ne.symm d02, Ne.symm d12, Ne.symm d01, d01]; rw [c2v, c0v]; exact b10
      · intro k k0 k1 k2; rw [G2 k]; simp [k0, k1]; rw [G k]; simp [k1, k2]; exact bo k k0 k1
    · simp only [c3, Bool.false_eq_true, ↓reduceIte]
      have c3' : less (at' b m2) (at' b m0) = false := by
        cases hv : lt less (sw b m2 m1) m1 m0 with
        | false => simpa [lt_eq, c1v, c0v] using hv
        | true => exact absurd hv c3
      refine ⟨br.trans cr, by rw [c1v, c0v]; exact c3', by rw [c2v, c1v]; exact sw0.asymm _ _ c2, ?_⟩
      intro k k0 k1 k2; rw [G k]; simp [k1, k2]; exact bo k k0 k1
  · simp only [c2, Bool.false_eq_true, ↓reduceIte]
    have : less (at' b m2) (at' b m1) = false := by
      cases hv : lt less b m2 m1 with
      | false => simpa [lt_eq] using hv
      | true => exact absurd hv c2
    exact ⟨br, b10, this, fun k k0 k1 _ => bo k k0 k1⟩


/-- invariant of the main partition loop: [lo+1,b) ≤ pivot, [b,c) unexamined, [c,hi-1) > pivot, data[hi-1] ≥ pivot -/
structure PA (a : Ix) (lo hi b c pv : Nat) : Prop where
  piv : at' a lo = pv
  b1 : lo + 1 ≤ b
  bc : b ≤ c
  ch : c ≤ hi - 1
  le : ∀ k, lo + 1 ≤ k → k < b → less pv (at' a k) = false
  gt : ∀ k, c ≤ k → k < hi - 1 → less pv (at' a k) = true
  last : less (at' a (hi - 1)) pv = false

theorem pivotLoop_spec (sw0 : SWO less) (lo hi pv : Nat) (hlh : lo + 2 ≤ hi) :
    ∀ (fuel : Nat) (a : Ix) (b c : Nat), c < fuel + b → hi ≤ a.size → PA less a lo hi b c pv →
      PA less (pivotLoop less fuel a lo b c).1 lo hi (pivotLoop less fuel a lo b c).2.1 (pivotLoop less fuel a lo b c).2.2 pv ∧
      (pivotLoop less fuel a lo b c).2.1 = (pivotLoop less fuel a lo b c).2.2 ∧
      RangePres a (pivotLoop less fuel a lo b c).1 (lo + 1) (hi - 1) := by
  intro fuel
  induction fuel with
  | zero => intro a b c h _ pa; have := pa.bc; omega
  | succ f ih =>
    intro a b c hf hsz pa
    unfold pivotLoop
    simp only []
    obtain ⟨u1, u2, u3, u4⟩ := scanUp_spec (fun i => !lt less a lo i) (a.size + 1) b c (by have := pa.ch; omega)
    generalize scanUp (a.size + 1) (fun i => !lt less a lo i) b c = b' at u1 u2 u3 u4
    have hb'c := u2 pa.bc
    obtain ⟨d1, d2, d3, d4⟩ := scanDown_spec (fun i => lt less a lo i) (a.size + 1) b' c (by have := pa.ch; omega)
    generalize scanDown (a.size + 1) (fun i => lt less a lo i) b' c = c' at d1 d2 d3 d4
    have hb'c' := d2 hb'c
    have hpiv := pa.piv
    have le' : ∀ k, lo + 1 ≤ k → k < b' → less pv (at' a k) = false := by
      intro k hk1 hk2
      by_cases e : k < b
      · exact pa.le k hk1 e
      · have := u3 k (by omega) hk2
        simpa [lt_eq, hpiv] using this
    have gt' : ∀ k, c' ≤ k → k < hi - 1 → less pv (at' a k) = true := by
      intro k hk1 hk2
      by_cases e : c ≤ k
      · exact pa.gt k e hk2
      · have := d3 k hk1 (by omega)
        simpa [lt_eq, hpiv] using this
    by_cases hx : b' ≥ c'
    · simp only [hx, ↓reduceIte]
      exact ⟨⟨hpiv, by have := pa.b1; omega, hb'c', by have := pa.ch; omega, le', gt', pa.last⟩, by omega, RangePres.refl _ _ _⟩
    · simp only [hx, ↓reduceIte]
      have hlt : b' < c' := by omega
      have hgb : less pv (at' a b') = true := by
        have := u4 (by omega); simpa [lt_eq, hpiv] using this
      have hlc : less pv (at' a (c' - 1)) = false := by
        have := d4 hlt; simpa [lt_eq, hpiv] using this
      have hne : b' ≠ c' - 1 := by intro e; rw [← e, hgb] at hlc; cases hlc
      have hch := pa.ch
      have hb1 := pa.b1
      have hba : b' < a.size := by omega
      have hca : c' - 1 < a.size := by omega
      have G := fun k => sw_at a b' (c' - 1) k hba hca
      have hsz' : hi ≤ (sw a b' (c' - 1)).size := by rw [sw_size]; exact hsz
      have hsw := sw_rangePres a b' (c' - 1) (lo + 1) (hi - 1) (by omega) (by omega) (by omega) (by omega) (by omega)
      obtain ⟨r1, r2, r3⟩ := ih (sw a b' (c' - 1)) (b' + 1) (c' - 1) (by omega) hsz' (by
        constructor
        · rw [G lo]; have : lo ≠ c' - 1 ∧ lo ≠ b' := by omega
          simp [this.1, this.2]; exact hpiv
        · omega
        · omega
        · omega
        · intro k hk1 hk2
          rw [G k]
          by_cases e : k = b'
          · subst e; simp [hne]; exact hlc
          · have : k ≠ c' - 1 := by omega
            simp [this, e]; exact le' k hk1 (by omega)
        · intro k hk1 hk2
          rw [G k]
          by_cases e : k = c' - 1
          · subst e; simp; exact hgb
          · have : k ≠ b' := by omega
            simp [this, e]; exact gt' k (by omega) hk2
        · rw [G (hi - 1)]
          have : hi - 1 ≠ c' - 1 ∧ hi - 1 ≠ b' := by omega
          simp [this.1, this.2]; exact pa.last)
      exact ⟨r1, r2, hsw.trans r3⟩


/-- invariant after the main loop: [lo+1,b) ≤ pivot, [b,c) equivalent to the pivot, [c,hi) ≥ pivot -/
structure PB (a : Ix) (lo hi b c pv : Nat) : Prop where
  piv : at' a lo = pv
  b1 : lo + 1 ≤ b
  bc : b ≤ c
  ch : c ≤ hi
  le : ∀ k, lo + 1 ≤ k → k < b → less pv (at' a k) = false
  eq : ∀ k, b ≤ k → k < c → less pv (at' a k) = false ∧ less (at' a k) pv = false
  ge : ∀ k, c ≤ k → k < hi → less (at' a k) pv = false

theorem PB_of_PA (sw0 : SWO less) (a : Ix) (lo hi b pv : Nat) (pa : PA less a lo hi b b pv) (hlh : lo + 2 ≤ hi) :
    PB less a lo hi b b pv := by
  refine ⟨pa.piv, pa.b1, Nat.le_refl _, by have := pa.ch; omega, pa.le, fun k h1 h2 => by omega, fun k h1 h2 => ?_⟩
  by_cases e : k < hi - 1
  · exact sw0.asymm _ _ (pa.gt k h1 e)
  · have : k = hi - 1 := by omega
    subst this; exact pa.last

theorem protectLoop_spec (sw0 : SWO less) (lo hi c pv : Nat) :
    ∀ (fuel : Nat) (a : Ix) (x b : Nat), b < fuel + x → hi ≤ a.size → lo + 1 ≤ x → x ≤ b → PB less a lo hi b c pv →
      PB less (protectLoop less fuel a lo x b).1 lo hi (protectLoop less fuel a lo x b).2.2 c pv ∧
      RangePres a (protectLoop less fuel a lo x b).1 (lo + 1) hi := by
  intro fuel
  induction fuel with
  | zero => intro a x b h; omega
  | succ f ih =>
    intro a x b hf hsz hx hxb pb
    unfold protectLoop
    simp only []
    have hch := pb.ch
    have hbc := pb.bc
    obtain ⟨d1, d2, d3, d4⟩ := scanDown_spec (fun i => !lt less a i lo) (a.size + 1) x b (by omega)
    generalize scanDown (a.size + 1) (fun i => !lt less a i lo) x b = b' at d1 d2 d3 d4
    have hxb' := d2 hxb
    obtain ⟨u1, u2, u3, u4⟩ := scanUp_spec (fun i => lt less a i lo) (a.size + 1) x b' (by omega)
    generalize scanUp (a.size + 1) (fun i => lt less a i lo) x b' = x' at u1 u2 u3 u4
    have hx'b' := u2 hxb'
    have hpiv := pb.piv
    -- the PB invariant with the smaller b'
    have pb' : PB less a lo hi b' c pv := by
      refine ⟨hpiv, by omega, by omega, hch, fun k h1 h2 => pb.le k h1 (by omega), fun k h1 h2 => ?_, pb.ge⟩
      by_cases e : b ≤ k
      · exact pb.eq k e h2
      · refine ⟨pb.le k (by omega) (by omega), ?_⟩
        have := d3 k h1 (by omega)
        simpa [lt_eq, hpiv] using this
    by_cases hxx : x' ≥ b'
    · simp only [hxx, ↓reduceIte]
      exact ⟨pb', RangePres.refl _ _ _⟩
    · simp only [hxx, ↓reduceIte]
      have hlt : x' < b' := by omega
      have hge : less (at' a x') pv = false := by
        have := u4 hlt; simpa [lt_eq, hpiv] using this
      have hlt2 : less (at' a (b' - 1)) pv = true := by
        have := d4 (by omega)
        simp only [lt_eq, hpiv, Bool.not_eq_false'] at this
        cases hv : less (at' a (b' - 1)) pv with
        | true => rfl
        | false => rw [hv] at this; simp at this
      have hne : x' ≠ b' - 1 := by intro e; rw [← e, hge] at hlt2; cases hlt2
      have hxa : x' < a.size := by omega
      have hba : b' - 1 < a.size := by omega
      have G := fun k => sw_at a x' (b' - 1) k hxa hba
      have hsz' : hi ≤ (sw a x' (b' - 1)).size := by rw [sw_size]; exact hsz
      have hsw := sw_rangePres a x' (b' - 1) (lo + 1) hi (by omega) (by omega) (by omega) (by omega) hsz
      obtain ⟨r1, r2⟩ := ih (sw a x' (b' - 1)) (x' + 1) (b' - 1) (by omega) hsz' (by omega) (by omega) (by
        refine ⟨?_, by omega, by omega, hch, ?_, ?_, ?_⟩
        · rw [G lo]; have : lo ≠ b' - 1 ∧ lo ≠ x' := by omega
          simp [this.1, this.2]; exact hpiv
        · intro k h1 h2
          rw [G k]
          have hk : k ≠ b' - 1 := by omega
          by_cases e : k = x'
          · subst e; simp [hk]; exact sw0.asymm _ _ hlt2
          · simp [hk, e]; exact pb'.le k h1 (by omega)
        · intro k h1 h2
          rw [G k]
          have hk : k ≠ x' := by omega
          by_cases e : k = b' - 1
          · subst e; simp; exact ⟨pb'.le x' (by omega) hlt, hge⟩
          · simp [hk, e]; exact pb'.eq k (by omega) h2
        · intro k h1 h2
          rw [G k]
          have : k ≠ b' - 1 ∧ k ≠ x' := by omega
          simp [this.1, this.2]; exact pb'.ge k h1 h2)
      exact ⟨r1, hsw.trans r2⟩


/-- protectLoop without the assumption x ≤ b (if x > b it does nothing) -/
theorem protectLoop_spec' (sw0 : SWO less) (lo hi c pv : Nat) (a : Ix) (x b : Nat) (hsz : hi ≤ a.size) (hx : lo + 1 ≤ x)
    (pb : PB less a lo hi b c pv) :
    PB less (protectLoop less (a.size + 1) a lo x b).1 lo hi (protectLoop less (a.size + 1) a lo x b).2.2 c pv ∧
    RangePres a (protectLoop less (a.size + 1) a lo x b).1 (lo + 1) hi := by
  by_cases hxb : x ≤ b
  · exact protectLoop_spec less sw0 lo hi c pv (a.size + 1) a x b (by have := pb.bc; have := pb.ch; omega) hsz hx hxb pb
  · unfold protectLoop
    simp only []
    have e1 : scanDown (a.size + 1) (fun i => !lt less a i lo) x b = b := by
      unfold scanDown; simp; intro h; omega
    rw [e1]
    have e2 : scanUp (a.size + 1) (fun i => lt less a i lo) x b = x := by
      unfold scanUp; simp; intro h; omega
    rw [e2]
    have : x ≥ b := by omega
    simp only [this, ↓reduceIte]
    exact ⟨pb, RangePres.refl _ _ _⟩

theorem dups1_spec (a : Ix) (lo hi b c pv : Nat) (hsz : hi ≤ a.size)
    (pb : PB less a lo hi b c pv) (hc : c + 1 ≤ hi) :
    PB less (dups1 less a lo hi c).1 lo hi b (dups1 less a lo hi c).2.1 pv ∧
    RangePres a (dups1 less a lo hi c).1 (lo + 1) hi ∧ hi ≤ (dups1 less a lo hi c).1.size := by
  have hpiv := pb.piv
  have hbc := pb.bc
  have hb1 := pb.b1
  unfold dups1
  split
  · rename_i hcnd
    have hle : less pv (at' a (hi - 1)) = false := by simpa [lt_eq, hpiv] using hcnd
    have hge := pb.ge (hi - 1) (by omega) (by omega)
    have G := fun k => sw_at a c (hi - 1) k (by omega) (by omega)
    refine ⟨⟨?_, hb1, by simp only; omega, by simp only; omega, ?_, ?_, ?_⟩,
      sw_rangePres a c (hi - 1) (lo + 1) hi (by omega) (by omega) (by omega) (by omega) hsz, by rw [sw_size]; exact hsz⟩
    · simp only; rw [G lo]; have : lo ≠ hi - 1 ∧ lo ≠ c := by omega
      simp [this.1, this.2]; exact hpiv
    · intro k h1 h2; simp only; rw [G k]; have : k ≠ hi - 1 ∧ k ≠ c := by omega
      simp [this.1, this.2]; exact pb.le k h1 h2
    · intro k h1 h2
      simp only at h2 ⊢
      rw [G k]
      by_cases e : k = c
      · by_cases e2 : k = hi - 1
        · rw [if_pos e2, ← e, e2]; exact ⟨hle, hge⟩
        · rw [if_neg e2, if_pos e]; exact ⟨hle, hge⟩
      · have : k ≠ hi - 1 := by omega
        rw [if_neg this, if_neg e]; exact pb.eq k h1 (by omega)
    · intro k h1 h2
      simp only at h1 ⊢
      rw [G k]
      by_cases e : k = hi - 1
      · rw [if_pos e]; exact pb.ge c (Nat.le_refl _) (by omega)
      · have : k ≠ c := by omega
        rw [if_neg e, if_neg this]; exact pb.ge k (by omega) h2
  · exact ⟨pb, RangePres.refl _ _ _, hsz⟩

theorem dups2_spec (a : Ix) (lo hi b c pv d : Nat) (pb : PB less a lo hi b c pv) (hb : lo + 2 ≤ b) :
    PB less a lo hi (dups2 less a lo b d).1 c pv ∧ b - 1 ≤ (dups2 less a lo b d).1 ∧ (dups2 less a lo b d).1 ≤ b := by
  unfold dups2
  split
  · rename_i hcnd
    have hge : less (at' a (b - 1)) pv = false := by simpa [lt_eq, pb.piv] using hcnd
    refine ⟨⟨pb.piv, by simp only; omega, by simp only; have := pb.bc; omega, pb.ch,
      fun k h1 h2 => pb.le k h1 (by simp only at h2; omega), fun k h1 h2 => ?_, pb.ge⟩, by simp, by simp⟩
    simp only at h1
    by_cases e : k = b - 1
    · subst e; exact ⟨pb.le (b - 1) (by omega) (by omega), hge⟩
    · exact pb.eq k (by omega) h2
  · exact ⟨pb, by simp, by simp⟩

theorem dups3_spec (sw0 : SWO less) (a : Ix) (lo hi m b c pv d : Nat) (hsz : hi ≤ a.size)
    (pb : PB less a lo hi b c pv) (hm1 : lo + 1 ≤ m) (hm2 : m < b) :
    PB less (dups3 less a lo m b d).1 lo hi (dups3 less a lo m b d).2.1 c pv ∧
    RangePres a (dups3 less a lo m b d).1 (lo + 1) hi := by
  have hbc := pb.bc
  have hch := pb.ch
  unfold dups3
  split
  · rename_i hcnd
    have hge : less (at' a m) pv = false := by simpa [lt_eq, pb.piv] using hcnd
    have hle := pb.le m hm1 hm2
    have G := fun k => sw_at a m (b - 1) k (by omega) (by omega)
    refine ⟨⟨?_, by simp only; omega, by simp only; omega, hch, ?_, ?_, ?_⟩,
      sw_rangePres a m (b - 1) (lo + 1) hi hm1 (by omega) (by omega) (by omega) hsz⟩
    · simp only; rw [G lo]; have : lo ≠ b - 1 ∧ lo ≠ m := by omega
      rw [if_neg this.1, if_neg this.2]; exact pb.piv
    · intro k h1 h2
      simp only at h2 ⊢
      rw [G k]
      have hk : k ≠ b - 1 := by omega
      rw [if_neg hk]
      by_cases e : k = m
      · rw [if_pos e]; exact pb.le (b - 1) (by omega) (by omega)
      · rw [if_neg e]; exact pb.le k h1 (by omega)
    · intro k h1 h2
      simp only at h1 ⊢
      rw [G k]
      by_cases e : k = b - 1
      · rw [if_pos e]; exact ⟨hle, hge⟩
      · have : k ≠ m := by omega
        rw [if_neg e, if_neg this]; exact pb.eq k (by omega) h2
    · intro k h1 h2
      simp only
      rw [G k]
      have : k ≠ b - 1 ∧ k ≠ m := by omega
      rw [if_neg this.1, if_neg this.2]; exact pb.ge k h1 h2
  · exact ⟨pb, RangePres.refl _ _ _⟩

theorem dupsBlock_spec (sw0 : SWO less) (a : Ix) (lo hi m b c pv : Nat) (hsz : hi ≤ a.size)
    (pb : PB less a lo hi b c pv) (hc : c + 1 ≤ hi) (hm1 : lo + 1 ≤ m) (hm2 : m + 1 < b) :
    PB less (dupsBlock less a lo hi m b c).a lo hi (dupsBlock less a lo hi m b c).b (dupsBlock less a lo hi m b c).c pv ∧
    RangePres a (dupsBlock less a lo hi m b c).a (lo + 1) hi := by
  obtain ⟨pb1, rp1, hsz1⟩ := dups1_spec less a lo hi b c pv hsz pb hc
  obtain ⟨pb2, hb2a, hb2b⟩ := dups2_spec less (dups1 less a lo hi c).1 lo hi b (dups1 less a lo hi c).2.1 pv
    (dups1 less a lo hi c).2.2 pb1 (by omega)
  obtain ⟨pb3, rp3⟩ := dups3_spec less sw0 (dups1 less a lo hi c).1 lo hi m
    (dups2 less (dups1 less a lo hi c).1 lo b (dups1 less a lo hi c).2.2).1 (dups1 less a lo hi c).2.1 pv
    (dups2 less (dups1 less a lo hi c).1 lo b (dups1 less a lo hi c).2.2).2 hsz1 pb2 hm1 (by omega)
  unfold dupsBlock
  exact ⟨pb3, rp1.trans rp3⟩


theorem choosePivot_spec (sw0 : SWO less) (a : Ix) (lo hi : Nat) (h12 : lo + 12 < hi) (hsz : hi ≤ a.size) :
    RangePres a (choosePivot less a lo hi) lo hi ∧
    less (at' (choosePivot less a lo hi) (hi - 1)) (at' (choosePivot less a lo hi) lo) = false := by
  unfold choosePivot
  simp only []
  generalize hb : (if hi - lo > 40 then
      medianOfThree less (medianOfThree less (medianOfThree less a lo (lo + (hi - lo) / 8) (lo + 2 * ((hi - lo) / 8)))
        ((lo + hi) / 2) ((lo + hi) / 2 - (hi - lo) / 8) ((lo + hi) / 2 + (hi - lo) / 8))
        (hi - 1) (hi - 1 - (hi - lo) / 8) (hi - 1 - 2 * ((hi - lo) / 8)) else a) = b
  have hbr : RangePres a b lo hi := by
    subst hb
    split
    · rename_i h40
      have hs : 5 ≤ (hi - lo) / 8 := by omega
      have e1 := (medianOfThree_spec less sw0 a lo (lo + (hi - lo) / 8) (lo + 2 * ((hi - lo) / 8)) lo hi
        (by omega) (by omega) (by omega) (by omega) (by omega) (by omega) hsz).1
      have hs1 : hi ≤ (medianOfThree less a lo (lo + (hi - lo) / 8) (lo + 2 * ((hi - lo) / 8))).size := by rw [e1.size]; exact hsz
      have e2 := (medianOfThree_spec less sw0 _ ((lo + hi) / 2) ((lo + hi) / 2 - (hi - lo) / 8) ((lo + hi) / 2 + (hi - lo) / 8) lo hi
        (by omega) (by omega) (by omega) (by omega) (by omega) (by omega) hs1).1
      have hs2 := hs1; rw [← e2.size] at hs2
      have e3 := (medianOfThree_spec less sw0 _ (hi - 1) (hi - 1 - (hi - lo) / 8) (hi - 1 - 2 * ((hi - lo) / 8)) lo hi
        (by omega) (by omega) (by omega) (by omega) (by omega) (by omega) hs2).1
      exact e1.trans (e2.trans e3)
    · exact RangePres.refl _ _ _
  have hbsz : hi ≤ b.size := by rw [hbr.size]; exact hsz
  obtain ⟨r, _, h2, _⟩ := medianOfThree_spec less sw0 b lo ((lo + hi) / 2) (hi - 1) lo hi
    (by omega) (by omega) (by omega) (by omega) (by omega) (by omega) hbsz
  exact ⟨hbr.trans r, h2⟩

/-- C03, last component: doPivot establishes the partition required by quickSort. -/
theorem doPivot_spec (sw0 : SWO less) : PivotSpec less := by
  intro a lo hi h12 hsz
  -- 1. pivot selection
  obtain ⟨rp1, hlast⟩ := choosePivot_spec less sw0 a lo hi h12 hsz
  unfold doPivot
  simp only []
  generalize choosePivot less a lo hi = a1 at rp1 hlast ⊢
  have hsz1 : hi ≤ a1.size := by rw [rp1.size]; exact hsz
  generalize hpv : at' a1 lo = pv at hlast
  -- 2. first scan
  obtain ⟨u1, u2, u3, _⟩ := scanUp_spec (fun i => lt less a1 i lo) (a1.size + 1) (lo + 1) (hi - 1) (by omega)
  generalize scanUp (a1.size + 1) (fun i => lt less a1 i lo) (lo + 1) (hi - 1) = x at u1 u2 u3 ⊢
  have hx2 := u2 (by omega)
  have pa : PA less a1 lo hi x (hi - 1) pv := by
    refine ⟨hpv, u1, hx2, Nat.le_refl _, fun k h1 h2 => ?_, fun k h1 h2 => by omega, hlast⟩
    have := u3 k h1 h2
    rw [lt_eq, hpv] at this
    exact sw0.asymm _ _ this
  -- 3. main loop
  obtain ⟨pa2, hbc, rp2⟩ := pivotLoop_spec less sw0 lo hi pv (by omega) (a1.size + 1) a1 x (hi - 1) (by omega) hsz1 pa
  generalize pivotLoop less (a1.size + 1) a1 lo x (hi - 1) = r at pa2 hbc rp2 ⊢
  obtain ⟨a2, b, c⟩ := r
  simp only at pa2 hbc rp2 ⊢
  subst hbc
  have hsz2 : hi ≤ a2.size := by rw [rp2.size]; exact hsz1
  have pb := PB_of_PA less sw0 a2 lo hi b pv pa2 (by omega)
  -- 4. dups block
  have hst : ∀ st : PState, st = (if (!decide (hi - b < 5) && decide (hi - b < (hi - lo) / 4)) = true
        then dupsBlock less a2 lo hi ((lo + hi) / 2) b b else ⟨a2, b, b, decide (hi - b < 5)⟩) →
      PB less st.a lo hi st.b st.c pv ∧ RangePres a2 st.a (lo + 1) hi := by
    intro st hst
    subst hst
    split
    · rename_i hcnd
      simp only [Bool.and_eq_true, Bool.not_eq_true', decide_eq_false_iff_not, decide_eq_true_eq] at hcnd
      exact dupsBlock_spec less sw0 a2 lo hi ((lo + hi) / 2) b b pv hsz2 pb (by omega) (by omega) (by omega)
    · exact ⟨pb, RangePres.refl _ _ _⟩
  obtain ⟨pb3, rp3⟩ := hst _ rfl
  generalize (if (!decide (hi - b < 5) && decide (hi - b < (hi - lo) / 4)) = true
        then dupsBlock less a2 lo hi ((lo + hi) / 2) b b else (⟨a2, b, b, decide (hi - b < 5)⟩ : PState)) = st at pb3 rp3 ⊢
  have hsz3 : hi ≤ st.a.size := by rw [rp3.size]; exact hsz2
  -- 5. protect pass
  have hp : ∀ p : Ix × Nat, p = (if st.protect = true then
        ((protectLoop less (st.a.size + 1) st.a lo x st.b).1, (protectLoop less (st.a.size + 1) st.a lo x st.b).2.2)
      else (st.a, st.b)) → PB less p.1 lo hi p.2 st.c pv ∧ RangePres st.a p.1 (lo + 1) hi := by
    intro p hp
    subst hp
    split
    · exact protectLoop_spec' less sw0 lo hi st.c pv st.a x st.b hsz3 u1 pb3
    · exact ⟨pb3, RangePres.refl _ _ _⟩
  obtain ⟨pb4, rp4⟩ := hp _ rfl
  generalize (if st.protect = true then
        ((protectLoop less (st.a.size + 1) st.a lo x st.b).1, (protectLoop less (st.a.size + 1) st.a lo x st.b).2.2)
      else (st.a, st.b)) = p at pb4 rp4 ⊢
  obtain ⟨a4, b4⟩ := p
  simp only at pb4 rp4 ⊢
  have hsz4 : hi ≤ a4.size := by rw [rp4.size]; exact hsz3
  -- 6. final swap
  have hb1 := pb4.b1
  have hbc4 := pb4.bc
  have hch4 := pb4.ch
  have G := fun k => sw_at a4 lo (b4 - 1) k (by omega) (by omega)
  have hfin := sw_rangePres a4 lo (b4 - 1) lo hi (Nat.le_refl _) (by omega) (by omega) (by omega) hsz4
  -- values after the swap
  have valLe : ∀ i, lo ≤ i → i < b4 - 1 → less pv (at' (sw a4 lo (b4 - 1)) i) = false := by
    intro i h1 h2
    rw [G i]
    have : i ≠ b4 - 1 := by omega
    rw [if_neg this]
    by_cases e : i = lo
    · rw [if_pos e]; exact pb4.le (b4 - 1) (by omega) (by omega)
    · rw [if_neg e]; exact pb4.le i (by omega) (by omega)
  have valMidLe : ∀ i, b4 - 1 ≤ i → i < st.c → less pv (at' (sw a4 lo (b4 - 1)) i) = false := by
    intro i h1 h2
    rw [G i]
    by_cases e : i = b4 - 1
    · rw [if_pos e, pb4.piv]; exact less_irrefl less sw0 _
    · rw [if_neg e]
      have : i ≠ lo := by omega
      rw [if_neg this]; exact (pb4.eq i (by omega) h2).1
  have valGe : ∀ j, b4 - 1 ≤ j → j < hi → less (at' (sw a4 lo (b4 - 1)) j) pv = false := by
    intro j h1 h2
    rw [G j]
    by_cases e : j = b4 - 1
    · rw [if_pos e, pb4.piv]; exact less_irrefl less sw0 _
    · rw [if_neg e]
      have : j ≠ lo := by omega
      rw [if_neg this]
      by_cases e2 : j < st.c
      · exact (pb4.eq j (by omega) e2).2
      · exact pb4.ge j (by omega) h2
  refine ⟨?_, by omega, by omega, hch4, ?_, ?_⟩
  · exact rp1.trans ((rp2.mono (by omega) (by omega)).trans ((rp3.mono (by omega) (Nat.le_refl _)).trans
      ((rp4.mono (by omega) (Nat.le_refl _)).trans hfin)))
  · intro i j h1 h2 h3 h4
    exact sw0.le_trans _ _ _ (valLe i h1 h2) (valGe j h3 h4)
  · intro i j h1 h2 h3 h4
    exact sw0.le_trans _ _ _ (valMidLe i h1 h2) (valGe j (by omega) h4)

/-- C03: the mirror of `sorter.go` sorts — unconditional. -/
theorem sort_sorted_full (sw0 : SWO less) (ix : Ix) : Sorted less (sort less ix) 0 ix.size :=
  sort_sorted less sw0 (doPivot_spec less sw0) (heapSort_spec less sw0) ix

#print axioms sort_sorted_full
end Sorter
