import QF.Core.KExpr
/-!
# CE — the decision language of the row comparators, and its Go semantics

Sort, GroupBy and Distinct see a column only through `column.Comparable`: for each of the five column packages

    func (c Comparable) Compare(i, j uint32) column.CompareResult      -- an if-chain over the two cells
    func (c Column) Comparable(reverse, equalNull, nullLast bool) …    -- sets the five result fields from the flags

The extractor (go/cmd/extract/cast.go) translates both functions of every package of /repo's current source and writes
them to `QF/Gen/Compare.lean` on every run: `Compare` as a term of `CE` (a decision tree whose leaves are the fields
`ltValue`, `gtValue`, `nullLtValue`, `nullGtValue`, `equalNullValue` of the receiver or a constant such as
`column.Equal`), `Comparable` as a list of guarded (parallel) assignments to those fields (`FStmt`).

Terms name the operands by ROLE: `x` is the cell at the first index parameter, `y` the cell at the second one, whatever
the Go variables are called. `x < y` and `y > x` are the same condition (`xLtY`); `y < x` is `xGtY`.

`CE.eval` follows Go's semantics of the tests at the column's element type (the operators are those of `KExpr.lean`):

* int    — Go `int` comparison
* float  — IEEE-754 `<`, `>`, `==` on the bit patterns (`F64.lt/eq`: false as soon as one side is NaN), `math.IsNaN`
* bool   — `==`; the cell itself as a condition (`xTrue`)
* string — `x, xNull := c.column.bytesAt(i)` (`nil, true` for a null cell); `bytes.Compare(x, y)` is -1 / 0 / 1:
           `xLtY` is "= -1", `xGtY` is "= 1", `xEqY` is "= 0"
* enum   — the cell is an `enumVal` (uint8): the rank of the string in the value table, 255 for null; `isNull()`;
           `<`, `>`, `==` on the raw codes
-/
namespace QF

/-- `column.CompareResult` (internal/column/column.go) -/
inductive CRes where
  | lessThan
  | greaterThan
  | equal
  /-- "Used when comparing null with null" -/
  | notEqual
  deriving DecidableEq, Repr, Inhabited

/-- The result fields of the `Comparable` structs. -/
inductive CField where
  | lt | gt | nullLt | nullGt | equalNull
  deriving DecidableEq, Repr, Inhabited

/-- What a `return` of `Compare` (or the right-hand side of an assignment of `Comparable`) names. -/
inductive CRet where
  /-- `c.ltValue` … -/
  | field (f : CField)
  /-- `column.Equal` … -/
  | const (r : CRes)
  deriving DecidableEq, Repr, Inhabited

/-- Conditions of `Compare`, by role. -/
inductive CCond where
  /-- `x < y` (`y > x`); `bytes.Compare(x, y) == -1` -/
  | xLtY
  /-- `x > y` (`y < x`); `bytes.Compare(x, y) == 1` -/
  | xGtY
  /-- `x == y` (`y == x`); `bytes.Compare(x, y) == 0` -/
  | xEqY
  /-- second result of `bytesAt(i)` (string); `x.isNull()` (enum) -/
  | xNull
  | yNull
  /-- `math.IsNaN(x)` -/
  | xNaN
  | yNaN
  /-- the bool cell itself -/
  | xTrue
  | yTrue
  | not (c : CCond)
  | or (c d : CCond)
  | and (c d : CCond)
  /-- a condition the translator does not understand -/
  | opaque (txt : String)
  deriving DecidableEq, Repr, Inhabited

/-- `Compare` as a decision tree. -/
inductive CE where
  | ret (r : CRet)
  | ite (c : CCond) (t e : CE)
  /-- statements the translator does not understand (or a path without `return`) -/
  | opaque (txt : String)
  deriving DecidableEq, Repr, Inhabited

/-- The five result fields of a `Comparable` value. -/
structure CFields where
  lt : CRes
  gt : CRes
  nullLt : CRes
  nullGt : CRes
  equalNull : CRes
  deriving DecidableEq, Repr, Inhabited

def CFields.get (F : CFields) : CField → CRes
  | .lt => F.lt | .gt => F.gt | .nullLt => F.nullLt | .nullGt => F.nullGt | .equalNull => F.equalNull

def CFields.set (F : CFields) (f : CField) (v : CRes) : CFields :=
  match f with
  | .lt => { F with lt := v } | .gt => { F with gt := v } | .nullLt => { F with nullLt := v }
  | .nullGt => { F with nullGt := v } | .equalNull => { F with equalNull := v }

def CRet.val (F : CFields) : CRet → CRes
  | .field f => F.get f
  | .const r => r

/-- cells of the column's type: an int / float / bool cell for such a column, a nullable string for a string column, and
for an enum column null or a member of the value table with rank < 255 (the representation invariant of
`ecolumn.Column`) -/
def wtCell (ty : CType) (vals : List Bytes) (x : Cell) : Bool := (cellVal ty vals x).isSome

/-- Go's `a op b` on the two cells -/
def cmpCells (op : String) (ty : CType) (vals : List Bytes) (x y : Cell) : Option Bool :=
  match cellVal ty vals x, cellVal ty vals y with
  | some u, some v => cmpV op u v
  | _, _ => none

/-- the null test of a string cell (the flag `bytesAt` returns) or an enum cell (`isNull()`) -/
def nullOf (ty : CType) (vals : List Bytes) (x : Cell) : Option Bool :=
  match ty with
  | .string => match x with | .str s => some s.isNone | _ => none
  | .enum => match cellVal .enum vals x with | some (.enum v) => some (v == enumNull) | _ => none
  | _ => none

/-- `math.IsNaN` of a float cell -/
def nanOf (ty : CType) (x : Cell) : Option Bool :=
  match ty, x with
  | .float, .float b => some (F64.isNaN b)
  | _, _ => none

/-- a bool cell as a condition -/
def trueOf (ty : CType) (x : Cell) : Option Bool :=
  match ty, x with
  | .bool, .bool b => some b
  | _, _ => none

def CCond.eval (ty : CType) (vals : List Bytes) (x y : Cell) : CCond → Option Bool
  | .xLtY => cmpCells "<" ty vals x y
  | .xGtY => cmpCells ">" ty vals x y
  | .xEqY => cmpCells "==" ty vals x y
  | .xNull => nullOf ty vals x
  | .yNull => nullOf ty vals y
  | .xNaN => nanOf ty x
  | .yNaN => nanOf ty y
  | .xTrue => trueOf ty x
  | .yTrue => trueOf ty y
  | .not c => (c.eval ty vals x y).map (!·)
  | .or c d =>
    match c.eval ty vals x y, d.eval ty vals x y with
    | some a, some b => some (a || b)
    | _, _ => none
  | .and c d =>
    match c.eval ty vals x y, d.eval ty vals x y with
    | some a, some b => some (a && b)
    | _, _ => none
  | .opaque _ => none

/-- What `Compare(i, j)` returns for a column of type `ty` (value table `vals`) whose cells at `i` and `j` are `x` and
`y`, when the receiver's result fields are `F`; `none` when the term has no meaning there. -/
def CE.eval (ty : CType) (vals : List Bytes) (F : CFields) (x y : Cell) : CE → Option CRes
  | .ret r => some (r.val F)
  | .ite c t e =>
    match c.eval ty vals x y with
    | some true => t.eval ty vals F x y
    | some false => e.eval ty vals F x y
    | none => none
  | .opaque _ => none

def CCond.hasOpaque : CCond → Bool
  | .opaque _ => true
  | .not c => c.hasOpaque
  | .or c d | .and c d => c.hasOpaque || d.hasOpaque
  | _ => false

/-- Does the term contain a part the translator did not understand? -/
def CE.hasOpaque : CE → Bool
  | .opaque _ => true
  | .ite c t e => c.hasOpaque || t.hasOpaque || e.hasOpaque
  | .ret _ => false

/-! ## `Column.Comparable`: the result fields as a function of the flags -/

/-- The parameters of `Comparable(reverse, equalNull, nullLast bool)`, by position. -/
inductive CFlag where
  | reverse | equalNull | nullLast
  deriving DecidableEq, Repr, Inhabited

structure CFlags where
  reverse : Bool
  equalNull : Bool
  nullLast : Bool
  deriving DecidableEq, Repr, Inhabited

def CFlags.get (fl : CFlags) : CFlag → Bool
  | .reverse => fl.reverse | .equalNull => fl.equalNull | .nullLast => fl.nullLast

/-- One statement of `Column.Comparable`. -/
inductive FStmt where
  /-- `if <guard> { result.l₁, …, result.lₙ = r₁, …, rₙ }`: the guard is a conjunction of flags / negated flags (the
  enclosing `if`s); the composite literal `Comparable{l₁: r₁, …}` is an unguarded assignment. Go evaluates all right-hand
  sides before it assigns. -/
  | assign (guard : List (CFlag × Bool)) (lhs : List CField) (rhs : List CRet)
  | opaque (txt : String)
  deriving DecidableEq, Repr, Inhabited

def FStmt.exec (fl : CFlags) (F : CFields) : FStmt → Option CFields
  | .opaque _ => none
  | .assign g lhs rhs =>
    if g.all (fun p => fl.get p.1 == p.2) then
      if lhs.length = rhs.length then
        some ((lhs.zip (rhs.map (·.val F))).foldl (fun G p => G.set p.1 p.2) F)
      else none
    else some F

def execFields (fl : CFlags) : List FStmt → CFields → Option CFields
  | [], F => some F
  | s :: ss, F =>
    match s.exec fl F with
    | some G => execFields fl ss G
    | none => none

/-- The zero value of the struct: `CompareResult` is a `byte`, its first constant (`iota` = 0) is `LessThan`. -/
def CFields.zero : CFields := ⟨.lessThan, .lessThan, .lessThan, .lessThan, .lessThan⟩

/-- The fields of the value `Comparable(reverse, equalNull, nullLast)` returns. -/
def runFields (prog : List FStmt) (fl : CFlags) : Option CFields := execFields fl prog CFields.zero

def FStmt.isOpaque : FStmt → Bool
  | .opaque _ => true
  | _ => false

end QF
