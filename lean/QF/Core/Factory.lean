import QF.Spec.Basic
/-!
# FT / FI / FL — the language of the enum FACTORY of internal/ecolumn/column.go, and its Go semantics

    type Factory struct { column Column; valToEnum map[string]enumVal }
    func NewFactory(values []string, sizeHint int) (*Factory, error)
    func (f *Factory) AppendNil() · AppendEnum(val enumVal) · AppendString(str string) error · appendString(str string) error
                      AppendByteString(str []byte) error · enumVal(s *string) (enumVal, error) · ToColumn() Column
    func New(data []*string, values []string) (Column, error)
    func NewConst(val *string, count int, values []string) (Column, error)

The extractor (go/cmd/extract/east.go) executes the bodies of the methods symbolically, with the calls of other methods
of the factory inlined (`appendString`, `newEnumVal`, `AppendEnum`), and writes what remains to `QF/Gen/Construct.lean` on
every run:

* a method becomes a decision tree `FT` over the run-time state: is the pointer nil, is the string a key of the look-up
  map, the bool field of the column, the length of the value list compared with a constant — and the effects: the value
  list grows, the map gets an entry, a code is appended to the cells;
* `NewFactory` becomes a list of `FI` steps;
* `New` and `NewConst` become an `FL` term: initial state, the loop over the cells with the two method bodies it runs,
  the result.

Terms name things by ROLE, never by Go identifier: "the field of the factory that is a map", "the `[]string` field of
the column struct" (the value list), its `bool` field (strict), its field of codes (the cells), "the string the method
was called with", "the entry found in the map", "the code made from the length of the value list". Named constants
(`maxCardinality`, `nullValue`) are resolved to their numbers, the width of the code type (`type enumVal uint8`) to the
modulus of the conversion `enumVal(·)`.

`FT.run`, `runInit`, `FL.run` are the Go meaning of the terms. Untranslated code is `.opaque` and has no meaning
(`FOut.stuck`).
-/
namespace QF

inductive FCmp where
  | lt | le | gt | ge | eq | ne
  deriving DecidableEq, Repr, Inhabited

def FCmp.eval : FCmp → Nat → Nat → Bool
  | .lt, a, b => a < b
  | .le, a, b => a ≤ b
  | .gt, a, b => a > b
  | .ge, a, b => a ≥ b
  | .eq, a, b => a == b
  | .ne, a, b => a != b

/-- A code (`enumVal`), by role. -/
inductive FCode where
  /-- a constant (`nullValue`, `0`) -/
  | lit (n : Nat)
  /-- the entry found in the look-up map -/
  | seen
  /-- `enumVal(len(<value list>))` as bound by `letLen` -/
  | fresh
  /-- the code the method was called with -/
  | param
  deriving DecidableEq, Repr, Inhabited

/-- The body of a factory method, helpers inlined. -/
inductive FT where
  /-- `s == nil` for the `*string` the method was called with; in `e` the string is `*s` -/
  | ifNil (t e : FT)
  /-- `e, ok := f.<map>[<the string>]`: `t` runs with the entry bound (`FCode.seen`), `e` when there is none -/
  | ifSeen (t e : FT)
  /-- the bool field of the column struct -/
  | ifStrict (t e : FT)
  /-- `len(f.<column>.<value list>) <cmp> bound` -/
  | ifCard (cmp : FCmp) (bound : Nat) (t e : FT)
  /-- `ev := enumVal(len(f.<column>.<value list>))`; `enumVal` is an unsigned type of `modulus` values -/
  | letLen (modulus : Nat) (k : FT)
  /-- `f.<column>.<value list> = append(f.<column>.<value list>, <the string>)` -/
  | appendValue (k : FT)
  /-- `f.<map>[<the string>] = c` -/
  | mapPut (c : FCode) (k : FT)
  /-- `f.<column>.<cells> = append(f.<column>.<cells>, c)` -/
  | push (c : FCode) (k : FT)
  /-- `return` / `return nil` -/
  | retNil
  /-- `return c, nil` -/
  | retCode (c : FCode)
  /-- `return [<code>,] <non-nil error>` -/
  | retErr
  | opaque (txt : String)
  deriving DecidableEq, Repr, Inhabited

/-- The steps of `NewFactory(values, sizeHint)`. -/
inductive FI where
  /-- `if len(values) <cmp> bound { return nil, <error> }` -/
  | rejectIfLen (cmp : FCmp) (bound : Nat)
  /-- `if values == nil { values = make([]string, 0) }` (a nil and an empty slice are the same list here) -/
  | nilToEmpty
  /-- `m := make(map[string]enumVal, …); for i, v := range values { m[v] = enumVal(i) }` -/
  | mapFromValues (modulus : Nat)
  /-- `return &Factory{<column>: Column{<cells>: make([]enumVal, 0, …), <value list>: values, <strict>: len(values) <cmp> bound},
  <map>: m}, nil` -/
  | build (cmp : FCmp) (bound : Nat)
  | opaque (txt : String)
  deriving DecidableEq, Repr, Inhabited

/-- The constructors `New(data, values)` and `NewConst(val, count, values)`. -/
inductive FL where
  /-- `f, err := NewFactory(values, …); if err != nil { return Column{}, err }` -/
  | init (k : FL)
  /-- `for _, d := range data { if d != nil { if err := f.<onStr>(*d); err != nil { return Column{}, err } } else { f.<onNil>() } }`
  with the bodies of the two methods -/
  | forEachCell (onNil onStr : FT) (k : FL)
  /-- `eV, err := f.<m>(val); if err != nil { return Column{}, err }` -/
  | codeOf (m : FT) (k : FL)
  /-- `for i := 0; i < count; i++ { f.<m>(eV) }` -/
  | repeatPush (m : FT) (k : FL)
  /-- `return f.<toColumn>(), nil` where that method is `return f.<column>` -/
  | retColumn
  | opaque (txt : String)
  deriving DecidableEq, Repr, Inhabited

/-! ## Go semantics -/

/-- The factory: the column under construction and the look-up map (latest entry first; a later entry for a key hides
the earlier ones, as an assignment to a Go map replaces them). -/
structure FState where
  values : List Bytes
  strict : Bool
  data : List Nat
  map : List (Bytes × Nat)
  deriving Repr, Inhabited

/-- What a method body knows: the string it was called with (`none`: a nil pointer), the code it was called with, the
entry found, the code made from the length. -/
structure FEnv where
  arg : Option Bytes := none
  param : Nat := 0
  seen : Option Nat := none
  fresh : Option Nat := none

inductive FOut where
  /-- `return nil` (or no result) -/
  | ok (σ : FState)
  /-- `return c, nil` -/
  | code (σ : FState) (c : Nat)
  /-- a non-nil error -/
  | err
  /-- no meaning: untranslated code, a role that is not available on the path, a nil pointer dereferenced -/
  | stuck
  deriving Repr, Inhabited

def FCode.val (E : FEnv) : FCode → Option Nat
  | .lit n => some n
  | .seen => E.seen
  | .fresh => E.fresh
  | .param => some E.param

def FT.run : FT → FEnv → FState → FOut
  | .ifNil t e, E, σ =>
    match E.arg with
    | none => t.run E σ
    | some _ => e.run E σ
  | .ifSeen t e, E, σ =>
    match E.arg with
    | none => .stuck
    | some s =>
      match σ.map.lookup s with
      | some c => t.run { E with seen := some c } σ
      | none => e.run E σ
  | .ifStrict t e, E, σ => if σ.strict then t.run E σ else e.run E σ
  | .ifCard cmp b t e, E, σ => if cmp.eval σ.values.length b then t.run E σ else e.run E σ
  | .letLen m k, E, σ => k.run { E with fresh := some (σ.values.length % m) } σ
  | .appendValue k, E, σ =>
    match E.arg with
    | none => .stuck
    | some s => k.run E { σ with values := σ.values ++ [s] }
  | .mapPut c k, E, σ =>
    match E.arg, c.val E with
    | some s, some v => k.run E { σ with map := (s, v) :: σ.map }
    | _, _ => .stuck
  | .push c k, E, σ =>
    match c.val E with
    | some v => k.run E { σ with data := σ.data ++ [v] }
    | none => .stuck
  | .retNil, _, σ => .ok σ
  | .retCode c, E, σ =>
    match c.val E with
    | some v => .code σ v
    | none => .stuck
  | .retErr, _, _ => .err
  | .opaque _, _, _ => .stuck

/-- `for i, v := range values { m[v] = enumVal(i) }` from position `i` on -/
def mapFrom (modulus : Nat) : List Bytes → Nat → List (Bytes × Nat) → List (Bytes × Nat)
  | [], _, m => m
  | v :: vs, i, m => mapFrom modulus vs (i + 1) ((v, i % modulus) :: m)

/-- `NewFactory(values, _)`; `m`: the map once it is made. -/
def runInit (values : List Bytes) : List FI → Option (List (Bytes × Nat)) → FOut
  | [], _ => .stuck
  | .rejectIfLen cmp b :: is, m => if cmp.eval values.length b then .err else runInit values is m
  | .nilToEmpty :: is, m => runInit values is m
  | .mapFromValues md :: is, _ => runInit values is (some (mapFrom md values 0 []))
  | .build cmp b :: _, some m => .ok { values := values, strict := cmp.eval values.length b, data := [], map := m }
  | .build _ _ :: _, none => .stuck
  | .opaque _ :: _, _ => .stuck

/-- the loop over the cells -/
def foldCells (onNil onStr : FT) : FState → List (Option Bytes) → FOut
  | σ, [] => .ok σ
  | σ, c :: cs =>
    match (match c with
      | none => onNil.run {} σ
      | some s => onStr.run { arg := some s } σ) with
    | .ok σ' => foldCells onNil onStr σ' cs
    | .code _ _ => .stuck
    | .err => .err
    | .stuck => .stuck

/-- `for i := 0; i < count; i++ { f.<m>(eV) }` -/
def repeatRun (m : FT) (c : Nat) : Nat → FState → FOut
  | 0, σ => .ok σ
  | n + 1, σ =>
    match m.run { param := c } σ with
    | .ok σ' => repeatRun m c n σ'
    | .code _ _ => .stuck
    | .err => .err
    | .stuck => .stuck

/-- The arguments of the two constructors. -/
structure FIn where
  /-- `values` -/
  declared : List Bytes
  /-- `data` of `New` -/
  cells : List (Option Bytes) := []
  /-- `val`, `count` of `NewConst` -/
  val : Option Bytes := none
  count : Nat := 0

/-- `σ`: the factory once made; `code`: `eV` once computed. The result is `.ok σ` (the column `σ` describes is
returned), `.err` or `.stuck`. -/
def FL.run (init : List FI) (I : FIn) : FL → Option FState → Option Nat → FOut
  | .init k, none, c =>
    match runInit I.declared init none with
    | .ok σ => k.run init I (some σ) c
    | .code _ _ => .stuck
    | .err => .err
    | .stuck => .stuck
  | .init _, some _, _ => .stuck
  | .forEachCell onNil onStr k, some σ, c =>
    match foldCells onNil onStr σ I.cells with
    | .ok σ' => k.run init I (some σ') c
    | .code _ _ => .stuck
    | .err => .err
    | .stuck => .stuck
  | .codeOf m k, some σ, none =>
    match m.run { arg := I.val } σ with
    | .code σ' c => k.run init I (some σ') (some c)
    | .ok _ => .stuck
    | .err => .err
    | .stuck => .stuck
  | .repeatPush m k, some σ, some c =>
    match repeatRun m c I.count σ with
    | .ok σ' => k.run init I (some σ') (some c)
    | .code _ _ => .stuck
    | .err => .err
    | .stuck => .stuck
  | .retColumn, some σ, _ => .ok σ
  | _, _, _ => .stuck

def FT.hasOpaque : FT → Bool
  | .opaque _ => true
  | .ifNil a b | .ifSeen a b | .ifStrict a b | .ifCard _ _ a b => a.hasOpaque || b.hasOpaque
  | .letLen _ k | .appendValue k | .mapPut _ k | .push _ k => k.hasOpaque
  | _ => false

def FI.hasOpaque : FI → Bool
  | .opaque _ => true
  | _ => false

def FL.hasOpaque : FL → Bool
  | .opaque _ => true
  | .init k => k.hasOpaque
  | .forEachCell a b k => a.hasOpaque || b.hasOpaque || k.hasOpaque
  | .codeOf m k | .repeatPush m k => m.hasOpaque || k.hasOpaque
  | .retColumn => false

end QF
