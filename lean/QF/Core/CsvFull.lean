/-! Prototype: the whole fastcsv reader is independent of the read schedule. The model follows the
    repaired internal/fastcsv/csv.go: look-ahead loop in `nextQuotedField`; CR skipped only after a
    closing quote; a last record ending with a delimiter and no line break yields a final empty field
    (`fields.next` at EOF with `fieldStart > 0`, `nextQuotedField` at EOF with the delimiter as last byte). -/
namespace Full
abbrev Byte := UInt8

structure St where
  data : List Byte       -- loaded bytes
  future : List Byte     -- not yet delivered
  sched : List Nat       -- chunk sizes (each treated as ≥ 1)
  cursor : Nat
deriving Repr

inductive RErr | eof deriving Repr, DecidableEq

def St.more (s : St) : St × Option RErr :=
  if s.future.isEmpty then (s, some .eof) else
  let k := match s.sched with | [] => s.future.length | k :: _ => max k 1
  ({ s with data := s.data ++ s.future.take k, future := s.future.drop k, sched := s.sched.drop 1 }, none)

def St.loaded (s : St) : St := { s with data := s.data ++ s.future, future := [], sched := [] }
def St.slice (s : St) (i j : Nat) : List Byte := (s.data.take j).drop i
/-- reset(): drop the consumed prefix -/
def St.reset (s : St) : St := { s with data := s.data.drop s.cursor, cursor := 0 }

/-- simulation relation: t is the fully loaded twin of s -/
structure Rel (s t : St) : Prop where
  data : t.data = s.data ++ s.future
  fut : t.future = []
  cur : t.cursor = s.cursor

def QUOTE : Byte := 34
def LF : Byte := 10
def CR : Byte := 13

theorem more_spec (s : St) : (s.more).1.data ++ (s.more).1.future = s.data ++ s.future ∧ (s.more).1.cursor = s.cursor ∧
    ((s.more).2 = some .eof → s.future = [] ∧ (s.more).1 = s) ∧
    ((s.more).2 = none → (s.more).1.future.length < s.future.length ∧ s.data.length < (s.more).1.data.length) ∧
    ((s.more).2 = some .eof ∨ (s.more).2 = none) := by
  unfold St.more
  split
  · rename_i h; simp at h; simp [h]
  · rename_i h
    have hne : s.future ≠ [] := by simpa using h
    have hpos : 0 < s.future.length := List.length_pos_iff.mpr hne
    refine ⟨by simp [List.append_assoc], rfl, by simp, ?_, Or.inr rfl⟩
    intro _
    simp only [List.length_drop, List.length_append, List.length_take]
    split <;> simp <;> omega

theorem more_loaded (t : St) (hf : t.future = []) : t.more = (t, some .eof) := by
  simp [St.more, hf]

/-! ### look-ahead for the quoted loop (repaired: loop until two bytes or EOF) -/
def ensure2 (fuel : Nat) (s : St) : St × Option RErr :=
  match fuel with
  | 0 => (s, some .eof)
  | fuel + 1 =>
    if s.cursor + 1 ≥ s.data.length then
      match s.more with
      | (s', some e) => (s', some e)
      | (s', none) => ensure2 fuel s'
    else (s, none)

theorem ensure2_spec (fuel : Nat) (s : St) (hf : s.future.length < fuel) :
    (ensure2 fuel s).1.data ++ (ensure2 fuel s).1.future = s.data ++ s.future ∧ (ensure2 fuel s).1.cursor = s.cursor ∧
    ((ensure2 fuel s).2 = some .eof → (ensure2 fuel s).1.future = [] ∧ (ensure2 fuel s).1.cursor + 1 ≥ (ensure2 fuel s).1.data.length) ∧
    ((ensure2 fuel s).2 = none → (ensure2 fuel s).1.cursor + 1 < (ensure2 fuel s).1.data.length) ∧
    ((ensure2 fuel s).2 = some .eof ∨ (ensure2 fuel s).2 = none) := by
  induction fuel generalizing s with
  | zero => omega
  | succ n ih =>
    unfold ensure2
    split
    · rename_i hc
      obtain ⟨m1, m2, m3, m4, m5⟩ := more_spec s
      generalize s.more = mm at m1 m2 m3 m4 m5
      obtain ⟨s', e⟩ := mm
      cases e with
      | some e =>
        cases e
        obtain ⟨h1, h2⟩ := m3 rfl
        simp only at h2 ⊢
        subst h2
        exact ⟨rfl, rfl, fun _ => ⟨h1, hc⟩, by simp, Or.inl trivial⟩
      | none =>
        simp only at m1 m2 m4 ⊢
        obtain ⟨a, b, c, d, e⟩ := ih s' (by have := (m4 trivial).1; omega)
        exact ⟨by rw [a, m1], by rw [b, m2], c, d, e⟩
    · rename_i hc
      exact ⟨rfl, rfl, by simp, fun _ => by simp only; omega, Or.inr rfl⟩

theorem ensure2_loaded (fuel : Nat) (t : St) (hf : t.future = []) (h0 : 0 < fuel) :
    ensure2 fuel t = (t, if t.cursor + 1 ≥ t.data.length then some .eof else none) := by
  cases fuel with
  | zero => omega
  | succ n =>
    unfold ensure2
    split
    · simp [St.more, hf]
    · rfl

structure Res where
  field : List Byte
  hitEOL : Bool
  err : Option RErr
deriving Repr, DecidableEq

/-- nextQuotedField; returns the result and the final buffer state -/
def quoted (delim : Byte) (fuel : Nat) (s : St) (start w qc : Nat) : Option (Res × St) :=
  match fuel with
  | 0 => none
  | fuel + 1 =>
    match ensure2 (s.future.length + 1) s with
    | (s, some e) =>
      -- `err == io.EOF` (the only error of this model) `&& quoteCount%2 != 0 && cursor < len(data) &&
      -- data[cursor] == delimiter`: the input ends with a delimiter right after the closing quote;
      -- the delimiter is consumed, the row continues (with the empty last field of `fnext`)
      if qc % 2 != 0 && decide (s.cursor < s.data.length) && s.data[s.cursor]? == some delim then
        some (⟨s.slice start w, false, none⟩, { s with cursor := s.cursor + 1 })
      else some (⟨s.slice start w, true, some e⟩, s)
    | (s, none) =>
      match s.data[s.cursor]? with
      | none => none
      | some ch =>
        let s := { s with cursor := s.cursor + 1 }
        -- `keep` is a function, so that (compiled, strict evaluation) its recursive call runs only in the
        -- branch that takes it
        let keep : Unit → Option (Res × St) := fun _ =>
          if w + 1 != s.cursor then
            match s.data[s.cursor]? with
            | none => none
            | some nb => quoted delim fuel { s with data := s.data.set (w + 1) nb } start (w + 1) 0
          else quoted delim fuel s start (w + 1) 0
        if ch == delim then (if qc % 2 != 0 then some (⟨s.slice start w, false, none⟩, s) else keep ())
        else if ch == LF then (if qc % 2 != 0 then some (⟨s.slice start w, true, none⟩, s) else keep ())
        else if ch == CR then (if qc % 2 != 0 then quoted delim fuel s start w qc else keep ())
        else if ch == QUOTE then (if (qc + 1) % 2 == 1 then quoted delim fuel s start w (qc + 1) else keep ())
        else keep ()

theorem get_append (a b : List Byte) (i : Nat) (h : i < a.length) : (a ++ b)[i]? = a[i]? := by
  simp [List.getElem?_append_left h]
theorem set_append (a b : List Byte) (i : Nat) (x : Byte) (h : i < a.length) : (a ++ b).set i x = a.set i x ++ b := by
  simp [h]
theorem slice_append (a b : List Byte) (i j : Nat) (h : j ≤ a.length) : ((a ++ b).take j).drop i = (a.take j).drop i := by
  rw [List.take_append_of_le_length h]

theorem quoted_sim (delim : Byte) (fuel : Nat) : ∀ (s t : St) (start w qc : Nat), Rel s t → w ≤ s.cursor →
    ∀ r s', quoted delim fuel s start w qc = some (r, s') →
      ∃ t', quoted delim fuel t start w qc = some (r, t') ∧ Rel s' t' ∧ w ≤ s'.cursor ∧ s.cursor ≤ s'.cursor := by
  induction fuel with
  | zero => intro s t start w qc _ _ r s' h; simp [quoted] at h
  | succ n ih =>
    intro s t start w qc rel hw r s' h
    obtain ⟨hd, hf, hc⟩ := rel
    unfold quoted at h ⊢
    have es := ensure2_spec (s.future.length + 1) s (by omega)
    generalize ensure2 (s.future.length + 1) s = rs at es h
    obtain ⟨s1, e1⟩ := rs
    simp only at es
    obtain ⟨a1, a2, a3, a4, a5⟩ := es
    rw [ensure2_loaded _ t hf (by omega)]
    have htd : t.data = s1.data ++ s1.future := by rw [hd, a1]
    have htc : t.cursor = s1.cursor := by rw [hc, a2]
    rcases a5 with he | he
    · subst he
      obtain ⟨f0, f1⟩ := a3 rfl
      simp only at h
      have hlen : t.data.length = s1.data.length := by rw [htd, f0]; simp
      have htd' : t.data = s1.data := by rw [htd, f0, List.append_nil]
      simp only [htc, hlen, f1, ↓reduceIte]
      simp only [St.slice, htd'] at h ⊢
      by_cases hcd : (qc % 2 != 0 && decide (s1.cursor < s1.data.length) && s1.data[s1.cursor]? == some delim) = true
      · simp only [hcd, ↓reduceIte, Option.some.injEq, Prod.mk.injEq] at h ⊢
        obtain ⟨hr, hs⟩ := h
        subst hs
        exact ⟨_, ⟨hr, rfl⟩, ⟨by show s1.data = s1.data ++ s1.future; rw [f0, List.append_nil], hf, rfl⟩,
          by show w ≤ s1.cursor + 1; omega, by show s.cursor ≤ s1.cursor + 1; omega⟩
      · simp only [hcd, Bool.false_eq_true, ↓reduceIte, Option.some.injEq, Prod.mk.injEq] at h ⊢
        obtain ⟨hr, hs⟩ := h
        subst hs
        exact ⟨t, ⟨hr, rfl⟩, ⟨htd, hf, htc⟩, by omega, by omega⟩
    · subst he
      have g1 := a4 rfl
      simp only at h
      have hlen : ¬ (t.cursor + 1 ≥ t.data.length) := by rw [htc, htd]; simp; omega
      simp only [hlen, ↓reduceIte]
      have hw1 : w ≤ s1.cursor := by omega
      have hget : t.data[t.cursor]? = s1.data[s1.cursor]? := by
        rw [htd, htc]; exact get_append _ _ _ (by omega)
      rw [hget]
      cases hch : s1.data[s1.cursor]? with
      | none => rw [hch] at h; simp at h
      | some ch =>
        rw [hch] at h
        simp only at h ⊢
        have hslice : ∀ (c : Nat), ({ t with cursor := c } : St).slice start w = ({ s1 with cursor := c } : St).slice start w := by
          intro c; simp only [St.slice, htd]; exact slice_append _ _ _ _ (by omega)
        have hkeep : ∀ r s',
            (if (w + 1 != s1.cursor + 1) = true then
              match s1.data[s1.cursor + 1]? with
              | none => none
              | some nb => quoted delim n { s1 with cursor := s1.cursor + 1, data := s1.data.set (w + 1) nb } start (w + 1) 0
            else quoted delim n { s1 with cursor := s1.cursor + 1 } start (w + 1) 0) = some (r, s') →
            ∃ t', (if (w + 1 != t.cursor + 1) = true then
              match t.data[t.cursor + 1]? with
              | none => none
              | some nb => quoted delim n { t with cursor := t.cursor + 1, data := t.data.set (w + 1) nb } start (w + 1) 0
            else quoted delim n { t with cursor := t.cursor + 1 } start (w + 1) 0) = some (r, t') ∧ Rel s' t' ∧ w ≤ s'.cursor ∧ s.cursor ≤ s'.cursor := by
          intro r s' hk
          rw [htc]
          split at hk
          · rename_i hne
            simp only [hne, ↓reduceIte]
            have hg2 : t.data[s1.cursor + 1]? = s1.data[s1.cursor + 1]? := by
              rw [htd]; exact get_append _ _ _ (by omega)
            rw [hg2]
            cases hnb : s1.data[s1.cursor + 1]? with
            | none => rw [hnb] at hk; simp at hk
            | some nb =>
              rw [hnb] at hk
              simp only at hk ⊢
              have hlt : w + 1 < s1.data.length := by
                have : w + 1 ≠ s1.cursor + 1 := by simpa using hne
                omega
              obtain ⟨t', q1, q2, q3, q4⟩ := ih { s1 with cursor := s1.cursor + 1, data := s1.data.set (w + 1) nb }
                { t with cursor := s1.cursor + 1, data := t.data.set (w + 1) nb } start (w + 1) 0
                ⟨by show t.data.set (w + 1) nb = s1.data.set (w + 1) nb ++ s1.future; rw [htd]; exact set_append _ _ _ _ hlt, hf, rfl⟩
                (by show w + 1 ≤ s1.cursor + 1; omega) r s' hk
              exact ⟨t', q1, q2, by omega, by simp only at q4; omega⟩
          · rename_i hne
            simp only [hne, Bool.false_eq_true, ↓reduceIte]
            obtain ⟨t', q1, q2, q3, q4⟩ := ih { s1 with cursor := s1.cursor + 1 } { t with cursor := s1.cursor + 1 } start (w + 1) 0
              ⟨htd, hf, rfl⟩ (by show w + 1 ≤ s1.cursor + 1; omega) r s' hk
            exact ⟨t', q1, q2, by omega, by simp only at q4; omega⟩
        have hrec : ∀ qc' r s', quoted delim n { s1 with cursor := s1.cursor + 1 } start w qc' = some (r, s') →
            ∃ t', quoted delim n { t with cursor := t.cursor + 1 } start w qc' = some (r, t') ∧ Rel s' t' ∧ w ≤ s'.cursor ∧ s.cursor ≤ s'.cursor := by
          intro qc' r s' hk
          obtain ⟨t', q1, q2, q3, q4⟩ := ih { s1 with cursor := s1.cursor + 1 } { t with cursor := t.cursor + 1 } start w qc'
            ⟨htd, hf, by show t.cursor + 1 = s1.cursor + 1; rw [htc]⟩ (by show w ≤ s1.cursor + 1; omega) r s' hk
          exact ⟨t', q1, q2, q3, by simp only at q4; omega⟩
        have hret : ∀ eol : Bool,
            some (Res.mk (St.slice { s1 with cursor := s1.cursor + 1 } start w) eol none, ({ s1 with cursor := s1.cursor + 1 } : St)) = some (r, s') →
            ∃ t', some (Res.mk (St.slice { t with cursor := t.cursor + 1 } start w) eol none, ({ t with cursor := t.cursor + 1 } : St)) = some (r, t') ∧
              Rel s' t' ∧ w ≤ s'.cursor ∧ s.cursor ≤ s'.cursor := by
          intro eol hh
          simp only [Option.some.injEq, Prod.mk.injEq] at hh
          obtain ⟨hr, hs⟩ := hh
          subst hs
          refine ⟨{ t with cursor := t.cursor + 1 }, ?_, ⟨htd, hf, by show t.cursor + 1 = s1.cursor + 1; rw [htc]⟩,
            by show w ≤ s1.cursor + 1; omega, by show s.cursor ≤ s1.cursor + 1; omega⟩
          rw [← hr, hslice]; simp [St.slice]
        by_cases c1 : (ch == delim) = true
        · simp only [c1, ↓reduceIte] at h ⊢
          by_cases c2 : (qc % 2 != 0) = true
          · simp only [c2, ↓reduceIte] at h ⊢; exact hret _ h
          · simp only [c2, Bool.false_eq_true, ↓reduceIte] at h ⊢; exact hkeep r s' h
        · simp only [c1, Bool.false_eq_true, ↓reduceIte] at h ⊢
          by_cases c3 : (ch == LF) = true
          · simp only [c3, ↓reduceIte] at h ⊢
            by_cases c2 : (qc % 2 != 0) = true
            · simp only [c2, ↓reduceIte] at h ⊢; exact hret _ h
            · simp only [c2, Bool.false_eq_true, ↓reduceIte] at h ⊢; exact hkeep r s' h
          · simp only [c3, Bool.false_eq_true, ↓reduceIte] at h ⊢
            by_cases c4 : (ch == CR) = true
            · simp only [c4, ↓reduceIte] at h ⊢
              by_cases c2 : (qc % 2 != 0) = true
              · simp only [c2, ↓reduceIte] at h ⊢; exact hrec _ r s' h
              · simp only [c2, Bool.false_eq_true, ↓reduceIte] at h ⊢; exact hkeep r s' h
            · simp only [c4, Bool.false_eq_true, ↓reduceIte] at h ⊢
              by_cases c5 : (ch == QUOTE) = true
              · simp only [c5, ↓reduceIte] at h ⊢
                by_cases c6 : ((qc + 1) % 2 == 1) = true
                · simp only [c6, ↓reduceIte] at h ⊢; exact hrec _ r s' h
                · simp only [c6, Bool.false_eq_true, ↓reduceIte] at h ⊢; exact hkeep r s' h
              · simp only [c5, Bool.false_eq_true, ↓reduceIte] at h ⊢; exact hkeep r s' h


/-! ### one-byte availability check used by the unquoted loop and by `fields.next` -/
def ens1 (s : St) : St × Option RErr := if s.cursor ≥ s.data.length then s.more else (s, none)

theorem ens1_spec (s : St) (hcl : s.cursor ≤ s.data.length) :
    (ens1 s).1.data ++ (ens1 s).1.future = s.data ++ s.future ∧ (ens1 s).1.cursor = s.cursor ∧
    ((ens1 s).2 = some .eof → (ens1 s).1.future = [] ∧ (ens1 s).1.cursor ≥ (ens1 s).1.data.length) ∧
    ((ens1 s).2 = none → (ens1 s).1.cursor < (ens1 s).1.data.length) ∧
    ((ens1 s).2 = some .eof ∨ (ens1 s).2 = none) := by
  unfold ens1
  split
  · rename_i hc
    obtain ⟨m1, m2, m3, m4, m5⟩ := more_spec s
    refine ⟨m1, m2, fun h => ?_, fun h => ?_, m5⟩
    · obtain ⟨a, b⟩ := m3 h; rw [b]; exact ⟨a, hc⟩
    · have := (m4 h).2; rw [m2]; omega
  · rename_i hc
    exact ⟨rfl, rfl, by simp, fun _ => by simp only; omega, Or.inr rfl⟩

theorem ens1_loaded (t : St) (hf : t.future = []) :
    ens1 t = (t, if t.cursor ≥ t.data.length then some .eof else none) := by
  unfold ens1
  split
  · simp [St.more, hf]
  · rfl

structure FS where
  st : St
  fieldStart : Nat
  hitEOL : Bool
  field : List Byte
  err : Option RErr

structure RelF (a b : FS) : Prop where
  st : Rel a.st b.st
  fs : b.fieldStart = a.fieldStart
  eol : b.hitEOL = a.hitEOL
  fld : b.field = a.field
  err : b.err = a.err

/-- nextUnquotedField -/
def unq (delim : Byte) (fuel : Nat) (fs : FS) : Option (FS × Bool) :=
  match fuel with
  | 0 => none
  | fuel + 1 =>
    match ens1 fs.st with
    | (st, some e) => some ({ fs with st := st, field := st.slice fs.fieldStart st.cursor, hitEOL := true, err := some e }, true)
    | (st, none) =>
      match st.data[st.cursor]? with
      | none => none
      | some ch =>
        if ch == delim then
          some ({ fs with st := { st with cursor := st.cursor + 1 }, field := st.slice fs.fieldStart st.cursor, fieldStart := st.cursor + 1 }, true)
        else if ch == LF then
          some ({ fs with st := { st with cursor := st.cursor + 1 }, field := st.slice fs.fieldStart st.cursor, hitEOL := true }, true)
        else unq delim fuel { fs with st := { st with cursor := st.cursor + 1 } }

theorem unq_sim (delim : Byte) (fuel : Nat) : ∀ (a b : FS), RelF a b → a.fieldStart ≤ a.st.cursor → a.st.cursor ≤ a.st.data.length →
    ∀ a' ok, unq delim fuel a = some (a', ok) →
      ∃ b', unq delim fuel b = some (b', ok) ∧ RelF a' b' ∧ a.st.cursor ≤ a'.st.cursor ∧ a'.st.cursor ≤ a'.st.data.length ∧
        a'.fieldStart ≤ a'.st.cursor := by
  induction fuel with
  | zero => intro a b _ _ _ a' ok h; simp [unq] at h
  | succ n ih =>
    intro a b rel hfs hcl a' ok h
    obtain ⟨⟨hd, hf, hc⟩, r2, r3, r4, r5⟩ := rel
    unfold unq at h ⊢
    obtain ⟨a1, a2, a3, a4, a5⟩ := ens1_spec a.st hcl
    generalize ens1 a.st = rs at a1 a2 a3 a4 a5 h
    obtain ⟨s1, e1⟩ := rs
    simp only at a1 a2 a3 a4 a5
    rw [ens1_loaded _ hf]
    have htd : b.st.data = s1.data ++ s1.future := by rw [hd, a1]
    have htc : b.st.cursor = s1.cursor := by rw [hc, a2]
    rcases a5 with he | he
    · subst he
      obtain ⟨f0, f1⟩ := a3 rfl
      simp only at h
      have hlen : b.st.data.length = s1.data.length := by rw [htd, f0]; simp
      have hcnd : b.st.cursor ≥ b.st.data.length := by rw [htc, hlen]; exact f1
      simp only [hcnd, ↓reduceIte]
      simp only [Option.some.injEq, Prod.mk.injEq] at h
      obtain ⟨h1, h2⟩ := h
      subst h1; subst h2
      refine ⟨_, rfl, ⟨⟨htd, hf, htc⟩, r2, rfl, ?_, rfl⟩, by show a.st.cursor ≤ s1.cursor; omega, ?_, by show a.fieldStart ≤ s1.cursor; omega⟩
      rotate_left
      · show s1.cursor ≤ s1.data.length
        have : s1.data.length = a.st.data.length := by
          have := congrArg List.length a1; simp [f0] at this; have h3 := congrArg List.length hd; simp at h3; omega
        omega
      show b.st.slice b.fieldStart b.st.cursor = s1.slice a.fieldStart s1.cursor
      simp [St.slice, htd, f0, r2, htc]
    · subst he
      have g1 := a4 rfl
      simp only at h
      have hcnd : ¬ b.st.cursor ≥ b.st.data.length := by rw [htc, htd]; simp; omega
      simp only [hcnd, ↓reduceIte]
      have hget : b.st.data[b.st.cursor]? = s1.data[s1.cursor]? := by
        rw [htd, htc]; exact get_append _ _ _ g1
      rw [hget]
      cases hch : s1.data[s1.cursor]? with
      | none => rw [hch] at h; simp at h
      | some ch =>
        rw [hch] at h
        simp only at h ⊢
        have hsl : b.st.slice b.fieldStart b.st.cursor = s1.slice a.fieldStart s1.cursor := by
          simp only [St.slice, htd, r2, htc]; exact slice_append _ _ _ _ (by omega)
        by_cases c1 : (ch == delim) = true
        · simp only [c1, ↓reduceIte] at h ⊢
          simp only [Option.some.injEq, Prod.mk.injEq] at h
          obtain ⟨h1, h2⟩ := h
          subst h1; subst h2
          exact ⟨_, rfl, ⟨⟨htd, hf, by show b.st.cursor + 1 = s1.cursor + 1; rw [htc]⟩, by show b.st.cursor + 1 = s1.cursor + 1; rw [htc],
            r3, hsl, r5⟩, by show a.st.cursor ≤ s1.cursor + 1; omega, by show s1.cursor + 1 ≤ s1.data.length; omega, Nat.le_refl _⟩
        · simp only [c1, Bool.false_eq_true, ↓reduceIte] at h ⊢
          by_cases c2 : (ch == LF) = true
          · simp only [c2, ↓reduceIte] at h ⊢
            simp only [Option.some.injEq, Prod.mk.injEq] at h
            obtain ⟨h1, h2⟩ := h
            subst h1; subst h2
            exact ⟨_, rfl, ⟨⟨htd, hf, by show b.st.cursor + 1 = s1.cursor + 1; rw [htc]⟩, r2, rfl, hsl, r5⟩,
              by show a.st.cursor ≤ s1.cursor + 1; omega, by show s1.cursor + 1 ≤ s1.data.length; omega,
              by show a.fieldStart ≤ s1.cursor + 1; omega⟩
          · simp only [c2, Bool.false_eq_true, ↓reduceIte] at h ⊢
            obtain ⟨b', q1, q2⟩ := ih { a with st := { s1 with cursor := s1.cursor + 1 } } { b with st := { b.st with cursor := b.st.cursor + 1 } }
              ⟨⟨htd, hf, by show b.st.cursor + 1 = s1.cursor + 1; rw [htc]⟩, r2, r3, r4, r5⟩
              (by show a.fieldStart ≤ s1.cursor + 1; omega) (by show s1.cursor + 1 ≤ s1.data.length; omega) a' ok h
            exact ⟨b', q1, q2.1, by have := q2.2.1; simp only at this; omega, q2.2.2.1, q2.2.2.2⟩


/-- the quoted loop keeps the cursor inside the loaded data -/
theorem quoted_inb (delim : Byte) (fuel : Nat) : ∀ (s : St) (start w qc : Nat), s.cursor ≤ s.data.length →
    ∀ r s', quoted delim fuel s start w qc = some (r, s') → s'.cursor ≤ s'.data.length := by
  induction fuel with
  | zero => intro s start w qc _ r s' h; simp [quoted] at h
  | succ n ih =>
    intro s start w qc hcl r s' h
    unfold quoted at h
    obtain ⟨a1, a2, a3, a4, a5⟩ := ensure2_spec (s.future.length + 1) s (by omega)
    generalize ensure2 (s.future.length + 1) s = rs at a1 a2 a3 a4 a5 h
    obtain ⟨s1, e1⟩ := rs
    simp only at a1 a2 a3 a4 a5
    rcases a5 with he | he
    · subst he
      -- s1.cursor = s.cursor ≤ s.data.length ≤ s1.data.length
      have hl : s.data.length ≤ s1.data.length := by
        have := congrArg List.length a1
        have f0 := (a3 rfl).1
        simp [f0] at this; omega
      simp only at h
      by_cases hcd : (qc % 2 != 0 && decide (s1.cursor < s1.data.length) && s1.data[s1.cursor]? == some delim) = true
      · simp only [hcd, ↓reduceIte, Option.some.injEq, Prod.mk.injEq] at h
        obtain ⟨_, hs⟩ := h
        subst hs
        simp only [Bool.and_eq_true, decide_eq_true_eq] at hcd
        show s1.cursor + 1 ≤ s1.data.length
        omega
      · simp only [hcd, Bool.false_eq_true, ↓reduceIte, Option.some.injEq, Prod.mk.injEq] at h
        obtain ⟨_, hs⟩ := h
        subst hs
        omega
    · subst he
      have g1 := a4 rfl
      simp only at h
      cases hch : s1.data[s1.cursor]? with
      | none => rw [hch] at h; simp at h
      | some ch =>
        rw [hch] at h
        simp only at h
        have hkeep : ∀ r s',
            (if (w + 1 != s1.cursor + 1) = true then
              match s1.data[s1.cursor + 1]? with
              | none => none
              | some nb => quoted delim n { s1 with cursor := s1.cursor + 1, data := s1.data.set (w + 1) nb } start (w + 1) 0
            else quoted delim n { s1 with cursor := s1.cursor + 1 } start (w + 1) 0) = some (r, s') → s'.cursor ≤ s'.data.length := by
          intro r s' hk
          split at hk
          · cases hnb : s1.data[s1.cursor + 1]? with
            | none => rw [hnb] at hk; simp at hk
            | some nb =>
              rw [hnb] at hk
              exact ih _ start (w + 1) 0 (by show s1.cursor + 1 ≤ (s1.data.set (w + 1) nb).length; simp; omega) r s' hk
          · exact ih _ start (w + 1) 0 (by show s1.cursor + 1 ≤ s1.data.length; omega) r s' hk
        have hrec : ∀ qc' r s', quoted delim n { s1 with cursor := s1.cursor + 1 } start w qc' = some (r, s') → s'.cursor ≤ s'.data.length :=
          fun qc' r s' hk => ih _ start w qc' (by show s1.cursor + 1 ≤ s1.data.length; omega) r s' hk
        have hret : ∀ eol : Bool, some (Res.mk (St.slice { s1 with cursor := s1.cursor + 1 } start w) eol none, ({ s1 with cursor := s1.cursor + 1 } : St)) = some (r, s') →
            s'.cursor ≤ s'.data.length := by
          intro eol hh
          simp only [Option.some.injEq, Prod.mk.injEq] at hh
          obtain ⟨_, hs⟩ := hh
          subst hs
          show s1.cursor + 1 ≤ s1.data.length; omega
        by_cases c1 : (ch == delim) = true
        · simp only [c1, ↓reduceIte] at h
          by_cases c2 : (qc % 2 != 0) = true
          · simp only [c2, ↓reduceIte] at h; exact hret _ h
          · simp only [c2, Bool.false_eq_true, ↓reduceIte] at h; exact hkeep r s' h
        · simp only [c1, Bool.false_eq_true, ↓reduceIte] at h
          by_cases c3 : (ch == LF) = true
          · simp only [c3, ↓reduceIte] at h
            by_cases c2 : (qc % 2 != 0) = true
            · simp only [c2, ↓reduceIte] at h; exact hret _ h
            · simp only [c2, Bool.false_eq_true, ↓reduceIte] at h; exact hkeep r s' h
          · simp only [c3, Bool.false_eq_true, ↓reduceIte] at h
            by_cases c4 : (ch == CR) = true
            · simp only [c4, ↓reduceIte] at h
              by_cases c2 : (qc % 2 != 0) = true
              · simp only [c2, ↓reduceIte] at h; exact hrec _ r s' h
              · simp only [c2, Bool.false_eq_true, ↓reduceIte] at h; exact hkeep r s' h
            · simp only [c4, Bool.false_eq_true, ↓reduceIte] at h
              by_cases c5 : (ch == QUOTE) = true
              · simp only [c5, ↓reduceIte] at h
                by_cases c6 : ((qc + 1) % 2 == 1) = true
                · simp only [c6, ↓reduceIte] at h; exact hrec _ r s' h
                · simp only [c6, Bool.false_eq_true, ↓reduceIte] at h; exact hkeep r s' h
              · simp only [c5, Bool.false_eq_true, ↓reduceIte] at h; exact hkeep r s' h

/-- fields.next -/
def fnext (delim : Byte) (fuel : Nat) (fs : FS) : Option (FS × Bool) :=
  if fs.hitEOL then some (fs, false) else
  match ens1 fs.st with
  | (st, some e) =>
    -- `err == io.EOF` (the only error of this model) `&& fs.fieldStart > 0`: the input ends right after a
    -- delimiter, the last field of the row is empty
    if fs.fieldStart > 0 then
      some ({ fs with st := st, err := some e, field := st.slice fs.fieldStart fs.fieldStart, hitEOL := true }, true)
    else some ({ fs with st := st, err := some e }, false)
  | (st, none) =>
    match st.data[st.cursor]? with
    | none => none
    | some first =>
      if first == QUOTE then
        match quoted delim fuel { st with cursor := st.cursor + 1 } (st.cursor + 1) (st.cursor + 1) 0 with
        | none => none
        | some (r, st') => some ({ fs with st := st', field := r.field, hitEOL := r.hitEOL, err := r.err, fieldStart := st'.cursor }, true)
      else unq delim fuel { fs with st := st }

theorem fnext_sim (delim : Byte) (fuel : Nat) (a b : FS) (rel : RelF a b) (hfs : a.fieldStart ≤ a.st.cursor)
    (hcl : a.st.cursor ≤ a.st.data.length) :
    ∀ a' ok, fnext delim fuel a = some (a', ok) →
      ∃ b', fnext delim fuel b = some (b', ok) ∧ RelF a' b' ∧ a'.fieldStart ≤ a'.st.cursor ∧ a'.st.cursor ≤ a'.st.data.length := by
  intro a' ok h
  obtain ⟨⟨hd, hf, hc⟩, r2, r3, r4, r5⟩ := rel
  unfold fnext at h ⊢
  by_cases he : a.hitEOL = true
  · have hbe : b.hitEOL = true := by rw [r3]; exact he
    simp only [he, hbe, ↓reduceIte, Option.some.injEq, Prod.mk.injEq] at h ⊢
    obtain ⟨h1, h2⟩ := h
    subst h1; subst h2
    exact ⟨b, ⟨rfl, rfl⟩, ⟨⟨hd, hf, hc⟩, r2, r3, r4, r5⟩, hfs, hcl⟩
  · have hbe : b.hitEOL = false := by rw [r3]; simpa using he
    have he' : a.hitEOL = false := by simpa using he
    simp only [he', hbe, Bool.false_eq_true, ↓reduceIte] at h ⊢
    obtain ⟨a1, a2, a3, a4, a5⟩ := ens1_spec a.st hcl
    generalize ens1 a.st = rs at a1 a2 a3 a4 a5 h
    obtain ⟨s1, e1⟩ := rs
    simp only at a1 a2 a3 a4 a5
    rw [ens1_loaded _ hf]
    have htd : b.st.data = s1.data ++ s1.future := by rw [hd, a1]
    have htc : b.st.cursor = s1.cursor := by rw [hc, a2]
    rcases a5 with hee | hee
    · subst hee
      obtain ⟨f0, f1⟩ := a3 rfl
      simp only at h
      have hlen : b.st.data.length = s1.data.length := by rw [htd, f0]; simp
      have hcnd : b.st.cursor ≥ b.st.data.length := by rw [htc, hlen]; exact f1
      simp only [hcnd, ↓reduceIte]
      have hin : s1.cursor ≤ s1.data.length := by
        have : s1.data.length = a.st.data.length + a.st.future.length := by
          have := congrArg List.length a1; simp [f0] at this; omega
        omega
      rw [r2]
      by_cases hfs0 : a.fieldStart > 0
      · simp only [hfs0, ↓reduceIte, Option.some.injEq, Prod.mk.injEq] at h ⊢
        obtain ⟨h1, h2⟩ := h
        subst h1; subst h2
        refine ⟨_, ⟨rfl, rfl⟩, ⟨⟨htd, hf, htc⟩, rfl, rfl, ?_, rfl⟩, by show a.fieldStart ≤ s1.cursor; omega, hin⟩
        show b.st.slice a.fieldStart a.fieldStart = s1.slice a.fieldStart a.fieldStart
        simp [St.slice]
      · simp only [hfs0, ↓reduceIte, Option.some.injEq, Prod.mk.injEq] at h ⊢
        obtain ⟨h1, h2⟩ := h
        subst h1; subst h2
        exact ⟨_, ⟨rfl, rfl⟩, ⟨⟨htd, hf, htc⟩, rfl, rfl, r4, rfl⟩, by show a.fieldStart ≤ s1.cursor; omega, hin⟩
    · subst hee
      have g1 := a4 rfl
      simp only at h
      have hcnd : ¬ b.st.cursor ≥ b.st.data.length := by rw [htc, htd]; simp; omega
      simp only [hcnd, ↓reduceIte]
      have hget : b.st.data[b.st.cursor]? = s1.data[s1.cursor]? := by
        rw [htd, htc]; exact get_append _ _ _ g1
      rw [hget]
      cases hch : s1.data[s1.cursor]? with
      | none => rw [hch] at h; simp at h
      | some first =>
        rw [hch] at h
        simp only at h ⊢
        by_cases cq : (first == QUOTE) = true
        · simp only [cq, ↓reduceIte] at h ⊢
          cases hq : quoted delim fuel { s1 with cursor := s1.cursor + 1 } (s1.cursor + 1) (s1.cursor + 1) 0 with
          | none => rw [hq] at h; simp at h
          | some rs =>
            obtain ⟨r, st'⟩ := rs
            rw [hq] at h
            simp only [Option.some.injEq, Prod.mk.injEq] at h
            obtain ⟨h1, h2⟩ := h
            subst h1; subst h2
            obtain ⟨t', q1, q2, q3, q4⟩ := quoted_sim delim fuel { s1 with cursor := s1.cursor + 1 } { b.st with cursor := s1.cursor + 1 }
              (s1.cursor + 1) (s1.cursor + 1) 0 ⟨htd, hf, rfl⟩ (Nat.le_refl _) r st' hq
            have hinb := quoted_inb delim fuel { s1 with cursor := s1.cursor + 1 } (s1.cursor + 1) (s1.cursor + 1) 0
              (by show s1.cursor + 1 ≤ s1.data.length; omega) r st' hq
            rw [htc, q1]
            exact ⟨_, rfl, ⟨q2, q2.cur, rfl, rfl, rfl⟩, Nat.le_refl _, hinb⟩
        · simp only [cq, Bool.false_eq_true, ↓reduceIte] at h ⊢
          obtain ⟨b', q1, q2, q3, q4, q5⟩ := unq_sim delim fuel { a with st := s1, hitEOL := false } { b with hitEOL := false }
            ⟨⟨htd, hf, htc⟩, r2, rfl, r4, r5⟩ (by show a.fieldStart ≤ s1.cursor; omega) (by show s1.cursor ≤ s1.data.length; omega) a' ok h
          exact ⟨b', q1, q2, q5, q4⟩


/-- Reader.Next's inner loop: collect fields until `next` says stop -/
def rowLoop (delim : Byte) (fuel : Nat) : Nat → FS → List (List Byte) → Option (FS × List (List Byte))
  | 0, _, _ => none
  | n + 1, fs, acc =>
    match fnext delim fuel fs with
    | none => none
    | some (fs', true) => rowLoop delim fuel n fs' (acc ++ [fs'.field])
    | some (fs', false) => some (fs', acc)

theorem rowLoop_sim (delim : Byte) (fuel : Nat) : ∀ (n : Nat) (a b : FS) (acc : List (List Byte)), RelF a b →
    a.fieldStart ≤ a.st.cursor → a.st.cursor ≤ a.st.data.length →
    ∀ a' row, rowLoop delim fuel n a acc = some (a', row) →
      ∃ b', rowLoop delim fuel n b acc = some (b', row) ∧ RelF a' b' ∧ a'.st.cursor ≤ a'.st.data.length := by
  intro n
  induction n with
  | zero => intro a b acc _ _ _ a' row h; simp [rowLoop] at h
  | succ n ih =>
    intro a b acc rel hfs hcl a' row h
    unfold rowLoop at h ⊢
    cases hf : fnext delim fuel a with
    | none => rw [hf] at h; simp at h
    | some r =>
      obtain ⟨a1, ok⟩ := r
      obtain ⟨b1, q1, q2, q3, q4⟩ := fnext_sim delim fuel a b rel hfs hcl a1 ok hf
      rw [hf] at h
      rw [q1]
      cases ok with
      | true =>
        simp only at h ⊢
        rw [q2.fld]
        exact ih a1 b1 _ q2 q3 q4 a' row h
      | false =>
        simp only [Option.some.injEq, Prod.mk.injEq] at h ⊢
        obtain ⟨h1, h2⟩ := h
        subst h1; subst h2
        exact ⟨b1, ⟨rfl, rfl⟩, q2, q4⟩

def trimCR (row : List (List Byte)) : List (List Byte) :=
  match row.getLast? with
  | some last => if last.getLast? == some CR then row.dropLast ++ [last.dropLast] else row
  | none => row

/-- Reader.Next -/
def readerNext (delim : Byte) (fuel : Nat) (fs : FS) : Option (FS × List (List Byte) × Bool) :=
  if fs.err.isSome then some (fs, [], false) else
  match rowLoop delim fuel fuel { fs with st := fs.st.reset, field := [], fieldStart := 0, hitEOL := false } [] with
  | none => none
  | some (fs1, row) =>
    if (trimCR row).isEmpty then some ({ fs1 with err := if fs1.err.isNone then some .eof else fs1.err }, [], false)
    else some (fs1, trimCR row, true)

theorem reset_rel (s t : St) (rel : Rel s t) (hcl : s.cursor ≤ s.data.length) : Rel s.reset t.reset := by
  obtain ⟨hd, hf, hc⟩ := rel
  refine ⟨?_, hf, rfl⟩
  show t.data.drop t.cursor = s.data.drop s.cursor ++ s.future
  rw [hd, hc, List.drop_append_of_le_length hcl]

theorem readerNext_sim (delim : Byte) (fuel : Nat) (a b : FS) (rel : RelF a b) (hcl : a.st.cursor ≤ a.st.data.length) :
    ∀ a' row ok, readerNext delim fuel a = some (a', row, ok) →
      ∃ b', readerNext delim fuel b = some (b', row, ok) ∧ RelF a' b' ∧ a'.st.cursor ≤ a'.st.data.length := by
  intro a' row ok h
  unfold readerNext at h ⊢
  rw [rel.err]
  by_cases he : a.err.isSome = true
  · simp only [he, ↓reduceIte, Option.some.injEq, Prod.mk.injEq] at h ⊢
    obtain ⟨h1, h2, h3⟩ := h
    subst h1; subst h2; subst h3
    exact ⟨b, ⟨rfl, rfl, rfl⟩, rel, hcl⟩
  · simp only [he, Bool.false_eq_true, ↓reduceIte] at h ⊢
    cases hr : rowLoop delim fuel fuel { a with st := a.st.reset, field := [], fieldStart := 0, hitEOL := false } [] with
    | none => rw [hr] at h; simp at h
    | some r =>
      obtain ⟨a1, row1⟩ := r
      rw [hr] at h
      obtain ⟨b1, q1, q2, q3⟩ := rowLoop_sim delim fuel fuel
        { a with st := a.st.reset, field := [], fieldStart := 0, hitEOL := false }
        { b with st := b.st.reset, field := [], fieldStart := 0, hitEOL := false, err := a.err } []
        ⟨reset_rel _ _ rel.st hcl, rfl, rfl, rfl, rfl⟩ (Nat.zero_le _) (by show 0 ≤ (a.st.data.drop a.st.cursor).length; omega) a1 row1 hr
      rw [q1]
      simp only at h ⊢
      by_cases hemp : (trimCR row1).isEmpty = true
      · simp only [hemp, ↓reduceIte, Option.some.injEq, Prod.mk.injEq] at h ⊢
        obtain ⟨h1, h2, h3⟩ := h
        subst h1; subst h2; subst h3
        refine ⟨_, ⟨rfl, rfl, rfl⟩, ⟨q2.st, q2.fs, q2.eol, q2.fld, ?_⟩, q3⟩
        show (if b1.err.isNone = true then some RErr.eof else b1.err) = (if a1.err.isNone = true then some RErr.eof else a1.err)
        rw [q2.err]
      · simp only [hemp, Bool.false_eq_true, ↓reduceIte, Option.some.injEq, Prod.mk.injEq] at h ⊢
        obtain ⟨h1, h2, h3⟩ := h
        subst h1; subst h2; subst h3
        exact ⟨b1, ⟨rfl, rfl, rfl⟩, q2, q3⟩

/-- read every row -/
def readAll (delim : Byte) (fuel : Nat) : Nat → FS → List (List (List Byte)) → Option (List (List (List Byte)) × Option RErr)
  | 0, _, _ => none
  | n + 1, fs, acc =>
    match readerNext delim fuel fs with
    | none => none
    | some (fs', row, true) => readAll delim fuel n fs' (acc ++ [row])
    | some (fs', _, false) => some (acc, fs'.err)

theorem readAll_sim (delim : Byte) (fuel : Nat) : ∀ (n : Nat) (a b : FS) (acc : List (List (List Byte))), RelF a b →
    a.st.cursor ≤ a.st.data.length →
    ∀ res, readAll delim fuel n a acc = some res → readAll delim fuel n b acc = some res := by
  intro n
  induction n with
  | zero => intro a b acc _ _ res h; simp [readAll] at h
  | succ n ih =>
    intro a b acc rel hcl res h
    unfold readAll at h ⊢
    cases hr : readerNext delim fuel a with
    | none => rw [hr] at h; simp at h
    | some r =>
      obtain ⟨a1, row, ok⟩ := r
      obtain ⟨b1, q1, q2, q3⟩ := readerNext_sim delim fuel a b rel hcl a1 row ok hr
      rw [hr] at h
      rw [q1]
      cases ok with
      | true => simp only at h ⊢; exact ih a1 b1 _ q2 q3 res h
      | false => simp only at h ⊢; rw [q2.err]; exact h

def initFS (doc : List Byte) (sched : List Nat) : FS :=
  { st := { data := [], future := doc, sched := sched, cursor := 0 }, fieldStart := 0, hitEOL := false, field := [], err := none }
def loadedFS (doc : List Byte) : FS :=
  { st := { data := doc, future := [], sched := [], cursor := 0 }, fieldStart := 0, hitEOL := false, field := [], err := none }

/-- C12 (fragmentation): whatever the sizes of the reads, the reader returns what it returns when the
    whole document is in the buffer from the start — rows, fields and final error alike. -/
theorem read_schedule_independent (delim : Byte) (fuel n : Nat) (doc : List Byte) (sched : List Nat)
    (res : List (List (List Byte)) × Option RErr)
    (h : readAll delim fuel n (initFS doc sched) [] = some res) :
    readAll delim fuel n (loadedFS doc) [] = some res :=
  readAll_sim delim fuel n (initFS doc sched) (loadedFS doc) [] ⟨⟨by simp [initFS, loadedFS], rfl, rfl⟩, rfl, rfl, rfl, rfl⟩
    (by simp [initFS]) res h

theorem any_two_schedules_agree (delim : Byte) (fuel n : Nat) (doc : List Byte) (s1 s2 : List Nat)
    (r1 r2 : List (List (List Byte)) × Option RErr)
    (h1 : readAll delim fuel n (initFS doc s1) [] = some r1) (h2 : readAll delim fuel n (initFS doc s2) [] = some r2) :
    r1 = r2 := by
  have a := read_schedule_independent delim fuel n doc s1 r1 h1
  have b := read_schedule_independent delim fuel n doc s2 r2 h2
  rw [a] at b; exact Option.some.inj b

#print axioms any_two_schedules_agree

-- sanity: the executable model on the defect's witness, repaired look-ahead
def str (l : List (List (List Byte))) := l.map (·.map fun f => String.fromUTF8! (ByteArray.mk f.toArray))
#eval (readAll 44 200 50 (initFS "h,k\n\"a\"\"bc\",x\n\"d\"\"ef\",y\n".toUTF8.toList (List.replicate 100 1)) []).map (fun r => str r.1)
#eval (readAll 44 200 50 (loadedFS "h,k\n\"a\"\"bc\",x\n\"d\"\"ef\",y\n".toUTF8.toList) []).map (fun r => str r.1)
-- the repairs: CR LF inside quotes is content; a trailing delimiter yields a final empty field
#eval (readAll 44 200 50 (initFS "a,b\n\"x\r\ny\",z\r\n".toUTF8.toList [3, 1, 1, 2]) []).map (fun r => str r.1)
#eval (readAll 44 200 50 (initFS "a,b\nx,".toUTF8.toList [1, 1, 1, 1, 1, 1]) []).map (fun r => str r.1)
#eval (readAll 44 200 50 (initFS "a,b\n\"x\",".toUTF8.toList [2, 2, 2, 1, 1]) []).map (fun r => str r.1)
#print axioms read_schedule_independent
#print axioms quoted_sim
#print axioms quoted_inb
#print axioms fnext_sim
end Full
