def hello := "world"
