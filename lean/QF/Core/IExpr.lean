import QF.Spec.Csv
/-!
# IS / IC — the language of the column typing of ReadCSV (`columnToData` of /repo/internal/io/csv.go), and its Go semantics

    func columnToData(bytes []byte, pointers []bytePointer, colName string, conf CSVConfig) (interface{}, error)

The extractor (go/cmd/extract/iast.go) walks the body of the function statement by statement and writes it to
`QF/Gen/Infer.lean` on every run as ONE term of `IS`, in continuation style: every constructor that stands for a statement
carries the statements that follow it in its block (`k`); a block ends with `done` (control falls out of it), with
`brk` / `cont` (the `break` / `continue` of the enclosing loop) or with a `ret…` (a `return`). `ifThen c t k` is
`if c { t }; k`, `loop body k` is `for i, p := range <pointers> { body }; k`.

Terms name things by ROLE, never by Go identifier:
* the parameters by their types: the `[]byte` blob, the slice of two-`uint32` structs (the pointers), the `string`
  (column name), the struct (configuration). The configuration's `map[string]<DataType>` field are the declared types,
  its `map[string][]string` field the enum declarations, "EmptyNull" is the bool field that the exported function
  `EmptyNull` of `config/csv` sets. The `start` / `end` fields of a pointer are told apart by the composite literal
  that `ReadCSV` appends (`end` is the one that receives `uint32(len(…))`); the CELL of a round is `blob[p.start:p.end]`.
* local variables by what they were bound to: the function-level `error` variable (`err`), the declared type
  (`conf.<types>[colName]`), the accumulators by element type (`make([]int, 0, len(pointers))` …), the pointer array
  (`make([]strings.Pointer, len(pointers))`), the value and the error of the latest parser / factory call, the declared
  enum values, the factory.
* the constants of package `types` are resolved to their strings (`types.Int` ↦ `"int"`, `types.None` ↦ `""`).
* the three cell parsers by what they are: the function of `internal/strings` that is called must return
  `strconv.Atoi(s)` / `strconv.ParseFloat(s, 64)` / `strconv.ParseBool(s)` of its argument (`IParser`).

`IS.run` is the Go meaning of a term, with the parsers (`ParseOracle`) and the enum factory (`IFactory`: `NewFactory`,
`AppendNil`, `AppendByteString`; the factory handed to `ToColumn` is the result) as parameters. `pointers[i] = v` for the
loop index `i` is modelled as in `LS.store` of Construct.lean: the pointer array holds the slots written so far and a write
is to slot `size`. Untranslated code is `.opaque` and has no meaning (`IOut.stuck`).
-/
namespace QF

/-- A cell parser of `internal/strings`, by the `strconv` function it is. -/
inductive IParser where
  /-- `strconv.Atoi(s)` -/
  | atoi
  /-- `strconv.ParseFloat(s, 64)` -/
  | float64
  /-- `strconv.ParseBool(s)` -/
  | bool
  | opaque (txt : String)
  deriving DecidableEq, Repr, Inhabited

/-- The element type of an accumulator slice. -/
inductive IKind where
  | int | float | bool
  deriving DecidableEq, Repr, Inhabited

/-- Conditions. -/
inductive IC where
  /-- `dataType == <constant of package types with this string value>` -/
  | typeIs (s : String)
  /-- `len(<pointers>) == 0` -/
  | noRows
  /-- `err == nil` for the function-level error variable -/
  | errNil
  /-- `e != nil` for the error result of the latest parser / factory call -/
  | callFailed
  /-- `p.start == p.end` for the pointer of this round -/
  | cellEmpty
  /-- `conf.EmptyNull` -/
  | emptyNull
  | and (a b : IC)
  | or (a b : IC)
  | not (a : IC)
  | opaque (txt : String)
  deriving DecidableEq, Repr, Inhabited

/-- Statements, each with the rest of its block. -/
inductive IS where
  /-- `var err error` -/
  | declErr (k : IS)
  /-- `dataType := conf.<types>[colName]` -/
  | readType (k : IS)
  /-- `if c { t }` -/
  | ifThen (c : IC) (t k : IS)
  /-- `if c { t } else { e }` -/
  | ifElse (c : IC) (t e k : IS)
  /-- `err = nil` -/
  | clearErr (k : IS)
  /-- `err = <the error of the latest call>` -/
  | setErr (k : IS)
  /-- `acc := make([]T, 0, len(<pointers>))` -/
  | makeAcc (kind : IKind) (k : IS)
  /-- `ptrs := make([]strings.Pointer, len(<pointers>))` -/
  | makePtrs (k : IS)
  /-- `for i, p := range <pointers> { body }` -/
  | loop (body k : IS)
  /-- `x, e := <parser>(<cell>)` -/
  | parse (p : IParser) (k : IS)
  /-- `acc = append(acc, x)` for the value parsed last, of the accumulator's type -/
  | append (kind : IKind) (k : IS)
  /-- `acc = append(acc, math.NaN())` for the `float64` accumulator -/
  | appendNaN (k : IS)
  /-- `ptrs[i] = strings.NewPointer(int(p.start), 0, true)` (null) / `… (int(p.start), int(p.end-p.start), false)` (the cell) -/
  | setPtr (null : Bool) (k : IS)
  /-- `values := conf.<enums>[colName]` -/
  | lookupValues (k : IS)
  /-- `delete(conf.<enums>, colName)` -/
  | deleteValues (k : IS)
  /-- `factory, e := ecolumn.NewFactory(values, len(<pointers>))` -/
  | newFactory (k : IS)
  /-- `factory.AppendNil()` -/
  | facAppendNil (k : IS)
  /-- `e := factory.AppendByteString(<cell>)` -/
  | facAppendBytes (k : IS)
  /-- `break` -/
  | brk
  /-- `continue` -/
  | cont
  /-- the end of a block -/
  | done
  /-- `return ncolumn.Column{}, nil` -/
  | retEmpty
  /-- `return acc, nil` -/
  | retAcc (kind : IKind)
  /-- `return strings.StringBlob{Pointers: ptrs, Data: <blob>}, nil` -/
  | retBlob
  /-- `return factory.ToColumn(), nil` -/
  | retColumn
  /-- `return nil, <an error made on the spot: qerrors.New / qerrors.Propagate>` -/
  | retErr
  /-- `return nil, e` for the error result of the latest call -/
  | retCallErr
  | opaque (txt : String)
  deriving DecidableEq, Repr, Inhabited

/-! ## Semantics -/

/-- The enum factory of `internal/ecolumn` as `columnToData` uses it. `none`: the call returns an error. -/
structure IFactory (φ : Type) where
  /-- `NewFactory(values, sizeHint)` -/
  new : List Bytes → Nat → Option φ
  /-- `AppendNil()` -/
  appendNil : φ → φ
  /-- `AppendByteString(s)` -/
  appendBytes : φ → Bytes → Option φ

/-- What the function returns in its `interface{}` result. -/
inductive IData (φ : Type) where
  | empty
  | ints (a : Array Int)
  | floats (a : Array UInt64)
  | bools (a : Array Bool)
  /-- a `StringBlob`: for every row the null pointer or the cell's bytes -/
  | blob (ptrs : Array (Option Bytes))
  /-- `factory.ToColumn()` -/
  | column (f : φ)

/-- The value bound by the latest parser call (`none`: the call failed, the value is not specified). -/
inductive IVal where
  | none
  | int (v : Int)
  | float (v : UInt64)
  | bool (v : Bool)
  deriving DecidableEq, Repr, Inhabited

def IVal.isNone : IVal → Bool
  | .none => true
  | _ => false

structure ISt (φ : Type) where
  dataType : String := ""
  /-- `err != nil` -/
  err : Bool := false
  /-- the error result of the latest call is non-nil -/
  cerr : Bool := false
  parsed : IVal := .none
  ints : Array Int := #[]
  floats : Array UInt64 := #[]
  bools : Array Bool := #[]
  ptrs : Array (Option Bytes) := #[]
  values : List Bytes := []
  /-- `delete` removed an entry of the enum declarations -/
  deleted : Bool := false
  factory : Option φ := none

inductive IOut (φ : Type) where
  /-- control reaches the end of the block -/
  | next (σ : ISt φ)
  | brk (σ : ISt φ)
  | cont (σ : ISt φ)
  /-- `return`: `none` = an error, `some (data, deleted)` = data and whether an enum declaration was consumed -/
  | ret (r : Option (IData φ × Bool))
  | stuck

/-- What does not change during a call. -/
structure IEnv (φ : Type) where
  po : ParseOracle
  fac : IFactory φ
  cfg : CsvCfg
  name : Bytes
  /-- `bytes[p.start:p.end]` for the pointers `p`, in order -/
  cells : List Bytes

/-- `cur`: the index and the cell of the round when inside a loop. `none`: the condition has no meaning here. -/
def IC.eval {φ : Type} (E : IEnv φ) (cur : Option (Nat × Bytes)) (σ : ISt φ) : IC → Option Bool
  | .typeIs s => some (σ.dataType == s)
  | .noRows => some (E.cells.length == 0)
  | .errNil => some (!σ.err)
  | .callFailed => some σ.cerr
  | .cellEmpty => cur.map (fun p => p.2.isEmpty)
  | .emptyNull => some E.cfg.emptyNull
  | .and a b =>
    match a.eval E cur σ with
    | some true => b.eval E cur σ
    | r => r
  | .or a b =>
    match a.eval E cur σ with
    | some false => b.eval E cur σ
    | r => r
  | .not a => (a.eval E cur σ).map (!·)
  | .opaque _ => none

/-- The rounds `i, i+1, …` of a loop over the cells that are left: `break` leaves the loop, `continue` and the end of the
body start the next round, `return` leaves the function. -/
def iterCells {φ : Type} (step : Nat → Bytes → ISt φ → IOut φ) : Nat → List Bytes → ISt φ → IOut φ
  | _, [], σ => .next σ
  | i, c :: cs, σ =>
    match step i c σ with
    | .next σ' => iterCells step (i + 1) cs σ'
    | .cont σ' => iterCells step (i + 1) cs σ'
    | .brk σ' => .next σ'
    | .ret r => .ret r
    | .stuck => .stuck

def IParser.apply (po : ParseOracle) (c : Bytes) : IParser → Option IVal
  | .atoi => some (match po.atoi c with | some v => .int v | none => .none)
  | .float64 => some (match po.pfloat c with | some v => .float v | none => .none)
  | .bool => some (match po.pbool c with | some v => .bool v | none => .none)
  | .opaque _ => none

def IS.run {φ : Type} (E : IEnv φ) : IS → Option (Nat × Bytes) → ISt φ → IOut φ
  | .declErr k, cur, σ => k.run E cur { σ with err := false }
  | .readType k, cur, σ =>
    -- a missing key yields the zero value `""`
    k.run E cur { σ with dataType := match E.cfg.types.find? (·.1 == E.name) with | some e => e.2 | none => "" }
  | .ifThen c t k, cur, σ =>
    match c.eval E cur σ with
    | none => .stuck
    | some true =>
      match t.run E cur σ with
      | .next σ' => k.run E cur σ'
      | r => r
    | some false => k.run E cur σ
  | .ifElse c t e k, cur, σ =>
    match c.eval E cur σ with
    | none => .stuck
    | some true =>
      match t.run E cur σ with
      | .next σ' => k.run E cur σ'
      | r => r
    | some false =>
      match e.run E cur σ with
      | .next σ' => k.run E cur σ'
      | r => r
  | .clearErr k, cur, σ => k.run E cur { σ with err := false }
  | .setErr k, cur, σ => k.run E cur { σ with err := σ.cerr }
  | .makeAcc kind k, cur, σ =>
    match kind with
    | .int => k.run E cur { σ with ints := #[] }
    | .float => k.run E cur { σ with floats := #[] }
    | .bool => k.run E cur { σ with bools := #[] }
  | .makePtrs k, cur, σ => k.run E cur { σ with ptrs := #[] }
  | .loop body k, cur, σ =>
    match iterCells (fun i c τ => body.run E (some (i, c)) τ) 0 E.cells σ with
    | .next σ' => k.run E cur σ'
    | .ret r => .ret r
    | _ => .stuck
  | .parse p k, cur, σ =>
    match cur with
    | none => .stuck
    | some (_, c) =>
      match p.apply E.po c with
      | none => .stuck
      | some v => k.run E cur { σ with parsed := v, cerr := v.isNone }
  | .append kind k, cur, σ =>
    match kind, σ.parsed with
    | .int, .int v => k.run E cur { σ with ints := σ.ints.push v }
    | .float, .float v => k.run E cur { σ with floats := σ.floats.push v }
    | .bool, .bool v => k.run E cur { σ with bools := σ.bools.push v }
    | _, _ => .stuck
  | .appendNaN k, cur, σ => k.run E cur { σ with floats := σ.floats.push F64.canonNaN }
  | .setPtr null k, cur, σ =>
    match cur with
    | none => .stuck
    | some (i, c) =>
      if σ.ptrs.size = i then k.run E cur { σ with ptrs := σ.ptrs.push (if null then none else some c) } else .stuck
  | .lookupValues k, cur, σ =>
    k.run E cur { σ with values := match E.cfg.enums.find? (·.1 == E.name) with | some e => e.2 | none => [] }
  | .deleteValues k, cur, σ => k.run E cur { σ with deleted := σ.deleted || E.cfg.enums.any (·.1 == E.name) }
  | .newFactory k, cur, σ =>
    match E.fac.new σ.values E.cells.length with
    | none => k.run E cur { σ with factory := none, cerr := true }
    | some f => k.run E cur { σ with factory := some f, cerr := false }
  | .facAppendNil k, cur, σ =>
    match σ.factory with
    | none => .stuck
    | some f => k.run E cur { σ with factory := some (E.fac.appendNil f) }
  | .facAppendBytes k, cur, σ =>
    match cur, σ.factory with
    | some (_, c), some f =>
      match E.fac.appendBytes f c with
      | none => k.run E cur { σ with factory := none, cerr := true }
      | some f' => k.run E cur { σ with factory := some f', cerr := false }
    | _, _ => .stuck
  | .brk, cur, σ => if cur.isSome then .brk σ else .stuck
  | .cont, cur, σ => if cur.isSome then .cont σ else .stuck
  | .done, _, σ => .next σ
  | .retEmpty, _, σ => .ret (some (.empty, σ.deleted))
  | .retAcc kind, _, σ =>
    match kind with
    | .int => .ret (some (.ints σ.ints, σ.deleted))
    | .float => .ret (some (.floats σ.floats, σ.deleted))
    | .bool => .ret (some (.bools σ.bools, σ.deleted))
  | .retBlob, _, σ => if σ.ptrs.size = E.cells.length then .ret (some (.blob σ.ptrs, σ.deleted)) else .stuck
  | .retColumn, _, σ =>
    match σ.factory with
    | some f => .ret (some (.column f, σ.deleted))
    | none => .stuck
  | .retErr, _, _ => .ret none
  | .retCallErr, _, σ => if σ.cerr then .ret none else .stuck
  | .opaque _, _, _ => .stuck

/-- The function: `none` = the term has no meaning (or falls off its end); `some none` = an error is returned;
`some (some (data, deleted))` = `data` is returned and `deleted` tells whether `delete` removed an enum declaration. -/
def runInfer {φ : Type} (E : IEnv φ) (t : IS) : Option (Option (IData φ × Bool)) :=
  match t.run E none {} with
  | .ret r => some r
  | _ => none

def IC.hasOpaque : IC → Bool
  | .opaque _ => true
  | .and a b | .or a b => a.hasOpaque || b.hasOpaque
  | .not a => a.hasOpaque
  | _ => false

def IS.hasOpaque : IS → Bool
  | .opaque _ => true
  | .parse (.opaque _) _ => true
  | .ifThen c t k => c.hasOpaque || t.hasOpaque || k.hasOpaque
  | .ifElse c t e k => c.hasOpaque || t.hasOpaque || e.hasOpaque || k.hasOpaque
  | .loop b k => b.hasOpaque || k.hasOpaque
  | .declErr k | .readType k | .clearErr k | .setErr k | .makeAcc _ k | .makePtrs k | .parse _ k | .append _ k
  | .appendNaN k | .setPtr _ k | .lookupValues k | .deleteValues k | .newFactory k | .facAppendNil k
  | .facAppendBytes k => k.hasOpaque
  | _ => false

end QF
