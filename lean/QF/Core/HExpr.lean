import QF.Core.CExpr
/-!
# HE — the language of the row hash functions, and its Go semantics

GroupBy and Distinct put rows into a hash table (internal/grouper); besides `Compare` each of the five column packages
gives its `Comparable` a

    func (c Comparable) Hash(i uint32, seed uint64) uint64

The table is only correct if rows that compare `Equal` hash equal. The extractor (go/cmd/extract/hast.go) translates the
five bodies of /repo's current source into terms of `HE` and writes them to `QF/Gen/Hash.lean` on every run.

Terms name things by ROLE, never by the Go identifier: "the cell at the index parameter", "the seed parameter", "the field
of the receiver that `Comparable(…, equalNull, …)` sets". Two functions are uninterpreted: `hash.HashBytes(bytes, seed)` is
a parameter `H` of the evaluation, `rand.Uint64()` an arbitrary value `rnd`.

`HE.eval` follows Go's semantics on a little-endian machine (all platforms qframe's `unsafe` casts work on):

* int    — `x := &c.data[i]; (*[8]byte)(unsafe.Pointer(x))[:]`: the 8 bytes of the two's-complement pattern, least
           significant first (`rawInt`)
* float  — `f := c.data[i]`, optionally canonicalised by `if f == 0 { f = 0 }` (IEEE `==`: true for -0.0, which becomes
           +0.0) and `if math.IsNaN(f) { f = math.NaN() }` (`math.NaN()` is the bit pattern 0x7FF8000000000001), then
           `bits := math.Float64bits(f); (*[8]byte)(unsafe.Pointer(&bits))[:]` (`floatBits zeroCanon nanCanon`)
* bool   — the cell as a condition (`isTrue`); `[1]byte{n}` (`oneByte n`)
* string — `x, isNull := c.column.bytesAt(i)` (`nil, true` for a null cell): `isNull`, `strBytes`
* enum   — `[1]byte{byte(c.column.data[i])}`: the cell is an `enumVal` (uint8), the rank of the string in the value
           table, 255 for null (`enumCode`)
* `c.equalNullValue == column.NotEqual` — a test of one of the result fields `Comparable` assigns (`fieldEq`)
-/
namespace QF

/-- What is hashed: the byte slice handed to `hash.HashBytes`, by role. -/
inductive HB where
  /-- the 8 bytes in memory of the int cell -/
  | rawInt
  /-- the 8 bytes of `math.Float64bits(f)` for the float cell `f` after the canonicalisations that were applied to it:
  `zeroCanon`: `if f == 0 { f = 0 }`, `nanCanon`: `if math.IsNaN(f) { f = math.NaN() }` -/
  | floatBits (zeroCanon nanCanon : Bool)
  /-- `[1]byte{n}[:]` -/
  | oneByte (n : Nat)
  /-- first result of `bytesAt(i)` -/
  | strBytes
  /-- `[1]byte{byte(cell)}[:]` of an enum cell -/
  | enumCode
  | opaque (txt : String)
  deriving DecidableEq, Repr, Inhabited

/-- Conditions of `Hash`, by role. -/
inductive HCond where
  /-- `math.IsNaN(f)` of the float cell (canonicalised or not: the canonicalisations keep NaN-ness) -/
  | isNaN
  /-- second result of `bytesAt(i)` (string); `isNull()` of the enum cell -/
  | isNull
  /-- the bool cell itself -/
  | isTrue
  /-- `c.<field> == column.<Const>` -/
  | fieldEq (f : CField) (r : CRes)
  | not (c : HCond)
  | and (c d : HCond)
  | or (c d : HCond)
  | opaque (txt : String)
  deriving DecidableEq, Repr, Inhabited

/-- `Hash` as a decision tree. -/
inductive HE where
  /-- `return hash.HashBytes(b, seed)` with the function's seed parameter -/
  | hashBytes (b : HB)
  /-- `return rand.Uint64()` -/
  | random
  | ite (c : HCond) (t e : HE)
  | opaque (txt : String)
  deriving DecidableEq, Repr, Inhabited

/-- the 8 bytes of a 64-bit word, least significant first -/
def le8 (w : Nat) : List UInt8 := (List.range 8).map (fun k => UInt8.ofNat (w / 256 ^ k % 256))

/-- `if f == 0 { f = 0 }` (when `z`) and `if math.IsNaN(f) { f = math.NaN() }` (when `n`) on the bits of `f`; the two tests
exclude each other, so their order and nesting (`else if`) do not matter -/
def canonFloat (z n : Bool) (b : UInt64) : UInt64 :=
  if z && F64.eq b 0 then 0 else if n && F64.isNaN b then F64.canonNaN else b

def HB.eval (ty : CType) (vals : List Bytes) (x : Cell) : HB → Option (List UInt8)
  | .rawInt => match ty, x with | .int, .int v => some (le8 (intBits v)) | _, _ => none
  | .floatBits z n => match ty, x with | .float, .float b => some (le8 (canonFloat z n b).toNat) | _, _ => none
  | .oneByte n => if n < 256 then some [UInt8.ofNat n] else none
  | .strBytes => match ty, x with | .string, .str s => some (s.getD []) | _, _ => none
  | .enumCode => match ty, cellVal .enum vals x with | .enum, some (.enum v) => some [UInt8.ofNat v] | _, _ => none
  | .opaque _ => none

def HCond.eval (ty : CType) (vals : List Bytes) (F : CFields) (x : Cell) : HCond → Option Bool
  | .isNaN => nanOf ty x
  | .isNull => nullOf ty vals x
  | .isTrue => trueOf ty x
  | .fieldEq f r => some (F.get f == r)
  | .not c => (c.eval ty vals F x).map (!·)
  | .and c d =>
    match c.eval ty vals F x, d.eval ty vals F x with
    | some a, some b => some (a && b)
    | _, _ => none
  | .or c d =>
    match c.eval ty vals F x, d.eval ty vals F x with
    | some a, some b => some (a || b)
    | _, _ => none
  | .opaque _ => none

/-- What `Hash(i, seed)` returns for a column of type `ty` (value table `vals`) whose cell at `i` is `x`, when the
receiver's result fields are `F`, `hash.HashBytes` is `H` and this call's `rand.Uint64()` (if it is made) yields `rnd`;
`none` when the term has no meaning there. -/
def HE.eval (H : List UInt8 → UInt64 → UInt64) (rnd : UInt64) (ty : CType) (vals : List Bytes) (F : CFields) (x : Cell)
    (seed : UInt64) : HE → Option UInt64
  | .hashBytes b => (b.eval ty vals x).map (fun bs => H bs seed)
  | .random => some rnd
  | .ite c t e =>
    match c.eval ty vals F x with
    | some true => t.eval H rnd ty vals F x seed
    | some false => e.eval H rnd ty vals F x seed
    | none => none
  | .opaque _ => none

def HB.isOpaque : HB → Bool
  | .opaque _ => true
  | _ => false

def HCond.hasOpaque : HCond → Bool
  | .opaque _ => true
  | .not c => c.hasOpaque
  | .or c d | .and c d => c.hasOpaque || d.hasOpaque
  | _ => false

/-- Does the term contain a part the translator did not understand? -/
def HE.hasOpaque : HE → Bool
  | .opaque _ => true
  | .hashBytes b => b.isOpaque
  | .random => false
  | .ite c t e => c.hasOpaque || t.hasOpaque || e.hasOpaque

end QF
