/-!
# GL — the language of the GROUPER hash table (/repo/internal/grouper/grouper.go), and its Go semantics

    func newTable(sizeExp int, comparables []column.Comparable, collectIx bool) *table
    func (t *table) grow()                    -- doubling, relocation of every old entry by its stored hash
    func (t *table) hash(i uint32) uint32     -- the comparables' hashes chained, truncated to 32 bits
    func (t *table) insertEntry(i uint32)     -- growth check, the probe loop with the bit mask, new entry / existing entry
    func equals(comparables, i, j) bool
    func calculateInitialSizeExp(ixLen int) int
    func groupIndex(ix, comparables, collectIx) ([]tableEntry, GroupStats)
    func GroupBy(ix, comparables) ([]index.Int, GroupStats),  func Distinct(ix, comparables) index.Int
    integer.Max, integer.Pow2

go/cmd/extract/grpast.go translates the bodies of these functions, statement by statement, to terms of the small
imperative language below and writes them to `QF/Gen/GrouperFns.lean` on every run. The language is generic (variables,
`:=`, `=`, fields of structs, `x.f = e`, `x.f++`, `a[i] = e`, `if`, `range`, three-clause `for` with `break`, `return`,
slices, `len`, `append`, `make`, fixed-width unsigned arithmetic, conversions, calls of the other translated functions).

Terms name things by ROLE: variables are numbered in the order of their declaration (receiver, parameters, then every
`:=` / `var` / range variable as it occurs in the text); the functions by the role their signature gives them (`FnId`);
the fields of `table` by their types (all different), the fields of `tableEntry` by their types and, for the two `uint32`
fields, by their order (`Fld.hash` is the first, `Fld.firstPos` the second: today `hash` and `firstPos`); the fields of
the exported `GroupStats` by their names. Package-level constants (`growthFactor`, `maxLoadFactor`) are replaced by their
values, typed by the context (`E.int 2`, `E.flt 2 1`, `E.flt 1 2`).

## What the semantics models, and how exactly

* `uint32` / `uint64`: exactly, modulo 2^32 / 2^64 (`Val.u32 n`, `Val.u64 n` with `n` below the modulus).
* `int`: as ℤ (no wrap-around at 2^63: the only `int`s here are lengths, `2 * len`, a size exponent and the counters of
  `GroupStats`; a conversion `uint32(e)` / `uint64(e)` of an `int` is exact, modulo the width).
* `float64`: as an exact fraction `num / den` (`Val.flt num den`). The only float operations in this code are
  `float64(<uint32>) / float64(len(t.entries))`, `t.loadFactor / growthFactor` and `t.loadFactor > maxLoadFactor`.
  On fractions with a numerator below 2^53 and a power of two as denominator (`len(t.entries)` is one, and `growthFactor`
  = 2 keeps it one) IEEE division is exact, so that the fraction IS the float, and `a/b > c/d` is the integer comparison
  `a * d > c * b`. With today's constants the growth test `t.loadFactor > maxLoadFactor` is `2 * num > den`.
  A division by zero has no meaning here (Go: ±Inf / NaN).
* a `*table` is the table itself: the pointer made by `&table{…}` in `newTable` is held by one variable at a time
  (the translator checks: it is only used as a receiver / for field access, never copied or passed on), so a method with
  a pointer receiver that writes through it is a call that hands the table back (`S.callMut`).
* a `*tableEntry` made by `&t.entries[pos]` is the position (`Val.ptr (some (t, pos))`: "element `pos` of the entries of
  the table in variable `t`"); reads and writes through it go to that element. This is exact as long as `t.entries` is
  not replaced while the pointer is alive (the translator checks: no assignment of that field and no mutating call on
  `t` after the address is taken).
* slices of rows (`index.Int`) are values (`append` returns a new value); `nil` is told from an empty slice
  (`Val.rows none`). Exact as long as no two live slices share a backing array one of them is appended to (here: an
  entry's `ix` has one owner — the old copies die with the old table in `grow`).
* `range xs` evaluates `xs` once; the translator checks that the body does not write it.
* a `for` loop that runs `Env.fuel` rounds has no meaning (`stuck`): the theorems hold for every fuel ≥ 2^32 (more than any
  table size that occurs).
* the comparables are values of the interface `column.Comparable`: `Cmp.compare`, `Cmp.hash` are what their two methods
  return (any functions; `Cmp.hash` is reduced modulo 2^64).
* `bits.Len64` and `int(math.Pow(2, float64(e)))` are primitives (`E.bitLen64`, `E.pow2`: 2^e for 0 ≤ e ≤ 62, no meaning
  otherwise).
Whatever has no meaning — a run-time panic (index out of range, nil dereference, negative `make`), a value of the wrong
kind, something the translator did not understand (`opaque`) — is `none` / `stuck`.
-/
namespace QF.GL

abbrev Var := Nat

/-- `column.CompareResult` -/
inductive CRes where
  | lessThan | greaterThan | equal | notEqual
  deriving DecidableEq, Repr, Inhabited

/-- The functions of the translation unit, by role (the signature; the two public entry points by their names). -/
inductive FnId where
  /-- the method `()` of `*table` -/
  | grow
  /-- the method `(uint32) uint32` of `*table` -/
  | hash
  /-- the method `(uint32)` of `*table` -/
  | insertEntry
  /-- `(int, []column.Comparable, bool) *table` -/
  | newTable
  /-- `([]column.Comparable, uint32, uint32) bool` -/
  | equals
  /-- `(int) int` in package grouper -/
  | initialSizeExp
  /-- `(index.Int, []column.Comparable, bool) ([]tableEntry, GroupStats)` -/
  | groupIndex
  /-- `GroupBy` -/
  | groupBy
  /-- `Distinct` -/
  | distinct
  /-- `(int, int) int` of internal/math/integer -/
  | max
  /-- `(int) int` of internal/math/integer -/
  | pow2
  deriving DecidableEq, Repr, Inhabited

/-- Struct fields, by role. -/
inductive Fld where
  /-- `table`: the field of type `[]tableEntry` -/
  | entries
  /-- `table`: the field of type `[]column.Comparable` -/
  | comparables
  /-- `table`: the field of type `GroupStats` -/
  | stats
  /-- `table`: the field of type `float64` -/
  | loadFactor
  /-- `table`: the field of type `uint32` -/
  | groupCount
  /-- `table`: the field of type `bool` -/
  | collectIx
  /-- `tableEntry`: the field of type `index.Int` -/
  | ix
  /-- `tableEntry`: the first field of type `uint32` -/
  | hash
  /-- `tableEntry`: the second field of type `uint32` -/
  | firstPos
  /-- `tableEntry`: the field of type `bool` -/
  | occupied
  /-- `GroupStats.RelocationCount` -/
  | sRelocationCount
  /-- `GroupStats.RelocationCollisions` -/
  | sRelocationCollisions
  /-- `GroupStats.InsertCollisions` -/
  | sInsertCollisions
  /-- `GroupStats.GroupCount` -/
  | sGroupCount
  /-- `GroupStats.LoadFactor` -/
  | sLoadFactor
  deriving DecidableEq, Repr, Inhabited

inductive COp where
  | lt | le | gt | ge | eq | ne
  deriving DecidableEq, Repr, Inhabited

inductive AOp where
  | add | sub | mul | div | band
  deriving DecidableEq, Repr, Inhabited

/-- Expressions. -/
inductive E where
  | var (v : Var)
  | int (n : Int)
  /-- a constant of type `uint32` -/
  | u32 (n : Nat)
  /-- a constant of type `uint64` -/
  | u64 (n : Nat)
  | bool (b : Bool)
  /-- a `float64` constant, as the fraction it is -/
  | flt (num den : Nat)
  /-- a constant of `column.CompareResult` -/
  | cres (r : CRes)
  /-- `nil` as a `*tableEntry` -/
  | nilPtr
  /-- `nil` as an `index.Int` -/
  | nilRows
  /-- `e.f` (through a pointer to the table as well) -/
  | field (e : E) (f : Fld)
  /-- `*p` for a `*tableEntry`, also the implicit one of `p.f` -/
  | deref (e : E)
  /-- `&t.<entries>[i]` for the table variable `t` -/
  | addrEntry (t : Var) (i : E)
  /-- `e == nil` (pointer to an entry, slice of rows) -/
  | isNil (e : E)
  | not (e : E)
  /-- `a && b` (b is not evaluated when a is false) -/
  | and (a b : E)
  /-- `a || b` (b is not evaluated when a is true) -/
  | or (a b : E)
  | cmp (op : COp) (a b : E)
  /-- `a + b`, `a - b`, `a * b`, `a / b`, `a & b` on two operands of the same numeric type -/
  | bin (op : AOp) (a b : E)
  /-- `uint32(e)` -/
  | toU32 (e : E)
  /-- `uint64(e)` -/
  | toU64 (e : E)
  /-- `int(e)` -/
  | toInt (e : E)
  /-- `float64(e)` -/
  | toFloat (e : E)
  /-- the builtin `len` of a slice -/
  | len (e : E)
  /-- `a[i]` -/
  | at (a i : E)
  /-- `make([]tableEntry, n)` -/
  | makeEntries (n : E)
  /-- `make(index.Int, 0, cap)` -/
  | makeRows (cap : E)
  /-- `make([]index.Int, 0, cap)` -/
  | makeGroups (cap : E)
  /-- `index.Int{a}` -/
  | rows1 (a : E)
  /-- `index.Int{a, b}` -/
  | rows2 (a b : E)
  /-- `append(l, x)` -/
  | snoc (l x : E)
  /-- `bits.Len64(e)` -/
  | bitLen64 (e : E)
  /-- `int(math.Pow(2, float64(e)))` -/
  | pow2 (e : E)
  /-- `c.Hash(i, seed)` through the interface `column.Comparable` -/
  | cmpHash (c i seed : E)
  /-- `c.Compare(i, j)` through the interface -/
  | cmpCompare (c i j : E)
  /-- `&table{<entries>: es, <comparables>: cs, <collectIx>: b}` (the other fields are zero) -/
  | mkTable (es cs b : E)
  /-- the values of `return a, b` -/
  | pair (a b : E)
  /-- calls of translated functions that do not write through a pointer receiver (a receiver is the first argument) -/
  | call1 (f : FnId) (a : E)
  | call2 (f : FnId) (a b : E)
  | call3 (f : FnId) (a b c : E)
  | opaque (txt : String)
  deriving DecidableEq, Repr, Inhabited

/-- Statements. A block is `S.block [s₁, …]`. -/
inductive S where
  | skip
  | seq (a b : S)
  /-- `v := e`, `var v T = e`, `var v T` (e the zero value) -/
  | define (v : Var) (e : E)
  /-- `v, w := e` for a call with two results -/
  | define2 (v w : Var) (e : E)
  /-- `v = e` -/
  | assign (v : Var) (e : E)
  /-- `v.f₁.….fₙ = e` for a struct variable (or the pointer to the table) -/
  | setField (v : Var) (path : List Fld) (e : E)
  /-- `v.f₁.….fₙ++` -/
  | incrField (v : Var) (path : List Fld)
  /-- `p.f = e` for a `*tableEntry` variable -/
  | setPtrField (p : Var) (f : Fld) (e : E)
  /-- `a[i] = e` for a slice of entries made in this function -/
  | setAt (a : Var) (i e : E)
  | ite (c : E) (t e : S)
  /-- `for k, v := range xs { body }` over a slice that the body does not write -/
  | range (xs : E) (k v : Option Var) (body : S)
  /-- `for init; cond; post { body }` (an absent condition is `true`) -/
  | for (init : S) (cond : E) (post : S) (body : S)
  | brk
  /-- `v.m(args)` as a statement, for a method that writes through its pointer receiver `v` -/
  | callMut (f : FnId) (recv : Var) (args : List E)
  | ret (e : E)
  | opaque (txt : String)
  deriving DecidableEq, Repr, Inhabited

def S.block : List S → S
  | [] => .skip
  | s :: ss => .seq s (S.block ss)

/-- A translated function: the receiver and the parameters are the variables `0 … params-1`. -/
structure Fn where
  params : Nat
  body : S
  deriving DecidableEq, Repr, Inhabited

def E.hasOpaque : E → Bool
  | .opaque _ => true
  | .field e _ | .deref e | .addrEntry _ e | .isNil e | .not e | .toU32 e | .toU64 e | .toInt e | .toFloat e | .len e
  | .makeEntries e | .makeRows e | .makeGroups e | .rows1 e | .bitLen64 e | .pow2 e | .call1 _ e => e.hasOpaque
  | .and a b | .or a b | .cmp _ a b | .bin _ a b | .at a b | .rows2 a b | .snoc a b | .pair a b | .call2 _ a b =>
    a.hasOpaque || b.hasOpaque
  | .cmpHash a b c | .cmpCompare a b c | .mkTable a b c | .call3 _ a b c => a.hasOpaque || b.hasOpaque || c.hasOpaque
  | _ => false

def S.hasOpaque : S → Bool
  | .opaque _ => true
  | .seq a b => a.hasOpaque || b.hasOpaque
  | .define _ e | .define2 _ _ e | .assign _ e | .setField _ _ e | .setPtrField _ _ e | .ret e => e.hasOpaque
  | .setAt _ i e => i.hasOpaque || e.hasOpaque
  | .ite c t e => c.hasOpaque || t.hasOpaque || e.hasOpaque
  | .range xs _ _ b => xs.hasOpaque || b.hasOpaque
  | .for i c p b => i.hasOpaque || c.hasOpaque || p.hasOpaque || b.hasOpaque
  | .callMut _ _ args => args.any E.hasOpaque
  | _ => false

/-! ## Values -/

/-- A value of the interface `column.Comparable`: what its two methods return. -/
structure Cmp where
  compare : Nat → Nat → CRes
  hash : Nat → Nat → Nat

/-- `tableEntry` -/
structure Entry where
  /-- `none` = nil -/
  ix : Option (List Nat) := none
  hash : Nat := 0
  firstPos : Nat := 0
  occupied : Bool := false
  deriving DecidableEq, Repr, Inhabited

/-- `GroupStats`; `LoadFactor` as a fraction -/
structure Stats where
  relocationCount : Int := 0
  relocationCollisions : Int := 0
  insertCollisions : Int := 0
  groupCount : Int := 0
  lfNum : Nat := 0
  lfDen : Nat := 1
  deriving DecidableEq, Repr, Inhabited

/-- `table`; `loadFactor` as a fraction -/
structure Table where
  entries : List Entry
  cmps : List Cmp
  stats : Stats := {}
  lfNum : Nat := 0
  lfDen : Nat := 1
  groupCount : Nat := 0
  collectIx : Bool

inductive Val where
  /-- the result of a function without results -/
  | unit
  | bool (b : Bool)
  | int (n : Int)
  | u32 (n : Nat)
  | u64 (n : Nat)
  | flt (num den : Nat)
  | cres (r : CRes)
  /-- `index.Int`; `none` = nil -/
  | rows (l : Option (List Nat))
  /-- `[]index.Int` -/
  | groups (l : List (List Nat))
  | entry (e : Entry)
  | entries (l : List Entry)
  | stats (s : Stats)
  /-- a `*table` (see the header) -/
  | tbl (t : Table)
  /-- a `*tableEntry`: nil, or element `i` of the entries of the table in variable `t` -/
  | ptr (p : Option (Var × Nat))
  | cmp (c : Cmp)
  | cmps (l : List Cmp)
  | pair (a b : Val)

abbrev Store := Var → Option Val

def Store.empty : Store := fun _ => none
def Store.set (σ : Store) (v : Var) (x : Val) : Store := fun w => if w = v then some x else σ w
def Store.setOpt (σ : Store) (v : Option Var) (x : Val) : Store :=
  match v with
  | some v => σ.set v x
  | none => σ

@[simp] theorem Store.set_same (σ : Store) (v : Var) (x : Val) : σ.set v x v = some x := by simp [Store.set]
theorem Store.set_ne (σ : Store) (v w : Var) (x : Val) (h : w ≠ v) : σ.set v x w = σ w := by simp [Store.set, h]

/-- what a call returns: the result, and the receiver (the first argument) as the callee leaves it -/
structure Env where
  call : FnId → List Val → Option (Val × Option Val)
  fuel : Nat

def M32 : Nat := 4294967296
def M64 : Nat := 18446744073709551616

def Val.field : Val → Fld → Option Val
  | .tbl t, .entries => some (.entries t.entries)
  | .tbl t, .comparables => some (.cmps t.cmps)
  | .tbl t, .stats => some (.stats t.stats)
  | .tbl t, .loadFactor => some (.flt t.lfNum t.lfDen)
  | .tbl t, .groupCount => some (.u32 t.groupCount)
  | .tbl t, .collectIx => some (.bool t.collectIx)
  | .entry e, .ix => some (.rows e.ix)
  | .entry e, .hash => some (.u32 e.hash)
  | .entry e, .firstPos => some (.u32 e.firstPos)
  | .entry e, .occupied => some (.bool e.occupied)
  | .stats s, .sRelocationCount => some (.int s.relocationCount)
  | .stats s, .sRelocationCollisions => some (.int s.relocationCollisions)
  | .stats s, .sInsertCollisions => some (.int s.insertCollisions)
  | .stats s, .sGroupCount => some (.int s.groupCount)
  | .stats s, .sLoadFactor => some (.flt s.lfNum s.lfDen)
  | _, _ => none

def Val.setField : Val → Fld → Val → Option Val
  | .tbl t, .entries, .entries l => some (.tbl { t with entries := l })
  | .tbl t, .stats, .stats s => some (.tbl { t with stats := s })
  | .tbl t, .loadFactor, .flt n d => some (.tbl { t with lfNum := n, lfDen := d })
  | .tbl t, .groupCount, .u32 n => some (.tbl { t with groupCount := n })
  | .tbl t, .collectIx, .bool b => some (.tbl { t with collectIx := b })
  | .entry e, .ix, .rows l => some (.entry { e with ix := l })
  | .entry e, .hash, .u32 n => some (.entry { e with hash := n })
  | .entry e, .firstPos, .u32 n => some (.entry { e with firstPos := n })
  | .entry e, .occupied, .bool b => some (.entry { e with occupied := b })
  | .stats s, .sRelocationCount, .int n => some (.stats { s with relocationCount := n })
  | .stats s, .sRelocationCollisions, .int n => some (.stats { s with relocationCollisions := n })
  | .stats s, .sInsertCollisions, .int n => some (.stats { s with insertCollisions := n })
  | .stats s, .sGroupCount, .int n => some (.stats { s with groupCount := n })
  | .stats s, .sLoadFactor, .flt n d => some (.stats { s with lfNum := n, lfDen := d })
  | _, _, _ => none

def Val.getPath : Val → List Fld → Option Val
  | v, [] => some v
  | v, f :: p => match v.field f with | some w => w.getPath p | none => none

/-- the value with the component at the path replaced by `upd <old component>` -/
def Val.updPath (upd : Val → Option Val) : Val → List Fld → Option Val
  | v, [] => upd v
  | v, f :: p =>
    match v.field f with
    | some w => (match Val.updPath upd w p with | some w' => v.setField f w' | none => none)
    | none => none

/-- `x++` -/
def Val.succ : Val → Option Val
  | .int n => some (.int (n + 1))
  | .u32 n => some (.u32 ((n + 1) % M32))
  | .u64 n => some (.u64 ((n + 1) % M64))
  | _ => none

/-- a new value for a component of the same kind -/
def Val.sameKind : Val → Val → Bool
  | .int _, .int _ | .u32 _, .u32 _ | .u64 _, .u64 _ | .bool _, .bool _ | .flt _ _, .flt _ _ | .rows _, .rows _
  | .entries _, .entries _ | .stats _, .stats _ | .entry _, .entry _ => true
  | _, _ => false

def COp.nat : COp → Nat → Nat → Bool
  | .lt, a, b => a < b
  | .le, a, b => a ≤ b
  | .gt, a, b => a > b
  | .ge, a, b => a ≥ b
  | .eq, a, b => a == b
  | .ne, a, b => a != b

def COp.int : COp → Int → Int → Bool
  | .lt, a, b => a < b
  | .le, a, b => a ≤ b
  | .gt, a, b => a > b
  | .ge, a, b => a ≥ b
  | .eq, a, b => a == b
  | .ne, a, b => a != b

def Val.compare (op : COp) : Val → Val → Option Bool
  | .int a, .int b => some (op.int a b)
  | .u32 a, .u32 b => some (op.nat a b)
  | .u64 a, .u64 b => some (op.nat a b)
  -- `a/b ⋈ c/d` is `a*d ⋈ c*b` (positive denominators)
  | .flt a b, .flt c d => if b = 0 ∨ d = 0 then none else some (op.nat (a * d) (c * b))
  | .cres a, .cres b => (match op with | .eq => some (a == b) | .ne => some (a != b) | _ => none)
  | .bool a, .bool b => (match op with | .eq => some (a == b) | .ne => some (a != b) | _ => none)
  | _, _ => none

/-- on `uintN`, modulo `m` -/
def AOp.nat (m : Nat) : AOp → Nat → Nat → Option Nat
  | .add, a, b => some ((a + b) % m)
  | .sub, a, b => some ((a + m - b % m) % m)
  | .mul, a, b => some ((a * b) % m)
  | .div, a, b => if b = 0 then none else some (a / b)
  | .band, a, b => some (a &&& b)

def AOp.int : AOp → Int → Int → Option Int
  | .add, a, b => some (a + b)
  | .sub, a, b => some (a - b)
  | .mul, a, b => some (a * b)
  | .div, a, b => if b = 0 then none else some (Int.tdiv a b)
  | .band, _, _ => none

def Val.arith (op : AOp) : Val → Val → Option Val
  | .int a, .int b => (op.int a b).map .int
  | .u32 a, .u32 b => (op.nat M32 a b).map .u32
  | .u64 a, .u64 b => (op.nat M64 a b).map .u64
  -- `(a/b) / (c/d)`; the other float operations do not occur
  | .flt a b, .flt c d => (match op with | .div => if b = 0 ∨ c = 0 ∨ d = 0 then none else some (.flt (a * d) (b * c)) | _ => none)
  | _, _ => none

/-- the integer a value of an integer type stands for -/
def Val.toZ : Val → Option Int
  | .int n => some n
  | .u32 n => some n
  | .u64 n => some n
  | _ => none

def Val.isNil : Val → Option Bool
  | .ptr p => some p.isNone
  | .rows l => some l.isNone
  | _ => none

def Val.len : Val → Option Nat
  | .rows l => some (l.getD []).length
  | .groups l => some l.length
  | .entries l => some l.length
  | .cmps l => some l.length
  | _ => none

def Val.elems : Val → Option (List Val)
  | .rows l => some ((l.getD []).map .u32)
  | .groups l => some (l.map fun g => .rows (some g))
  | .entries l => some (l.map .entry)
  | .cmps l => some (l.map .cmp)
  | _ => none

def Val.at : Val → Nat → Option Val
  | .rows l, n => ((l.getD [])[n]?).map .u32
  | .entries l, n => (l[n]?).map .entry
  | _, _ => none

/-- `bits.Len64` -/
def bitLen (n : Nat) : Nat := if n = 0 then 0 else Nat.log2 n + 1

/-! ## Expressions -/

def E.eval (Γ : Env) (σ : Store) : E → Option Val
  | .var v => σ v
  | .int n => some (.int n)
  | .u32 n => some (.u32 n)
  | .u64 n => some (.u64 n)
  | .bool b => some (.bool b)
  | .flt n d => some (.flt n d)
  | .cres r => some (.cres r)
  | .nilPtr => some (.ptr none)
  | .nilRows => some (.rows none)
  | .field e f => match e.eval Γ σ with | some x => x.field f | none => none
  | .deref e =>
    match e.eval Γ σ with
    | some (.ptr (some (t, i))) =>
      (match σ t with
       | some (.tbl T) => (T.entries[i]?).map .entry
       | _ => none)
    | _ => none
  | .addrEntry t i =>
    match σ t, i.eval Γ σ with
    | some (.tbl T), some x =>
      (match x.toZ with
       | some n => if n < 0 ∨ (T.entries.length : Int) ≤ n then none else some (.ptr (some (t, n.toNat)))
       | none => none)
    | _, _ => none
  | .isNil e => match e.eval Γ σ with | some x => x.isNil.map .bool | none => none
  | .not e => match e.eval Γ σ with | some (.bool b) => some (.bool (!b)) | _ => none
  | .and a b =>
    match a.eval Γ σ with
    | some (.bool false) => some (.bool false)
    | some (.bool true) => (match b.eval Γ σ with | some (.bool x) => some (.bool x) | _ => none)
    | _ => none
  | .or a b =>
    match a.eval Γ σ with
    | some (.bool true) => some (.bool true)
    | some (.bool false) => (match b.eval Γ σ with | some (.bool x) => some (.bool x) | _ => none)
    | _ => none
  | .cmp op a b => match a.eval Γ σ, b.eval Γ σ with | some x, some y => (x.compare op y).map .bool | _, _ => none
  | .bin op a b => match a.eval Γ σ, b.eval Γ σ with | some x, some y => x.arith op y | _, _ => none
  | .toU32 e => match e.eval Γ σ with | some x => x.toZ.map (fun n => .u32 (n % (M32 : Int)).toNat) | none => none
  | .toU64 e => match e.eval Γ σ with | some x => x.toZ.map (fun n => .u64 (n % (M64 : Int)).toNat) | none => none
  | .toInt e =>
    match e.eval Γ σ with
    | some (.int n) => some (.int n)
    | some (.u32 n) => some (.int n)
    | some (.u64 n) => some (.int (if n < M64 / 2 then (n : Int) else (n : Int) - M64))
    | _ => none
  | .toFloat e =>
    match e.eval Γ σ with
    | some (.flt n d) => some (.flt n d)
    | some x => (match x.toZ with | some n => if n < 0 then none else some (.flt n.toNat 1) | none => none)
    | none => none
  | .len e => match e.eval Γ σ with | some x => x.len.map (fun n => .int n) | none => none
  | .at a i =>
    match a.eval Γ σ, i.eval Γ σ with
    | some x, some y => (match y.toZ with | some n => if n < 0 then none else x.at n.toNat | none => none)
    | _, _ => none
  | .makeEntries n =>
    match n.eval Γ σ with
    | some x => (match x.toZ with | some k => if k < 0 then none else some (.entries (List.replicate k.toNat {})) | none => none)
    | none => none
  | .makeRows c =>
    match c.eval Γ σ with
    | some x => (match x.toZ with | some k => if k < 0 then none else some (.rows (some [])) | none => none)
    | none => none
  | .makeGroups c =>
    match c.eval Γ σ with
    | some x => (match x.toZ with | some k => if k < 0 then none else some (.groups []) | none => none)
    | none => none
  | .rows1 a => match a.eval Γ σ with | some (.u32 x) => some (.rows (some [x])) | _ => none
  | .rows2 a b => match a.eval Γ σ, b.eval Γ σ with | some (.u32 x), some (.u32 y) => some (.rows (some [x, y])) | _, _ => none
  | .snoc l x =>
    match l.eval Γ σ, x.eval Γ σ with
    | some (.rows l), some (.u32 p) => some (.rows (some (l.getD [] ++ [p])))
    | some (.groups l), some (.rows g) => some (.groups (l ++ [g.getD []]))
    | _, _ => none
  | .bitLen64 e => match e.eval Γ σ with | some (.u64 n) => some (.int (bitLen n)) | _ => none
  | .pow2 e => match e.eval Γ σ with | some (.int n) => if n < 0 ∨ 62 < n then none else some (.int (2 ^ n.toNat : Nat)) | _ => none
  | .cmpHash c i s =>
    match c.eval Γ σ, i.eval Γ σ, s.eval Γ σ with
    | some (.cmp k), some (.u32 r), some (.u64 seed) => some (.u64 (k.hash r seed % M64))
    | _, _, _ => none
  | .cmpCompare c i j =>
    match c.eval Γ σ, i.eval Γ σ, j.eval Γ σ with
    | some (.cmp k), some (.u32 a), some (.u32 b) => some (.cres (k.compare a b))
    | _, _, _ => none
  | .mkTable es cs b =>
    match es.eval Γ σ, cs.eval Γ σ, b.eval Γ σ with
    | some (.entries l), some (.cmps k), some (.bool c) => some (.tbl { entries := l, cmps := k, collectIx := c })
    | _, _, _ => none
  | .pair a b => match a.eval Γ σ, b.eval Γ σ with | some x, some y => some (.pair x y) | _, _ => none
  | .call1 f a => match a.eval Γ σ with | some x => (Γ.call f [x]).map (·.1) | none => none
  | .call2 f a b => match a.eval Γ σ, b.eval Γ σ with | some x, some y => (Γ.call f [x, y]).map (·.1) | _, _ => none
  | .call3 f a b c =>
    match a.eval Γ σ, b.eval Γ σ, c.eval Γ σ with
    | some x, some y, some z => (Γ.call f [x, y, z]).map (·.1)
    | _, _, _ => none
  | .opaque _ => none

def evalArgs (Γ : Env) (σ : Store) : List E → Option (List Val)
  | [] => some []
  | e :: es => match e.eval Γ σ, evalArgs Γ σ es with | some x, some xs => some (x :: xs) | _, _ => none

/-! ## Statements -/

inductive Out where
  | next (σ : Store)
  /-- `break` -/
  | brk (σ : Store)
  /-- `return`; the store as it is then (for the receiver) -/
  | ret (v : Val) (σ : Store)
  /-- no meaning -/
  | stuck

/-- `range`: one round per element -/
def loop (step : Val → Nat → Store → Out) : List Val → Nat → Store → Out
  | [], _, σ => .next σ
  | x :: xs, i, σ =>
    match step x i σ with
    | .next σ' => loop step xs (i + 1) σ'
    | .brk σ' => .next σ'
    | r => r

/-- the three-clause `for` after its init statement: at most `fuel` rounds -/
def forLoop (cond : Store → Option Bool) (body post : Store → Out) : Nat → Store → Out
  | 0, _ => .stuck
  | fuel + 1, σ =>
    match cond σ with
    | some true =>
      (match body σ with
       | .next σ' =>
         (match post σ' with
          | .next σ'' => forLoop cond body post fuel σ''
          | _ => .stuck)
       | .brk σ' => .next σ'
       | r => r)
    | some false => .next σ
    | none => .stuck

def bindKV (k v : Option Var) (i : Nat) (x : Val) (σ : Store) : Store := (σ.setOpt k (.int i)).setOpt v x

def asBool : Option Val → Option Bool
  | some (.bool b) => some b
  | _ => none

def S.exec (Γ : Env) : S → Store → Out
  | .skip, σ => .next σ
  | .seq a b, σ =>
    match a.exec Γ σ with
    | .next σ' => b.exec Γ σ'
    | r => r
  | .define v e, σ => match e.eval Γ σ with | some x => .next (σ.set v x) | none => .stuck
  | .define2 v w e, σ => match e.eval Γ σ with | some (.pair x y) => .next ((σ.set v x).set w y) | _ => .stuck
  | .assign v e, σ => match e.eval Γ σ with | some x => .next (σ.set v x) | none => .stuck
  | .setField v p e, σ =>
    match σ v, e.eval Γ σ with
    | some s, some x =>
      (match Val.updPath (fun old => if old.sameKind x then some x else none) s p with
       | some s' => .next (σ.set v s')
       | none => .stuck)
    | _, _ => .stuck
  | .incrField v p, σ =>
    match σ v with
    | some s => (match Val.updPath Val.succ s p with | some s' => .next (σ.set v s') | none => .stuck)
    | none => .stuck
  | .setPtrField p f e, σ =>
    match σ p, e.eval Γ σ with
    | some (.ptr (some (t, i))), some x =>
      (match σ t with
       | some (.tbl T) =>
         (match T.entries[i]? with
          | some en =>
            (match (Val.entry en).setField f x with
             | some (.entry en') => .next (σ.set t (.tbl { T with entries := T.entries.set i en' }))
             | _ => .stuck)
          | none => .stuck)
       | _ => .stuck)
    | _, _ => .stuck
  | .setAt a i e, σ =>
    match σ a, i.eval Γ σ, e.eval Γ σ with
    | some (.entries l), some y, some (.entry en) =>
      (match y.toZ with
       | some n => if n < 0 ∨ (l.length : Int) ≤ n then .stuck else .next (σ.set a (.entries (l.set n.toNat en)))
       | none => .stuck)
    | _, _, _ => .stuck
  | .ite c t e, σ =>
    match c.eval Γ σ with
    | some (.bool true) => t.exec Γ σ
    | some (.bool false) => e.exec Γ σ
    | _ => .stuck
  | .range xs k v body, σ =>
    match xs.eval Γ σ with
    | some x =>
      (match x.elems with
       | some l => loop (fun y i σ' => body.exec Γ (bindKV k v i y σ')) l 0 σ
       | none => .stuck)
    | none => .stuck
  | .for init cond post body, σ =>
    match init.exec Γ σ with
    | .next σ' => forLoop (fun s => asBool (cond.eval Γ s)) (fun s => body.exec Γ s) (fun s => post.exec Γ s) Γ.fuel σ'
    | _ => .stuck
  | .brk, σ => .brk σ
  | .callMut f r args, σ =>
    match σ r, evalArgs Γ σ args with
    | some x, some xs =>
      (match Γ.call f (x :: xs) with
       | some (_, some x') => .next (σ.set r x')
       | _ => .stuck)
    | _, _ => .stuck
  | .ret e, σ => match e.eval Γ σ with | some x => .ret x σ | none => .stuck
  | .opaque _, _ => .stuck

/-! ## Calls -/

def bindArgs : List Val → Nat → Store → Store
  | [], _, σ => σ
  | x :: xs, i, σ => bindArgs xs (i + 1) (σ.set i x)

/-- the result (unit when the body ends without `return`) and the first variable as the body leaves it -/
def runFn (Γ : Env) (fn : Fn) (args : List Val) : Option (Val × Option Val) :=
  if args.length = fn.params then
    match fn.body.exec Γ (bindArgs args 0 Store.empty) with
    | .ret v σ => some (v, σ 0)
    | .next σ => some (.unit, σ 0)
    | _ => none
  else none

/-- calls nested at most `n` deep (the translated functions do not call themselves) -/
def callAt (P : List (FnId × Fn)) (fuel : Nat) : Nat → FnId → List Val → Option (Val × Option Val)
  | 0 => fun _ _ => none
  | n + 1 => fun f args =>
    match P.lookup f with
    | some fn => runFn { call := callAt P fuel n, fuel := fuel } fn args
    | none => none

/-- the call depth the interpretation allows (today: GroupBy → groupIndex → insertEntry → grow / hash / equals;
groupIndex → newTable → Pow2) -/
def depth : Nat := 5

/-- `groupIndex(ix, comparables, collectIx)` by the translated functions `P` -/
def interpGroupIndex (P : List (FnId × Fn)) (fuel : Nat) (cs : List Cmp) (ix : List Nat) (collect : Bool) : Option (List Entry × Stats) :=
  match callAt P fuel depth .groupIndex [.rows (some ix), .cmps cs, .bool collect] with
  | some (.pair (.entries es) (.stats s), _) => some (es, s)
  | _ => none

/-- `GroupBy(ix, comparables)` -/
def interpGroupBy (P : List (FnId × Fn)) (fuel : Nat) (cs : List Cmp) (ix : List Nat) : Option (List (List Nat) × Stats) :=
  match callAt P fuel depth .groupBy [.rows (some ix), .cmps cs] with
  | some (.pair (.groups gs) (.stats s), _) => some (gs, s)
  | _ => none

/-- `Distinct(ix, comparables)` -/
def interpDistinct (P : List (FnId × Fn)) (fuel : Nat) (cs : List Cmp) (ix : List Nat) : Option (List Nat) :=
  match callAt P fuel depth .distinct [.rows (some ix), .cmps cs] with
  | some (.rows (some l), _) => some l
  | _ => none

end QF.GL
