import QF.Spec.Ops
/-!
# JS / CW / PS — the three WRITERS of /repo/qframe.go as small programs, and their Go semantics

    func (qf QFrame) ToJSON(writer io.Writer) error                                  → JS  (a byte template program)
    func (qf QFrame) ToCSV(writer io.Writer, confFuncs ...csv.ToConfigFunc) error    → CW  (a record program)
    func (qf QFrame) String() string                                                 → PS  (a layout program)
    func fixLengthString(s string, pad string, desiredLen int) string                → FX
    func Max / Min(x, y int) int   of internal/math/integer                          → IE

The extractor (go/cmd/extract/wast.go) walks the bodies of these functions of /repo's current source — after the guard
`if qf.Err != nil { return … }`, which is part of `QF.Gen.guardAst2` (QF/Props/C10Guards.lean) — and writes what it finds
to `QF/Gen/Writers.lean` on every run.

Terms name things by ROLE, never by identifier: "the byte buffer" (the one local `[]byte` variable that is written),
"the table prepared per column" (a local slice that is filled in a loop over the frame's columns), "the record" (the
`[]string` that is handed to the csv writer), "the selection" (`[]namedColumn`), "the resolved columns"
(`[]column.Column`), "the key / the value of the loop over the frame's index", "the key / the value of the loop over the
frame's columns". A cell is only ever read by `<column>.AppendByteStringAt(buf, <row>)` / `<column>.StringAt(<row>, naRep)`
where `<row>` is the frame's index AT the position of the row loop (`ix` of `for i, ix := range qf.index`, or
`qf.index[i]`): that is the logical cell `c.cells[i]` of the spec's frame. Anything else is `.opaque`.

Programs are written in continuation style: every statement carries the statements that follow it (`k`); `done` ends a
block (the body of a loop or of an `if`).

The semantics follow Go: `none` is "no meaning" (opaque code, a role that is not available) or a run-time panic (index
out of range, a nil column, a negative slice bound). The formatters of the cells are parameters (QF/Props/C09Observe.lean
proves what today's per-cell functions return); so are the writers' faults.
-/
namespace QF

/-- `for j, a := range l { … }`: the body is run for every element with its position, and the loop is left as soon as
`stop` holds of the state (the body has executed a `return`). -/
def loopIdx {α σ : Type} (step : Nat → α → σ → Option σ) (stop : σ → Bool) : Nat → List α → σ → Option σ
  | _, [], s => some s
  | j, a :: as, s => if stop s then some s else (step j a s).bind (loopIdx step stop (j + 1) as)

/-- `f` on every element; `none` as soon as one of them has no value -/
def optMap {α β : Type} (f : α → Option β) : List α → Option (List β)
  | [] => some []
  | a :: as =>
    match f a, optMap f as with
    | some b, some bs => some (b :: bs)
    | _, _ => none

/-- The writer calls that happen when the chunks `l` are written one after the other to a writer whose call number `k`
(counted from `start`) fails iff `fail k`, by a program that returns at the first failure: the calls made (the failing one
included) and whether one failed. -/
def cutWrites {α : Type} (fail : Nat → Bool) : Nat → List α → List α × Bool
  | _, [] => ([], false)
  | k, b :: bs => if fail k then ([b], true) else ((cutWrites fail (k + 1) bs).1.cons b, (cutWrites fail (k + 1) bs).2)

/-! ## (A) `ToJSON`: a byte template program -/

/-- What is appended to the byte buffer. -/
inductive JSrc where
  /-- literal bytes: `append(buf, byte('{'))`, `append(buf, "…"...)` -/
  | lit (b : Bytes)
  /-- `append(buf, <table>[j]...)`: the entry of the prepared table at the position of the current column -/
  | prepared
  /-- `qfstrings.AppendQuotedString(buf, <column>.name)` for the current column -/
  | quotedName
  | opaque (txt : String)
  deriving DecidableEq, Repr, Inhabited

/-- The statements of `ToJSON` after its guard. -/
inductive JS where
  /-- `tbl := make([][]byte, len(qf.columns)); for i, col := range qf.columns { tbl[i] = <s applied to nil> }` -/
  | prep (s : JSrc) (k : JS)
  /-- `buf := []byte{…}` -/
  | setBuf (b : Bytes) (k : JS)
  /-- `buf = buf[:0]` -/
  | reset (k : JS)
  /-- `buf = append(buf, …)` -/
  | emit (s : JSrc) (k : JS)
  /-- `buf = <column>.AppendByteStringAt(buf, <row>)` for the current column and the current row -/
  | emitCell (k : JS)
  /-- `if i > 0 { t }` for the position `i` of the row loop -/
  | ifRowPos (t k : JS)
  /-- `if buf[len(buf)-1] == c { buf = buf[:len(buf)-1] }` -/
  | stripIfLast (c : UInt8) (k : JS)
  /-- `for i, ix := range qf.index { body }` -/
  | forRows (body k : JS)
  /-- `for j, col := range qf.columns { body }` -/
  | forCols (body k : JS)
  /-- `_, err = writer.Write(buf); if err != nil { return err }` -/
  | write (k : JS)
  /-- `_, err = writer.Write([]byte{…}); return err` -/
  | writeLitRet (b : Bytes)
  /-- the end of a block -/
  | done
  | opaque (txt : String)
  deriving DecidableEq, Repr, Inhabited

structure JEnv where
  f : LFrame
  /-- the bytes `AppendQuotedString(buf, ·)` appends to `buf` -/
  quote : Bytes → Bytes
  /-- `<column>.AppendByteStringAt(buf, ·)` on the cell: the buffer returned -/
  app : LCol → Bytes → Cell → Option Bytes
  /-- does the writer's `Write` call number `k` (from 0) return an error? -/
  fail : Nat → Bool

structure JCtx where
  row : Option Nat := none
  col : Option (Nat × LCol) := none

structure JSt where
  tbl : List Bytes := []
  buf : Bytes := []
  /-- the arguments of the `Write` calls so far, in order -/
  writes : List Bytes := []
  /-- `some e`: the function has returned, with a non-nil error iff `e` -/
  ret : Option Bool := none
  deriving Repr, DecidableEq

/-- what `s` makes of the nil buffer for the column `c` -/
def JSrc.ofNil (E : JEnv) (c : LCol) : JSrc → Option Bytes
  | .lit b => some b
  | .quotedName => some (E.quote c.name)
  | _ => none

/-- the bytes `s` appends -/
def JSrc.eval (E : JEnv) (c : JCtx) (σ : JSt) : JSrc → Option Bytes
  | .lit b => some b
  | .prepared => c.col.bind (fun p => σ.tbl[p.1]?)
  | .quotedName => c.col.map (fun p => E.quote p.2.name)
  | .opaque _ => none

def JS.run (E : JEnv) : JS → JCtx → JSt → Option JSt
  | .prep s k, c, σ =>
    match optMap (fun col => s.ofNil E col) E.f.cols with
    | some t => k.run E c { σ with tbl := t }
    | none => none
  | .setBuf b k, c, σ => k.run E c { σ with buf := b }
  | .reset k, c, σ => k.run E c { σ with buf := [] }
  | .emit s k, c, σ =>
    match s.eval E c σ with
    | some b => k.run E c { σ with buf := σ.buf ++ b }
    | none => none
  | .emitCell k, c, σ =>
    match c.row, c.col with
    | some i, some (_, col) =>
      match E.app col σ.buf col.cells[i]! with
      | some b => k.run E c { σ with buf := b }
      | none => none
    | _, _ => none
  | .ifRowPos t k, c, σ =>
    match c.row with
    | some i =>
      if i > 0 then
        match t.run E c σ with
        | some σ' => if σ'.ret.isSome then some σ' else k.run E c σ'
        | none => none
      else k.run E c σ
    | none => none
  | .stripIfLast x k, c, σ =>
    match σ.buf.getLast? with
    | some y => k.run E c (if y = x then { σ with buf := σ.buf.dropLast } else σ)
    | none => none          -- index out of range
  | .forRows body k, c, σ =>
    match loopIdx (fun _ i σ => body.run E { c with row := some i } σ) (fun σ => σ.ret.isSome) 0 (List.range E.f.n) σ with
    | some σ' => if σ'.ret.isSome then some σ' else k.run E c σ'
    | none => none
  | .forCols body k, c, σ =>
    match loopIdx (fun j col σ => body.run E { c with col := some (j, col) } σ) (fun σ => σ.ret.isSome) 0 E.f.cols σ with
    | some σ' => if σ'.ret.isSome then some σ' else k.run E c σ'
    | none => none
  | .write k, c, σ =>
    if E.fail σ.writes.length then some { σ with writes := σ.writes ++ [σ.buf], ret := some true }
    else k.run E c { σ with writes := σ.writes ++ [σ.buf] }
  | .writeLitRet b, _, σ => some { σ with writes := σ.writes ++ [b], ret := some (E.fail σ.writes.length) }
  | .done, _, σ => some σ
  | .opaque _, _, _ => none

/-- What a caller of `ToJSON` sees: the `Write` calls in order and whether a non-nil error was returned; `none` when the
program has no meaning, panics or falls off its end. -/
def JS.output (E : JEnv) (p : JS) : Option (List Bytes × Bool) :=
  match p.run E {} {} with
  | some σ => σ.ret.map (fun e => (σ.writes, e))
  | none => none

def JSrc.hasOpaque : JSrc → Bool
  | .opaque _ => true
  | _ => false

def JS.hasOpaque : JS → Bool
  | .opaque _ => true
  | .prep s k | .emit s k => s.hasOpaque || k.hasOpaque
  | .setBuf _ k | .reset k | .emitCell k | .stripIfLast _ k | .write k => k.hasOpaque
  | .ifRowPos t k | .forRows t k | .forCols t k => t.hasOpaque || k.hasOpaque
  | .writeLitRet _ | .done => false

/-! ## (B) `ToCSV`: a record program -/

/-- What is appended to the record / to the resolved columns. -/
inductive CWItem where
  /-- `<s>.name` for the current element of the loop over the selection -/
  | selName
  /-- `qf.columnsByName[<name>]` for the current element of the loop over the record -/
  | recLookup
  /-- `<col>.StringAt(<row>, naRep)` for the current element of the loop over the resolved columns and the current row -/
  | cellString (naRep : Bytes)
  | opaque (txt : String)
  deriving DecidableEq, Repr, Inhabited

/-- The statements of `ToCSV` after the configuration is fetched and the frame's error is checked. The three list variables
are named by role: the SELECTION (`[]namedColumn`), the RECORD (`[]string`, handed to the csv writer), the RESOLVED columns
(`[]column.Column`). -/
inductive CW where
  /-- `if conf.Columns != nil { t } else { e }` -/
  | ifGiven (t e k : CW)
  /-- `if len(conf.Columns) != len(qf.columns) { return <error> }` -/
  | rejectIfLenNe (k : CW)
  /-- `sel = make([]namedColumn, len(qf.columns))` -/
  | selAlloc (k : CW)
  /-- `sel = qf.columns` -/
  | selFrame (k : CW)
  /-- `for i := range conf.Columns { body }` (the name `conf.Columns[i]` is the current one) -/
  | forGiven (body k : CW)
  /-- `if col, ok := qf.columnsByName[<current given name>]; !ok { miss } else { hit }` -/
  | lookupGiven (miss hit k : CW)
  /-- `sel[i] = col` for the position of the loop over the given names and the column just found -/
  | selSet (k : CW)
  /-- `return <non-nil error>` (a call into qerrors) -/
  | retErr
  /-- `rec := make([]string, 0, …)` -/
  | recNew (k : CW)
  /-- `rec = rec[:0]` -/
  | recReset (k : CW)
  /-- `cols := make([]column.Column, 0, …)` -/
  | colsNew (k : CW)
  /-- `for _, s := range sel { body }` -/
  | forSel (body k : CW)
  /-- `for _, name := range rec { body }` -/
  | forRec (body k : CW)
  /-- `for _, col := range cols { body }` -/
  | forResolved (body k : CW)
  /-- `rec = append(rec, x)` -/
  | recPush (x : CWItem) (k : CW)
  /-- `cols = append(cols, x)` -/
  | colsPush (x : CWItem) (k : CW)
  /-- `w := csv.NewWriter(writer)` -/
  | newWriter (k : CW)
  /-- `if conf.Header { t }` -/
  | ifHeader (t k : CW)
  /-- `err := w.Write(rec); if err != nil { return err }` -/
  | writeRec (k : CW)
  /-- `for i := 0; i < qf.Len(); i++ { body }` -/
  | forRows (body k : CW)
  /-- `w.Flush()` -/
  | flush (k : CW)
  /-- `return w.Error()` -/
  | retWriterErr
  | done
  | opaque (txt : String)
  deriving DecidableEq, Repr, Inhabited

structure CWEnv where
  f : LFrame
  /-- `conf.Columns`: `none` is nil -/
  given : Option (List Bytes)
  /-- `conf.Header` -/
  hdr : Bool
  /-- `<column>.StringAt(·, naRep)` on the cell -/
  strAt : LCol → Bytes → Cell → Option Bytes
  /-- does `w.Write` number `k` (from 0) return an error? -/
  wfail : Nat → Bool
  /-- is `w.Error()` non-nil after `w.Flush()` (when no `Write` has returned an error)? -/
  ferr : Bool

/-- How `ToCSV` has returned. -/
inductive CWRet where
  | nil
  /-- an error of `ToCSV`'s own (column selection) -/
  | reject
  /-- the error a `w.Write` returned -/
  | writeErr
  /-- the non-nil `w.Error()` -/
  | writerErr
  deriving DecidableEq, Repr, Inhabited

structure CWCtx where
  row : Option Nat := none
  /-- position and name in the loop over the given names -/
  g : Option (Nat × Bytes) := none
  /-- the column found by the look-up (`ok` is true) -/
  found : Option LCol := none
  /-- the element of the loop over the selection (`none` inside: the zero value) -/
  s : Option (Option LCol) := none
  /-- the element of the loop over the record -/
  nm : Option Bytes := none
  /-- the element of the loop over the resolved columns (`none` inside: a nil column) -/
  col : Option (Option LCol) := none

structure CWSt where
  sel : List (Option LCol) := []
  recd : List Bytes := []
  cols : List (Option LCol) := []
  /-- a csv writer exists -/
  writer : Bool := false
  /-- the records handed to `w.Write`, in order -/
  recs : List (List Bytes) := []
  flushed : Bool := false
  ret : Option CWRet := none
  deriving Repr

def CW.run (E : CWEnv) : CW → CWCtx → CWSt → Option CWSt
  | .ifGiven t e k, c, σ =>
    match (if E.given.isSome then t.run E c σ else e.run E c σ) with
    | some σ' => if σ'.ret.isSome then some σ' else k.run E c σ'
    | none => none
  | .rejectIfLenNe k, c, σ =>
    match E.given with
    | some g => if g.length ≠ E.f.cols.length then some { σ with ret := some .reject } else k.run E c σ
    | none => none          -- len(nil) is 0, but the statement is only meaningful where the list is given
  | .selAlloc k, c, σ => k.run E c { σ with sel := List.replicate E.f.cols.length none }
  | .selFrame k, c, σ => k.run E c { σ with sel := E.f.cols.map some }
  | .forGiven body k, c, σ =>
    match loopIdx (fun i nm σ => body.run E { c with g := some (i, nm) } σ) (fun σ => σ.ret.isSome) 0 (E.given.getD []) σ with
    | some σ' => if σ'.ret.isSome then some σ' else k.run E c σ'
    | none => none
  | .lookupGiven miss hit k, c, σ =>
    match c.g with
    | some (_, nm) =>
      match (match E.f.find? nm with
             | some col => hit.run E { c with found := some col } σ
             | none => miss.run E c σ) with
      | some σ' => if σ'.ret.isSome then some σ' else k.run E c σ'
      | none => none
    | none => none
  | .selSet k, c, σ =>
    match c.g, c.found with
    | some (i, _), some col => if i < σ.sel.length then k.run E c { σ with sel := σ.sel.set i (some col) } else none
    | _, _ => none
  | .retErr, _, σ => some { σ with ret := some .reject }
  | .recNew k, c, σ => k.run E c { σ with recd := [] }
  | .recReset k, c, σ => k.run E c { σ with recd := [] }
  | .colsNew k, c, σ => k.run E c { σ with cols := [] }
  | .forSel body k, c, σ =>
    match loopIdx (fun _ s σ => body.run E { c with s := some s } σ) (fun σ => σ.ret.isSome) 0 σ.sel σ with
    | some σ' => if σ'.ret.isSome then some σ' else k.run E c σ'
    | none => none
  | .forRec body k, c, σ =>
    match loopIdx (fun _ nm σ => body.run E { c with nm := some nm } σ) (fun σ => σ.ret.isSome) 0 σ.recd σ with
    | some σ' => if σ'.ret.isSome then some σ' else k.run E c σ'
    | none => none
  | .forResolved body k, c, σ =>
    match loopIdx (fun _ col σ => body.run E { c with col := some col } σ) (fun σ => σ.ret.isSome) 0 σ.cols σ with
    | some σ' => if σ'.ret.isSome then some σ' else k.run E c σ'
    | none => none
  | .recPush x k, c, σ =>
    match x with
    | .selName =>
      match c.s with
      | some s => k.run E c { σ with recd := σ.recd ++ [(s.map (·.name)).getD []] }
      | none => none
    | .cellString naRep =>
      match c.col, c.row with
      | some (some col), some i =>
        match E.strAt col naRep col.cells[i]! with
        | some b => k.run E c { σ with recd := σ.recd ++ [b] }
        | none => none
      | _, _ => none          -- a nil column: Go panics
    | _ => none
  | .colsPush x k, c, σ =>
    match x with
    | .recLookup =>
      match c.nm with
      | some nm => k.run E c { σ with cols := σ.cols ++ [E.f.find? nm] }
      | none => none
    | _ => none
  | .newWriter k, c, σ => k.run E c { σ with writer := true }
  | .ifHeader t k, c, σ =>
    if E.hdr then
      match t.run E c σ with
      | some σ' => if σ'.ret.isSome then some σ' else k.run E c σ'
      | none => none
    else k.run E c σ
  | .writeRec k, c, σ =>
    if σ.writer then
      if E.wfail σ.recs.length then some { σ with recs := σ.recs ++ [σ.recd], ret := some .writeErr }
      else k.run E c { σ with recs := σ.recs ++ [σ.recd] }
    else none
  | .forRows body k, c, σ =>
    match loopIdx (fun _ i σ => body.run E { c with row := some i } σ) (fun σ => σ.ret.isSome) 0 (List.range E.f.n) σ with
    | some σ' => if σ'.ret.isSome then some σ' else k.run E c σ'
    | none => none
  | .flush k, c, σ => if σ.writer then k.run E c { σ with flushed := true } else none
  | .retWriterErr, _, σ => if σ.writer then some { σ with ret := some (if E.ferr then .writerErr else .nil) } else none
  | .done, _, σ => some σ
  | .opaque _, _, _ => none

/-- What a caller of `ToCSV` sees: the records handed to the csv writer, whether the writer was flushed, and the return. -/
def CW.output (E : CWEnv) (p : CW) : Option (List (List Bytes) × Bool × CWRet) :=
  match p.run E {} {} with
  | some σ => σ.ret.map (fun r => (σ.recs, σ.flushed, r))
  | none => none

def CWItem.hasOpaque : CWItem → Bool
  | .opaque _ => true
  | _ => false

def CW.hasOpaque : CW → Bool
  | .opaque _ => true
  | .ifGiven t e k | .lookupGiven t e k => t.hasOpaque || e.hasOpaque || k.hasOpaque
  | .forGiven t k | .forSel t k | .forRec t k | .forResolved t k | .ifHeader t k | .forRows t k => t.hasOpaque || k.hasOpaque
  | .recPush x k | .colsPush x k => x.hasOpaque || k.hasOpaque
  | .rejectIfLenNe k | .selAlloc k | .selFrame k | .selSet k | .recNew k | .recReset k | .colsNew k | .newWriter k
  | .writeRec k | .flush k => k.hasOpaque
  | .retErr | .retWriterErr | .done => false

/-! ## (C) `String()`: a layout program -/

inductive ICmp where
  | gt | lt | ge | le
  deriving DecidableEq, Repr, Inhabited

def ICmp.eval : ICmp → Int → Int → Bool
  | .gt, a, b => decide (a > b)
  | .lt, a, b => decide (a < b)
  | .ge, a, b => decide (a ≥ b)
  | .le, a, b => decide (a ≤ b)

/-- An int function of two int parameters (`integer.Max`, `integer.Min`): `x`, `y` are the first and second parameter. -/
inductive IE where
  | x | y
  /-- `if a <c> b { t }` followed by `e` -/
  | ite (c : ICmp) (a b t e : IE)
  | opaque (txt : String)
  deriving DecidableEq, Repr, Inhabited

def IE.eval (x y : Int) : IE → Option Int
  | .x => some x
  | .y => some y
  | .ite c a b t e =>
    match a.eval x y, b.eval x y with
    | some u, some v => if c.eval u v then t.eval x y else e.eval x y
    | _, _ => none
  | .opaque _ => none

def IE.hasOpaque : IE → Bool
  | .opaque _ => true
  | .ite _ a b t e => a.hasOpaque || b.hasOpaque || t.hasOpaque || e.hasOpaque
  | _ => false

/-- Ints of `fixLengthString(s, pad, desiredLen)`. -/
inductive FXI where
  /-- the third parameter -/
  | w
  /-- `len(s)` -/
  | lenS
  | lit (n : Int)
  | sub (a b : FXI)
  deriving DecidableEq, Repr, Inhabited

/-- Strings of `fixLengthString`. -/
inductive FXS where
  /-- the first parameter -/
  | s
  /-- the second parameter -/
  | pad
  | lit (b : Bytes)
  | cat (a b : FXS)
  /-- `x[:hi]` -/
  | sliceTo (x : FXS) (hi : FXI)
  /-- `strings.Repeat(x, n)` -/
  | rep (x : FXS) (n : FXI)
  deriving DecidableEq, Repr, Inhabited

/-- `fixLengthString` as a decision tree. -/
inductive FX where
  /-- `if a <c> b { t }` followed by `e` -/
  | ite (c : ICmp) (a b : FXI) (t e : FX)
  | ret (v : FXS)
  | opaque (txt : String)
  deriving DecidableEq, Repr, Inhabited

def FXI.eval (s : Bytes) (w : Int) : FXI → Int
  | .w => w
  | .lenS => s.length
  | .lit n => n
  | .sub a b => a.eval s w - b.eval s w

/-- `none`: Go panics (slice bounds out of range, negative `Repeat` count) -/
def FXS.eval (s pad : Bytes) (w : Int) : FXS → Option Bytes
  | .s => some s
  | .pad => some pad
  | .lit b => some b
  | .cat a b =>
    match a.eval s pad w, b.eval s pad w with
    | some u, some v => some (u ++ v)
    | _, _ => none
  | .sliceTo x hi =>
    match x.eval s pad w with
    | some u => if 0 ≤ hi.eval s w ∧ hi.eval s w ≤ u.length then some (u.take (hi.eval s w).toNat) else none
    | none => none
  | .rep x n =>
    match x.eval s pad w with
    | some u => if 0 ≤ n.eval s w then some (List.replicate (n.eval s w).toNat u).flatten else none
    | none => none

def FX.eval (s pad : Bytes) (w : Int) : FX → Option Bytes
  | .ite c a b t e => if c.eval (a.eval s w) (b.eval s w) then t.eval s pad w else e.eval s pad w
  | .ret v => v.eval s pad w
  | .opaque _ => none

def FX.hasOpaque : FX → Bool
  | .opaque _ => true
  | .ite _ _ _ t e => t.hasOpaque || e.hasOpaque
  | .ret _ => false

/-- Expressions of `String()`: strings and ints. -/
inductive PE where
  /-- a string literal -/
  | str (b : Bytes)
  /-- an int literal -/
  | num (n : Int)
  /-- `<column>.name` for the current column -/
  | colName
  /-- `string(<column>.DataType())` -/
  | typeName
  /-- `s[:n]` -/
  | sliceTo (n : Nat) (s : PE)
  /-- `a + b` on strings -/
  | cat (a b : PE)
  /-- `len(s)` -/
  | len (s : PE)
  /-- `integer.Max(a, b)` / `integer.Min(a, b)` -/
  | max (a b : PE)
  | min (a b : PE)
  /-- `qf.Len()` (the error is nil) -/
  | nrows
  /-- `len(qf.columns)` -/
  | ncols
  /-- `widths[j]` at the position of the current column -/
  | width
  /-- `<column>.StringAt(<row>, naRep)` for the current column and the current row -/
  | cellStr (naRep : Bytes)
  /-- `fixLengthString(s, pad, w)` -/
  | fix (s pad w : PE)
  /-- `%d` of `fmt.Sprintf` -/
  | itoa (n : PE)
  | opaque (txt : String)
  deriving DecidableEq, Repr, Inhabited

/-- The statements of `String()` after its guard. -/
inductive PS where
  /-- `result := make([]string, 0, …)` -/
  | allocResult (k : PS)
  /-- `row := make([]string, len(qf.columns))` -/
  | allocRow (k : PS)
  /-- `widths := make([]int, len(qf.columns))` -/
  | allocWidths (k : PS)
  /-- `for j, s := range qf.columns { body }` -/
  | forCols (body k : PS)
  /-- `widths[j] = e` -/
  | setWidth (e : PE) (k : PS)
  /-- `row[j] = e` -/
  | setRow (e : PE) (k : PS)
  /-- `result = append(result, strings.Join(row, sep))` -/
  | pushJoin (sep : Bytes) (k : PS)
  /-- `result = append(result, e)` -/
  | push (e : PE) (k : PS)
  /-- `for i := 0; i < bound; i++ { body }` -/
  | forRowsTo (bound : PE) (body k : PS)
  /-- `if a > b { t }` -/
  | ifGt (a b : PE) (t k : PS)
  /-- `return strings.Join(result, sep)` -/
  | retJoin (sep : Bytes)
  | done
  | opaque (txt : String)
  deriving DecidableEq, Repr, Inhabited

inductive PV where
  | s (b : Bytes)
  | i (n : Int)
  deriving DecidableEq, Repr, Inhabited

structure PEnv where
  f : LFrame
  /-- `string(<column>.DataType())` -/
  typeName : LCol → Option Bytes
  /-- `<column>.StringAt(·, naRep)` on the cell -/
  strAt : LCol → Bytes → Cell → Option Bytes
  /-- `fixLengthString` -/
  fix : Bytes → Bytes → Int → Option Bytes
  max : Int → Int → Option Int
  min : Int → Int → Option Int
  /-- `%d` -/
  itoa : Int → Bytes

structure PCtx where
  row : Option Nat := none
  col : Option (Nat × LCol) := none

structure PSt where
  result : List Bytes := []
  row : List Bytes := []
  widths : List Int := []
  ret : Option Bytes := none
  deriving Repr, DecidableEq

/-- `strings.Join(l, sep)` -/
def joinBytes (sep : Bytes) (l : List Bytes) : Bytes := (l.intersperse sep).flatten

def PE.eval (E : PEnv) (c : PCtx) (σ : PSt) : PE → Option PV
  | .str b => some (.s b)
  | .num n => some (.i n)
  | .colName => c.col.map (fun p => .s p.2.name)
  | .typeName => c.col.bind (fun p => (E.typeName p.2).map .s)
  | .sliceTo n s =>
    match s.eval E c σ with
    | some (.s b) => if n ≤ b.length then some (.s (b.take n)) else none
    | _ => none
  | .cat a b =>
    match a.eval E c σ, b.eval E c σ with
    | some (.s u), some (.s v) => some (.s (u ++ v))
    | _, _ => none
  | .len s =>
    match s.eval E c σ with
    | some (.s b) => some (.i b.length)
    | _ => none
  | .max a b =>
    match a.eval E c σ, b.eval E c σ with
    | some (.i u), some (.i v) => (E.max u v).map .i
    | _, _ => none
  | .min a b =>
    match a.eval E c σ, b.eval E c σ with
    | some (.i u), some (.i v) => (E.min u v).map .i
    | _, _ => none
  | .nrows => some (.i E.f.n)
  | .ncols => some (.i E.f.cols.length)
  | .width => c.col.bind (fun p => σ.widths[p.1]?.map .i)
  | .cellStr naRep =>
    match c.row, c.col with
    | some i, some (_, col) => if i < E.f.n then (E.strAt col naRep col.cells[i]!).map .s else none   -- `qf.index[i]`
    | _, _ => none
  | .fix s pad w =>
    match s.eval E c σ, pad.eval E c σ, w.eval E c σ with
    | some (.s u), some (.s p), some (.i n) => (E.fix u p n).map .s
    | _, _, _ => none
  | .itoa n =>
    match n.eval E c σ with
    | some (.i v) => some (.s (E.itoa v))
    | _ => none
  | .opaque _ => none

def PS.run (E : PEnv) : PS → PCtx → PSt → Option PSt
  | .allocResult k, c, σ => k.run E c { σ with result := [] }
  | .allocRow k, c, σ => k.run E c { σ with row := List.replicate E.f.cols.length [] }
  | .allocWidths k, c, σ => k.run E c { σ with widths := List.replicate E.f.cols.length 0 }
  | .forCols body k, c, σ =>
    match loopIdx (fun j col σ => body.run E { c with col := some (j, col) } σ) (fun σ => σ.ret.isSome) 0 E.f.cols σ with
    | some σ' => if σ'.ret.isSome then some σ' else k.run E c σ'
    | none => none
  | .setWidth e k, c, σ =>
    match c.col, e.eval E c σ with
    | some (j, _), some (.i n) => if j < σ.widths.length then k.run E c { σ with widths := σ.widths.set j n } else none
    | _, _ => none
  | .setRow e k, c, σ =>
    match c.col, e.eval E c σ with
    | some (j, _), some (.s b) => if j < σ.row.length then k.run E c { σ with row := σ.row.set j b } else none
    | _, _ => none
  | .pushJoin sep k, c, σ => k.run E c { σ with result := σ.result ++ [joinBytes sep σ.row] }
  | .push e k, c, σ =>
    match e.eval E c σ with
    | some (.s b) => k.run E c { σ with result := σ.result ++ [b] }
    | _ => none
  | .forRowsTo bound body k, c, σ =>
    match bound.eval E c σ with
    | some (.i n) =>
      match loopIdx (fun _ i σ => body.run E { c with row := some i } σ) (fun σ => σ.ret.isSome) 0 (List.range n.toNat) σ with
      | some σ' => if σ'.ret.isSome then some σ' else k.run E c σ'
      | none => none
    | _ => none
  | .ifGt a b t k, c, σ =>
    match a.eval E c σ, b.eval E c σ with
    | some (.i u), some (.i v) =>
      if u > v then
        match t.run E c σ with
        | some σ' => if σ'.ret.isSome then some σ' else k.run E c σ'
        | none => none
      else k.run E c σ
    | _, _ => none
  | .retJoin sep, _, σ => some { σ with ret := some (joinBytes sep σ.result) }
  | .done, _, σ => some σ
  | .opaque _, _, _ => none

/-- the string `String()` returns -/
def PS.output (E : PEnv) (p : PS) : Option Bytes := (p.run E {} {}).bind (·.ret)

def PE.hasOpaque : PE → Bool
  | .opaque _ => true
  | .sliceTo _ s | .len s | .itoa s => s.hasOpaque
  | .cat a b | .max a b | .min a b => a.hasOpaque || b.hasOpaque
  | .fix s p w => s.hasOpaque || p.hasOpaque || w.hasOpaque
  | _ => false

def PS.hasOpaque : PS → Bool
  | .opaque _ => true
  | .allocResult k | .allocRow k | .allocWidths k | .pushJoin _ k => k.hasOpaque
  | .forCols t k => t.hasOpaque || k.hasOpaque
  | .setWidth e k | .setRow e k | .push e k => e.hasOpaque || k.hasOpaque
  | .forRowsTo b t k => b.hasOpaque || t.hasOpaque || k.hasOpaque
  | .ifGt a b t k => a.hasOpaque || b.hasOpaque || t.hasOpaque || k.hasOpaque
  | .retJoin _ | .done => false

/-! ## Generic facts about `loopIdx`, `optMap`, `cutWrites` -/

theorem loopIdx_stop {α σ : Type} (step : Nat → α → σ → Option σ) (stop : σ → Bool) (j : Nat) (l : List α) (s : σ)
    (h : stop s = true) : loopIdx step stop j l s = some s := by
  cases l <;> simp [loopIdx, h]

theorem optMap_eq_mapM {α β : Type} (g : α → Option β) : ∀ l : List α, optMap g l = l.mapM g := by
  intro l
  induction l with
  | nil => rfl
  | cons a as ih =>
    rw [List.mapM_cons, optMap, ih]
    cases g a <;> cases as.mapM g <;> rfl

theorem optMap_mem {α β : Type} (g : α → Option β) : ∀ (l : List α) (r : List β), optMap g l = some r →
    r.length = l.length ∧ ∀ b ∈ r, ∃ a ∈ l, g a = some b := by
  intro l
  induction l with
  | nil => intro r h; simp [optMap] at h; subst h; simp
  | cons a as ih =>
    intro r h
    rw [optMap] at h
    cases ha : g a with
    | none => simp [ha] at h
    | some b =>
      cases hs : optMap g as with
      | none => simp [ha, hs] at h
      | some bs =>
        simp [ha, hs] at h
        subst h
        obtain ⟨h1, h2⟩ := ih bs hs
        refine ⟨by simp [h1], ?_⟩
        intro x hx
        simp at hx
        rcases hx with rfl | hx
        · exact ⟨a, by simp, ha⟩
        · obtain ⟨y, hy, e⟩ := h2 x hx
          exact ⟨y, by simp [hy], e⟩


theorem cutWrites_nofail {α : Type} (fail : Nat → Bool) (h : ∀ k, fail k = false) :
    ∀ (l : List α) (s : Nat), cutWrites fail s l = (l, false) := by
  intro l
  induction l with
  | nil => intro s; rfl
  | cons b bs ih => intro s; simp [cutWrites, h, ih]

theorem optMap_some {α β : Type} (g : α → β) : ∀ l : List α, optMap (fun a => some (g a)) l = some (l.map g) := by
  intro l
  induction l with
  | nil => rfl
  | cons a as ih => simp [optMap, ih]

theorem cutWrites_ok {α : Type} (fail : Nat → Bool) : ∀ (l : List α) (s : Nat), (cutWrites fail s l).2 = false →
    (cutWrites fail s l).1 = l := by
  intro l
  induction l with
  | nil => intro s _; rfl
  | cons b bs ih =>
    intro s h
    by_cases hs : fail s = true
    · simp [cutWrites, hs] at h
    · simp only [cutWrites, hs, Bool.false_eq_true, if_false] at h ⊢
      rw [List.cons_eq_cons]; exact ⟨rfl, ih (s + 1) h⟩

/-- one more chunk after `l` -/
theorem cutWrites_snoc {α : Type} (fail : Nat → Bool) (x : α) : ∀ (l : List α) (s : Nat),
    cutWrites fail s (l ++ [x]) =
      if (cutWrites fail s l).2 then cutWrites fail s l
      else ((cutWrites fail s l).1 ++ [x], fail (s + l.length)) := by
  intro l
  induction l with
  | nil => intro s; by_cases hs : fail s = true <;> simp [cutWrites, hs]
  | cons b bs ih =>
    intro s
    by_cases hs : fail s = true
    · simp [cutWrites, hs]
    · simp only [List.cons_append, cutWrites, hs, Bool.false_eq_true, if_false, ih (s + 1)]
      by_cases hc : (cutWrites fail (s + 1) bs).2 = true
      · simp [hc]
      · have e : s + 1 + bs.length = s + (bs.length + 1) := by omega
        simp [hc, e]


end QF
