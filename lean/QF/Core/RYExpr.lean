/-!
# RY — the language of the RYU CORE (/repo/internal/ryu/ryu64.go, ryu.go), and its Go semantics

    func float64ToDecimalExactInt(mant, exp uint64) (d dec64, ok bool)
    func float64ToDecimal(mant, exp uint64) dec64          -- steps 1–4 of Ryu's d2d, three digit-removal loops
    func decimalLen64(u uint64) int
    func mulShift64, shiftRight128, pow5Factor64, multipleOfPowerOfFive64, multipleOfPowerOfTwo64
    func log10Pow2, log10Pow5, pow5Bits, boolToInt, boolToUint32, boolToUint64, assert
    func AppendFloat64f, appendSpecialf, (d dec64) appendF, sizeSlice      -- the digit layout (second stage)

go/cmd/extract/ryuast.go translates the bodies of these functions, statement by statement, to terms of the small imperative
language below and writes them to `QF/Gen/RyuFns.lean` on every run. The language is generic: variables, `:=`, `=`,
`x.f = e`, `if`, three-clause `for` with `break`, `return`, fixed-width unsigned and signed arithmetic, shifts, conversions,
structs of two fields, `bits.Mul64`, `bits.LeadingZeros64`, `bits.TrailingZeros64`, look-ups in the package-level tables,
calls of the other translated functions.

Terms name things by ROLE:
* a variable is the number of variables alive at its declaration (parameters first, then named results, then every `:=` /
  `var` in the order of the text; a block's variables end with the block, so that the store is a stack) — names do not reach
  the output;
* a function is its number in the order of discovery: 0, 1, 2, 3 are the roots (`(uint64, uint64) (dec, bool)` and
  `(uint64, uint64) dec` called by the public `AppendFloat64f`, `(uint64) int` called by the method the result is formatted
  with, and `AppendFloat64f` itself); every other function gets the next number when the translation first meets a call of it;
* a struct is a pair; its fields are numbered in the order of the declaration (`uint128`: 0 `lo`, 1 `hi` — the order the
  tables of `QF.Gen.Ryu` are read in; `dec64`: 0 `m`, 1 `e`);
* package-level constants are replaced by their values, typed by the context; constant expressions are folded exactly.

## What the semantics models, and how exactly

* `uint8` / `uint32` / `uint64` (`uint` is `uint64`): exactly, modulo 2^w (`Val.u w n` with `n < 2^w`).
* `int32` / `int` (64 bits): exactly, two's complement (`Val.i w z` with `-2^(w-1) ≤ z < 2^(w-1)`; every operation wraps).
* `/`, `%`: truncated division; a zero divisor has no meaning (Go panics).
* shifts: the count is any unsigned value, or a signed one that is not negative (Go panics otherwise); counts ≥ w give 0
  (for `>>` on a signed operand: the arithmetic shift).
* a conversion `T(e)` between integer types keeps the value modulo 2^w.
* `assert(c, msg)` (a function whose body is `if !c { panic(msg) }`) is `S.assert c`: no meaning if `c` is false.
* table look-ups outside the table have no meaning (Go panics).
* a `[]byte` is `Val.bytes content spare`: the visible content and whatever lies in the spare capacity behind it (the buffer
  model of QF/Core/AppendF.lean). `b[:hi]` may make stale bytes visible; `append` reuses (and overwrites) the spare capacity
  when it suffices, else it returns a new backing array whose spare capacity is unspecified: `Env.fresh site`, by the number
  of the `append` in the translation unit. A slice has one owner (the translated code never keeps two slices of one array).
* a `float64` parameter is its bit pattern (`Val.f64`, read by `math.Float64bits`).
* a `for` loop that runs `Env.fuel` rounds has no meaning (`stuck`).
Whatever has no meaning — a panic, a value of the wrong kind, something the translator did not understand (`opaque`) — is
`none` / `stuck`.
-/
namespace QF.RY

abbrev Var := Nat
abbrev FnId := Nat

/-- the package-level tables: `pow5Split64`, `pow5InvSplit64` (by name, as `QF.Gen.Ryu` reads them) and the array of
`uint64` that is indexed in the translation unit (today `powersOf10`) -/
inductive Tbl where
  | pow5Split | pow5InvSplit | pow10
  deriving DecidableEq, Repr, Inhabited

inductive COp where
  | lt | le | gt | ge | eq | ne
  deriving DecidableEq, Repr, Inhabited

inductive AOp where
  | add | sub | mul | div | mod | band | bor | bxor
  deriving DecidableEq, Repr, Inhabited

/-- Expressions. -/
inductive E where
  | var (v : Var)
  /-- a constant of type `uint<w>` -/
  | u (w n : Nat)
  /-- a constant of type `int<w>` (`int` is `int64`) -/
  | i (w : Nat) (z : Int)
  | bool (b : Bool)
  /-- `e.f` for the `k`-th field of a struct -/
  | field (e : E) (k : Nat)
  /-- `T{f₀: a, f₁: b}` (fields in the order of the declaration), also the values of `return a, b` -/
  | mk2 (a b : E)
  | not (e : E)
  /-- `-e` -/
  | neg (e : E)
  /-- `a && b` (b is not evaluated when a is false) -/
  | and (a b : E)
  /-- `a || b` (b is not evaluated when a is true) -/
  | or (a b : E)
  | cmp (op : COp) (a b : E)
  /-- `a + b`, `a - b`, `a * b`, `a / b`, `a % b`, `a & b`, `a | b`, `a ^ b` on two operands of the same integer type -/
  | bin (op : AOp) (a b : E)
  /-- `a << s` -/
  | shl (a s : E)
  /-- `a >> s` -/
  | shr (a s : E)
  /-- `uint<w>(e)` -/
  | toU (w : Nat) (e : E)
  /-- `int<w>(e)` -/
  | toI (w : Nat) (e : E)
  /-- `bits.Mul64(a, b)`: the pair `(hi, lo)` -/
  | mul64 (a b : E)
  /-- `bits.LeadingZeros64(e)` -/
  | lz64 (e : E)
  /-- `bits.TrailingZeros64(e)` -/
  | tz64 (e : E)
  /-- `table[i]` -/
  | tbl (t : Tbl) (i : E)
  /-- a string constant, as its bytes -/
  | str (bytes : List Nat)
  /-- the builtins `len` and `cap` of a byte slice (`len` also of a string) -/
  | len (e : E)
  | cap (e : E)
  /-- `b[i]` for a byte slice -/
  | index (b i : E)
  /-- `b[:hi]` -/
  | sliceTo (b hi : E)
  /-- `make([]byte, n)` -/
  | makeBytes (n : E)
  /-- `append(b, x)` for a byte `x`; `site` numbers the `append`s of the translation unit (the spare capacity of a new backing
  array is `Env.fresh site`) -/
  | append1 (site : Nat) (b x : E)
  /-- `append(b, s...)` for a string or a byte slice `s` -/
  | appendS (site : Nat) (b s : E)
  /-- `math.Float64bits(f)` -/
  | f64bits (e : E)
  /-- calls of translated functions -/
  | call1 (f : FnId) (a : E)
  | call2 (f : FnId) (a b : E)
  | call3 (f : FnId) (a b c : E)
  | call4 (f : FnId) (a b c d : E)
  | opaque (txt : String)
  deriving DecidableEq, Repr, Inhabited

/-- Statements. A block is `S.scope (S.block [s₁, …])`. -/
inductive S where
  | skip
  | seq (a b : S)
  /-- `{ … }`: the variables declared inside end here -/
  | scope (body : S)
  /-- `v := e`, `var v T = e`, `var v T` (e the zero value); `v` is the number of variables alive -/
  | define (v : Var) (e : E)
  /-- `v, w := e` for an expression with two values (`none`: the blank identifier) -/
  | define2 (v w : Option Var) (e : E)
  /-- `v = e` (also `v op= e`, `v++`, `v--`) -/
  | assign (v : Var) (e : E)
  /-- `v.f = e` for the `k`-th field of a struct variable (also `v.f op= e`, `v.f++`) -/
  | setField (v : Var) (k : Nat) (e : E)
  /-- `v[i] = e` for a byte slice variable -/
  | setIndex (v : Var) (i e : E)
  | ite (c : E) (t e : S)
  /-- `for init; cond; post { body }` (an absent condition is `true`) -/
  | for (init : S) (cond : E) (post : S) (body : S)
  | brk
  | ret (e : E)
  /-- `assert(c, msg)` -/
  | assert (c : E)
  | opaque (txt : String)
  deriving DecidableEq, Repr, Inhabited

def S.block : List S → S
  | [] => .skip
  | s :: ss => .seq s (S.block ss)

/-- A translated function: the parameters are the variables `0 … params-1`. -/
structure Fn where
  params : Nat
  body : S
  deriving DecidableEq, Repr, Inhabited

def E.hasOpaque : E → Bool
  | .opaque _ => true
  | .field e _ | .not e | .neg e | .toU _ e | .toI _ e | .lz64 e | .tz64 e | .tbl _ e | .call1 _ e | .len e | .cap e
  | .makeBytes e | .f64bits e => e.hasOpaque
  | .mk2 a b | .and a b | .or a b | .cmp _ a b | .bin _ a b | .shl a b | .shr a b | .mul64 a b | .call2 _ a b | .index a b
  | .sliceTo a b | .append1 _ a b | .appendS _ a b =>
    a.hasOpaque || b.hasOpaque
  | .call3 _ a b c => a.hasOpaque || b.hasOpaque || c.hasOpaque
  | .call4 _ a b c d => a.hasOpaque || b.hasOpaque || c.hasOpaque || d.hasOpaque
  | _ => false

def S.hasOpaque : S → Bool
  | .opaque _ => true
  | .seq a b => a.hasOpaque || b.hasOpaque
  | .scope b => b.hasOpaque
  | .define _ e | .define2 _ _ e | .assign _ e | .setField _ _ e | .ret e | .assert e => e.hasOpaque
  | .setIndex _ i e => i.hasOpaque || e.hasOpaque
  | .ite c t e => c.hasOpaque || t.hasOpaque || e.hasOpaque
  | .for i c p b => i.hasOpaque || c.hasOpaque || p.hasOpaque || b.hasOpaque
  | _ => false

/-! ## Values -/

inductive Val where
  /-- the result of a function without results -/
  | unit
  | bool (b : Bool)
  /-- `uint<w>` -/
  | u (w n : Nat)
  /-- `int<w>` -/
  | i (w : Nat) (z : Int)
  /-- a struct of two fields, two results -/
  | pair (a b : Val)
  /-- a `[]byte`: the visible content and whatever lies in the spare capacity behind it -/
  | bytes (content spare : List UInt8)
  /-- a string, as its bytes -/
  | str (l : List UInt8)
  /-- a `float64`, as its bit pattern -/
  | f64 (bits : Nat)
  deriving DecidableEq, Repr, Inhabited

/-- the variables alive, in the order of their declaration -/
abbrev Store := List Val

structure Env where
  call : FnId → List Val → Option Val
  tbl : Tbl → Nat → Option Val
  fuel : Nat
  /-- the spare capacity of the backing array the `append` numbered `site` allocates when the capacity does not suffice -/
  fresh : Nat → List UInt8

/-- two's complement: the representative of `z` modulo `2^w` in `[-2^(w-1), 2^(w-1))` (a value in range is returned as it is:
written with a test first so that evaluation with an unknown `z` stops at the test) -/
def wrapS (w : Nat) : Int → Int
  | .ofNat n => if n < 2 ^ (w - 1) then .ofNat n else (Int.ofNat n + 2 ^ (w - 1)) % 2 ^ w - 2 ^ (w - 1)
  | .negSucc n => if n < 2 ^ (w - 1) then .negSucc n else (Int.negSucc n + 2 ^ (w - 1)) % 2 ^ w - 2 ^ (w - 1)

def COp.nat : COp → Nat → Nat → Bool
  | .lt, a, b => a < b
  | .le, a, b => a ≤ b
  | .gt, a, b => a > b
  | .ge, a, b => a ≥ b
  | .eq, a, b => a == b
  | .ne, a, b => a != b

def COp.int : COp → Int → Int → Bool
  | .lt, a, b => a < b
  | .le, a, b => a ≤ b
  | .gt, a, b => a > b
  | .ge, a, b => a ≥ b
  | .eq, a, b => a == b
  | .ne, a, b => a != b

def Val.compare (op : COp) : Val → Val → Option Bool
  | .u w a, .u w' b => if w = w' then some (op.nat a b) else none
  | .i w a, .i w' b => if w = w' then some (op.int a b) else none
  | .bool a, .bool b => (match op with | .eq => some (a == b) | .ne => some (a != b) | _ => none)
  | _, _ => none

/-- on `uint<w>` (operands below `2^w`) -/
def AOp.nat (w : Nat) : AOp → Nat → Nat → Option Nat
  | .add, a, b => some ((a + b) % 2 ^ w)
  | .sub, a, b => some ((a + (2 ^ w - b % 2 ^ w)) % 2 ^ w)
  | .mul, a, b => some ((a * b) % 2 ^ w)
  | .div, a, b => if b = 0 then none else some (a / b)
  | .mod, a, b => if b = 0 then none else some (a % b)
  | .band, a, b => some (a &&& b)
  | .bor, a, b => some (a ||| b)
  | .bxor, a, b => some (a ^^^ b)

/-- on `int<w>`; the bit operations on signed operands do not occur -/
def AOp.int (w : Nat) : AOp → Int → Int → Option Int
  | .add, a, b => some (wrapS w (a + b))
  | .sub, a, b => some (wrapS w (a - b))
  | .mul, a, b => some (wrapS w (a * b))
  | .div, a, b => if b = 0 then none else some (wrapS w (Int.tdiv a b))
  | .mod, a, b => if b = 0 then none else some (Int.tmod a b)
  | _, _, _ => none

def Val.arith (op : AOp) : Val → Val → Option Val
  | .u w a, .u w' b => if w = w' then (op.nat w a b).map (.u w) else none
  | .i w a, .i w' b => if w = w' then (op.int w a b).map (.i w) else none
  | _, _ => none

/-- the integer a value of an integer type stands for -/
def Val.toZ : Val → Option Int
  | .u _ n => some n
  | .i _ z => some z
  | _ => none

/-- a shift count: not negative -/
def Val.count : Val → Option Nat
  | .u _ n => some n
  | .i _ z => if z < 0 then none else some z.toNat
  | _ => none

def Val.shl : Val → Nat → Option Val
  | .u w a, s => some (.u w (if s < w then (a <<< s) % 2 ^ w else 0))
  | .i w a, s => some (.i w (if s < w then wrapS w (a * 2 ^ s) else 0))
  | _, _ => none

def Val.shr : Val → Nat → Option Val
  | .u w a, s => some (.u w (if s < w then a >>> s else 0))
  | .i w a, s => some (.i w (a >>> s))
  | _, _ => none

/-- the bit length (`bits.Len64`) -/
def bitLen (n : Nat) : Nat := if n = 0 then 0 else Nat.log2 n + 1

/-- `bits.TrailingZeros64` (64 for 0) -/
def tzLoop : Nat → Nat → Nat → Nat
  | 0, _, n => n
  | fuel + 1, v, n => if v % 2 == 1 then n else tzLoop fuel (v / 2) (n + 1)
def tz64 (v : Nat) : Nat := tzLoop 64 v 0

/-- `append(b, bs...)`: the spare capacity is reused (and overwritten) when it suffices, else a new backing array with the
spare capacity `extra` -/
def appendTo (c sp bs extra : List UInt8) : Val :=
  if sp.length ≥ bs.length then .bytes (c ++ bs) (sp.drop bs.length) else .bytes (c ++ bs) extra

/-- the bytes of a string or of the visible part of a byte slice -/
def Val.bytesOf : Val → Option (List UInt8)
  | .str l => some l
  | .bytes c _ => some c
  | _ => none

/-! ## Expressions -/

def E.eval (Γ : Env) (σ : Store) : E → Option Val
  | .var v => σ[v]?
  | .u w n => some (.u w n)
  | .i w z => some (.i w z)
  | .bool b => some (.bool b)
  | .field e k =>
    match e.eval Γ σ with
    | some (.pair a b) => if k = 0 then some a else if k = 1 then some b else none
    | _ => none
  | .mk2 a b => match a.eval Γ σ, b.eval Γ σ with | some x, some y => some (.pair x y) | _, _ => none
  | .not e => match e.eval Γ σ with | some (.bool b) => some (.bool (!b)) | _ => none
  | .neg e =>
    match e.eval Γ σ with
    | some (.i w z) => some (.i w (wrapS w (-z)))
    | some (.u w n) => some (.u w ((2 ^ w - n) % 2 ^ w))
    | _ => none
  | .and a b =>
    match a.eval Γ σ with
    | some (.bool false) => some (.bool false)
    | some (.bool true) => (match b.eval Γ σ with | some (.bool x) => some (.bool x) | _ => none)
    | _ => none
  | .or a b =>
    match a.eval Γ σ with
    | some (.bool true) => some (.bool true)
    | some (.bool false) => (match b.eval Γ σ with | some (.bool x) => some (.bool x) | _ => none)
    | _ => none
  | .cmp op a b => match a.eval Γ σ, b.eval Γ σ with | some x, some y => (x.compare op y).map .bool | _, _ => none
  | .bin op a b => match a.eval Γ σ, b.eval Γ σ with | some x, some y => x.arith op y | _, _ => none
  | .shl a s =>
    match a.eval Γ σ, s.eval Γ σ with
    | some x, some y => (match y.count with | some n => x.shl n | none => none)
    | _, _ => none
  | .shr a s =>
    match a.eval Γ σ, s.eval Γ σ with
    | some x, some y => (match y.count with | some n => x.shr n | none => none)
    | _, _ => none
  | .toU w e => match e.eval Γ σ with | some x => x.toZ.map (fun z => .u w (z % 2 ^ w).toNat) | none => none
  | .toI w e => match e.eval Γ σ with | some x => x.toZ.map (fun z => .i w (wrapS w z)) | none => none
  | .mul64 a b =>
    match a.eval Γ σ, b.eval Γ σ with
    | some (.u w x), some (.u w' y) =>
      if w = 64 ∧ w' = 64 then some (.pair (.u 64 (x * y / 2 ^ 64 % 2 ^ 64)) (.u 64 (x * y % 2 ^ 64))) else none
    | _, _ => none
  | .lz64 e => match e.eval Γ σ with | some (.u w n) => if w = 64 then some (.i 64 (64 - (RY.bitLen n : Int))) else none | _ => none
  | .tz64 e => match e.eval Γ σ with | some (.u w n) => if w = 64 then some (.i 64 (RY.tz64 n : Nat)) else none | _ => none
  | .tbl t ix =>
    match ix.eval Γ σ with
    | some x => (match x.toZ with | some z => if z < 0 then none else Γ.tbl t z.toNat | none => none)
    | none => none
  | .str l => some (.str (l.map Nat.toUInt8))
  | .len e => match e.eval Γ σ with | some x => x.bytesOf.map (fun l => .i 64 (l.length : Nat)) | none => none
  | .cap e => match e.eval Γ σ with | some (.bytes c sp) => some (.i 64 ((c.length + sp.length : Nat) : Int)) | _ => none
  | .index b ix =>
    match b.eval Γ σ, ix.eval Γ σ with
    | some (.bytes c _), some y =>
      (match y.toZ with | some z => if z < 0 then none else (c[z.toNat]?).map (fun x => .u 8 x.toNat) | none => none)
    | _, _ => none
  | .sliceTo b hi =>
    match b.eval Γ σ, hi.eval Γ σ with
    | some (.bytes c sp), some y =>
      (match y.toZ with
       | some z => if z < 0 ∨ ((c.length + sp.length : Nat) : Int) < z then none
                   else some (.bytes ((c ++ sp).take z.toNat) ((c ++ sp).drop z.toNat))
       | none => none)
    | _, _ => none
  | .makeBytes n =>
    match n.eval Γ σ with
    | some y => (match y.toZ with | some z => if z < 0 then none else some (.bytes (List.replicate z.toNat 0) []) | none => none)
    | none => none
  | .append1 site b x =>
    match b.eval Γ σ, x.eval Γ σ with
    | some (.bytes c sp), some (.u w v) => if w = 8 then some (appendTo c sp [v.toUInt8] (Γ.fresh site)) else none
    | _, _ => none
  | .appendS site b s =>
    match b.eval Γ σ, s.eval Γ σ with
    | some (.bytes c sp), some y => (match y.bytesOf with | some bs => some (appendTo c sp bs (Γ.fresh site)) | none => none)
    | _, _ => none
  | .f64bits e => match e.eval Γ σ with | some (.f64 n) => some (.u 64 n) | _ => none
  | .call1 f a => match a.eval Γ σ with | some x => Γ.call f [x] | none => none
  | .call2 f a b => match a.eval Γ σ, b.eval Γ σ with | some x, some y => Γ.call f [x, y] | _, _ => none
  | .call3 f a b c =>
    match a.eval Γ σ, b.eval Γ σ, c.eval Γ σ with
    | some x, some y, some z => Γ.call f [x, y, z]
    | _, _, _ => none
  | .call4 f a b c d =>
    match a.eval Γ σ, b.eval Γ σ, c.eval Γ σ, d.eval Γ σ with
    | some x, some y, some z, some w => Γ.call f [x, y, z, w]
    | _, _, _, _ => none
  | .opaque _ => none

/-! ## Statements -/

inductive Out where
  | next (σ : Store)
  /-- `break` -/
  | brk (σ : Store)
  | ret (v : Val)
  /-- no meaning -/
  | stuck
  deriving DecidableEq, Repr, Inhabited

/-- the three-clause `for` after its init statement: at most `fuel` rounds -/
def forLoop (cond : Store → Option Bool) (body post : Store → Out) : Nat → Store → Out
  | 0, _ => .stuck
  | fuel + 1, σ =>
    match cond σ with
    | some true =>
      (match body σ with
       | .next σ' =>
         (match post σ' with
          | .next σ'' => forLoop cond body post fuel σ''
          | _ => .stuck)
       | .brk σ' => .next σ'
       | r => r)
    | some false => .next σ
    | none => .stuck

def asBool : Option Val → Option Bool
  | some (.bool b) => some b
  | _ => none

def pushOpt (σ : Store) (v : Option Var) (x : Val) : Option Store :=
  match v with
  | none => some σ
  | some v => if v = σ.length then some (σ ++ [x]) else none

def setFld (k : Nat) (x : Val) : Val → Option Val
  | .pair a b => if k = 0 then some (.pair x b) else if k = 1 then some (.pair a x) else none
  | _ => none

def S.exec (Γ : Env) : S → Store → Out
  | .skip, σ => .next σ
  | .seq a b, σ =>
    match a.exec Γ σ with
    | .next σ' => b.exec Γ σ'
    | r => r
  | .scope b, σ =>
    match b.exec Γ σ with
    | .next σ' => .next (σ'.take σ.length)
    | .brk σ' => .brk (σ'.take σ.length)
    | r => r
  | .define v e, σ =>
    if v = σ.length then (match e.eval Γ σ with | some x => .next (σ ++ [x]) | none => .stuck) else .stuck
  | .define2 v w e, σ =>
    match e.eval Γ σ with
    | some (.pair x y) =>
      (match pushOpt σ v x with
       | some σ' => (match pushOpt σ' w y with | some σ'' => .next σ'' | none => .stuck)
       | none => .stuck)
    | _ => .stuck
  | .assign v e, σ =>
    if v < σ.length then (match e.eval Γ σ with | some x => .next (σ.set v x) | none => .stuck) else .stuck
  | .setField v k e, σ =>
    match σ[v]?, e.eval Γ σ with
    | some s, some x => (match setFld k x s with | some s' => .next (σ.set v s') | none => .stuck)
    | _, _ => .stuck
  | .setIndex v ix e, σ =>
    match σ[v]?, ix.eval Γ σ, e.eval Γ σ with
    | some (.bytes c sp), some y, some (.u w x) =>
      (match y.toZ with
       | some z => if w = 8 ∧ 0 ≤ z ∧ z < (c.length : Nat) then .next (σ.set v (.bytes (c.set z.toNat x.toUInt8) sp)) else .stuck
       | none => .stuck)
    | _, _, _ => .stuck
  | .ite c t e, σ =>
    match c.eval Γ σ with
    | some (.bool true) => t.exec Γ σ
    | some (.bool false) => e.exec Γ σ
    | _ => .stuck
  | .for init cond post body, σ =>
    match init.exec Γ σ with
    | .next σ' =>
      (match forLoop (fun s => asBool (cond.eval Γ s)) (fun s => body.exec Γ s) (fun s => post.exec Γ s) Γ.fuel σ' with
       | .next σ'' => .next (σ''.take σ.length)
       | r => r)
    | _ => .stuck
  | .brk, σ => .brk σ
  | .ret e, σ => match e.eval Γ σ with | some x => .ret x | none => .stuck
  | .assert c, σ => match c.eval Γ σ with | some (.bool true) => .next σ | _ => .stuck
  | .opaque _, _ => .stuck

/-! ## The sequencing of statements as ordinary functions

`S.exec` above is written with `match`; the proofs about translated programs (QF/Props/C16Ryu*.lean) restate it with the
functions below (`(S.block (s :: ss)).exec Γ σ = (s.exec Γ σ).bind ((S.block ss).exec Γ)` and so on, all by `rfl`), so that
every step of a symbolic execution is an explicit rewrite and the kernel never has to run a program to compare two terms. -/

def Out.bind (r : Out) (k : Store → Out) : Out := match r with | .next σ => k σ | r => r
def Out.bindStrict (r : Out) (k : Store → Out) : Out := match r with | .next σ => k σ | _ => .stuck
def Out.scoped (n : Nat) (r : Out) : Out :=
  match r with | .next σ => .next (σ.take n) | .brk σ => .brk (σ.take n) | r => r
def Out.loopEnd (n : Nat) (r : Out) : Out := match r with | .next σ => .next (σ.take n) | r => r
def Out.res (r : Out) : Option Val := match r with | .ret v => some v | .next _ => some .unit | _ => none
def Out.branch (c : Option Val) (rt re : Out) : Out :=
  match c with | some (.bool true) => rt | some (.bool false) => re | _ => .stuck
/-- one round of `forLoop` -/
def stepOut (c : Option Bool) (rb : Out) (post rec : Store → Out) (σ : Store) : Out :=
  match c with
  | some true =>
    (match rb with
     | .next σ' => (match post σ' with | .next σ'' => rec σ'' | _ => .stuck)
     | .brk σ' => .next σ'
     | r => r)
  | some false => .next σ
  | none => .stuck

/-! ## Calls -/

/-- the result (unit when the body ends without `return`) -/
def runFn (Γ : Env) (fn : Fn) (args : List Val) : Option Val :=
  if args.length = fn.params then
    match fn.body.exec Γ args with
    | .ret v => some v
    | .next _ => some .unit
    | _ => none
  else none

/-- calls nested at most `n` deep (the translated functions do not call themselves) -/
def callAt (P : List (FnId × Fn)) (T : Tbl → Nat → Option Val) (fuel : Nat) (fresh : Nat → List UInt8) :
    Nat → FnId → List Val → Option Val
  | 0 => fun _ _ => none
  | n + 1 => fun f args =>
    match P.lookup f with
    | some fn => runFn { call := callAt P T fuel fresh n, tbl := T, fuel := fuel, fresh := fresh } fn args
    | none => none

/-- the call depth the interpretation allows (today: float64ToDecimal → multipleOfPowerOfFive64 → pow5Factor64;
float64ToDecimal → mulShift64 → shiftRight128) -/
def depth : Nat := 4

/-- the tables: two arrays of `(lo, hi)` pairs and an array of `uint64` -/
def tables (split inv : Array (Nat × Nat)) (p10 : List Nat) : Tbl → Nat → Option Val
  | .pow5Split, i => (split[i]?).map fun p => .pair (.u 64 p.1) (.u 64 p.2)
  | .pow5InvSplit, i => (inv[i]?).map fun p => .pair (.u 64 p.1) (.u 64 p.2)
  | .pow10, i => (p10[i]?).map fun n => .u 64 n

/-- the number / the truth value a result stands for -/
def Val.nat? : Val → Option Nat
  | .u _ n => some n
  | _ => none
def Val.int? : Val → Option Int
  | .i _ z => some z
  | _ => none
def Val.bool? : Val → Option Bool
  | .bool b => some b
  | _ => none

/-- function 0, `float64ToDecimalExactInt(mant, exp)`: `(m, e, ok)` -/
def interpExactInt (P : List (FnId × Fn)) (T : Tbl → Nat → Option Val) (fuel : Nat) (mant exp : Nat) : Option (Nat × Int × Bool) :=
  match callAt P T fuel (fun _ => []) depth 0 [.u 64 mant, .u 64 exp] with
  | some (.pair (.pair a b) c) =>
    (match a.nat?, b.int?, c.bool? with
     | some m, some e, some ok => some (m, e, ok)
     | _, _, _ => none)
  | _ => none

/-- function 1, `float64ToDecimal(mant, exp)`: `(m, e)` -/
def interpToDecimal (P : List (FnId × Fn)) (T : Tbl → Nat → Option Val) (fuel : Nat) (mant exp : Nat) : Option (Nat × Int) :=
  match callAt P T fuel (fun _ => []) depth 1 [.u 64 mant, .u 64 exp] with
  | some (.pair a b) => (match a.nat?, b.int? with | some m, some e => some (m, e) | _, _ => none)
  | _ => none

/-- function 2, `decimalLen64(u)` -/
def interpDecimalLen (P : List (FnId × Fn)) (T : Tbl → Nat → Option Val) (fuel : Nat) (u : Nat) : Option Int :=
  match callAt P T fuel (fun _ => []) depth 2 [.u 64 u] with
  | some x => x.int?
  | none => none

/-- function 3, the public `AppendFloat64f(b, f)` on a buffer (content, spare capacity) and the bit pattern of `f`; `fresh`
is what the `append`s that allocate leave in the new spare capacity: the buffer returned -/
def interpAppendFloat (P : List (FnId × Fn)) (T : Tbl → Nat → Option Val) (fuel : Nat) (fresh : Nat → List UInt8)
    (content spare : List UInt8) (bits : Nat) : Option (List UInt8 × List UInt8) :=
  match callAt P T fuel fresh 6 3 [.bytes content spare, .f64 bits] with
  | some (.bytes c sp) => some (c, sp)
  | _ => none

/-- what `AppendFloat64f` formats (`d, ok := f₀(mant, exp); if !ok { d = f₁(mant, exp) }`): `(m, e, ok)` -/
def interpDecimal (P : List (FnId × Fn)) (T : Tbl → Nat → Option Val) (fuel : Nat) (mant exp : Nat) : Option (Nat × Int × Bool) :=
  match interpExactInt P T fuel mant exp with
  | some (m, e, true) => some (m, e, true)
  | some (_, _, false) => (interpToDecimal P T fuel mant exp).map fun r => (r.1, r.2, false)
  | none => none

end QF.RY
