import QF.Spec.Ops
/-!
# GG — the glue of grouping in /repo/qframe.go and /repo/grouper.go, and its Go semantics

    func (qf QFrame) GroupBy(configFns ...groupby.ConfigFunc) Grouper            (with checkColumns, Len, orders, comparables inlined)
    func (g Grouper) QFrames() ([]QFrame, error)                                 (with withIndex inlined)
    func (g Grouper) Aggregate(aggs ...Aggregation) QFrame
    /repo/config/groupby: func Columns(columns ...string) ConfigFunc · func Null(b bool) ConfigFunc

go/cmd/extract/grpgast.go translates these bodies on every run and writes the terms to `QF/Gen/GroupGlue.lean`. What the
glue CALLS is regenerated elsewhere and is a parameter here: `grouper.GroupBy` (grpast.go, C04GrouperGen), the columns'
`Comparable` / `Compare` / `Hash` (cast.go, hast.go: C03Compare, C04Hash), `Column.Subset`, `Column.Aggregate` and the
first-row index (last.go: C04LoopsGen), the built-in aggregations (aast.go).

Terms name things by ROLE, never by Go identifier: the fields of `QFrame`, `Grouper` and `groupby.Config` by their types
(`[]namedColumn`: the columns; `map[string]namedColumn`: the name map; `index.Int`: the index; `[]index.Int`: the groups;
`[]string`: the grouped columns / the configured columns; `bool`: the Null flag; `error`), the helper methods by what
their (inlined) bodies do, locals by what they are bound to.

The name map and the column slice of a frame are kept as ONE list of columns (`find?` by name is the map look-up); a
look-up of a name that is not there gives the zero `namedColumn`, whose `Column` is nil: calling a method on it is a
run-time panic (no value).
-/
namespace QF.GG

/-- Where a value comes from. -/
inductive Src where
  /-- fields of the receiver frame -/
  | recvColumns | recvNames | recvIndex | recvErr
  /-- fields of the receiver grouper -/
  | grpColumns | grpNames | grpErr
  /-- `config.<[]string>` -/
  | cfgColumns
  /-- the `err` variable bound by the `if` in front -/
  | localErr
  /-- the group of the round (`for i, ix := range g.<groups>`) -/
  | group
  /-- `index.NewAscending(uint32(<length of the receiver's index>))` -/
  | ascendingLen
  /-- an empty slice literal / a field left out / `nil` -/
  | zero
  deriving DecidableEq, Repr, Inhabited

/-- A bool argument. -/
inductive BArg where
  | lit (b : Bool)
  /-- `config.<bool>` (the Null flag) -/
  | cfgNull
  deriving DecidableEq, Repr, Inhabited

/-- `QFrame.GroupBy`, statement by statement; an `if` whose block returns has the block as `t` and what follows as `k`. -/
inductive GB where
  /-- `if qf.Err != nil { t }` -/
  | ifRecvErr (t k : GB)
  /-- `config := groupby.NewConfig(configFns)`: the configuration the functions have written -/
  | newConfig (k : GB)
  /-- `if err := qf.<check>(…, config.Columns); err != nil { t }` where `<check>` returns an error for the first name that
  is not a key of the name map, else nil -/
  | checkColumns (t k : GB)
  /-- `g := Grouper{<columns>: …, <name map>: …, <grouped columns>: …}` (other fields zero) -/
  | mkGrouper (cols names grouped : Src) (k : GB)
  /-- `if qf.Len() == 0 { t }` with `Len` = -1 for a failed frame, else the length of the index -/
  | ifLenZero (t k : GB)
  /-- `if len(config.Columns) == 0 { t }` -/
  | ifNoColumns (t k : GB)
  /-- `g.<groups> = []index.Int{<ix>}` -/
  | setOneGroup (ix : Src) (k : GB)
  /-- `orders := qf.<orders>(config.Columns); comparables := qf.<comparables>(config.Columns, orders, <null>)` with both
  helpers inlined: for every name of `config.Columns`, in that order, `<the column of that name>.Comparable(rev, eqNull, nullLast)` -/
  | comparables (rev eqNull nullLast : BArg) (k : GB)
  /-- `indices, stats := grouper.GroupBy(<ix>, comparables)` -/
  | callGrouper (ix : Src) (k : GB)
  /-- `g.<groups> = indices` -/
  | setIndices (k : GB)
  /-- `g.<stats> = GroupStats(stats)` -/
  | setStats (k : GB)
  /-- `return g` -/
  | retGrouper
  /-- `return Grouper{<error>: e}` -/
  | retErr (e : Src)
  | opaque (txt : String)
  deriving DecidableEq, Repr, Inhabited

/-- The names `Distinct` compares on. -/
inductive DNames where
  /-- `config.<[]string>` -/
  | cfgColumns
  /-- `qf.<columnsOrAll>(config.<[]string>)`: the configured columns, or — when there are none — the names of all columns of
  the frame in column order -/
  | cfgColumnsOrAll
  deriving DecidableEq, Repr, Inhabited

/-- What `QFrame.Distinct` hands to `grouper.Distinct` between its guard prefix (gast.go) and its tail (pxast.go):
`columns := <names>; orders := qf.<orders>(columns); comparables := qf.<comparables>(columns, orders, <null>);
newIx := grouper.Distinct(<ix>, comparables)`, helpers inlined. -/
inductive DK where
  | comparables (names : DNames) (rev eqNull nullLast : BArg) (ix : Src)
  | opaque (txt : String)
  deriving DecidableEq, Repr, Inhabited

/-- A function of /repo/config/groupby that returns a `ConfigFunc`. -/
inductive CF where
  /-- `func(c *Config) { c.<[]string> = <the variadic parameter> }` -/
  | setColumns
  /-- `func(c *Config) { c.<bool> = <the parameter> }` -/
  | setNull
  | opaque (txt : String)
  deriving DecidableEq, Repr, Inhabited

/-- `Grouper.QFrames`. -/
inductive QS where
  /-- `if g.Err != nil { return nil, g.Err }` -/
  | ifGrouperErr (k : QS)
  /-- `base := QFrame{<columns>: …, <name map>: …, <index>: …}` -/
  | base (cols names index : Src) (k : QS)
  /-- `result := make([]QFrame, len(g.<groups>))` -/
  | makeResult (k : QS)
  /-- `for i, ix := range g.<groups> { result[i] = base.<withIndex>(ix) }` with the helper inlined: the frame literal it
  returns, its fields taken from `base` written as what `base` was made of -/
  | rangeStore (cols names index err : Src) (k : QS)
  /-- `return result, nil` -/
  | retResult
  | opaque (txt : String)
  deriving DecidableEq, Repr, Inhabited

/-- Statements of the two loop bodies of `Grouper.Aggregate`. -/
inductive AS where
  /-- `col := g.<name map>[colName]`, `colName` the grouped column of the round -/
  | lookupGrouped
  /-- `col, ok := g.<name map>[agg.Column]; if !ok { return QFrame{Err: <non-nil>} }` -/
  | lookupAggOrErr
  /-- `col.pos = i`, `i` the position of the round -/
  | setPosI
  /-- `col.pos = len(newColumns)` -/
  | setPosLen
  /-- `col.Column = col.Subset(<the first-row index>)` -/
  | subsetFirst
  /-- `name := agg.Column` -/
  | nameFromColumn
  /-- `if agg.As != "" { name = agg.As }` -/
  | nameFromAsIfSet
  /-- `col.name = name` -/
  | setName
  /-- `_, ok = newByName[name]; if ok { return QFrame{Err: <non-nil>} }` -/
  | rejectIfPresent
  /-- `if agg.Fn == <special> { counts := make([]int, len(g.<groups>)); for i, ix := range g.<groups> { counts[i] = len(ix) };
  col.Column = icolumn.New(counts) } else { col.Column, err = col.Aggregate(g.<groups>, agg.Fn); if err != nil { return QFrame{Err: <non-nil>} } }` -/
  | compute (special : String)
  /-- `newByName[colName] = col` -/
  | putGrouped
  /-- `newByName[name] = col` -/
  | putNamed
  /-- `newColumns = append(newColumns, col)` -/
  | appendCol
  | opaque (txt : String)
  deriving DecidableEq, Repr, Inhabited

/-- `Grouper.Aggregate`. -/
inductive AT where
  /-- `if g.Err != nil { return QFrame{Err: g.Err} }` -/
  | ifGrouperErr
  /-- `first := make(index.Int, len(g.<groups>)); for i, ix := range g.<groups> { first[i] = ix[k] }` -/
  | firstRows (k : Nat)
  /-- `newByName := make(map…); newColumns := make([]namedColumn, 0, …)` -/
  | alloc
  /-- `for i, colName := range g.<grouped columns> { body }` -/
  | keyLoop (body : List AS)
  /-- `var err error` -/
  | declErr
  /-- `for _, agg := range aggs { body }` -/
  | aggLoop (body : List AS)
  /-- `return QFrame{<columns>: newColumns, <name map>: newByName, <index>: index.NewAscending(uint32(len(g.<groups>)))}` -/
  | retFrame
  | opaque (txt : String)
  deriving DecidableEq, Repr, Inhabited

/-! ## Values -/

/-- A frame as the code holds it: the columns with their physical cells, the index of row numbers, the error. -/
structure Frame where
  cols : List LCol
  index : List Nat
  err : Bool := false
  deriving Repr, Inhabited

def Frame.find? (f : Frame) (name : Bytes) : Option LCol := f.cols.find? (·.name == name)

/-- `groupby.Config` after the configuration functions ran. -/
structure Cfg where
  columns : List Bytes := []
  gbNull : Bool := false
  deriving Repr, Inhabited

/-- A `Grouper`. `σ`: the statistics of the hash table. -/
structure Grouper (σ : Type) where
  indices : List (List Nat) := []
  grouped : List Bytes := []
  cols : List LCol := []
  err : Bool := false
  stats : Option σ := none
  deriving Repr, Inhabited

/-- What `GroupBy` calls: `<column>.Comparable(reverse, equalNull, nullLast)` and `grouper.GroupBy(ix, comparables)`
(`none`: no value). -/
structure Prims (κ σ : Type) where
  comparable : LCol → Bool → Bool → Bool → κ
  groupBy : List Nat → List κ → Option (List (List Nat) × σ)

/-! ## `GroupBy` -/

structure GSt (κ σ : Type) where
  cfg : Option Cfg := none
  g : Option (Grouper σ) := none
  cmps : Option (List κ) := none
  res : Option (List (List Nat) × σ) := none

def BArg.eval (c : Cfg) : BArg → Bool
  | .lit b => b
  | .cfgNull => c.gbNull

/-- the index a term names -/
def Src.index (F : Frame) : Src → Option (List Nat)
  | .recvIndex => some F.index
  | .ascendingLen => some (List.range F.index.length)
  | .zero => some []
  | _ => none

/-- `none`: no meaning, or a run-time panic. -/
def GB.run {κ σ : Type} (P : Prims κ σ) (F : Frame) (C : Cfg) : GB → GSt κ σ → Option (Grouper σ)
  | .ifRecvErr t k, s => if F.err then t.run P F C s else k.run P F C s
  | .newConfig k, s => k.run P F C { s with cfg := some C }
  | .checkColumns t k, s =>
    match s.cfg with
    | some c => if c.columns.all (fun n => (F.find? n).isSome) then k.run P F C s else t.run P F C s
    | none => none
  | .mkGrouper cols names grouped k, s =>
    match cols, names, grouped, s.cfg with
    | .recvColumns, .recvNames, .cfgColumns, some c => k.run P F C { s with g := some { cols := F.cols, grouped := c.columns } }
    | .recvColumns, .recvNames, .zero, some _ => k.run P F C { s with g := some { cols := F.cols } }
    | _, _, _, _ => none
  | .ifLenZero t k, s => if !F.err && F.index.length == 0 then t.run P F C s else k.run P F C s
  | .ifNoColumns t k, s =>
    match s.cfg with
    | some c => if c.columns.isEmpty then t.run P F C s else k.run P F C s
    | none => none
  | .setOneGroup ix k, s =>
    match ix.index F, s.g with
    | some i, some g => k.run P F C { s with g := some { g with indices := [i] } }
    | _, _ => none
  | .comparables r e n k, s =>
    match s.cfg with
    | some c =>
      match c.columns.mapM F.find? with
      | some keys => k.run P F C { s with cmps := some (keys.map fun col => P.comparable col (r.eval c) (e.eval c) (n.eval c)) }
      | none => none
    | none => none
  | .callGrouper ix k, s =>
    match ix.index F, s.cmps with
    | some i, some cs =>
      match P.groupBy i cs with
      | some r => k.run P F C { s with res := some r }
      | none => none
    | _, _ => none
  | .setIndices k, s =>
    match s.g, s.res with
    | some g, some r => k.run P F C { s with g := some { g with indices := r.1 } }
    | _, _ => none
  | .setStats k, s =>
    match s.g, s.res with
    | some g, some r => k.run P F C { s with g := some { g with stats := some r.2 } }
    | _, _ => none
  | .retGrouper, s => s.g
  | .retErr e, _ =>
    match e with
    | .recvErr => if F.err then some { err := true } else some {}
    | .localErr => some { err := true }
    | _ => none
  | .opaque _, _ => none

/-- `Distinct`: what `grouper.Distinct` is called with (`distinct`: that function; `none`: no value). -/
def DK.run {κ : Type} (comparable : LCol → Bool → Bool → Bool → κ) (distinct : List Nat → List κ → Option (List Nat))
    (F : Frame) (C : Cfg) : DK → Option (List Nat)
  | .comparables names r e n ix =>
    let ns := match names with
      | .cfgColumns => C.columns
      | .cfgColumnsOrAll => if C.columns.isEmpty then F.cols.map LCol.name else C.columns
    match ns.mapM F.find?, ix.index F with
    | some keys, some i => distinct i (keys.map fun col => comparable col (r.eval C) (e.eval C) (n.eval C))
    | _, _ => none
  | .opaque _ => none

def DK.hasOpaque : DK → Bool
  | .opaque _ => true
  | _ => false

/-- the configuration after `fns` have run on the zero `Config`, in order -/
def applyCfg (fns : List (CF × List Bytes × Bool)) : Option Cfg :=
  fns.foldlM (fun c f =>
    match f.1 with
    | .setColumns => some { c with columns := f.2.1 }
    | .setNull => some { c with gbNull := f.2.2 }
    | .opaque _ => none) {}

/-! ## `QFrames` -/

def QS.run {σ : Type} (g : Grouper σ) : QS → Option (Option (List LCol × List LCol)) → Option (List Frame) → Option (Option (List Frame))
  | .ifGrouperErr k, b, r => if g.err then some none else k.run g b r
  | .base cols names _ k, _, r =>
    match cols, names with
    | .grpColumns, .grpNames => k.run g (some (some (g.cols, g.cols))) r
    | _, _ => none
  | .makeResult k, b, _ => k.run g b (some (g.indices.map fun _ => { cols := [], index := [] }))
  | .rangeStore cols names index err k, b, r =>
    match cols, names, index, err, b, r with
    | .grpColumns, .grpNames, .group, .zero, some (some _), some res =>
      if res.length = g.indices.length then k.run g b (some (g.indices.map fun ix => { cols := g.cols, index := ix })) else none
    | .grpColumns, .grpNames, .zero, .zero, some (some _), some res =>
      if res.length = g.indices.length then k.run g b (some (g.indices.map fun _ => { cols := g.cols, index := [] })) else none
    | _, _, _, _, _, _ => none
  | .retResult, _, r => r.map some
  | .opaque _, _, _ => none

/-! ## `Aggregate` -/

/-- An aggregation request: the function (`none`: a function value, `some n`: the name `n`), the source column, `As`. -/
structure AggReq (φ : Type) where
  fn : φ
  /-- the name when `Fn` is a string -/
  fnName : Option String
  col : Bytes
  as : Bytes

/-- What `Aggregate` calls: `Column.Subset(index)`, `Column.Aggregate(groups, fn)` (`none`: an error), the int column
`icolumn.New` makes of a slice. -/
structure APrims (φ : Type) where
  subset : LCol → List Nat → LCol
  aggregate : LCol → List (List Nat) → φ → Option LCol
  intCol : List Int → LCol

/-- A `namedColumn`: the column with its name (in `LCol`) and `pos`. -/
structure NCol where
  col : LCol
  pos : Nat
  deriving Repr, Inhabited

structure ASt where
  first : Option (List Nat) := none
  /-- `newColumns` (and the name map, kept in step: `inMap` are the keys put) -/
  cols : Option (List NCol) := none
  inMap : List Bytes := []
  /-- the column of the round (`none`: not bound; `some none`: the zero `namedColumn`) -/
  col : Option (Option NCol) := none
  name : Option Bytes := none

inductive AOut where
  | err
  | next (s : ASt)
  | stuck

def AS.run {σ φ : Type} (P : APrims φ) (g : Grouper σ) (i : Nat) (keyName : Option Bytes) (agg : Option (AggReq φ)) : AS → ASt → AOut
  | .lookupGrouped, s =>
    match keyName with
    | some n => .next { s with col := some ((g.cols.find? (·.name == n)).map fun c => { col := c, pos := 0 }) }
    | none => .stuck
  | .lookupAggOrErr, s =>
    match agg with
    | some a =>
      match g.cols.find? (·.name == a.col) with
      | some c => .next { s with col := some (some { col := c, pos := 0 }) }
      | none => .err
    | none => .stuck
  | .setPosI, s =>
    match s.col with
    | some (some c) => .next { s with col := some (some { c with pos := i }) }
    | some none => .next s
    | none => .stuck
  | .setPosLen, s =>
    match s.col, s.cols with
    | some (some c), some cs => .next { s with col := some (some { c with pos := cs.length }) }
    | _, _ => .stuck
  | .subsetFirst, s =>
    match s.col, s.first with
    | some (some c), some f => .next { s with col := some (some { c with col := P.subset c.col f }) }
    | _, _ => .stuck
  | .nameFromColumn, s =>
    match agg with
    | some a => .next { s with name := some a.col }
    | none => .stuck
  | .nameFromAsIfSet, s =>
    match agg, s.name with
    | some a, some _ => if a.as.isEmpty then .next s else .next { s with name := some a.as }
    | _, _ => .stuck
  | .setName, s =>
    match s.col, s.name with
    | some (some c), some n => .next { s with col := some (some { c with col := { c.col with name := n } }) }
    | _, _ => .stuck
  | .rejectIfPresent, s =>
    match s.name with
    | some n => if s.inMap.contains n then .err else .next s
    | none => .stuck
  | .compute special, s =>
    match agg, s.col with
    | some a, some (some c) =>
      if a.fnName == some special then
        .next { s with col := some (some { c with col := { P.intCol (g.indices.map fun ix => (ix.length : Int)) with name := c.col.name } }) }
      else
        match P.aggregate c.col g.indices a.fn with
        | some r => .next { s with col := some (some { c with col := { r with name := c.col.name } }) }
        | none => .err
    | _, _ => .stuck
  | .putGrouped, s =>
    match keyName, s.col with
    | some n, some _ => .next { s with inMap := n :: s.inMap }
    | _, _ => .stuck
  | .putNamed, s =>
    match s.name, s.col with
    | some n, some _ => .next { s with inMap := n :: s.inMap }
    | _, _ => .stuck
  | .appendCol, s =>
    match s.col, s.cols with
    | some (some c), some cs => .next { s with cols := some (cs ++ [c]) }
    | _, _ => .stuck
  | .opaque _, _ => .stuck

def runBody {σ φ : Type} (P : APrims φ) (g : Grouper σ) (i : Nat) (keyName : Option Bytes) (agg : Option (AggReq φ)) :
    List AS → ASt → AOut
  | [], s => .next s
  | a :: as, s =>
    match a.run P g i keyName agg s with
    | .next s' => runBody P g i keyName agg as s'
    | r => r

def runKeyLoop {σ φ : Type} (P : APrims φ) (g : Grouper σ) (body : List AS) : Nat → List Bytes → ASt → AOut
  | _, [], s => .next s
  | i, n :: ns, s =>
    match runBody P g i (some n) none body { s with col := none, name := none } with
    | .next s' => runKeyLoop P g body (i + 1) ns s'
    | r => r

def runAggLoop {σ φ : Type} (P : APrims φ) (g : Grouper σ) (body : List AS) : List (AggReq φ) → ASt → AOut
  | [], s => .next s
  | a :: as, s =>
    match runBody P g 0 none (some a) body { s with col := none, name := none } with
    | .next s' => runAggLoop P g body as s'
    | r => r

/-- The result of `Aggregate`: an error, or the columns (with `pos`) and the index. -/
inductive ARes where
  | err
  | ok (cols : List NCol) (index : List Nat)
  deriving Repr, Inhabited

/-- `none`: no meaning or a panic (`ix[k]` of a group that is too short). -/
def AT.run {σ φ : Type} (P : APrims φ) (g : Grouper σ) (aggs : List (AggReq φ)) : List AT → ASt → Option ARes
  | [], _ => none
  | .ifGrouperErr :: ts, s => if g.err then some .err else AT.run P g aggs ts s
  | .firstRows k :: ts, s =>
    match g.indices.mapM (fun ix => ix[k]?) with
    | some f => AT.run P g aggs ts { s with first := some f }
    | none => none
  | .alloc :: ts, s => AT.run P g aggs ts { s with cols := some [], inMap := [] }
  | .keyLoop body :: ts, s =>
    match runKeyLoop P g body 0 g.grouped s with
    | .next s' => AT.run P g aggs ts s'
    | .err => some .err
    | .stuck => none
  | .declErr :: ts, s => AT.run P g aggs ts s
  | .aggLoop body :: ts, s =>
    match runAggLoop P g body aggs s with
    | .next s' => AT.run P g aggs ts s'
    | .err => some .err
    | .stuck => none
  | .retFrame :: _, s =>
    match s.cols with
    | some cs => some (.ok cs (List.range g.indices.length))
    | none => none
  | .opaque _ :: _, _ => none

def GB.hasOpaque : GB → Bool
  | .opaque _ => true
  | .ifRecvErr t k | .checkColumns t k | .ifLenZero t k | .ifNoColumns t k => t.hasOpaque || k.hasOpaque
  | .newConfig k | .mkGrouper _ _ _ k | .setOneGroup _ k | .comparables _ _ _ k | .callGrouper _ k | .setIndices k | .setStats k => k.hasOpaque
  | .retGrouper | .retErr _ => false

def CF.hasOpaque : CF → Bool
  | .opaque _ => true
  | _ => false

def QS.hasOpaque : QS → Bool
  | .opaque _ => true
  | .ifGrouperErr k | .base _ _ _ k | .makeResult k | .rangeStore _ _ _ _ k => k.hasOpaque
  | .retResult => false

def AS.hasOpaque : AS → Bool
  | .opaque _ => true
  | _ => false

def AT.hasOpaque : AT → Bool
  | .opaque _ => true
  | .keyLoop b | .aggLoop b => b.any AS.hasOpaque
  | _ => false

end QF.GG
