import QF.Core.LExpr
/-!
# FA / SU / EU — the languages of the REST of Apply: `FilteredApply`, `WithRowNums` and the two built-in `toUpper`

    func (qf QFrame) FilteredApply(clause FilterClause, instructions ...Instruction) QFrame      -- /repo/qframe.go
    func (qf QFrame) WithRowNums(colName string) QFrame
    func toUpper(ix index.Int, source Column) interface{}                                        -- /repo/internal/scolumn
    func toUpper(_ index.Int, s Column) interface{}                                              -- /repo/internal/ecolumn
    "ToUpper": toUpper  in the package-level maps `Column.Apply1` consults for a `string` function value

go/cmd/extract/faast.go translates these bodies, statement by statement, into terms of the three small languages below
and writes them to `QF/Gen/FApply.lean` on every run. Terms name things by ROLE, never by identifier.

## Part A — frames as VALUES (`FAFr`, `FAStm`)

`FilteredApply` and `WithRowNums` do no work on cells: they call `Filter` and `Apply` on frame values, copy a frame value
(`newQf := qf`: Go copies the struct — three slice / map headers and the error) and assign ONE field of the copy
(`newQf.index = filteredQf.index`). Roles: `recv` the receiver, `loc n` the `n`-th local of type `QFrame` in order of
declaration; the index field is found by its TYPE in `type QFrame struct` (`index.Int`), `Err` by the type `error`; the
clause and instruction parameters by their types; the `string` parameter is `FAName.param`. A function literal whose
only free variable is ONE local `int` declared in front of it with a constant value and used nowhere else is a
`FAFnLit.counter` (the variable becomes the state of the closure).

`runFA` is the meaning on frame values `XFr γ` (`γ`: whatever the column list and the name map are — the plumbing never
looks inside), with `Filter` and `Apply` as parameters of the environment: what THEY do is regenerated elsewhere
(clast.go / C02ClausesGen; gast.go + last.go / C10Guards, C06LoopsGen).

## Part B — `toUpper` of the string column (`SUFn`)

A string column is a pointer array into a byte blob (`BCol`, QF/Core/LExpr.lean). The term records how the two arrays of
the result come into being (`SUPtrInit`, `SUDataInit`: a FRESH allocation, or the source's own array / a prefix of it),
which cell is read per round of `for _, row := range ix` and the statements of the body. `SUFn.run` executes it on a
state that holds the SOURCE's two arrays as they are NOW: a store through a slice that aliases them changes them and
is counted (`writes`) — so "the source column is not written" (C01) is a statement about the run of today's term, and a
body that builds its data with `source.data[:0]` + `append` visibly breaks it. `ToUpper` of internal/strings is the
parameter `up` (C18UpperGen: the regenerated function = `encode ∘ map unicode.ToUpper` on valid UTF-8); its scratch buffer
must be a local allocation (`SUBuf.fresh`). Capacities of fresh allocations are not modelled (`make([]byte, 0, n)`: the
estimate `n` is a product of non-negative floats). A pointer IS the triple (offset, length, null) — exact below 2^35 /
2^28 (C08PointerGen `gen_pointer_roundtrip`).

## Part C — `toUpper` of the enum column (`EUFn`)

Works on the VALUE TABLE: one loop over `s.values` (upper-case, look up in a map, new code = number of values so far,
remember the mapping), a fast path that returns the source's `data` when no two values merged, else a second loop over
`s.data` that remaps every non-null code into a new array. Roles: the `[]string` local (`vals`), the `map[string]enumVal`
local, the first `[]enumVal` local (`mapping`), the second (`nd`), the string local, the `enumVal` local / range
variable (`reg`), `ok`. As in part B the source's `data` array is part of the state, so `newData := s.data[:0]` followed
by `append` is seen to overwrite it. The index parameter plays no role (`ixUsed`).
-/
namespace QF

/-! # Part A -/

/-- a name field of an instruction literal -/
inductive FAName where
  /-- the `string` parameter of the method -/
  | param
  | lit (s : String)
  /-- the field is left out (`""`) -/
  | unset
  deriving DecidableEq, Repr, Inhabited

/-- statements of a function literal over its one captured `int` variable `v` -/
inductive FACStm where
  /-- `v++` -/
  | inc
  /-- `v--` -/
  | dec
  /-- `return v` -/
  | ret
  | opaque (txt : String)
  deriving DecidableEq, Repr, Inhabited

inductive FAFnLit where
  /-- `v := init` in front of the call, used nowhere else; `func() res { body }` -/
  | counter (init : Int) (res : CType) (body : List FACStm)
  | opaque (txt : String)
  deriving DecidableEq, Repr, Inhabited

/-- `Instruction{Fn: …, DstCol: …, SrcCol1: …, SrcCol2: …}`, fields by name of the struct's fields' ROLES: the three
`string` fields in the order Apply's dispatch reads them (`QF.Gen.applyAst`), the function field -/
structure FAInstr where
  dst : FAName
  src1 : FAName
  src2 : FAName
  fn : FAFnLit
  deriving DecidableEq, Repr, Inhabited

/-- frame-valued expressions -/
inductive FAFr where
  | recv
  | loc (n : Nat)
  /-- `x.Filter(<the clause parameter>)` -/
  | filter (x : FAFr)
  /-- `x.Apply(<the instruction parameter>...)` -/
  | applyParam (x : FAFr)
  /-- `x.Apply(Instruction{…}, …)` -/
  | applyLits (x : FAFr) (is : List FAInstr)
  | opaque (txt : String)
  deriving DecidableEq, Repr, Inhabited

inductive FAStm where
  /-- `<a new local> := e` -/
  | decl (e : FAFr)
  /-- `<loc n> = e` -/
  | assign (n : Nat) (e : FAFr)
  /-- `<loc n>.index = src.index` -/
  | setIndex (n : Nat) (src : FAFr)
  /-- `if x.Err != nil { return r }` -/
  | retIfErr (x r : FAFr)
  | ret (e : FAFr)
  | opaque (txt : String)
  deriving DecidableEq, Repr, Inhabited

/-- A frame VALUE: the column list and name map (`cols`, never inspected here), the row index, `Err != nil`. -/
structure XFr (γ : Type) where
  cols : γ
  index : List Nat
  err : Bool

/-- An instruction VALUE: the three names as Go sees them (`[]` = `""`), the function value and the initial state of a
closure. -/
structure XInstr where
  dst : Bytes
  src1 : Bytes := []
  src2 : Bytes := []
  fn : LVal Int
  s0 : Int := 0

structure FAEnv (γ : Type) where
  recv : XFr γ
  /-- the `string` parameter -/
  colName : Bytes := []
  /-- `x.Filter(clause)` for the clause parameter -/
  filter : XFr γ → Option (XFr γ)
  /-- `x.Apply(instructions...)` for the instruction parameter -/
  applyParam : XFr γ → Option (XFr γ)
  /-- `x.Apply(i₁, …)` for instruction values -/
  applyLits : XFr γ → List XInstr → Option (XFr γ)

/-- the body of a counter closure on the value `v` of its variable: (what it returns, the variable afterwards) -/
def FACStm.run : List FACStm → Int → Option (Int × Int)
  | [], _ => none
  | .inc :: r, v => FACStm.run r (v + 1)
  | .dec :: r, v => FACStm.run r (v - 1)
  | .ret :: _, v => some (v, v)
  | .opaque _ :: _, _ => none

/-- the function value of a literal and the initial state of its variable -/
def FAFnLit.val : FAFnLit → Option (LVal Int × Int)
  | .counter init .int body =>
    if (FACStm.run body 0).isSome then
      some (.fn0 .int (fun v => match FACStm.run body v with | some (x, v') => (.int x, v') | none => (.int 0, v)), init)
    else none
  | _ => none

def FAName.val (colName : Bytes) : FAName → Bytes
  | .param => colName
  | .lit s => s.toUTF8.toList
  | .unset => []

def FAInstr.val (colName : Bytes) (i : FAInstr) : Option XInstr :=
  (i.fn.val).map (fun f => { dst := i.dst.val colName, src1 := i.src1.val colName, src2 := i.src2.val colName, fn := f.1, s0 := f.2 })

def FAFr.eval {γ : Type} (E : FAEnv γ) (locs : List (XFr γ)) : FAFr → Option (XFr γ)
  | .recv => some E.recv
  | .loc n => locs[n]?
  | .filter x => (x.eval E locs).bind E.filter
  | .applyParam x => (x.eval E locs).bind E.applyParam
  | .applyLits x is =>
    match x.eval E locs, is.mapM (FAInstr.val E.colName) with
    | some v, some l => E.applyLits v l
    | _, _ => none
  | .opaque _ => none

/-- a statement list that ends in a `return`; falling off the end has no value -/
def runFA {γ : Type} (E : FAEnv γ) : List FAStm → List (XFr γ) → Option (XFr γ)
  | [], _ => none
  | .decl e :: r, locs =>
    match e.eval E locs with
    | some v => runFA E r (locs ++ [v])
    | none => none
  | .assign n e :: r, locs =>
    match e.eval E locs with
    | some v => if n < locs.length then runFA E r (locs.set n v) else none
    | none => none
  | .setIndex n src :: r, locs =>
    match src.eval E locs, locs[n]? with
    | some s, some l => runFA E r (locs.set n { l with index := s.index })
    | _, _ => none
  | .retIfErr x res :: r, locs =>
    match x.eval E locs with
    | some v => if v.err then res.eval E locs else runFA E r locs
    | none => none
  | .ret e :: _, locs => e.eval E locs
  | .opaque _ :: _, _ => none

def FAInstr.hasOpaque (i : FAInstr) : Bool :=
  match i.fn with
  | .counter _ _ body => body.any (fun s => match s with | .opaque _ => true | _ => false)
  | .opaque _ => true

def FAFr.hasOpaque : FAFr → Bool
  | .opaque _ => true
  | .filter x | .applyParam x => x.hasOpaque
  | .applyLits x is => x.hasOpaque || is.any FAInstr.hasOpaque
  | _ => false

def FAStm.hasOpaque : FAStm → Bool
  | .opaque _ => true
  | .decl e | .assign _ e | .setIndex _ e | .ret e => e.hasOpaque
  | .retIfErr x r => x.hasOpaque || r.hasOpaque

/-! # Part B — the string column -/

inductive SULen where
  /-- `len(source.pointers)` -/
  | srcPtrs
  /-- `len(ix)` -/
  | ixLen
  | lit (n : Nat)
  | opaque (txt : String)
  deriving DecidableEq, Repr, Inhabited

/-- the scratch buffer handed to `ToUpper` -/
inductive SUBuf where
  /-- the address of a local `[]byte` the function allocated itself -/
  | fresh
  | opaque (txt : String)
  deriving DecidableEq, Repr, Inhabited

inductive SUStr where
  /-- the string `source.stringAt(<cellAt>)` returned at the top of the round (empty for a null cell) -/
  | cell
  /-- `ToUpper(&buf, s)` of internal/strings -/
  | upper (buf : SUBuf) (s : SUStr)
  | opaque (txt : String)
  deriving DecidableEq, Repr, Inhabited

inductive SUInt where
  /-- `len(<the new data>)` -/
  | dataLen
  | strLen (s : SUStr)
  | lit (n : Nat)
  | opaque (txt : String)
  deriving DecidableEq, Repr, Inhabited

inductive SUFlag where
  /-- the null flag `source.stringAt(<cellAt>)` returned -/
  | cellNull
  | lit (b : Bool)
  | opaque (txt : String)
  deriving DecidableEq, Repr, Inhabited

inductive SUAct where
  /-- `<pointers>[slot] = NewPointer(off, len, null)` -/
  | setPtr (slot : LIdx) (off len : SUInt) (null : SUFlag)
  /-- `<data> = append(<data>, s...)` -/
  | appendStr (s : SUStr)
  | opaque (txt : String)
  deriving DecidableEq, Repr, Inhabited

inductive SUPtrInit where
  /-- `make([]Pointer, len)` -/
  | fresh (len : SULen)
  /-- `source.pointers` itself -/
  | source
  | opaque (txt : String)
  deriving DecidableEq, Repr, Inhabited

inductive SUDataInit where
  /-- `make([]byte, 0, _)` -/
  | empty
  /-- `source.data[:n]` -/
  | sourcePrefix (n : Nat)
  /-- `source.data` itself -/
  | source
  | opaque (txt : String)
  deriving DecidableEq, Repr, Inhabited

/-- which array a field of the returned column is -/
inductive SURef where
  /-- the local the function built -/
  | new
  /-- the source's field -/
  | source
  deriving DecidableEq, Repr, Inhabited

inductive SURet where
  /-- `Column{pointers: p, data: d}` (the constructor `NewBytes` inlined) -/
  | col (ptrs data : SURef)
  | opaque (txt : String)
  deriving DecidableEq, Repr, Inhabited

structure SUFn where
  /-- `if len(source.pointers) == 0 { return source }` in front -/
  emptyReturnsSource : Bool
  ptrInit : SUPtrInit
  dataInit : SUDataInit
  /-- `str, isNull := source.stringAt(<cellAt>)` is the first statement of `for pos, row := range ix` -/
  cellAt : LIdx
  body : List SUAct
  ret : SURet
  deriving DecidableEq, Repr, Inhabited

/-- the new data: bytes of its own, or the first `len` bytes of the SOURCE's data array -/
inductive SUData where
  | own (d : Bytes)
  | alias (len : Nat)
  deriving DecidableEq, Repr, Inhabited

structure SUSt where
  /-- the source column's two arrays as they are now -/
  src : BCol
  /-- the new pointer array; `none`: the variable IS the source's array -/
  ptrs : Option (List BPtr)
  data : SUData
  /-- stores into the source's arrays so far -/
  writes : Nat := 0
  deriving Repr, Inhabited

structure SUOut where
  /-- the column returned, as a reader sees it after the run -/
  res : BCol
  /-- the source column itself was returned -/
  shared : Bool
  /-- the result's pointer / data array is one the function allocated -/
  ptrsFresh : Bool
  dataFresh : Bool
  /-- the source's arrays after the run -/
  src : BCol
  writes : Nat
  deriving Repr, Inhabited

/-- `overwrite l off bs`: the bytes `bs` stored from position `off` on (caller checks the range) -/
def storeAt {α : Type} (l : List α) (off : Nat) (bs : List α) : List α := l.take off ++ bs ++ l.drop (off + bs.length)

/-- `source.stringAt(i)` on the current arrays: (string, null flag) -/
def BCol.stringAt (B : BCol) (i : Nat) : LR (Bytes × Bool) :=
  match B.ptrs[i]? with
  | none => .panic
  | some p =>
    if p.null then .ok ([], true)
    else if p.off + p.len ≤ B.data.length then .ok ((B.data.drop p.off).take p.len, false) else .panic

def SUStr.eval (up : Bytes → Bytes) (s : Bytes) : SUStr → Option Bytes
  | .cell => some s
  | .upper .fresh x => (x.eval up s).map up
  | .upper (.opaque _) _ => none
  | .opaque _ => none

def SUData.len : SUData → Nat
  | .own d => d.length
  | .alias n => n

def SUInt.eval (up : Bytes → Bytes) (s : Bytes) (st : SUSt) : SUInt → Option Nat
  | .dataLen => some st.data.len
  | .strLen x => (x.eval up s).map (·.length)
  | .lit n => some n
  | .opaque _ => none

def SUFlag.eval (isNull : Bool) : SUFlag → Option Bool
  | .cellNull => some isNull
  | .lit b => some b
  | .opaque _ => none

def SUAct.run (up : Bytes → Bytes) (pos row : Nat) (s : Bytes) (isNull : Bool) (st : SUSt) : SUAct → LR SUSt
  | .setPtr slot o l n =>
    match o.eval up s st, l.eval up s st, n.eval isNull with
    | some o', some l', some n' =>
      match st.ptrs with
      | some ps => if slot.of pos row < ps.length then .ok { st with ptrs := some (ps.set (slot.of pos row) ⟨o', l', n'⟩) } else .panic
      | none =>
        if slot.of pos row < st.src.ptrs.length then
          .ok { st with src := { st.src with ptrs := st.src.ptrs.set (slot.of pos row) ⟨o', l', n'⟩ }, writes := st.writes + 1 }
        else .panic
    | _, _, _ => .stuck
  | .appendStr x =>
    match x.eval up s with
    | some bs =>
      match st.data with
      | .own d => .ok { st with data := .own (d ++ bs) }
      | .alias n =>
        -- within the capacity: the bytes go into the source's array
        if n + bs.length ≤ st.src.data.length then
          .ok { st with src := { st.src with data := storeAt st.src.data n bs }, data := .alias (n + bs.length), writes := st.writes + bs.length }
        else .ok { st with data := .own (st.src.data.take n ++ bs) }
    | none => .stuck
  | .opaque _ => .stuck

def suRunBody (up : Bytes → Bytes) (pos row : Nat) (s : Bytes) (isNull : Bool) : List SUAct → SUSt → LR SUSt
  | [], st => .ok st
  | a :: rest, st =>
    match a.run up pos row s isNull st with
    | .ok st' => suRunBody up pos row s isNull rest st'
    | .panic => .panic
    | .stuck => .stuck

/-- `for pos, row := range ix { str, isNull := source.stringAt(<cellAt>); body }` -/
def suRunLoop (up : Bytes → Bytes) (F : SUFn) : Nat → List Nat → SUSt → LR SUSt
  | _, [], st => .ok st
  | pos, row :: rows, st =>
    match st.src.stringAt (F.cellAt.of pos row) with
    | .ok (s, isNull) =>
      match suRunBody up pos row s isNull F.body st with
      | .ok st' => suRunLoop up F (pos + 1) rows st'
      | .panic => .panic
      | .stuck => .stuck
    | .panic => .panic
    | .stuck => .stuck

def SULen.eval (B : BCol) (ix : List Nat) : SULen → Option Nat
  | .srcPtrs => some B.ptrs.length
  | .ixLen => some ix.length
  | .lit n => some n
  | .opaque _ => none

def SUFn.run (up : Bytes → Bytes) (F : SUFn) (B : BCol) (ix : List Nat) : LR SUOut :=
  if F.emptyReturnsSource && B.ptrs.isEmpty then
    .ok { res := B, shared := true, ptrsFresh := false, dataFresh := false, src := B, writes := 0 }
  else
    let ptrs0 : Option (Option (List BPtr)) :=
      match F.ptrInit with
      | .fresh len => (len.eval B ix).map (fun n => some (List.replicate n ⟨0, 0, false⟩))
      | .source => some none
      | .opaque _ => none
    let data0 : Option (LR SUData) :=
      match F.dataInit with
      | .empty => some (.ok (.own []))
      | .sourcePrefix n => some (if n ≤ B.data.length then .ok (.alias n) else .panic)
      | .source => some (.ok (.alias B.data.length))
      | .opaque _ => none
    match ptrs0, data0, F.ret with
    | some ps, some (.ok d), .col rp rd =>
      match suRunLoop up F 0 ix { src := B, ptrs := ps, data := d } with
      | .ok st =>
        let rptrs : List BPtr × Bool := match rp, st.ptrs with
          | .new, some l => (l, true)
          | _, _ => (st.src.ptrs, false)
        let rdata : Bytes × Bool := match rd, st.data with
          | .new, .own dd => (dd, true)
          | .new, .alias n => (st.src.data.take n, false)
          | .source, _ => (st.src.data, false)
        .ok { res := ⟨rptrs.1, rdata.1⟩, shared := false, ptrsFresh := rptrs.2, dataFresh := rdata.2, src := st.src, writes := st.writes }
      | .panic => .panic
      | .stuck => .stuck
    | some _, some .panic, .col _ _ => .panic
    | _, _, _ => .stuck

def SUStr.hasOpaque : SUStr → Bool
  | .opaque _ => true
  | .upper (.opaque _) _ => true
  | .upper .fresh x => x.hasOpaque
  | .cell => false

def SUInt.hasOpaque : SUInt → Bool
  | .opaque _ => true
  | .strLen x => x.hasOpaque
  | _ => false

def SUAct.hasOpaque : SUAct → Bool
  | .opaque _ => true
  | .setPtr _ o l n => o.hasOpaque || l.hasOpaque || (match n with | .opaque _ => true | _ => false)
  | .appendStr x => x.hasOpaque

def SUFn.hasOpaque (F : SUFn) : Bool :=
  (match F.ptrInit with | .opaque _ => true | .fresh (.opaque _) => true | _ => false) ||
  (match F.dataInit with | .opaque _ => true | _ => false) || F.body.any SUAct.hasOpaque ||
  (match F.ret with | .opaque _ => true | _ => false)

/-! # Part C — the enum column -/

/-- An enum column as stored: a code per physical row (`255` = null) into the value table. -/
structure ECol where
  data : List Nat
  values : List Bytes
  strict : Bool := false
  deriving DecidableEq, Repr, Inhabited

/-- the null code (`maxCardinality`, `QF.Gen.enumConsts`) -/
def euNull : Nat := 255

inductive EULen where
  /-- `len(s.values)` -/
  | srcVals
  /-- `len(s.data)` -/
  | srcData
  | lit (n : Nat)
  | opaque (txt : String)
  deriving DecidableEq, Repr, Inhabited

inductive EUStr where
  /-- the range value of the loop over `s.values` -/
  | elem
  /-- the string local of the loop body -/
  | loc
  /-- `strings.ToUpper(s)` -/
  | upper (s : EUStr)
  | opaque (txt : String)
  deriving DecidableEq, Repr, Inhabited

inductive EUCode where
  /-- the `enumVal` local: bound by the map look-up (first loop), the range value (second loop) -/
  | reg
  /-- `enumVal(len(<vals>))` -/
  | valsLen
  /-- `<mapping>[c]` -/
  | mappingAt (c : EUCode)
  | lit (n : Nat)
  | opaque (txt : String)
  deriving DecidableEq, Repr, Inhabited

inductive EUCond where
  /-- `!ok` of the map look-up -/
  | notFound
  | found
  /-- `!<reg>.isNull()` -/
  | regNotNull
  | regIsNull
  | opaque (txt : String)
  deriving DecidableEq, Repr, Inhabited

inductive EUAct where
  /-- `<string local> := s` -/
  | bindStr (s : EUStr)
  /-- `<reg>, ok := <map>[k]` -/
  | lookup (k : EUStr)
  /-- `<reg> = c` -/
  | setReg (c : EUCode)
  /-- `<map>[k] = c` -/
  | mapPut (k : EUStr) (c : EUCode)
  /-- `<vals> = append(<vals>, s)` -/
  | pushVal (s : EUStr)
  /-- `<mapping>[<range key>] = c` -/
  | storeMapping (c : EUCode)
  /-- `<nd>[<range key>] = c` -/
  | storeData (c : EUCode)
  /-- `<nd> = append(<nd>, c)` -/
  | appendData (c : EUCode)
  | opaque (txt : String)
  deriving DecidableEq, Repr, Inhabited

inductive EUStm where
  | do (a : EUAct)
  /-- `if c { as }` -/
  | when (c : EUCond) (as : List EUAct)
  deriving DecidableEq, Repr, Inhabited

inductive EUDataInit where
  /-- `make([]enumVal, len)` -/
  | fresh (len : EULen)
  /-- `s.data[:n]` -/
  | sourcePrefix (n : Nat)
  /-- `s.data` itself -/
  | source
  | opaque (txt : String)
  deriving DecidableEq, Repr, Inhabited

/-- the `strict` field of the returned column -/
inductive EUStrict where
  /-- left out: `false` -/
  | unset
  /-- `s.strict` -/
  | source
  | lit (b : Bool)
  deriving DecidableEq, Repr, Inhabited

inductive EURet where
  /-- `Column{data: d, values: v, strict: …}`; `d`, `v`: the new local or the source's field -/
  | col (data values : SURef) (strict : EUStrict)
  | opaque (txt : String)
  deriving DecidableEq, Repr, Inhabited

inductive EUFast where
  | none
  /-- `if len(<vals>) == len(s.values) { return r }` between the two loops -/
  | ifSameLen (r : EURet)
  | opaque (txt : String)
  deriving DecidableEq, Repr, Inhabited

structure EUFn where
  /-- the index parameter is referred to somewhere -/
  ixUsed : Bool
  /-- `<vals> := make([]string, 0, _)` -/
  valsInit : LGInit
  /-- `<map> := make(map[string]enumVal, _)`: a new, empty map -/
  mapFresh : Bool
  /-- `<mapping> := make([]enumVal, len)` -/
  mappingLen : EULen
  /-- `for key, elem := range s.values { … }` -/
  loop1 : List EUStm
  fast : EUFast
  dataInit : EUDataInit
  /-- `for key, <reg> := range s.data { … }` -/
  loop2 : List EUStm
  ret : EURet
  deriving DecidableEq, Repr, Inhabited

/-- the new data: codes of its own, or the first `len` entries of the SOURCE's data array -/
inductive EUData where
  | own (d : List Nat)
  | alias (len : Nat)
  deriving DecidableEq, Repr, Inhabited

structure EUSt where
  /-- the source column as it is now (its `data` may be written through an alias) -/
  src : ECol
  vals : List Bytes := []
  /-- the map: first binding wins, an assignment puts a binding in front -/
  map : List (Bytes × Nat) := []
  mapping : List Nat := []
  nd : EUData := .own []
  str : Bytes := []
  reg : Nat := 0
  ok : Bool := false
  writes : Nat := 0
  deriving Repr, Inhabited

structure EUOut where
  data : List Nat
  values : List Bytes
  strict : Bool
  /-- the result's `data` is the source's array (or a slice of it) -/
  dataShared : Bool
  /-- the source column after the run -/
  src : ECol
  writes : Nat
  deriving Repr, Inhabited

def EUStr.eval (up : Bytes → Bytes) (elem : Bytes) (st : EUSt) : EUStr → Option Bytes
  | .elem => some elem
  | .loc => some st.str
  | .upper s => (s.eval up elem st).map up
  | .opaque _ => none

/-- `none`: no meaning; `some none`: index out of range (Go panics) -/
def EUCode.eval (st : EUSt) : EUCode → Option (Option Nat)
  | .reg => some (some st.reg)
  | .valsLen => some (some st.vals.length)
  | .mappingAt c =>
    match c.eval st with
    | some (some i) => some st.mapping[i]?
    | r => r
  | .lit n => some (some n)
  | .opaque _ => none

def EUCond.eval (st : EUSt) : EUCond → Option Bool
  | .notFound => some (!st.ok)
  | .found => some st.ok
  | .regNotNull => some (st.reg != euNull)
  | .regIsNull => some (st.reg == euNull)
  | .opaque _ => none

def EUData.len : EUData → Nat
  | .own d => d.length
  | .alias n => n

def EUAct.run (up : Bytes → Bytes) (key : Nat) (elem : Bytes) (st : EUSt) : EUAct → LR EUSt
  | .bindStr s =>
    match s.eval up elem st with
    | some b => .ok { st with str := b }
    | none => .stuck
  | .lookup k =>
    match k.eval up elem st with
    | some b =>
      match st.map.lookup b with
      | some c => .ok { st with reg := c, ok := true }
      | none => .ok { st with reg := 0, ok := false }
    | none => .stuck
  | .setReg c =>
    match c.eval st with
    | some (some v) => .ok { st with reg := v }
    | some none => .panic
    | none => .stuck
  | .mapPut k c =>
    match k.eval up elem st, c.eval st with
    | some b, some (some v) => .ok { st with map := (b, v) :: st.map }
    | some _, some none => .panic
    | _, _ => .stuck
  | .pushVal s =>
    match s.eval up elem st with
    | some b => .ok { st with vals := st.vals ++ [b] }
    | none => .stuck
  | .storeMapping c =>
    match c.eval st with
    | some (some v) => if key < st.mapping.length then .ok { st with mapping := st.mapping.set key v } else .panic
    | some none => .panic
    | none => .stuck
  | .storeData c =>
    match c.eval st with
    | some (some v) =>
      match st.nd with
      | .own d => if key < d.length then .ok { st with nd := .own (d.set key v) } else .panic
      | .alias n =>
        if key < n then .ok { st with src := { st.src with data := st.src.data.set key v }, writes := st.writes + 1 } else .panic
    | some none => .panic
    | none => .stuck
  | .appendData c =>
    match c.eval st with
    | some (some v) =>
      match st.nd with
      | .own d => .ok { st with nd := .own (d ++ [v]) }
      | .alias n =>
        if n < st.src.data.length then
          .ok { st with src := { st.src with data := st.src.data.set n v }, nd := .alias (n + 1), writes := st.writes + 1 }
        else .ok { st with nd := .own (st.src.data.take n ++ [v]) }
    | some none => .panic
    | none => .stuck
  | .opaque _ => .stuck

def euRunActs (up : Bytes → Bytes) (key : Nat) (elem : Bytes) : List EUAct → EUSt → LR EUSt
  | [], st => .ok st
  | a :: rest, st =>
    match a.run up key elem st with
    | .ok st' => euRunActs up key elem rest st'
    | .panic => .panic
    | .stuck => .stuck

def euRunBody (up : Bytes → Bytes) (key : Nat) (elem : Bytes) : List EUStm → EUSt → LR EUSt
  | [], st => .ok st
  | .do a :: rest, st =>
    match a.run up key elem st with
    | .ok st' => euRunBody up key elem rest st'
    | .panic => .panic
    | .stuck => .stuck
  | .when c as :: rest, st =>
    match c.eval st with
    | some true =>
      match euRunActs up key elem as st with
      | .ok st' => euRunBody up key elem rest st'
      | .panic => .panic
      | .stuck => .stuck
    | some false => euRunBody up key elem rest st
    | none => .stuck

/-- `for key, elem := range s.values { body }` -/
def euLoop1 (up : Bytes → Bytes) (body : List EUStm) : Nat → List Bytes → EUSt → LR EUSt
  | _, [], st => .ok st
  | key, v :: vs, st =>
    match euRunBody up key v body st with
    | .ok st' => euLoop1 up body (key + 1) vs st'
    | .panic => .panic
    | .stuck => .stuck

/-- `for key, <reg> := range s.data { body }`: `n` rounds (the length at the start), each reads the CURRENT element -/
def euLoop2 (up : Bytes → Bytes) (body : List EUStm) : Nat → Nat → EUSt → LR EUSt
  | _, 0, st => .ok st
  | key, n + 1, st =>
    match st.src.data[key]? with
    | none => .panic
    | some c =>
      match euRunBody up key [] body { st with reg := c } with
      | .ok st' => euLoop2 up body (key + 1) n st'
      | .panic => .panic
      | .stuck => .stuck

def EULen.eval (E : ECol) : EULen → Option Nat
  | .srcVals => some E.values.length
  | .srcData => some E.data.length
  | .lit n => some n
  | .opaque _ => none

def EURet.eval (st : EUSt) : EURet → Option EUOut
  | .col rd rv strict =>
    let d : List Nat × Bool := match rd, st.nd with
      | .new, .own dd => (dd, false)
      | .new, .alias n => (st.src.data.take n, true)
      | .source, _ => (st.src.data, true)
    let v : List Bytes := match rv with | .new => st.vals | .source => st.src.values
    let s : Bool := match strict with | .unset => false | .source => st.src.strict | .lit b => b
    some { data := d.1, values := v, strict := s, dataShared := d.2, src := st.src, writes := st.writes }
  | .opaque _ => none

def EUFn.run (up : Bytes → Bytes) (F : EUFn) (E : ECol) : LR EUOut :=
  match F.valsInit, F.mapFresh, F.mappingLen.eval E with
  | .empty, true, some ml =>
    match euLoop1 up F.loop1 0 E.values { src := E, mapping := List.replicate ml 0 } with
    | .ok st =>
      -- the fast path
      let early : Option (Option EURet) :=
        match F.fast with
        | .none => some none
        | .ifSameLen r => some (if st.vals.length == E.values.length then some r else none)
        | .opaque _ => none
      match early with
      | none => .stuck
      | some (some r) => match r.eval st with | some o => .ok o | none => .stuck
      | some none =>
        let nd0 : Option (LR EUData) :=
          match F.dataInit with
          | .fresh len => (len.eval E).map (fun n => .ok (.own (List.replicate n 0)))
          | .sourcePrefix n => some (if n ≤ E.data.length then .ok (.alias n) else .panic)
          | .source => some (.ok (.alias E.data.length))
          | .opaque _ => none
        match nd0 with
        | some (.ok nd) =>
          match euLoop2 up F.loop2 0 E.data.length { st with nd := nd } with
          | .ok st' => match F.ret.eval st' with | some o => .ok o | none => .stuck
          | .panic => .panic
          | .stuck => .stuck
        | some .panic => .panic
        | _ => .stuck
    | .panic => .panic
    | .stuck => .stuck
  | _, _, _ => .stuck

def EUStr.hasOpaque : EUStr → Bool
  | .opaque _ => true
  | .upper s => s.hasOpaque
  | _ => false

def EUCode.hasOpaque : EUCode → Bool
  | .opaque _ => true
  | .mappingAt c => c.hasOpaque
  | _ => false

def EUAct.hasOpaque : EUAct → Bool
  | .opaque _ => true
  | .bindStr s | .lookup s | .pushVal s => s.hasOpaque
  | .setReg c | .storeMapping c | .storeData c | .appendData c => c.hasOpaque
  | .mapPut k c => k.hasOpaque || c.hasOpaque

def EUStm.hasOpaque : EUStm → Bool
  | .do a => a.hasOpaque
  | .when c as => (match c with | .opaque _ => true | _ => false) || as.any EUAct.hasOpaque

def EURet.hasOpaque : EURet → Bool
  | .opaque _ => true
  | _ => false

def EUFn.hasOpaque (F : EUFn) : Bool :=
  (match F.valsInit with | .opaque _ => true | _ => false) || (match F.mappingLen with | .opaque _ => true | _ => false) ||
  F.loop1.any EUStm.hasOpaque ||
  (match F.fast with | .opaque _ => true | .ifSameLen r => r.hasOpaque | .none => false) ||
  (match F.dataInit with | .opaque _ => true | .fresh (.opaque _) => true | _ => false) ||
  F.loop2.any EUStm.hasOpaque || F.ret.hasOpaque

end QF
