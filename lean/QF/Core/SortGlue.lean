import QF.Core.GroupGlue
/-!
# SG — the glue of `Sort`, of the helper `comparables`, of `apply1` / `apply2`, the error returns of `createColumn` and
`ReadSQLWithArgs` in /repo/qframe.go, and their Go semantics

    func (qf QFrame) Sort(orders ...Order) QFrame                                              → SO   (withErr, withIndex, qfsort.New inlined)
    func New(ix index.Int, columns []column.Comparable) Sorter          (internal/sort)        → SN
    func (qf QFrame) comparables(columns []string, orders []Order, b bool) []column.Comparable → CH
    func (qf QFrame) orders(columns []string) []Order                                          → OH
    func (qf QFrame) apply1(fn, dstCol, srcCol string) QFrame                                  → AP
    func (qf QFrame) apply2(fn, dstCol, srcCol1, srcCol2 string) QFrame                        → AP
    func createColumn(name string, data interface{}, config *newqf.Config) (column.Column, error)   → the error returns, EV
    func ReadSQLWithArgs(tx *sql.Tx, queryArgs []interface{}, confFuncs ...qsql.ConfigFunc) QFrame  → RS

go/cmd/extract/sortgast.go translates these bodies on every run and writes the terms to `QF/Gen/SortGlue.lean`. What the
glue CALLS is regenerated elsewhere and is a parameter here: the columns' `Comparable` / `Compare` (cast.go: C03Compare),
`Sorter.Sort` (sortast.go: C03SorterGen), `Int.Copy` and `setColumn` (pxast.go: C08ProjectGen), `Column.Apply1` /
`Apply2` (last.go: C06LoopsGen), `ecolumn.New` (east.go: C17Factory), `qfsqlio.ReadSQL` (sqlrast.go: C19ReadSqlGen), `New`
(gast.go / nast.go: C08Guards, C08Construct).

Terms name things by ROLE, never by Go identifier: the fields of `QFrame` by their types (`[]namedColumn`: the columns;
`map[string]namedColumn`: the name map; `index.Int`: the index; `error`), the fields of `Order` by their types and order
(`string`: the column; the first `bool`: Reverse; the second `bool`: NullLast), parameters by type and position, locals
by what they are bound to.

Frames are `GG.Frame` (QF/Core/GroupGlue.lean): the columns with their physical cells, the index of row numbers, the
error; a look-up of a name that is not there gives the zero `namedColumn`, whose `Column` is nil: calling a method on it
is a run-time panic (no value).
-/
namespace QF.SG
open QF.GG (Frame)

/-- A bool argument. "The order of the round": the range value of a loop over the orders, or `orders[i]` for the position
`i` of a counting loop. -/
inductive BSrc where
  | lit (b : Bool)
  /-- the function's `bool` parameter (as it stands when the argument is evaluated) -/
  | param
  /-- `<the order of the round>.<Reverse>` -/
  | ordReverse
  /-- `<the order of the round>.<NullLast>` -/
  | ordNullLast
  deriving DecidableEq, Repr, Inhabited

/-- A column name. -/
inductive NSrc where
  /-- `<the order of the round>.<Column>` -/
  | ordCol
  /-- `columns[i]` for the position `i` of the loop -/
  | columnsAt
  deriving DecidableEq, Repr, Inhabited

def BSrc.eval (flag : Option Bool) (ord : Option Order) : BSrc → Option Bool
  | .lit b => some b
  | .param => flag
  | .ordReverse => ord.map (·.reverse)
  | .ordNullLast => ord.map (·.nullLast)

def NSrc.eval (ord : Option Order) (colName : Option Bytes) : NSrc → Option Bytes
  | .ordCol => ord.map (·.col)
  | .columnsAt => colName

/-! ## `Sort` -/

/-- What `Sort` returns. -/
inductive Out where
  /-- `return qf` -/
  | recv
  /-- `return qf.<withErr>(<a non-nil error>)`, the helper inlined: the receiver's columns, name map and index, the error set -/
  | recvWithErr
  /-- `return newDf` -/
  | newFrame
  deriving DecidableEq, Repr, Inhabited

/-- An index array: the receiver's own, or the one `Int.Copy` made. -/
inductive IxRef where
  | recv | fresh
  deriving DecidableEq, Repr, Inhabited

/-- An index expression. -/
inductive ISrc where
  /-- `qf.<index>` -/
  | recvIndex
  /-- `qf.<index>.Copy()` (`Int.Copy`: a new array with the same rows — `Gen.indexAst`, C08ProjectGen.gen_index_semantics) -/
  | recvIndexCopy
  /-- `newDf.<index>` -/
  | newIndex
  deriving DecidableEq, Repr, Inhabited

/-- The statements of the body of the loop over the orders. -/
inductive SB where
  /-- `s, ok := qf.<name map>[<n>]` -/
  | lookup (n : NSrc)
  /-- `if !ok { return <o> }` -/
  | ifMissing (o : Out)
  /-- `comparables = append(comparables, s.Comparable(<rev>, <eqNull>, <nullLast>))` -/
  | appendCmp (rev eqNull nullLast : BSrc)
  | opaque (txt : String)
  deriving DecidableEq, Repr, Inhabited

/-- `QFrame.Sort`, statement by statement. -/
inductive SO where
  /-- `if qf.Err != nil { return <o> }` -/
  | ifRecvErr (o : Out) (k : SO)
  /-- `if len(orders) == 0 { return <o> }` -/
  | ifNoOrders (o : Out) (k : SO)
  /-- `comparables := make([]column.Comparable, 0, …)` -/
  | makeCmps (k : SO)
  /-- `for _, o := range orders { body }` -/
  | forOrders (body : List SB) (k : SO)
  /-- `newDf := qf.<withIndex>(<ix>)`, the helper inlined: the receiver's columns, name map and error, the index `<ix>` -/
  | withIndex (ix : ISrc) (k : SO)
  /-- `sorter := qfsort.New(<ix>, comparables)` (`New`: `Gen.sorterNewAst`) -/
  | newSorter (ix : ISrc) (k : SO)
  /-- `sorter.Sort()`: sorts the sorter's index array in place -/
  | sort (k : SO)
  /-- `return <o>` -/
  | ret (o : Out)
  | opaque (txt : String)
  deriving DecidableEq, Repr, Inhabited

/-- `qfsort.New`: where the two fields of the `Sorter` literal come from. -/
inductive SNSrc where
  /-- the `index.Int` parameter -/
  | ixParam
  /-- the `[]column.Comparable` parameter -/
  | colsParam
  /-- left out -/
  | zero
  deriving DecidableEq, Repr, Inhabited

inductive SN where
  /-- `return Sorter{<index.Int field>: <ix>, <[]column.Comparable field>: <cols>}` -/
  | lit (ix cols : SNSrc)
  | opaque (txt : String)
  deriving DecidableEq, Repr, Inhabited

/-- What `Sort` calls: `<column>.Comparable(reverse, equalNull, nullLast)` and `Sorter.Sort()` on an index array with the
comparables (`none`: no value). -/
structure Prims (κ : Type) where
  comparable : LCol → Bool → Bool → Bool → κ
  sort : List Nat → List κ → Option (List Nat)

structure SSt (κ : Type) where
  cmps : Option (List κ) := none
  /-- what the receiver's index array holds -/
  recvIx : List Nat
  /-- the array `Int.Copy` made -/
  fresh : Option (List Nat) := none
  /-- the index array of `newDf` -/
  newDf : Option IxRef := none
  sorter : Option (IxRef × List κ) := none
  /-- the call of `Sort()`: the rows of the array before, the comparables -/
  call : Option (List Nat × List κ) := none

/-- The outcome of `Sort`: the frame returned, what the RECEIVER's index array holds afterwards, and what `Sorter.Sort()`
was called on (if it was). -/
structure SRes (κ : Type) where
  frame : Frame
  recvIndex : List Nat
  call : Option (List Nat × List κ)

def IxRef.get {κ : Type} (s : SSt κ) : IxRef → Option (List Nat)
  | .recv => some s.recvIx
  | .fresh => s.fresh

def Out.eval {κ : Type} (F : Frame) (s : SSt κ) : Out → Option (SRes κ)
  | .recv => some { frame := { F with index := s.recvIx }, recvIndex := s.recvIx, call := s.call }
  | .recvWithErr => some { frame := { F with index := s.recvIx, err := true }, recvIndex := s.recvIx, call := s.call }
  | .newFrame =>
    match s.newDf with
    | some r =>
      match r.get s with
      | some ix => some { frame := { F with index := ix }, recvIndex := s.recvIx, call := s.call }
      | none => none
    | none => none

/-- the array an index expression denotes (`recvIndexCopy` allocates it; a second copy has no meaning here) -/
def ISrc.eval {κ : Type} (s : SSt κ) : ISrc → Option (IxRef × SSt κ)
  | .recvIndex => some (.recv, s)
  | .recvIndexCopy =>
    match s.fresh with
    | none => some (.fresh, { s with fresh := some s.recvIx })
    | some _ => none
  | .newIndex => s.newDf.map fun r => (r, s)

/-- How a loop body ends. -/
inductive BOut (κ : Type) where
  /-- on to the next statement: the looked-up column (`none`: nothing looked up; `some none`: the zero value), the comparables -/
  | next (col : Option (Option LCol)) (cmps : List κ)
  | ret (o : Out)
  | stuck

def SB.run {κ : Type} (P : Prims κ) (F : Frame) (ord : Order) (col : Option (Option LCol)) (cmps : List κ) : SB → BOut κ
  | .lookup n =>
    match n.eval (some ord) none with
    | some nm => .next (some (F.find? nm)) cmps
    | none => .stuck
  | .ifMissing o =>
    match col with
    | some none => .ret o
    | some (some _) => .next col cmps
    | none => .stuck
  | .appendCmp r e n =>
    match col, r.eval none (some ord), e.eval none (some ord), n.eval none (some ord) with
    | some (some c), some rb, some eb, some nb => .next col (cmps ++ [P.comparable c rb eb nb])
    | _, _, _, _ => .stuck
  | .opaque _ => .stuck

def runSBody {κ : Type} (P : Prims κ) (F : Frame) (ord : Order) : List SB → Option (Option LCol) → List κ → BOut κ
  | [], col, cmps => .next col cmps
  | b :: bs, col, cmps =>
    match b.run P F ord col cmps with
    | .next col' cmps' => runSBody P F ord bs col' cmps'
    | r => r

/-- the loop over the orders: the comparables afterwards, or the early return -/
def runOrders {κ : Type} (P : Prims κ) (F : Frame) (body : List SB) : List Order → List κ → BOut κ
  | [], cmps => .next none cmps
  | o :: os, cmps =>
    match runSBody P F o body none cmps with
    | .next _ cmps' => runOrders P F body os cmps'
    | r => r

/-- `none`: no meaning, or a run-time panic. -/
def SO.run {κ : Type} (P : Prims κ) (F : Frame) (os : List Order) : SO → SSt κ → Option (SRes κ)
  | .ifRecvErr o k, s => if F.err then o.eval F s else k.run P F os s
  | .ifNoOrders o k, s => if os.isEmpty then o.eval F s else k.run P F os s
  | .makeCmps k, s => k.run P F os { s with cmps := some [] }
  | .forOrders body k, s =>
    match s.cmps with
    | some cs =>
      match runOrders P F body os cs with
      | .next _ cs' => k.run P F os { s with cmps := some cs' }
      | .ret o => o.eval F s
      | .stuck => none
    | none => none
  | .withIndex ix k, s =>
    match ix.eval s with
    | some (r, s') => k.run P F os { s' with newDf := some r }
    | none => none
  | .newSorter ix k, s =>
    match ix.eval s, s.cmps with
    | some (r, s'), some cs => k.run P F os { s' with sorter := some (r, cs) }
    | _, _ => none
  | .sort k, s =>
    match s.sorter with
    | some (r, cs) =>
      match r.get s with
      | some rows =>
        match P.sort rows cs with
        | some sorted =>
          match r with
          | .recv => k.run P F os { s with recvIx := sorted, call := some (rows, cs) }
          | .fresh => k.run P F os { s with fresh := some sorted, call := some (rows, cs) }
        | none => none
      | none => none
    | none => none
  | .ret o, s => o.eval F s
  | .opaque _, _ => none

def SB.hasOpaque : SB → Bool
  | .opaque _ => true
  | _ => false

def SO.hasOpaque : SO → Bool
  | .opaque _ => true
  | .ifRecvErr _ k | .ifNoOrders _ k | .makeCmps k | .withIndex _ k | .newSorter _ k | .sort k => k.hasOpaque
  | .forOrders b k => b.any SB.hasOpaque || k.hasOpaque
  | .ret _ => false

def SN.hasOpaque : SN → Bool
  | .opaque _ => true
  | _ => false

/-! ## The helpers `comparables` and `orders` -/

/-- The statements of the loop body of `comparables`. -/
inductive CB where
  /-- `col := qf.<name map>[<n>]` -/
  | bindCol (n : NSrc)
  /-- `if dt := col.DataType(); dt == <t₁> || … { <the bool parameter> = <b> }` -/
  | setParamIfType (tys : List CType) (b : Bool)
  /-- `result = append(result, <column>.Comparable(<rev>, <eqNull>, <nullLast>))` where `<column>` is `qf.<name map>[<n>]`
  (`some n`) or the column bound before (`none`) -/
  | append (n : Option NSrc) (rev eqNull nullLast : BSrc)
  | opaque (txt : String)
  deriving DecidableEq, Repr, Inhabited

/-- The slice whose length bounds the loop. -/
inductive LSrc where
  | columns | orders
  deriving DecidableEq, Repr, Inhabited

inductive CH where
  /-- `result := make([]column.Comparable, 0, …); for i := 0; i < len(<bound>); i++ { body }; return result` -/
  | forLen (bound : LSrc) (body : List CB)
  | opaque (txt : String)
  deriving DecidableEq, Repr, Inhabited

structure CSt (κ : Type) where
  flag : Bool
  col : Option (Option LCol) := none
  res : List κ := []

def CB.run {κ : Type} (comparable : LCol → Bool → Bool → Bool → κ) (F : Frame) (ord : Option Order) (colName : Option Bytes) :
    CB → CSt κ → Option (CSt κ)
  | .bindCol n, s =>
    match n.eval ord colName with
    | some nm => some { s with col := some (F.find? nm) }
    | none => none
  | .setParamIfType tys b, s =>
    match s.col with
    | some (some c) => some (if tys.contains c.ty then { s with flag := b } else s)
    | _ => none
  | .append n r e nl, s =>
    let col : Option (Option LCol) :=
      match n with
      | some n => (n.eval ord colName).map F.find?
      | none => s.col
    match col, r.eval (some s.flag) ord, e.eval (some s.flag) ord, nl.eval (some s.flag) ord with
    | some (some c), some rb, some eb, some nb => some { s with res := s.res ++ [comparable c rb eb nb] }
    | _, _, _, _ => none
  | .opaque _, _ => none

def runCBody {κ : Type} (comparable : LCol → Bool → Bool → Bool → κ) (F : Frame) (ord : Option Order) (colName : Option Bytes) :
    List CB → CSt κ → Option (CSt κ)
  | [], s => some s
  | b :: bs, s =>
    match b.run comparable F ord colName s with
    | some s' => runCBody comparable F ord colName bs s'
    | none => none

/-- the rounds `i = from, from+1, …` (`n` of them) -/
def runRounds {κ : Type} (comparable : LCol → Bool → Bool → Bool → κ) (F : Frame) (columns : List Bytes) (orders : List Order)
    (body : List CB) : Nat → Nat → CSt κ → Option (CSt κ)
  | 0, _, s => some s
  | n + 1, i, s =>
    match runCBody comparable F orders[i]? columns[i]? body { s with col := none } with
    | some s' => runRounds comparable F columns orders body n (i + 1) s'
    | none => none

/-- `qf.comparables(columns, orders, flag)`; `none`: no meaning, or a run-time panic (index out of range, a method of a
nil `Column`). -/
def CH.run {κ : Type} (comparable : LCol → Bool → Bool → Bool → κ) (F : Frame) (columns : List Bytes) (orders : List Order)
    (flag : Bool) : CH → Option (List κ)
  | .forLen bound body =>
    let n := match bound with
      | .columns => columns.length
      | .orders => orders.length
    (runRounds comparable F columns orders body n 0 { flag := flag }).map (·.res)
  | .opaque _ => none

/-- `qf.orders(columns)`. -/
inductive OH where
  /-- `orders := make([]Order, len(columns)); for i, col := range columns { orders[i] = Order{<Column>: col, <Reverse>: <rev>,
  <NullLast>: <nullLast>} }; return orders` (a field that is left out is `false`) -/
  | perColumn (rev nullLast : Bool)
  | opaque (txt : String)
  deriving DecidableEq, Repr, Inhabited

def OH.run (columns : List Bytes) : OH → Option (List Order)
  | .perColumn r n => some (columns.map fun c => { col := c, reverse := r, nullLast := n })
  | .opaque _ => none

def CB.hasOpaque : CB → Bool
  | .opaque _ => true
  | _ => false

def CH.hasOpaque : CH → Bool
  | .opaque _ => true
  | .forLen _ b => b.any CB.hasOpaque

def OH.hasOpaque : OH → Bool
  | .opaque _ => true
  | _ => false

/-! ## `apply1` / `apply2` -/

/-- What `Column.Apply1` hands back (an `interface{}`). -/
inductive AVal where
  /-- a `[]int`, `[]float64`, `[]bool`, `[]*string`: the elements as cells (what the observation functions see; the glue looks
  only at the type of the slice, so the element representation is the one of the loop terms, `QF.LOutcome.arr`) -/
  | ints (l : List Cell)
  | floats (l : List Cell)
  | bools (l : List Cell)
  | strs (l : List Cell)
  | col (c : LCol)
  /-- a value of any other type -/
  | other
  deriving Repr, Inhabited

/-- The cases of the type switch. -/
inductive STy where
  /-- `[]int`, `[]float64`, `[]bool`, `[]*string`, `column.Column` -/
  | ints | floats | bools | strs | column
  deriving DecidableEq, Repr, Inhabited

def AVal.sty : AVal → Option STy
  | .ints _ => some .ints
  | .floats _ => some .floats
  | .bools _ => some .bools
  | .strs _ => some .strs
  | .col _ => some .column
  | .other => none

/-- A looked-up column: the first / the second look-up. -/
inductive Slot where
  | a | b
  deriving DecidableEq, Repr, Inhabited

/-- The string parameters, by position after the function: the destination, the first and the second source. -/
inductive AName where
  | dst | src1 | src2
  deriving DecidableEq, Repr, Inhabited

/-- What a case of the switch assigns to the result column. -/
inductive WRes where
  /-- `<package of that type>.New(t)` -/
  | newOf (t : CType)
  /-- the value itself -/
  | itself
  /-- the `Column` of a looked-up column -/
  | slot (s : Slot)
  deriving DecidableEq, Repr, Inhabited

inductive AOut where
  | recv
  | recvWithErr
  deriving DecidableEq, Repr, Inhabited

/-- The index argument. -/
inductive AIx where
  /-- `qf.<index>` -/
  | recvIndex
  /-- `qf.<index>[:0]` -/
  | empty
  deriving DecidableEq, Repr, Inhabited

/-- The column handed to `setColumn`. -/
inductive RSrc where
  /-- the result column of the type switch -/
  | wrapped
  /-- the column `Apply2` returned -/
  | result
  | slot (s : Slot)
  deriving DecidableEq, Repr, Inhabited

/-- `apply1` / `apply2`, statement by statement (`x := nc.Column` is followed through). -/
inductive AP where
  /-- `if qf.Err != nil { return <o> }` -/
  | ifRecvErr (o : AOut) (k : AP)
  /-- `nc, ok := qf.<name map>[<n>]` -/
  | lookup (s : Slot) (n : AName) (k : AP)
  /-- `if !ok { return <o> }` (`ok` of the look-up into `s`) -/
  | ifMissing (s : Slot) (o : AOut) (k : AP)
  /-- `res, err := <recv>.Column.Apply1(fn, <ix>)` -/
  | apply1 (recv : Slot) (ix : AIx) (k : AP)
  /-- `res, err := <recv>.Column.Apply2(fn, <other>.Column, <ix>)` -/
  | apply2 (recv other : Slot) (ix : AIx) (k : AP)
  /-- `if err != nil { return <o> }` -/
  | ifErr (o : AOut) (k : AP)
  /-- `var c column.Column; switch t := res.(type) { case T: c = …; …; default: return <dflt> }` -/
  | wrap (cases : List (STy × WRes)) (dflt : AOut) (k : AP)
  /-- `return qf.<setColumn>(<n>, <v>)` -/
  | retSet (n : AName) (v : RSrc)
  | ret (o : AOut)
  | opaque (txt : String)
  deriving DecidableEq, Repr, Inhabited

/-- What `apply1` / `apply2` call (`φ`: the function argument). `none` of `apply1` / `apply2`: an error. -/
structure APrims (φ : Type) where
  apply1 : LCol → φ → List Nat → Option AVal
  apply2 : LCol → φ → LCol → List Nat → Option LCol
  /-- `icolumn.New`, `fcolumn.New`, `bcolumn.New`, `scolumn.New` on the slice (called only on a slice of that type) -/
  newCol : CType → AVal → LCol
  setColumn : Frame → Bytes → LCol → Frame

structure ASt where
  a : Option (Option LCol) := none
  b : Option (Option LCol) := none
  /-- the last look-up -/
  last : Option Slot := none
  /-- `err != nil` after the call (`none`: no call yet) -/
  failed : Option Bool := none
  res1 : Option AVal := none
  res2 : Option LCol := none
  wrapped : Option LCol := none

def ASt.slot (s : ASt) : Slot → Option (Option LCol)
  | .a => s.a
  | .b => s.b

def AOut.eval (F : Frame) : AOut → Frame
  | .recv => F
  | .recvWithErr => { F with err := true }

def AIx.eval (F : Frame) : AIx → List Nat
  | .recvIndex => F.index
  | .empty => []

/-- the strings of a call: destination, first source, second source -/
structure ANames where
  dst : Bytes
  src1 : Bytes
  src2 : Bytes := []

def AName.eval (N : ANames) : AName → Bytes
  | .dst => N.dst
  | .src1 => N.src1
  | .src2 => N.src2

def WRes.eval {φ : Type} (P : APrims φ) (s : ASt) (v : AVal) : WRes → Option LCol
  | .newOf t => some (P.newCol t v)
  | .itself => match v with | .col c => some c | _ => none
  | .slot sl => match s.slot sl with | some (some c) => some c | _ => none

/-- `none`: no meaning, or a run-time panic (a method of a nil `Column`). -/
def AP.run {φ : Type} (P : APrims φ) (F : Frame) (fn : φ) (N : ANames) : AP → ASt → Option Frame
  | .ifRecvErr o k, s => if F.err then some (o.eval F) else k.run P F fn N s
  | .lookup sl n k, s =>
    match sl with
    | .a => k.run P F fn N { s with a := some (F.find? (n.eval N)), last := some .a }
    | .b => k.run P F fn N { s with b := some (F.find? (n.eval N)), last := some .b }
  | .ifMissing sl o k, s =>
    if s.last = some sl then
      match s.slot sl with
      | some none => some (o.eval F)
      | some (some _) => k.run P F fn N s
      | none => none
    else none
  | .apply1 r ix k, s =>
    match s.slot r with
    | some (some c) =>
      match P.apply1 c fn (ix.eval F) with
      | some v => k.run P F fn N { s with failed := some false, res1 := some v }
      | none => k.run P F fn N { s with failed := some true, res1 := none }
    | _ => none
  | .apply2 r o ix k, s =>
    match s.slot r, s.slot o with
    | some (some c), some oc =>
      match oc with
      | some c2 =>
        match P.apply2 c fn c2 (ix.eval F) with
        | some v => k.run P F fn N { s with failed := some false, res2 := some v }
        | none => k.run P F fn N { s with failed := some true, res2 := none }
      | none => none
    | _, _ => none
  | .ifErr o k, s =>
    match s.failed with
    | some true => some (o.eval F)
    | some false => k.run P F fn N s
    | none => none
  | .wrap cases dflt k, s =>
    match s.res1 with
    | some v =>
      match v.sty.bind (fun t => List.lookup t cases) with
      | some w =>
        match w.eval P s v with
        | some c => k.run P F fn N { s with wrapped := some c }
        | none => none
      | none => some (dflt.eval F)
    | none => none
  | .retSet n v, s =>
    let c : Option LCol := match v with
      | .wrapped => s.wrapped
      | .result => s.res2
      | .slot sl => (s.slot sl).bind id
    c.map (P.setColumn F (n.eval N))
  | .ret o, _ => some (o.eval F)
  | .opaque _, _ => none

def AP.hasOpaque : AP → Bool
  | .opaque _ => true
  | .ifRecvErr _ k | .lookup _ _ k | .ifMissing _ _ k | .apply1 _ _ k | .apply2 _ _ _ k | .ifErr _ k | .wrap _ _ k => k.hasOpaque
  | .retSet _ _ | .ret _ => false

/-! ## The error returns of `createColumn` -/

/-- An argument of a format string. -/
inductive EArg where
  /-- the `string` parameter (the column's name) -/
  | name
  /-- the count of the constant column -/
  | count
  /-- `reflect.TypeOf(<the data>)` -/
  | typeOfData
  deriving DecidableEq, Repr, Inhabited

/-- A piece of a format string: literal text, or a verb (`%s`, `%d`, `%v`) with the argument it consumes. -/
inductive EPiece where
  | lit (s : String)
  | arg (verb : String) (a : EArg)
  deriving DecidableEq, Repr, Inhabited

/-- A text: a literal, or `fmt.Sprintf(format, args…)` (also the `reason, params…` of `qerrors.New`), the format string cut
at its verbs. -/
abbrev EMsg := List EPiece

/-- The error value a `return nil, <e>` hands back. -/
inductive EV where
  /-- `qerrors.New(<operation>, <reason>, <params>…)` -/
  | new (operation : String) (reason : EMsg)
  /-- `qerrors.Propagate(<operation>, err)` for the `err` the callee returned -/
  | propagate (operation : EMsg)
  /-- `err` as the callee returned it -/
  | bare
  /-- `nil` -/
  | nil
  | opaque (txt : String)
  deriving DecidableEq, Repr, Inhabited

/-- Where in `createColumn` an error is returned. -/
inductive ESite where
  /-- `if count, ok := constCount(data); ok && count < 0 { … }` -/
  | negativeCount
  /-- `localS, err = ecolumn.New(t, values); if err != nil { … }` in the case `[]*string` -/
  | enumCells
  /-- `localS, err = ecolumn.NewConst(…); if err != nil { … }` in the case of the constant string -/
  | enumConst
  /-- the `default` of the type switch -/
  | unknownType
  | other (txt : String)
  deriving DecidableEq, Repr, Inhabited

/-- A `qerrors.Error` (operation, reason, source) or an error of another kind. -/
inductive ErrV where
  | qerr (operation reason : String) (source : Option ErrV)
  | ext (text : String)
  deriving Repr, Inhabited

/-- `Error()` -/
def ErrV.text : ErrV → String
  | .ext t => t
  | .qerr op reason none => if reason = "" then op else op ++ ": " ++ reason
  | .qerr op reason (some s) => (if reason = "" then op else op ++ ": " ++ reason) ++ " (" ++ s.text ++ ")"

structure EEnv where
  name : String
  count : Int := 0
  typeName : String := ""

def EArg.eval (E : EEnv) : EArg → String
  | .name => E.name
  | .count => toString E.count
  | .typeOfData => E.typeName

def EPiece.eval (E : EEnv) : EPiece → String
  | .lit s => s
  | .arg _ a => a.eval E

/-- the text `fmt.Sprintf` makes: the pieces left to right (the extractor admits `%s` / `%v` for the name and the type, `%d` /
`%v` for the count, where the verb prints the plain value) -/
def EMsg.eval (E : EEnv) : EMsg → String
  | [] => ""
  | p :: ps => p.eval E ++ EMsg.eval E ps

/-- the error returned, given the error `cause` the callee returned (if one was called); the outer `none`: no meaning,
the inner: `nil` -/
def EV.eval (E : EEnv) (cause : Option ErrV) : EV → Option (Option ErrV)
  | .new op reason => some (some (.qerr op (EMsg.eval E reason) none))
  | .propagate op =>
    match cause with
    | some c => some (some (.qerr (EMsg.eval E op) "" (some c)))
    | none => none
  | .bare => cause.map some
  | .nil => some none
  | .opaque _ => none

def EV.hasOpaque : EV → Bool
  | .opaque _ => true
  | _ => false

def ESite.isOther : ESite → Bool
  | .other _ => true
  | _ => false

/-! ## `ReadSQLWithArgs` -/

/-- The error field of the frame literal returned on a failure. -/
inductive RErr where
  /-- `QFrame{Err: err}` for the `err` of the call in front -/
  | callErr
  /-- `QFrame{}` -/
  | none
  deriving DecidableEq, Repr, Inhabited

inductive RS where
  /-- `conf := qsql.NewConfig(confFuncs)` -/
  | newConfig (k : RS)
  /-- `stmt, err := tx.Prepare(conf.<Query>)` -/
  | prepare (k : RS)
  /-- `if err != nil { return <e> }` -/
  | ifErr (e : RErr) (k : RS)
  /-- `defer stmt.Close()` -/
  | deferClose (k : RS)
  /-- `rows, err := stmt.Query(queryArgs...)` (`allArgs = false`: `queryArgs[:0]...`) -/
  | query (allArgs : Bool) (k : RS)
  /-- `data, columns, err := qfsqlio.ReadSQL(rows, qfsqlio.SQLConfig(conf))` -/
  | readSql (k : RS)
  /-- `return New(data, newqf.ColumnOrder(columns...))` (`withOrder = false`: no column order given) -/
  | retNew (withOrder : Bool)
  | opaque (txt : String)
  deriving DecidableEq, Repr, Inhabited

/-- The database and the callees, scripted: `α` the query arguments, `ρ` the rows, `δ` the data map, `χ` the configuration. -/
structure REnv (α ρ δ χ : Type) where
  cfg : χ
  /-- `conf.Query` -/
  queryText : χ → Bytes
  /-- does `tx.Prepare(text)` succeed? -/
  prepare : Bytes → Bool
  /-- `stmt.Query(args...)` of the statement prepared from the text (`none`: an error) -/
  query : Bytes → List α → Option ρ
  /-- `qfsqlio.ReadSQL(rows, conf)` (`none`: an error) -/
  readSql : ρ → χ → Option (δ × List Bytes)
  /-- `New(data, ColumnOrder(columns...))` / `New(data)` -/
  new : δ → Option (List Bytes) → Frame

/-- What a caller of `ReadSQLWithArgs` and the driver see. -/
structure RRes where
  frame : Frame
  /-- the text `Prepare` was called with -/
  prepared : Option Bytes
  /-- a statement was prepared and `Close()` is run on it when the function returns -/
  closed : Bool
  deriving Repr, Inhabited

structure RSt (ρ δ : Type) where
  cfg : Bool := false
  prepared : Option Bytes := none
  stmt : Bool := false
  closeDeferred : Bool := false
  failed : Option Bool := none
  rows : Option ρ := none
  data : Option (δ × List Bytes) := none

def RSt.res {ρ δ : Type} (s : RSt ρ δ) (f : Frame) : RRes := { frame := f, prepared := s.prepared, closed := s.closeDeferred }

def RS.run {α ρ δ χ : Type} (E : REnv α ρ δ χ) (args : List α) : RS → RSt ρ δ → Option RRes
  | .newConfig k, s => k.run E args { s with cfg := true }
  | .prepare k, s =>
    if s.cfg then
      let t := E.queryText E.cfg
      if E.prepare t then k.run E args { s with prepared := some t, stmt := true, failed := some false }
      else k.run E args { s with prepared := some t, stmt := false, failed := some true }
    else none
  | .ifErr e k, s =>
    match s.failed with
    | some true =>
      match e with
      | .callErr => some (s.res { cols := [], index := [], err := true })
      | .none => some (s.res { cols := [], index := [], err := false })
    | some false => k.run E args s
    | none => none
  | .deferClose k, s => if s.stmt then k.run E args { s with closeDeferred := true } else none
  | .query all k, s =>
    match s.stmt, s.prepared with
    | true, some t =>
      match E.query t (if all then args else []) with
      | some r => k.run E args { s with rows := some r, failed := some false }
      | none => k.run E args { s with rows := none, failed := some true }
    | _, _ => none
  | .readSql k, s =>
    match s.rows with
    | some r =>
      if s.cfg then
        match E.readSql r E.cfg with
        | some d => k.run E args { s with data := some d, failed := some false }
        | none => k.run E args { s with data := none, failed := some true }
      else none
    | none => none
  | .retNew withOrder, s =>
    match s.data with
    | some (d, cols) => some (s.res (E.new d (if withOrder then some cols else none)))
    | none => none
  | .opaque _, _ => none

def RS.hasOpaque : RS → Bool
  | .opaque _ => true
  | .newConfig k | .prepare k | .ifErr _ k | .deferClose k | .query _ k | .readSql k => k.hasOpaque
  | .retNew _ => false

end QF.SG
