import QF.Spec.Sql
import QF.Core.WExpr
import QF.Core.VwExpr
/-!
# SqB / SqAB / SqCN / SqT — the WRITE SIDE OF SQL as small programs, and their Go semantics

    func escape(s string, char rune, buf *bytes.Buffer)                         (internal/io/sql/stmt.go)   → SqB
    func Insert(colNames []string, conf SQLConfig) string                       (internal/io/sql/stmt.go)   → SqB
    func NewArgBuilder(col column.Column) (ArgBuilder, error)                   (internal/io/sql/types.go)  → SqAB per package
    func (qf QFrame) ColumnNames() []string                                     (qframe.go)                 → SqCN
    func (qf QFrame) ColumnTypes() []types.DataType                             (qframe.go)                 → SqCT
    func (qf QFrame) ToSQL(tx *sql.Tx, confFuncs ...qsql.ConfigFunc) error      (qframe.go)                 → SqT

The extractor (go/cmd/extract/sqlwast.go) walks the bodies of these functions of /repo's current source and writes what it
finds to `QF/Gen/SqlWrite.lean` on every run.

Terms name things by ROLE, never by identifier: "the buffer" (the one `*bytes.Buffer`), "the names" (the `[]string`
parameter of `Insert`), "the configuration" (its struct parameter: fields `Table`, `EscapeChar`, `Incrementing`), "the
position / the element of the loop over the names", "the string / rune parameter" of the escaping helper; in `ToSQL` "the
builders" (the slice filled by the loop over the frame's columns), "the arguments" (the `[]interface{}` handed to `Exec`),
"the position of the loop over the frame's index". Anything else is `.opaque`.

Programs are written in continuation style (as in WExpr.lean): every statement carries the statements that follow it;
`done` ends a block.

The semantics follow Go: `none` is "no meaning" (opaque code, a role that is not available) or a run-time panic (index out
of range, a nil builder called). `(*bytes.Buffer).WriteRune` writes the UTF-8 encoding of a valid Unicode scalar value and
U+FFFD for anything else (`goRuneBytes`); `fmt.Sprintf("$%d", n)` writes `$` and the decimal text of `n`. What
`qsql.NewConfig(confFuncs)` returns is a parameter (the configuration), so is the behaviour of `tx.Exec` (which call fails).
-/
namespace QF

/-- What `(*bytes.Buffer).WriteRune(r)` appends (`utf8.AppendRune`): surrogates and values above U+10FFFF are written as
U+FFFD. -/
def goRuneBytes (r : Nat) : Bytes :=
  if r < 0xD800 || (0xE000 ≤ r && r < 0x110000) then Json.encodeRune r else [0xEF, 0xBF, 0xBD]

/-! ## (A) `escape` and `Insert`: buffer programs -/

/-- A rune. -/
inductive SqRune where
  /-- the rune parameter of the escaping helper -/
  | charParam
  /-- `conf.EscapeChar` -/
  | confEscape
  | lit (n : Nat)
  | opaque (txt : String)
  deriving DecidableEq, Repr, Inhabited

/-- A string. -/
inductive SqSrc where
  | lit (b : Bytes)
  /-- `conf.Table` -/
  | table
  /-- the element of the loop over the names at the current position (the range value, or `names[i]`) -/
  | name
  /-- the string parameter of the escaping helper -/
  | strParam
  /-- `fmt.Sprintf("$%d", i+off)` for the position `i` of the loop over the names -/
  | dollar (off : Nat)
  | opaque (txt : String)
  deriving DecidableEq, Repr, Inhabited

/-- The statements of `escape` / `Insert`. -/
inductive SqB where
  /-- `buf := bytes.NewBuffer(nil)` -/
  | newBuf (k : SqB)
  /-- `buf.WriteString(s)` -/
  | writeStr (s : SqSrc) (k : SqB)
  /-- `buf.WriteRune(r)` -/
  | writeRune (r : SqRune) (k : SqB)
  /-- `escape(s, r, buf)`: the escaping helper on the buffer -/
  | callEscape (s : SqSrc) (r : SqRune) (k : SqB)
  /-- `if r == 0 { t }` -/
  | ifRuneZero (r : SqRune) (t k : SqB)
  /-- `for i, name := range names { body }` / `for i := range names { body }` -/
  | forNames (body k : SqB)
  /-- `if conf.Incrementing { t } else { e }` -/
  | ifIncr (t e k : SqB)
  /-- `if i+off < len(names) { t }` for the position `i` of the loop over the names -/
  | ifBefore (off : Nat) (t k : SqB)
  /-- `return buf.String()` -/
  | retString
  /-- `return` (the helper has no result) -/
  | ret
  | done
  | opaque (txt : String)
  deriving DecidableEq, Repr, Inhabited

structure SqBEnv where
  /-- the configuration parameter (`none`: the function has none) -/
  cfg : Option SqlCfg := none
  names : List Bytes := []
  strParam : Option Bytes := none
  charParam : Option Nat := none
  /-- `escape(s, char, buf)`: the contents of the buffer afterwards -/
  esc : Bytes → Nat → Bytes → Option Bytes

structure SqBSt where
  /-- the contents of the buffer; `none`: there is no buffer (yet) -/
  buf : Option Bytes := none
  ret : Bool := false
  /-- the string returned -/
  out : Option Bytes := none
  deriving DecidableEq, Repr

def SqRune.eval (E : SqBEnv) : SqRune → Option Nat
  | .charParam => E.charParam
  | .confEscape => E.cfg.map (·.escape)
  | .lit n => some n
  | .opaque _ => none

/-- `c`: the position and the element of the loop over the names -/
def SqSrc.eval (E : SqBEnv) (c : Option (Nat × Bytes)) : SqSrc → Option Bytes
  | .lit b => some b
  | .table => E.cfg.map (·.table)
  | .name => c.map (·.2)
  | .strParam => E.strParam
  | .dollar off => c.map (fun p => [36] ++ strBytes (toString (p.1 + off)))
  | .opaque _ => none

def SqB.run (E : SqBEnv) : SqB → Option (Nat × Bytes) → SqBSt → Option SqBSt
  | .newBuf k, c, σ => k.run E c { σ with buf := some [] }
  | .writeStr s k, c, σ =>
    match σ.buf, s.eval E c with
    | some b, some x => k.run E c { σ with buf := some (b ++ x) }
    | _, _ => none
  | .writeRune r k, c, σ =>
    match σ.buf, r.eval E with
    | some b, some x => k.run E c { σ with buf := some (b ++ goRuneBytes x) }
    | _, _ => none
  | .callEscape s r k, c, σ =>
    match σ.buf, s.eval E c, r.eval E with
    | some b, some x, some ch =>
      match E.esc x ch b with
      | some b' => k.run E c { σ with buf := some b' }
      | none => none
    | _, _, _ => none
  | .ifRuneZero r t k, c, σ =>
    match r.eval E with
    | some ch =>
      if ch = 0 then
        match t.run E c σ with
        | some σ' => if σ'.ret then some σ' else k.run E c σ'
        | none => none
      else k.run E c σ
    | none => none
  | .forNames body k, c, σ =>
    match loopIdx (fun i n σ => body.run E (some (i, n)) σ) (fun σ => σ.ret) 0 E.names σ with
    | some σ' => if σ'.ret then some σ' else k.run E c σ'
    | none => none
  | .ifIncr t e k, c, σ =>
    match E.cfg with
    | some cfg =>
      match (if cfg.incrementing then t.run E c σ else e.run E c σ) with
      | some σ' => if σ'.ret then some σ' else k.run E c σ'
      | none => none
    | none => none
  | .ifBefore off t k, c, σ =>
    match c with
    | some (i, _) =>
      if i + off < E.names.length then
        match t.run E c σ with
        | some σ' => if σ'.ret then some σ' else k.run E c σ'
        | none => none
      else k.run E c σ
    | none => none
  | .retString, _, σ => σ.buf.map (fun b => { σ with ret := true, out := some b })
  | .ret, _, σ => some { σ with ret := true }
  | .done, _, σ => some σ
  | .opaque _, _, _ => none

/-- The program `p` as the escaping helper: what is in the buffer after `p(s, ch, buf)` (returning and falling off the end
are the same for a function without results). -/
def SqB.asEscape (p : SqB) (s : Bytes) (ch : Nat) (buf : Bytes) : Option Bytes :=
  (p.run { strParam := some s, charParam := some ch, esc := fun _ _ _ => none } none { buf := some buf }).bind (·.buf)

/-- The program `p` as `Insert(names, conf)` with the helper `esc`: the string returned. -/
def SqB.asInsert (p esc : SqB) (cfg : SqlCfg) (names : List Bytes) : Option Bytes :=
  (p.run { cfg := some cfg, names := names, esc := esc.asEscape } none {}).bind (·.out)

def SqRune.hasOpaque : SqRune → Bool
  | .opaque _ => true
  | _ => false

def SqSrc.hasOpaque : SqSrc → Bool
  | .opaque _ => true
  | _ => false

def SqB.hasOpaque : SqB → Bool
  | .opaque _ => true
  | .newBuf k => k.hasOpaque
  | .writeStr s k => s.hasOpaque || k.hasOpaque
  | .writeRune r k => r.hasOpaque || k.hasOpaque
  | .callEscape s r k => s.hasOpaque || r.hasOpaque || k.hasOpaque
  | .ifRuneZero r t k => r.hasOpaque || t.hasOpaque || k.hasOpaque
  | .forNames t k | .ifBefore _ t k => t.hasOpaque || k.hasOpaque
  | .ifIncr t e k => t.hasOpaque || e.hasOpaque || k.hasOpaque
  | .retString | .ret | .done => false

/-! ## (B) `NewArgBuilder`: one builder per column type -/

/-- What a builder `func(ix index.Int, i int) interface{}` returns. -/
inductive SqItem where
  /-- `c.View(ix).ItemAt(i)` for the asserted column `c` and the two parameters of the closure, in this order -/
  | viewItemAt
  | opaque (txt : String)
  deriving DecidableEq, Repr, Inhabited

/-- A clause of the type switch of `NewArgBuilder` (or what follows the switch). -/
inductive SqAB where
  /-- `return func(ix index.Int, i int) interface{} { return e }, nil` -/
  | retBuilder (e : SqItem)
  /-- `return nil, <a non-nil error>` -/
  | retErr
  | opaque (txt : String)
  deriving DecidableEq, Repr, Inhabited

/-- a builder: index and position ↦ the argument -/
abbrev SqBuilder := List Nat → Nat → Option Cell

/-- `NewArgBuilder(col)` for a column of the package `pkg`: `clauses` are the `case <pkg>.Column:` clauses of the switch
on the dynamic type of `col` (import names resolved to the package), `dflt` what happens when none of them applies.
`itemAt` is the meaning of `c.View(ix).ItemAt(i)` in the column's package. `none`: no meaning; `some none`: `(nil, error)`. -/
def SqAB.build (clauses : List (String × SqAB)) (dflt : SqAB) (itemAt : VCol → SqBuilder) (pkg : String) (c : VCol) :
    Option (Option SqBuilder) :=
  match (clauses.lookup pkg).getD dflt with
  | .retBuilder .viewItemAt => some (some (itemAt c))
  | .retBuilder (.opaque _) => none
  | .retErr => some none
  | .opaque _ => none

def SqAB.hasOpaque : SqAB → Bool
  | .opaque _ | .retBuilder (.opaque _) => true
  | _ => false

/-! ## (C) `ColumnNames` -/

inductive SqCN where
  /-- `result := make([]string, len(qf.columns))` -/
  | alloc (k : SqCN)
  /-- `for i, s := range qf.columns { body }` -/
  | forCols (body k : SqCN)
  /-- `result[i] = <column>.name` for the position and the element of the loop -/
  | setName (k : SqCN)
  /-- `return result` -/
  | ret
  | done
  | opaque (txt : String)
  deriving DecidableEq, Repr, Inhabited

structure SqCNSt where
  res : Option (List Bytes) := none
  ret : Bool := false
  deriving DecidableEq, Repr

/-- `names`: the names of the frame's columns in order -/
def SqCN.run (names : List Bytes) : SqCN → Option (Nat × Bytes) → SqCNSt → Option SqCNSt
  | .alloc k, c, σ => k.run names c { σ with res := some (List.replicate names.length []) }
  | .forCols body k, c, σ =>
    match loopIdx (fun i n σ => body.run names (some (i, n)) σ) (fun σ => σ.ret) 0 names σ with
    | some σ' => if σ'.ret then some σ' else k.run names c σ'
    | none => none
  | .setName k, c, σ =>
    match c, σ.res with
    | some (i, n), some r => if i < r.length then k.run names c { σ with res := some (r.set i n) } else none
    | _, _ => none
  | .ret, _, σ => if σ.res.isSome then some { σ with ret := true } else none
  | .done, _, σ => some σ
  | .opaque _, _, _ => none

/-- what `qf.ColumnNames()` returns on a frame whose columns are called `names` -/
def SqCN.result (p : SqCN) (names : List Bytes) : Option (List Bytes) :=
  match p.run names none {} with
  | some σ => if σ.ret then σ.res else none
  | none => none

def SqCN.hasOpaque : SqCN → Bool
  | .opaque _ => true
  | .alloc k | .setName k => k.hasOpaque
  | .forCols t k => t.hasOpaque || k.hasOpaque
  | .ret | .done => false

/-! ## (C') `ColumnTypes` -/

/-- `func (qf QFrame) ColumnTypes() []types.DataType` (qframe.go), statement by statement. -/
inductive SqCT where
  /-- `types := make([]types.DataType, len(qf.columns))` -/
  | alloc (k : SqCT)
  /-- `for i, col := range qf.columns { body }` -/
  | forCols (body k : SqCT)
  /-- `types[i] = <column>.DataType()` for the position and the element of the loop -/
  | setType (k : SqCT)
  /-- `return types` -/
  | ret
  | done
  | opaque (txt : String)
  deriving DecidableEq, Repr, Inhabited

structure SqCTSt where
  res : Option (List Bytes) := none
  ret : Bool := false
  deriving DecidableEq, Repr

/-- `dts`: per column of the frame, in order, what its `DataType()` returns (`none`: no meaning); a fresh `[]types.DataType`
holds empty strings -/
def SqCT.run (dts : List (Option Bytes)) : SqCT → Option (Nat × Option Bytes) → SqCTSt → Option SqCTSt
  | .alloc k, c, σ => k.run dts c { σ with res := some (List.replicate dts.length []) }
  | .forCols body k, c, σ =>
    match loopIdx (fun i n σ => body.run dts (some (i, n)) σ) (fun σ => σ.ret) 0 dts σ with
    | some σ' => if σ'.ret then some σ' else k.run dts c σ'
    | none => none
  | .setType k, c, σ =>
    match c, σ.res with
    | some (i, some t), some r => if i < r.length then k.run dts c { σ with res := some (r.set i t) } else none
    | _, _ => none
  | .ret, _, σ => if σ.res.isSome then some { σ with ret := true } else none
  | .done, _, σ => some σ
  | .opaque _, _, _ => none

/-- what `qf.ColumnTypes()` returns on a frame whose columns answer `dts` to `DataType()` -/
def SqCT.result (p : SqCT) (dts : List (Option Bytes)) : Option (List Bytes) :=
  match p.run dts none {} with
  | some σ => if σ.ret then σ.res else none
  | none => none

def SqCT.hasOpaque : SqCT → Bool
  | .opaque _ => true
  | .alloc k | .setType k => k.hasOpaque
  | .forCols t k => t.hasOpaque || k.hasOpaque
  | .ret | .done => false

/-! ## (D) `ToSQL` -/

/-- The statement text handed to `Exec`. -/
inductive SqStmt where
  /-- `Insert(qf.ColumnNames(), SQLConfig(NewConfig(confFuncs)))` -/
  | insertOfNames
  | opaque (txt : String)
  deriving DecidableEq, Repr, Inhabited

/-- The statements of `ToSQL`. -/
inductive SqT where
  /-- `if qf.Err != nil { return <a non-nil error> }` -/
  | guardErr (k : SqT)
  /-- `builders := make([]ArgBuilder, len(qf.columns))` -/
  | allocBuilders (k : SqT)
  /-- `for i, column := range qf.columns { body }` -/
  | forCols (body k : SqT)
  /-- `builders[i], err = NewArgBuilder(<column>.Column); if err != nil { return <a non-nil error> }` -/
  | newBuilder (k : SqT)
  /-- `for i := range qf.index { body }` -/
  | forRows (body k : SqT)
  /-- `args := make([]interface{}, len(qf.columns))` -/
  | allocArgs (k : SqT)
  /-- `for j, b := range builders { body }` -/
  | forBuilders (body k : SqT)
  /-- `args[j] = b(qf.index, i)` for the element and the position of the loop over the builders and the position of the
  loop over the index -/
  | setArg (k : SqT)
  /-- `_, err = tx.Exec(s, args...); if err != nil { return <a non-nil error> }` -/
  | exec (s : SqStmt) (k : SqT)
  /-- `tx.Exec(s, args...)` with the results dropped: the call is made, its error is not looked at -/
  | execIgnore (s : SqStmt) (k : SqT)
  /-- `return nil` -/
  | retNil
  | done
  | opaque (txt : String)
  deriving DecidableEq, Repr, Inhabited

/-- How `ToSQL` has returned. -/
inductive SqRet where
  | nil
  /-- the frame carries an error -/
  | frameErr
  /-- `NewArgBuilder` returned an error -/
  | builderErr
  /-- an `Exec` returned an error -/
  | execErr
  deriving DecidableEq, Repr, Inhabited

structure SqTEnv where
  P : VFrame
  /-- `qf.Err != nil` -/
  hasErr : Bool
  /-- what `NewConfig(confFuncs)` returns -/
  cfg : SqlCfg
  /-- `qf.ColumnNames()` -/
  colNames : Option (List Bytes)
  /-- `Insert(names, conf)` -/
  insert : SqlCfg → List Bytes → Option Bytes
  /-- `NewArgBuilder(<column>.Column)` -/
  builder : VCol → Option (Option SqBuilder)
  /-- does `tx.Exec` number `k` (from 0) return an error? -/
  efail : Nat → Bool

structure SqTCtx where
  col : Option (Nat × VCol) := none
  row : Option Nat := none
  /-- position and element of the loop over the builders (`none` inside: a nil func) -/
  bld : Option (Nat × Option SqBuilder) := none

structure SqTSt where
  builders : Option (List (Option SqBuilder)) := none
  /-- `none` inside: a nil interface value (never assigned) -/
  args : Option (List (Option Cell)) := none
  /-- the `Exec` calls so far: statement text and arguments -/
  execs : List (Bytes × List Cell) := []
  ret : Option SqRet := none

def SqStmt.eval (E : SqTEnv) : SqStmt → Option Bytes
  | .insertOfNames => E.colNames.bind (E.insert E.cfg)
  | .opaque _ => none

def SqT.run (E : SqTEnv) : SqT → SqTCtx → SqTSt → Option SqTSt
  | .guardErr k, c, σ => if E.hasErr then some { σ with ret := some .frameErr } else k.run E c σ
  | .allocBuilders k, c, σ => k.run E c { σ with builders := some (List.replicate E.P.cols.length none) }
  | .forCols body k, c, σ =>
    match loopIdx (fun i col σ => body.run E { c with col := some (i, col) } σ) (fun σ => σ.ret.isSome) 0 E.P.cols σ with
    | some σ' => if σ'.ret.isSome then some σ' else k.run E c σ'
    | none => none
  | .newBuilder k, c, σ =>
    match c.col, σ.builders with
    | some (i, col), some bs =>
      if i < bs.length then
        match E.builder col with
        | some (some b) => k.run E c { σ with builders := some (bs.set i (some b)) }
        | some none => some { σ with ret := some .builderErr }
        | none => none
      else none
    | _, _ => none
  | .forRows body k, c, σ =>
    match loopIdx (fun _ i σ => body.run E { c with row := some i } σ) (fun σ => σ.ret.isSome) 0
        (List.range E.P.index.length) σ with
    | some σ' => if σ'.ret.isSome then some σ' else k.run E c σ'
    | none => none
  | .allocArgs k, c, σ => k.run E c { σ with args := some (List.replicate E.P.cols.length none) }
  | .forBuilders body k, c, σ =>
    match σ.builders with
    | some bs =>
      match loopIdx (fun j b σ => body.run E { c with bld := some (j, b) } σ) (fun σ => σ.ret.isSome) 0 bs σ with
      | some σ' => if σ'.ret.isSome then some σ' else k.run E c σ'
      | none => none
    | none => none
  | .setArg k, c, σ =>
    match c.bld, c.row, σ.args with
    | some (j, some b), some i, some as =>
      if j < as.length then
        match b E.P.index i with
        | some x => k.run E c { σ with args := some (as.set j (some x)) }
        | none => none
      else none
    | _, _, _ => none
  | .exec s k, c, σ =>
    match s.eval E, σ.args.bind (optMap id) with
    | some text, some as =>
      if E.efail σ.execs.length then some { σ with execs := σ.execs ++ [(text, as)], ret := some .execErr }
      else k.run E c { σ with execs := σ.execs ++ [(text, as)] }
    | _, _ => none
  | .execIgnore s k, c, σ =>
    match s.eval E, σ.args.bind (optMap id) with
    | some text, some as => k.run E c { σ with execs := σ.execs ++ [(text, as)] }
    | _, _ => none
  | .retNil, _, σ => some { σ with ret := some .nil }
  | .done, _, σ => some σ
  | .opaque _, _, _ => none

/-- What a caller of `ToSQL` (and the driver) sees: the `Exec` calls in order and how the call returned. -/
def SqT.output (E : SqTEnv) (p : SqT) : Option (List (Bytes × List Cell) × SqRet) :=
  match p.run E {} {} with
  | some σ => σ.ret.map (fun r => (σ.execs, r))
  | none => none

def SqStmt.hasOpaque : SqStmt → Bool
  | .opaque _ => true
  | _ => false

def SqT.hasOpaque : SqT → Bool
  | .opaque _ => true
  | .guardErr k | .allocBuilders k | .newBuilder k | .allocArgs k | .setArg k => k.hasOpaque
  | .forCols t k | .forRows t k | .forBuilders t k => t.hasOpaque || k.hasOpaque
  | .exec s k | .execIgnore s k => s.hasOpaque || k.hasOpaque
  | .retNil | .done => false

end QF
