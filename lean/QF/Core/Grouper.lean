/-! Prototype: mirror of internal/grouper/grouper.go (open addressing, linear probing, grow by rehash)
    and the abstract "list of groups" semantics it must refine. -/
namespace G

structure Entry where
  hash : Nat
  firstPos : Nat
  ix : List Nat          -- [] = nil (singleton kept in firstPos only)
deriving Repr, DecidableEq

structure Tbl where
  slots : Array (Option Entry)
  groupCount : Nat := 0
  lfNum : Nat := 0       -- loadFactor = lfNum / lfDen  (exact: den is a power of two)
  lfDen : Nat := 1
  insertCollisions : Nat := 0
  relocCount : Nat := 0
  relocCollisions : Nat := 0
deriving Repr

/-- constants extracted from the source: maxLoadFactor = maxNum/maxDen, growthFactor -/
structure Cfg where
  maxNum : Nat := 1
  maxDen : Nat := 2
  growth : Nat := 2

variable (cfg : Cfg) (hash : Nat → Nat) (eqv : Nat → Nat → Bool)

/-- first free slot from `pos`, at most `fuel` probes; counts collisions -/
def placeFrom (slots : Array (Option Entry)) (e : Entry) (fuel pos coll : Nat) : Option (Array (Option Entry) × Nat) :=
  match fuel with
  | 0 => none
  | fuel + 1 =>
    match slots[pos]? with
    | some none => some (slots.setIfInBounds pos (some e), coll)
    | some (some _) => placeFrom slots e fuel ((pos + 1) % slots.size) (coll + 1)
    | none => none

/-- the probes `grow` makes for an EMPTY old slot: the code relocates those as well (`for _, e := range t.entries` does not
test `e.occupied`): the zero entry has hash 0, so the walk starts at slot 0 and goes to the first free slot, which is
overwritten with the zero entry (no change). Only `RelocationCollisions` moves: one per occupied slot passed. -/
def skipFrom (slots : Array (Option Entry)) (fuel pos coll : Nat) : Option Nat :=
  match fuel with
  | 0 => none
  | fuel + 1 =>
    match slots[pos]? with
    | some none => some coll
    | some (some _) => skipFrom slots fuel ((pos + 1) % slots.size) (coll + 1)
    | none => none

def grow (t : Tbl) : Option Tbl :=
  let newLen := cfg.growth * t.slots.size
  let init : Option (Array (Option Entry) × Nat) := some (Array.replicate newLen none, t.relocCollisions)
  let r := t.slots.foldl (fun acc s =>
    match acc, s with
    | some (ns, c), some e => placeFrom ns e (newLen + 1) (e.hash % newLen) c
    | some (ns, c), none => (skipFrom ns (newLen + 1) (0 % newLen) c).map fun c' => (ns, c')
    | none, _ => none) init
  r.map fun (ns, c) => { t with slots := ns, relocCollisions := c, relocCount := t.relocCount + 1,
                                 lfDen := t.lfDen * cfg.growth }

/-- probe for row i: returns slot index and collisions -/
def probe (slots : Array (Option Entry)) (i h : Nat) (fuel pos coll : Nat) : Option (Nat × Nat) :=
  match fuel with
  | 0 => none          -- would loop forever in Go
  | fuel + 1 =>
    match slots[pos]? with
    | some none => some (pos, coll)
    | some (some e) => if e.hash == h && eqv i e.firstPos then some (pos, coll)
                       else probe slots i h fuel ((pos + 1) % slots.size) (coll + 1)
    | none => none

def growIfNeeded (t : Tbl) : Option Tbl :=
  if t.lfNum * cfg.maxDen > cfg.maxNum * t.lfDen then grow cfg t else some t

def insertNoGrow (t : Tbl) (i : Nat) (collect : Bool) : Option Tbl :=
  match probe eqv t.slots i (hash i % 2^32) (t.slots.size + 1) ((hash i % 2^32) % t.slots.size) 0 with
  | none => none
  | some (pos, coll) =>
    match t.slots[pos]? with
    | some none =>
      some { t with slots := t.slots.setIfInBounds pos (some { hash := hash i % 2^32, firstPos := i, ix := [] }),
                    groupCount := t.groupCount + 1, lfNum := t.groupCount + 1, lfDen := t.slots.size,
                    insertCollisions := t.insertCollisions + coll }
    | some (some e) =>
      if collect then
        some { t with slots := t.slots.setIfInBounds pos
                        (some (if e.ix.isEmpty then { e with ix := [e.firstPos, i] } else { e with ix := e.ix ++ [i] })),
                      insertCollisions := t.insertCollisions + coll }
      else some { t with insertCollisions := t.insertCollisions + coll }
    | none => none

def insertEntry (t : Tbl) (i : Nat) (collect : Bool) : Option Tbl :=
  (growIfNeeded cfg t).bind fun t => insertNoGrow hash eqv t i collect

def initialSizeExp (n : Nat) : Nat := max (if n / 4 = 0 then 0 else Nat.log2 (n / 4) + 1) 3

def groupIndex (ix : List Nat) (collect : Bool) : Option Tbl :=
  ix.foldlM (fun t i => insertEntry cfg hash eqv t i collect)
    { slots := Array.replicate (2 ^ initialSizeExp ix.length) none }

def groupBy (ix : List Nat) : Option (List (List Nat)) :=
  (groupIndex cfg hash eqv ix true).map fun t =>
    t.slots.toList.filterMap fun s => s.map fun e => if e.ix.isEmpty then [e.firstPos] else e.ix

def distinct (ix : List Nat) : Option (List Nat) :=
  (groupIndex cfg hash eqv ix false).map fun t => t.slots.toList.filterMap fun s => s.map (·.firstPos)

/-! abstract semantics: groups in creation order -/
def absInsert (gs : List (List Nat)) (i : Nat) : List (List Nat) :=
  match gs with
  | [] => [[i]]
  | g :: gs => if (match g.head? with | some f => eqv i f | none => false) then (g ++ [i]) :: gs
               else g :: absInsert gs i

def absGroups (ix : List Nat) : List (List Nat) := ix.foldl (absInsert eqv) []

-- smoke test against the Go run earlier: vals 3,1,3,2,1 hashes 8,8,8,16,8  → [[0 2] [1 4] [3]] stats {0 0 4 3 0.375}
def vals : Array Nat := #[3, 1, 3, 2, 1]
def hs : Array Nat := #[8, 8, 8, 16, 8]
#eval groupBy {} (fun i => hs[i]!) (fun i j => vals[i]! == vals[j]!) [0,1,2,3,4]
#eval (groupIndex {} (fun i => hs[i]!) (fun i j => vals[i]! == vals[j]!) [0,1,2,3,4] true).map
  fun t => (t.relocCount, t.relocCollisions, t.insertCollisions, t.groupCount, t.lfNum, t.lfDen)
#eval absGroups (fun i j => vals[i]! == vals[j]!) [0,1,2,3,4]
-- many keys to cross growth steps
#eval (groupIndex {} (fun i => i * 7919) (fun i j => i % 37 == j % 37) (List.range 200) true).map
  fun t => (t.slots.size, t.relocCount, t.groupCount)
end G
