/-! Prototype: frame core + Filter mirror (shared mask, OR batches, orFrames, Not) + spec + refinement. 
    Cells are abstracted: a leaf is a predicate on physical positions together with the kernel "shape"
    (guarded accumulate / overwrite), which is what the Gen kernel terms will provide per (type, comparator). -/
namespace F

abbrev Pos := Nat

/-- What a leaf kernel does to the mask, as extracted from the source. -/
inductive KShape
  | guarded            -- for i, x := range bIndex { if !x { bIndex[i] = p(index[i]) } }
  | setAll (b : Bool)  -- for i := range bIndex { bIndex[i] = b }   (int isnull / isnotnull, enum non-strict neq)
deriving DecidableEq, Repr

structure Leaf where
  shape : KShape
  pred  : Pos → Bool       -- the comparison on the cell at a physical position
  /-- inverse shortcut available? then its kernel -/
  inv   : Option (KShape × (Pos → Bool)) := none
  inverse : Bool := false  -- Filter.Inverse flag
  err   : Bool := false    -- argument/comparator decoding fails

inductive Clause
  | leaf (l : Leaf)
  | and (cs : List Clause)
  | or  (cs : List Clause)
  | not (c : Clause)
  | null

structure Frame where
  index : List Pos
  err   : Bool := false
deriving Repr, DecidableEq

def runKernel (sh : KShape) (p : Pos → Bool) : List Pos → List Bool → List Bool
  | i :: ix, b :: bs =>
      (match sh with
       | .guarded => if !b then p i else b
       | .setAll v => v) :: runKernel sh p ix bs
  | _, _ => []

def idxFilter : List Pos → List Bool → List Pos
  | i :: ix, b :: bs => if b then i :: idxFilter ix bs else idxFilter ix bs
  | _, _ => []

/-- one leaf inside QFrame.filter, including the inverse shortcut and the fallback -/
def leafStep (ix : List Pos) (mask : List Bool) (l : Leaf) : Option (List Bool) :=
  if l.err then none else
  if l.inverse then
    match l.inv with
    | some (sh, p) => some (runKernel sh p ix mask)
    | none =>
      let invMask := runKernel l.shape l.pred ix (List.replicate mask.length false)
      some (List.zipWith (fun x y => if !x then !y else x) mask invMask)
  else some (runKernel l.shape l.pred ix mask)

/-- QFrame.filter(filters...) -/
def filterLeaves (f : Frame) (ls : List Leaf) : Frame :=
  if f.err then f else
  match ls.foldlM (leafStep f.index) (List.replicate f.index.length false) with
  | none => { f with err := true }
  | some mask => { f with index := idxFilter f.index mask }

def orMerge : List Pos → List Pos → List Pos → List Pos
  | [], _, _ => []
  | x :: orig, l, r =>
    let hitL := l.head? == some x
    let hitR := r.head? == some x
    let l' := if hitL then l.tail else l
    let r' := if hitR then r.tail else r
    if hitL || hitR then x :: orMerge orig l' r' else orMerge orig l' r'

def orFrames (orig : Frame) (lhs : Option Frame) (rhs : Frame) : Frame :=
  match lhs with
  | none => rhs
  | some lhs => if lhs.err then lhs else if rhs.err then rhs else
      { orig with index := orMerge orig.index lhs.index rhs.index }

def notMerge : List Pos → List Pos → List Pos
  | [], _ => []
  | x :: orig, s => if s.head? == some x then notMerge orig s.tail else x :: notMerge orig s

def Clause.hasErr : Clause → Bool   -- c.Err(): constructors record "zero subclauses" / child errors
  | .leaf _ => false
  | .and cs => cs.isEmpty || cs.attach.any (fun ⟨c, _⟩ => c.hasErr)
  | .or cs => cs.isEmpty || cs.attach.any (fun ⟨c, _⟩ => c.hasErr)
  | .not c => c.hasErr
  | .null => false

mutual
def Clause.filter (c : Clause) (f : Frame) : Frame :=
  match c with
  | .leaf l => filterLeaves f [l]
  | .null => f
  | .and cs => if f.err then f else if (Clause.and cs).hasErr then { f with err := true } else andLoop cs f
  | .or cs => if f.err then f else if (Clause.or cs).hasErr then { f with err := true } else
      orLoop cs f [] none
  | .not c => if f.err then f else if c.hasErr then { f with err := true } else
      match c with
      | .leaf l => filterLeaves f [{ l with inverse := !l.inverse }]
      | c => let g := c.filter f
             if g.err then g else { f with index := notMerge f.index g.index }
def andLoop (cs : List Clause) (f : Frame) : Frame :=
  match cs with
  | [] => f
  | c :: cs => andLoop cs (c.filter f)
def orLoop (cs : List Clause) (f : Frame) (pending : List Leaf) (acc : Option Frame) : Frame :=
  match cs with
  | [] =>
    let acc := if pending.isEmpty then acc else some (orFrames f acc (filterLeaves f pending))
    acc.getD f
  | .leaf l :: cs => orLoop cs f (pending ++ [l]) acc
  | c :: cs =>
    let acc := if pending.isEmpty then acc else some (orFrames f acc (filterLeaves f pending))
    orLoop cs f [] (some (orFrames f acc (c.filter f)))
end

/-! ## Spec -/
def Leaf.sem (l : Leaf) (p : Pos) : Bool := if l.inverse then !l.pred p else l.pred p

def Clause.sem : Clause → Pos → Bool
  | .leaf l, p => l.sem p
  | .and cs, p => cs.attach.all (fun ⟨c, _⟩ => c.sem p)
  | .or cs, p => cs.attach.any (fun ⟨c, _⟩ => c.sem p)
  | .not c, p => !c.sem p
  | .null, _ => true

def Clause.wellTyped : Clause → Bool
  | .leaf l => !l.err
  | .and cs => !cs.isEmpty && cs.attach.all (fun ⟨c, _⟩ => c.wellTyped)
  | .or cs => !cs.isEmpty && cs.attach.all (fun ⟨c, _⟩ => c.wellTyped)
  | .not c => c.wellTyped
  | .null => true

/-- kernels are sound: what Gen-level lemmas establish per (type, comparator) -/
def Leaf.sound (l : Leaf) : Prop :=
  l.shape = .guarded ∧ (∀ sh p, l.inv = some (sh, p) → sh = .guarded ∧ ∀ x, p x = !l.pred x)

def Clause.sound : Clause → Prop
  | .leaf l => l.sound
  | .and cs => ∀ c ∈ cs, c.sound
  | .or cs => ∀ c ∈ cs, c.sound
  | .not c => c.sound
  | .null => True

-- smoke test incl. the int-isnull defect shape
def xs : List Nat := [10, 20, 30]   -- physical values by position 0,1,2 ↦ x = 1,2,3
def eq1 : Leaf := { shape := .guarded, pred := fun p => p == 0 }
def isnullInt : Leaf := { shape := .setAll false, pred := fun _ => false }
#eval ((Clause.or [.leaf eq1, .leaf isnullInt]).filter { index := [0,1,2] }).index   -- [] (defect)
#eval ((Clause.or [.leaf isnullInt, .leaf eq1]).filter { index := [0,1,2] }).index   -- [0]
#eval ((Clause.not (.and [.leaf eq1])).filter { index := [2,0,1] }).index            -- [2,1]

/-! ### mask algebra -/
theorem runKernel_guarded_map (p q : Pos → Bool) (ix : List Pos) :
    runKernel .guarded p ix (ix.map q) = ix.map (fun i => q i || p i) := by
  induction ix with
  | nil => simp [runKernel]
  | cons i ix ih => cases h : q i <;> simp [runKernel, ih, h]

theorem replicate_eq_map (ix : List Pos) : List.replicate ix.length false = ix.map (fun _ => false) := by
  induction ix with
  | nil => rfl
  | cons i ix ih => simp [List.replicate_succ, ih]

theorem idxFilter_map (q : Pos → Bool) (ix : List Pos) : idxFilter ix (ix.map q) = ix.filter q := by
  induction ix with
  | nil => simp [idxFilter]
  | cons i ix ih => cases h : q i <;> simp [idxFilter, ih, h]

theorem zipWith_fallback (q r : Pos → Bool) (ix : List Pos) :
    List.zipWith (fun x y => if !x then !y else x) (ix.map q) (ix.map r) = ix.map (fun i => q i || !r i) := by
  induction ix with
  | nil => simp
  | cons i ix ih =>
    cases h : q i <;> simp [h] <;> (intro a _; cases q a <;> simp)

theorem leafStep_spec (ix : List Pos) (q : Pos → Bool) (l : Leaf) (hs : l.sound) (he : l.err = false) :
    leafStep ix (ix.map q) l = some (ix.map (fun i => q i || l.sem i)) := by
  obtain ⟨hsh, hinv⟩ := hs
  unfold leafStep Leaf.sem
  simp only [he, Bool.false_eq_true, ↓reduceIte]
  cases hI : l.inverse
  · simp [hsh, runKernel_guarded_map]
  · simp only [↓reduceIte]
    cases hv : l.inv with
    | none =>
      simp only [List.length_map, hsh, replicate_eq_map, runKernel_guarded_map, Bool.false_or]
      rw [zipWith_fallback]
    | some sp =>
      obtain ⟨sh, p⟩ := sp
      obtain ⟨h1, h2⟩ := hinv sh p hv
      subst h1
      simp only [runKernel_guarded_map]
      congr 2; funext i; rw [h2]

theorem foldlM_leaves (ix : List Pos) (ls : List Leaf) (q : Pos → Bool)
    (hs : ∀ l ∈ ls, l.sound) (he : ∀ l ∈ ls, l.err = false) :
    ls.foldlM (leafStep ix) (ix.map q) = some (ix.map (fun i => q i || ls.any (·.sem i))) := by
  induction ls generalizing q with
  | nil => simp
  | cons l ls ih =>
    simp only [List.foldlM_cons]
    rw [leafStep_spec ix q l (hs l (by simp)) (he l (by simp))]
    simp only [Option.bind_eq_bind, Option.bind_some]
    rw [ih _ (fun l h => hs l (by simp [h])) (fun l h => he l (by simp [h]))]
    congr 2; funext i; simp [Bool.or_assoc]

theorem filterLeaves_spec (f : Frame) (ls : List Leaf) (hf : f.err = false)
    (hs : ∀ l ∈ ls, l.sound) (he : ∀ l ∈ ls, l.err = false) :
    filterLeaves f ls = { f with index := f.index.filter (fun i => ls.any (·.sem i)) } := by
  unfold filterLeaves
  simp only [hf, Bool.false_eq_true, ↓reduceIte, replicate_eq_map]
  rw [foldlM_leaves f.index ls _ hs he]
  simp [idxFilter_map]

/-! ### merges -/
theorem head?_filter_ne {x : Pos} {orig : List Pos} (a : Pos → Bool) (hx : x ∉ orig) :
    orig.find? a ≠ some x := by
  intro h
  exact hx (List.mem_of_find?_eq_some h)

theorem orMerge_filter (orig : List Pos) (a b : Pos → Bool) (hn : orig.Nodup) :
    orMerge orig (orig.filter a) (orig.filter b) = orig.filter (fun x => a x || b x) := by
  induction orig with
  | nil => simp [orMerge]
  | cons x orig ih =>
    have hx : x ∉ orig := (List.nodup_cons.mp hn).1
    have hn' := (List.nodup_cons.mp hn).2
    have na := head?_filter_ne a hx
    have nb := head?_filter_ne b hx
    cases ha : a x <;> cases hb : b x <;>
      simp [orMerge, List.filter_cons, ha, hb, na, nb, ih hn']

theorem notMerge_filter (orig : List Pos) (a : Pos → Bool) (hn : orig.Nodup) :
    notMerge orig (orig.filter a) = orig.filter (fun x => !a x) := by
  induction orig with
  | nil => simp [notMerge]
  | cons x orig ih =>
    have hx : x ∉ orig := (List.nodup_cons.mp hn).1
    have hn' := (List.nodup_cons.mp hn).2
    have na := head?_filter_ne a hx
    cases ha : a x <;> simp [notMerge, List.filter_cons, ha, na, ih hn']

@[simp] theorem sem_leaf (l : Leaf) : (Clause.leaf l).sem = l.sem := by funext p; simp [Clause.sem]
@[simp] theorem sem_null : Clause.null.sem = fun _ => true := by funext p; simp [Clause.sem]
@[simp] theorem sem_not (c : Clause) : (Clause.not c).sem = fun p => !c.sem p := by funext p; simp [Clause.sem]
@[simp] theorem sem_and (cs : List Clause) : (Clause.and cs).sem = fun p => cs.all (·.sem p) := by
  funext p; simp [Clause.sem]
@[simp] theorem sem_or (cs : List Clause) : (Clause.or cs).sem = fun p => cs.any (·.sem p) := by
  funext p; simp [Clause.sem]
@[simp] theorem sound_leaf (l : Leaf) : (Clause.leaf l).sound = l.sound := by simp [Clause.sound]
@[simp] theorem sound_and (cs : List Clause) : (Clause.and cs).sound = ∀ c ∈ cs, c.sound := by simp [Clause.sound]
@[simp] theorem sound_or (cs : List Clause) : (Clause.or cs).sound = ∀ c ∈ cs, c.sound := by simp [Clause.sound]
@[simp] theorem sound_not (c : Clause) : (Clause.not c).sound = c.sound := by simp [Clause.sound]
@[simp] theorem wt_leaf (l : Leaf) : (Clause.leaf l).wellTyped = !l.err := by simp [Clause.wellTyped]
@[simp] theorem wt_and (cs : List Clause) : (Clause.and cs).wellTyped = (!cs.isEmpty && cs.all (·.wellTyped)) := by
  simp [Clause.wellTyped]
@[simp] theorem wt_or (cs : List Clause) : (Clause.or cs).wellTyped = (!cs.isEmpty && cs.all (·.wellTyped)) := by
  simp [Clause.wellTyped]
@[simp] theorem wt_not (c : Clause) : (Clause.not c).wellTyped = c.wellTyped := by simp [Clause.wellTyped]
@[simp] theorem he_and (cs : List Clause) : (Clause.and cs).hasErr = (cs.isEmpty || cs.any (·.hasErr)) := by
  simp [Clause.hasErr]
@[simp] theorem he_or (cs : List Clause) : (Clause.or cs).hasErr = (cs.isEmpty || cs.any (·.hasErr)) := by
  simp [Clause.hasErr]
@[simp] theorem he_not (c : Clause) : (Clause.not c).hasErr = c.hasErr := by simp [Clause.hasErr]
@[simp] theorem he_leaf (l : Leaf) : (Clause.leaf l).hasErr = false := by simp [Clause.hasErr]
@[simp] theorem he_null : Clause.null.hasErr = false := by simp [Clause.hasErr]

theorem filter_filter (a b : Pos → Bool) (l : List Pos) :
    (l.filter a).filter b = l.filter (fun x => a x && b x) := by
  simp [List.filter_filter, Bool.and_comm]

/-- the statement, as a predicate on a clause -/
def Ref (c : Clause) : Prop :=
  ∀ f : Frame, f.index.Nodup → f.err = false →
    (c.filter f).err = false ∧ (c.filter f).index = f.index.filter c.sem

theorem andLoop_spec (cs : List Clause) (ih : ∀ c ∈ cs, Ref c) (f : Frame) (hn : f.index.Nodup) (he : f.err = false) :
    (andLoop cs f).err = false ∧ (andLoop cs f).index = f.index.filter (fun p => cs.all (·.sem p)) := by
  induction cs generalizing f with
  | nil => simp [andLoop, he]; exact (List.filter_eq_self.mpr (by simp)).symm
  | cons c cs ihcs =>
    obtain ⟨e1, i1⟩ := ih c (by simp) f hn he
    have hn1 : (c.filter f).index.Nodup := by rw [i1]; exact hn.filter _
    obtain ⟨e2, i2⟩ := ihcs (fun c h => ih c (by simp [h])) (c.filter f) hn1 e1
    simp only [andLoop]
    refine ⟨e2, ?_⟩
    rw [i2, i1, filter_filter]
    simp

theorem orFrames_spec (f : Frame) (hn : f.index.Nodup) (acc : Option Frame) (a : Pos → Bool) (r : Frame) (b : Pos → Bool)
    (hacc : ∀ g, acc = some g → g.err = false ∧ g.index = f.index.filter a) (ha : acc = none → a = fun _ => false)
    (hr : r.err = false ∧ r.index = f.index.filter b) (he : f.err = false) :
    (orFrames f acc r).err = false ∧ (orFrames f acc r).index = f.index.filter (fun p => a p || b p) := by
  cases acc with
  | none => simp [orFrames, hr, ha rfl]
  | some g =>
    obtain ⟨ge, gi⟩ := hacc g rfl
    simp only [orFrames, ge, hr.1, Bool.false_eq_true, ↓reduceIte, he, gi, hr.2, orMerge_filter _ _ _ hn]
    trivial

theorem orLoop_spec (cs : List Clause) (ih : ∀ c ∈ cs, Ref c) (hw : ∀ c ∈ cs, c.wellTyped = true)
    (hs : ∀ c ∈ cs, c.sound)
    (f : Frame) (hn : f.index.Nodup) (he : f.err = false)
    (pending : List Leaf) (hp : ∀ l ∈ pending, l.sound ∧ l.err = false)
    (acc : Option Frame) (a : Pos → Bool)
    (hacc : ∀ g, acc = some g → g.err = false ∧ g.index = f.index.filter a) (ha : acc = none → a = fun _ => false)
    (hne : acc = none → pending = [] → cs ≠ []) :
    (orLoop cs f pending acc).err = false ∧
    (orLoop cs f pending acc).index = f.index.filter (fun p => a p || pending.any (·.sem p) || cs.any (·.sem p)) := by
  induction cs generalizing pending acc a with
  | nil =>
    simp only [orLoop, List.any_nil, Bool.or_false]
    by_cases hpe : pending = []
    · subst hpe
      cases acc with
      | none => exact absurd rfl (hne rfl rfl)
      | some g => simpa using hacc g rfl
    · have hp' : pending.isEmpty = false := by cases pending <;> simp_all
      simp only [hp', Bool.false_eq_true, ↓reduceIte, Option.getD_some]
      have := filterLeaves_spec f pending he (fun l h => (hp l h).1) (fun l h => (hp l h).2)
      exact orFrames_spec f hn acc a _ _ hacc ha (by rw [this]; exact ⟨he, rfl⟩) he
  | cons c cs ihcs =>
    have ih' : ∀ c ∈ cs, Ref c := fun c h => ih c (by simp [h])
    have hw' : ∀ c ∈ cs, c.wellTyped = true := fun c h => hw c (by simp [h])
    have hs' : ∀ c ∈ cs, c.sound := fun c h => hs c (by simp [h])
    cases c with
    | leaf l =>
      simp only [orLoop]
      have hl : l.sound ∧ l.err = false := ⟨by simpa using hs (.leaf l) (by simp), by simpa using hw (.leaf l) (by simp)⟩
      have := ihcs ih' hw' hs' (pending ++ [l]) (by
        intro l' h; rcases List.mem_append.mp h with h | h
        · exact hp l' h
        · simp at h; subst h; exact hl) acc a hacc ha (by intro _ h; simp at h)
      refine ⟨this.1, ?_⟩
      rw [this.2]; congr 1; funext p; simp [Bool.or_assoc]
    | and cs' | or cs' | not c' | null =>
      all_goals
        simp only [orLoop]
        -- flush pending, then or in the nested clause
        obtain ⟨ce, ci⟩ := ih _ (List.mem_cons_self) f hn he
        have step1 : ∀ acc1, acc1 = (if pending.isEmpty = true then acc else some (orFrames f acc (filterLeaves f pending))) →
            (∀ g, acc1 = some g → g.err = false ∧ g.index = f.index.filter (fun p => a p || pending.any (·.sem p))) ∧
            (acc1 = none → (fun p => a p || pending.any (·.sem p)) = fun _ => false) := by
          intro acc1 h1
          by_cases hpe : pending = []
          · subst hpe
            simp only [List.isEmpty_nil, ↓reduceIte] at h1
            subst h1
            simp only [List.any_nil, Bool.or_false]
            exact ⟨hacc, ha⟩
          · have hp' : pending.isEmpty = false := by cases pending <;> simp_all
            simp only [hp', Bool.false_eq_true, ↓reduceIte] at h1
            subst h1
            have := filterLeaves_spec f pending he (fun l h => (hp l h).1) (fun l h => (hp l h).2)
            refine ⟨?_, by intro h; cases h⟩
            intro g hg
            cases hg
            exact orFrames_spec f hn acc a _ _ hacc ha (by rw [this]; exact ⟨he, rfl⟩) he
        obtain ⟨h1a, h1b⟩ := step1 _ rfl
        have step2 := orFrames_spec f hn _ _ _ _ h1a h1b ⟨ce, ci⟩ he
        have := ihcs ih' hw' hs' [] (by simp) (some (orFrames f _ _)) _
          (by intro g hg; cases hg; exact step2) (by intro h; cases h) (by intro h; cases h)
        refine ⟨this.1, ?_⟩
        rw [this.2]; congr 1; funext p; simp [Bool.or_assoc]

theorem hasErr_of_wt (c : Clause) (h : c.wellTyped = true) : c.hasErr = false := by
  match c with
  | .leaf l => simp
  | .null => simp
  | .not c => simpa using hasErr_of_wt c (by simpa using h)
  | .and cs =>
    simp only [wt_and, Bool.and_eq_true, Bool.not_eq_eq_eq_not, Bool.not_true, List.all_eq_true] at h
    simp only [he_and, h.1, Bool.false_or, List.any_eq_false]
    intro c hc; simpa using hasErr_of_wt c (h.2 c hc)
  | .or cs =>
    simp only [wt_or, Bool.and_eq_true, Bool.not_eq_eq_eq_not, Bool.not_true, List.all_eq_true] at h
    simp only [he_or, h.1, Bool.false_or, List.any_eq_false]
    intro c hc; simpa using hasErr_of_wt c (h.2 c hc)
termination_by sizeOf c
decreasing_by
  all_goals simp_wf
  all_goals first | omega | (have := List.sizeOf_lt_of_mem hc; omega)

theorem filter_refines_aux (n : Nat) : ∀ c : Clause, sizeOf c ≤ n → c.sound → c.wellTyped = true → Ref c := by
  induction n with
  | zero => intro c h; cases c <;> simp at h <;> omega
  | succ n ih =>
  intro c hsz hs hw f hn he
  match c with
  | .leaf l =>
    have hl : l.err = false := by simpa using hw
    simp only [Clause.filter]
    rw [filterLeaves_spec f [l] he (by simpa using hs) (by simpa using hl)]
    simp [he]
  | .null => simp [Clause.filter, he]; exact (List.filter_eq_self.mpr (by simp)).symm
  | .and cs =>
    have hE := hasErr_of_wt _ hw
    simp only [wt_and, Bool.and_eq_true, List.all_eq_true] at hw
    simp only [sound_and] at hs
    simp only [Clause.filter, he, hE, Bool.false_eq_true, ↓reduceIte]
    have := andLoop_spec cs (fun c hc => ih c (by have := List.sizeOf_lt_of_mem hc; simp at hsz; omega) (hs c hc) (hw.2 c hc)) f hn he
    simpa using this
  | .or cs =>
    have hE := hasErr_of_wt _ hw
    simp only [wt_or, Bool.and_eq_true, List.all_eq_true] at hw
    simp only [sound_or] at hs
    simp only [Clause.filter, he, hE, Bool.false_eq_true, ↓reduceIte]
    have hne : cs ≠ [] := by intro h; simp [h] at hw
    have := orLoop_spec cs (fun c hc => ih c (by have := List.sizeOf_lt_of_mem hc; simp at hsz; omega) (hs c hc) (hw.2 c hc)) hw.2 hs f hn he [] (by simp) none
      (fun _ => false) (by intro g h; cases h) (fun _ => rfl) (fun _ _ => hne)
    simpa using this
  | .not c =>
    have hE := hasErr_of_wt _ hw
    simp only [wt_not] at hw
    simp only [sound_not] at hs
    simp only [he_not] at hE
    match c with
    | .leaf l =>
      simp only [Clause.filter, he, hE, Bool.false_eq_true, ↓reduceIte]
      have hl : l.err = false := by simpa using hw
      have hs' : ({ l with inverse := !l.inverse } : Leaf).sound := by simpa [Leaf.sound] using hs
      rw [filterLeaves_spec f _ he (by simpa using hs') (by simpa using hl)]
      refine ⟨he, ?_⟩
      simp only [sem_not, sem_leaf]
      congr 1; funext p; simp [Leaf.sem]; cases l.inverse <;> simp
    | .null =>
      have h0 : Clause.null.filter f = f := by simp [Clause.filter]
      rw [Clause.filter]
      · simp only [he, Bool.false_eq_true, ↓reduceIte, he_null, sem_not, sem_null, h0]
        refine ⟨trivial, ?_⟩
        have := notMerge_filter f.index (fun _ => true) hn
        rw [List.filter_eq_self.mpr (by simp)] at this
        simpa using this
      · intro l h; cases h
    | .and cs' | .or cs' | .not c' =>
      all_goals
        obtain ⟨ge, gi⟩ := ih _ (by simp at hsz ⊢; omega) hs hw f hn he
        rw [Clause.filter]
        · simp only [he, hE, Bool.false_eq_true, ↓reduceIte, ge, gi, notMerge_filter _ _ hn, sem_not]
          trivial
        · intro l h; cases h

theorem filter_refines (c : Clause) (hs : c.sound) (hw : c.wellTyped = true) : Ref c :=
  filter_refines_aux _ c (Nat.le_refl _) hs hw

end F
#print axioms F.filter_refines
