import QF.Core.Grouper
/-! Prototype: probe correctness for the open-addressing table under the reachability invariant. -/
namespace G

/-- k-th position on the probe path from `p` in a table of size `n` -/
def walk (n : Nat) : Nat → Nat → Nat
  | 0, p => p
  | k + 1, p => walk n k ((p + 1) % n)

theorem walk_eq (n k p : Nat) (hp : p < n) : walk n k p = (p + k) % n := by
  induction k generalizing p with
  | zero => simp [walk, Nat.mod_eq_of_lt hp]
  | succ k ih =>
    have hn : 0 < n := by omega
    rw [walk, ih _ (Nat.mod_lt _ hn)]
    rw [Nat.mod_add_mod]; congr 1; omega

theorem walk_lt (n k p : Nat) (hp : p < n) : walk n k p < n := by
  rw [walk_eq n k p hp]; exact Nat.mod_lt _ (by omega)

/-- every slot is on the path within n steps -/
theorem walk_cover (n p s : Nat) (hp : p < n) (hs : s < n) : ∃ k, k < n ∧ walk n k p = s := by
  by_cases h : p ≤ s
  · refine ⟨s - p, by omega, ?_⟩
    rw [walk_eq n _ p hp, show p + (s - p) = s by omega, Nat.mod_eq_of_lt hs]
  · refine ⟨s + n - p, by omega, ?_⟩
    rw [walk_eq n _ p hp, show p + (s + n - p) = s + n by omega, Nat.add_mod_right, Nat.mod_eq_of_lt hs]

variable (eqv : Nat → Nat → Bool)

/-- stop condition of the probe at a slot -/
def stopAt (slots : Array (Option Entry)) (i h pos : Nat) : Bool :=
  match slots[pos]? with
  | some none => true
  | some (some e) => e.hash == h && eqv i e.firstPos
  | none => false

/-- probe returns the first stopping position on the path, with the number of steps as collisions -/
theorem probe_spec (slots : Array (Option Entry)) (i h : Nat) (k : Nat) :
    ∀ (fuel pos coll : Nat), pos < slots.size → k < fuel →
    stopAt eqv slots i h (walk slots.size k pos) = true →
    (∀ j, j < k → stopAt eqv slots i h (walk slots.size j pos) = false) →
    probe eqv slots i h fuel pos coll = some (walk slots.size k pos, coll + k) := by
  induction k with
  | zero =>
    intro fuel pos coll hp hf hs _
    cases fuel with
    | zero => omega
    | succ f =>
      simp only [walk] at hs
      unfold probe
      unfold stopAt at hs
      have hlt : slots[pos]? = some slots[pos] := by simp [hp]
      cases hv : slots[pos] with
      | none => simp [hlt, hv, walk]
      | some e => rw [hlt, hv] at hs; simp only at hs; simp [hlt, hv, hs, walk]
  | succ k ih =>
    intro fuel pos coll hp hf hs hall
    cases fuel with
    | zero => omega
    | succ f =>
      have h0 := hall 0 (by omega)
      simp only [walk] at h0
      unfold probe
      unfold stopAt at h0
      have hlt : slots[pos]? = some slots[pos] := by simp [hp]
      have hn : 0 < slots.size := by omega
      cases hv : slots[pos] with
      | none => rw [hlt, hv] at h0; simp at h0
      | some e =>
        rw [hlt, hv] at h0
        simp only at h0
        simp only [hlt, hv, h0, Bool.false_eq_true, ↓reduceIte]
        have := ih f ((pos + 1) % slots.size) (coll + 1) (Nat.mod_lt _ hn) (by omega)
          (by simpa [walk] using hs) (fun j hj => by have := hall (j + 1) (by omega); simpa [walk] using this)
        rw [this]; simp [walk]; omega


/-- minimal stopping step below a bound, if any -/
def firstStop (slots : Array (Option Entry)) (i h pos : Nat) : Nat → Nat → Option Nat
  | 0, _ => none
  | fuel + 1, k => if stopAt eqv slots i h (walk slots.size k pos) then some k else firstStop slots i h pos fuel (k + 1)

theorem firstStop_spec (slots : Array (Option Entry)) (i h pos : Nat) :
    ∀ fuel k0 k, k0 ≤ k → k < k0 + fuel → stopAt eqv slots i h (walk slots.size k pos) = true →
    (∀ j, j < k0 → True) →
    ∃ m, firstStop eqv slots i h pos fuel k0 = some m ∧ k0 ≤ m ∧ m ≤ k ∧
      stopAt eqv slots i h (walk slots.size m pos) = true ∧
      ∀ j, k0 ≤ j → j < m → stopAt eqv slots i h (walk slots.size j pos) = false := by
  intro fuel
  induction fuel with
  | zero => intro k0 k h1 h2; omega
  | succ f ih =>
    intro k0 k h1 h2 hs _
    unfold firstStop
    by_cases hc : stopAt eqv slots i h (walk slots.size k0 pos) = true
    · simp only [hc, ↓reduceIte]
      exact ⟨k0, rfl, Nat.le_refl _, h1, hc, fun j a b => by omega⟩
    · simp only [hc, Bool.false_eq_true, ↓reduceIte]
      have hne : k0 ≠ k := by intro e; subst e; exact hc hs
      obtain ⟨m, hm, a, b, c, d⟩ := ih (k0 + 1) k (by omega) (by omega) hs (fun _ _ => trivial)
      refine ⟨m, hm, by omega, b, c, fun j hj1 hj2 => ?_⟩
      by_cases e : j = k0
      · subst e; simpa using hc
      · exact d j (by omega) hj2

/-- the probe always succeeds when some slot on the path within `size` steps stops it -/
theorem probe_finds (slots : Array (Option Entry)) (i h pos k : Nat) (hp : pos < slots.size)
    (hk : k < slots.size) (hs : stopAt eqv slots i h (walk slots.size k pos) = true) :
    ∃ m, m ≤ k ∧ probe eqv slots i h (slots.size + 1) pos 0 = some (walk slots.size m pos, m) ∧
      stopAt eqv slots i h (walk slots.size m pos) = true ∧
      ∀ j, j < m → stopAt eqv slots i h (walk slots.size j pos) = false := by
  obtain ⟨m, _, _, b, c, d⟩ := firstStop_spec eqv slots i h pos (k + 1) 0 k (Nat.zero_le _) (by omega) hs (fun _ _ => trivial)
  refine ⟨m, b, ?_, c, fun j hj => d j (Nat.zero_le _) hj⟩
  have := probe_spec eqv slots i h m (slots.size + 1) pos 0 hp (by omega) c (fun j hj => d j (Nat.zero_le _) hj)
  simpa using this

#print axioms probe_finds
end G
