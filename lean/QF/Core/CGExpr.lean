import QF.Spec.Csv
/-!
# CG — the language of the glue of `ReadCSV` (/repo/internal/io/csv.go, `ReadCSV` of /repo/qframe.go), and its Go semantics

    func isEmptyLine(fields [][]byte) bool                                                       → CGB
    func addAliasToMissingColumnNames(headers []string, alias string) []string                   → CGA
    func renameDuplicateColumns(headers []string) []string                                       → CGR
    func resizeColPointers(pointers [][]bytePointer, sizeHint int)                               → CGZ
    func resizeColBytes(bytes [][]byte, currentRowCount, sizeHint int)                           → CGZ
    func ReadCSV(reader io.Reader, conf CSVConfig) (map[string]interface{}, []string, error)     → CG
    func ReadCSV(reader io.Reader, confFuncs ...csv.ConfigFunc) QFrame          (root package)   → CGU

The extractor (go/cmd/extract/csvgast.go) walks the bodies statement by statement and writes them to `QF/Gen/CsvGlue.lean`
on every run, in continuation style (every statement carries the rest of its block; a block ends with `done`, `cont`, `brk`
or a `ret…`). A call whose error result is tested by the next statement is ONE constructor with the failure branch.

Terms name things by ROLE, never by Go identifier: the functions by their signatures, the fields of the configuration by
their types (`byte`: the delimiter, `[]string`: the headers, `int`: the row count hint, `string`: the alias) and — for the
three `bool` fields — by the exported function of `config/csv` that sets them; the methods of the fastcsv reader by their
signatures (`() bool`: Next, `() [][]byte`: Fields, `() error`: Err, `() ([][]byte, error)`: Read); variables by what they
are bound to.

## What is abstracted

* A column is kept by the code as a blob (`colBytes[i]`) and a slice of `bytePointer{start, end}` into it
  (`colPointers[i]`). The three statements `start := len(colBytes[i]); colBytes[i] = append(colBytes[i], col...);
  colPointers[i] = append(colPointers[i], bytePointer{start: uint32(start), end: uint32(len(colBytes[i]))})` are ONE
  constructor (`appendField`), whose meaning here is "the cell `col` is appended to column `i`": as in IExpr.lean /
  C12Infer the pointers are abstracted to the slices they denote. (The `uint32` conversions are exact while a column holds
  less than 4 GiB.)
* The fastcsv reader is scripted (`CGEnv`): the records `Next` delivers — each with the flag "`r.Err()` is non-nil now" —
  and whether `r.Err()` is non-nil once `Next` has returned false. `r.Read()` is `Next` followed by `Fields` (its error is
  non-nil exactly when there is no record: `io.EOF` included).
* `resizeColBytes` / `resizeColPointers` only change capacities (`gen_resize_identity` in C12GlueGen proves that their
  regenerated bodies leave the contents alone for every capacity); here they are no-ops. The computation of the list of
  duplicate names for the message of the last error has no effect (`buildDupMessage`).
* `columnToData` (IExpr.lean, iast.go) is a parameter, as are the three helper functions.

Untranslated code is `.opaque` and has no meaning (`stuck`).
-/
namespace QF

/-! ## `isEmptyLine` -/

inductive CGB where
  /-- `len(fields) == n` -/
  | lenIs (n : Nat)
  /-- `len(fields[i]) == n` -/
  | lenAtIs (i n : Nat)
  | and (a b : CGB)
  | opaque (txt : String)
  deriving DecidableEq, Repr, Inhabited

/-- `none`: no meaning (an index out of range) -/
def CGB.eval (fields : List Bytes) : CGB → Option Bool
  | .lenIs n => some (fields.length == n)
  | .lenAtIs i n => (fields[i]?).map (fun f => f.length == n)
  | .and a b =>
    match a.eval fields with
    | some true => b.eval fields
    | r => r
  | .opaque _ => none

def CGB.hasOpaque : CGB → Bool
  | .opaque _ => true
  | .and a b => a.hasOpaque || b.hasOpaque
  | _ => false

/-! ## `addAliasToMissingColumnNames` -/

inductive CGA where
  /-- `for i, name := range headers { body }` -/
  | rangeHeaders (body k : CGA)
  /-- `if name == "" { t }` -/
  | ifNameEmpty (t k : CGA)
  /-- `headers[i] = alias` -/
  | setAlias (k : CGA)
  | done
  /-- `return headers` -/
  | retHeaders
  | opaque (txt : String)
  deriving DecidableEq, Repr, Inhabited

inductive CGAOut where
  | next (hs : List Bytes)
  | ret (hs : List Bytes)
  | stuck

/-- the rounds `i, i+1, …, n-1` of a loop over the slice (its length is read once) -/
def iterCGA (step : Nat → List Bytes → CGAOut) : Nat → Nat → List Bytes → CGAOut
  | _, 0, hs => .next hs
  | i, n + 1, hs =>
    match step i hs with
    | .next hs' => iterCGA step (i + 1) n hs'
    | r => r

/-- `cur`: the index of the round -/
def CGA.run («alias» : Bytes) : CGA → Option Nat → List Bytes → CGAOut
  | .rangeHeaders body k, cur, hs =>
    match iterCGA (fun i h => body.run «alias» (some i) h) 0 hs.length hs with
    | .next hs' => k.run «alias» cur hs'
    | r => r
  | .ifNameEmpty t k, cur, hs =>
    match cur.bind (fun i => hs[i]?) with
    | none => .stuck
    | some name =>
      if name.isEmpty then
        match t.run «alias» cur hs with
        | .next hs' => k.run «alias» cur hs'
        | r => r
      else k.run «alias» cur hs
  | .setAlias k, cur, hs =>
    match cur with
    | some i => if i < hs.length then k.run «alias» cur (hs.set i «alias») else .stuck
    | none => .stuck
  | .done, _, hs => .next hs
  | .retHeaders, _, hs => .ret hs
  | .opaque _, _, _ => .stuck

def CGA.hasOpaque : CGA → Bool
  | .opaque _ => true
  | .rangeHeaders b k | .ifNameEmpty b k => b.hasOpaque || k.hasOpaque
  | .setAlias k => k.hasOpaque
  | _ => false

/-! ## `renameDuplicateColumns` -/

inductive CGR where
  /-- `headersMap := make(map[string]int)` -/
  | newMap (k : CGR)
  /-- `for i, h := range headers { body }` -/
  | rangeHeaders (body k : CGR)
  /-- `index, ok := headersMap[h]` -/
  | lookupH (k : CGR)
  /-- `if !ok { t }` -/
  | ifNotOk (t k : CGR)
  /-- `headersMap[h] = i` -/
  | setMapH (k : CGR)
  /-- `if ok && i != index { t }` -/
  | ifOtherIndex (t k : CGR)
  /-- `counter := 0` -/
  | zeroCounter (k : CGR)
  /-- `for { body }` -/
  | forever (body k : CGR)
  /-- `candidateName := headers[i] + fmt.Sprint(counter)` -/
  | bindCandidate (k : CGR)
  /-- `_, ok = headersMap[candidateName]` -/
  | lookupCandidate (k : CGR)
  /-- `if ok { t } else { e }` -/
  | ifOk (t e k : CGR)
  /-- `counter++` -/
  | incCounter (k : CGR)
  /-- `headers[i] = candidateName` -/
  | setHeaderCandidate (k : CGR)
  /-- `headersMap[headers[i]] = i` -/
  | setMapCurrent (k : CGR)
  | brk
  | done
  /-- `return headers` -/
  | retHeaders
  | opaque (txt : String)
  deriving DecidableEq, Repr, Inhabited

structure CGRSt where
  headers : List Bytes
  map : List (Bytes × Nat) := []
  h : Bytes := []
  index : Nat := 0
  ok : Bool := false
  counter : Nat := 0
  candidate : Bytes := []

inductive CGROut where
  | next (σ : CGRSt)
  | brk (σ : CGRSt)
  | ret (hs : List Bytes)
  | stuck

/-- `m[k] = v` -/
def cgrInsert : List (Bytes × Nat) → Bytes → Nat → List (Bytes × Nat)
  | [], k, v => [(k, v)]
  | e :: rest, k, v => if e.1 == k then (k, v) :: rest else e :: cgrInsert rest k v

def iterCGR (step : Nat → CGRSt → CGROut) : Nat → Nat → CGRSt → CGROut
  | _, 0, σ => .next σ
  | i, n + 1, σ =>
    match step i σ with
    | .next σ' => iterCGR step (i + 1) n σ'
    | .brk σ' => .next σ'
    | r => r

/-- `for { body }`, at most `fuel` rounds (`stuck` when they are used up) -/
def foreverCGR (step : CGRSt → CGROut) : Nat → CGRSt → CGROut
  | 0, _ => .stuck
  | fuel + 1, σ =>
    match step σ with
    | .next σ' => foreverCGR step fuel σ'
    | .brk σ' => .next σ'
    | r => r

/-- `sprint`: `fmt.Sprint` of an `int` (the decimal digits); `fuel`: the bound on the rounds of `for { … }`; `cur`: the
index of the round of the enclosing `range` -/
def CGR.run (sprint : Nat → Bytes) (fuel : Nat) : CGR → Option Nat → CGRSt → CGROut
  | .newMap k, cur, σ => k.run sprint fuel cur { σ with map := [] }
  | .rangeHeaders body k, cur, σ =>
    match iterCGR (fun i τ =>
        match τ.headers[i]? with
        | some h => body.run sprint fuel (some i) { τ with h := h }
        | none => .stuck) 0 σ.headers.length σ with
    | .next σ' => k.run sprint fuel cur σ'
    | r => r
  | .lookupH k, cur, σ =>
    match σ.map.lookup σ.h with
    | some ix => k.run sprint fuel cur { σ with index := ix, ok := true }
    | none => k.run sprint fuel cur { σ with index := 0, ok := false }
  | .ifNotOk t k, cur, σ =>
    if σ.ok then k.run sprint fuel cur σ
    else
      match t.run sprint fuel cur σ with
      | .next σ' => k.run sprint fuel cur σ'
      | r => r
  | .setMapH k, cur, σ =>
    match cur with
    | some i => k.run sprint fuel cur { σ with map := cgrInsert σ.map σ.h i }
    | none => .stuck
  | .ifOtherIndex t k, cur, σ =>
    match cur with
    | none => .stuck
    | some i =>
      if σ.ok && i != σ.index then
        match t.run sprint fuel cur σ with
        | .next σ' => k.run sprint fuel cur σ'
        | r => r
      else k.run sprint fuel cur σ
  | .zeroCounter k, cur, σ => k.run sprint fuel cur { σ with counter := 0 }
  | .forever body k, cur, σ =>
    match foreverCGR (fun τ => body.run sprint fuel cur τ) fuel σ with
    | .next σ' => k.run sprint fuel cur σ'
    | r => r
  | .bindCandidate k, cur, σ =>
    match cur.bind (fun i => σ.headers[i]?) with
    | some hi => k.run sprint fuel cur { σ with candidate := hi ++ sprint σ.counter }
    | none => .stuck
  | .lookupCandidate k, cur, σ => k.run sprint fuel cur { σ with ok := (σ.map.lookup σ.candidate).isSome }
  | .ifOk t e k, cur, σ =>
    match (if σ.ok then t.run sprint fuel cur σ else e.run sprint fuel cur σ) with
    | .next σ' => k.run sprint fuel cur σ'
    | r => r
  | .incCounter k, cur, σ => k.run sprint fuel cur { σ with counter := σ.counter + 1 }
  | .setHeaderCandidate k, cur, σ =>
    match cur with
    | some i => if i < σ.headers.length then k.run sprint fuel cur { σ with headers := σ.headers.set i σ.candidate } else .stuck
    | none => .stuck
  | .setMapCurrent k, cur, σ =>
    match cur.bind (fun i => (σ.headers[i]?).map (fun hi => (i, hi))) with
    | some (i, hi) => k.run sprint fuel cur { σ with map := cgrInsert σ.map hi i }
    | none => .stuck
  | .brk, _, σ => .brk σ
  | .done, _, σ => .next σ
  | .retHeaders, _, σ => .ret σ.headers
  | .opaque _, _, _ => .stuck

def CGR.hasOpaque : CGR → Bool
  | .opaque _ => true
  | .rangeHeaders b k | .ifNotOk b k | .ifOtherIndex b k | .forever b k => b.hasOpaque || k.hasOpaque
  | .ifOk t e k => t.hasOpaque || e.hasOpaque || k.hasOpaque
  | .newMap k | .lookupH k | .setMapH k | .zeroCounter k | .bindCandidate k | .lookupCandidate k | .incCounter k
  | .setHeaderCandidate k | .setMapCurrent k => k.hasOpaque
  | _ => false

/-! ## `resizeColPointers` / `resizeColBytes` -/

inductive CGZ where
  /-- `for i, p := range <slices> { body }` -/
  | rangeSlices (body k : CGZ)
  /-- `estimatedCap := int(<an expression of len(p), the hint and the row count>)` -/
  | bindEstimate (k : CGZ)
  /-- `if cap(p) < <the hint / the estimate> { t }` -/
  | ifCapLess (t k : CGZ)
  /-- `q := make([]T, 0, <the hint / the estimate>)` -/
  | makeNew (k : CGZ)
  /-- `q = append(q, p...)` -/
  | appendAll (k : CGZ)
  /-- `<slices>[i] = q` -/
  | store (k : CGZ)
  | done
  | opaque (txt : String)
  deriving DecidableEq, Repr, Inhabited

structure CGZSt (α : Type) where
  slices : List (List α)
  p : List α := []
  q : Option (List α) := none

/-- the rounds `i, i+1, …` of the loop over the slices (the length is read once) -/
def iterCGZ {α : Type} (step : Nat → CGZSt α → Option (CGZSt α)) : Nat → Nat → CGZSt α → Option (CGZSt α)
  | _, 0, σ => some σ
  | i, n + 1, σ =>
    match step i σ with
    | some σ' => iterCGZ step (i + 1) n σ'
    | none => none

/-- `capLess i`: is the capacity of slice `i` less than the bound? (capacities are not modelled: any answer).
`none`: no meaning. -/
def CGZ.run {α : Type} (capLess : Nat → Bool) : CGZ → Option Nat → CGZSt α → Option (CGZSt α)
  | .rangeSlices body k, cur, σ =>
    match iterCGZ (fun i τ =>
        match τ.slices[i]? with
        | none => none
        | some p => body.run capLess (some i) { τ with p := p }) 0 σ.slices.length σ with
    | some σ' => k.run capLess cur σ'
    | none => none
  | .bindEstimate k, cur, σ => k.run capLess cur σ
  | .ifCapLess t k, cur, σ =>
    match cur with
    | none => none
    | some i =>
      if capLess i then
        match t.run capLess cur σ with
        | some σ' => k.run capLess cur σ'
        | none => none
      else k.run capLess cur σ
  | .makeNew k, cur, σ => k.run capLess cur { σ with q := some [] }
  | .appendAll k, cur, σ =>
    match σ.q with
    | some q => k.run capLess cur { σ with q := some (q ++ σ.p) }
    | none => none
  | .store k, cur, σ =>
    match cur, σ.q with
    | some i, some q => if i < σ.slices.length then k.run capLess cur { σ with slices := σ.slices.set i q } else none
    | _, _ => none
  | .done, _, σ => some σ
  | .opaque _, _, _ => none

def CGZ.hasOpaque : CGZ → Bool
  | .opaque _ => true
  | .rangeSlices b k | .ifCapLess b k => b.hasOpaque || k.hasOpaque
  | .bindEstimate k | .makeNew k | .appendAll k | .store k => k.hasOpaque
  | _ => false

/-! ## `ReadCSV` -/

inductive CG where
  /-- `r := fastcsv.NewReader(reader, conf.<delimiter>)` -/
  | newReader (k : CG)
  /-- `headers := conf.<headers>` -/
  | headersFromConf (k : CG)
  /-- `if len(headers) == 0 { t }` -/
  | ifNoHeaders (t k : CG)
  /-- `byteHeader, err := r.Read(); if err != nil { onErr }` -/
  | readHeader (onErr k : CG)
  /-- `headers = make([]string, len(byteHeader))` -/
  | makeHeaders (k : CG)
  /-- `for i := range headers { body }` -/
  | rangeHeaders (body k : CG)
  /-- `headers[i] = string(byteHeader[i])` -/
  | setHeaderFromRecord (k : CG)
  /-- `colPointers := make([][]P, len(headers))` -/
  | makePointers (k : CG)
  /-- `colPointers[i] = []P{}` -/
  | setEmptyPointers (k : CG)
  /-- `colBytes := make([][]byte, len(headers))` -/
  | makeBytes (k : CG)
  /-- `row := 1` / `nonEmptyRows := 0` -/
  | initRow (k : CG)
  | initNonEmpty (k : CG)
  /-- `for r.Next() { body }` -/
  | forNext (body k : CG)
  /-- `if r.Err() != nil { t }` -/
  | ifReaderErr (t k : CG)
  /-- `row++` -/
  | incRow (k : CG)
  /-- `fields := r.Fields()` -/
  | bindFields (k : CG)
  /-- `if len(fields) != len(headers) { t }` -/
  | ifWrongWidth (t k : CG)
  /-- `if <isEmptyLine>(fields) && conf.<IgnoreEmptyLines> { t }` -/
  | ifEmptyIgnored (t k : CG)
  /-- `continue` -/
  | cont
  /-- `for i, col := range fields { body }` -/
  | rangeFields (body k : CG)
  /-- `start := len(colBytes[i]); colBytes[i] = append(colBytes[i], col...);
  colPointers[i] = append(colPointers[i], P{start: uint32(start), end: uint32(len(colBytes[i]))})` -/
  | appendField (k : CG)
  /-- `nonEmptyRows++` -/
  | incNonEmpty (k : CG)
  /-- `if nonEmptyRows == 1000 && conf.<hint> > 2000 { t }` -/
  | ifResizeDue (t k : CG)
  /-- `<resizeColBytes>(colBytes, nonEmptyRows, conf.<hint>)` -/
  | resizeBytes (k : CG)
  /-- `<resizeColPointers>(colPointers, conf.<hint>)` -/
  | resizePointers (k : CG)
  /-- `if conf.<alias> != "" { t }` -/
  | ifAlias (t k : CG)
  /-- `headers = <addAliasToMissingColumnNames>(headers, conf.<alias>)` -/
  | applyAlias (k : CG)
  /-- `if conf.<RenameDuplicateColumns> { t }` -/
  | ifRename (t k : CG)
  /-- `headers = <renameDuplicateColumns>(headers)` -/
  | applyRename (k : CG)
  /-- `dataMap := make(map[string]interface{}, len(headers))` -/
  | makeDataMap (k : CG)
  /-- `for i, header := range headers { body }` -/
  | rangeHeadersData (body k : CG)
  /-- `data, err := <columnToData>(colBytes[i], colPointers[i], header, conf); if err != nil { onErr }` -/
  | toData (onErr k : CG)
  /-- `dataMap[header] = data` -/
  | setData (k : CG)
  /-- `if len(conf.<enum declarations>) > 0 { t }` -/
  | ifEnumsLeft (t k : CG)
  /-- `if len(headers) > len(dataMap) { t }` -/
  | ifFewerKeys (t k : CG)
  /-- the list of the duplicate names for the error message (no effect) -/
  | buildDupMessage (k : CG)
  | done
  /-- `return nil, nil, <a non-nil error made on the spot>` -/
  | retErr
  /-- `return dataMap, headers, nil` -/
  | retOk
  | opaque (txt : String)
  deriving DecidableEq, Repr, Inhabited

/-- `δ`: what `columnToData` returns. -/
structure CGSt (δ : Type) where
  headers : List Bytes := []
  /-- the number of records the reader has delivered -/
  pos : Nat := 0
  /-- the record `r.Read()` returned -/
  byteHeader : List Bytes := []
  /-- `len(colPointers)` / `len(colBytes)` once they are made -/
  nPointers : Option Nat := none
  nBytes : Option Nat := none
  /-- the cells appended to each column so far -/
  cells : List (List Bytes) := []
  nonEmpty : Nat := 0
  fields : List Bytes := []
  col : Bytes := []
  /-- the enum declarations that are left in the map -/
  enums : List (Bytes × List Bytes) := []
  header : Bytes := []
  data : Option δ := none
  dataMap : Option (List (Bytes × δ)) := none

inductive CGOut (δ : Type) where
  | next (σ : CGSt δ)
  | cont (σ : CGSt δ)
  | retErr
  | retOk (m : List (Bytes × δ)) (headers : List Bytes)
  | stuck

/-- `dataMap[k] = d` -/
def cgInsert {δ : Type} : List (Bytes × δ) → Bytes → δ → List (Bytes × δ)
  | [], k, d => [(k, d)]
  | e :: rest, k, d => if e.1 == k then (k, d) :: rest else e :: cgInsert rest k d

/-- The scripted reader, the configuration, the functions that are called. -/
structure CGEnv (δ : Type) where
  /-- `conf.Headers` -/
  confHeaders : List Bytes
  ignoreEmpty : Bool
  rename : Bool
  «alias» : Bytes
  /-- `conf.RowCountHint > 2000` -/
  hintBig : Bool
  /-- `conf.EnumVals` -/
  enums : List (Bytes × List Bytes)
  /-- the records `Next` delivers, each with "`r.Err()` is non-nil now" -/
  records : List (List Bytes × Bool)
  /-- `r.Err() != nil` once `Next` has returned false -/
  finalErr : Bool
  /-- `isEmptyLine(fields)`: `none` = no meaning -/
  isEmptyLine : List Bytes → Option Bool
  addAlias : List Bytes → Bytes → Option (List Bytes)
  renameDup : List Bytes → Option (List Bytes)
  /-- `columnToData(blob, pointers, name, conf)` on the cells of a column, with the enum declarations left in the map:
  `none` = no meaning, `some none` = an error, `some (some (d, deleted))`: the data, and whether `delete` removed the
  declaration of `name` -/
  toData : List (Bytes × List Bytes) → Bytes → List Bytes → Option (Option (δ × Bool))

def iterCG {δ α : Type} (step : Nat → α → CGSt δ → CGOut δ) : Nat → List α → CGSt δ → CGOut δ
  | _, [], σ => .next σ
  | i, a :: as, σ =>
    match step i a σ with
    | .next σ' => iterCG step (i + 1) as σ'
    | .cont σ' => iterCG step (i + 1) as σ'
    | r => r

/-- `if c { t }; k` -/
def cgIf {δ : Type} (c : Bool) (t k : CGSt δ → CGOut δ) (σ : CGSt δ) : CGOut δ :=
  if c then
    match t σ with
    | .next σ' => k σ'
    | r => r
  else k σ

/-- `cur`: the index of the round of the innermost `range` with an index; `rec`: the record of the round of `for r.Next()`
with its error flag (`none`: outside that loop, after it when `after` is set). -/
def CG.run {δ : Type} (E : CGEnv δ) : CG → Option Nat → Option (List Bytes × Bool) → CGSt δ → CGOut δ
  | .newReader k, cur, rc, σ => k.run E cur rc σ
  | .headersFromConf k, cur, rc, σ => k.run E cur rc { σ with headers := E.confHeaders }
  | .ifNoHeaders t k, cur, rc, σ => cgIf (σ.headers.length == 0) (t.run E cur rc) (k.run E cur rc) σ
  | .readHeader onErr k, cur, rc, σ =>
    -- `Read` is `Next` and `Fields`: an error exactly when there is no further record
    match rc with
    | some _ => .stuck
    | none =>
      match E.records[σ.pos]? with
      | none =>
        match onErr.run E cur rc σ with
        | .next σ' => k.run E cur rc σ'
        | r => r
      | some r0 => k.run E cur rc { σ with byteHeader := r0.1, pos := σ.pos + 1 }
  | .makeHeaders k, cur, rc, σ => k.run E cur rc { σ with headers := List.replicate σ.byteHeader.length [] }
  | .rangeHeaders body k, cur, rc, σ =>
    match iterCG (fun i (_ : Bytes) τ => body.run E (some i) rc τ) 0 σ.headers σ with
    | .next σ' => k.run E cur rc σ'
    | r => r
  | .setHeaderFromRecord k, cur, rc, σ =>
    match cur with
    | none => .stuck
    | some i =>
      match σ.byteHeader[i]? with
      | some b => if i < σ.headers.length then k.run E cur rc { σ with headers := σ.headers.set i b } else .stuck
      | none => .stuck
  | .makePointers k, cur, rc, σ => k.run E cur rc { σ with nPointers := some σ.headers.length }
  | .setEmptyPointers k, cur, rc, σ =>
    match cur, σ.nPointers with
    | some i, some n => if i < n then k.run E cur rc σ else .stuck
    | _, _ => .stuck
  | .makeBytes k, cur, rc, σ =>
    k.run E cur rc { σ with nBytes := some σ.headers.length, cells := List.replicate σ.headers.length [] }
  | .initRow k, cur, rc, σ => k.run E cur rc σ
  | .initNonEmpty k, cur, rc, σ => k.run E cur rc { σ with nonEmpty := 0 }
  | .forNext body k, cur, rc, σ =>
    match rc with
    | some _ => .stuck
    | none =>
      match iterCG (fun _ r τ => body.run E cur (some r) τ) 0 (E.records.drop σ.pos) σ with
      | .next σ' => k.run E cur rc σ'
      | r => r
  | .ifReaderErr t k, cur, rc, σ =>
    cgIf (match rc with | some r => r.2 | none => E.finalErr) (t.run E cur rc) (k.run E cur rc) σ
  | .incRow k, cur, rc, σ => k.run E cur rc σ
  | .bindFields k, cur, rc, σ =>
    match rc with
    | some r => k.run E cur rc { σ with fields := r.1 }
    | none => .stuck
  | .ifWrongWidth t k, cur, rc, σ => cgIf (σ.fields.length != σ.headers.length) (t.run E cur rc) (k.run E cur rc) σ
  | .ifEmptyIgnored t k, cur, rc, σ =>
    match E.isEmptyLine σ.fields with
    | none => .stuck
    | some b => cgIf (b && E.ignoreEmpty) (t.run E cur rc) (k.run E cur rc) σ
  | .cont, _, rc, σ => if rc.isSome then .cont σ else .stuck
  | .rangeFields body k, cur, rc, σ =>
    match iterCG (fun i c τ => body.run E (some i) rc { τ with col := c }) 0 σ.fields σ with
    | .next σ' => k.run E cur rc σ'
    | r => r
  | .appendField k, cur, rc, σ =>
    match cur, σ.nPointers, σ.nBytes with
    | some i, some n1, some n2 =>
      if i < n1 ∧ i < n2 ∧ i < σ.cells.length then
        k.run E cur rc { σ with cells := σ.cells.set i (σ.cells[i]! ++ [σ.col]) }
      else .stuck
    | _, _, _ => .stuck
  | .incNonEmpty k, cur, rc, σ => k.run E cur rc { σ with nonEmpty := σ.nonEmpty + 1 }
  | .ifResizeDue t k, cur, rc, σ => cgIf (σ.nonEmpty == 1000 && E.hintBig) (t.run E cur rc) (k.run E cur rc) σ
  | .resizeBytes k, cur, rc, σ => if σ.nBytes.isSome then k.run E cur rc σ else .stuck
  | .resizePointers k, cur, rc, σ => if σ.nPointers.isSome then k.run E cur rc σ else .stuck
  | .ifAlias t k, cur, rc, σ => cgIf (!E.«alias».isEmpty) (t.run E cur rc) (k.run E cur rc) σ
  | .applyAlias k, cur, rc, σ =>
    match E.addAlias σ.headers E.«alias» with
    | some hs => k.run E cur rc { σ with headers := hs }
    | none => .stuck
  | .ifRename t k, cur, rc, σ => cgIf E.rename (t.run E cur rc) (k.run E cur rc) σ
  | .applyRename k, cur, rc, σ =>
    match E.renameDup σ.headers with
    | some hs => k.run E cur rc { σ with headers := hs }
    | none => .stuck
  | .makeDataMap k, cur, rc, σ => k.run E cur rc { σ with dataMap := some [], enums := E.enums }
  | .rangeHeadersData body k, cur, rc, σ =>
    match iterCG (fun i h τ => body.run E (some i) rc { τ with header := h }) 0 σ.headers σ with
    | .next σ' => k.run E cur rc σ'
    | r => r
  | .toData onErr k, cur, rc, σ =>
    match cur.bind (fun i => σ.cells[i]?) with
    | none => .stuck
    | some cs =>
      match E.toData σ.enums σ.header cs with
      | none => .stuck
      | some none =>
        match onErr.run E cur rc σ with
        | .next σ' => k.run E cur rc σ'
        | r => r
      | some (some (d, deleted)) =>
        let enums' := if deleted then σ.enums.filter (fun e => e.1 != σ.header) else σ.enums
        k.run E cur rc { σ with data := some d, enums := enums' }
  | .setData k, cur, rc, σ =>
    match σ.dataMap, σ.data with
    | some m, some d => k.run E cur rc { σ with dataMap := some (cgInsert m σ.header d) }
    | _, _ => .stuck
  | .ifEnumsLeft t k, cur, rc, σ => cgIf (σ.enums.length > 0) (t.run E cur rc) (k.run E cur rc) σ
  | .ifFewerKeys t k, cur, rc, σ =>
    match σ.dataMap with
    | some m => cgIf (σ.headers.length > m.length) (t.run E cur rc) (k.run E cur rc) σ
    | none => .stuck
  | .buildDupMessage k, cur, rc, σ => k.run E cur rc σ
  | .done, _, _, σ => .next σ
  | .retErr, _, _, _ => .retErr
  | .retOk, _, _, σ =>
    match σ.dataMap with
    | some m => .retOk m σ.headers
    | none => .stuck
  | .opaque _, _, _, _ => .stuck

/-- `none` = no meaning; `some none` = an error; `some (some (dataMap, headers))` -/
def runReadCsv {δ : Type} (E : CGEnv δ) (t : CG) : Option (Option (List (Bytes × δ) × List Bytes)) :=
  match t.run E none none {} with
  | .retOk m hs => some (some (m, hs))
  | .retErr => some none
  | _ => none

def CG.hasOpaque : CG → Bool
  | .opaque _ => true
  | .ifNoHeaders b k | .readHeader b k | .rangeHeaders b k | .forNext b k | .ifReaderErr b k | .ifWrongWidth b k
  | .ifEmptyIgnored b k | .rangeFields b k | .ifResizeDue b k | .ifAlias b k | .ifRename b k | .rangeHeadersData b k
  | .toData b k | .ifEnumsLeft b k | .ifFewerKeys b k => b.hasOpaque || k.hasOpaque
  | .newReader k | .headersFromConf k | .makeHeaders k | .setHeaderFromRecord k | .makePointers k | .setEmptyPointers k
  | .makeBytes k | .initRow k | .initNonEmpty k | .incRow k | .bindFields k | .appendField k | .incNonEmpty k
  | .resizeBytes k | .resizePointers k | .applyAlias k | .applyRename k | .makeDataMap k | .setData k
  | .buildDupMessage k => k.hasOpaque
  | _ => false

/-! ## `ReadCSV` of the root package -/

inductive CGU where
  /-- `conf := csv.NewConfig(confFuncs)` -/
  | newConfig (k : CGU)
  /-- `data, columns, err := <io.ReadCSV>(reader, <io.CSVConfig>(conf)); if err != nil { onErr }` -/
  | readCsv (onErr k : CGU)
  /-- `return QFrame{Err: err}` -/
  | retErrFrame
  /-- `return New(data, newqf.ColumnOrder(columns...))` -/
  | retNewOrdered
  | opaque (txt : String)
  deriving DecidableEq, Repr, Inhabited

/-- `read`: what `io.ReadCSV` returns for the reader and the configuration (`none`: an error); `new`: `New` with the column
order; `errFrame`: the frame of a non-nil error. `none` = no meaning. -/
def CGU.run {α ρ : Type} (read : Option α) (new : α → ρ) (errFrame : ρ) : CGU → Bool → Option (Option α) → Option ρ
  | .newConfig k, _, r => k.run read new errFrame true r
  | .readCsv onErr k, conf, _ =>
    if conf then
      match read with
      | none => onErr.run read new errFrame conf (some none)
      | some x => k.run read new errFrame conf (some (some x))
    else none
  | .retErrFrame, _, r =>
    match r with
    | some none => some errFrame
    | _ => none
  | .retNewOrdered, _, r =>
    match r with
    | some (some x) => some (new x)
    | _ => none
  | .opaque _, _, _ => none

def CGU.hasOpaque : CGU → Bool
  | .opaque _ => true
  | .readCsv a b => a.hasOpaque || b.hasOpaque
  | .newConfig k => k.hasOpaque
  | _ => false

end QF
